/-
  C07: the structure terms live in `WB/Model/C07.lean` (core Lean only, so that the regenerated table check loads
  fast); this module only re-exports them for the proofs.
-/
import WB.Model.C07
import WB.Lemmas.C07Expr
