/-
  C08 — semantics of the graded calculus and soundness of `grade`, `isReal`, `declOK_TR`, `declOK_Inv`.

  The semantic domain is ANY ring `R` (think: band-matrix valued functions of k) with
    conj  : ring endomorphism (elementwise complex conjugation)
    rev   : ring endomorphism (k ↦ -k), commuting with conj, both involutive
    dag   : additive map (Hermitian transpose) commuting with conj and rev
    D     : additive map (∂_k) with  D (rev x) = - rev (D x)  and  conj (D x) = D (conj x)
    lin t : additive maps (index operations) commuting with conj, rev
    emask t : additive maps (multiplication by real functions of the energies) commuting with conj
    hmul  : bi-additive product (elementwise product) respected by conj and rev
    I, cst q : elements with conj I = -I, rev I = I, conj (cst q) = rev (cst q) = cst q
    tau p : additive maps (permutations of the cartesian axes of the observable) commuting with conj
-/
import WB.Model.C08
import Mathlib.Algebra.Ring.Hom.Defs
import Mathlib.Algebra.Group.Hom.Basic
import Mathlib.Algebra.Ring.Basic
import Mathlib.Tactic.Abel
import Mathlib.Tactic.NoncommRing

namespace WB.C08

structure Alg (R : Type) [Ring R] where
  conj : R →+* R
  rev : R →+* R
  dag : R →+ R
  D : R →+ R
  lin : Nat → R →+ R
  emask : Nat → R →+ R
  hmul : R →+ R →+ R
  tau : List Nat → R →+ R
  I : R
  cst : Rat → R
  wann : Name → R
  U : R
  E : R
  conj_conj : ∀ x, conj (conj x) = x
  rev_rev : ∀ x, rev (rev x) = x
  rev_conj : ∀ x, rev (conj x) = conj (rev x)
  rev_dag : ∀ x, rev (dag x) = dag (rev x)
  conj_dag : ∀ x, conj (dag x) = dag (conj x)
  rev_D : ∀ x, D (rev x) = -rev (D x)
  conj_D : ∀ x, conj (D x) = D (conj x)
  rev_lin : ∀ t x, rev (lin t x) = lin t (rev x)
  conj_lin : ∀ t x, conj (lin t x) = lin t (conj x)
  conj_emask : ∀ t x, conj (emask t x) = emask t (conj x)
  rev_hmul : ∀ x y, rev (hmul x y) = hmul (rev x) (rev y)
  conj_hmul : ∀ x y, conj (hmul x y) = hmul (conj x) (conj y)
  conj_tau : ∀ p x, conj (tau p x) = tau p (conj x)
  conj_I : conj I = -I
  rev_I : rev I = I
  conj_cst : ∀ q, conj (cst q) = cst q
  rev_cst : ∀ q, rev (cst q) = cst q
  conj_E : conj E = E

variable {R : Type} [Ring R]

/-- (-1)^b · x -/
def sg (b : Bool) (x : R) : R := if b then -x else x

@[simp] theorem sg_false (x : R) : sg false x = x := rfl
@[simp] theorem sg_true (x : R) : sg true x = -x := rfl

theorem sg_add (b : Bool) (x y : R) : sg b (x + y) = sg b x + sg b y := by
  cases b
  · simp
  · simp; abel

theorem sg_neg (b : Bool) (x : R) : sg b (-x) = -sg b x := by
  cases b <;> simp

theorem sg_mul (a b : Bool) (x y : R) : sg a x * sg b y = sg (xor a b) (x * y) := by
  cases a <;> cases b <;> simp

theorem sg_sg (a b : Bool) (x : R) : sg a (sg b x) = sg (xor a b) x := by
  cases a <;> cases b <;> simp

theorem map_sg {S : Type} [Ring S] (f : R →+ S) (b : Bool) (x : R) : f (sg b x) = sg b (f x) := by
  cases b <;> simp

theorem map_sg' (f : R →+* R) (b : Bool) (x : R) : f (sg b x) = sg b (f x) := by
  cases b <;> simp

theorem sg_not (b : Bool) (x : R) : sg (!b) x = -sg b x := by
  cases b <;> simp

/-- semantics -/
def eval (A : Alg R) : PExpr → R
  | .wann n => A.wann n
  | .U => A.U
  | .E => A.E
  | .const q => A.cst q
  | .I => A.I
  | .zero => 0
  | .add x y => eval A x + eval A y
  | .neg x => -eval A x
  | .mul x y => eval A x * eval A y
  | .hmul x y => A.hmul (eval A x) (eval A y)
  | .dagger x => A.dag (eval A x)
  | .conjE x => A.conj (eval A x)
  | .deriv x => A.D (eval A x)
  | .lin t x => A.lin t (eval A x)
  | .emask t x => A.emask t (eval A x)
  | .re x => A.cst (1/2) * (eval A x + A.conj (eval A x))
  | .im x => A.cst (-1/2) * (A.I * (eval A x - A.conj (eval A x)))

def Grade.trOdd : Grade → Bool
  | .val t _ => t
  | _ => false
def Grade.invOdd : Grade → Bool
  | .val _ i => i
  | _ => false

/-- the model is time-reversal symmetric (spinless): real-space matrices real / imaginary as `baseGrade` says,
    eigenvectors in the gauge U(-k) = conj U(k), energies even -/
structure TRSym (A : Alg R) : Prop where
  wann : ∀ n, A.rev (A.wann n) = sg (baseGrade n).trOdd (A.conj (A.wann n))
  U : A.rev A.U = A.conj A.U
  E : A.rev A.E = A.E
  emask : ∀ t x, A.rev (A.emask t x) = A.emask t (A.rev x)

/-- the model is inversion symmetric (in the gauge where the Wannier functions are parity eigenstates at the origin) -/
structure InvSym (A : Alg R) : Prop where
  wann : ∀ n, A.rev (A.wann n) = sg (baseGrade n).invOdd (A.wann n)
  U : A.rev A.U = A.U
  E : A.rev A.E = A.E
  emask : ∀ t x, A.rev (A.emask t x) = A.emask t (A.rev x)

/-- what a grade asserts about a value under time reversal -/
def SoundTR (A : Alg R) (g : Grade) (v : R) : Prop :=
  match g with
  | .bad => True
  | .zero => v = 0
  | .val t _ => A.rev v = sg t (A.conj v)

def SoundInv (A : Alg R) (g : Grade) (v : R) : Prop :=
  match g with
  | .bad => True
  | .zero => v = 0
  | .val _ i => A.rev v = sg i v

theorem baseGrade_isVal (n : Name) : ∃ t i, baseGrade n = .val t i := by
  cases n <;> exact ⟨_, _, rfl⟩

section TR
variable (A : Alg R)

theorem soundTR_add {g1 g2 : Grade} {v1 v2 : R} (h1 : SoundTR A g1 v1) (h2 : SoundTR A g2 v2) :
    SoundTR A (g1.add g2) (v1 + v2) := by
  cases g1 <;> cases g2 <;> simp only [Grade.add, SoundTR] at * <;> try trivial
  · simp [h1, h2]
  · subst h1; simpa using h2
  · subst h2; simpa using h1
  · rename_i a b c d
    by_cases h : a = c ∧ b = d
    · obtain ⟨rfl, rfl⟩ := h
      simp only [and_self, if_true, map_add, h1, h2, sg_add]
    · simp only [h, if_false]

theorem soundTR_mul {g1 g2 : Grade} {v1 v2 : R} (h1 : SoundTR A g1 v1) (h2 : SoundTR A g2 v2) :
    SoundTR A (g1.mul g2) (v1 * v2) := by
  cases g1 <;> cases g2 <;> simp only [Grade.mul, SoundTR] at * <;> try trivial
  · simp [h1]
  · simp [h1]
  · simp [h2]
  · simp only [map_mul, h1, h2, sg_mul]

theorem soundTR_hmul {g1 g2 : Grade} {v1 v2 : R} (h1 : SoundTR A g1 v1) (h2 : SoundTR A g2 v2) :
    SoundTR A (g1.mul g2) (A.hmul v1 v2) := by
  cases g1 <;> cases g2 <;> simp only [Grade.mul, SoundTR] at * <;> try trivial
  · simp [h1]
  · simp [h1]
  · simp [h2]
  · rename_i a b c d
    rw [A.rev_hmul, h1, h2, A.conj_hmul]
    cases a <;> cases c <;> simp

theorem soundTR_map (f : R →+ R) (hr : ∀ x, A.rev (f x) = f (A.rev x)) (hc : ∀ x, A.conj (f x) = f (A.conj x))
    {g : Grade} {v : R} (h : SoundTR A g v) : SoundTR A g (f v) := by
  cases g <;> simp only [SoundTR] at *
  · simp [h]
  · rw [hr, h, hc, map_sg]

theorem soundTR_neg {g : Grade} {v : R} (h : SoundTR A g v) : SoundTR A g (-v) := by
  cases g <;> simp only [SoundTR] at *
  · simp [h]
  · rw [map_neg, h, map_neg, sg_neg]

theorem grade_sound_TR_aux (hA : TRSym A) : ∀ e : PExpr, SoundTR A (grade e) (eval A e)
  | .wann n => by
    obtain ⟨t, i, hb⟩ := baseGrade_isVal n
    have := hA.wann n
    rw [hb] at this
    simp only [grade, eval, hb, SoundTR]
    exact this
  | .U => by simp [grade, eval, SoundTR, hA.U]
  | .E => by simp [grade, eval, SoundTR, hA.E, A.conj_E]
  | .const q => by simp [grade, eval, SoundTR, A.rev_cst, A.conj_cst]
  | .I => by simp [grade, eval, SoundTR, A.rev_I, A.conj_I]
  | .zero => by simp [grade, eval, SoundTR]
  | .add x y => soundTR_add A (grade_sound_TR_aux hA x) (grade_sound_TR_aux hA y)
  | .neg x => soundTR_neg A (grade_sound_TR_aux hA x)
  | .mul x y => soundTR_mul A (grade_sound_TR_aux hA x) (grade_sound_TR_aux hA y)
  | .hmul x y => soundTR_hmul A (grade_sound_TR_aux hA x) (grade_sound_TR_aux hA y)
  | .dagger x => soundTR_map A A.dag A.rev_dag A.conj_dag (grade_sound_TR_aux hA x)
  | .conjE x => soundTR_map A A.conj.toAddMonoidHom A.rev_conj (fun _ => rfl) (grade_sound_TR_aux hA x)
  | .lin t x => soundTR_map A (A.lin t) (A.rev_lin t) (A.conj_lin t) (grade_sound_TR_aux hA x)
  | .emask t x => soundTR_map A (A.emask t) (hA.emask t) (A.conj_emask t) (grade_sound_TR_aux hA x)
  | .deriv x => by
    have h := grade_sound_TR_aux hA x
    simp only [grade, eval]
    cases hg : grade x <;> simp only [hg, Grade.flip, SoundTR] at *
    · simp [h]
    · have h2 := A.rev_D (eval A x)
      have h3 : A.D (eval A x) = -A.rev (A.D (A.rev (eval A x))) := by
        rw [A.rev_D, map_neg, A.rev_rev]; simp
      -- rev (D v) = - D (rev v)
      have h4 : A.rev (A.D (eval A x)) = -A.D (A.rev (eval A x)) := by
        rw [A.rev_D]; simp
      rw [h4, h, map_sg, A.conj_D, sg_not]
  | .re x => by
    have h := grade_sound_TR_aux hA x
    simp only [grade, eval]
    cases hg : grade x <;> simp only [hg, SoundTR] at *
    · simp [h]
    · simp only [map_mul, map_add, A.rev_cst, A.conj_cst, A.rev_conj, h, map_sg']
      rename_i t i
      cases t
      · simp
      · simp; noncomm_ring
  | .im x => by
    have h := grade_sound_TR_aux hA x
    simp only [grade, eval]
    cases hg : grade x <;> simp only [hg, Grade.flipTR, SoundTR] at *
    · simp [h]
    · simp only [map_mul, map_sub, A.rev_cst, A.conj_cst, A.rev_conj, A.rev_I, A.conj_I, h, map_sg']
      rename_i t i
      cases t
      · simp
      · simp; noncomm_ring

end TR

section Inv
variable (A : Alg R)

theorem soundInv_add {g1 g2 : Grade} {v1 v2 : R} (h1 : SoundInv A g1 v1) (h2 : SoundInv A g2 v2) :
    SoundInv A (g1.add g2) (v1 + v2) := by
  cases g1 <;> cases g2 <;> simp only [Grade.add, SoundInv] at * <;> try trivial
  · simp [h1, h2]
  · subst h1; simpa using h2
  · subst h2; simpa using h1
  · rename_i a b c d
    by_cases h : a = c ∧ b = d
    · obtain ⟨rfl, rfl⟩ := h
      simp only [and_self, if_true, map_add, h1, h2, sg_add]
    · simp only [h, if_false]

theorem soundInv_mul {g1 g2 : Grade} {v1 v2 : R} (h1 : SoundInv A g1 v1) (h2 : SoundInv A g2 v2) :
    SoundInv A (g1.mul g2) (v1 * v2) := by
  cases g1 <;> cases g2 <;> simp only [Grade.mul, SoundInv] at * <;> try trivial
  · simp [h1]
  · simp [h1]
  · simp [h2]
  · simp only [map_mul, h1, h2, sg_mul]

theorem soundInv_hmul {g1 g2 : Grade} {v1 v2 : R} (h1 : SoundInv A g1 v1) (h2 : SoundInv A g2 v2) :
    SoundInv A (g1.mul g2) (A.hmul v1 v2) := by
  cases g1 <;> cases g2 <;> simp only [Grade.mul, SoundInv] at * <;> try trivial
  · simp [h1]
  · simp [h1]
  · simp [h2]
  · rename_i a b c d
    rw [A.rev_hmul, h1, h2]
    cases b <;> cases d <;> simp

theorem soundInv_map (f : R →+ R) (hr : ∀ x, A.rev (f x) = f (A.rev x))
    {g : Grade} {v : R} (h : SoundInv A g v) : SoundInv A g (f v) := by
  cases g <;> simp only [SoundInv] at *
  · simp [h]
  · rw [hr, h, map_sg]

theorem soundInv_neg {g : Grade} {v : R} (h : SoundInv A g v) : SoundInv A g (-v) := by
  cases g <;> simp only [SoundInv] at *
  · simp [h]
  · rw [map_neg, h, sg_neg]

theorem grade_sound_Inv_aux (hA : InvSym A) : ∀ e : PExpr, SoundInv A (grade e) (eval A e)
  | .wann n => by
    obtain ⟨t, i, hb⟩ := baseGrade_isVal n
    have := hA.wann n
    rw [hb] at this
    simp only [grade, eval, hb, SoundInv]
    exact this
  | .U => by simp [grade, eval, SoundInv, hA.U]
  | .E => by simp [grade, eval, SoundInv, hA.E]
  | .const q => by simp [grade, eval, SoundInv, A.rev_cst]
  | .I => by simp [grade, eval, SoundInv, A.rev_I]
  | .zero => by simp [grade, eval, SoundInv]
  | .add x y => soundInv_add A (grade_sound_Inv_aux hA x) (grade_sound_Inv_aux hA y)
  | .neg x => soundInv_neg A (grade_sound_Inv_aux hA x)
  | .mul x y => soundInv_mul A (grade_sound_Inv_aux hA x) (grade_sound_Inv_aux hA y)
  | .hmul x y => soundInv_hmul A (grade_sound_Inv_aux hA x) (grade_sound_Inv_aux hA y)
  | .dagger x => soundInv_map A A.dag A.rev_dag (grade_sound_Inv_aux hA x)
  | .conjE x => soundInv_map A A.conj.toAddMonoidHom A.rev_conj (grade_sound_Inv_aux hA x)
  | .lin t x => soundInv_map A (A.lin t) (A.rev_lin t) (grade_sound_Inv_aux hA x)
  | .emask t x => soundInv_map A (A.emask t) (hA.emask t) (grade_sound_Inv_aux hA x)
  | .deriv x => by
    have h := grade_sound_Inv_aux hA x
    simp only [grade, eval]
    cases hg : grade x <;> simp only [hg, Grade.flip, SoundInv] at *
    · simp [h]
    · have h4 : A.rev (A.D (eval A x)) = -A.D (A.rev (eval A x)) := by
        rw [A.rev_D]; simp
      rw [h4, h, map_sg, sg_not]
  | .re x => by
    have h := grade_sound_Inv_aux hA x
    simp only [grade, eval]
    cases hg : grade x <;> simp only [hg, SoundInv] at *
    · simp [h]
    · simp only [map_mul, map_add, A.rev_cst, A.rev_conj, h, map_sg']
      rename_i t i
      cases i
      · simp
      · simp; noncomm_ring
  | .im x => by
    have h := grade_sound_Inv_aux hA x
    simp only [grade, eval]
    cases hg : grade x <;> simp only [hg, Grade.flipTR, SoundInv] at *
    · simp [h]
    · simp only [map_mul, map_sub, A.rev_cst, A.rev_conj, A.rev_I, h, map_sg']
      rename_i t i
      cases i
      · simp
      · simp; noncomm_ring

end Inv

/-- structural realness is sound -/
theorem isReal_sound_aux (A : Alg R) : ∀ e : PExpr, isReal e = true → A.conj (eval A e) = eval A e
  | .const q, _ => A.conj_cst q
  | .zero, _ => by simp [eval]
  | .E, _ => A.conj_E
  | .re x, _ => by
    simp only [eval, map_mul, map_add, A.conj_cst, A.conj_conj]
    rw [add_comm]
  | .im x, _ => by
    simp only [eval, map_mul, map_sub, A.conj_cst, A.conj_conj, A.conj_I]
    noncomm_ring
  | .add x y, h => by
    simp only [isReal, Bool.and_eq_true] at h
    simp [eval, isReal_sound_aux A x h.1, isReal_sound_aux A y h.2]
  | .neg x, h => by
    simp only [isReal] at h
    simp [eval, isReal_sound_aux A x h]
  | .mul x y, h => by
    simp only [isReal, Bool.and_eq_true] at h
    simp [eval, isReal_sound_aux A x h.1, isReal_sound_aux A y h.2]
  | .hmul x y, h => by
    simp only [isReal, Bool.and_eq_true] at h
    simp [eval, A.conj_hmul, isReal_sound_aux A x h.1, isReal_sound_aux A y h.2]
  | .conjE x, h => by
    simp only [isReal] at h
    simp [eval, isReal_sound_aux A x h]
  | .deriv x, h => by
    simp only [isReal] at h
    simp [eval, A.conj_D, isReal_sound_aux A x h]
  | .lin t x, h => by
    simp only [isReal] at h
    simp [eval, A.conj_lin, isReal_sound_aux A x h]
  | .emask t x, h => by
    simp only [isReal] at h
    simp [eval, A.conj_emask, isReal_sound_aux A x h]
  | .wann _, h => by simp [isReal] at h
  | .U, h => by simp [isReal] at h
  | .I, h => by simp [isReal] at h
  | .dagger _, h => by simp [isReal] at h

/-! ## applying a declared `Transform` -/

def conjIf (A : Alg R) (b : Bool) (x : R) : R := if b then A.conj x else x

def permOp (A : Alg R) : Option (List Nat) → R → R
  | none, x => x
  | some p, x => A.tau p x

/-- `Transform.__call__`: permute the axes, conjugate, multiply by the factor -/
def applyDecl (A : Alg R) (d : Decl) (x : R) : R := sg d.odd (conjIf A d.conj (permOp A d.transpose x))

/-- the semantic content of a `TauFact` -/
def TauHolds (A : Alg R) (t : TauFact) (x : R) : Prop :=
  A.tau t.perm x = sg t.neg (conjIf A t.withConj x)

theorem conjIf_sg (A : Alg R) (b c : Bool) (x : R) : conjIf A b (sg c x) = sg c (conjIf A b x) := by
  cases b <;> cases c <;> simp [conjIf]

theorem conjIf_conjIf (A : Alg R) (b c : Bool) (x : R) : conjIf A b (conjIf A c x) = conjIf A (xor b c) x := by
  cases b <;> cases c <;> simp [conjIf, A.conj_conj]

theorem declOK_TR_sound_aux (A : Alg R) (s real : Bool) (facts : List TauFact) (d : Decl) (x : R)
    (hx : A.rev x = sg s (A.conj x)) (hreal : real = true → A.conj x = x)
    (hfacts : ∀ t ∈ facts, TauHolds A t x) (hok : declOK_TR s real facts d = true) :
    applyDecl A d x = A.rev x := by
  obtain ⟨odd, cj, tp⟩ := d
  cases tp with
  | none =>
    simp only [declOK_TR, Bool.and_eq_true, beq_iff_eq, Bool.or_eq_true] at hok
    obtain ⟨rfl, h2⟩ := hok
    simp only [applyDecl, permOp, hx]
    rcases h2 with h2 | h2
    · subst h2; simp [conjIf]
    · cases cj <;> simp [conjIf, hreal h2]
  | some p =>
    simp only [declOK_TR, List.any_eq_true, Bool.and_eq_true, beq_iff_eq, Bool.or_eq_true] at hok
    obtain ⟨t, ht, ⟨hp, hs⟩, h3⟩ := hok
    have hf := hfacts t ht
    simp only [TauHolds, hp] at hf
    simp only [applyDecl, permOp, hf, conjIf_sg, conjIf_conjIf, sg_sg, hs, hx]
    congr 1
    rcases h3 with h3 | h3
    · rw [h3]; simp [conjIf]
    · cases hh : xor cj t.withConj <;> simp [conjIf, hreal h3]

theorem declOK_Inv_sound_aux (A : Alg R) (s real : Bool) (facts : List TauFact) (d : Decl) (x : R)
    (hx : A.rev x = sg s x) (hreal : real = true → A.conj x = x)
    (hfacts : ∀ t ∈ facts, TauHolds A t x) (hok : declOK_Inv s real facts d = true) :
    applyDecl A d x = A.rev x := by
  obtain ⟨odd, cj, tp⟩ := d
  cases tp with
  | none =>
    simp only [declOK_Inv, Bool.and_eq_true, beq_iff_eq, Bool.or_eq_true, Bool.not_eq_true'] at hok
    obtain ⟨rfl, h2⟩ := hok
    simp only [applyDecl, permOp, hx]
    rcases h2 with h2 | h2
    · subst h2; simp [conjIf]
    · cases cj <;> simp [conjIf, hreal h2]
  | some p =>
    simp only [declOK_Inv, List.any_eq_true, Bool.and_eq_true, beq_iff_eq, Bool.or_eq_true,
      Bool.not_eq_true'] at hok
    obtain ⟨t, ht, ⟨hp, hs⟩, h3⟩ := hok
    have hf := hfacts t ht
    simp only [TauHolds, hp] at hf
    simp only [applyDecl, permOp, hf, conjIf_sg, conjIf_conjIf, sg_sg, hs, hx]
    congr 1
    rcases h3 with h3 | h3
    · rw [h3]; simp [conjIf]
    · cases hh : xor cj t.withConj <;> simp [conjIf, hreal h3]

/-! ## the parity rule of `Data_K.covariant` -/

def Grade.flipN (g : Grade) (d : Nat) : Grade := if d % 2 = 0 then g else g.flip

theorem grade_wannExpr (n : Name) : grade (wannExpr n) = baseGrade n := by
  cases n <;> rfl

theorem grade_derivN (d : Nat) (x : PExpr) : grade (derivN d x) = (grade x).flipN d := by
  induction d with
  | zero => simp [derivN, Grade.flipN]
  | succ k ih =>
    simp only [derivN, grade, ih, Grade.flipN]
    have : (k + 1) % 2 = 0 ↔ ¬ k % 2 = 0 := by omega
    by_cases hk : k % 2 = 0
    · simp [hk, this]
    · simp only [hk, this, if_false, not_false_eq_true, if_true]
      cases grade x <;> simp [Grade.flip]

theorem barGrade_rule_aux (n : Name) (d : Nat) : barGrade n d = (baseGrade n).flipN d := by
  unfold barGrade bar
  show ((grade (PExpr.dagger PExpr.U)).mul (grade (derivN d (wannExpr n)))).mul (grade PExpr.U) = _
  rw [grade_derivN, grade_wannExpr]
  obtain ⟨t, i, h⟩ := baseGrade_isVal n
  rw [h]
  unfold Grade.flipN
  split <;> simp [grade, Grade.mul, Grade.flip]

end WB.C08
