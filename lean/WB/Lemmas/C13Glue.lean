/-
  C13 — the glue around the accumulation: value assembly, overall scalars, hole-like flag, exact ties,
  the need for a uniform grid, and the parameters the band-group dictionary depends on.
-/
import WB.Lemmas.C13FD

namespace WB.C13

/-- additive / non-additive assembly agree whenever the trace is additive over adjacent band ranges -/
theorem assemble_agree_aux (tr : Nat → Nat → Rat)
    (hadd : ∀ a b c, a ≤ b → b ≤ c → tr a b + tr b c = tr a c) (ab : Nat × Nat) (hab : ab.1 ≤ ab.2) :
    assemble false tr ab = assemble true tr ab := by
  unfold assemble
  simp only [Bool.false_eq_true, if_false, if_true]
  have := hadd 0 ab.1 ab.2 (Nat.zero_le _) hab
  linarith

theorem sgn_neg (c : Rat) : sgn (-c) = - sgn c := by
  unfold sgn
  rcases lt_trichotomy c 0 with h | h | h
  · have h1 : -c > 0 := by linarith
    have h2 : ¬ c > 0 := by linarith
    simp [h1, h2, h]
  · subst h; simp
  · have h1 : ¬ (-c > 0) := by linarith
    have h2 : -c < 0 := by linarith
    have h3 : ¬ c < 0 := by linarith
    simp [h1, h2, h, h3]

theorem effFactor_hole (cf : Rat) (u : Bool) : effFactor cf true 0 u = - effFactor cf false 0 u := by
  unfold effFactor
  cases u
  · simp [sgn_neg]
  · simp

theorem effFactor_hole_pos (cf : Rat) (u : Bool) (fder : Nat) (hf : 1 ≤ fder) :
    effFactor cf true fder u = effFactor cf false fder u := by
  unfold effFactor
  have : (fder == 0) = false := by
    cases fder with
    | zero => omega
    | succ n => rfl
  simp [this]

/-- the reported number with every scalar explicit -/
theorem fullUnresolved_formula (cf vol : Rat) (h u : Bool) (fder : Nat) (Ef : Nat → Rat) (n : Nat)
    (ks : List (List Group)) (j : Nat) :
    fullUnresolved cf vol h u fder Ef n ks j =
      effFactor cf h fder u / ((ks.length : Rat) * vol) *
        stencil fder (dEF Ef n)
          (sumK (ks.map (fun g => accumulate (EFmin Ef n fder) (EFmax Ef n fder) (dEF Ef n) g))) j := by
  unfold fullUnresolved unresolved
  rw [div_div, div_mul_eq_mul_div, div_mul_eq_mul_div, mul_comm]

theorem iEf_tie (efmin d : Rat) (hd : 0 < d) (j : Nat) : iEf efmin d (efmin + (j : Rat) * d) = (j : Int) := by
  unfold iEf
  have : (efmin + (j : Rat) * d - efmin) / d = ((j : Int) : Rat) := by
    rw [add_sub_cancel_left, mul_div_assoc, div_self hd.ne', mul_one, Int.cast_natCast]
  rw [this, Rat.ceil_intCast]

/-- `weight_select_bands` and the group filter depend on the selection only as a multiset: any reordering of
    `select_bands` gives the same weight and the same kept groups -/
theorem wsel_perm {l l' : List Nat} (h : l.Perm l') (ab : Nat × Nat) :
    wsel (some l) ab = wsel (some l') ab ∧ selHits (some l) ab = selHits (some l') ab := by
  constructor
  · unfold wsel
    simp only
    rw [(h.filter _).length_eq]
  · unfold selHits
    simp only
    rw [Bool.eq_iff_iff]
    simp only [List.any_eq_true]
    constructor
    · rintro ⟨x, hx, hp⟩; exact ⟨x, h.mem_iff.mp hx, hp⟩
    · rintro ⟨x, hx, hp⟩; exact ⟨x, h.mem_iff.mpr hx, hp⟩

end WB.C13
