/-
  C09 helper lemmas, part 3: tensors.  Axis-wise rotation composes like matrix multiplication, commutes with the
  Transforms (sign, conjugation, axis transposition), and `transform_tensor` is additive.
-/
import WB.Lemmas.C09Group
import Mathlib.Algebra.Ring.Hom.Defs
import Mathlib.Algebra.Group.Pi.Basic
import Mathlib.Algebra.BigOperators.Group.List.Basic
import Mathlib.Tactic.Ring

set_option linter.unusedSectionVars false
set_option linter.unusedSimpArgs false

namespace WB.C09

section Idx
variable {r : Nat}

theorem setIdx_same (idx : Fin r → Fin 3) (a : Fin r) (j : Fin 3) : setIdx idx a j a = j := by
  simp [setIdx]

theorem setIdx_ne (idx : Fin r → Fin 3) {a b : Fin r} (h : b ≠ a) (j : Fin 3) : setIdx idx a j b = idx b := by
  simp [setIdx, h]

theorem setIdx_setIdx_same (idx : Fin r → Fin 3) (a : Fin r) (j k : Fin 3) :
    setIdx (setIdx idx a j) a k = setIdx idx a k := by
  funext b; simp only [setIdx]; split <;> rfl

theorem setIdx_comm (idx : Fin r → Fin 3) {a b : Fin r} (h : a ≠ b) (j k : Fin 3) :
    setIdx (setIdx idx a j) b k = setIdx (setIdx idx b k) a j := by
  funext c
  simp only [setIdx]
  by_cases h1 : c = a
  · by_cases h2 : c = b
    · exact absurd (h1.symm.trans h2) h
    · simp [h1, h2, h]
  · by_cases h2 : c = b
    · subst h2; simp [h1]
    · simp [h1, h2]

end Idx

section Rot
variable {K : Type} [CommRing K] {r : Nat}

theorem rotAxis_comm (A B : Mat K) {a b : Fin r} (h : a ≠ b) (x : Tensor r K) :
    rotAxis A a (rotAxis B b x) = rotAxis B b (rotAxis A a x) := by
  funext idx
  simp only [rotAxis, sum3, setIdx_ne idx (Ne.symm h), setIdx_ne idx h, setIdx_comm idx h]
  ring

theorem rotAxis_rotAxis (A B : Mat K) (a : Fin r) (x : Tensor r K) :
    rotAxis A a (rotAxis B a x) = rotAxis (matMul A B) a x := by
  funext idx
  simp only [rotAxis, sum3, setIdx_same, setIdx_setIdx_same, matMul]
  ring

theorem rotAxes_cons (A : Mat K) (a : Fin r) (l : List (Fin r)) (x : Tensor r K) :
    rotAxes A (a :: l) x = rotAxes A l (rotAxis A a x) := rfl

theorem rotAxis_rotAxes_comm (A B : Mat K) (a : Fin r) (l : List (Fin r)) (h : a ∉ l) (x : Tensor r K) :
    rotAxis A a (rotAxes B l x) = rotAxes B l (rotAxis A a x) := by
  induction l generalizing x with
  | nil => rfl
  | cons b t ih =>
    have hb : a ≠ b := fun e => h (e ▸ List.mem_cons_self)
    have ht : a ∉ t := fun e => h (List.mem_cons_of_mem _ e)
    rw [rotAxes_cons, rotAxes_cons, ih ht, rotAxis_comm A B hb]

theorem rotAxes_mul (A B : Mat K) (l : List (Fin r)) (hl : l.Nodup) (x : Tensor r K) :
    rotAxes A l (rotAxes B l x) = rotAxes (matMul A B) l x := by
  induction l generalizing x with
  | nil => rfl
  | cons a t ih =>
    have ha : a ∉ t := (List.nodup_cons.1 hl).1
    rw [rotAxes_cons, rotAxes_cons, rotAxes_cons, rotAxis_rotAxes_comm A B a t ha, ih (List.nodup_cons.1 hl).2,
      rotAxis_rotAxis]

/-- rotating every axis by `B` and then by `A` is rotating every axis by `A B` -/
theorem rotate_mul (A B : Mat K) (x : Tensor r K) : rotate A (rotate B x) = rotate (matMul A B) x :=
  rotAxes_mul A B _ (List.nodup_finRange r) x

theorem rotAxes_perm (A : Mat K) {l1 l2 : List (Fin r)} (p : l1.Perm l2) (x : Tensor r K) :
    rotAxes A l1 x = rotAxes A l2 x := by
  unfold rotAxes
  refine p.foldl_eq' (fun a _ b _ z => ?_) x
  by_cases h : a = b
  · rw [h]
  · exact rotAxis_comm A A (Ne.symm h) z

theorem rotAxis_id (a : Fin r) (x : Tensor r K) : rotAxis (matId : Mat K) a x = x := by
  funext idx
  have h : ∀ j : Fin 3, setIdx idx a j = idx → True := fun _ _ => trivial
  simp only [rotAxis, sum3, matId]
  have e : ∀ j : Fin 3, idx a = j → setIdx idx a j = idx := by
    intro j hj; funext b; simp only [setIdx]; split
    · rename_i hb; rw [hb, hj]
    · rfl
  rcases (by omega : (idx a).val = 0 ∨ (idx a).val = 1 ∨ (idx a).val = 2) with h0 | h0 | h0
  · have : idx a = 0 := Fin.ext h0
    simp [this, e 0 this]
  · have : idx a = 1 := Fin.ext h0
    simp [this, e 1 this]
  · have : idx a = 2 := Fin.ext h0
    simp [this, e 2 this]

theorem rotate_id (x : Tensor r K) : rotate (matId : Mat K) x = x := by
  unfold rotate rotAxes
  induction (List.finRange r) generalizing x with
  | nil => rfl
  | cons a t ih => rw [List.foldl_cons, rotAxis_id, ih]

/-! additivity -/

theorem rotAxis_add (A : Mat K) (a : Fin r) (x y : Tensor r K) :
    rotAxis A a (x + y) = rotAxis A a x + rotAxis A a y := by
  funext idx; simp only [rotAxis, sum3, Pi.add_apply]; ring

theorem rotAxis_zero (A : Mat K) (a : Fin r) : rotAxis A a (0 : Tensor r K) = 0 := by
  funext idx; simp [rotAxis, sum3]

theorem rotAxes_add (A : Mat K) (l : List (Fin r)) (x y : Tensor r K) :
    rotAxes A l (x + y) = rotAxes A l x + rotAxes A l y := by
  induction l generalizing x y with
  | nil => rfl
  | cons a t ih => rw [rotAxes_cons, rotAxes_cons, rotAxes_cons, rotAxis_add, ih]

theorem rotAxes_zero (A : Mat K) (l : List (Fin r)) : rotAxes A l (0 : Tensor r K) = 0 := by
  induction l with
  | nil => rfl
  | cons a t ih => rw [rotAxes_cons, rotAxis_zero, ih]

end Rot

/-! ### Transforms -/
section Trans
variable {K : Type} [CommRing K] {r : Nat} (conj : K →+* K)

def negIf (b : Bool) (x : Tensor r K) : Tensor r K := if b then (fun idx => - x idx) else x
def conjIf (b : Bool) (x : Tensor r K) : Tensor r K := if b then (fun idx => conj (x idx)) else x

theorem permute_id (x : Tensor r K) : permute (id : Fin r → Fin r) x = x := rfl

theorem Transform.apply_eq (t : Transform r) (x : Tensor r K) :
    t.apply conj x = negIf t.neg (conjIf conj t.conj (permute t.sigma x)) := by
  unfold Transform.apply Transform.sigma negIf conjIf
  cases t.perm <;> rfl

theorem permute_permute (σ τ : Fin r → Fin r) (x : Tensor r K) :
    permute σ (permute τ x) = permute (fun a => σ (τ a)) x := rfl

theorem permute_negIf (σ : Fin r → Fin r) (b : Bool) (x : Tensor r K) :
    permute σ (negIf b x) = negIf b (permute σ x) := by
  cases b <;> rfl

theorem permute_conjIf (σ : Fin r → Fin r) (b : Bool) (x : Tensor r K) :
    permute σ (conjIf conj b x) = conjIf conj b (permute σ x) := by
  cases b <;> rfl

theorem conjIf_negIf (b c : Bool) (x : Tensor r K) :
    conjIf conj b (negIf c x) = negIf c (conjIf conj b x) := by
  cases b <;> cases c <;> simp [conjIf, negIf]

theorem negIf_negIf (b c : Bool) (x : Tensor r K) : negIf b (negIf c x) = negIf c (negIf b x) := by
  cases b <;> cases c <;> simp [negIf]

theorem conjIf_conjIf (b c : Bool) (x : Tensor r K) :
    conjIf conj b (conjIf conj c x) = conjIf conj c (conjIf conj b x) := by
  cases b <;> cases c <;> simp [conjIf]

theorem negIf_self (b : Bool) (x : Tensor r K) : negIf b (negIf b x) = x := by
  cases b <;> simp [negIf]

theorem conjIf_self (hinv : ∀ a, conj (conj a) = a) (b : Bool) (x : Tensor r K) :
    conjIf conj b (conjIf conj b x) = x := by
  cases b <;> simp [conjIf, hinv]

/-- a Transform whose transposition is an involution is an involution -/
theorem Transform.apply_apply (hinv : ∀ a, conj (conj a) = a) (t : Transform r)
    (hσ : ∀ a, t.sigma (t.sigma a) = a) (x : Tensor r K) : t.apply conj (t.apply conj x) = x := by
  rw [Transform.apply_eq, Transform.apply_eq, permute_negIf, permute_conjIf, permute_permute,
    conjIf_negIf, negIf_self, conjIf_self conj hinv]
  show permute (fun a => t.sigma (t.sigma a)) x = x
  simp only [hσ]; rfl

/-- two Transforms whose transpositions commute commute -/
theorem Transform.apply_comm (t s : Transform r) (hσ : ∀ a, t.sigma (s.sigma a) = s.sigma (t.sigma a))
    (x : Tensor r K) : t.apply conj (s.apply conj x) = s.apply conj (t.apply conj x) := by
  simp only [Transform.apply_eq, permute_negIf, permute_conjIf, permute_permute, conjIf_negIf]
  rw [negIf_negIf, conjIf_conjIf]
  simp only [hσ]

/-! rotation commutes with a Transform (real matrix, bijective transposition) -/

theorem rotAxis_negIf (A : Mat K) (a : Fin r) (b : Bool) (x : Tensor r K) :
    rotAxis A a (negIf b x) = negIf b (rotAxis A a x) := by
  cases b
  · rfl
  · funext idx; simp only [rotAxis, negIf, sum3, if_true]; ring

theorem rotAxis_conjIf (A : Mat K) (hA : ∀ i j, conj (A i j) = A i j) (a : Fin r) (b : Bool) (x : Tensor r K) :
    rotAxis A a (conjIf conj b x) = conjIf conj b (rotAxis A a x) := by
  cases b
  · rfl
  · funext idx; simp only [rotAxis, conjIf, sum3, if_true, map_add, map_mul, hA]

theorem rotAxes_negIf (A : Mat K) (l : List (Fin r)) (b : Bool) (x : Tensor r K) :
    rotAxes A l (negIf b x) = negIf b (rotAxes A l x) := by
  induction l generalizing x with
  | nil => rfl
  | cons a t ih => rw [rotAxes_cons, rotAxes_cons, rotAxis_negIf, ih]

theorem rotAxes_conjIf (A : Mat K) (hA : ∀ i j, conj (A i j) = A i j) (l : List (Fin r)) (b : Bool)
    (x : Tensor r K) : rotAxes A l (conjIf conj b x) = conjIf conj b (rotAxes A l x) := by
  induction l generalizing x with
  | nil => rfl
  | cons a t ih => rw [rotAxes_cons, rotAxes_cons, rotAxis_conjIf conj A hA, ih]

theorem rotAxis_permute (A : Mat K) (σ : Fin r → Fin r) (hσ : Function.Injective σ) (b : Fin r)
    (x : Tensor r K) : rotAxis A (σ b) (permute σ x) = permute σ (rotAxis A b x) := by
  funext idx
  simp only [rotAxis, permute]
  have e : ∀ j : Fin 3, (fun c => setIdx idx (σ b) j (σ c)) = setIdx (fun c => idx (σ c)) b j := by
    intro j; funext c
    simp only [setIdx]
    by_cases h : c = b
    · simp [h]
    · have : σ c ≠ σ b := fun e => h (hσ e)
      simp [h, this]
  simp only [e]

theorem rotAxes_permute (A : Mat K) (σ : Fin r → Fin r) (hσ : Function.Injective σ) (l : List (Fin r))
    (x : Tensor r K) : rotAxes A (l.map σ) (permute σ x) = permute σ (rotAxes A l x) := by
  induction l generalizing x with
  | nil => rfl
  | cons a t ih => rw [List.map_cons, rotAxes_cons, rotAxes_cons, rotAxis_permute A σ hσ, ih]

theorem rotate_permute (A : Mat K) (σ : Fin r → Fin r) (hσ : ∀ a, σ (σ a) = a) (x : Tensor r K) :
    rotate A (permute σ x) = permute σ (rotate A x) := by
  have hinj : Function.Injective σ := fun a b e => by rw [← hσ a, ← hσ b, e]
  have hp : ((List.finRange r).map σ).Perm (List.finRange r) := by
    refine (List.perm_ext_iff_of_nodup ((List.nodup_finRange r).map hinj) (List.nodup_finRange r)).2 ?_
    intro a
    simp only [List.mem_map, List.mem_finRange, true_and, iff_true]
    exact ⟨σ a, hσ a⟩
  unfold rotate
  rw [← rotAxes_perm A hp, rotAxes_permute A σ hinj]

/-- a Transform with an involutive transposition commutes with the rotation by a real matrix -/
theorem rotate_apply (A : Mat K) (hA : ∀ i j, conj (A i j) = A i j) (t : Transform r)
    (hσ : ∀ a, t.sigma (t.sigma a) = a) (x : Tensor r K) :
    rotate A (t.apply conj x) = t.apply conj (rotate A x) := by
  rw [Transform.apply_eq, Transform.apply_eq]
  unfold rotate
  rw [rotAxes_negIf, rotAxes_conjIf conj A hA]
  have := rotate_permute A t.sigma hσ x
  unfold rotate at this
  rw [this]

/-! additivity of a Transform -/

theorem Transform.apply_add (t : Transform r) (x y : Tensor r K) :
    t.apply conj (x + y) = t.apply conj x + t.apply conj y := by
  simp only [Transform.apply_eq]
  cases t.neg <;> cases t.conj <;> funext idx <;> simp [negIf, conjIf, permute, Pi.add_apply] <;> ring

theorem Transform.apply_zero (t : Transform r) : t.apply conj (0 : Tensor r K) = 0 := by
  simp only [Transform.apply_eq]
  cases t.neg <;> cases t.conj <;> funext idx <;> simp [negIf, conjIf, permute]

end Trans

/-! ### transform_tensor -/
section TT
variable {F K : Type} [CommRing F] [CommRing K] {r : Nat} (ι : F →+* K) (conj : K →+* K)

theorem map_matMul (A B : Mat F) :
    (fun i j => ι (matMul A B i j)) = matMul (fun i j => ι (A i j)) (fun i j => ι (B i j)) := by
  funext i j; simp [matMul, sum3, map_add, map_mul]

theorem transformTensor_add (g : PSym F) (tT tI : Transform r) (x y : Tensor r K) :
    transformTensor ι conj g tT tI (x + y)
      = transformTensor ι conj g tT tI x + transformTensor ι conj g tT tI y := by
  unfold transformTensor rotate
  simp only [rotAxes_add]
  cases g.tr <;> cases g.inv <;> simp [Transform.apply_add]

theorem transformTensor_zero (g : PSym F) (tT tI : Transform r) :
    transformTensor ι conj g tT tI (0 : Tensor r K) = 0 := by
  unfold transformTensor rotate
  simp only [rotAxes_zero]
  cases g.tr <;> cases g.inv <;> simp [Transform.apply_zero]

/-- The composition law for the three parts of an operation (proper matrix, inversion flag, TR flag). -/
theorem transformTensor_comp (hreal : ∀ a : F, conj (ι a) = ι a) (hinv : ∀ a, conj (conj a) = a)
    (tT tI : Transform r) (hside : sideCond tT tI = true) (g h gh : PSym F)
    (hR : gh.R = matMul g.R h.R) (hI : gh.inv = (g.inv != h.inv)) (hT : gh.tr = (g.tr != h.tr))
    (x : Tensor r K) :
    transformTensor ι conj g tT tI (transformTensor ι conj h tT tI x) = transformTensor ι conj gh tT tI x := by
  have hs : ∀ a, tT.sigma (tT.sigma a) = a ∧ tI.sigma (tI.sigma a) = a ∧
      tT.sigma (tI.sigma a) = tI.sigma (tT.sigma a) := by
    intro a
    have := (List.all_eq_true.1 hside) a (List.mem_finRange a)
    simpa [Bool.and_eq_true, and_assoc] using this
  have hsT : ∀ a, tT.sigma (tT.sigma a) = a := fun a => (hs a).1
  have hsI : ∀ a, tI.sigma (tI.sigma a) = a := fun a => (hs a).2.1
  have hsTI : ∀ a, tT.sigma (tI.sigma a) = tI.sigma (tT.sigma a) := fun a => (hs a).2.2
  have hA : ∀ (g : PSym F) i j, conj ((fun i j => ι (g.R i j)) i j) = (fun i j => ι (g.R i j)) i j :=
    fun g i j => hreal _
  have rT := fun (g : PSym F) (y : Tensor r K) => rotate_apply conj _ (hA g) tT hsT y
  have rI := fun (g : PSym F) (y : Tensor r K) => rotate_apply conj _ (hA g) tI hsI y
  have iT := Transform.apply_apply conj hinv tT hsT
  have iI := Transform.apply_apply conj hinv tI hsI
  have cTI := Transform.apply_comm conj tT tI hsTI
  have hRR : (fun i j => ι (gh.R i j)) = matMul (fun i j => ι (g.R i j)) (fun i j => ι (h.R i j)) := by
    rw [hR]; exact map_matMul ι g.R h.R
  unfold transformTensor
  simp only [hI, hT, hRR, ← rotate_mul]
  cases g.inv <;> cases g.tr <;> cases h.inv <;> cases h.tr <;>
    simp only [if_true, if_false, Bool.false_eq_true, bne_self_eq_false, Bool.bne_false, Bool.bne_true,
      Bool.not_true, Bool.not_false, Bool.true_bne, Bool.false_bne, rT, rI, iT, iI, cTI]

end TT

end WB.C09
