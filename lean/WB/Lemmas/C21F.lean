/-
  C21 helper lemmas: the f-shell rotation matrix in the rescaled integer basis g (f_i = g_i / n_i).
  The cofactors of the expansion identities were computed offline with sympy (structural formula
  E_i = Σ_{a≤c} (SSᵀ−1)_{ac} · (2−δ_ac) Σ_k [coefficient of v_k in (∂_a∂_c g_i)(S v)] · m_k(v),
  m = (x y²/2, x² y/2, y² z/2)) and are checked here by `linear_combination`.
-/
import WB.Lemmas.C21
import Mathlib.Tactic.NormNum

namespace WB.C21

variable {K : Type} [Field K]

def sum7 {K} [Add K] (f : Fin 7 → K) : K := f 0 + f 1 + f 2 + f 3 + f 4 + f 5 + f 6

/-! closed forms of the substituted cubics and of the orbitals -/
theorem gCub_0 : (gCub 0 : Cub K) = [(2, 2, 2, 2), (-3, 2, 0, 0), (-3, 2, 1, 1)] := rfl

theorem substCub_g0 (S : M3 K) (b d f : Fin 3) :
    substCub (gCub 0) S b d f = 2 * S 2 b * S 2 d * S 2 f - 3 * S 2 b * S 0 d * S 0 f - 3 * S 2 b * S 1 d * S 1 f := by
  rw [gCub_0]; simp only [substCub, List.foldr]; ring

theorem gFun_0 (v : V3 K) : gFun 0 v = 2 * v 2 * v 2 * v 2 - 3 * v 2 * v 0 * v 0 - 3 * v 2 * v 1 * v 1 := by
  rw [gFun, gCub_0]; simp only [evalCub, List.foldr]; ring

theorem gCub_1 : (gCub 1 : Cub K) = [(4, 0, 2, 2), (-1, 0, 0, 0), (-1, 0, 1, 1)] := rfl

theorem substCub_g1 (S : M3 K) (b d f : Fin 3) :
    substCub (gCub 1) S b d f = 4 * S 0 b * S 2 d * S 2 f - S 0 b * S 0 d * S 0 f - S 0 b * S 1 d * S 1 f := by
  rw [gCub_1]; simp only [substCub, List.foldr]; ring

theorem gFun_1 (v : V3 K) : gFun 1 v = 4 * v 0 * v 2 * v 2 - v 0 * v 0 * v 0 - v 0 * v 1 * v 1 := by
  rw [gFun, gCub_1]; simp only [evalCub, List.foldr]; ring

theorem gCub_2 : (gCub 2 : Cub K) = [(4, 1, 2, 2), (-1, 1, 0, 0), (-1, 1, 1, 1)] := rfl

theorem substCub_g2 (S : M3 K) (b d f : Fin 3) :
    substCub (gCub 2) S b d f = 4 * S 1 b * S 2 d * S 2 f - S 1 b * S 0 d * S 0 f - S 1 b * S 1 d * S 1 f := by
  rw [gCub_2]; simp only [substCub, List.foldr]; ring

theorem gFun_2 (v : V3 K) : gFun 2 v = 4 * v 1 * v 2 * v 2 - v 1 * v 0 * v 0 - v 1 * v 1 * v 1 := by
  rw [gFun, gCub_2]; simp only [evalCub, List.foldr]; ring

theorem gCub_3 : (gCub 3 : Cub K) = [(1, 2, 0, 0), (-1, 2, 1, 1)] := rfl

theorem substCub_g3 (S : M3 K) (b d f : Fin 3) :
    substCub (gCub 3) S b d f = S 2 b * S 0 d * S 0 f - S 2 b * S 1 d * S 1 f := by
  rw [gCub_3]; simp only [substCub, List.foldr]; ring

theorem gFun_3 (v : V3 K) : gFun 3 v = v 2 * v 0 * v 0 - v 2 * v 1 * v 1 := by
  rw [gFun, gCub_3]; simp only [evalCub, List.foldr]; ring

theorem gCub_4 : (gCub 4 : Cub K) = [(1, 0, 1, 2)] := rfl

theorem substCub_g4 (S : M3 K) (b d f : Fin 3) :
    substCub (gCub 4) S b d f = S 0 b * S 1 d * S 2 f := by
  rw [gCub_4]; simp only [substCub, List.foldr]; ring

theorem gFun_4 (v : V3 K) : gFun 4 v = v 0 * v 1 * v 2 := by
  rw [gFun, gCub_4]; simp only [evalCub, List.foldr]; ring

theorem gCub_5 : (gCub 5 : Cub K) = [(1, 0, 0, 0), (-3, 0, 1, 1)] := rfl

theorem substCub_g5 (S : M3 K) (b d f : Fin 3) :
    substCub (gCub 5) S b d f = S 0 b * S 0 d * S 0 f - 3 * S 0 b * S 1 d * S 1 f := by
  rw [gCub_5]; simp only [substCub, List.foldr]; ring

theorem gFun_5 (v : V3 K) : gFun 5 v = v 0 * v 0 * v 0 - 3 * v 0 * v 1 * v 1 := by
  rw [gFun, gCub_5]; simp only [evalCub, List.foldr]; ring

theorem gCub_6 : (gCub 6 : Cub K) = [(3, 1, 0, 0), (-1, 1, 1, 1)] := rfl

theorem substCub_g6 (S : M3 K) (b d f : Fin 3) :
    substCub (gCub 6) S b d f = 3 * S 1 b * S 0 d * S 0 f - S 1 b * S 1 d * S 1 f := by
  rw [gCub_6]; simp only [substCub, List.foldr]; ring

theorem gFun_6 (v : V3 K) : gFun 6 v = 3 * v 1 * v 0 * v 0 - v 1 * v 1 * v 1 := by
  rw [gFun, gCub_6]; simp only [evalCub, List.foldr]; ring

/-- the rows of `rotG` (definitional) -/
theorem rotG_0 (S : M3 K) (i : Fin 7) : rotG S 0 i = coefZZZ (substCub (gCub i) S) / 2 := rfl
theorem rotG_1 (S : M3 K) (i : Fin 7) : rotG S 1 i = coefXZZ (substCub (gCub i) S) / 4 := rfl
theorem rotG_2 (S : M3 K) (i : Fin 7) : rotG S 2 i = coefYZZ (substCub (gCub i) S) / 4 := rfl
theorem rotG_3 (S : M3 K) (i : Fin 7) :
    rotG S 3 i = coefZXX (substCub (gCub i) S) + 3 * coefZZZ (substCub (gCub i) S) / 2 := rfl
theorem rotG_4 (S : M3 K) (i : Fin 7) : rotG S 4 i = coefXYZ (substCub (gCub i) S) := rfl
theorem rotG_5 (S : M3 K) (i : Fin 7) :
    rotG S 5 i = coefXXX (substCub (gCub i) S) + coefXZZ (substCub (gCub i) S) / 4 := rfl
theorem rotG_6 (S : M3 K) (i : Fin 7) :
    rotG S 6 i = -(coefYYY (substCub (gCub i) S)) - coefYZZ (substCub (gCub i) S) / 4 := rfl

end WB.C21
