/-
  Helper lemmas for `select_window_degen` (C15).
-/
import WB.Model.C15
import Mathlib.Data.List.Basic
import Mathlib.Tactic.Linarith
import Mathlib.Tactic.Ring

namespace WB.C15

variable (E : Nat → Rat) (th : Rat)

theorem downChain_le : ∀ i, downChain E th i ≤ i
  | 0 => by simp [downChain]
  | i + 1 => by
    unfold downChain; split
    · have := downChain_le i; omega
    · exact le_refl _

/-- `downChain` stops at a gap: below its value there is no `< th` link -/
theorem downChain_min : ∀ i, 0 < downChain E th i →
    ¬ (E (downChain E th i) - E (downChain E th i - 1) < th)
  | 0 => by simp [downChain]
  | i + 1 => by
    unfold downChain; split
    · exact downChain_min i
    · rename_i hc; intro _; simpa only [Nat.add_sub_cancel] using hc

/-- if `i` is linked to `i-1` then the chain goes strictly below `i` -/
theorem downChain_lt (i : Nat) (h0 : 0 < i) (h : E i - E (i - 1) < th) : downChain E th i < i := by
  obtain ⟨k, rfl⟩ : ∃ k, i = k + 1 := ⟨i - 1, by omega⟩
  unfold downChain
  simp only [Nat.add_sub_cancel] at h
  rw [if_pos h]
  have := downChain_le E th k; omega

theorem upChainAux_ge (n : Nat) : ∀ fuel i, i ≤ upChainAux E th n fuel i
  | 0, i => by simp [upChainAux]
  | fuel + 1, i => by
    unfold upChainAux; split
    · have := upChainAux_ge n fuel (i + 1); omega
    · exact le_refl _

theorem upChainAux_lt (n : Nat) : ∀ fuel i, i < n → upChainAux E th n fuel i < n
  | 0, i, h => by simpa [upChainAux] using h
  | fuel + 1, i, h => by
    unfold upChainAux; split
    · rename_i hc; exact upChainAux_lt n fuel (i + 1) hc.1
    · exact h

/-- with enough fuel `upChain` stops only at a gap (or at the last band) -/
theorem upChainAux_max (n : Nat) : ∀ fuel i, n ≤ i + fuel → upChainAux E th n fuel i + 1 < n →
    ¬ (E (upChainAux E th n fuel i + 1) - E (upChainAux E th n fuel i) < th)
  | 0, i, hf, h => by simp [upChainAux] at h; omega
  | fuel + 1, i, hf, h => by
    unfold upChainAux at h ⊢
    split
    · rename_i hc
      rw [if_pos hc] at h
      exact upChainAux_max n fuel (i + 1) (by omega) h
    · rename_i hc
      rw [if_neg hc] at h
      intro hl; exact hc ⟨h, hl⟩

theorem upChain_ge (n i : Nat) : i ≤ upChain E th n i := upChainAux_ge E th n n i

theorem upChain_max (n i : Nat) (h : upChain E th n i + 1 < n) :
    ¬ (E (upChain E th n i + 1) - E (upChain E th n i) < th) :=
  upChainAux_max E th n n i (by omega) h

theorem upChain_gt (n i : Nat) (h1 : i + 1 < n) (h : E (i + 1) - E i < th) : i < upChain E th n i := by
  unfold upChain
  obtain ⟨k, rfl⟩ : ∃ k, n = k + 1 := ⟨n - 1, by omega⟩
  unfold upChainAux
  rw [if_pos ⟨h1, h⟩]
  have := upChainAux_ge E th (k + 1) k (i + 1); omega

/-! ### first / last index inside the window -/

variable (wmin wmax : Rat)

theorem firstIn_some {n lo : Nat} (h : firstIn E wmin wmax n = some lo) :
    lo < n ∧ inWindow E wmin wmax lo = true ∧ ∀ k, k < lo → inWindow E wmin wmax k = false := by
  unfold firstIn at h
  refine ⟨?_, ?_, ?_⟩
  · have := List.mem_of_find?_eq_some h; simpa using this
  · exact List.find?_some h
  · intro k hk
    rw [List.find?_range_eq_some] at h
    have := h.2.2 k hk
    simpa using this

theorem lastIn_some {n hi : Nat} (h : lastIn E wmin wmax n = some hi) :
    hi < n ∧ inWindow E wmin wmax hi = true ∧ ∀ k, hi < k → k < n → inWindow E wmin wmax k = false := by
  unfold lastIn at h
  refine ⟨?_, ?_, ?_⟩
  · have := List.mem_of_find?_eq_some h; simpa using this
  · exact List.find?_some h
  · intro k hk hkn
    rw [List.find?_eq_some_iff_append] at h
    obtain ⟨_, as, bs, hsplit, hall⟩ := h
    by_contra hne
    have hkt : inWindow E wmin wmax k = true := by
      cases hw : inWindow E wmin wmax k <;> simp_all
    -- k is in the reversed range; it is not in `as` (all false there), so it is `hi` or in `bs`
    have hmem : k ∈ (List.range n).reverse := by simp [hkn]
    rw [hsplit] at hmem
    rcases List.mem_append.mp hmem with hm | hm
    · have := hall k hm; simp [hkt] at this
    · rcases List.mem_cons.mp hm with rfl | hm
      · omega
      · -- elements after `hi` in the reversed range are smaller than `hi`
        have hp : ((List.range n).reverse).Pairwise (· > ·) := by
          rw [List.pairwise_reverse]; exact List.pairwise_lt_range
        rw [hsplit] at hp
        have := (List.pairwise_cons.mp (List.pairwise_append.mp hp).2.1).1 k hm
        omega

theorem firstIn_none_iff_lastIn_none (n : Nat) :
    firstIn E wmin wmax n = none ↔ lastIn E wmin wmax n = none := by
  unfold firstIn lastIn
  simp [List.find?_eq_none]

/-- for sorted energies the bands inside the window are exactly `lo..hi` -/
theorem inWindow_iff_between {n lo hi : Nat}
    (hsorted : ∀ i j, i ≤ j → j < n → E i ≤ E j)
    (hlo : firstIn E wmin wmax n = some lo) (hhi : lastIn E wmin wmax n = some hi)
    (k : Nat) (hk : k < n) : inWindow E wmin wmax k = true ↔ lo ≤ k ∧ k ≤ hi := by
  obtain ⟨hlon, hloin, hlof⟩ := firstIn_some E wmin wmax hlo
  obtain ⟨hhin, hhiin, hhif⟩ := lastIn_some E wmin wmax hhi
  constructor
  · intro h
    constructor
    · by_contra hc; have := hlof k (by omega); simp [h] at this
    · by_contra hc; have := hhif k (by omega) hk; simp [h] at this
  · rintro ⟨h1, h2⟩
    unfold inWindow at hloin hhiin ⊢
    simp only [Bool.and_eq_true, decide_eq_true_eq, ge_iff_le] at hloin hhiin ⊢
    have a := hsorted lo k h1 hk
    have b := hsorted k hi h2 hhin
    exact ⟨le_trans b hhiin.1, le_trans hloin.2 a⟩

theorem lo_le_hi {n lo hi : Nat}
    (hlo : firstIn E wmin wmax n = some lo) (hhi : lastIn E wmin wmax n = some hi) : lo ≤ hi := by
  obtain ⟨hlon, hloin, hlof⟩ := firstIn_some E wmin wmax hlo
  obtain ⟨hhin, hhiin, hhif⟩ := lastIn_some E wmin wmax hhi
  by_contra hc
  have := hlof hi (by omega); simp [hhiin] at this

/-! ### the two auxiliary results used by the property theorems -/

theorem selectWindow_include_superset_aux (n j : Nat) (_hj : j < n)
    (hin : inWindow E wmin wmax j = true) :
    selectWindow E th wmin wmax n true j = true := by
  unfold selectWindow
  split
  · simp [hin]
  · rename_i hnone
    exfalso
    -- some band is inside, so both searches succeed
    have h1 : firstIn E wmin wmax n ≠ none := by
      unfold firstIn; simp only [ne_eq, List.find?_eq_none, List.mem_range, not_forall]
      exact ⟨j, _hj, by simp [hin]⟩
    have h2 : lastIn E wmin wmax n ≠ none := by
      rw [ne_eq, ← firstIn_none_iff_lastIn_none]; exact h1
    obtain ⟨lo, hlo⟩ := Option.ne_none_iff_exists'.mp h1
    obtain ⟨hi, hhi⟩ := Option.ne_none_iff_exists'.mp h2
    exact hnone lo hi hlo hhi

theorem selectWindow_no_split_aux (n : Nat) (incl : Bool)
    (hsorted : ∀ i j, i ≤ j → j < n → E i ≤ E j)
    (i : Nat) (hi : i + 1 < n) (hclose : E (i + 1) - E i < th) :
    selectWindow E th wmin wmax n incl i = selectWindow E th wmin wmax n incl (i + 1) := by
  unfold selectWindow
  split
  · rename_i lo hi' hlo hhi
    have hW := inWindow_iff_between E wmin wmax hsorted hlo hhi
    have hle := lo_le_hi E wmin wmax hlo hhi
    obtain ⟨hhin, -, -⟩ := lastIn_some E wmin wmax hhi
    have hU := upChain_ge E th n hi'
    have hD := downChain_le E th lo
    have hUl := upChain_ge E th n lo
    have hDh := downChain_le E th hi'
    have hUmax := upChain_max E th n hi'
    have hUlmax := upChain_max E th n lo
    have hDmin := downChain_min E th lo
    have hDhmin := downChain_min E th hi'
    have wi := hW i (by omega)
    have wi1 := hW (i + 1) hi
    cases incl
    · -- include_degen = False
      simp only [Bool.false_eq_true, ↓reduceIte]
      have hTop : i = hi' → hi' < upChain E th n hi' := by
        rintro rfl; exact upChain_gt E th n i hi hclose
      have hBot : i + 1 = lo → downChain E th lo < lo := by
        intro h; apply downChain_lt E th lo (by omega)
        rw [← h]; simpa using hclose
      have hDh' : i + 1 ≠ downChain E th hi' := by
        intro h; apply hDhmin (by omega); rw [← h]; simpa using hclose
      have hUl' : i ≠ upChain E th n lo := by
        intro h; apply hUlmax (by omega); rw [← h]; exact hclose
      rw [Bool.eq_iff_iff]
      simp only [Bool.and_eq_true, Bool.not_eq_true', Bool.and_eq_false_iff,
        decide_eq_false_iff_not, wi, wi1]
      omega
    · -- include_degen = True
      simp only [↓reduceIte]
      have hU' : i ≠ upChain E th n hi' := by
        intro h; apply hUmax (by omega); rw [← h]; exact hclose
      have hD' : i + 1 ≠ downChain E th lo := by
        intro h; apply hDmin (by omega); rw [← h]; simpa using hclose
      rw [Bool.eq_iff_iff]
      simp only [Bool.or_eq_true, Bool.and_eq_true, decide_eq_true_eq, wi, wi1]
      omega
  · rfl

end WB.C15
