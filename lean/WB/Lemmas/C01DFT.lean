/-
  C01 — the FFT contract is satisfied by the mathematical DFT on the mesh box, for every mesh, in every field that
  contains primitive roots of unity of the three mesh orders (ℂ in particular).  So `roundtrip` is unconditional for the
  exact discrete Fourier transform; what remains trusted is that numpy / FFTW compute that transform.
-/
import WB.Lemmas.C01Fourier
import WB.Lemmas.C02Box
import WB.Lemmas.DFT

namespace WB.C01
open WB.C02 (boxChar nodup_gridPoints)

section
variable {K : Type} [Field K]

theorem sumK_range_map (f : Nat → K) (n : Nat) :
    sumK ((List.range n).map f) = ∑ i ∈ Finset.range n, f i := by
  induction n with
  | zero => simp [sumK_nil]
  | succ n ih =>
    rw [List.range_succ, List.map_append, sumK_append, ih, Finset.sum_range_succ]
    simp [sumK_cons, sumK_nil]

theorem sumK_gridPoints (mp : Mesh) (f : Vec3 → K) :
    sumK ((gridPoints mp).map f)
      = ∑ i ∈ Finset.range mp.1, ∑ j ∈ Finset.range mp.2.1, ∑ k ∈ Finset.range mp.2.2, f ((i : Int), (j : Int), (k : Int)) := by
  unfold gridPoints
  rw [sumK_flatMap, sumK_range_map]
  apply Finset.sum_congr rfl
  intro i _
  rw [sumK_flatMap, sumK_range_map]
  apply Finset.sum_congr rfl
  intro j _
  rw [List.map_map, sumK_range_map]
  rfl

/-- interchange of two list sums -/
theorem sumK_comm {α β} (l₁ : List α) (l₂ : List β) (f : α → β → K) :
    sumK (l₁.map fun a => sumK (l₂.map fun b => f a b)) = sumK (l₂.map fun b => sumK (l₁.map fun a => f a b)) := by
  induction l₁ with
  | nil =>
    simp only [List.map_nil, sumK_nil]
    exact (sumK_map_zero l₂).symm
  | cons a l ih =>
    simp only [List.map_cons, sumK_cons, ih]
    rw [← sumK_map_add]

theorem int_dvd_sub_iff (n : Nat) (x y : Int) (hx0 : 0 ≤ x) (hx : x < n) (hy0 : 0 ≤ y) (hy : y < n) :
    (n : Int) ∣ x - y ↔ x = y := by
  constructor
  · intro h
    have := Int.emod_emod_of_dvd x h
    have h2 : (x - y) % (n : Int) = 0 := Int.emod_eq_zero_of_dvd h
    have h3 := (Int.emod_eq_emod_iff_emod_sub_eq_zero).2 h2
    rwa [Int.emod_eq_of_lt hx0 hx, Int.emod_eq_of_lt hy0 hy] at h3
  · rintro rfl; simp

/-- one-dimensional orthogonality with integer labels `0 ≤ a, s < n` -/
theorem geom_orth (n : Nat) (ζ : K) (hζ : IsPrimitiveRoot ζ n) (a s : Int)
    (ha0 : 0 ≤ a) (ha : a < n) (hs0 : 0 ≤ s) (hs : s < n) :
    ∑ c ∈ Finset.range n, ζ ^ (a * (c : Int)) * (ζ ^ (s * (c : Int)))⁻¹ = if a = s then (n : K) else 0 := by
  have hz : ζ ≠ 0 := by
    rintro rfl
    have hpos : 0 < n := by omega
    have := hζ.pow_eq_one
    rw [zero_pow (by omega)] at this
    exact zero_ne_one this
  have : ∀ c : Nat, ζ ^ (a * (c : Int)) * (ζ ^ (s * (c : Int)))⁻¹ = (ζ ^ (a - s)) ^ c := by
    intro c
    rw [← zpow_neg, ← zpow_add₀ hz, ← zpow_natCast, ← zpow_mul]
    congr 1; ring
  simp_rw [this]
  rw [WB.DFT.sum_zpow_pow n ζ hζ (a - s)]
  simp only [int_dvd_sub_iff n a s ha0 ha hs0 hs]

/-- three-dimensional orthogonality of the box characters -/
theorem boxChar_orth (ζ : K × K × K) (mp : Mesh)
    (z1 : IsPrimitiveRoot ζ.1 mp.1) (z2 : IsPrimitiveRoot ζ.2.1 mp.2.1) (z3 : IsPrimitiveRoot ζ.2.2 mp.2.2)
    (a s : Vec3) (ha : a ∈ gridPoints mp) (hs : s ∈ gridPoints mp) :
    sumK ((gridPoints mp).map fun c => boxChar ζ a c * (boxChar ζ s c)⁻¹)
      = if a = s then ((mp.1 * mp.2.1 * mp.2.2 : Nat) : K) else 0 := by
  obtain ⟨⟨a1, a2⟩, ⟨a3, a4⟩, a5, a6⟩ := (mem_gridPoints mp a).1 ha
  obtain ⟨⟨s1, s2⟩, ⟨s3, s4⟩, s5, s6⟩ := (mem_gridPoints mp s).1 hs
  rw [sumK_gridPoints]
  have hfac : ∀ i j k : Nat,
      boxChar ζ a ((i : Int), (j : Int), (k : Int)) * (boxChar ζ s ((i : Int), (j : Int), (k : Int)))⁻¹
        = (ζ.1 ^ (a.1 * (i : Int)) * (ζ.1 ^ (s.1 * (i : Int)))⁻¹)
          * ((ζ.2.1 ^ (a.2.1 * (j : Int)) * (ζ.2.1 ^ (s.2.1 * (j : Int)))⁻¹)
          * (ζ.2.2 ^ (a.2.2 * (k : Int)) * (ζ.2.2 ^ (s.2.2 * (k : Int)))⁻¹)) := by
    intro i j k
    simp only [boxChar, mul_inv]
    ring
  simp_rw [hfac, ← Finset.mul_sum]
  rw [← Finset.sum_mul, geom_orth mp.1 ζ.1 z1 a.1 s.1 a1 a2 s1 s2]
  simp_rw [← Finset.sum_mul]
  rw [geom_orth mp.2.1 ζ.2.1 z2 a.2.1 s.2.1 a3 a4 s3 s4, geom_orth mp.2.2 ζ.2.2 z3 a.2.2 s.2.2 a5 a6 s5 s6]
  obtain ⟨x1, x2, x3⟩ := a
  obtain ⟨y1, y2, y3⟩ := s
  simp only [Prod.mk.injEq]
  by_cases e1 : x1 = y1 <;> by_cases e2 : x2 = y2 <;> by_cases e3 : x3 = y3 <;> simp [e1, e2, e3]
  ring

/-- **the DFT satisfies the FFT contract** (DFT inversion on the mesh box) -/
theorem dft_FFTContract (ζ : K × K × K) (mp : Mesh)
    (z1 : IsPrimitiveRoot ζ.1 mp.1) (z2 : IsPrimitiveRoot ζ.2.1 mp.2.1) (z3 : IsPrimitiveRoot ζ.2.2 mp.2.2)
    (hN : ((mp.1 * mp.2.1 * mp.2.2 : Nat) : K) ≠ 0) :
    FFTContract mp (boxChar ζ) (dftBox (fun s c => (boxChar ζ s c)⁻¹) mp)
      (((mp.1 * mp.2.1 * mp.2.2 : Nat) : K))⁻¹ := by
  intro A a ha
  unfold dftBox
  -- pull the constants in, swap the two sums
  rw [sumK_map_congr (gridPoints mp) _
    (fun c => sumK ((gridPoints mp).map fun s =>
      (((mp.1 * mp.2.1 * mp.2.2 : Nat) : K))⁻¹ * A s * (boxChar ζ a c * (boxChar ζ s c)⁻¹)))]
  · rw [sumK_comm]
    rw [sumK_map_congr (gridPoints mp) _
      (fun s => if a = s then (((mp.1 * mp.2.1 * mp.2.2 : Nat) : K))⁻¹ * A s * ((mp.1 * mp.2.1 * mp.2.2 : Nat) : K) else 0)]
    · rw [sumK_single (gridPoints mp) (nodup_gridPoints mp) a ha
        (fun s => (((mp.1 * mp.2.1 * mp.2.2 : Nat) : K))⁻¹ * A s * ((mp.1 * mp.2.1 * mp.2.2 : Nat) : K))]
      field_simp
    · intro s hs
      rw [sumK_map_mul_left, boxChar_orth ζ mp z1 z2 z3 a s ha hs]
      split <;> simp
  · intro c _
    rw [← sumK_map_mul_left, ← sumK_map_mul_left]
    apply sumK_map_congr
    intro s _
    ring

end

end WB.C01
