/-
  C09 helper lemmas, part 4: the group average is a projection onto the invariant vectors.
  First for any list-group acting additively on an additive group, then for `symmetrize_tensor`.
-/
import WB.Lemmas.C09Tensor
import Mathlib.Algebra.BigOperators.Group.List.Basic
import Mathlib.Algebra.Field.Basic
import Mathlib.Algebra.Module.Pi
import Mathlib.Tactic.FieldSimp

set_option linter.unusedSectionVars false
set_option linter.unusedSimpArgs false

namespace WB.C09

section Abstract
variable {G V : Type} [AddCommGroup V]

theorem map_list_sum (f : V → V) (hadd : ∀ u v, f (u + v) = f u + f v) (h0 : f 0 = 0) (l : List V) :
    f l.sum = (l.map f).sum := by
  induction l with
  | nil => simpa using h0
  | cons a t ih => simp [hadd, ih]

theorem sum_map_const_nsmul {α : Type} (l : List α) (c : V) : (l.map fun _ => c).sum = l.length • c := by
  induction l with
  | nil => simp
  | cons a t ih => simp [ih, succ_nsmul, add_comm]

/-- The average `P v = D (Σ_{g ∈ L} T g v)` over a list-group `L` acting additively (`D` = division by `|L|`):
    `T h ∘ P = P`, `P ∘ P = P`, and `P v = v` exactly for the vectors fixed by every member. -/
theorem avg_abstract (mul : G → G → G) (L : List G) (hG : ListGroup mul L) (T : G → V → V) (D : V → V)
    (hTadd : ∀ g ∈ L, ∀ u v, T g (u + v) = T g u + T g v) (hT0 : ∀ g ∈ L, T g 0 = 0)
    (hD : ∀ v, D (L.length • v) = v)
    (hTD : ∀ g ∈ L, ∀ v, T g (D v) = D (T g v))
    (hmulT : ∀ g ∈ L, ∀ h ∈ L, ∀ v, T (mul g h) v = T g (T h v)) :
    (∀ h ∈ L, ∀ v, T h (D (L.map fun g => T g v).sum) = D (L.map fun g => T g v).sum) ∧
    (∀ v, D (L.map fun g => T g (D (L.map fun g => T g v).sum)).sum = D (L.map fun g => T g v).sum) ∧
    (∀ v, D (L.map fun g => T g v).sum = v ↔ ∀ g ∈ L, T g v = v) := by
  have inv : ∀ h ∈ L, ∀ v, T h (D (L.map fun g => T g v).sum) = D (L.map fun g => T g v).sum := by
    intro h hh v
    rw [hTD h hh, map_list_sum (T h) (hTadd h hh) (hT0 h hh), List.map_map]
    have e1 : (L.map ((T h) ∘ fun g => T g v)) = (L.map (mul h)).map (fun g => T g v) := by
      rw [List.map_map]
      apply List.map_congr_left
      intro g hg
      simp only [Function.comp]
      exact (hmulT h hh g hg v).symm
    rw [e1, ((hG.perm_map_mul hh).map _).sum_eq]
  have const : ∀ v, (L.map fun g => T g (D (L.map fun g => T g v).sum))
      = L.map fun _ => D (L.map fun g => T g v).sum := by
    intro v
    apply List.map_congr_left
    intro g hg
    exact inv g hg v
  refine ⟨inv, ?_, ?_⟩
  · intro v
    rw [const v, sum_map_const_nsmul, hD]
  · intro v
    constructor
    · intro hv g hg
      have := inv g hg v
      rwa [hv] at this
    · intro hv
      have : (L.map fun g => T g v) = L.map fun _ => v := List.map_congr_left hv
      rw [this, sum_map_const_nsmul, hD]

end Abstract

section Model
variable {F K : Type} [Field F] [LinearOrder F] [IsStrictOrderedRing F] [Field K] {r : Nat}
  (ι : F →+* K) (conj : K →+* K)

theorem foldl_add_eq {α : Type} (f : α → K) (l : List α) (a : K) :
    l.foldl (fun acc g => acc + f g) a = a + (l.map f).sum := by
  induction l generalizing a with
  | nil => simp
  | cons b t ih => simp [ih, add_assoc]

theorem list_sum_apply {α : Type} (l : List α) (f : α → Tensor r K) (idx : Fin r → Fin 3) :
    (l.map f).sum idx = (l.map fun g => f g idx).sum := by
  induction l with
  | nil => rfl
  | cons b t ih => simp [ih]

/-- division of every component by `n` -/
def divBy (n : Nat) (v : Tensor r K) : Tensor r K := fun idx => v idx / (n : K)

/-- `symmetrize_tensor` written with list sums -/
theorem symmetrizeTensor_eq (L : List (PSym F)) (tT tI : Transform r) (x : Tensor r K) :
    symmetrizeTensor ι conj L tT tI x = divBy L.length ((L.map fun g => transformTensor ι conj g tT tI x).sum) := by
  funext idx
  simp only [symmetrizeTensor, divBy, foldl_add_eq, zero_add, list_sum_apply]

/-! scaling by a conjugation-invariant scalar commutes with `transform_tensor` -/

theorem rotAxis_smul (A : Mat K) (a : Fin r) (c : K) (x : Tensor r K) :
    rotAxis A a (fun idx => x idx * c) = fun idx => rotAxis A a x idx * c := by
  funext idx; simp only [rotAxis, sum3]; ring

theorem rotAxes_smul (A : Mat K) (l : List (Fin r)) (c : K) (x : Tensor r K) :
    rotAxes A l (fun idx => x idx * c) = fun idx => rotAxes A l x idx * c := by
  induction l generalizing x with
  | nil => rfl
  | cons a t ih => rw [rotAxes_cons, rotAxes_cons, rotAxis_smul, ih]

theorem Transform.apply_smul (t : Transform r) (c : K) (hc : conj c = c) (x : Tensor r K) :
    t.apply conj (fun idx => x idx * c) = fun idx => t.apply conj x idx * c := by
  simp only [Transform.apply_eq]
  cases t.neg <;> cases t.conj <;> funext idx <;> simp [negIf, conjIf, permute, hc]

theorem transformTensor_smul (g : PSym F) (tT tI : Transform r) (c : K) (hc : conj c = c) (x : Tensor r K) :
    transformTensor ι conj g tT tI (fun idx => x idx * c)
      = fun idx => transformTensor ι conj g tT tI x idx * c := by
  unfold transformTensor rotate
  simp only [rotAxes_smul]
  cases g.tr <;> cases g.inv <;> simp [Transform.apply_smul conj _ c hc]

theorem transformTensor_divBy (g : PSym F) (tT tI : Transform r) (n : Nat) (x : Tensor r K) :
    transformTensor ι conj g tT tI (divBy n x) = divBy n (transformTensor ι conj g tT tI x) := by
  have hc : conj ((n : K)⁻¹) = (n : K)⁻¹ := by rw [map_inv₀, map_natCast]
  have := transformTensor_smul ι conj g tT tI ((n : K)⁻¹) hc x
  have e : ∀ v : Tensor r K, divBy n v = fun idx => v idx * (n : K)⁻¹ := fun v => by
    funext idx; simp only [divBy, div_eq_mul_inv]
  rw [e, e]; exact this

theorem divBy_nsmul (n : Nat) (hn : (n : K) ≠ 0) (v : Tensor r K) : divBy n (n • v) = v := by
  funext idx
  simp only [divBy, Pi.smul_apply, nsmul_eq_mul]
  field_simp

/-- The list of operations of a point group (duplicate free, closed, proper) is a list-group. -/
theorem listGroup_of_closed (L : List (PSym F)) (hnd : L.Nodup) (hcl : Closed L) (hp : ∀ g ∈ L, g.Proper) :
    ListGroup PSym.mul L :=
  ⟨hnd, hcl, fun a ha b hb c hc e => PSym.mul_left_cancel a b c (hp a ha) (hp b hb) (hp c hc) e⟩

/-- T4 for the model: `symmetrize_tensor` is a projection onto the invariant tensors. -/
theorem symmetrize_projection_aux (hreal : ∀ a : F, conj (ι a) = ι a) (hinv : ∀ a, conj (conj a) = a)
    (tT tI : Transform r) (hside : sideCond tT tI = true)
    (L : List (PSym F)) (hne : (L.length : K) ≠ 0) (hnd : L.Nodup) (hcl : Closed L)
    (hp : ∀ g ∈ L, g.Proper) :
    (∀ h ∈ L, ∀ x : Tensor r K, transformTensor ι conj h tT tI (symmetrizeTensor ι conj L tT tI x)
        = symmetrizeTensor ι conj L tT tI x) ∧
    (∀ x : Tensor r K, symmetrizeTensor ι conj L tT tI (symmetrizeTensor ι conj L tT tI x)
        = symmetrizeTensor ι conj L tT tI x) ∧
    (∀ x : Tensor r K, symmetrizeTensor ι conj L tT tI x = x ↔
        ∀ g ∈ L, transformTensor ι conj g tT tI x = x) := by
  have hG := listGroup_of_closed L hnd hcl hp
  have hmulT : ∀ g ∈ L, ∀ h ∈ L, ∀ v : Tensor r K,
      transformTensor ι conj (g.mul h) tT tI v
        = transformTensor ι conj g tT tI (transformTensor ι conj h tT tI v) := by
    intro g hg h hh v
    obtain ⟨h1, h2, h3⟩ := PSym.mul_parts g h (hp g hg) (hp h hh)
    exact (transformTensor_comp ι conj hreal hinv tT tI hside g h (g.mul h) h1 h2 h3 v).symm
  obtain ⟨h1, h2, h3⟩ := avg_abstract PSym.mul L hG (fun g => transformTensor ι conj g tT tI)
    (divBy L.length)
    (fun g _ u v => transformTensor_add ι conj g tT tI u v)
    (fun g _ => transformTensor_zero ι conj g tT tI)
    (fun v => divBy_nsmul L.length hne v)
    (fun g _ v => transformTensor_divBy ι conj g tT tI L.length v)
    hmulT
  simp only [symmetrizeTensor_eq]
  exact ⟨h1, h2, h3⟩

end Model

end WB.C09
