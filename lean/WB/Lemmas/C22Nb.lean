/-
  Helper lemmas for C22: `find_G_and_neighbours`.
-/
import WB.Model.C22
import Mathlib.Data.List.Basic
import Mathlib.Tactic.Linarith
import Mathlib.Tactic.Ring

namespace WB.C22

/-- a grid with all three sizes ≥ 1 -/
def GPos (N : G3) : Prop := 0 < N.1 ∧ 0 < N.2.1 ∧ 0 < N.2.2

theorem divisible_iff (N : G3) (g : I3) : divisible N g = true ↔
    ((N.1 : Int) ∣ g.1) ∧ ((N.2.1 : Int) ∣ g.2.1) ∧ ((N.2.2 : Int) ∣ g.2.2) := by
  unfold divisible
  simp only [Bool.and_eq_true, beq_iff_eq, and_assoc]
  constructor
  · rintro ⟨h1, h2, h3⟩
    exact ⟨Int.dvd_of_fmod_eq_zero h1, Int.dvd_of_fmod_eq_zero h2, Int.dvd_of_fmod_eq_zero h3⟩
  · rintro ⟨h1, h2, h3⟩
    exact ⟨Int.fmod_eq_zero_of_dvd h1, Int.fmod_eq_zero_of_dvd h2, Int.fmod_eq_zero_of_dvd h3⟩

/-- a divisible difference is recovered from its floor quotient: `g = (g // N) * N` -/
theorem mulN_gShift (N : G3) (g : I3) (h : divisible N g = true) : mulN (gShift N g) N = g := by
  obtain ⟨h1, h2, h3⟩ := (divisible_iff N g).1 h
  unfold mulN gShift
  simp only [Int.fdiv_mul_cancel h1, Int.fdiv_mul_cancel h2, Int.fdiv_mul_cancel h3]

theorem add3_sub3 (a b : I3) : add3 b (sub3 a b) = a := by
  unfold add3 sub3
  ext <;> simp

/-- the search `find?` over `zipIdx`, unfolded -/
theorem findNb_eq_some (N : G3) (ks : List I3) (kb : I3) (i2 : Nat) (G : I3)
    (h : findNb N ks kb = some (i2, G)) :
    ∃ k2, ks.zipIdx.find? (fun p => divisible N (sub3 kb p.1)) = some (k2, i2) ∧ G = gShift N (sub3 kb k2) := by
  unfold findNb at h
  split at h
  · rename_i k2 j hf
    simp only [Option.some.injEq, Prod.mk.injEq] at h
    obtain ⟨rfl, rfl⟩ := h
    exact ⟨k2, hf, rfl⟩
  · cases h

theorem zipIdx_split_index {α} (l : List α) (as bs : List (α × Nat)) (b : α × Nat)
    (h : l.zipIdx = as ++ b :: bs) : b.2 = as.length ∧ ∀ j x, j < as.length → l[j]? = some x → (x, j) ∈ as := by
  constructor
  · have h1 : (l.zipIdx)[as.length]? = some b := by rw [h]; simp
    rw [List.getElem?_zipIdx] at h1
    cases hl : l[as.length]? with
    | none => rw [hl] at h1; simp at h1
    | some a => rw [hl] at h1; simp at h1; rw [← h1]
  · intro j x hj hx
    have h1 : (l.zipIdx)[j]? = some (x, j) := by rw [List.getElem?_zipIdx, hx]; simp
    rw [h, List.getElem?_append_left hj] at h1
    exact List.mem_of_getElem? h1

/-! ### Option.mapM as a relation -/

theorem mapM_option_forall₂ {α β} (f : α → Option β) : ∀ (l : List α) (r : List β),
    l.mapM f = some r → List.Forall₂ (fun a b => f a = some b) l r
  | [], r, h => by
    simp at h; subst h; exact List.Forall₂.nil
  | a :: l, r, h => by
    rw [List.mapM_cons] at h
    cases hfa : f a with
    | none => rw [hfa] at h; simp at h
    | some b =>
      rw [hfa] at h
      cases hl : l.mapM f with
      | none => rw [hl] at h; simp at h
      | some r' =>
        rw [hl] at h
        simp at h
        subst h
        exact List.Forall₂.cons hfa (mapM_option_forall₂ f l r' hl)

theorem mapM_option_total {α β} (f : α → Option β) : ∀ (l : List α),
    (∀ a ∈ l, ∃ b, f a = some b) → ∃ r, l.mapM f = some r
  | [], _ => ⟨[], by simp⟩
  | a :: l, h => by
    obtain ⟨b, hb⟩ := h a (by simp)
    obtain ⟨r, hr⟩ := mapM_option_total f l (fun x hx => h x (by simp [hx]))
    exact ⟨b :: r, by rw [List.mapM_cons, hb, hr]; simp⟩

end WB.C22
