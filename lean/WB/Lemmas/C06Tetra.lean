/-
  C06 helper lemmas: tetrahedra (volume of the halves, weights of the starting set, the five default tetrahedra).
-/
import WB.Model.C06
import WB.Lemmas.C06Sum
import Mathlib.Algebra.Order.Field.Rat
import Mathlib.Tactic.Linarith
import Mathlib.Tactic.Ring
import Mathlib.Tactic.FieldSimp
import Mathlib.Tactic.Positivity

namespace WB.C06

theorem absR_nonneg (r : Rat) : 0 ≤ absR r := by
  unfold absR; split <;> linarith

theorem absR_neg (r : Rat) : absR (-r) = absR r := by
  unfold absR
  split <;> split <;> linarith

theorem absR_div_pos (r c : Rat) (hc : 0 < c) : absR (r / c) = absR r / c := by
  unfold absR
  by_cases h : r < 0
  · have : r / c < 0 := div_neg_of_neg_of_pos h hc
    rw [if_pos h, if_pos this]; ring
  · have : ¬ r / c < 0 := not_lt.mpr (div_nonneg (not_lt.mp h) hc.le)
    rw [if_neg h, if_neg this]

/-- the volume does not depend on the origin: `mkTet` stores the vertices relative to their centre -/
theorem mkTet_volume (v0 v1 v2 v3 K : V3) (f : Rat) (l s : Nat) :
    (mkTet v0 v1 v2 v3 K f l s).volume = volume4 v0 v1 v2 v3 := by
  unfold Tet.volume mkTet volume4 det3 V3.sub V3.smul V3.add
  simp only
  congr 2
  ring

theorem mkTet_factor (v0 v1 v2 v3 K : V3) (f : Rat) (l s : Nat) : (mkTet v0 v1 v2 v3 K f l s).factor = f := rfl

/-- absolute vertex positions are kept by `mkTet` -/
theorem mkTet_absVert (v0 v1 v2 v3 K : V3) (f : Rat) (l s : Nat) :
    (mkTet v0 v1 v2 v3 K f l s).absVert 0 = K.add v0 ∧ (mkTet v0 v1 v2 v3 K f l s).absVert 1 = K.add v1 ∧
    (mkTet v0 v1 v2 v3 K f l s).absVert 2 = K.add v2 ∧ (mkTet v0 v1 v2 v3 K f l s).absVert 3 = K.add v3 := by
  unfold Tet.absVert mkTet Tet.vert V3.sub V3.smul V3.add
  refine ⟨?_, ?_, ?_, ?_⟩ <;> simp only [V3.mk.injEq] <;> refine ⟨?_, ?_, ?_⟩ <;> ring

/-- determinant of piece `i` of an edge split: `± det(parent) / ndiv` -/
theorem det_piece (t : Tet) (e n i : Nat) (hn : 0 < n) :
    let a := t.vert (edgeEnds e).1
    let dv := V3.smul (1 / (n : Rat)) ((t.vert (edgeEnds e).2).sub a)
    let c0 := t.vert (edgeComp e).1
    let c1 := t.vert (edgeComp e).2
    let d := det3 (c1.sub c0) ((a.add (V3.smul (i : Rat) dv)).sub c0) ((a.add (V3.smul ((i : Rat) + 1) dv)).sub c0)
    let D := det3 (t.v1.sub t.v0) (t.v2.sub t.v0) (t.v3.sub t.v0)
    d = D / n ∨ d = -(D / n) := by
  have hn' : (n : Rat) ≠ 0 := by exact_mod_cast hn.ne'
  rcases e with _ | _ | _ | _ | _ | e
  · left; simp only [edgeEnds, edgeComp, Tet.vert, det3, V3.sub, V3.add, V3.smul]; field_simp; ring
  · right; simp only [edgeEnds, edgeComp, Tet.vert, det3, V3.sub, V3.add, V3.smul]; field_simp; ring
  · left; simp only [edgeEnds, edgeComp, Tet.vert, det3, V3.sub, V3.add, V3.smul]; field_simp; ring
  · left; simp only [edgeEnds, edgeComp, Tet.vert, det3, V3.sub, V3.add, V3.smul]; field_simp; ring
  · right; simp only [edgeEnds, edgeComp, Tet.vert, det3, V3.sub, V3.add, V3.smul]; field_simp; ring
  · left; simp only [edgeEnds, edgeComp, Tet.vert, det3, V3.sub, V3.add, V3.smul]; field_simp; ring

theorem divideTet_mem (t : Tet) (e n : Nat) (r : Bool) (c : Tet) (hc : c ∈ divideTet t e n r) (hn : 0 < n) :
    c.volume = t.volume / n ∧ c.factor = t.factor / n := by
  unfold divideTet at hc
  simp only at hc
  obtain ⟨i, _, rfl⟩ := List.mem_map.mp hc
  refine ⟨?_, rfl⟩
  rw [mkTet_volume]
  have hn' : (0 : Rat) < n := by exact_mod_cast hn
  unfold volume4 Tet.volume volume4
  rcases det_piece t e n i hn with h | h
  · rw [h, absR_div_pos _ _ hn']; ring
  · rw [h, absR_neg, absR_div_pos _ _ hn']; ring

theorem divideTet_length (t : Tet) (e n : Nat) (r : Bool) : (divideTet t e n r).length = n := by
  unfold divideTet; simp

theorem divideTet_totals (t : Tet) (e n : Nat) (r : Bool) (hn : 0 < n) :
    tetTotalW (divideTet t e n r) = t.factor ∧ tetTotalVol (divideTet t e n r) = t.volume := by
  have hn' : (n : Rat) ≠ 0 := by exact_mod_cast hn.ne'
  unfold tetTotalW tetTotalVol
  rw [sum_map_const _ (t.factor / n) _ (fun c hc => (divideTet_mem t e n r c hc hn).2),
    sum_map_const _ (t.volume / n) _ (fun c hc => (divideTet_mem t e n r c hc hn).1), divideTet_length]
  constructor <;> field_simp

theorem tetTotals_append (a b : List Tet) :
    tetTotalW (a ++ b) = tetTotalW a + tetTotalW b ∧ tetTotalVol (a ++ b) = tetTotalVol a + tetTotalVol b := by
  unfold tetTotalW tetTotalVol; simp

theorem splitPass_totals (sel : Tet → Bool) (edge : Tet → Nat) (l : List Tet) :
    tetTotalW (splitPass sel edge l) = tetTotalW l ∧ tetTotalVol (splitPass sel edge l) = tetTotalVol l := by
  induction l with
  | nil => exact ⟨rfl, rfl⟩
  | cons t l ih =>
    have hc : splitPass sel edge (t :: l) = (if sel t then divideTet t (edge t) 2 false else [t]) ++ splitPass sel edge l := by
      unfold splitPass; simp
    have h1 : tetTotalW (t :: l) = t.factor + tetTotalW l := by unfold tetTotalW; simp
    have h2 : tetTotalVol (t :: l) = t.volume + tetTotalVol l := by unfold tetTotalVol; simp
    rw [hc, (tetTotals_append _ _).1, (tetTotals_append _ _).2, ih.1, ih.2, h1, h2]
    split
    · obtain ⟨a, b⟩ := divideTet_totals t (edge t) 2 false (by norm_num)
      rw [a, b]; exact ⟨rfl, rfl⟩
    · constructor
      · unfold tetTotalW; simp
      · unfold tetTotalVol; simp

theorem splitLoop_totals (stop : List Tet → Bool) (sel : Tet → Bool) (edge : Tet → Nat) :
    ∀ (fuel : Nat) (l : List Tet),
      tetTotalW (splitLoop stop sel edge fuel l) = tetTotalW l ∧
      tetTotalVol (splitLoop stop sel edge fuel l) = tetTotalVol l
  | 0, l => ⟨rfl, rfl⟩
  | fuel + 1, l => by
    unfold splitLoop
    split
    · exact ⟨rfl, rfl⟩
    · obtain ⟨a, b⟩ := splitLoop_totals stop sel edge fuel (splitPass sel edge l)
      obtain ⟨c, d⟩ := splitPass_totals sel edge l
      exact ⟨a.trans c, b.trans d⟩

/-! ### the starting set -/

theorem sum_map_div (c : Rat) : ∀ l : List Rat, (l.map fun v => v / c).sum = l.sum / c
  | [] => by simp
  | x :: l => by simp only [List.map_cons, List.sum_cons]; rw [sum_map_div c l]; ring

theorem initTets_factors (verts : List (V3 × V3 × V3 × V3)) (ws : List Rat) (h : ws.length = verts.length) :
    ((verts.zip ws).map fun p => (mkTet p.1.1 p.1.2.1 p.1.2.2.1 p.1.2.2.2 V3.zero p.2 0 0).factor) = ws := by
  have : (fun p : (V3 × V3 × V3 × V3) × Rat => (mkTet p.1.1 p.1.2.1 p.1.2.2.1 p.1.2.2.2 V3.zero p.2 0 0).factor)
      = Prod.snd := by funext p; rfl
  rw [this]
  exact List.map_snd_zip (by omega)

/-! ### the break test of the split loops -/

theorem foldl_max_le (v : Rat) : ∀ (l : List Rat) (m : Rat),
    l.foldl (fun m x => if x > m then x else m) m ≤ v ↔ m ≤ v ∧ ∀ x ∈ l, x ≤ v
  | [], m => by simp
  | x :: l, m => by
    simp only [List.foldl_cons, List.mem_cons, forall_eq_or_imp]
    rw [foldl_max_le v l]
    by_cases h : x > m
    · simp only [h, ↓reduceIte]
      constructor
      · rintro ⟨a, b⟩; exact ⟨by linarith, a, b⟩
      · rintro ⟨_, b, c⟩; exact ⟨b, c⟩
    · simp only [h, ↓reduceIte]
      have : x ≤ m := not_lt.mp h
      constructor
      · rintro ⟨a, b⟩; exact ⟨a, by linarith, b⟩
      · rintro ⟨a, _, c⟩; exact ⟨a, c⟩

theorem maxOf_le_iff (l : List Rat) (v : Rat) (hv : 0 ≤ v) : maxOf l ≤ v ↔ ∀ x ∈ l, x ≤ v := by
  unfold maxOf
  rw [foldl_max_le]
  cases l with
  | nil => simpa using hv
  | cons x l =>
    simp only [List.headD_cons, List.mem_cons, forall_eq_or_imp]
    tauto

/-- a pass that selects nothing changes nothing -/
theorem splitPass_none (sel : Tet → Bool) (edge : Tet → Nat) :
    ∀ l : List Tet, (∀ t ∈ l, sel t = false) → splitPass sel edge l = l
  | [], _ => rfl
  | t :: l, h => by
    have ht := h t (by simp)
    have hl := splitPass_none sel edge l (fun u hu => h u (by simp [hu]))
    unfold splitPass at hl ⊢
    simp only [List.flatMap_cons, ht, Bool.false_eq_true, ↓reduceIte, hl, List.singleton_append]

theorem mem_splitPass (sel : Tet → Bool) (edge : Tet → Nat) (l : List Tet) (c : Tet) :
    c ∈ splitPass sel edge l ↔
      ∃ t ∈ l, (sel t = true ∧ c ∈ divideTet t (edge t) 2 false) ∨ (sel t = false ∧ c = t) := by
  unfold splitPass
  simp only [List.mem_flatMap]
  constructor
  · rintro ⟨t, ht, hc⟩
    refine ⟨t, ht, ?_⟩
    cases hs : sel t with
    | true => left; simpa [hs] using hc
    | false => right; simpa [hs] using hc
  · rintro ⟨t, ht, h | h⟩
    · exact ⟨t, ht, by simpa [h.1] using h.2⟩
    · exact ⟨t, ht, by simp [h.1, h.2]⟩

/-- the volume loop: if every volume is at most `2^n · vmax`, then `n + 1` passes are enough and every remaining
    tetrahedron is at most `vmax` -/
theorem splitVolume_done (g : Gram) (vmax : Rat) (hv : 0 < vmax) :
    ∀ (n : Nat) (l : List Tet), (∀ t ∈ l, t.volume ≤ 2 ^ n * vmax) →
      ∀ t ∈ splitVolume g vmax (n + 1) l, t.volume ≤ vmax := by
  have hstop : ∀ l : List Tet, decide (maxOf (l.map Tet.volume) ≤ vmax) = true ↔ ∀ t ∈ l, t.volume ≤ vmax := by
    intro l
    rw [decide_eq_true_iff, maxOf_le_iff _ _ hv.le]
    simp only [List.mem_map, forall_exists_index, and_imp, forall_apply_eq_imp_iff₂]
  intro n
  induction n with
  | zero =>
    intro l hl
    have : ∀ t ∈ l, t.volume ≤ vmax := fun t ht => by simpa using hl t ht
    unfold splitVolume splitLoop
    rw [if_pos ((hstop l).mpr this)]
    exact this
  | succ n ih =>
    intro l hl
    unfold splitVolume splitLoop
    split
    · rename_i hs; exact (hstop l).mp hs
    · apply ih
      intro c hc
      obtain ⟨t, ht, h | h⟩ := (mem_splitPass _ _ l c).mp hc
      · have := (divideTet_mem t _ 2 false c h.2 (by norm_num)).1
        rw [this]
        have := hl t ht
        rw [pow_succ] at this
        push_cast
        linarith
      · rw [h.2]
        have : ¬ t.volume > vmax := by simpa using h.1
        have h2 : (1 : Rat) ≤ 2 ^ n := one_le_pow₀ (by norm_num)
        nlinarith

end WB.C06
