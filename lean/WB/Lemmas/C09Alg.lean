/-
  C09 helper lemmas, part 1: the written-out 3x3 algebra of the model is Mathlib's matrix algebra, and the
  bookkeeping of `PSym.mk'` / `PSym.mul` (proper part, inversion flag, time-reversal flag).
-/
import WB.Model.C09
import Mathlib.Algebra.BigOperators.Fin
import Mathlib.Algebra.Order.Field.Basic
import Mathlib.Tactic.Ring
import Mathlib.Tactic.Linarith
import Mathlib.Tactic.FinCases
import Mathlib.Tactic.FieldSimp

set_option linter.unusedSectionVars false
set_option linter.unusedSimpArgs false

namespace WB.C09

section Ring
variable {F : Type} [CommRing F]

theorem freeze_eq (A : Mat F) : freeze A = A := by
  funext i j
  fin_cases i <;> fin_cases j <;> rfl

theorem sum3_eq_sum (f : Fin 3 → F) : sum3 f = ∑ i, f i := by
  rw [Fin.sum_univ_three]; rfl

theorem matMul_assoc (A B C : Mat F) : matMul (matMul A B) C = matMul A (matMul B C) := by
  funext i j; simp only [matMul, sum3]; ring

theorem matMul_id_left (A : Mat F) : matMul (matId : Mat F) A = A := by
  funext i j
  fin_cases i <;> fin_cases j <;> simp [matMul, matId, sum3]

theorem matMul_id_right (A : Mat F) : matMul A (matId : Mat F) = A := by
  funext i j
  fin_cases i <;> fin_cases j <;> simp [matMul, matId, sum3]

theorem det3_matMul (A B : Mat F) : det3 (matMul A B) = det3 A * det3 B := by
  simp only [det3, matMul, sum3]; ring

theorem det3_matScale (A : Mat F) (c : F) : det3 (matScale A c) = c ^ 3 * det3 A := by
  unfold det3 matScale; ring

theorem det3_matId : det3 (matId : Mat F) = 1 := by
  simp [det3, matId]

theorem det3_matT (A : Mat F) : det3 (matT A) = det3 A := by
  unfold det3 matT; ring

theorem sgn_mul_self (b : Bool) : (sgn b : F) * sgn b = 1 := by
  cases b <;> simp [sgn]

theorem sgn_xor (a b : Bool) : (sgn (a != b) : F) = sgn a * sgn b := by
  cases a <;> cases b <;> simp [sgn]

theorem sgn_cube (b : Bool) : (sgn b : F) ^ 3 = sgn b := by
  cases b <;> simp [sgn]; ring

theorem matScale_matScale (A : Mat F) (c d : F) : matScale (matScale A c) d = matScale A (c * d) := by
  funext i j; simp [matScale, mul_assoc]

theorem matScale_one (A : Mat F) : matScale A 1 = A := by
  funext i j; simp [matScale]

theorem matMul_matScale (A B : Mat F) (c d : F) :
    matMul (matScale A c) (matScale B d) = matScale (matMul A B) (c * d) := by
  funext i j; simp only [matMul, matScale, sum3]; ring

theorem matVec_matMul (A B : Mat F) (v : Vec F) : matVec (matMul A B) v = matVec A (matVec B v) := by
  funext i; simp only [matVec, matMul, sum3]; ring

theorem vecMat_matMul (A B : Mat F) (v : Vec F) : vecMat v (matMul A B) = vecMat (vecMat v A) B := by
  funext i; simp only [vecMat, matMul, sum3]; ring

theorem matT_matMul (A B : Mat F) : matT (matMul A B) = matMul (matT B) (matT A) := by
  funext i j; simp only [matT, matMul, sum3]; ring

/-- adjugate identity: `A * adj A = det A • 1` -/
theorem matMul_adj3 (A : Mat F) : matMul A (adj3 A) = matScale matId (det3 A) := by
  funext i j
  fin_cases i <;> fin_cases j <;> simp [matMul, adj3, matScale, matId, det3, sum3] <;> ring

theorem adj3_matMul (A : Mat F) : matMul (adj3 A) A = matScale matId (det3 A) := by
  funext i j
  fin_cases i <;> fin_cases j <;> simp [matMul, adj3, matScale, matId, det3, sum3] <;> ring

end Ring

section Field
variable {F : Type} [Field F]

theorem matMul_matInv (A : Mat F) (h : det3 A ≠ 0) : matMul A (matInv A) = matId := by
  have h1 := matMul_adj3 A
  funext i j
  have := congrFun (congrFun h1 i) j
  simp only [matMul, matInv, sum3, matScale, matId] at this ⊢
  rw [show A i 0 * (adj3 A 0 j / det3 A) + A i 1 * (adj3 A 1 j / det3 A) + A i 2 * (adj3 A 2 j / det3 A)
      = (A i 0 * adj3 A 0 j + A i 1 * adj3 A 1 j + A i 2 * adj3 A 2 j) / det3 A by ring, this]
  split <;> simp [h]

theorem matInv_matMul (A : Mat F) (h : det3 A ≠ 0) : matMul (matInv A) A = matId := by
  have h1 := adj3_matMul A
  funext i j
  have := congrFun (congrFun h1 i) j
  simp only [matMul, matInv, sum3, matScale, matId] at this ⊢
  rw [show adj3 A i 0 / det3 A * A 0 j + adj3 A i 1 / det3 A * A 1 j + adj3 A i 2 / det3 A * A 2 j
      = (adj3 A i 0 * A 0 j + adj3 A i 1 * A 1 j + adj3 A i 2 * A 2 j) / det3 A by ring, this]
  split <;> simp [h]

/-- left cancellation by a nonsingular matrix -/
theorem matMul_left_cancel (A B C : Mat F) (h : det3 A ≠ 0) (e : matMul A B = matMul A C) : B = C := by
  have := congrArg (matMul (matInv A)) e
  rwa [← matMul_assoc, ← matMul_assoc, matInv_matMul A h, matMul_id_left, matMul_id_left] at this

end Field

/-! ### PSym bookkeeping -/
section Ordered
variable {F : Type} [Field F] [LinearOrder F] [IsStrictOrderedRing F]

/-- an operation as `__init__` leaves it: the stored part is a proper matrix -/
def PSym.Proper (g : PSym F) : Prop := 0 < det3 g.R

@[ext] theorem PSym.ext' {a b : PSym F} (h1 : a.R = b.R) (h2 : a.inv = b.inv) (h3 : a.tr = b.tr) : a = b := by
  cases a; cases b; simp_all

theorem PSym.mk'_tr (M : Mat F) (tr : Bool) : (PSym.mk' M tr).tr = tr := rfl

theorem PSym.mk'_inv (M : Mat F) (tr : Bool) : (PSym.mk' M tr).inv = decide (det3 M < 0) := rfl

theorem PSym.mk'_R (M : Mat F) (tr : Bool) : (PSym.mk' M tr).R = matScale M (sgn (decide (det3 M < 0))) := by
  have := freeze_eq (matScale M (sgn (decide (det3 M < 0))))
  unfold freeze at this
  simp [PSym.mk', this]

/-- `__init__` loses nothing: the full matrix of the constructed operation is the argument -/
theorem PSym.full_mk' (M : Mat F) (tr : Bool) : (PSym.mk' M tr).full = M := by
  simp [PSym.full, PSym.mk'_R, PSym.mk'_inv, matScale_matScale, sgn_mul_self, matScale_one]

theorem PSym.mk'_proper (M : Mat F) (tr : Bool) (h : det3 M ≠ 0) : (PSym.mk' M tr).Proper := by
  unfold PSym.Proper
  rw [PSym.mk'_R, det3_matScale, sgn_cube]
  by_cases hneg : det3 M < 0
  · simp [hneg, sgn]
  · have : 0 < det3 M := lt_of_le_of_ne (not_lt.mp hneg) (Ne.symm h)
    simpa [hneg, sgn] using this

theorem PSym.det_full (g : PSym F) : det3 g.full = sgn g.inv * det3 g.R := by
  simp [PSym.full, det3_matScale, sgn_cube]

/-- a proper operation is recovered from its full matrix -/
theorem PSym.mk'_full (g : PSym F) (h : g.Proper) : PSym.mk' g.full g.tr = g := by
  have hd : (det3 g.full < 0) ↔ g.inv = true := by
    rw [PSym.det_full]
    unfold PSym.Proper at h
    cases hi : g.inv <;> simp [sgn, h, le_of_lt h]
  apply PSym.ext'
  · rw [PSym.mk'_R]
    have : decide (det3 g.full < 0) = g.inv := by
      cases hi : g.inv
      · simp [hi] at hd; simp [hd]
      · simp [hi] at hd; simp [hd]
    rw [this, PSym.full, matScale_matScale, sgn_mul_self, matScale_one]
  · rw [PSym.mk'_inv]
    cases hi : g.inv
    · simp [hi] at hd; simp [hd]
    · simp [hi] at hd; simp [hd]
  · rfl

theorem PSym.mul_eq (a b : PSym F) : a.mul b = PSym.mk' (matMul a.full b.full) (a.tr != b.tr) := by
  unfold PSym.mul PSym.full
  rw [matMul_matScale]

theorem PSym.full_mul (a b : PSym F) : (a.mul b).full = matMul a.full b.full := by
  rw [PSym.mul_eq, PSym.full_mk']

theorem PSym.tr_mul (a b : PSym F) : (a.mul b).tr = (a.tr != b.tr) := rfl

theorem PSym.mul_assoc (a b c : PSym F) : (a.mul b).mul c = a.mul (b.mul c) := by
  rw [PSym.mul_eq (a.mul b) c, PSym.mul_eq a (b.mul c), PSym.full_mul, PSym.full_mul, matMul_assoc,
    PSym.tr_mul, PSym.tr_mul]
  congr 1
  cases a.tr <;> cases b.tr <;> cases c.tr <;> rfl

theorem PSym.mul_proper (a b : PSym F) (ha : a.Proper) (hb : b.Proper) : (a.mul b).Proper := by
  rw [PSym.mul_eq]
  apply PSym.mk'_proper
  rw [det3_matMul, PSym.det_full, PSym.det_full]
  unfold PSym.Proper at ha hb
  have h1 : (sgn a.inv : F) ≠ 0 := by cases a.inv <;> simp [sgn]
  have h2 : (sgn b.inv : F) ≠ 0 := by cases b.inv <;> simp [sgn]
  exact mul_ne_zero (mul_ne_zero h1 (ne_of_gt ha)) (mul_ne_zero h2 (ne_of_gt hb))

/-- for operations as the constructor leaves them, `__mul__` multiplies the proper parts and adds the flags -/
theorem PSym.mul_parts (a b : PSym F) (ha : a.Proper) (hb : b.Proper) :
    (a.mul b).R = matMul a.R b.R ∧ (a.mul b).inv = (a.inv != b.inv) ∧ (a.mul b).tr = (a.tr != b.tr) := by
  unfold PSym.Proper at ha hb
  have hdet : det3 (matScale (matMul a.R b.R) (sgn a.inv * sgn b.inv)) =
      sgn (a.inv != b.inv) * (det3 a.R * det3 b.R) := by
    rw [det3_matScale, det3_matMul, ← sgn_xor, sgn_cube]
  have hpos : 0 < det3 a.R * det3 b.R := mul_pos ha hb
  have hinv : decide (det3 (matScale (matMul a.R b.R) (sgn a.inv * sgn b.inv)) < 0) = (a.inv != b.inv) := by
    rw [hdet]
    cases hx : (a.inv != b.inv) <;> simp [sgn, hpos, le_of_lt hpos]
  refine ⟨?_, ?_, rfl⟩
  · unfold PSym.mul
    rw [PSym.mk'_R, hinv, matScale_matScale, ← sgn_xor, sgn_mul_self, matScale_one]
  · unfold PSym.mul
    rw [PSym.mk'_inv, hinv]

theorem PSym.identity_R : (PSym.identity : PSym F).R = matId ∧ (PSym.identity : PSym F).inv = false ∧
    (PSym.identity : PSym F).tr = false := by
  have h : ¬ (det3 (matId : Mat F) < 0) := by rw [det3_matId]; exact not_lt.mpr zero_le_one
  refine ⟨?_, ?_, rfl⟩
  · unfold PSym.identity; rw [PSym.mk'_R]; simp [h, sgn, matScale_one]
  · unfold PSym.identity; rw [PSym.mk'_inv]; simp [h]

theorem PSym.identity_proper : (PSym.identity : PSym F).Proper := by
  unfold PSym.Proper; rw [PSym.identity_R.1, det3_matId]; exact zero_lt_one

theorem PSym.identity_full : (PSym.identity : PSym F).full = matId := by
  unfold PSym.identity; rw [PSym.full_mk']

/-- `__eq__` (exact) is equality -/
theorem PSym.eqv_iff (a b : PSym F) : a.eqv b = true ↔ a = b := by
  unfold PSym.eqv matEq
  constructor
  · intro h
    simp only [Bool.and_eq_true, List.all_eq_true, List.mem_finRange, decide_eq_true_eq, beq_iff_eq,
      forall_const] at h
    exact PSym.ext' (funext fun i => funext fun j => h.1.1 i j) h.2 h.1.2
  · rintro rfl
    simp

/-- proper operations are determined by full matrix and TR flag -/
theorem PSym.eq_of_full_eq (a b : PSym F) (ha : a.Proper) (hb : b.Proper) (hf : a.full = b.full)
    (ht : a.tr = b.tr) : a = b := by
  rw [← PSym.mk'_full a ha, ← PSym.mk'_full b hb, hf, ht]

/-- left cancellation among proper operations -/
theorem PSym.mul_left_cancel (g a b : PSym F) (hg : g.Proper) (ha : a.Proper) (hb : b.Proper)
    (e : g.mul a = g.mul b) : a = b := by
  have hf : matMul g.full a.full = matMul g.full b.full := by
    rw [← PSym.full_mul, ← PSym.full_mul, e]
  have hdet : det3 g.full ≠ 0 := by
    rw [PSym.det_full]
    unfold PSym.Proper at hg
    have h1 : (sgn g.inv : F) ≠ 0 := by cases g.inv <;> simp [sgn]
    exact mul_ne_zero h1 (ne_of_gt hg)
  have ht : a.tr = b.tr := by
    have := congrArg PSym.tr e
    rw [PSym.tr_mul, PSym.tr_mul] at this
    cases hga : g.tr <;> cases hat : a.tr <;> cases hbt : b.tr <;> simp_all
  exact PSym.eq_of_full_eq a b ha hb (matMul_left_cancel _ _ _ hdet hf) ht

/-- the product acts on Cartesian k-vectors as the composition (no hypothesis on the operations) -/
theorem PSym.actCart_mul (a b : PSym F) (k : Vec F) : (a.mul b).actCart k = a.actCart (b.actCart k) := by
  have key : ∀ (g : PSym F) (v : Vec F), g.actCart v = fun i => sgn g.tr * matVec g.full v i := by
    intro g v; funext i
    simp only [PSym.actCart, PSym.full, matVec, matScale, sum3]; ring
  rw [key, key a, key b, PSym.full_mul, PSym.tr_mul, sgn_xor, matVec_matMul]
  funext i
  simp only [matVec, sum3]; ring

theorem PSym.actCart_identity (k : Vec F) : (PSym.identity : PSym F).actCart k = k := by
  funext i
  obtain ⟨h1, h2, h3⟩ := PSym.identity_R (F := F)
  simp only [PSym.actCart, h1, h2, h3, sgn, matVec, matId, sum3]
  fin_cases i <;> simp

end Ordered

end WB.C09
