/-
  C09 helper lemmas, part 2: finite "groups given as lists" and the closure loop of `PointGroup.__init__`.
-/
import WB.Lemmas.C09Alg
import Mathlib.Data.List.Nodup
import Mathlib.Data.List.Perm.Subperm
import Mathlib.Tactic.Linarith

set_option linter.unusedSectionVars false
set_option linter.unusedSimpArgs false

namespace WB.C09

/-! ### a finite group given as a duplicate-free list closed under a cancellative product -/

structure ListGroup {α : Type} (mul : α → α → α) (L : List α) : Prop where
  nodup : L.Nodup
  closed : ∀ a ∈ L, ∀ b ∈ L, mul a b ∈ L
  cancel : ∀ a ∈ L, ∀ b ∈ L, ∀ c ∈ L, mul a b = mul a c → b = c

/-- left multiplication by a member permutes the list -/
theorem ListGroup.perm_map_mul {α : Type} {mul : α → α → α} {L : List α} (h : ListGroup mul L) {a : α}
    (ha : a ∈ L) : (L.map (mul a)).Perm L := by
  have hnd : (L.map (mul a)).Nodup :=
    List.Nodup.map_on (fun b hb c hc e => h.cancel a ha b hb c hc e) h.nodup
  have hsub : L.map (mul a) ⊆ L := by
    intro x hx
    obtain ⟨b, hb, rfl⟩ := List.mem_map.1 hx
    exact h.closed a ha b hb
  exact (List.subperm_of_subset hnd hsub).perm_of_length_le (by simp)

theorem ListGroup.exists_mul_eq {α : Type} {mul : α → α → α} {L : List α} (h : ListGroup mul L) {a b : α}
    (ha : a ∈ L) (hb : b ∈ L) : ∃ x ∈ L, mul a x = b := by
  have := (h.perm_map_mul ha).mem_iff.2 hb
  obtain ⟨x, hx, e⟩ := List.mem_map.1 this
  exact ⟨x, hx, e⟩

section Generate
variable {F : Type} [Field F] [LinearOrder F] [IsStrictOrderedRing F]

theorem memL_iff (s : PSym F) (L : List (PSym F)) : memL s L = true ↔ s ∈ L := by
  unfold memL
  rw [List.any_eq_true]
  constructor
  · rintro ⟨t, ht, e⟩
    rw [PSym.eqv_iff] at e
    exact e ▸ ht
  · intro h
    exact ⟨s, h, (PSym.eqv_iff s s).2 rfl⟩

/-- position `(a, b)` has not been visited yet when the loop stands at `(i, j)` -/
def NotBefore (i j a b : Nat) : Prop := i < a ∨ (i = a ∧ j ≤ b)

/-- One pass of the double loop: the result extends the list; if it did not grow, every product of the pairs
    not yet visited is in the list. -/
theorem passLoop_spec : ∀ (fuel : Nat) (L : List (PSym F)) (i j : Nat) (L' : List (PSym F)),
    passLoop fuel L i j = some L' →
      (∃ T, L' = L ++ T) ∧
      (L'.length = L.length → ∀ a b (ha : a < L.length) (hb : b < L.length), NotBefore i j a b →
        (L[a]).mul (L[b]) ∈ L)
  | 0, L, i, j, L', h => by simp [passLoop] at h
  | fuel + 1, L, i, j, L', h => by
    unfold passLoop at h
    split at h
    · rename_i hi
      split at h
      · rename_i hj
        simp only at h
        split at h
        · rename_i hmem
          obtain ⟨hT, hP⟩ := passLoop_spec fuel L i (j + 1) L' h
          refine ⟨hT, fun hl a b ha hb hnb => ?_⟩
          by_cases hab : a = i ∧ b = j
          · obtain ⟨rfl, rfl⟩ := hab
            exact (memL_iff _ _).1 hmem
          · apply hP hl a b ha hb
            unfold NotBefore at hnb ⊢
            omega
        · split at h
          · exact absurd h (by simp)
          · obtain ⟨⟨T, hT⟩, _⟩ := passLoop_spec fuel _ i (j + 1) L' h
            refine ⟨⟨(L[i].mul L[j]) :: T, by rw [hT]; simp⟩, fun hl => ?_⟩
            exfalso
            rw [hT] at hl
            simp at hl
      · rename_i hj
        obtain ⟨hT, hP⟩ := passLoop_spec fuel L (i + 1) 0 L' h
        refine ⟨hT, fun hl a b ha hb hnb => ?_⟩
        apply hP hl a b ha hb
        unfold NotBefore at hnb ⊢
        omega
    · rename_i hi
      simp only [Option.some.injEq] at h
      subst h
      refine ⟨⟨[], by simp⟩, fun _ a b ha hb hnb => ?_⟩
      unfold NotBefore at hnb
      omega

/-- a property that holds for the initial list and is preserved by products holds for the result -/
theorem passLoop_forall (P : PSym F → Prop) (hmul : ∀ a b, P a → P b → P (a.mul b)) :
    ∀ (fuel : Nat) (L : List (PSym F)) (i j : Nat) (L' : List (PSym F)),
      passLoop fuel L i j = some L' → (∀ g ∈ L, P g) → ∀ g ∈ L', P g
  | 0, L, i, j, L', h, _ => by simp [passLoop] at h
  | fuel + 1, L, i, j, L', h, hL => by
    unfold passLoop at h
    split at h
    · rename_i hi
      split at h
      · rename_i hj
        simp only at h
        split at h
        · exact passLoop_forall P hmul fuel L i (j + 1) L' h hL
        · split at h
          · exact absurd h (by simp)
          · apply passLoop_forall P hmul fuel _ i (j + 1) L' h
            intro g hg
            rcases List.mem_append.1 hg with hg | hg
            · exact hL g hg
            · rw [List.mem_singleton] at hg
              subst hg
              exact hmul _ _ (hL _ (List.getElem_mem hi)) (hL _ (List.getElem_mem hj))
      · exact passLoop_forall P hmul fuel L (i + 1) 0 L' h hL
    · simp only [Option.some.injEq] at h
      subst h
      exact hL

theorem passLoop_nodup : ∀ (fuel : Nat) (L : List (PSym F)) (i j : Nat) (L' : List (PSym F)),
    passLoop fuel L i j = some L' → L.Nodup → L'.Nodup
  | 0, L, i, j, L', h, _ => by simp [passLoop] at h
  | fuel + 1, L, i, j, L', h, hL => by
    unfold passLoop at h
    split at h
    · split at h
      · simp only at h
        split at h
        · exact passLoop_nodup fuel L i (j + 1) L' h hL
        · rename_i hmem
          split at h
          · exact absurd h (by simp)
          · apply passLoop_nodup fuel _ i (j + 1) L' h
            rw [List.nodup_append]
            refine ⟨hL, List.nodup_singleton _, ?_⟩
            intro a ha b hb
            rw [List.mem_singleton] at hb
            subst hb
            intro e
            subst e
            exact hmem ((memL_iff _ _).2 ha)
      · exact passLoop_nodup fuel L (i + 1) 0 L' h hL
    · simp only [Option.some.injEq] at h
      subst h
      exact hL

/-! reading the generator list drops repeated generators -/

theorem readGens_aux (gens : List (PSym F)) : ∀ (acc : List (PSym F)), acc.Nodup →
    (gens.foldl (fun acc g => if memL g acc then acc else acc ++ [g]) acc).Nodup ∧
    (∀ x, x ∈ gens.foldl (fun acc g => if memL g acc then acc else acc ++ [g]) acc ↔ x ∈ acc ∨ x ∈ gens) ∧
    (∃ T, gens.foldl (fun acc g => if memL g acc then acc else acc ++ [g]) acc = acc ++ T) := by
  induction gens with
  | nil => intro acc h; exact ⟨h, fun x => by simp, ⟨[], by simp⟩⟩
  | cons g t ih =>
    intro acc h
    rw [List.foldl_cons]
    by_cases hm : memL g acc = true
    · rw [if_pos hm]
      obtain ⟨h1, h2, h3⟩ := ih acc h
      refine ⟨h1, fun x => ?_, h3⟩
      rw [h2 x, List.mem_cons]
      have := (memL_iff g acc).1 hm
      constructor
      · rintro (hx | hx)
        · exact Or.inl hx
        · exact Or.inr (Or.inr hx)
      · rintro (hx | hx | hx)
        · exact Or.inl hx
        · exact Or.inl (hx ▸ this)
        · exact Or.inr hx
    · rw [if_neg hm]
      have hg : g ∉ acc := fun hh => hm ((memL_iff g acc).2 hh)
      have hnd : (acc ++ [g]).Nodup := by
        rw [List.nodup_append]
        refine ⟨h, List.nodup_singleton _, ?_⟩
        intro a ha b hb
        rw [List.mem_singleton] at hb
        subst hb
        intro e; subst e; exact hg ha
      obtain ⟨h1, h2, ⟨T, h3⟩⟩ := ih (acc ++ [g]) hnd
      refine ⟨h1, fun x => ?_, ⟨g :: T, by rw [h3]; simp⟩⟩
      rw [h2 x, List.mem_append, List.mem_singleton, List.mem_cons]
      tauto

theorem readGens_nodup (gens : List (PSym F)) : (readGens gens).Nodup :=
  (readGens_aux gens [] List.nodup_nil).1

theorem mem_readGens (gens : List (PSym F)) (x : PSym F) : x ∈ readGens gens ↔ x ∈ gens := by
  have := (readGens_aux gens [] List.nodup_nil).2.1 x
  simpa [readGens] using this

/-- a duplicate-free generator list is read unchanged -/
theorem readGens_of_nodup (gens : List (PSym F)) (h : gens.Nodup) : readGens gens = gens := by
  have key : ∀ (t acc : List (PSym F)), (acc ++ t).Nodup →
      t.foldl (fun acc g => if memL g acc then acc else acc ++ [g]) acc = acc ++ t := by
    intro t
    induction t with
    | nil => intro acc _; simp
    | cons g t ih =>
      intro acc hnd
      rw [List.foldl_cons]
      have hg : g ∉ acc := by
        intro hh
        have := (List.nodup_append.1 hnd).2.2 g hh g (by simp)
        exact this rfl
      have hm : ¬ memL g acc = true := fun hh => hg ((memL_iff g acc).1 hh)
      rw [if_neg hm, ih (acc ++ [g]) (by simpa using hnd)]
      simp
  simpa [readGens] using key gens [] (by simpa using h)

/-- closure of a list under the model product -/
def Closed (L : List (PSym F)) : Prop := ∀ a ∈ L, ∀ b ∈ L, a.mul b ∈ L

theorem whileLoop_spec (P : PSym F → Prop) (hmul : ∀ a b, P a → P b → P (a.mul b)) :
    ∀ (n : Nat) (L L' : List (PSym F)), whileLoop n L = some L' →
      (∃ T, L' = L ++ T) ∧ Closed L' ∧ (L.Nodup → L'.Nodup) ∧ ((∀ g ∈ L, P g) → ∀ g ∈ L', P g)
  | 0, L, L', h => by simp [whileLoop] at h
  | n + 1, L, L', h => by
    unfold whileLoop at h
    split at h
    · exact absurd h (by simp)
    · rename_i L1 hpass
      obtain ⟨⟨T, hT⟩, hP⟩ := passLoop_spec passFuel L 0 0 L1 hpass
      split at h
      · rename_i hlen
        simp only [Option.some.injEq] at h
        subst h
        have hT0 : T = [] := by
          have := congrArg List.length hT
          simp at this
          exact List.length_eq_zero_iff.mp (by omega)
        have hL1 : L1 = L := by rw [hT, hT0]; simp
        subst hL1
        refine ⟨⟨[], by simp⟩, ?_, fun h => h, fun h => h⟩
        intro a ha b hb
        obtain ⟨ia, hia, rfl⟩ := List.getElem_of_mem ha
        obtain ⟨ib, hib, rfl⟩ := List.getElem_of_mem hb
        exact hP rfl ia ib hia hib (by unfold NotBefore; omega)
      · obtain ⟨⟨T2, hT2⟩, hcl, hnd, hfa⟩ := whileLoop_spec P hmul n L1 L' h
        refine ⟨⟨T ++ T2, by rw [hT2, hT]; simp⟩, hcl, fun h0 => hnd (passLoop_nodup _ _ _ _ _ hpass h0),
          fun h0 => hfa (passLoop_forall P hmul _ _ _ _ _ hpass h0)⟩

end Generate

end WB.C09
