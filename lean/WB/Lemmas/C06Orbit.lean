/-
  C06 helper lemmas: the symmetry loop of `Grid.get_K_list` keeps, for every orbit of grid points, exactly the
  first point of the orbit (in the order of the loop), with the weight of the whole orbit.
-/
import WB.Lemmas.C06Sum

namespace WB.C06

/-! ### position of a grid point in the flattened list -/

theorem getElem?_flatMap_range {α : Type} (f : Nat → List α) (m : Nat) (hf : ∀ x, (f x).length = m) :
    ∀ (a x j : Nat), x < a → j < m → ((List.range a).flatMap f)[x * m + j]? = (f x)[j]?
  | 0, x, j, hx, _ => by omega
  | a + 1, x, j, hx, hj => by
    have hlen : ((List.range a).flatMap f).length = a * m := by
      simp only [List.length_flatMap, hf, List.map_const', List.sum_replicate, List.length_range, smul_eq_mul]
    rw [List.range_succ, List.flatMap_append]
    simp only [List.flatMap_cons, List.flatMap_nil, List.append_nil]
    by_cases hxa : x < a
    · have : x * m + j < a * m := by
        have : (x + 1) * m ≤ a * m := Nat.mul_le_mul_right m hxa
        rw [Nat.add_mul] at this; omega
      rw [List.getElem?_append_left (by rw [hlen]; exact this)]
      exact getElem?_flatMap_range f m hf a x j hxa hj
    · have hxa' : x = a := by omega
      subst hxa'
      rw [List.getElem?_append_right (by rw [hlen]; omega), hlen]
      congr 1; omega

theorem flatOrder_getElem (div : Idx) (p : Idx) (hp : inRange div p) :
    (flatOrder div)[flat div p]? = some p := by
  obtain ⟨x, y, z⟩ := p
  obtain ⟨hx, hy, hz⟩ := hp
  simp only at hx hy hz
  unfold flatOrder flat
  have e : (x * div.2.1 + y) * div.2.2 + z = x * (div.2.1 * div.2.2) + (y * div.2.2 + z) := by ring
  have hyz : y * div.2.2 + z < div.2.1 * div.2.2 := by
    have : (y + 1) * div.2.2 ≤ div.2.1 * div.2.2 := Nat.mul_le_mul_right _ hy
    rw [Nat.add_mul] at this; omega
  simp only
  rw [e, getElem?_flatMap_range _ (div.2.1 * div.2.2) (fun x => by
      simp only [List.length_flatMap, List.length_map, List.length_range, List.map_const', List.sum_replicate,
        smul_eq_mul]) div.1 x _ hx hyz]
  rw [getElem?_flatMap_range _ div.2.2 (fun y => by simp) div.2.1 y z hy hz]
  rw [List.getElem?_map, List.getElem?_range hz]
  rfl

/-! ### well-formed grid states -/

/-- every in-range grid point sits at its own flattened position -/
def WF (div : Idx) (g : GridState) : Prop := ∀ q, inRange div q → ∃ o, g[flat div q]? = some (q, o)

/-- the weight stored for grid point `q` (`none` = slot was set to `None`) -/
def get (div : Idx) (g : GridState) (q : Idx) : Option Rat := slot g (flat div q)

theorem get_of_entry {div : Idx} {g : GridState} {q : Idx} {o : Option Rat}
    (h : g[flat div q]? = some (q, o)) : get div g q = o := by
  unfold get slot; rw [h]; rfl

theorem entry_of_get {div : Idx} {g : GridState} {q : Idx} (hw : WF div g) (hq : inRange div q) :
    g[flat div q]? = some (q, get div g q) := by
  obtain ⟨o, ho⟩ := hw q hq
  rw [get_of_entry ho]; exact ho

theorem initGrid_WF (div : Idx) : WF div (initGrid div) ∧
    ∀ q, inRange div q → get div (initGrid div) q = some (1 / ((div.1 * div.2.1 * div.2.2 : Nat) : Rat)) := by
  have key : ∀ q, inRange div q →
      (initGrid div)[flat div q]? = some (q, some (1 / ((div.1 * div.2.1 * div.2.2 : Nat) : Rat))) := by
    intro q hq
    unfold initGrid
    rw [List.getElem?_map, flatOrder_getElem div q hq]; rfl
  exact ⟨fun q hq => ⟨_, key q hq⟩, fun q hq => get_of_entry (key q hq)⟩

theorem absorbAt_spec (div : Idx) (g : GridState) (p k : Idx) (a c : Rat)
    (hw : WF div g) (hp : inRange div p) (hk : inRange div k) (hne : k ≠ p)
    (ha : get div g p = some a) (hc : get div g k = some c) :
    WF div (absorbAt g (flat div p) (flat div k)) ∧
    get div (absorbAt g (flat div p) (flat div k)) p = some (a + c) ∧
    get div (absorbAt g (flat div p) (flat div k)) k = none ∧
    ∀ q, inRange div q → q ≠ p → q ≠ k →
      get div (absorbAt g (flat div p) (flat div k)) q = get div g q := by
  have e1 := entry_of_get hw hp; rw [ha] at e1
  have e2 := entry_of_get hw hk; rw [hc] at e2
  have hg1 : absorbAt g (flat div p) (flat div k) =
      (g.set (flat div p) (p, some (a + c))).set (flat div k) (k, none) := by
    unfold absorbAt; rw [e1, e2]
  rw [hg1]
  have hlp : flat div p < g.length := (List.getElem?_eq_some_iff.mp e1).1
  have hlk : flat div k < (g.set (flat div p) (p, some (a + c))).length := by
    rw [List.length_set]; exact (List.getElem?_eq_some_iff.mp e2).1
  have hfpk : flat div p ≠ flat div k := fun h => hne (flat_inj div p k hp hk h).symm
  have ek : ((g.set (flat div p) (p, some (a + c))).set (flat div k) (k, none))[flat div k]? = some (k, none) :=
    List.getElem?_set_self hlk
  have ep : ((g.set (flat div p) (p, some (a + c))).set (flat div k) (k, none))[flat div p]? =
      some (p, some (a + c)) := by
    rw [List.getElem?_set_ne (fun h => hfpk h.symm), List.getElem?_set_self hlp]
  have eq : ∀ q, inRange div q → q ≠ p → q ≠ k →
      ((g.set (flat div p) (p, some (a + c))).set (flat div k) (k, none))[flat div q]? = g[flat div q]? := by
    intro q hq h1 h2
    rw [List.getElem?_set_ne (fun h => h2 (flat_inj div k q hk hq h).symm),
      List.getElem?_set_ne (fun h => h1 (flat_inj div p q hp hq h).symm)]
  refine ⟨?_, get_of_entry ep, get_of_entry ek, ?_⟩
  · intro q hq
    by_cases h2 : q = k
    · subst h2; exact ⟨_, ek⟩
    by_cases h1 : q = p
    · subst h1; exact ⟨_, ep⟩
    · rw [eq q hq h1 h2]; exact hw q hq
  · intro q hq h1 h2
    unfold get slot
    rw [eq q hq h1 h2]

/-- the inner loop over the star of `p`: `p` absorbs every other (still alive) point of the list -/
theorem inner_spec (div : Idx) (p : Idx) (hp : inRange div p) (c : Rat) :
    ∀ (ks : List Idx), ks.Nodup → (∀ k ∈ ks, inRange div k) → ∀ (g : GridState) (a : Rat), WF div g →
      get div g p = some a → (∀ k ∈ ks, k ≠ p → get div g k = some c) →
      let g' := ks.foldl (fun g k => if k ≠ p then absorbAt g (flat div p) (flat div k) else g) g
      WF div g' ∧ get div g' p = some (a + c * ((ks.filter (fun k => decide (k ≠ p))).length : Rat)) ∧
        (∀ k ∈ ks, k ≠ p → get div g' k = none) ∧
        (∀ q, inRange div q → q ∉ ks → q ≠ p → get div g' q = get div g q) := by
  intro ks
  induction ks with
  | nil =>
    intro _ _ g a hw ha _
    refine ⟨hw, ?_, fun k hk => by simp at hk, fun q _ _ _ => rfl⟩
    simp only [List.foldl_nil, List.filter_nil, List.length_nil, Nat.cast_zero, mul_zero, add_zero]
    exact ha
  | cons k ks ih =>
    intro hnd hr g a hw ha hc
    have hnd' := (List.nodup_cons.mp hnd).2
    have hknot := (List.nodup_cons.mp hnd).1
    have hr' : ∀ k' ∈ ks, inRange div k' := fun k' h => hr k' (by simp [h])
    simp only [List.foldl_cons]
    by_cases hkp : k = p
    · -- the point itself: skipped
      subst hkp
      simp only [ne_eq, not_true_eq_false, ↓reduceIte]
      obtain ⟨w, e, n, o⟩ := ih hnd' hr' g a hw ha (fun k' h h' => hc k' (by simp [h]) h')
      refine ⟨w, ?_, ?_, ?_⟩
      · simp only [List.filter_cons, not_true_eq_false, decide_false, Bool.false_eq_true, ↓reduceIte]
        exact e
      · intro k' hk' hne
        rcases List.mem_cons.mp hk' with rfl | h
        · exact absurd rfl hne
        · exact n k' h hne
      · intro q hq hnot hne
        exact o q hq (fun h => hnot (by simp [h])) hne
    · simp only [ne_eq, hkp, not_false_eq_true, ↓reduceIte]
      have hk : inRange div k := hr k (by simp)
      obtain ⟨w1, ep, ek, eo⟩ := absorbAt_spec div g p k a c hw hp hk hkp ha (hc k (by simp) hkp)
      obtain ⟨w, e, n, o⟩ := ih hnd' hr' (absorbAt g (flat div p) (flat div k)) (a + c) w1 ep (by
        intro k' h h'
        rw [eo k' (hr' k' h) h' (fun heq => hknot (heq ▸ h))]
        exact hc k' (by simp [h]) h')
      refine ⟨w, ?_, ?_, ?_⟩
      · simp only [List.filter_cons, hkp, not_false_eq_true, decide_true, ↓reduceIte, List.length_cons,
          Nat.cast_add, Nat.cast_one]
        simp only [ne_eq] at e
        rw [e]; congr 1; ring
      · intro k' hk' hne
        rcases List.mem_cons.mp hk' with rfl | h
        · rw [o k' hk hknot hne]; exact ek
        · exact n k' h hne
      · intro q hq hnot hne
        have hqk : q ≠ k := fun h => hnot (by simp [h])
        rw [o q hq (fun h => hnot (by simp [h])) hne]
        exact eo q hq hne hqk

theorem length_filter_ne (p : Idx) : ∀ (ks : List Idx), ks.Nodup → p ∈ ks →
    (ks.filter (fun k => decide (k ≠ p))).length + 1 = ks.length
  | [], _, h => by simp at h
  | k :: ks, hnd, h => by
    have hnd' := (List.nodup_cons.mp hnd).2
    have hknot := (List.nodup_cons.mp hnd).1
    by_cases hkp : k = p
    · subst hkp
      have : ks.filter (fun k' => decide (k' ≠ k)) = ks := by
        apply List.filter_eq_self.mpr
        intro a ha
        simp only [ne_eq, decide_not, Bool.not_eq_eq_eq_not, Bool.not_true, decide_eq_false_iff_not]
        exact fun h => hknot (h ▸ ha)
      simp only [ne_eq, List.filter_cons, not_true_eq_false, decide_false, Bool.false_eq_true, ↓reduceIte,
        List.length_cons]
      simp only [ne_eq] at this
      rw [this]
    · have hp : p ∈ ks := by
        rcases List.mem_cons.mp h with rfl | h
        · exact absurd rfl hkp
        · exact h
      simp only [ne_eq, List.filter_cons, hkp, not_false_eq_true, decide_true, ↓reduceIte, List.length_cons]
      have := length_filter_ne p ks hnd' hp
      simp only [ne_eq] at this
      omega

/-! ### the loop invariant -/

/-- hypotheses on the star map `S = starIdx syms div` ("the symmetry list is a group that maps the grid to itself"):
    on grid indices the relation `q ∈ S p` is an equivalence and `S p` lists every point of the orbit once -/
structure OrbitHyp (div : Idx) (S : Idx → List Idx) : Prop where
  range : ∀ p, inRange div p → ∀ q ∈ S p, inRange div q
  refl : ∀ p, inRange div p → p ∈ S p
  symm : ∀ p q, inRange div p → inRange div q → q ∈ S p → p ∈ S q
  trans : ∀ p q r, inRange div p → inRange div q → inRange div r → q ∈ S p → r ∈ S q → r ∈ S p
  nodup : ∀ p, inRange div p → (S p).Nodup

/-- expected content of slot `q` after the points in `Q` have been processed -/
def expected (div : Idx) (S : Idx → List Idx) (Q : List Idx) (q : Idx) : Option Rat :=
  match Q.find? (fun r => decide (r ∈ S q)) with
  | none => some (1 / ((div.1 * div.2.1 * div.2.2 : Nat) : Rat))
  | some r => if r = q then some (((S q).length : Rat) / ((div.1 * div.2.1 * div.2.2 : Nat) : Rat)) else none

theorem gridStep_inv (syms : List Sym) (div : Idx) (hS : OrbitHyp div (starIdx syms div))
    (Q : List Idx) (p : Idx) (hQ : ∀ r ∈ Q, inRange div r) (hp : inRange div p) (hpQ : p ∉ Q)
    (g : GridState) (hw : WF div g) (hg : ∀ q, inRange div q → get div g q = expected div (starIdx syms div) Q q) :
    WF div (gridStep syms div g p) ∧
    ∀ q, inRange div q → get div (gridStep syms div g p) q = expected div (starIdx syms div) (Q ++ [p]) q := by
  have hN : ((div.1 * div.2.1 * div.2.2 : Nat) : Rat) ≠ 0 := by
    have h1 : 0 < div.1 := by unfold inRange at hp; omega
    have h2 : 0 < div.2.1 := by unfold inRange at hp; omega
    have h3 : 0 < div.2.2 := by unfold inRange at hp; omega
    have : 0 < div.1 * div.2.1 * div.2.2 := Nat.mul_pos (Nat.mul_pos h1 h2) h3
    exact_mod_cast this.ne'
  -- what `expected` becomes when `p` is appended
  have hexp : ∀ q, expected div (starIdx syms div) (Q ++ [p]) q =
      match Q.find? (fun r => decide (r ∈ starIdx syms div q)) with
      | some r => expected div (starIdx syms div) Q q
      | none => if p ∈ starIdx syms div q then
          (if p = q then some (((starIdx syms div q).length : Rat) / ((div.1 * div.2.1 * div.2.2 : Nat) : Rat)) else none)
          else some (1 / ((div.1 * div.2.1 * div.2.2 : Nat) : Rat)) := by
    intro q
    unfold expected
    rw [List.find?_append]
    cases hf : Q.find? (fun r => decide (r ∈ starIdx syms div q)) with
    | some r => simp
    | none =>
      by_cases hm : p ∈ starIdx syms div q
      · simp [hm]
      · simp [hm]
  cases hfp : Q.find? (fun r => decide (r ∈ starIdx syms div p)) with
  | some r =>
    -- an earlier point of the orbit of `p` was processed: slot `p` is already `None`
    have hr : r ∈ Q := List.mem_of_find?_eq_some hfp
    have hrS : r ∈ starIdx syms div p := by simpa using List.find?_some hfp
    have hrp : r ≠ p := fun h => hpQ (h ▸ hr)
    have hgp : get div g p = none := by
      rw [hg p hp]; unfold expected; rw [hfp]; simp [hrp]
    have hstep : gridStep syms div g p = g := by
      unfold gridStep; unfold get at hgp; rw [hgp]
    rw [hstep]
    refine ⟨hw, ?_⟩
    intro q hq
    rw [hg q hq, hexp q]
    cases hfq : Q.find? (fun r => decide (r ∈ starIdx syms div q)) with
    | some r' => rfl
    | none =>
      have hpq : p ∉ starIdx syms div q := by
        intro hpq
        have : r ∈ starIdx syms div q := hS.trans q p r hq hp (hQ r hr) hpq hrS
        have := (List.find?_eq_none.mp hfq) r hr
        simp_all
      simp only [hpq, ↓reduceIte]
      unfold expected; rw [hfq]
  | none =>
    -- `p` is the first point of its orbit: every point of the orbit still carries 1/N
    have hnoneQ : ∀ k ∈ starIdx syms div p, Q.find? (fun r => decide (r ∈ starIdx syms div k)) = none := by
      intro k hk
      apply List.find?_eq_none.mpr
      intro r hr hrk
      have hrk' : r ∈ starIdx syms div k := by simpa using hrk
      have : r ∈ starIdx syms div p := hS.trans p k r hp (hS.range p hp k hk) (hQ r hr) hk hrk'
      have := (List.find?_eq_none.mp hfp) r hr
      simp_all
    have hgk : ∀ k ∈ starIdx syms div p, get div g k = some (1 / ((div.1 * div.2.1 * div.2.2 : Nat) : Rat)) := by
      intro k hk
      rw [hg k (hS.range p hp k hk)]; unfold expected; rw [hnoneQ k hk]
    have hgp := hgk p (hS.refl p hp)
    have hstep : gridStep syms div g p =
        (starIdx syms div p).foldl (fun g k => if k ≠ p then absorbAt g (flat div p) (flat div k) else g) g := by
      unfold gridStep; unfold get at hgp; rw [hgp]
    rw [hstep]
    obtain ⟨w, e, n, o⟩ := inner_spec div p hp (1 / ((div.1 * div.2.1 * div.2.2 : Nat) : Rat))
      (starIdx syms div p) (hS.nodup p hp) (hS.range p hp) g _ hw hgp (fun k hk _ => hgk k hk)
    refine ⟨w, ?_⟩
    intro q hq
    rw [hexp q]
    by_cases hqS : q ∈ starIdx syms div p
    · have hpq : p ∈ starIdx syms div q := hS.symm p q hp hq hqS
      rw [hnoneQ q hqS]
      simp only [hpq, ↓reduceIte]
      by_cases hpq' : p = q
      · subst hpq'
        simp only [↓reduceIte]
        rw [e]
        congr 1
        have hl := length_filter_ne p (starIdx syms div p) (hS.nodup p hp) (hS.refl p hp)
        have : ((starIdx syms div p).length : Rat) =
            (((starIdx syms div p).filter (fun k => decide (k ≠ p))).length : Rat) + 1 := by
          exact_mod_cast hl.symm
        rw [this]
        field_simp
        ring
      · simp only [hpq', ↓reduceIte]
        exact n q hqS (fun h => hpq' h.symm)
    · have hpq : p ∉ starIdx syms div q := fun h => hqS (hS.symm q p hq hp h)
      have hqp : q ≠ p := fun h => hqS (h ▸ hS.refl p hp)
      rw [o q hq hqS hqp, hg q hq]
      cases hfq : Q.find? (fun r => decide (r ∈ starIdx syms div q)) with
      | some r' => rfl
      | none =>
        simp only [hpq, ↓reduceIte]
        unfold expected; rw [hfq]

theorem loop_inv (syms : List Sym) (div : Idx) (hS : OrbitHyp div (starIdx syms div)) :
    ∀ (R Q : List Idx) (g : GridState), (Q ++ R).Nodup → (∀ r ∈ Q ++ R, inRange div r) → WF div g →
      (∀ q, inRange div q → get div g q = expected div (starIdx syms div) Q q) →
      WF div (R.foldl (gridStep syms div) g) ∧
      ∀ q, inRange div q →
        get div (R.foldl (gridStep syms div) g) q = expected div (starIdx syms div) (Q ++ R) q := by
  intro R
  induction R with
  | nil =>
    intro Q g _ _ hw hg
    simp only [List.foldl_nil, List.append_nil]
    exact ⟨hw, hg⟩
  | cons p R ih =>
    intro Q g hnd hr hw hg
    simp only [List.foldl_cons]
    have hp : inRange div p := hr p (by simp)
    have hpQ : p ∉ Q := by
      intro h
      have := List.nodup_append.mp hnd
      exact this.2.2 p h p (by simp) rfl
    obtain ⟨w1, g1⟩ := gridStep_inv syms div hS Q p (fun r h => hr r (by simp [h])) hp hpQ g hw hg
    have := ih (Q ++ [p]) (gridStep syms div g p) (by simpa using hnd) (by simpa using hr) w1 g1
    simpa using this

theorem loopOrder_nodup (div : Idx) : (loopOrder div).Nodup := by
  unfold loopOrder
  rw [List.nodup_flatMap]
  refine ⟨?_, ?_⟩
  · intro z _
    rw [List.nodup_flatMap]
    refine ⟨?_, ?_⟩
    · intro y _
      exact (List.nodup_range).map (fun a b h => by simpa using h)
    · apply List.Pairwise.imp_of_mem _ (List.nodup_range (n := div.2.1))
      intro a b _ _ hab
      simp only [Function.onFun, List.disjoint_left, List.mem_map, List.mem_range, not_exists, not_and]
      rintro _ ⟨x, _, rfl⟩ x' _ h
      simp only [Prod.mk.injEq] at h
      exact hab h.2.1.symm
  · apply List.Pairwise.imp_of_mem _ (List.nodup_range (n := div.2.2))
    intro a b _ _ hab
    simp only [Function.onFun, List.disjoint_left, List.mem_flatMap, List.mem_map, List.mem_range, not_exists,
      not_and]
    rintro _ ⟨y, _, x, _, rfl⟩ y' _ x' _ h
    simp only [Prod.mk.injEq] at h
    exact hab h.2.2.symm

/-- content of every slot after the whole loop -/
theorem finalGrid_spec (syms : List Sym) (div : Idx) (hS : OrbitHyp div (starIdx syms div)) :
    WF div (finalGrid syms div true) ∧
    ∀ q, inRange div q →
      get div (finalGrid syms div true) q = expected div (starIdx syms div) (loopOrder div) q := by
  unfold finalGrid
  simp only [↓reduceIte]
  obtain ⟨w0, g0⟩ := initGrid_WF div
  have := loop_inv syms div hS (loopOrder div) [] (initGrid div) (by simpa using loopOrder_nodup div)
    (by intro r hr; exact (mem_loopOrder div r).mp (by simpa using hr)) w0
    (by intro q hq; rw [g0 q hq]; rfl)
  simpa using this

/-! ### from slots to the returned list -/

theorem flatOrder_nodup (div : Idx) : (flatOrder div).Nodup := by
  unfold flatOrder
  rw [List.nodup_flatMap]
  refine ⟨?_, ?_⟩
  · intro x _
    rw [List.nodup_flatMap]
    refine ⟨?_, ?_⟩
    · intro y _
      exact (List.nodup_range).map (fun a b h => by simpa using h)
    · apply List.Pairwise.imp_of_mem _ (List.nodup_range (n := div.2.1))
      intro a b _ _ hab
      simp only [Function.onFun, List.disjoint_left, List.mem_map, List.mem_range, not_exists, not_and]
      rintro _ ⟨z, _, rfl⟩ z' _ h
      simp only [Prod.mk.injEq] at h
      exact hab h.2.1.symm
  · apply List.Pairwise.imp_of_mem _ (List.nodup_range (n := div.1))
    intro a b _ _ hab
    simp only [Function.onFun, List.disjoint_left, List.mem_flatMap, List.mem_map, List.mem_range, not_exists,
      not_and]
    rintro _ ⟨y, _, z, _, rfl⟩ y' _ z' _ h
    simp only [Prod.mk.injEq] at h
    exact hab h.1.symm

theorem map_fst_set_same : ∀ (g : GridState) (i : Nat) (p : Idx) (o o' : Option Rat),
    g[i]? = some (p, o) → (g.set i (p, o')).map Prod.fst = g.map Prod.fst
  | [], _, _, _, _, h => by simp at h
  | e :: g, 0, p, o, o', h => by
    simp only [List.getElem?_cons_zero, Option.some.injEq] at h
    subst h; rfl
  | e :: g, i + 1, p, o, o', h => by
    simp only [List.getElem?_cons_succ] at h
    simp only [List.set_cons_succ, List.map_cons, map_fst_set_same g i p o o' h]

theorem absorbAt_fst (g : GridState) (i j : Nat) : (absorbAt g i j).map Prod.fst = g.map Prod.fst := by
  unfold absorbAt
  split
  · rename_i p f q fo h1 h2
    by_cases hij : i = j
    · subst hij
      rw [h1] at h2
      simp only [Option.some.injEq, Prod.mk.injEq] at h2
      obtain ⟨rfl, _⟩ := h2
      have : (g.set i (p, some (f + fo)))[i]? = some (p, some (f + fo)) :=
        List.getElem?_set_self (List.getElem?_eq_some_iff.mp h1).1
      rw [map_fst_set_same _ i p _ none this, map_fst_set_same g i p _ _ h1]
    · have : (g.set i (p, some (f + fo)))[j]? = some (q, some fo) := by
        rw [List.getElem?_set_ne hij]; exact h2
      rw [map_fst_set_same _ j q _ none this, map_fst_set_same g i p _ _ h1]
  · rfl

theorem gridStep_fst (syms : List Sym) (div : Idx) (g : GridState) (p : Idx) :
    (gridStep syms div g p).map Prod.fst = g.map Prod.fst := by
  have key : ∀ (ks : List Idx) (g : GridState),
      (ks.foldl (fun g k => if k ≠ p then absorbAt g (flat div p) (flat div k) else g) g).map Prod.fst
        = g.map Prod.fst := by
    intro ks
    induction ks with
    | nil => intro g; rfl
    | cons k ks ih =>
      intro g
      simp only [List.foldl_cons]
      rw [ih]
      split
      · exact absorbAt_fst g _ _
      · rfl
  unfold gridStep
  split
  · rfl
  · exact key _ g

theorem finalGrid_fst (syms : List Sym) (div : Idx) (useSym : Bool) :
    (finalGrid syms div useSym).map Prod.fst = flatOrder div := by
  have h0 : (initGrid div).map Prod.fst = flatOrder div := by
    unfold initGrid; rw [List.map_map]; exact List.map_id _
  unfold finalGrid
  split
  · generalize loopOrder div = ps
    have : ∀ g : GridState, (ps.foldl (gridStep syms div) g).map Prod.fst = g.map Prod.fst := by
      induction ps with
      | nil => intro g; rfl
      | cons p ps ih => intro g; simp only [List.foldl_cons]; rw [ih, gridStep_fst]
    rw [this, h0]
  · exact h0

/-- the retained grid points with their weights (`get_K_list` turns each into a K-point: `getKList_eq_kept`) -/
def kept (syms : List Sym) (div : Idx) (useSym : Bool) : List (Idx × Rat) :=
  (finalGrid syms div useSym).filterMap fun e => e.2.map fun f => (e.1, f)

theorem getKList_eq_kept (syms : List Sym) (div : Idx) (useSym : Bool) :
    getKList syms div useSym =
      (kept syms div useSym).map fun rf =>
        { K := gridK div rf.1, dK := gridDK div, factor := rf.2, level := 0 } := by
  unfold getKList kept
  rw [List.map_filterMap]
  congr 1
  funext e
  cases e.2 <;> rfl

theorem mem_kept_iff (syms : List Sym) (div : Idx) (hw : WF div (finalGrid syms div true)) (r : Idx) (f : Rat) :
    (r, f) ∈ kept syms div true ↔ inRange div r ∧ get div (finalGrid syms div true) r = some f := by
  unfold kept
  rw [List.mem_filterMap]
  constructor
  · rintro ⟨⟨r', o⟩, he, h⟩
    cases o with
    | none => simp at h
    | some f' =>
      simp only [Option.map_some, Option.some.injEq, Prod.mk.injEq] at h
      obtain ⟨rfl, rfl⟩ := h
      obtain ⟨i, hi⟩ := List.getElem?_of_mem he
      have hfst : (flatOrder div)[i]? = some r' := by
        rw [← finalGrid_fst syms div true, List.getElem?_map, hi]; rfl
      have hr : inRange div r' := (mem_flatOrder div r').mp (List.mem_of_getElem? hfst)
      have hii : i = flat div r' := by
        have h2 := flatOrder_getElem div r' hr
        obtain ⟨hl1, e1⟩ := List.getElem?_eq_some_iff.mp hfst
        obtain ⟨hl2, e2⟩ := List.getElem?_eq_some_iff.mp h2
        exact (List.Nodup.getElem_inj_iff (flatOrder_nodup div)).mp (e1.trans e2.symm)
      refine ⟨hr, ?_⟩
      rw [hii] at hi
      exact get_of_entry hi
  · rintro ⟨hr, hg⟩
    have := entry_of_get hw hr
    rw [hg] at this
    exact ⟨(r, some f), List.mem_of_getElem? this, rfl⟩

theorem find?_congr' {α : Type} (p q : α → Bool) : ∀ (l : List α), (∀ x ∈ l, p x = q x) → l.find? p = l.find? q
  | [], _ => rfl
  | x :: l, h => by
    have hx := h x (by simp)
    have hl := find?_congr' p q l (fun y hy => h y (by simp [hy]))
    simp only [List.find?_cons, hx, hl]

/-- the first point of the loop order that lies in the orbit of `a` is the same for every point `b` of that orbit -/
theorem rep_congr (syms : List Sym) (div : Idx) (hS : OrbitHyp div (starIdx syms div)) (a b : Idx)
    (ha : inRange div a) (hb : inRange div b) (hab : b ∈ starIdx syms div a) :
    (loopOrder div).find? (fun r => decide (r ∈ starIdx syms div a)) =
      (loopOrder div).find? (fun r => decide (r ∈ starIdx syms div b)) := by
  apply find?_congr'
  intro x hx
  have hxr : inRange div x := (mem_loopOrder div x).mp hx
  have hba : a ∈ starIdx syms div b := hS.symm a b ha hb hab
  by_cases h : x ∈ starIdx syms div a
  · have : x ∈ starIdx syms div b := hS.trans b a x hb ha hxr hba h
    simp [h, this]
  · have : x ∉ starIdx syms div b := fun h' => h (hS.trans a b x ha hb hxr hab h')
    simp [h, this]

/-- T2 in terms of `kept` -/
theorem kept_orbit_cover (syms : List Sym) (div : Idx) (hS : OrbitHyp div (starIdx syms div)) :
    (∀ r f, (r, f) ∈ kept syms div true →
        inRange div r ∧ f = ((starIdx syms div r).length : Rat) / ((div.1 * div.2.1 * div.2.2 : Nat) : Rat)) ∧
    (∀ q, inRange div q → ∃ r f, (r, f) ∈ kept syms div true ∧ q ∈ starIdx syms div r ∧
        ∀ r' f', (r', f') ∈ kept syms div true → q ∈ starIdx syms div r' → r' = r) := by
  obtain ⟨hw, hg⟩ := finalGrid_spec syms div hS
  -- a point is kept iff it is the first of its orbit
  have hkept : ∀ r f, (r, f) ∈ kept syms div true ↔ inRange div r ∧
      (loopOrder div).find? (fun x => decide (x ∈ starIdx syms div r)) = some r ∧
      f = ((starIdx syms div r).length : Rat) / ((div.1 * div.2.1 * div.2.2 : Nat) : Rat) := by
    intro r f
    rw [mem_kept_iff syms div hw]
    constructor
    · rintro ⟨hr, h⟩
      rw [hg r hr] at h
      unfold expected at h
      cases hf : (loopOrder div).find? (fun x => decide (x ∈ starIdx syms div r)) with
      | none =>
        have := (List.find?_eq_none.mp hf) r ((mem_loopOrder div r).mpr hr)
        simp [hS.refl r hr] at this
      | some r0 =>
        rw [hf] at h
        simp only at h
        by_cases h0 : r0 = r
        · subst h0
          simp only [↓reduceIte, Option.some.injEq] at h
          exact ⟨hr, rfl, h.symm⟩
        · simp [h0] at h
    · rintro ⟨hr, hf, rfl⟩
      refine ⟨hr, ?_⟩
      rw [hg r hr]; unfold expected; rw [hf]; simp
  refine ⟨fun r f h => ⟨((hkept r f).mp h).1, ((hkept r f).mp h).2.2⟩, ?_⟩
  intro q hq
  cases hf : (loopOrder div).find? (fun x => decide (x ∈ starIdx syms div q)) with
  | none =>
    have := (List.find?_eq_none.mp hf) q ((mem_loopOrder div q).mpr hq)
    simp [hS.refl q hq] at this
  | some r0 =>
    have hr0S : r0 ∈ starIdx syms div q := by simpa using List.find?_some hf
    have hr0 : inRange div r0 := (mem_loopOrder div r0).mp (List.mem_of_find?_eq_some hf)
    refine ⟨r0, _, (hkept r0 _).mpr ⟨hr0, ?_, rfl⟩, hS.symm q r0 hq hr0 hr0S, ?_⟩
    · rw [← rep_congr syms div hS q r0 hq hr0 hr0S]; exact hf
    · intro r' f' hk hq'
      obtain ⟨hr', hf', _⟩ := (hkept r' f').mp hk
      rw [rep_congr syms div hS r' q hr' hq hq', hf] at hf'
      exact (Option.some.inj hf').symm

/-! ### the executable check implies the hypotheses -/

theorem nodupB_iff : ∀ l : List Idx, nodupB l = true ↔ l.Nodup
  | [] => by simp [nodupB]
  | x :: l => by
    simp only [nodupB, Bool.and_eq_true, Bool.not_eq_eq_eq_not, Bool.not_true, List.nodup_cons, nodupB_iff l]
    constructor
    · rintro ⟨h1, h2⟩; exact ⟨by simpa using h1, h2⟩
    · rintro ⟨h1, h2⟩; exact ⟨by simpa using h1, h2⟩

theorem inRangeB_iff (div p : Idx) : inRangeB div p = true ↔ inRange div p := by
  unfold inRangeB inRange
  simp only [Bool.and_eq_true, decide_eq_true_eq, and_assoc]

theorem orbitHyp_of_check (div : Idx) (S : Idx → List Idx) (h : orbitCheck div S = true) : OrbitHyp div S := by
  unfold orbitCheck at h
  rw [List.all_eq_true] at h
  have hp : ∀ p, inRange div p →
      ((∀ q ∈ S p, inRange div q) ∧ p ∈ S p ∧ (S p).Nodup ∧
        ∀ q ∈ S p, p ∈ S q ∧ ∀ r ∈ S q, r ∈ S p) := by
    intro p hp
    have := h p ((mem_flatOrder div p).mpr hp)
    simp only [Bool.and_eq_true, List.all_eq_true, List.contains_iff_mem, nodupB_iff, inRangeB_iff] at this
    obtain ⟨⟨⟨a, b⟩, c⟩, d⟩ := this
    exact ⟨a, b, c, d⟩
  exact {
    range := fun p h => (hp p h).1
    refl := fun p h => (hp p h).2.1
    symm := fun p q h _ hq => ((hp p h).2.2.2 q hq).1
    trans := fun p q r h _ _ hq hr => ((hp p h).2.2.2 q hq).2 r hr
    nodup := fun p h => (hp p h).2.2.1 }

end WB.C06
