/-
  C14 — glue: band selection inside `weights_all_band_groups`, and the `run()`-level sum over K-points.
-/
import WB.Lemmas.C14Groups

namespace WB.C14

theorem inRangeSel_none (Ec Emin Emax : Nat → Rat) (th : Rat) (n : Nat) (kr : Bool) (emin emax : Rat) :
    inRangeSel Ec Emin Emax th n kr emin emax none = inRange Ec Emin Emax th n kr emin emax := by
  unfold inRangeSel
  rw [List.filter_eq_self]
  intro ab _; rfl

theorem count_range_interval (a b : Nat) : ∀ n : Nat, b ≤ n →
    ((List.range n).filter (fun i => decide (a ≤ i) && decide (i < b))).length = b - a
  | 0, h => by
    have : b = 0 := by omega
    subst this; simp
  | n + 1, h => by
    rw [List.range_succ, List.filter_append, List.length_append]
    by_cases hb : b ≤ n
    · rw [count_range_interval a b n hb]
      have : (decide (a ≤ n) && decide (n < b)) = false := by
        simp only [Bool.and_eq_false_iff, decide_eq_false_iff_not]; right; omega
      simp [this]
    · have hbn : b = n + 1 := by omega
      subst hbn
      have hfil : (List.range n).filter (fun i => decide (a ≤ i) && decide (i < n + 1)) =
          (List.range n).filter (fun i => decide (a ≤ i) && decide (i < n)) := by
        apply List.filter_congr
        intro i hi
        have : i < n := by simpa using hi
        simp [this, Nat.lt_succ_of_lt this]
      rw [hfil, count_range_interval a n n (le_refl _)]
      by_cases han : a ≤ n
      · simp [han]; omega
      · simp [han]; omega

/-- selecting ALL bands is the same as selecting none: every group is kept with weight 1 -/
theorem select_all (n : Nat) (ab : Nat × Nat) (h1 : ab.1 < ab.2) (h2 : ab.2 ≤ n) :
    selHits (some (List.range n)) ab = true ∧ wsel (some (List.range n)) ab = 1 := by
  constructor
  · unfold selHits
    simp only [List.any_eq_true, List.mem_range, Bool.and_eq_true, decide_eq_true_eq]
    exact ⟨ab.1, by omega, le_refl _, h1⟩
  · unfold wsel
    simp only
    rw [count_range_interval ab.1 ab.2 n h2]
    have : ((ab.2 - ab.1 : Nat) : Rat) ≠ 0 := by
      have : 0 < ab.2 - ab.1 := by omega
      exact_mod_cast this.ne'
    exact div_self this

/-- with the Identity formula (DOS) a group contributes (mean band weight) × (number of its selected bands) -/
theorem select_weight_counts (w : Nat → Rat) (sel : Option (List Nat)) (ab : Nat × Nat) (h1 : ab.1 < ab.2) :
    groupWeightSel w sel ab * identTrace ab =
      groupWeight w ab * (match sel with
        | none => identTrace ab
        | some l => ((l.filter (fun i => decide (ab.1 ≤ i) && decide (i < ab.2))).length : Rat)) := by
  have hpos : ((ab.2 - ab.1 : Nat) : Rat) ≠ 0 := by
    have : 0 < ab.2 - ab.1 := by omega
    exact_mod_cast this.ne'
  unfold groupWeightSel wsel identTrace
  cases sel with
  | none => simp
  | some l => simp only; field_simp

/-! ### run() level -/

theorem listSum_eq (l : List Rat) : listSum l = l.sum := by
  unfold listSum; rw [foldl_add_eq_sum, zero_add]

theorem listSum_const (l : List Rat) (c : Rat) (h : ∀ x ∈ l, x = c) : listSum l = (l.length : Rat) * c := by
  rw [listSum_eq]
  induction l with
  | nil => simp
  | cons x l ih =>
    rw [List.sum_cons, ih (fun y hy => h y (List.mem_cons_of_mem _ hy)), h x (by simp), List.length_cons]
    push_cast; ring

/-- if every FFT point of every K-point reports the value `c` and the K-point factors sum to 1 (C06: the weights
    partition the BZ for every grid and refinement history), the run reports `c` -/
theorem runTotal_const (Ks : List (Rat × List Rat)) (c : Rat)
    (hsum : (Ks.map (fun K => K.1)).sum = 1)
    (hK : ∀ K ∈ Ks, K.2 ≠ [] ∧ ∀ x ∈ K.2, x = c) : runTotal Ks = c := by
  unfold runTotal
  rw [listSum_eq]
  have : Ks.map (fun K => K.1 * (listSum K.2 / (K.2.length : Rat))) = Ks.map (fun K => K.1 * c) := by
    apply List.map_congr_left
    intro K hKm
    obtain ⟨hne, hall⟩ := hK K hKm
    rw [listSum_const K.2 c hall]
    have : ((K.2.length : Nat) : Rat) ≠ 0 := by
      have : 0 < K.2.length := List.length_pos_of_ne_nil hne
      exact_mod_cast this.ne'
    field_simp
  rw [this]
  have h2 : ∀ L : List (Rat × List Rat), (L.map (fun K => K.1 * c)).sum = (L.map (fun K => K.1)).sum * c := by
    intro L
    induction L with
    | nil => simp
    | cons K L ih => simp only [List.map_cons, List.sum_cons, ih]; ring
  rw [h2, hsum, one_mul]

theorem listSum_le (l l' : List Rat) (h : List.Forall₂ (· ≤ ·) l l') : listSum l ≤ listSum l' := by
  rw [listSum_eq, listSum_eq]
  induction h with
  | nil => simp
  | cons hab _ ih => simp only [List.sum_cons]; linarith

/-- with non-negative factors the run-level result is monotone in the per-point values -/
theorem runTotal_mono (Ks Ks' : List (Rat × List Rat))
    (h : List.Forall₂ (fun K K' => K.1 = K'.1 ∧ 0 ≤ K.1 ∧ K.2.length = K'.2.length ∧ List.Forall₂ (· ≤ ·) K.2 K'.2) Ks Ks') :
    runTotal Ks ≤ runTotal Ks' := by
  unfold runTotal
  apply listSum_le
  induction h with
  | nil => exact List.Forall₂.nil
  | cons hK _ ih =>
    simp only [List.map_cons]
    refine List.Forall₂.cons ?_ ih
    obtain ⟨h1, h2, h3, h4⟩ := hK
    rw [h1, h3]
    apply mul_le_mul_of_nonneg_left _ (h1 ▸ h2)
    apply div_le_div_of_nonneg_right (listSum_le _ _ h4)
    exact Nat.cast_nonneg _

/-- `weight_select_bands` and the group filter depend on the selection only as a multiset: any reordering of
    `select_bands` gives the same weight and the same kept groups -/
theorem wsel_perm {l l' : List Nat} (h : l.Perm l') (ab : Nat × Nat) :
    wsel (some l) ab = wsel (some l') ab ∧ selHits (some l) ab = selHits (some l') ab := by
  constructor
  · unfold wsel
    simp only
    rw [(h.filter _).length_eq]
  · unfold selHits
    simp only
    rw [Bool.eq_iff_iff]
    simp only [List.any_eq_true]
    constructor
    · rintro ⟨x, hx, hp⟩; exact ⟨x, h.mem_iff.mp hx, hp⟩
    · rintro ⟨x, hx, hp⟩; exact ⟨x, h.mem_iff.mpr hx, hp⟩

end WB.C14
