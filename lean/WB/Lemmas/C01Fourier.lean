/-
  C01 — the Fourier part: the FFT contract (named hypothesis), placement of the k-points on the mesh,
  and the algebra of the round trip.
-/
import WB.Lemmas.C01Ws

namespace WB.C01

/-- **FFT contract** — the only fact about the FFT library that the round trip uses.
    `χ s c` is the phase `e^{2πi s·c/mp}` of mesh point `s` at grid vector `c`; `F` is the library's forward
    transform of an array on the mesh box; the contract is the DFT inversion formula on the box:
        Σ_c χ_s(c) · (1/N) (F A)(c) = A(s)    for every array `A` and every mesh point `s`. -/
def FFTContract {K : Type} [Field K] (mp : Mesh) (χ : Vec3 → Vec3 → K)
    (F : (Vec3 → K) → Vec3 → K) (Ninv : K) : Prop :=
  ∀ (A : Vec3 → K) (s : Vec3), s ∈ gridPoints mp →
    sumK ((gridPoints mp).map fun c => χ s c * (Ninv * F A c)) = A s

/-- a character of a mesh point is periodic with the mesh -/
def MeshPeriodic {K : Type} (mp : Mesh) (χ : Vec3 → K) : Prop := ∀ R, χ R = χ (vmod R mp)

section place
variable {K : Type} [Field K]

/-- with duplicate-free slots the mesh array holds the datum of k-point `i` at slot `i` -/
theorem place_slot (slots : List Vec3) (hnd : slots.Nodup) (X : Nat → K) (i : Nat) (hi : i < slots.length) :
    place slots X (slots.getD i (0, 0, 0)) = X i := by
  unfold place
  have hmem : i ∈ (List.range slots.length).reverse := by simp [hi]
  cases hfind : (List.range slots.length).reverse.find? (fun j => slots.getD j (0, 0, 0) = slots.getD i (0, 0, 0)) with
  | none =>
    rw [List.find?_eq_none] at hfind
    have := hfind i hmem
    simp at this
  | some j =>
    have hj := List.mem_of_find?_eq_some hfind
    have hp := List.find?_some hfind
    simp only [List.mem_reverse, List.mem_range] at hj
    simp only [decide_eq_true_eq] at hp
    have : j = i := (List.getD_inj hj hi hnd).mp hp
    simp [this]

end place

/-! ### set_fft_q_to_R : what a successful placement guarantees -/

theorem placeK_ok (mp : Mesh) (h1 : 0 < mp.1) (h2 : 0 < mp.2.1) (h3 : 0 < mp.2.2)
    (ks : List QVec3) (slots : List Vec3) (h : placeK mp ks = .ok slots) :
    slots.Nodup ∧ (∀ s ∈ slots, s ∈ gridPoints mp) ∧ slots.length = mp.1 * mp.2.1 * mp.2.2 ∧
      ((0, 0, 0) : Vec3) ∈ slots := by
  unfold placeK at h
  simp only at h
  split at h
  · cases h
  · rename_i hcount
    split at h
    · cases h
    · split at h
      · cases h
      · rename_i hgamma
        split at h
        · cases h
        · rename_i hdup
          injection h with h
          subst h
          refine ⟨?_, ?_, ?_, ?_⟩
          · apply nodup_of_length_dedup
            simpa using hdup
          · intro s hs
            simp only [List.mem_map] at hs
            obtain ⟨R, -, rfl⟩ := hs
            exact vmod_mem_gridPoints mp h1 h2 h3 R
          · simp only [List.length_map]
            simpa using hcount
          · simpa using hgamma

section roundtrip
variable {K : Type} [Field K] [CharZero K]

/-- the algebraic core of the round trip for the selection of ONE shift `s` (any shift, any tolerance ≠ 0):
    interpolating `q_to_R` back with a mesh-periodic character returns the inverse-DFT sum on the box -/
theorem RtoK_qToR_eq_box (ws : Nat) (G : Gram) (mp : Mesh) (tol : Rat) (s : QVec3) (htol : tol ≠ 0)
    (iRvec : List Vec3) (hnd : iRvec.Nodup) (hsub : ∀ p ∈ wsSelect ws G mp tol s, p.1 ∈ iRvec)
    (χ : Vec3 → K) (hper : MeshPeriodic mp χ)
    (F : (Vec3 → K) → Vec3 → K) (Ninv : K) (slots : List Vec3) (X : Nat → K) :
    RtoK χ iRvec (qToR F Ninv mp slots (weightOf (wsSelect ws G mp tol s)) X)
      = sumK ((gridPoints mp).map fun c => χ c * (Ninv * F (place slots X) c)) := by
  unfold RtoK qToR
  rw [sumK_map_congr iRvec _
    (fun R => (χ R * (Ninv * F (place slots X) (vmod R mp))) * weightOf (wsSelect ws G mp tol s) R)
    (fun R _ => by ring)]
  rw [sum_weightOf iRvec hnd _ hsub (fun R => χ R * (Ninv * F (place slots X) (vmod R mp)))]
  rw [sum_wsSelect ws G mp tol s htol (fun R => χ R * (Ninv * F (place slots X) (vmod R mp)))]
  · apply sumK_map_congr
    intro c hc
    obtain ⟨⟨a1, a2⟩, ⟨a3, a4⟩, a5, a6⟩ := (mem_gridPoints mp c).1 hc
    have : vmod c mp = c := by
      simp only [vmod, Int.emod_eq_of_lt a1 a2, Int.emod_eq_of_lt a3 a4, Int.emod_eq_of_lt a5 a6]
    rw [this]
  · intro R
    have hidem : vmod (vmod R mp) mp = vmod R mp := by
      simp only [vmod, Int.emod_emod_of_dvd _ (dvd_refl _)]
    rw [hidem, hper R]

end roundtrip

end WB.C01
