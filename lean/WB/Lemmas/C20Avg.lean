/-
  C20 — the block formula of `SymWann.average_XX_block` / `_rotate_XX_L_backwards` over an abstract representation,
  and the proof that it is a group action on the space of real-space matrices.

  For one pair of blocks (left block: atoms `A₁`, `n₁` orbitals per atom; right block: atoms `A₂`, `n₂` orbitals), one
  operation `h` contributes to the entry `(R, a, b)` of the result the "pull-back"

      pull h X (R, a, b)_i = conj^{tr h} ( Σ_j Rc(h)_{j i} · D₁(h,a)† · X(h·R + T₁(h,a) − T₂(h,b), h·a, h·b)_j · D₂(h,b) )

  exactly as the code computes it: `new_Rvec = R_map + T1[a] − T2[b]`, `XX_L = X[(a_map, b_map)][new_Rvec]`,
  `np.tensordot(XX_L, rotation_cart)` on the Cartesian index (the parity factor `parity_I·(−1)^ncart` for inversions and
  `parity_TR` for time reversal are the sign characters folded into `Rc`), `L = rot_orb_dagger[a, isym]`,
  `R = rot_orb[b, isym]`, and `.conj()` for time-reversal operations.
-/
import Mathlib.LinearAlgebra.Matrix.ConjTranspose
import Mathlib.Data.Matrix.Mul
import Mathlib.Algebra.Module.BigOperators
import Mathlib.GroupTheory.GroupAction.Defs
import Mathlib.Algebra.Group.Action.Defs
import Mathlib.Algebra.Star.BigOperators
import Mathlib.Data.Fintype.BigOperators
import Mathlib.Tactic.Ring
import Mathlib.Tactic.Abel
import Mathlib.Algebra.Algebra.Rat

namespace WB.C20
open Matrix

section cj
variable {m n p K : Type*} [Fintype n] [Field K] [StarRing K]

/-- complex conjugation of every entry when the operation contains time reversal -/
def cj (b : Bool) (M : Matrix m n K) : Matrix m n K := if b then M.map star else M

omit [Fintype n] in
theorem cj_cj (b1 b2 : Bool) (M : Matrix m n K) : cj b1 (cj b2 M) = cj (xor b1 b2) M := by
  cases b1 <;> cases b2 <;> simp only [cj, Bool.xor_false, Bool.xor_true, Bool.not_false, Bool.not_true,
    Bool.false_eq_true, if_true, if_false]
  ext i j; simp

omit [Fintype n] in
theorem cj_self (b : Bool) (M : Matrix m n K) : cj b (cj b M) = M := by
  rw [cj_cj]; simp [cj]

theorem cj_mul (b : Bool) (M : Matrix m n K) (N : Matrix n p K) : cj b (M * N) = cj b M * cj b N := by
  cases b
  · rfl
  · simp only [cj, if_true]
    ext i j
    simp [Matrix.mul_apply, star_sum]

omit [Fintype n] in
theorem cj_conjTranspose (b : Bool) (M : Matrix m n K) : cj b Mᴴ = (cj b M)ᴴ := by
  cases b
  · rfl
  · simp only [cj, if_true]
    ext i j; simp [conjTranspose_apply]

omit [Fintype n] in
theorem cj_smul_real (b : Bool) (r : K) (hr : star r = r) (M : Matrix m n K) : cj b (r • M) = r • cj b M := by
  cases b
  · rfl
  · simp only [cj, if_true]
    ext i j; simp [hr]

omit [Fintype n] in
theorem cj_add (b : Bool) (M N : Matrix m n K) : cj b (M + N) = cj b M + cj b N := by
  cases b
  · rfl
  · simp only [cj, if_true]
    ext i j; simp

omit [Fintype n] in
theorem cj_zero (b : Bool) : cj b (0 : Matrix m n K) = 0 := by
  cases b
  · rfl
  · simp only [cj, if_true]
    ext i j; simp

omit [Fintype n] in
theorem cj_sum {s : Type*} (b : Bool) (S : Finset s) (f : s → Matrix m n K) :
    cj b (∑ x ∈ S, f x) = ∑ x ∈ S, cj b (f x) := by
  classical
  induction S using Finset.induction_on with
  | empty => simp [cj_zero]
  | insert a S ha ih => rw [Finset.sum_insert ha, Finset.sum_insert ha, cj_add, ih]

end cj

/-- the abstract representation data behind one pair of blocks -/
structure BlockRep (G ι A₁ A₂ n₁ n₂ c K : Type*) [Group G] [AddCommGroup ι] [DistribMulAction G ι]
    [MulAction G A₁] [MulAction G A₂] [Fintype n₁] [Fintype n₂] [DecidableEq n₁] [DecidableEq n₂]
    [Fintype c] [DecidableEq c] [Field K] [StarRing K] where
  /-- lattice vector that brings the image of atom `a` back to the home cell (`T_list[block][a, isym]`) -/
  T₁ : G → A₁ → ι
  T₂ : G → A₂ → ι
  /-- orbital rotation matrices (`rot_orb_list[block][a, isym]`) -/
  D₁ : G → A₁ → Matrix n₁ n₁ K
  D₂ : G → A₂ → Matrix n₂ n₂ K
  /-- the operation contains time reversal -/
  tr : G → Bool
  /-- rotation of the Cartesian index, times the I / TR parity signs of the matrix type -/
  Rc : G → Matrix c c K
  /-- phase of the (projective, for spinors) representation; common to both blocks -/
  ω : G → G → K
  T_cocycle : ∀ g h a b, T₁ (g * h) a - T₂ (g * h) b = g • (T₁ h a - T₂ h b) + (T₁ g (h • a) - T₂ g (h • b))
  D₁_cocycle : ∀ g h a, D₁ (g * h) a = ω g h • (D₁ g (h • a) * cj (tr g) (D₁ h a))
  D₂_cocycle : ∀ g h b, D₂ (g * h) b = ω g h • (D₂ g (h • b) * cj (tr g) (D₂ h b))
  ω_unit : ∀ g h, star (ω g h) * ω g h = 1
  one_scalar : ∃ z : K, star z * z = 1 ∧ (∀ a, D₁ 1 a = z • 1) ∧ (∀ b, D₂ 1 b = z • 1)
  tr_mul : ∀ g h, tr (g * h) = xor (tr g) (tr h)
  Rc_mul : ∀ g h, Rc (g * h) = Rc g * Rc h
  Rc_one : Rc 1 = 1
  Rc_real : ∀ g i j, star (Rc g i j) = Rc g i j

section pull
variable {G ι A₁ A₂ n₁ n₂ c K : Type*} [Group G] [AddCommGroup ι] [DistribMulAction G ι]
    [MulAction G A₁] [MulAction G A₂] [Fintype n₁] [Fintype n₂] [DecidableEq n₁] [DecidableEq n₂]
    [Fintype c] [DecidableEq c] [Field K] [StarRing K]

/-- the space of real-space matrices of one block pair: `X(R, a, b)_i`, an `n₁ × n₂` matrix per Cartesian component -/
def BlockFn (_S : BlockRep G ι A₁ A₂ n₁ n₂ c K) : Type _ := ι → A₁ → A₂ → c → Matrix n₁ n₂ K

instance (S : BlockRep G ι A₁ A₂ n₁ n₂ c K) : AddCommGroup (BlockFn S) :=
  inferInstanceAs (AddCommGroup (ι → A₁ → A₂ → c → Matrix n₁ n₂ K))

variable (S : BlockRep G ι A₁ A₂ n₁ n₂ c K)

/-- the contribution of operation `h`, as `average_XX_block` + `_rotate_XX_L_backwards` compute it -/
def pull (h : G) (X : BlockFn S) : BlockFn S := fun R a b i =>
  cj (S.tr h) (∑ j, S.Rc h j i • ((S.D₁ h a)ᴴ * X (h • R + S.T₁ h a - S.T₂ h b) (h • a) (h • b) j * S.D₂ h b))

theorem tr_one : S.tr 1 = false := by
  have := S.tr_mul 1 1
  rw [one_mul] at this
  cases h : S.tr 1
  · rfl
  · rw [h] at this; simp at this

theorem T_one (a : A₁) (b : A₂) : S.T₁ 1 a - S.T₂ 1 b = 0 := by
  have := S.T_cocycle 1 1 a b
  simp only [one_mul, one_smul] at this
  have h2 : S.T₁ 1 a - S.T₂ 1 b + 0 = S.T₁ 1 a - S.T₂ 1 b + (S.T₁ 1 a - S.T₂ 1 b) := by
    rw [add_zero]; exact this
  exact (add_left_cancel h2).symm

/-- the identity contributes `X` itself -/
theorem pull_one (X : BlockFn S) : pull S 1 X = X := by
  obtain ⟨z, hz, h1, h2⟩ := S.one_scalar
  funext R a b i
  unfold pull
  rw [tr_one, S.Rc_one]
  have hpos : (1 : G) • R + S.T₁ 1 a - S.T₂ 1 b = R := by
    rw [one_smul, add_sub_assoc, T_one, add_zero]
  rw [one_smul] at hpos
  simp only [cj, Bool.false_eq_true, if_false, one_smul, h1, h2]
  rw [Finset.sum_eq_single i]
  · simp only [Matrix.one_apply_eq, conjTranspose_smul, conjTranspose_one, Matrix.smul_mul,
      Matrix.one_mul, Matrix.mul_smul, Matrix.mul_one, smul_smul]
    rw [one_mul, mul_comm, hz, one_smul, hpos]
  · intro j _ hj
    simp [Matrix.one_apply_ne hj]
  · intro h; exact absurd (Finset.mem_univ i) h

omit [DecidableEq n₁] [DecidableEq n₂] [DecidableEq c] in
/-- the matrix part of the composition of two pull-backs -/
theorem sandwich (t1 t2 : Bool) (A1 A2 : Matrix n₁ n₁ K) (C1 C2 : Matrix n₂ n₂ K) (r1 r2 : Matrix c c K)
    (hr1 : ∀ i j, star (r1 i j) = r1 i j) (Y : c → Matrix n₁ n₂ K) (i : c) :
    cj t1 (∑ j, r1 j i • (A1ᴴ * cj t2 (∑ l, r2 l j • (A2ᴴ * Y l * C2)) * C1))
      = cj (xor t1 t2) (∑ l, (r2 * r1) l i • ((A2 * cj t2 A1)ᴴ * Y l * (C2 * cj t2 C1))) := by
  rw [← cj_cj]
  congr 1
  -- pull the inner conjugation out of the sandwich
  have h1 : ∀ j, r1 j i • (A1ᴴ * cj t2 (∑ l, r2 l j • (A2ᴴ * Y l * C2)) * C1)
      = cj t2 (r1 j i • ((cj t2 A1)ᴴ * (∑ l, r2 l j • (A2ᴴ * Y l * C2)) * cj t2 C1)) := by
    intro j
    rw [cj_smul_real t2 _ (hr1 j i), cj_mul, cj_mul, ← cj_conjTranspose, cj_self, cj_self]
  simp only [h1]
  rw [← cj_sum]
  congr 1
  -- distribute and regroup
  simp only [Matrix.mul_sum, Matrix.sum_mul, Matrix.mul_smul, Matrix.smul_mul, Finset.smul_sum, smul_smul]
  rw [Finset.sum_comm]
  apply Finset.sum_congr rfl
  intro l _
  rw [Matrix.mul_apply, Finset.sum_smul]
  apply Finset.sum_congr rfl
  intro j _
  rw [conjTranspose_mul, mul_comm (r1 j i) (r2 l j)]
  simp only [Matrix.mul_assoc]

/-- contravariance: first `h₂`, then `h₁` is the pull-back by `h₂ h₁` -/
theorem pull_comp (h1 h2 : G) (X : BlockFn S) : pull S h1 (pull S h2 X) = pull S (h2 * h1) X := by
  funext R a b i
  have hpos : h2 • (h1 • R + S.T₁ h1 a - S.T₂ h1 b) + S.T₁ h2 (h1 • a) - S.T₂ h2 (h1 • b)
      = (h2 * h1) • R + S.T₁ (h2 * h1) a - S.T₂ (h2 * h1) b := by
    have hc := S.T_cocycle h2 h1 a b
    have e1 : h1 • R + S.T₁ h1 a - S.T₂ h1 b = h1 • R + (S.T₁ h1 a - S.T₂ h1 b) := by abel
    rw [e1, smul_add, ← mul_smul, add_sub_assoc ((h2 * h1) • R) (S.T₁ (h2 * h1) a), hc]
    abel
  show cj (S.tr h1) (∑ j, S.Rc h1 j i • ((S.D₁ h1 a)ᴴ *
      cj (S.tr h2) (∑ l, S.Rc h2 l j • ((S.D₁ h2 (h1 • a))ᴴ *
        X (h2 • (h1 • R + S.T₁ h1 a - S.T₂ h1 b) + S.T₁ h2 (h1 • a) - S.T₂ h2 (h1 • b)) (h2 • h1 • a) (h2 • h1 • b) l *
        S.D₂ h2 (h1 • b))) * S.D₂ h1 b)) = _
  rw [sandwich (S.tr h1) (S.tr h2) _ _ _ _ _ _ (S.Rc_real h1), hpos, ← mul_smul, ← mul_smul]
  unfold pull
  rw [S.tr_mul h2 h1, Bool.xor_comm, S.Rc_mul h2 h1, S.D₁_cocycle h2 h1 a, S.D₂_cocycle h2 h1 b]
  congr 1
  apply Finset.sum_congr rfl
  intro l _
  congr 1
  rw [conjTranspose_smul, Matrix.smul_mul, Matrix.smul_mul, Matrix.mul_smul, smul_smul, S.ω_unit, one_smul]

/-- the left action of the group on the space of real-space matrices: `g • X = pull g⁻¹ X` -/
instance : SMul G (BlockFn S) := ⟨fun g X => pull S g⁻¹ X⟩

theorem smul_def (g : G) (X : BlockFn S) : g • X = pull S g⁻¹ X := rfl

theorem pull_add (h : G) (X Y : BlockFn S) : pull S h (X + Y) = pull S h X + pull S h Y := by
  funext R a b i
  show pull S h (X + Y) R a b i = pull S h X R a b i + pull S h Y R a b i
  have e : ∀ j, (X + Y) (h • R + S.T₁ h a - S.T₂ h b) (h • a) (h • b) j
      = X (h • R + S.T₁ h a - S.T₂ h b) (h • a) (h • b) j + Y (h • R + S.T₁ h a - S.T₂ h b) (h • a) (h • b) j :=
    fun _ => rfl
  simp only [pull, e, Matrix.mul_add, Matrix.add_mul, smul_add, Finset.sum_add_distrib, cj_add]

theorem pull_zero (h : G) : pull S h (0 : BlockFn S) = 0 := by
  funext R a b i
  show pull S h (0 : BlockFn S) R a b i = 0
  have e : ∀ j, (0 : BlockFn S) (h • R + S.T₁ h a - S.T₂ h b) (h • a) (h • b) j = 0 := fun _ => rfl
  simp only [pull, e, Matrix.mul_zero, Matrix.zero_mul, smul_zero, Finset.sum_const_zero, cj_zero]

instance : DistribMulAction G (BlockFn S) where
  one_smul X := by rw [smul_def, inv_one, pull_one]
  mul_smul g h X := by rw [smul_def, smul_def, smul_def, mul_inv_rev, pull_comp]
  smul_zero g := by rw [smul_def, pull_zero]
  smul_add g X Y := by rw [smul_def, smul_def, smul_def, pull_add]

end pull

/-! ### rational scalars commute with the action (time reversal is antilinear over `K`, linear over `ℚ`) -/

section rat
variable {G ι A₁ A₂ n₁ n₂ c K : Type*} [Group G] [AddCommGroup ι] [DistribMulAction G ι]
    [MulAction G A₁] [MulAction G A₂] [Fintype n₁] [Fintype n₂] [DecidableEq n₁] [DecidableEq n₂]
    [Fintype c] [DecidableEq c] [Field K] [StarRing K] [CharZero K]

noncomputable instance (S : BlockRep G ι A₁ A₂ n₁ n₂ c K) : Module ℚ (BlockFn S) :=
  inferInstanceAs (Module ℚ (ι → A₁ → A₂ → c → Matrix n₁ n₂ K))

omit [Fintype n₁] [Fintype n₂] [DecidableEq n₁] [DecidableEq n₂] in
theorem cj_rat_smul (t : Bool) (q : ℚ) (M : Matrix n₁ n₂ K) : cj t (q • M) = q • cj t M := by
  cases t
  · rfl
  · simp only [cj, if_true]
    ext i j
    simp only [Matrix.map_apply, Matrix.smul_apply, Rat.smul_def, star_mul', star_ratCast]

variable (S : BlockRep G ι A₁ A₂ n₁ n₂ c K)

theorem pull_rat_smul (h : G) (q : ℚ) (X : BlockFn S) : pull S h (q • X) = q • pull S h X := by
  funext R a b i
  show pull S h (q • X) R a b i = q • pull S h X R a b i
  have e : ∀ j, (q • X) (h • R + S.T₁ h a - S.T₂ h b) (h • a) (h • b) j
      = q • X (h • R + S.T₁ h a - S.T₂ h b) (h • a) (h • b) j := fun _ => rfl
  simp only [pull, e, Matrix.mul_smul, Matrix.smul_mul, smul_comm _ q, ← Finset.smul_sum, cj_rat_smul]

instance : SMulCommClass G ℚ (BlockFn S) where
  smul_comm g q X := by rw [smul_def, smul_def, pull_rat_smul]

end rat

end WB.C20
