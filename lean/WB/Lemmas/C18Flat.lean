/-
  Index arithmetic of nested writer loops (`flatMap` over ranges with blocks of constant length),
  the 15-per-line integer header, and the even/odd row split.  Used by C18 and C19.
-/
import WB.Model.C18
import Mathlib.Data.List.Basic
import Mathlib.Data.List.GetD
import Mathlib.Tactic.Linarith
import Mathlib.Tactic.Ring

namespace WB.C18

/-! ### blocks of constant length -/

theorem length_flatMap_range_const {α} (f : Nat → List α) (c : Nat) (hf : ∀ i, (f i).length = c) :
    ∀ n, ((List.range n).flatMap f).length = n * c
  | 0 => by simp
  | n + 1 => by
    rw [List.range_succ, List.flatMap_append, List.length_append, length_flatMap_range_const f c hf n]
    simp [hf]; ring

/-- element `i*c + j` of `f 0 ++ f 1 ++ … ++ f (n-1)` (all of length `c`) is element `j` of `f i` -/
theorem getD_flatMap_range_const {α} (f : Nat → List α) (c : Nat) (hf : ∀ i, (f i).length = c) (d : α) :
    ∀ n i j, i < n → j < c → ((List.range n).flatMap f).getD (i * c + j) d = (f i).getD j d
  | 0, i, j, hi, _ => by omega
  | n + 1, i, j, hi, hj => by
    rw [List.range_succ, List.flatMap_append]
    have hlen := length_flatMap_range_const f c hf n
    by_cases h : i < n
    · have hlt : i * c + j < ((List.range n).flatMap f).length := by
        rw [hlen]
        have : (i + 1) * c ≤ n * c := Nat.mul_le_mul_right c (by omega)
        have e : (i + 1) * c = i * c + c := by ring
        omega
      rw [List.getD_append _ _ _ _ hlt]
      exact getD_flatMap_range_const f c hf d n i j h hj
    · have hin : i = n := by omega
      subst hin
      have hge : ((List.range i).flatMap f).length ≤ i * c + j := by rw [hlen]; omega
      rw [List.getD_append_right _ _ _ _ hge, hlen]
      simp

/-- the same for a list that continues after the blocks -/
theorem getD_flatMap_range_const_append {α} (f : Nat → List α) (c : Nat) (hf : ∀ i, (f i).length = c) (d : α)
    (rest : List α) (n i j : Nat) (hi : i < n) (hj : j < c) :
    ((List.range n).flatMap f ++ rest).getD (i * c + j) d = (f i).getD j d := by
  have hlen := length_flatMap_range_const f c hf n
  have hlt : i * c + j < ((List.range n).flatMap f).length := by
    rw [hlen]
    have : (i + 1) * c ≤ n * c := Nat.mul_le_mul_right c (by omega)
    have e : (i + 1) * c = i * c + c := by ring
    omega
  rw [List.getD_append _ _ _ _ hlt]
  exact getD_flatMap_range_const f c hf d n i j hi hj

variable {V : Type}

theorem length_nestNM (nw : Nat) (f : Nat → Nat → Line V) : (nestNM nw f).length = nw * nw := by
  unfold nestNM
  exact length_flatMap_range_const _ nw (fun i => by simp) nw

/-- line `n*nw + m` of the loop nest `for n … for m …` is `f m n` -/
theorem getD_nestNM (nw : Nat) (f : Nat → Nat → Line V) (m n : Nat) (hm : m < nw) (hn : n < nw) :
    (nestNM nw f).getD (n * nw + m) [] = f m n := by
  unfold nestNM
  rw [getD_flatMap_range_const _ nw (fun i => by simp) [] nw n m hn hm]
  simp [List.getD_eq_getElem?_getD, hm]

/-! ### the integer header -/

theorem toInt_int_map (l : List Int) : (l.map (Tok.int (V := V))).map Tok.toInt = l := by
  induction l with
  | nil => rfl
  | cons a t ih => simp [Tok.toInt, ih]

private theorem readInts_aux (l : List Int) (rest : File V) :
    ∀ len j, j + len = (l.length + 14) / 15 →
      readInts l.length
        ((List.range' j len).map (fun i => ((l.drop (15 * i)).take 15).map (Tok.int (V := V))) ++ rest)
        (l.take (15 * j)) = (l, rest)
  | 0, j, h => by
    simp only [List.range'_zero, List.map_nil, List.nil_append]
    have hfull : l.take (15 * j) = l := List.take_of_length_le (by omega)
    rw [hfull]
    cases rest with
    | nil => rfl
    | cons r rs => simp [readInts]
  | len + 1, j, h => by
    rw [List.range'_succ, List.map_cons, List.cons_append, readInts]
    have hlt : (l.take (15 * j)).length < l.length := by
      rw [List.length_take]; omega
    rw [if_pos hlt, List.map_map]
    have e : l.take (15 * j) ++ List.map (Tok.toInt ∘ Tok.int (V := V)) ((l.drop (15 * j)).take 15)
        = l.take (15 * (j + 1)) := by
      have : (Tok.toInt ∘ Tok.int (V := V)) = id := by funext z; rfl
      rw [this, List.map_id, Nat.mul_succ, List.take_add]
    rw [e]
    exact readInts_aux l rest len (j + 1) (by omega)

/-- the reader recovers exactly the integers that were written 15 per line, and stops at the right line -/
theorem readInts_chunks15 (l : List Int) (rest : File V) :
    readInts l.length (chunks15 l ++ rest) [] = (l, rest) := by
  have := readInts_aux l rest ((l.length + 14) / 15) 0 (by omega)
  simpa [chunks15, List.range_eq_range'] using this

/-! ### even / odd rows -/

theorem length_evens {α} : ∀ l : List α, (evens l).length = (l.length + 1) / 2
  | [] => by simp [evens]
  | [_] => by simp [evens]
  | _ :: _ :: t => by simp [evens, length_evens t]; omega

theorem length_odds {α} : ∀ l : List α, (odds l).length = l.length / 2
  | [] => by simp [odds]
  | [_] => by simp [odds]
  | _ :: _ :: t => by simp [odds, length_odds t]; omega

theorem getD_evens {α} (d : α) : ∀ (l : List α) (j : Nat), (evens l).getD j d = l.getD (2 * j) d
  | [], j => by simp [evens]
  | [a], j => by
    cases j with
    | zero => simp [evens]
    | succ j => simp [evens, Nat.mul_succ]
  | a :: b :: t, j => by
    cases j with
    | zero => simp [evens]
    | succ j =>
      have : 2 * (j + 1) = 2 * j + 1 + 1 := by ring
      simp only [evens, this, List.getD_cons_succ]
      exact getD_evens d t j

theorem getD_odds {α} (d : α) : ∀ (l : List α) (j : Nat), (odds l).getD j d = l.getD (2 * j + 1) d
  | [], j => by simp [odds]
  | [a], j => by simp [odds]
  | a :: b :: t, j => by
    cases j with
    | zero => simp [odds]
    | succ j =>
      have : 2 * (j + 1) + 1 = 2 * j + 1 + 1 + 1 := by ring
      simp only [odds, this, List.getD_cons_succ]
      exact getD_odds d t j

theorem map_range_getD {α} (d : α) (l : List α) : (List.range l.length).map (fun i => l.getD i d) = l := by
  apply List.ext_getElem
  · simp
  · intro i h1 h2
    simp [List.getD_eq_getElem?_getD, h2]

end WB.C18
