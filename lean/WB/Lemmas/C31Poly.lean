/-
  C31 helper lemmas: odd/even expansion of the stencil and polynomial Hamiltonians in tensor form.
-/
import WB.Lemmas.C31
import Mathlib.Tactic.FinCases
import Mathlib.Data.Fintype.Basic

namespace WB.C31

variable {K : Type} [Field K] [CharZero K]

/-- the hypotheses on the stencil produced by `find_shells`:
    closed under `b → −b` (with the same weight), and the completeness relation (B1) `Σ_b w_b b_a b_c = δ_ac` -/
structure GoodStencil (bs : List (BPoint K)) : Prop where
  neg_closed : (bs.map BPoint.neg).Perm bs
  b1 : ∀ a c, mom2 bs a c = if a = c then 1 else 0

/-- Main expansion WITHOUT the completeness relation: if the stencil is closed under negation and along the stencil
    `f(k + b) = Ev(b) + Σ A1_a b_a + Σ A3_acd b_a b_c b_d` with `Ev` even, then the stencil returns
    `Σ_a A1_a M2_ae + Σ A3_acd M4_acde`. -/
theorem fd_odd_expansion_gen_aux (bs : List (BPoint K)) (hneg : (bs.map BPoint.neg).Perm bs) (f : V3 K → K) (k : V3 K)
    (Ev : V3 K → K) (hEv : ∀ b, Ev (fun a => -b a) = Ev b)
    (A1 : Fin 3 → K) (A3 : Fin 3 → Fin 3 → Fin 3 → K)
    (hf : ∀ p ∈ bs, f (vadd k p.bred) = Ev p.bcart + sum3 (fun a => A1 a * p.bcart a)
        + sum3 (fun a => sum3 (fun c => sum3 (fun d => A3 a c d * p.bcart a * p.bcart c * p.bcart d))))
    (e : Fin 3) :
    deriv3D f k e bs = sum3 (fun a => A1 a * mom2 bs a e)
      + sum3 (fun a => sum3 (fun c => sum3 (fun d => A3 a c d * mom4 bs a c d e))) := by
  rw [deriv3D_eq_mom f k e (fun b => Ev b + sum3 (fun a => A1 a * b a)
        + sum3 (fun a => sum3 (fun c => sum3 (fun d => A3 a c d * b a * b c * b d)))) bs hf]
  have hsplit : ∀ b : V3 K,
      (Ev b + sum3 (fun a => A1 a * b a) + sum3 (fun a => sum3 (fun c => sum3 (fun d => A3 a c d * b a * b c * b d)))) * b e
      = (Ev b * b e) + (sum3 (fun a => A1 a * (b a * b e))
          + sum3 (fun a => sum3 (fun c => sum3 (fun d => A3 a c d * (b a * b c * b d * b e))))) := by
    intro b; simp only [sum3]; ring
  rw [mom_congr _ _ hsplit, mom_add, mom_add]
  have hodd : mom (fun b => Ev b * b e) bs = 0 :=
    mom_odd_zero _ (fun b => by rw [hEv]; ring) bs hneg
  have hlin : mom (fun b => sum3 (fun a => A1 a * (b a * b e))) bs = sum3 (fun a => A1 a * mom2 bs a e) := by
    simp only [sum3, mom2, mom_add, mom_smul]
  have hcub : mom (fun b => sum3 (fun a => sum3 (fun c => sum3 (fun d => A3 a c d * (b a * b c * b d * b e))))) bs
      = sum3 (fun a => sum3 (fun c => sum3 (fun d => A3 a c d * mom4 bs a c d e))) := by
    simp only [sum3, mom4, mom_add, mom_smul]
  rw [hodd, hlin, hcub, zero_add]

/-- Main expansion.  If along the stencil `f(k + b) = Ev(b) + Σ A1_a b_a + Σ A3_acd b_a b_c b_d` with `Ev` even, then
    the stencil returns `A1_e + Σ A3_acd M4_acde`. -/
theorem fd_odd_expansion_aux (bs : List (BPoint K)) (hs : GoodStencil bs) (f : V3 K → K) (k : V3 K)
    (Ev : V3 K → K) (hEv : ∀ b, Ev (fun a => -b a) = Ev b)
    (A1 : Fin 3 → K) (A3 : Fin 3 → Fin 3 → Fin 3 → K)
    (hf : ∀ p ∈ bs, f (vadd k p.bred) = Ev p.bcart + sum3 (fun a => A1 a * p.bcart a)
        + sum3 (fun a => sum3 (fun c => sum3 (fun d => A3 a c d * p.bcart a * p.bcart c * p.bcart d))))
    (e : Fin 3) :
    deriv3D f k e bs = A1 e + sum3 (fun a => sum3 (fun c => sum3 (fun d => A3 a c d * mom4 bs a c d e))) := by
  rw [fd_odd_expansion_gen_aux bs hs.neg_closed f k Ev hEv A1 A3 hf e]
  congr 1
  have := hs.b1
  fin_cases e <;> simp [sum3, this]

/-! ### polynomial Hamiltonians (tensor form), both k-vector conventions

  `A` maps the reduced k-vector to the argument of the Hamiltonian (`A = recip_lattice` for
  `k_vector_cartesian=True`, `A = 1` for `False`); `C` maps a Cartesian displacement to the displacement of the
  Hamiltonian's argument (`C = 1`, resp. `C = recip_lattice⁻¹`): hypothesis `toCart A b_red = toCart C b_cart`. -/

/-- pure cubic form `Σ t_acd v_a v_c v_d` -/
def cub3 {K} [Add K] [Mul K] (t : Fin 3 → Fin 3 → Fin 3 → K) (v : V3 K) : K :=
  sum3 (fun a => sum3 (fun c => sum3 (fun d => t a c d * v a * v c * v d)))

/-- chain rule: Cartesian gradient of `q ↦ cubic(q)` when `dq = C · dk_cart` -/
def gradC {K} [Add K] [Mul K] (C : Fin 3 → Fin 3 → K) (g : Fin 3 → K) (h : Fin 3 → Fin 3 → K)
    (t : Fin 3 → Fin 3 → Fin 3 → K) (q : V3 K) (e : Fin 3) : K :=
  sum3 (fun a => C e a * cubicGrad g h t q a)

def hessC {K} [Add K] [Mul K] (C : Fin 3 → Fin 3 → K) (h : Fin 3 → Fin 3 → K)
    (t : Fin 3 → Fin 3 → Fin 3 → K) (q : V3 K) (e1 e2 : Fin 3) : K :=
  sum3 (fun a => sum3 (fun b => C e1 a * C e2 b * cubicHess h t q a b))

def d3C {K} [Add K] [Mul K] (C : Fin 3 → Fin 3 → K) (t : Fin 3 → Fin 3 → Fin 3 → K) (e1 e2 e3 : Fin 3) : K :=
  sum3 (fun a => sum3 (fun b => sum3 (fun c => C e1 a * C e2 b * C e3 c * cubicD3 t a b c)))

/-- the degree-3 error term of the first numerical derivative: `Σ_b w_b T3(C b) b_e` (independent of k) -/
def err1 {K} [Add K] [Mul K] [OfNat K 0] (bs : List (BPoint K)) (C : Fin 3 → Fin 3 → K)
    (t : Fin 3 → Fin 3 → Fin 3 → K) (e : Fin 3) : K :=
  mom (fun b => cub3 t (toCart C b) * b e) bs

omit [CharZero K] in
theorem mom_zero (bs : List (BPoint K)) : mom (fun _ => (0 : K)) bs = 0 := by
  have := mom_smul (0 : K) (fun _ => (0 : K)) bs
  simpa using this

omit [CharZero K] in
theorem toCart_vadd (A : Fin 3 → Fin 3 → K) (x y : V3 K) : toCart A (vadd x y) = vadd (toCart A x) (toCart A y) := by
  funext c; simp only [toCart, vadd, sum3]; ring

omit [CharZero K] in
theorem toCart_neg (A : Fin 3 → Fin 3 → K) (x : V3 K) : toCart A (fun a => -x a) = fun c => -toCart A x c := by
  funext c; simp only [toCart, sum3]; ring

/-- the part of `cubic (q + v)` that is even in `v` -/
def evenPart (c0 : K) (g : Fin 3 → K) (h : Fin 3 → Fin 3 → K) (t : Fin 3 → Fin 3 → Fin 3 → K) (q v : V3 K) : K :=
  cubic c0 g h t q
    + sum3 (fun a => sum3 (fun c => (h a c + sum3 (fun d => (t a c d + t a d c + t d a c) * q d)) * v a * v c))

omit [CharZero K] in
theorem cubic_shift (c0 : K) (g : Fin 3 → K) (h : Fin 3 → Fin 3 → K) (t : Fin 3 → Fin 3 → Fin 3 → K) (q v : V3 K) :
    cubic c0 g h t (vadd q v)
      = evenPart c0 g h t q v + sum3 (fun a => cubicGrad g h t q a * v a) + cub3 t v := by
  simp only [cubic, evenPart, cubicGrad, cub3, sum3, vadd]; ring

theorem fd_cubic_general_aux (bs : List (BPoint K)) (hs : GoodStencil bs) (A C : Fin 3 → Fin 3 → K)
    (hAC : ∀ p ∈ bs, toCart A p.bred = toCart C p.bcart)
    (c0 : K) (g : Fin 3 → K) (h : Fin 3 → Fin 3 → K) (t : Fin 3 → Fin 3 → Fin 3 → K) (k : V3 K) (e : Fin 3) :
    deriv3D (fun x => cubic c0 g h t (toCart A x)) k e bs
      = gradC C g h t (toCart A k) e + err1 bs C t e := by
  have hf : ∀ p ∈ bs, (fun x => cubic c0 g h t (toCart A x)) (vadd k p.bred)
      = (fun b => cubic c0 g h t (vadd (toCart A k) (toCart C b))) p.bcart := by
    intro p hp; simp only [toCart_vadd, hAC p hp]
  rw [deriv3D_eq_mom _ k e (fun b => cubic c0 g h t (vadd (toCart A k) (toCart C b))) bs hf]
  set q := toCart A k
  have hsplit : ∀ b : V3 K, cubic c0 g h t (vadd q (toCart C b)) * b e
      = evenPart c0 g h t q (toCart C b) * b e
        + (sum3 (fun a => cubicGrad g h t q a * toCart C b a) * b e + cub3 t (toCart C b) * b e) := by
    intro b; rw [cubic_shift]; ring
  rw [mom_congr _ _ hsplit, mom_add, mom_add]
  have hodd : mom (fun b => evenPart c0 g h t q (toCart C b) * b e) bs = 0 := by
    apply mom_odd_zero _ _ bs hs.neg_closed
    intro b
    rw [toCart_neg]
    simp only [evenPart, sum3]; ring
  have hlin : mom (fun b => sum3 (fun a => cubicGrad g h t q a * toCart C b a) * b e) bs
      = sum3 (fun a => cubicGrad g h t q a * sum3 (fun e' => C e' a * mom2 bs e' e)) := by
    have h1 : ∀ b : V3 K, sum3 (fun a => cubicGrad g h t q a * toCart C b a) * b e
        = sum3 (fun a => sum3 (fun e' => (cubicGrad g h t q a * C e' a) * (b e' * b e))) := by
      intro b; simp only [sum3, toCart]; ring
    rw [mom_congr _ _ h1]
    simp only [sum3, mom2, mom_add, mom_smul]; ring
  rw [hodd, hlin, zero_add]
  unfold err1 gradC
  congr 1
  have := hs.b1
  fin_cases e <;> simp [sum3, this] <;> ring

omit [CharZero K] in
/-- `k' ↦ gradC … (q(k')) e1 + const` is again a polynomial in tensor form (degree 2) -/
theorem gradC_as_cubic (C : Fin 3 → Fin 3 → K) (g : Fin 3 → K) (h : Fin 3 → Fin 3 → K)
    (t : Fin 3 → Fin 3 → Fin 3 → K) (q : V3 K) (e1 : Fin 3) (c : K) :
    gradC C g h t q e1 + c
      = cubic (sum3 (fun a => C e1 a * g a) + c)
          (fun x => sum3 (fun a => C e1 a * (h x a + h a x)))
          (fun x y => sum3 (fun a => C e1 a * (t a x y + t x a y + t x y a)))
          (fun _ _ _ => 0) q := by
  simp only [gradC, cubicGrad, cubic, sum3]; ring

omit [CharZero K] in
theorem err1_zero (bs : List (BPoint K)) (C : Fin 3 → Fin 3 → K) (e : Fin 3) :
    err1 bs C (fun _ _ _ => (0 : K)) e = 0 := by
  unfold err1
  rw [mom_congr _ (fun _ => (0 : K)) (fun b => by simp [cub3, sum3]), mom_zero]

theorem fd_second_aux (bs : List (BPoint K)) (hs : GoodStencil bs) (A C : Fin 3 → Fin 3 → K)
    (hAC : ∀ p ∈ bs, toCart A p.bred = toCart C p.bcart)
    (c0 : K) (g : Fin 3 → K) (h : Fin 3 → Fin 3 → K) (t : Fin 3 → Fin 3 → Fin 3 → K) (k : V3 K) (e1 e2 : Fin 3) :
    der2 bs (fun x => cubic c0 g h t (toCart A x)) k e1 e2 = hessC C h t (toCart A k) e1 e2 := by
  unfold der2 der1
  rw [deriv3D_congr _ _ (fun x => by
    rw [fd_cubic_general_aux bs hs A C hAC c0 g h t x e1, gradC_as_cubic]) k e2 bs]
  rw [fd_cubic_general_aux bs hs A C hAC, err1_zero, add_zero]
  simp only [gradC, hessC, cubicGrad, cubicHess, sum3]; ring

omit [CharZero K] in
/-- `k' ↦ hessC … (q(k')) e1 e2` in tensor form (degree 1) -/
theorem hessC_as_cubic (C : Fin 3 → Fin 3 → K) (h : Fin 3 → Fin 3 → K)
    (t : Fin 3 → Fin 3 → Fin 3 → K) (q : V3 K) (e1 e2 : Fin 3) :
    hessC C h t q e1 e2
      = cubic (sum3 (fun a => sum3 (fun b => C e1 a * C e2 b * (h b a + h a b))))
          (fun x => sum3 (fun a => sum3 (fun b => C e1 a * C e2 b *
              (t a b x + t b a x + t a x b + t b x a + t x a b + t x b a))))
          (fun _ _ => 0) (fun _ _ _ => 0) q := by
  simp only [hessC, cubicHess, cubic, sum3]; ring

theorem fd_third_aux (bs : List (BPoint K)) (hs : GoodStencil bs) (A C : Fin 3 → Fin 3 → K)
    (hAC : ∀ p ∈ bs, toCart A p.bred = toCart C p.bcart)
    (c0 : K) (g : Fin 3 → K) (h : Fin 3 → Fin 3 → K) (t : Fin 3 → Fin 3 → Fin 3 → K) (k : V3 K) (e1 e2 e3 : Fin 3) :
    der3 bs (fun x => cubic c0 g h t (toCart A x)) k e1 e2 e3 = d3C C t e1 e2 e3 := by
  unfold der3
  rw [deriv3D_congr _ _ (fun x => by
    rw [fd_second_aux bs hs A C hAC c0 g h t x e1 e2, hessC_as_cubic]) k e3 bs]
  rw [fd_cubic_general_aux bs hs A C hAC, err1_zero, add_zero]
  simp only [gradC, d3C, cubicGrad, cubicD3, sum3]; ring

end WB.C31
