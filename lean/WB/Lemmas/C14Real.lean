/-
  C14 — over ℝ: the derivative weights (`der = 1,2,3`) ARE the derivatives of the occupation weight, and the
  weights for `der ≤ 2` are continuous in the Fermi level.
-/
import WB.Lemmas.C14Sort
import Mathlib.Analysis.Calculus.Deriv.Pow
import Mathlib.Analysis.Calculus.Deriv.Add
import Mathlib.Analysis.Calculus.Deriv.Mul
import Mathlib.Analysis.Calculus.Deriv.Slope
import Mathlib.Topology.Algebra.Order.Field

namespace WB.C14
open Filter Topology

/-- `(x-a)_+^n` for `n ≥ 1` is a power of the positive part -/
theorem tp_eq_max (n : ℕ) (hn : 1 ≤ n) (a x : ℝ) : tp n a x = (max (x - a) 0) ^ n := by
  unfold tp
  split
  · rename_i h; rw [max_eq_left (by linarith)]
  · rename_i h; rw [max_eq_right (by linarith), zero_pow (by omega)]

theorem tp_continuous (n : ℕ) (hn : 1 ≤ n) (a : ℝ) : Continuous (tp n a) := by
  have : tp n a = fun x => (max (x - a) 0) ^ n := funext (tp_eq_max n hn a)
  rw [this]
  exact ((continuous_id.sub continuous_const).max continuous_const).pow n

theorem tp_succ (n : ℕ) (a x : ℝ) : tp (n + 1) a x = (x - a) * tp n a x := by
  unfold tp; split
  · ring
  · ring

/-- derivative of a truncated power: everywhere if the result still has positive degree, else off the knot -/
theorem tp_hasDerivAt (n : ℕ) (a x : ℝ) (h : x ≠ a ∨ 1 ≤ n) :
    HasDerivAt (tp (n + 1) a) (((n + 1 : ℕ) : ℝ) * tp n a x) x := by
  rcases lt_trichotomy x a with hlt | heq | hgt
  · have he : tp (n + 1) a =ᶠ[𝓝 x] fun _ => (0 : ℝ) := by
      filter_upwards [Iio_mem_nhds hlt] with y hy
      exact tp_of_lt hy
    rw [tp_of_lt hlt, mul_zero]
    exact (hasDerivAt_const x (0 : ℝ)).congr_of_eventuallyEq he
  · subst heq
    have hn : 1 ≤ n := by
      rcases h with h | h
      · exact absurd rfl h
      · exact h
    have h0 : tp n x x = 0 := tp_of_ge (by omega) (le_refl x)
    rw [h0, mul_zero, hasDerivAt_iff_tendsto_slope]
    have hs : ∀ y, y ≠ x → slope (tp (n + 1) x) x y = tp n x y := by
      intro y hy
      rw [slope_def_field, tp_succ n x y, tp_succ n x x, sub_self, zero_mul, sub_zero]
      field_simp [sub_ne_zero.mpr hy]
    have hc : Tendsto (tp n x) (𝓝[≠] x) (𝓝 0) := by
      have := (tp_continuous n hn x).tendsto x
      rw [h0] at this
      exact this.mono_left nhdsWithin_le_nhds
    refine hc.congr' ?_
    filter_upwards [self_mem_nhdsWithin] with y hy
    exact (hs y hy).symm
  · have he : tp (n + 1) a =ᶠ[𝓝 x] fun y => (y - a) ^ (n + 1) := by
      filter_upwards [Ioi_mem_nhds hgt] with y hy
      exact tp_of_le (le_of_lt hy)
    rw [tp_of_le hgt.le]
    have hd : HasDerivAt (fun y : ℝ => (y - a) ^ (n + 1)) (((n + 1 : ℕ) : ℝ) * (x - a) ^ n) x := by
      have := ((hasDerivAt_id x).sub_const a).fun_pow (n + 1)
      simpa using this
    exact hd.congr_of_eventuallyEq he

theorem ff_succ (n : ℕ) (hn : n ≤ 2) : (ff n : ℝ) * (((3 - n : ℕ)) : ℝ) = ff (n + 1) := by
  have : n = 0 ∨ n = 1 ∨ n = 2 := by omega
  rcases this with rfl | rfl | rfl <;> simp [ff] <;> norm_num

/-- T3 (analytic): `spec (n+1)` is the derivative of `spec n` — everywhere for `n = 0, 1`; for `n = 2` (piecewise
    linear → piecewise constant) away from the four corners -/
theorem spec_hasDerivAt (n : ℕ) (hn : n ≤ 2) (e1 e2 e3 e4 x : ℝ)
    (hx : n = 2 → x ≠ e1 ∧ x ≠ e2 ∧ x ≠ e3 ∧ x ≠ e4) :
    HasDerivAt (spec n e1 e2 e3 e4) (spec (n + 1) e1 e2 e3 e4 x) x := by
  obtain ⟨m, hm⟩ : ∃ m, 3 - n = m + 1 := ⟨2 - n, by omega⟩
  have hm' : 3 - (n + 1) = m := by omega
  have hcond : ∀ a : ℝ, (n = 2 → x ≠ a) → (x ≠ a ∨ 1 ≤ m) := by
    intro a ha
    by_cases h2 : n = 2
    · exact Or.inl (ha h2)
    · exact Or.inr (by omega)
  have d1 := tp_hasDerivAt m e1 x (hcond e1 fun h => (hx h).1)
  have d2 := tp_hasDerivAt m e2 x (hcond e2 fun h => (hx h).2.1)
  have d3 := tp_hasDerivAt m e3 x (hcond e3 fun h => (hx h).2.2.1)
  have d4 := tp_hasDerivAt m e4 x (hcond e4 fun h => (hx h).2.2.2)
  have hff := ff_succ n hn
  have hcast : (((3 - n : ℕ)) : ℝ) = ((m + 1 : ℕ) : ℝ) := by rw [hm]
  have key := ((((d1.div_const ((e2 - e1) * (e3 - e1) * (e4 - e1))).add
    (d2.div_const ((e1 - e2) * (e3 - e2) * (e4 - e2)))).add
    (d3.div_const ((e1 - e3) * (e2 - e3) * (e4 - e3)))).add
    (d4.div_const ((e1 - e4) * (e2 - e4) * (e3 - e4)))).const_mul (ff n : ℝ)
  have hfun : spec n e1 e2 e3 e4 = fun y => (ff n : ℝ) * (tp (m + 1) e1 y / ((e2 - e1) * (e3 - e1) * (e4 - e1))
      + tp (m + 1) e2 y / ((e1 - e2) * (e3 - e2) * (e4 - e2))
      + tp (m + 1) e3 y / ((e1 - e3) * (e2 - e3) * (e4 - e3))
      + tp (m + 1) e4 y / ((e1 - e4) * (e2 - e4) * (e3 - e4))) := by
    funext y; unfold spec; rw [hm]
  rw [hfun]
  refine key.congr_deriv ?_
  unfold spec
  rw [hm', ← hff, hcast]
  ring

/-- `spec n` is continuous in the Fermi level for `n ≤ 2` -/
theorem spec_continuous (n : ℕ) (hn : n ≤ 2) (e1 e2 e3 e4 : ℝ) : Continuous (spec n e1 e2 e3 e4) := by
  have h1 : 1 ≤ 3 - n := by omega
  unfold spec
  exact continuous_const.mul
    (((((tp_continuous _ h1 e1).div_const _).add ((tp_continuous _ h1 e2).div_const _)).add
      ((tp_continuous _ h1 e3).div_const _)).add ((tp_continuous _ h1 e4).div_const _))

end WB.C14
