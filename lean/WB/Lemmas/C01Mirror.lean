/-
  C01 — inversion symmetry of the Wigner-Seitz selection (the combinatorial half of  X(-R) = X(R)†).

  The replicas searched for grid point `c` are `c + t∘mp`, `t ∈ [-ws, ws]³`.  The mirror image `-R` of such a replica
  belongs to grid point `c' = (-c) mod mp` and is searched only if `-t - u ∈ [-ws, ws]³` where `-c = c' - u∘mp`,
  `u ∈ {0,1}³` — the search box is NOT inversion symmetric as a set of replicas.  When every selected replica (for
  `s` at `c`, and for `-s` at `c'`) has its mirror image inside the box, the two selections are mirror images with
  equal `Ndegen`.  `Props/C01.lean : far_centres_not_mirror` shows that the hypothesis cannot be dropped (finding F12).
-/
import WB.Lemmas.C01Ws
import Mathlib.Data.List.Nodup
import Mathlib.Data.List.Perm.Basic

namespace WB.C01

def qneg (s : QVec3) : QVec3 := (-s.1, -s.2.1, -s.2.2)
def mirrorClass (c : Vec3) (mp : Mesh) : Vec3 := vmod (vneg c) mp

theorem qneg_qneg (s : QVec3) : qneg (qneg s) = s := by simp [qneg]
theorem vneg_vneg (R : Vec3) : vneg (vneg R) = R := by simp [vneg]

theorem dist2_neg (G : Gram) (s : QVec3) (R : Vec3) : dist2 G (qneg s) (vneg R) = dist2 G s R := by
  simp only [dist2, quad, qneg, vneg]
  push_cast
  ring

/-- minimum squared distance of the class -/
def classMin (ws : Nat) (G : Gram) (mp : Mesh) (s : QVec3) (c : Vec3) : Rat :=
  minList (dist2 G s c) ((candidates ws mp c).map (dist2 G s))

theorem classMin_le (ws : Nat) (G : Gram) (mp : Mesh) (s : QVec3) (c R : Vec3) (hR : R ∈ candidates ws mp c) :
    classMin ws G mp s c ≤ dist2 G s R :=
  minList_le_mem _ _ _ (List.mem_map.mpr ⟨R, hR, rfl⟩)

theorem classMin_attained (ws : Nat) (G : Gram) (mp : Mesh) (s : QVec3) (c : Vec3) :
    ∃ R ∈ candidates ws mp c, dist2 G s R = classMin ws G mp s c := by
  rcases minList_mem (dist2 G s c) ((candidates ws mp c).map (dist2 G s)) with h | h
  · exact ⟨c, self_mem_candidates ws mp c, h.symm⟩
  · obtain ⟨R, hR, hq⟩ := List.mem_map.mp h
    exact ⟨R, hR, hq⟩

theorem mem_selClass (ws : Nat) (G : Gram) (mp : Mesh) (tol : Rat) (s : QVec3) (c R : Vec3) :
    R ∈ selClass ws G mp tol s c ↔
      R ∈ candidates ws mp c ∧ withinTol tol (dist2 G s R) (classMin ws G mp s c) = true := by
  unfold selClass classMin
  rw [List.mem_filter]

theorem classMin_le_mirror (ws : Nat) (G : Gram) (mp : Mesh) (tol : Rat) (htol : tol ≠ 0) (s : QVec3) (c c' : Vec3)
    (H : ∀ R' ∈ selClass ws G mp tol (qneg s) c', vneg R' ∈ candidates ws mp c) :
    classMin ws G mp s c ≤ classMin ws G mp (qneg s) c' := by
  obtain ⟨R', hR', hq⟩ := classMin_attained ws G mp (qneg s) c'
  have hsel : R' ∈ selClass ws G mp tol (qneg s) c' := by
    rw [mem_selClass]; exact ⟨hR', by rw [hq]; exact withinTol_self tol _ htol⟩
  have := classMin_le ws G mp s c (vneg R') (H R' hsel)
  have e : dist2 G s (vneg R') = dist2 G (qneg s) R' := by
    rw [← dist2_neg G (qneg s) R', qneg_qneg]
  rw [e, hq] at this
  exact this

/-- **mirror symmetry of one class.**  If the mirror image of every selected replica is again a searched replica
    (in both directions), the selection for `-s` at the mirror grid point is the mirror image of the selection for `s`. -/
theorem selClass_mirror (ws : Nat) (G : Gram) (mp : Mesh) (tol : Rat) (htol : tol ≠ 0) (s : QVec3) (c c' : Vec3)
    (H1 : ∀ R ∈ selClass ws G mp tol s c, vneg R ∈ candidates ws mp c')
    (H2 : ∀ R' ∈ selClass ws G mp tol (qneg s) c', vneg R' ∈ candidates ws mp c) (R : Vec3) :
    R ∈ selClass ws G mp tol s c ↔ vneg R ∈ selClass ws G mp tol (qneg s) c' := by
  have hle := classMin_le_mirror ws G mp tol htol s c c' H2
  have hge : classMin ws G mp (qneg s) c' ≤ classMin ws G mp s c := by
    have := classMin_le_mirror ws G mp tol htol (qneg s) c' c (by rw [qneg_qneg]; exact H1)
    rwa [qneg_qneg] at this
  have hm : classMin ws G mp (qneg s) c' = classMin ws G mp s c := le_antisymm hge hle
  constructor
  · intro h
    have h' := (mem_selClass ..).1 h
    rw [mem_selClass, dist2_neg, hm]
    exact ⟨H1 R h, h'.2⟩
  · intro h
    have h' := (mem_selClass ..).1 h
    rw [dist2_neg, hm] at h'
    rw [mem_selClass]
    refine ⟨?_, h'.2⟩
    have := H2 (vneg R) h
    rwa [vneg_vneg] at this

/-! ### duplicate-freeness of the candidate lists (needed for equal `Ndegen`) -/

theorem nodup_pm (n : Nat) : (pm n).Nodup := by
  unfold pm
  apply List.Nodup.map _ List.nodup_range
  intro a b h
  simp only at h
  omega

theorem superCells_eq_product (ws : Nat) :
    superCells ws = List.product (pm ws) (List.product (pm ws) (pm ws)) := by
  unfold superCells List.product
  simp only [List.map_flatMap, List.map_map]
  rfl

theorem nodup_superCells (ws : Nat) : (superCells ws).Nodup := by
  rw [superCells_eq_product]
  exact (nodup_pm ws).product ((nodup_pm ws).product (nodup_pm ws))

theorem nodup_candidates (ws : Nat) (mp : Mesh) (h1 : 0 < mp.1) (h2 : 0 < mp.2.1) (h3 : 0 < mp.2.2) (c : Vec3) :
    (candidates ws mp c).Nodup := by
  unfold candidates
  apply List.Nodup.map _ (nodup_superCells ws)
  intro t t' h
  obtain ⟨t1, t2, t3⟩ := t
  obtain ⟨u1, u2, u3⟩ := t'
  simp only [vadd, vscale, Prod.mk.injEq] at h
  obtain ⟨e1, e2, e3⟩ := h
  have p1 : (0 : Int) < (mp.1 : Int) := by omega
  have p2 : (0 : Int) < (mp.2.1 : Int) := by omega
  have p3 : (0 : Int) < (mp.2.2 : Int) := by omega
  have f1 : t1 = u1 := by
    have : t1 * (mp.1 : Int) = u1 * (mp.1 : Int) := by omega
    exact Int.eq_of_mul_eq_mul_right (by omega) this
  have f2 : t2 = u2 := by
    have : t2 * (mp.2.1 : Int) = u2 * (mp.2.1 : Int) := by omega
    exact Int.eq_of_mul_eq_mul_right (by omega) this
  have f3 : t3 = u3 := by
    have : t3 * (mp.2.2 : Int) = u3 * (mp.2.2 : Int) := by omega
    exact Int.eq_of_mul_eq_mul_right (by omega) this
  rw [f1, f2, f3]

theorem nodup_selClass (ws : Nat) (G : Gram) (mp : Mesh) (tol : Rat) (s : QVec3) (c : Vec3)
    (h1 : 0 < mp.1) (h2 : 0 < mp.2.1) (h3 : 0 < mp.2.2) : (selClass ws G mp tol s c).Nodup := by
  unfold selClass
  exact (nodup_candidates ws mp h1 h2 h3 c).filter _

theorem vneg_injective : Function.Injective vneg := by
  intro a b h
  have := congrArg vneg h
  rwa [vneg_vneg, vneg_vneg] at this

/-- equal degeneracies under the mirror hypothesis -/
theorem selClass_mirror_length (ws : Nat) (G : Gram) (mp : Mesh) (tol : Rat) (htol : tol ≠ 0) (s : QVec3) (c c' : Vec3)
    (h1 : 0 < mp.1) (h2 : 0 < mp.2.1) (h3 : 0 < mp.2.2)
    (H1 : ∀ R ∈ selClass ws G mp tol s c, vneg R ∈ candidates ws mp c')
    (H2 : ∀ R' ∈ selClass ws G mp tol (qneg s) c', vneg R' ∈ candidates ws mp c) :
    (selClass ws G mp tol s c).length = (selClass ws G mp tol (qneg s) c').length := by
  have hperm : ((selClass ws G mp tol s c).map vneg).Perm (selClass ws G mp tol (qneg s) c') := by
    rw [List.perm_ext_iff_of_nodup ((nodup_selClass ws G mp tol s c h1 h2 h3).map vneg_injective)
      (nodup_selClass ws G mp tol (qneg s) c' h1 h2 h3)]
    intro R'
    rw [List.mem_map]
    constructor
    · rintro ⟨R, hR, rfl⟩
      exact (selClass_mirror ws G mp tol htol s c c' H1 H2 R).1 hR
    · intro h
      refine ⟨vneg R', ?_, vneg_vneg R'⟩
      rw [selClass_mirror ws G mp tol htol s c c' H1 H2, vneg_vneg]
      exact h
  have := hperm.length_eq
  simpa using this

end WB.C01
