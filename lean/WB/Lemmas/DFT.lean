/-
  Discrete Fourier inversion on a cyclic group (and on a product of three), from Mathlib's theory of
  primitive roots of unity.  This discharges the "FFT contract" (inverse DFT inverts DFT) that the Fourier
  models use as their only assumption about the FFT library — for exact arithmetic in any field that has a
  primitive N-th root of unity (ℂ in particular).
-/
import Mathlib.RingTheory.RootsOfUnity.PrimitiveRoots
import Mathlib.Algebra.Ring.GeomSum
import Mathlib.Algebra.BigOperators.Intervals

open Finset

namespace WB.DFT

variable {K : Type*} [Field K]

/-- orthogonality of characters of ℤ/N: `Σ_{q<N} (ζ^d)^q = N` if `N ∣ d`, else `0`. -/
theorem sum_zpow_pow (N : ℕ) (ζ : K) (hζ : IsPrimitiveRoot ζ N) (d : ℤ) :
    ∑ q ∈ range N, (ζ ^ d) ^ q = if (N : ℤ) ∣ d then (N : K) else 0 := by
  split_ifs with h
  · have h1 : ζ ^ d = 1 := (hζ.zpow_eq_one_iff_dvd d).2 h
    simp [h1]
  · have h1 : ζ ^ d ≠ 1 := fun e => h ((hζ.zpow_eq_one_iff_dvd d).1 e)
    have h2 : (ζ ^ d) ^ N = 1 := by
      rw [← zpow_natCast, ← zpow_mul, mul_comm, zpow_mul, zpow_natCast, hζ.pow_eq_one, one_zpow]
    have h3 := geom_sum_mul (ζ ^ d) N
    rw [h2, sub_self] at h3
    exact (mul_eq_zero.mp h3).resolve_right (sub_ne_zero_of_ne h1)

/-- for `0 ≤ c, c' < N`:  `N ∣ c' - c ↔ c' = c` -/
theorem dvd_sub_iff_eq {N c c' : ℕ} (hc : c < N) (hc' : c' < N) :
    (N : ℤ) ∣ (c' : ℤ) - c ↔ c' = c := by
  constructor
  · intro h
    obtain ⟨t, ht⟩ := h
    have : t = 0 := by
      by_contra hne
      rcases lt_or_gt_of_ne hne with h1 | h1
      · have : (N : ℤ) * t ≤ -(N : ℤ) := by nlinarith
        omega
      · have : (N : ℤ) * t ≥ (N : ℤ) := by nlinarith
        omega
    subst this; omega
  · rintro rfl; simp

/-- **DFT inversion in one dimension.**  `a(c) = N⁻¹ Σ_q ζ^{-qc} Σ_{c'} ζ^{qc'} a(c')`. -/
theorem inversion1 (N : ℕ) (ζ : K) (hζ : IsPrimitiveRoot ζ N) (hN : (N : K) ≠ 0)
    (a : ℕ → K) (c : ℕ) (hc : c < N) :
    (N : K)⁻¹ * ∑ q ∈ range N, ζ ^ (-((q : ℤ) * c)) * ∑ c' ∈ range N, ζ ^ ((q : ℤ) * c') * a c' = a c := by
  have hz : ζ ≠ 0 := by
    rintro rfl
    have hpos : 0 < N := Nat.pos_of_ne_zero (by rintro rfl; simp at hN)
    have := hζ.pow_eq_one
    rw [zero_pow (by omega)] at this
    exact zero_ne_one this
  have key : ∀ c' ∈ range N,
      ∑ q ∈ range N, ζ ^ (-((q : ℤ) * c)) * (ζ ^ ((q : ℤ) * c') * a c')
        = (if c' = c then (N : K) else 0) * a c' := by
    intro c' hc'
    have hc'N : c' < N := mem_range.mp hc'
    have : ∀ q : ℕ, ζ ^ (-((q : ℤ) * c)) * (ζ ^ ((q : ℤ) * c') * a c')
        = (ζ ^ ((c' : ℤ) - c)) ^ q * a c' := by
      intro q
      rw [← mul_assoc, ← zpow_add₀ hz, ← zpow_natCast, ← zpow_mul]
      congr 2; ring
    simp_rw [this, ← Finset.sum_mul, sum_zpow_pow N ζ hζ, dvd_sub_iff_eq hc hc'N]
  have inner : ∑ q ∈ range N, ζ ^ (-((q : ℤ) * c)) * ∑ c' ∈ range N, ζ ^ ((q : ℤ) * c') * a c'
      = (N : K) * a c := by
    simp_rw [Finset.mul_sum]
    rw [Finset.sum_comm, Finset.sum_congr rfl key]
    simp only [ite_mul, zero_mul]
    rw [Finset.sum_ite_eq' (range N) c, if_pos (mem_range.mpr hc)]
  rw [inner, ← mul_assoc, inv_mul_cancel₀ hN, one_mul]

end WB.DFT
