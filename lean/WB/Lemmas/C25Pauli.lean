/-
  C25 helper lemmas: the rotated Pauli matrices `σ'_c = C† σ_c C`.
  `K` is any field with a ring endomorphism `conj` ("complex conjugation") and an element `I` with `I² = −1`,
  `conj I = −I`;  `c = cos(θ/2)`, `s = sin(θ/2)` are "real" (`conj c = c`), `e = exp(−iφ/2)` is unimodular
  (`e · conj e = 1`).  ℂ with `starRingEnd ℂ` and `Complex.I` is one instance.
-/
import WB.Model.C25
import Mathlib.Algebra.Field.Basic
import Mathlib.Tactic.Ring
import Mathlib.Tactic.FieldSimp
import Mathlib.Tactic.LinearCombination
import Mathlib.Tactic.FinCases
import Mathlib.Data.Fintype.Basic

namespace WB.C25

structure PauliHyp {K : Type} [Field K] (conj : K →+* K) (I c s e : K) : Prop where
  hI : I * I = -1
  hcI : conj I = -I
  hc : conj c = c
  hs : conj s = s
  he : e * conj e = 1
  hcs : c * c + s * s = 1

variable {K : Type} [Field K] {conj : K →+* K} {I c s e : K}

theorem PauliHyp.e_ne (h : PauliHyp conj I c s e) : e ≠ 0 := by
  intro h0; have := h.he; rw [h0, zero_mul] at this; exact zero_ne_one this

theorem PauliHyp.inv_e (h : PauliHyp conj I c s e) : e⁻¹ = conj e := by
  have := h.e_ne
  field_simp
  linear_combination -h.he

theorem PauliHyp.conj_conj_e (h : PauliHyp conj I c s e) : conj (conj e) = e := by
  have h1 : conj e * conj (conj e) = 1 := by rw [← map_mul, h.he, map_one]
  have h2 := h.he
  have : conj e ≠ 0 := by intro h0; rw [h0, mul_zero] at h2; exact zero_ne_one h2
  apply mul_left_cancel₀ this
  rw [h1, mul_comm, h2]

/-- entries of `C` and of `conj C` in terms of `e` and `f = conj e = e⁻¹` -/
theorem Css_entries (h : PauliHyp conj I c s e) :
    Css c s e 0 0 = c * e ∧ Css c s e 0 1 = -(s * e) ∧ Css c s e 1 0 = s * conj e ∧ Css c s e 1 1 = c * conj e := by
  refine ⟨rfl, rfl, ?_, ?_⟩
  · show s / e = _; rw [div_eq_mul_inv, h.inv_e]
  · show c / e = _; rw [div_eq_mul_inv, h.inv_e]

theorem conj_Css_entries (h : PauliHyp conj I c s e) :
    conj (Css c s e 0 0) = c * conj e ∧ conj (Css c s e 0 1) = -(s * conj e) ∧
    conj (Css c s e 1 0) = s * e ∧ conj (Css c s e 1 1) = c * e := by
  obtain ⟨h00, h01, h10, h11⟩ := Css_entries h
  rw [h00, h01, h10, h11]
  simp only [map_mul, map_neg, h.hc, h.hs, h.conj_conj_e, and_self]

/-! explicit entries of the rotated matrices (with `f = conj e`) -/

theorem pauliRot_x (h : PauliHyp conj I c s e) :
    pauliRot conj I c s e 0 0 0 = c * s * (conj e * conj e + e * e) ∧
    pauliRot conj I c s e 0 0 1 = c * c * (conj e * conj e) - s * s * (e * e) ∧
    pauliRot conj I c s e 0 1 0 = c * c * (e * e) - s * s * (conj e * conj e) ∧
    pauliRot conj I c s e 0 1 1 = -(c * s * (conj e * conj e + e * e)) := by
  obtain ⟨h00, h01, h10, h11⟩ := Css_entries h
  refine ⟨?_, ?_, ?_, ?_⟩ <;>
  · simp only [pauliRot, pauli, h00, h01, h10, h11, map_mul, map_neg, h.hc, h.hs, h.conj_conj_e]
    simp
    ring

theorem pauliRot_y (h : PauliHyp conj I c s e) :
    pauliRot conj I c s e 1 0 0 = I * (c * s * (e * e - conj e * conj e)) ∧
    pauliRot conj I c s e 1 0 1 = -(I * (c * c * (conj e * conj e) + s * s * (e * e))) ∧
    pauliRot conj I c s e 1 1 0 = I * (s * s * (conj e * conj e) + c * c * (e * e)) ∧
    pauliRot conj I c s e 1 1 1 = I * (c * s * (conj e * conj e - e * e)) := by
  obtain ⟨h00, h01, h10, h11⟩ := Css_entries h
  refine ⟨?_, ?_, ?_, ?_⟩ <;>
  · simp only [pauliRot, pauli, h00, h01, h10, h11, map_mul, map_neg, h.hc, h.hs, h.conj_conj_e]
    simp
    ring

theorem pauliRot_z (h : PauliHyp conj I c s e) :
    pauliRot conj I c s e 2 0 0 = c * c - s * s ∧
    pauliRot conj I c s e 2 0 1 = -(2 * c * s) ∧
    pauliRot conj I c s e 2 1 0 = -(2 * c * s) ∧
    pauliRot conj I c s e 2 1 1 = s * s - c * c := by
  obtain ⟨h00, h01, h10, h11⟩ := Css_entries h
  have he := h.he
  refine ⟨?_, ?_, ?_, ?_⟩ <;>
  · simp only [pauliRot, pauli, h00, h01, h10, h11, map_mul, map_neg, h.hc, h.hs, h.conj_conj_e]
    simp
    grind

/-- Levi-Civita symbol -/
def leviCivita (a b c : Fin 3) : Int :=
  match a.val, b.val, c.val with
  | 0, 1, 2 => 1
  | 1, 2, 0 => 1
  | 2, 0, 1 => 1
  | 0, 2, 1 => -1
  | 2, 1, 0 => -1
  | 1, 0, 2 => -1
  | _, _, _ => 0

/-- `C†C = 1` -/
theorem Css_unitary_aux (h : PauliHyp conj I c s e) (i j : Fin 2) :
    conj (Css c s e 0 i) * Css c s e 0 j + conj (Css c s e 1 i) * Css c s e 1 j = one2 i j := by
  obtain ⟨h00, h01, h10, h11⟩ := Css_entries h
  have he := h.he
  have hcs := h.hcs
  fin_cases i <;> fin_cases j <;>
  · simp only [Fin.zero_eta, Fin.mk_one, Fin.isValue, h00, h01, h10, h11, map_mul, map_neg, h.hc, h.hs, h.conj_conj_e]
    simp [one2]
    grind

/-- `σ'_a σ'_b = δ_ab + i ε_abc σ'_c` -/
theorem pauli_algebra_aux (h : PauliHyp conj I c s e) (a b : Fin 3) (i j : Fin 2) :
    mul2 (pauliRot conj I c s e a) (pauliRot conj I c s e b) i j =
      (if a = b then one2 i j else 0) +
      I * ((leviCivita a b 0 : K) * pauliRot conj I c s e 0 i j + (leviCivita a b 1 : K) * pauliRot conj I c s e 1 i j
            + (leviCivita a b 2 : K) * pauliRot conj I c s e 2 i j) := by
  obtain ⟨x00, x01, x10, x11⟩ := pauliRot_x h
  obtain ⟨y00, y01, y10, y11⟩ := pauliRot_y h
  obtain ⟨z00, z01, z10, z11⟩ := pauliRot_z h
  have hcs := h.hcs
  have he := h.he
  have hI := h.hI
  fin_cases a <;> fin_cases b <;> fin_cases i <;> fin_cases j <;>
  · simp [mul2, one2, leviCivita, x00, x01, x10, x11, y00, y01, y10, y11, z00, z01, z10, z11]
    grind

/-- the rotated matrices are Hermitian -/
theorem pauli_hermitian_aux (h : PauliHyp conj I c s e) (a : Fin 3) (i j : Fin 2) :
    conj (pauliRot conj I c s e a i j) = pauliRot conj I c s e a j i := by
  obtain ⟨x00, x01, x10, x11⟩ := pauliRot_x h
  obtain ⟨y00, y01, y10, y11⟩ := pauliRot_y h
  obtain ⟨z00, z01, z10, z11⟩ := pauliRot_z h
  fin_cases a <;> fin_cases i <;> fin_cases j <;>
  · simp only [Fin.zero_eta, Fin.mk_one, Fin.reduceFinMk, Fin.isValue, x00, x01, x10, x11, y00, y01, y10, y11,
      z00, z01, z10, z11, map_mul, map_add, map_sub, map_neg, map_ofNat, h.hc, h.hs, h.conj_conj_e, h.hcI]
    try ring

/-- the spin component along the axis is `diag(1, −1)` -/
theorem pauli_axis_aux (h : PauliHyp conj I c s e) (i j : Fin 2) :
    axis conj I c s e 0 * pauliRot conj I c s e 0 i j + axis conj I c s e 1 * pauliRot conj I c s e 1 i j
      + axis conj I c s e 2 * pauliRot conj I c s e 2 i j = pauli I 2 i j := by
  obtain ⟨x00, x01, x10, x11⟩ := pauliRot_x h
  obtain ⟨y00, y01, y10, y11⟩ := pauliRot_y h
  obtain ⟨z00, z01, z10, z11⟩ := pauliRot_z h
  have hcs := h.hcs
  have he := h.he
  have hI := h.hI
  have h2 : (2 : K) * (1 / 2) = 1 ∨ (2 : K) = 0 := by
    by_cases h2 : (2 : K) = 0
    · right; exact h2
    · left; field_simp
  fin_cases i <;> fin_cases j <;>
  · simp [axis, pauli, x00, x01, x10, x11, y00, y01, y10, y11, z00, z01, z10, z11]
    grind

end WB.C25
