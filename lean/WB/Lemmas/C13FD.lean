/-
  C13 — closed form: the `fder = n` result at `Ef_j` is the n-th central difference (step `dEF`) of the Fermi-sea step
  sum `S(x) = Σ_{groups with energy ≤ x} value`.
-/
import WB.Lemmas.C13CumDOS

namespace WB.C13

/-- Fermi-sea calculator = step sum (any formula values `v`): on a uniform grid with positive spacing the `fder = 0`
    result at `Ef_j` is the sum of the values of the groups with energy `≤ Ef_j` (lumped group included) -/
theorem sea_eq_stepSum (Ef : Nat → Rat) (nEf : Nat) (hu : Uniform Ef nEf) (hd : 0 < dEF Ef nEf)
    (E : Nat → Rat) (th : Rat) (nb : Nat) (kr : Bool) (v : Nat × Nat → Rat) (j : Nat) (hj : j < nEf) :
    resolved 0 Ef nEf (calcK 0 Ef nEf E th nb kr none v) j =
      stepSum (groupsWithValues E th nb kr (Ef 0) (Ef (nEf - 1)) true none v) (Ef j) := by
  unfold resolved calcK
  rw [stencil_0, EFmin_zero, EFmax_zero]
  have e0 : ((0 : Nat) == 0) = true := rfl
  rw [e0, hu j hj]
  apply accumulate_eq_stepSum _ _ _ hd
  rw [hu (nEf - 1) (by omega)]
  have : (j : Rat) ≤ ((nEf - 1 : Nat) : Rat) := by exact_mod_cast (by omega : j ≤ nEf - 1)
  nlinarith

/-- the sea accumulation on the extended grid, as a step sum -/
theorem sea_ext_eq_stepSum (fder : Nat) (h1 : 1 ≤ fder) (h3 : fder ≤ 3) (Ef : Nat → Rat) (n : Nat) (hn : 0 < n)
    (hu : Uniform Ef n) (hd : 0 < dEF Ef n) (E : Nat → Rat) (th : Rat) (nb : Nat) (kr : Bool)
    (v : Nat × Nat → Rat) (i : Nat) (hi : i < nEFextra n fder) :
    resolved 0 (extGrid fder Ef n) (nEFextra n fder)
        (calcK 0 (extGrid fder Ef n) (nEFextra n fder) E th nb kr none v) i =
      stepSum (groupsWithValues E th nb kr (EFmin Ef n fder) (EFmax Ef n fder) true none v)
        (EFmin Ef n fder + (i : Rat) * dEF Ef n) := by
  unfold resolved calcK
  have e0 : ((0 : Nat) == 0) = true := rfl
  rw [stencil_0, ext_dEF fder Ef n h1 h3, ext_EFmin fder Ef n, ext_EFmax fder Ef n hn hu, e0]
  apply accumulate_eq_stepSum _ _ _ hd
  -- EFmin + i d ≤ EFmax = EFmin + (N-1) d
  have hm : EFmin Ef n fder = Ef 0 - ((extraEf fder : Nat) : Rat) * dEF Ef n := rfl
  have hx : EFmax Ef n fder = Ef (n - 1) + ((extraEf fder : Nat) : Rat) * dEF Ef n := rfl
  rw [hm, hx, hu (n - 1) (by omega)]
  have c2 : ((n - 1 : Nat) : Rat) = (n : Rat) - 1 := by
    rw [Nat.cast_sub (by omega)]; push_cast; ring
  rw [c2]
  have hi' : (i : Rat) ≤ (n : Rat) + 2 * (extraEf fder : Rat) - 1 := by
    unfold nEFextra at hi
    have : i + 1 ≤ n + 2 * extraEf fder := by omega
    have : ((i + 1 : Nat) : Rat) ≤ ((n + 2 * extraEf fder : Nat) : Rat) := by exact_mod_cast this
    push_cast at this
    linarith
  nlinarith

/-- T3 (closed form).  With `S` the Fermi-sea step sum of the same formula (window = the extended grid) and
    `d = dEF`, for every Fermi level `Ef_j` of a uniform grid:
      fder = 1 :  (S(Ef_j + d) - S(Ef_j - d)) / (2d)
      fder = 2 :  (S(Ef_j + d) + S(Ef_j - d) - 2 S(Ef_j)) / d²
      fder = 3 :  (S(Ef_j + 2d) - S(Ef_j - 2d) - 2 (S(Ef_j + d) - S(Ef_j - d))) / (2d³)            -/
theorem fder_is_central_difference_aux (fder : Nat) (h1 : 1 ≤ fder) (h3 : fder ≤ 3) (Ef : Nat → Rat) (n : Nat)
    (hn : 0 < n) (hu : Uniform Ef n) (hd : 0 < dEF Ef n) (E : Nat → Rat) (th : Rat) (nb : Nat) (kr : Bool)
    (v : Nat × Nat → Rat) (j : Nat) (hj : j < n) :
    resolved fder Ef n (calcK fder Ef n E th nb kr none v) j =
      stencil fder (dEF Ef n)
        (fun i => stepSum (groupsWithValues E th nb kr (EFmin Ef n fder) (EFmax Ef n fder) true none v)
          (Ef j + ((i : Rat) - (j : Rat) - (extraEf fder : Rat)) * dEF Ef n)) j := by
  rw [surface_is_fd_of_sea_resolved fder h1 h3 Ef n hn hu E th nb kr v j]
  have hm : EFmin Ef n fder = Ef 0 - ((extraEf fder : Nat) : Rat) * dEF Ef n := rfl
  have key : ∀ i, i < nEFextra n fder →
      resolved 0 (extGrid fder Ef n) (nEFextra n fder)
        (calcK 0 (extGrid fder Ef n) (nEFextra n fder) E th nb kr none v) i =
      stepSum (groupsWithValues E th nb kr (EFmin Ef n fder) (EFmax Ef n fder) true none v)
        (Ef j + ((i : Rat) - (j : Rat) - (extraEf fder : Rat)) * dEF Ef n) := by
    intro i hi
    rw [sea_ext_eq_stepSum fder h1 h3 Ef n hn hu hd E th nb kr v i hi]
    congr 1
    rw [hm, hu j hj]
    ring
  have : fder = 1 ∨ fder = 2 ∨ fder = 3 := by omega
  rcases this with rfl | rfl | rfl
  · have e : nEFextra n 1 = n + 2 := rfl
    simp only [stencil_1]
    rw [key (j + 2) (by omega), key j (by omega)]
  · have e : nEFextra n 2 = n + 2 := rfl
    simp only [stencil_2]
    rw [key (j + 2) (by omega), key j (by omega), key (j + 1) (by omega)]
  · have e : nEFextra n 3 = n + 4 := rfl
    simp only [stencil_3]
    rw [key (j + 4) (by omega), key j (by omega), key (j + 3) (by omega), key (j + 1) (by omega)]

end WB.C13
