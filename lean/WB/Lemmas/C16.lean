/-
  Helper lemmas for C16: additivity / homogeneity of the tensor transformation, stacking of k-blocks,
  dictionary look-ups of the saved form.
-/
import WB.Model.C16
import Mathlib.Algebra.Field.Basic
import Mathlib.Algebra.Ring.Hom.Defs
import Mathlib.Tactic.Ring
import Mathlib.Tactic.Linarith

namespace WB.C16

variable {K : Type} [Field K]

/-! ### element-wise operations -/

theorem upd_self (t : Nat → Nat) (a : Nat) : upd t a (t a) = t := by
  funext b; unfold upd; split <;> simp_all

theorem upd_upd (t : Nat → Nat) (a i j : Nat) : upd (upd t a i) a j = upd t a j := by
  funext b; unfold upd; split <;> simp_all

theorem upd_same (t : Nat → Nat) (a j : Nat) : upd t a j a = j := by simp [upd]

/-! ### Transform.__call__ -/

theorem apply_add (σ : K →+* K) (T : Transform) (dim : Nat) (A B : Arr K) :
    T.apply σ dim (addData A B) = addData (T.apply σ dim A) (T.apply σ dim B) := by
  obtain ⟨f, c, tp, sw⟩ := T
  funext t
  rcases tp with _ | p <;> rcases sw with _ | ⟨i, j⟩ <;> cases c <;>
    simp [Transform.apply, addData, transposeTail, swapAxes, add_mul, map_add]

theorem apply_smul (σ : K →+* K) (T : Transform) (dim : Nat) (A : Arr K) (c : K) (hc : σ c = c) :
    T.apply σ dim (scaleData A c) = scaleData (T.apply σ dim A) c := by
  obtain ⟨f, cj, tp, sw⟩ := T
  funext t
  rcases tp with _ | p <;> rcases sw with _ | ⟨i, j⟩ <;> cases cj <;>
    simp [Transform.apply, scaleData, transposeTail, swapAxes, map_mul, hc, mul_assoc, mul_comm c]

/-! ### rotation -/

theorem rotAxis_add (R : Nat → Nat → K) (a : Nat) (A B : Arr K) :
    rotAxis R a (addData A B) = addData (rotAxis R a A) (rotAxis R a B) := by
  funext t; simp only [rotAxis, sum3, addData]; ring

theorem rotAxis_smul (R : Nat → Nat → K) (a : Nat) (A : Arr K) (c : K) :
    rotAxis R a (scaleData A c) = scaleData (rotAxis R a A) c := by
  funext t; simp only [rotAxis, sum3, scaleData]; ring

theorem foldl_rot_add (R : Nat → Nat → K) (f : Nat → Nat) (l : List Nat) (A B : Arr K) :
    l.foldl (fun C i => rotAxis R (f i) C) (addData A B)
      = addData (l.foldl (fun C i => rotAxis R (f i) C) A) (l.foldl (fun C i => rotAxis R (f i) C) B) := by
  induction l generalizing A B with
  | nil => rfl
  | cons i l ih => simp only [List.foldl_cons]; rw [rotAxis_add]; exact ih _ _

theorem foldl_rot_smul (R : Nat → Nat → K) (f : Nat → Nat) (l : List Nat) (A : Arr K) (c : K) :
    l.foldl (fun C i => rotAxis R (f i) C) (scaleData A c)
      = scaleData (l.foldl (fun C i => rotAxis R (f i) C) A) c := by
  induction l generalizing A with
  | nil => rfl
  | cons i l ih => simp only [List.foldl_cons]; rw [rotAxis_smul]; exact ih _

theorem rotateAll_add (R : Nat → Nat → K) (dim rank : Nat) (A B : Arr K) :
    rotateAll R dim rank (addData A B) = addData (rotateAll R dim rank A) (rotateAll R dim rank B) :=
  foldl_rot_add R (fun i => dim - rank + i) _ A B

theorem rotateAll_smul (R : Nat → Nat → K) (dim rank : Nat) (A : Arr K) (c : K) :
    rotateAll R dim rank (scaleData A c) = scaleData (rotateAll R dim rank A) c :=
  foldl_rot_smul R (fun i => dim - rank + i) _ A c

theorem transformTensor_add_aux (σ : K →+* K) (g : Sym K) (dim rank : Nat) (tr ti : Transform) (A B : Arr K) :
    transformTensor σ g dim rank tr ti (addData A B)
      = addData (transformTensor σ g dim rank tr ti A) (transformTensor σ g dim rank tr ti B) := by
  unfold transformTensor
  simp only [rotateAll_add]
  cases g.TR <;> cases g.Inv <;> simp [apply_add]

theorem transformTensor_smul_aux (σ : K →+* K) (g : Sym K) (dim rank : Nat) (tr ti : Transform) (A : Arr K)
    (c : K) (hc : σ c = c) :
    transformTensor σ g dim rank tr ti (scaleData A c)
      = scaleData (transformTensor σ g dim rank tr ti A) c := by
  unfold transformTensor
  simp only [rotateAll_smul]
  cases g.TR <;> cases g.Inv <;> simp [apply_smul, hc]

/-! ### stacking k-blocks -/

theorem vstack_append (l l' : List (KBlock K)) (t : Nat → Nat) :
    vstack (l ++ l') t
      = if t 0 < nkSum l then vstack l t else vstack l' (upd t 0 (t 0 - nkSum l)) := by
  induction l generalizing t with
  | nil => simp [nkSum, upd_self]
  | cons b r ih =>
    simp only [List.cons_append, vstack, nkSum]
    by_cases h1 : t 0 < b.nk
    · have : t 0 < b.nk + nkSum r := by omega
      simp [h1, this]
    · simp only [h1, if_false]
      rw [ih]
      simp only [upd_same, upd_upd]
      by_cases h2 : t 0 - b.nk < nkSum r
      · have : t 0 < b.nk + nkSum r := by omega
        simp [h2, this]
      · have : ¬ t 0 < b.nk + nkSum r := by omega
        simp only [h2, this, if_false]
        congr 2
        omega

theorem vstack_map_scale (l : List (KBlock K)) (c : K) (t : Nat → Nat) :
    vstack (l.map (fun b => (⟨b.nk, scaleData b.arr c⟩ : KBlock K))) t = vstack l t * c := by
  induction l generalizing t with
  | nil => simp [vstack]
  | cons b r ih =>
    simp only [List.map_cons, vstack]
    split
    · rfl
    · exact ih _

omit [Field K] in
theorem nkSum_map (l : List (KBlock K)) (f : KBlock K → Arr K) :
    nkSum (l.map (fun b => (⟨b.nk, f b⟩ : KBlock K))) = nkSum l := by
  induction l with
  | nil => rfl
  | cons b r ih => simp [nkSum, ih]

omit [Field K] in
theorem nkSum_append (l l' : List (KBlock K)) : nkSum (l ++ l') = nkSum l + nkSum l' := by
  induction l with
  | nil => simp [nkSum]
  | cons b r ih => simp [nkSum, ih]; omega

/-! ### the saved dictionary -/

omit [Field K] in
theorem lookup_energies_aux (l : List (List Rat)) (k i : Nat) :
    (((l.zipIdx k).map (fun ei => (Key.energies ei.2, (Value.reals ei.1 : Value K))))).lookup (Key.energies (k + i))
      = (l[i]?).map Value.reals := by
  induction l generalizing k i with
  | nil => simp
  | cons e r ih =>
    simp only [List.zipIdx_cons, List.map_cons, List.lookup_cons]
    cases i with
    | zero => simp
    | succ i =>
      have hne : (Key.energies (k + (i + 1)) == Key.energies k) = false := by
        simp
      rw [hne]
      have := ih (k + 1) i
      rw [show k + 1 + i = k + (i + 1) by omega] at this
      simpa using this

omit [Field K] in
theorem lookup_energies (l : List (List Rat)) (i : Nat) :
    (((l.zipIdx).map (fun ei => (Key.energies ei.2, (Value.reals ei.1 : Value K))))).lookup (Key.energies i)
      = (l[i]?).map Value.reals := by
  have := lookup_energies_aux (K := K) l 0 i
  simpa using this

/-! ### the guards and the value of `EnergyResult.__add__` -/

def addGuard1 (a b : ERes K) : Bool := transformsClash a.tTR b.tTR || transformsClash a.tInv b.tInv

def addGuard2 (a b : ERes K) : Bool :=
  (List.range a.energies.length).any (fun i =>
    energiesDiffer (a.energies.getD i []) (b.energies.getD i []) || a.smoothers.getD i 0 != b.smoothers.getD i 0)

def addOk (a b : ERes K) : ERes K :=
  { a with
    data := addData a.data b.data
    saveBin := a.saveBin || b.saveBin
    saveTxt := a.saveTxt || b.saveTxt
    comment := if a.comment.length > b.comment.length then a.comment else b.comment }

theorem add_eq_ok (a b : ERes K) (h1 : addGuard1 a b = false) (h2 : addGuard2 a b = false) :
    a.add b = .ok (addOk a b) := by
  unfold addGuard1 at h1
  unfold addGuard2 at h2
  unfold ERes.add
  rw [if_neg (by rw [h1]; simp), if_neg (by rw [h2]; simp)]
  rfl

theorem add_ok_inv (a b r : ERes K) (h : a.add b = .ok r) :
    addGuard1 a b = false ∧ addGuard2 a b = false ∧ r = addOk a b := by
  unfold ERes.add at h
  split at h
  · cases h
  · rename_i h1
    split at h
    · cases h
    · rename_i h2
      cases h
      refine ⟨?_, ?_, rfl⟩
      · unfold addGuard1; simpa using h1
      · unfold addGuard2; simpa using h2

/-- what `from_npz` returns for the saved form of `r`: smoothers void, default save mode -/
def ERes.loaded (r : ERes K) : ERes K :=
  { r with
    smoothers := List.replicate r.energies.length 0
    saveBin := true
    saveTxt := true }

end WB.C16
