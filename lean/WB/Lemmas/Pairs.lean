/-
  Helper lemmas on `pairs` (consecutive pairs of a strictly increasing list of naturals).
-/
import WB.Model.C15
import Mathlib.Data.List.Basic
import Mathlib.Data.List.Sort
import Mathlib.Tactic.Linarith

namespace WB.C15

theorem pairs_mem_consecutive :
    ∀ (l : List Nat), l.Pairwise (· < ·) → ∀ a b, (a, b) ∈ pairs l →
      a ∈ l ∧ b ∈ l ∧ a < b ∧ ∀ c ∈ l, ¬ (a < c ∧ c < b)
  | [], _, a, b, h => by simp [pairs] at h
  | [x], _, a, b, h => by simp [pairs] at h
  | x :: y :: rest, hs, a, b, h => by
    rw [pairs] at h
    rcases List.mem_cons.mp h with h | h
    · obtain ⟨rfl, rfl⟩ := Prod.mk.inj h
      have hxy : a < b := (List.pairwise_cons.mp hs).1 b (by simp)
      refine ⟨by simp, by simp, hxy, ?_⟩
      intro c hc ⟨h1, h2⟩
      rcases List.mem_cons.mp hc with rfl | hc
      · exact lt_irrefl _ h1
      rcases List.mem_cons.mp hc with rfl | hc
      · exact lt_irrefl _ h2
      have := (List.pairwise_cons.mp (List.pairwise_cons.mp hs).2).1 c hc
      omega
    · have hs' := (List.pairwise_cons.mp hs).2
      obtain ⟨ha, hb, hab, hno⟩ := pairs_mem_consecutive (y :: rest) hs' a b h
      refine ⟨List.mem_cons_of_mem _ ha, List.mem_cons_of_mem _ hb, hab, ?_⟩
      intro c hc ⟨h1, h2⟩
      rcases List.mem_cons.mp hc with rfl | hc
      · have := (List.pairwise_cons.mp hs).1 a ha
        omega
      · exact hno c hc ⟨h1, h2⟩

/-- every `j` between the first and the last element of a strictly increasing list lies in a pair -/
theorem pairs_cover :
    ∀ (l : List Nat) (x : Nat), (x :: l).Pairwise (· < ·) → ∀ j, x ≤ j → j < (x :: l).getLast (by simp) →
      ∃ ab ∈ pairs (x :: l), ab.1 ≤ j ∧ j < ab.2
  | [], x, _, j, h1, h2 => by simp at h2; omega
  | y :: rest, x, hs, j, h1, h2 => by
    by_cases hj : j < y
    · exact ⟨(x, y), by simp [pairs], h1, hj⟩
    · have hs' := (List.pairwise_cons.mp hs).2
      have h2' : j < (y :: rest).getLast (by simp) := by
        simpa [List.getLast_cons] using h2
      obtain ⟨ab, hab, h3⟩ := pairs_cover rest y hs' j (by omega) h2'
      exact ⟨ab, by rw [pairs]; exact List.mem_cons_of_mem _ hab, h3⟩

/-- pairs of a strictly increasing list are disjoint half-open intervals -/
theorem pairs_disjoint :
    ∀ (l : List Nat), l.Pairwise (· < ·) → ∀ ab ∈ pairs l, ∀ cd ∈ pairs l, ∀ j,
      ab.1 ≤ j → j < ab.2 → cd.1 ≤ j → j < cd.2 → ab = cd := by
  intro l hs ab hab cd hcd j h1 h2 h3 h4
  obtain ⟨a, b⟩ := ab
  obtain ⟨c, d⟩ := cd
  obtain ⟨ha, hb, _, hno1⟩ := pairs_mem_consecutive l hs a b hab
  obtain ⟨hc, hd, _, hno2⟩ := pairs_mem_consecutive l hs c d hcd
  simp only at h1 h2 h3 h4
  have e1 : a = c := by
    by_contra hne
    rcases Nat.lt_or_gt_of_ne hne with h | h
    · exact hno1 c hc ⟨h, by omega⟩
    · exact hno2 a ha ⟨h, by omega⟩
  have e2 : b = d := by
    by_contra hne
    rcases Nat.lt_or_gt_of_ne hne with h | h
    · exact hno2 b hb ⟨by omega, h⟩
    · exact hno1 d hd ⟨by omega, h⟩
  rw [e1, e2]

end WB.C15
