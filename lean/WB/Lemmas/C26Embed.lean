/-
  C26: re-embedding into the union R-vector list preserves every Bloch sum.
-/
import WB.Model.C26
import Mathlib.Algebra.BigOperators.Group.Finset.Basic
import Mathlib.Algebra.BigOperators.Ring.Finset
import Mathlib.Algebra.Field.Basic
import Mathlib.Data.List.Nodup
import Mathlib.Data.Finset.Basic
import Mathlib.Tactic.Ring

namespace WB.C26
open WB.C18 (Vec3 Name)

variable {K : Type} [Field K]

theorem map_range_getD' {α β} (d : α) (l : List α) (g : α → β) :
    (List.range l.length).map (fun i => g (l.getD i d)) = l.map g := by
  apply List.ext_getElem
  · simp
  · intro i h1 h2
    simp at h1 h2
    simp [List.getD_eq_getElem?_getD, h2]

theorem blochSum_eq_map (χ : Vec3 → K) (Rs : List Vec3) (X : Nat → Nat → K) (c : Nat) (g : Vec3 → K)
    (h : ∀ i, i < Rs.length → χ (Rs.getD i (0, 0, 0)) * X i c = g (Rs.getD i (0, 0, 0))) :
    blochSum χ Rs X c = (Rs.map g).sum := by
  unfold blochSum
  rw [← map_range_getD' ((0, 0, 0) : Vec3) Rs g]
  congr 1
  apply List.map_congr_left
  intro i hi
  exact h i (List.mem_range.mp hi)

theorem embed_preserves_aux (χ : Vec3 → K) (Rold Rnew : List Vec3) (X : Nat → Nat → K) (c : Nat)
    (hold : Rold.Nodup) (hnew : Rnew.Nodup) (hsub : ∀ R ∈ Rold, R ∈ Rnew) :
    blochSum χ Rnew (embed Rold Rnew X) c = blochSum χ Rold X c := by
  classical
  set g : Vec3 → K := fun R => if R ∈ Rold then χ R * X (Rold.idxOf R) c else 0 with hg
  have h1 : blochSum χ Rnew (embed Rold Rnew X) c = (Rnew.map g).sum := by
    apply blochSum_eq_map
    intro i hi
    simp only [embed, hg, hi, true_and]
    split_ifs <;> simp
  have h2 : blochSum χ Rold X c = (Rold.map g).sum := by
    apply blochSum_eq_map
    intro i hi
    have hmem : Rold.getD i (0, 0, 0) ∈ Rold := by
      rw [List.getD_eq_getElem?_getD, List.getElem?_eq_getElem hi]
      exact List.getElem_mem hi
    have hidx : Rold.idxOf (Rold.getD i (0, 0, 0)) = i := by
      rw [List.getD_eq_getElem?_getD, List.getElem?_eq_getElem hi]
      simp only [Option.getD_some]
      exact hold.idxOf_getElem i hi
    simp only [hg, hmem, if_true, hidx]
  rw [h1, h2, ← List.sum_toFinset g hnew, ← List.sum_toFinset g hold]
  symm
  apply Finset.sum_subset
  · intro R hR
    rw [List.mem_toFinset] at hR ⊢
    exact hsub R hR
  · intro R _ hR
    rw [List.mem_toFinset] at hR
    simp only [hR, if_false]

/-- `lookup` in the re-embedded matrix list -/
theorem mix_zero (a b : K) : mix 0 a b = a := by unfold mix; ring
theorem mix_one (a b : K) : mix 1 a b = b := by unfold mix; ring
theorem mix_affine (t α β a b : K) : mix ((1 - t) * α + t * β) a b = (1 - t) * mix α a b + t * mix β a b := by
  unfold mix; ring

theorem red_mix (Li : Nat → Nat → K) (α : K) (w0 w1 : Nat → Nat → K) (i c : Nat) :
    red Li (fun i c => mix α (w0 i c) (w1 i c)) i c = mix α (red Li w0 i c) (red Li w1 i c) := by
  unfold red mix; ring

theorem lookup_map {A B : Type} (f : Name → A → B) (l : List (Name × A)) (k : Name) :
    (((l.map (fun p => (p.1, f p.1 p.2))).find? (fun p => p.1 == k)).map (·.2))
      = ((l.find? (fun p => p.1 == k)).map (·.2)).map (f k) := by
  induction l with
  | nil => rfl
  | cons p t ih =>
    simp only [List.map_cons, List.find?_cons]
    cases hb : (p.1 == k) with
    | true =>
      have : p.1 = k := eq_of_beq hb
      simp [this]
    | false => simpa using ih

end WB.C26
