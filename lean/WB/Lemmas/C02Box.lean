/-
  C02 — box placement, slow-FT index and the three Fourier paths.
-/
import WB.Model.C02
import WB.Lemmas.C01Basic
import Mathlib.Data.List.Nodup
import Mathlib.Algebra.Group.Basic
import Mathlib.Algebra.GroupWithZero.Basic
import Mathlib.Algebra.Field.Basic
import Mathlib.Algebra.GroupWithZero.Units.Basic

namespace WB.C02
open WB.C01

/-! ### the box points are duplicate free -/

theorem gridPoints_eq_product (mp : Mesh) :
    gridPoints mp = (List.product (List.range mp.1) (List.product (List.range mp.2.1) (List.range mp.2.2))).map
      fun t => ((t.1 : Int), (t.2.1 : Int), (t.2.2 : Int)) := by
  unfold gridPoints List.product
  simp only [List.map_flatMap, List.map_map]
  rfl

theorem nodup_gridPoints (mp : Mesh) : (gridPoints mp).Nodup := by
  rw [gridPoints_eq_product]
  apply List.Nodup.map
  · intro a b h
    obtain ⟨a1, a2, a3⟩ := a
    obtain ⟨b1, b2, b3⟩ := b
    simp only [Prod.mk.injEq] at h ⊢
    omega
  · exact List.nodup_range.product (List.nodup_range.product List.nodup_range)

section box
variable {K : Type} [Field K]

theorem placeOnBox_nil (N : Mesh) (c : Vec3) : placeOnBox N ([] : List (Vec3 × K)) c = 0 := rfl

theorem placeOnBox_cons (N : Mesh) (e : Vec3 × K) (es : List (Vec3 × K)) (c : Vec3) :
    placeOnBox N (e :: es) c = (if vmod e.1 N = c then e.2 else 0) + placeOnBox N es c := by
  unfold placeOnBox
  by_cases h : vmod e.1 N = c
  · simp [h, sumK_cons]
  · simp [h]

/-- **box placement** — for every box size (collisions included) and every box-periodic `χ`:
    `Σ_{c ∈ box} χ(c) · box(c) = Σ_R χ(R) · X(R)` -/
theorem box_sum (N : Mesh) (h1 : 0 < N.1) (h2 : 0 < N.2.1) (h3 : 0 < N.2.2)
    (χ : Vec3 → K) (hper : ∀ R, χ R = χ (vmod R N)) (entries : List (Vec3 × K)) :
    sumK ((gridPoints N).map fun c => χ c * placeOnBox N entries c) = explicitSum χ entries := by
  induction entries with
  | nil =>
    unfold explicitSum
    simp only [List.map_nil, sumK_nil]
    rw [sumK_map_congr _ _ (fun _ => (0 : K)) (fun c _ => by rw [placeOnBox_nil]; ring)]
    exact sumK_map_zero _
  | cons e es ih =>
    rw [sumK_map_congr (gridPoints N) _
      (fun c => (if vmod e.1 N = c then χ c * e.2 else 0) + χ c * placeOnBox N es c)]
    · rw [sumK_map_add, ih,
        sumK_single (gridPoints N) (nodup_gridPoints N) (vmod e.1 N) (vmod_mem_gridPoints N h1 h2 h3 e.1)
          (fun c => χ c * e.2)]
      unfold explicitSum
      simp only [List.map_cons, sumK_cons]
      rw [← hper e.1]
    · intro c _
      rw [placeOnBox_cons]
      split <;> ring

theorem explicitSum_applyExpdK (χ χd : Vec3 → K) (entries : List (Vec3 × K)) :
    explicitSum χ (applyExpdK χd entries) = explicitSum (fun R => χ R * χd R) entries := by
  unfold explicitSum applyExpdK
  rw [List.map_map]
  apply sumK_map_congr
  intro e _
  simp only [Function.comp]
  ring

/-- the contract of the FFT library used by the fft branch: `ifftn(B) * prod(N)` at box point `m` is the inverse-DFT
    sum `Σ_c χ_m(c) B(c)` -/
def IDFTContract (N : Mesh) (χ : Vec3 → Vec3 → K) (Finv : (Vec3 → K) → Vec3 → K) : Prop :=
  ∀ (B : Vec3 → K) (m : Vec3), m ∈ gridPoints N → Finv B m = sumK ((gridPoints N).map fun c => χ m c * B c)

theorem fftPath_eq (N : Mesh) (h1 : 0 < N.1) (h2 : 0 < N.2.1) (h3 : 0 < N.2.2)
    (χ : Vec3 → Vec3 → K) (hper : ∀ m R, χ m R = χ m (vmod R N))
    (Finv : (Vec3 → K) → Vec3 → K) (hF : IDFTContract N χ Finv)
    (χd : Vec3 → K) (entries : List (Vec3 × K)) (m : Vec3) (hm : m ∈ gridPoints N) :
    fftPath Finv N χd entries m = explicitSum (fun R => χ m R * χd R) entries := by
  unfold fftPath fftCore
  rw [hF _ m hm, box_sum N h1 h2 h3 (χ m) (hper m), explicitSum_applyExpdK]

end box

/-! ### slow-FT index -/
section slow
variable {K : Type} [Field K]

theorem npow_eq_pow (z : K) (n : Nat) : npow z n = z ^ n := by
  induction n with
  | zero => simp [npow]
  | succ n ih => rw [npow, ih, pow_succ]

theorem ne_zero_of_pow_eq_one (ζ : K) (N : Nat) (hN : 0 < N) (h : ζ ^ N = 1) : ζ ≠ 0 := by
  rintro rfl
  rw [zero_pow (by omega)] at h
  exact zero_ne_one h

/-- reducing the exponent modulo the order does not change a root of unity -/
theorem zpow_emod (ζ : K) (N : Nat) (hN : 0 < N) (h : ζ ^ N = 1) (e : Int) :
    ζ ^ (e % (N : Int)) = ζ ^ e := by
  have hz := ne_zero_of_pow_eq_one ζ N hN h
  conv_rhs => rw [← Int.emod_add_mul_ediv e N]
  rw [zpow_add₀ hz, zpow_mul, zpow_natCast, h, one_zpow, mul_one]

/-- **slow-FT index**: `exponent[(k·R) mod N] = ζ^{k·R}` for every integer `k`, `R` when `ζ^N = 1` -/
theorem slowPhase_eq (ζ : K) (N : Nat) (hN : 0 < N) (h : ζ ^ N = 1) (k R : Int) :
    slowPhase ζ N k R = ζ ^ (k * R) := by
  unfold slowPhase
  rw [npow_eq_pow, ← zpow_natCast, Int.toNat_of_nonneg (Int.emod_nonneg _ (by omega)), zpow_emod ζ N hN h]

/-- the code feeds the already reduced `R mod N`: same phase -/
theorem slowPhase_reduced (ζ : K) (N : Nat) (hN : 0 < N) (h : ζ ^ N = 1) (k R : Int) :
    slowPhase ζ N k (R % (N : Int)) = ζ ^ (k * R) := by
  rw [slowPhase_eq ζ N hN h, ← zpow_emod ζ N hN h (k * (R % (N : Int))), ← zpow_emod ζ N hN h (k * R)]
  congr 1
  rw [Int.mul_emod, Int.emod_emod_of_dvd _ (dvd_refl _), ← Int.mul_emod]

/-- the character of box point `m`: `Π_i ζ_i^{m_i R_i}` -/
def boxChar (ζ : K × K × K) (m R : Vec3) : K :=
  ζ.1 ^ (m.1 * R.1) * ζ.2.1 ^ (m.2.1 * R.2.1) * ζ.2.2 ^ (m.2.2 * R.2.2)

theorem boxChar_periodic (ζ : K × K × K) (N : Mesh) (h1 : 0 < N.1) (h2 : 0 < N.2.1) (h3 : 0 < N.2.2)
    (z1 : ζ.1 ^ N.1 = 1) (z2 : ζ.2.1 ^ N.2.1 = 1) (z3 : ζ.2.2 ^ N.2.2 = 1) (m R : Vec3) :
    boxChar ζ m R = boxChar ζ m (vmod R N) := by
  unfold boxChar vmod
  simp only
  rw [← slowPhase_reduced ζ.1 N.1 h1 z1, ← slowPhase_reduced ζ.2.1 N.2.1 h2 z2, ← slowPhase_reduced ζ.2.2 N.2.2 h3 z3,
    slowPhase_eq ζ.1 N.1 h1 z1, slowPhase_eq ζ.2.1 N.2.1 h2 z2, slowPhase_eq ζ.2.2 N.2.2 h3 z3]

theorem slowPath_eq (ζ : K × K × K) (N : Mesh) (h1 : 0 < N.1) (h2 : 0 < N.2.1) (h3 : 0 < N.2.2)
    (z1 : ζ.1 ^ N.1 = 1) (z2 : ζ.2.1 ^ N.2.1 = 1) (z3 : ζ.2.2 ^ N.2.2 = 1)
    (χd : Vec3 → K) (entries : List (Vec3 × K)) (m : Vec3) :
    slowPath ζ N χd entries m = explicitSum (fun R => boxChar ζ m R * χd R) entries := by
  rw [← explicitSum_applyExpdK]
  unfold slowPath slowCore explicitSum
  apply sumK_map_congr
  intro e _
  simp only [vmod]
  rw [slowPhase_reduced ζ.1 N.1 h1 z1, slowPhase_reduced ζ.2.1 N.2.1 h2 z2, slowPhase_reduced ζ.2.2 N.2.2 h3 z3]
  rfl

end slow

end WB.C02
