/-
  C07 helper lemmas, part 3: proper-rotation covariance of Cartesian tensor formulas built by index contraction.

  Tensors are curried (`CT K (r+1) = Fin 3 → CT K r`), rotations act index by index.  An expression language
  (atoms, tensor product, sum, integer multiple, contraction with δ and with ε, index transposition, k-derivative)
  gets a structurally computed grade (rank, axial?, TR-odd?) and `tensor_expr_equivariant_aux` shows that the value of
  every well-formed expression is equivariant with that grade as soon as its atoms are.
-/
import WB.Lemmas.C09Alg
import WB.Model.C07
import Mathlib.Algebra.Module.Pi
import Mathlib.Algebra.Module.LinearMap.Defs
import Mathlib.Algebra.Module.LinearMap.Basic
import Mathlib.Algebra.BigOperators.Fin
import Mathlib.Algebra.BigOperators.Pi
import Mathlib.Algebra.BigOperators.GroupWithZero.Action
import Mathlib.Algebra.Module.BigOperators
import Mathlib.Tactic.Abel
import Mathlib.Tactic.Ring
import Mathlib.Tactic.FinCases

set_option linter.unusedSectionVars false
set_option linter.unusedSimpArgs false

namespace WB.C07
open WB.C09

/-- curried Cartesian tensors of rank `r` -/
def CT (K : Type) : Nat → Type
  | 0 => K
  | r + 1 => Fin 3 → CT K r

section Alg
variable {K : Type} [CommRing K]

instance CT.instAddCommGroup : (r : Nat) → AddCommGroup (CT K r)
  | 0 => inferInstanceAs (AddCommGroup K)
  | r + 1 => @Pi.addCommGroup (Fin 3) (fun _ => CT K r) (fun _ => CT.instAddCommGroup r)

instance CT.instModule : (r : Nat) → Module K (CT K r)
  | 0 => inferInstanceAs (Module K K)
  | r + 1 => @Pi.module (Fin 3) (fun _ => CT K r) K _ _ (fun _ => CT.instModule r)

theorem CT.add_apply {r : Nat} (a b : CT K (r + 1)) (i : Fin 3) : (a + b) i = a i + b i := rfl
theorem CT.smul_apply {r : Nat} (c : K) (a : CT K (r + 1)) (i : Fin 3) : (c • a) i = c • a i := rfl
theorem CT.zero_apply {r : Nat} (i : Fin 3) : (0 : CT K (r + 1)) i = 0 := rfl
theorem CT.sum_apply {r : Nat} {ι : Type} (s : Finset ι) (f : ι → CT K (r + 1)) (i : Fin 3) :
    (∑ x ∈ s, f x) i = ∑ x ∈ s, f x i := by
  classical
  induction s using Finset.induction_on with
  | empty => simp [CT.zero_apply]
  | insert a s ha ih => rw [Finset.sum_insert ha, Finset.sum_insert ha, CT.add_apply, ih]

/-- rotation of every index by the matrix `R` -/
def rotC (R : Mat K) : (r : Nat) → CT K r →ₗ[K] CT K r
  | 0 => LinearMap.id
  | r + 1 =>
    { toFun := fun t i => ∑ j, R i j • rotC R r (t j)
      map_add' := by
        intro a b; funext i
        show ∑ j, R i j • rotC R r ((a + b) j) = (∑ j, R i j • rotC R r (a j)) + ∑ j, R i j • rotC R r (b j)
        simp only [CT.add_apply, map_add, smul_add, Finset.sum_add_distrib]
      map_smul' := by
        intro c a; funext i
        show ∑ j, R i j • rotC R r ((c • a) j) = c • ∑ j, R i j • rotC R r (a j)
        rw [Finset.smul_sum]
        apply Finset.sum_congr rfl; intro j _
        rw [CT.smul_apply, map_smul, smul_comm] }

theorem rotC_succ (R : Mat K) (r : Nat) (t : CT K (r + 1)) (i : Fin 3) :
    rotC R (r + 1) t i = ∑ j, R i j • rotC R r (t j) := rfl

theorem rotC_zero (R : Mat K) (t : CT K 0) : rotC R 0 t = t := rfl

/-- tensor product; the indices of the first factor come first -/
def tmul : (r s : Nat) → CT K r → CT K s → CT K (s + r)
  | 0, _, a, b => (show K from a) • b
  | r + 1, s, a, b => fun i => tmul r s (a i) b

theorem tmul_add_left : ∀ (r s : Nat) (a a' : CT K r) (b : CT K s),
    tmul r s (a + a') b = tmul r s a b + tmul r s a' b
  | 0, s, a, a', b => by show (show K from a + a') • b = _; exact add_smul _ _ _
  | r + 1, s, a, a', b => by
    funext i; show tmul r s ((a + a') i) b = _; rw [CT.add_apply, tmul_add_left]; rfl

theorem tmul_smul_left : ∀ (r s : Nat) (c : K) (a : CT K r) (b : CT K s),
    tmul r s (c • a) b = c • tmul r s a b
  | 0, s, c, a, b => by show (c * (show K from a)) • b = c • (show K from a) • b; exact mul_smul _ _ _
  | r + 1, s, c, a, b => by
    funext i; show tmul r s ((c • a) i) b = _; rw [CT.smul_apply, tmul_smul_left]; rfl

theorem tmul_zero_left : ∀ (r s : Nat) (b : CT K s), tmul r s (0 : CT K r) b = 0
  | 0, s, b => by show (0 : K) • b = 0; exact zero_smul _ _
  | r + 1, s, b => by funext i; show tmul r s ((0 : CT K (r + 1)) i) b = _; rw [CT.zero_apply, tmul_zero_left]; rfl

theorem tmul_sum_left (r s : Nat) (f : Fin 3 → CT K r) (b : CT K s) :
    tmul r s (∑ j, f j) b = ∑ j, tmul r s (f j) b := by
  rw [Fin.sum_univ_three, Fin.sum_univ_three, tmul_add_left, tmul_add_left]

theorem tmul_add_right : ∀ (r s : Nat) (a : CT K r) (b b' : CT K s),
    tmul r s a (b + b') = tmul r s a b + tmul r s a b'
  | 0, s, a, b, b' => by show (show K from a) • (b + b') = _; exact smul_add _ _ _
  | r + 1, s, a, b, b' => by funext i; show tmul r s (a i) (b + b') = _; rw [tmul_add_right]; rfl

theorem tmul_smul_right : ∀ (r s : Nat) (c : K) (a : CT K r) (b : CT K s),
    tmul r s a (c • b) = c • tmul r s a b
  | 0, s, c, a, b => by show (show K from a) • c • b = c • (show K from a) • b; exact smul_comm _ _ _
  | r + 1, s, c, a, b => by funext i; show tmul r s (a i) (c • b) = _; rw [tmul_smul_right]; rfl

/-- the rotation of a product is the product of the rotations -/
theorem rotC_tmul (R : Mat K) : ∀ (r s : Nat) (a : CT K r) (b : CT K s),
    rotC R (s + r) (tmul r s a b) = tmul r s (rotC R r a) (rotC R s b)
  | 0, s, a, b => by
    show rotC R s ((show K from a) • b) = (show K from a) • rotC R s b
    exact map_smul _ _ _
  | r + 1, s, a, b => by
    funext i
    show ∑ j, R i j • rotC R (s + r) (tmul r s (a j) b) = tmul r s (∑ j, R i j • rotC R r (a j)) (rotC R s b)
    rw [tmul_sum_left]
    apply Finset.sum_congr rfl
    intro j _
    rw [rotC_tmul R r s, tmul_smul_left]

/-! ### contractions and transposition of the first two indices, and lifting under the first index -/

/-- Levi-Civita symbol -/
def eps3 (a b c : Fin 3) : K :=
  if b = a + 1 ∧ c = a + 2 then 1 else if b = a + 2 ∧ c = a + 1 then -1 else 0

def contrL (r : Nat) : CT K (r + 2) →ₗ[K] CT K r where
  toFun t := ∑ m, t m m
  map_add' a b := by simp only [CT.add_apply, Finset.sum_add_distrib]
  map_smul' c a := by simp only [CT.smul_apply, RingHom.id_apply, Finset.smul_sum]

def epsL (r : Nat) : CT K (r + 2) →ₗ[K] CT K (r + 1) where
  toFun t := fun c => ∑ a, ∑ b, (eps3 c a b : K) • t a b
  map_add' a b := by
    funext c
    show ∑ x, ∑ y, (eps3 c x y : K) • (a + b) x y
      = (∑ x, ∑ y, (eps3 c x y : K) • a x y) + ∑ x, ∑ y, (eps3 c x y : K) • b x y
    simp only [CT.add_apply, smul_add, Finset.sum_add_distrib]
  map_smul' k a := by
    funext c
    show ∑ x, ∑ y, (eps3 c x y : K) • (k • a) x y = k • ∑ x, ∑ y, (eps3 c x y : K) • a x y
    simp only [Finset.smul_sum]
    apply Finset.sum_congr rfl; intro x _; apply Finset.sum_congr rfl; intro y _
    rw [CT.smul_apply, CT.smul_apply, smul_comm]

def swapL (r : Nat) : CT K (r + 2) →ₗ[K] CT K (r + 2) where
  toFun t := fun i j => t j i
  map_add' a b := rfl
  map_smul' c a := rfl

def underL {r s : Nat} (f : CT K r →ₗ[K] CT K s) : CT K (r + 1) →ₗ[K] CT K (s + 1) where
  toFun t := fun i => f (t i)
  map_add' a b := by
    funext i; show f ((a + b) i) = f (a i) + f (b i); rw [CT.add_apply, map_add]
  map_smul' c a := by
    funext i; show f ((c • a) i) = c • f (a i); rw [CT.smul_apply, map_smul]

/-- `RᵀR = 1` -/
def Orth (R : Mat K) : Prop := ∀ a b : Fin 3, ∑ m, R m a * R m b = if a = b then 1 else 0

/-- `Σ_ab ε_cab R_aa' R_bb' = d Σ_c' R_cc' ε_c'a'b'` (holds for orthogonal `R` with `d = det R`) -/
def EpsCompat (R : Mat K) (d : K) : Prop :=
  ∀ c a' b' : Fin 3, ∑ a, ∑ b, (eps3 c a b : K) * (R a a' * R b b') = d * ∑ c', R c c' * eps3 c' a' b'

theorem rotC_two (R : Mat K) (r : Nat) (t : CT K (r + 2)) (i k : Fin 3) :
    rotC R (r + 2) t i k = ∑ j, ∑ l, (R i j * R k l) • rotC R r (t j l) := by
  rw [rotC_succ, CT.sum_apply]
  apply Finset.sum_congr rfl
  intro j _
  rw [CT.smul_apply, rotC_succ, Finset.smul_sum]
  apply Finset.sum_congr rfl
  intro l _
  rw [smul_smul]

theorem rotC_contr (R : Mat K) (hR : Orth R) (r : Nat) (t : CT K (r + 2)) :
    rotC R r (contrL r t) = contrL r (rotC R (r + 2) t) := by
  show rotC R r (∑ m, t m m) = ∑ m, rotC R (r + 2) t m m
  simp only [rotC_two]
  rw [Finset.sum_comm]
  have : ∀ j : Fin 3, ∑ m : Fin 3, ∑ l, (R m j * R m l) • rotC R r (t j l) = rotC R r (t j j) := by
    intro j
    rw [Finset.sum_comm]
    have h2 : ∀ l : Fin 3, ∑ m : Fin 3, (R m j * R m l) • rotC R r (t j l)
        = (if j = l then (1 : K) else 0) • rotC R r (t j l) := by
      intro l; rw [← Finset.sum_smul, hR j l]
    simp only [h2, ite_smul, one_smul, zero_smul, Finset.sum_ite_eq, Finset.mem_univ, if_true]
  simp only [this, map_sum]

theorem rotC_swap (R : Mat K) (r : Nat) (t : CT K (r + 2)) :
    rotC R (r + 2) (swapL r t) = swapL r (rotC R (r + 2) t) := by
  funext i k
  show rotC R (r + 2) (swapL r t) i k = rotC R (r + 2) t k i
  rw [rotC_two, rotC_two, Finset.sum_comm]
  apply Finset.sum_congr rfl; intro l _
  apply Finset.sum_congr rfl; intro j _
  rw [mul_comm]; rfl

theorem regroup_left {M : Type} [AddCommGroup M] [Module K M] (e : Fin 3 → Fin 3 → K) (R : Mat K)
    (T : Fin 3 → Fin 3 → M) :
    ∑ a, ∑ b, e a b • (∑ j, ∑ l, (R a j * R b l) • T j l)
      = ∑ j, ∑ l, (∑ a, ∑ b, e a b * (R a j * R b l)) • T j l := by
  simp only [Finset.smul_sum, smul_smul, Finset.sum_smul]
  -- Σ_a Σ_b Σ_j Σ_l  →  Σ_j Σ_l Σ_a Σ_b
  have h1 : ∀ a : Fin 3, ∑ b, ∑ j, ∑ l, (e a b * (R a j * R b l)) • T j l
      = ∑ j, ∑ l, ∑ b, (e a b * (R a j * R b l)) • T j l := by
    intro a
    rw [Finset.sum_comm]
    apply Finset.sum_congr rfl; intro j _
    rw [Finset.sum_comm]
  simp only [h1]
  rw [Finset.sum_comm]
  apply Finset.sum_congr rfl; intro j _
  rw [Finset.sum_comm]

theorem regroup_right {M : Type} [AddCommGroup M] [Module K M] (e : Fin 3 → Fin 3 → Fin 3 → K) (d : K)
    (v : Fin 3 → K) (T : Fin 3 → Fin 3 → M) :
    d • ∑ c', v c' • (∑ a', ∑ b', e c' a' b' • T a' b')
      = ∑ a', ∑ b', (d * ∑ c', v c' * e c' a' b') • T a' b' := by
  simp only [Finset.smul_sum, smul_smul, Finset.mul_sum, Finset.sum_smul]
  rw [Finset.sum_comm]
  apply Finset.sum_congr rfl; intro a' _
  rw [Finset.sum_comm]

theorem rotC_eps (R : Mat K) (d : K) (hE : EpsCompat R d) (r : Nat) (t : CT K (r + 2)) :
    epsL r (rotC R (r + 2) t) = d • rotC R (r + 1) (epsL r t) := by
  funext c
  let T : Fin 3 → Fin 3 → CT K r := fun a b => rotC R r (t a b)
  have hl : epsL r (rotC R (r + 2) t) c
      = ∑ a, ∑ b, (eps3 c a b : K) • (∑ j, ∑ l, (R a j * R b l) • T j l) := by
    show ∑ a, ∑ b, (eps3 c a b : K) • rotC R (r + 2) t a b = _
    apply Finset.sum_congr rfl; intro a _
    apply Finset.sum_congr rfl; intro b _
    rw [rotC_two]
  have e1 : ∀ c' : Fin 3, rotC R r (epsL r t c') = ∑ a', ∑ b', (eps3 c' a' b' : K) • T a' b' := by
    intro c'
    have : epsL r t c' = ∑ a', ∑ b', (eps3 c' a' b' : K) • t a' b' := rfl
    rw [this, map_sum]
    apply Finset.sum_congr rfl; intro a' _
    rw [map_sum]
    apply Finset.sum_congr rfl; intro b' _
    rw [map_smul]
  have hr : (d • rotC R (r + 1) (epsL r t)) c
      = d • ∑ c', R c c' • (∑ a', ∑ b', (eps3 c' a' b' : K) • T a' b') := by
    rw [CT.smul_apply, rotC_succ]
    congr 1
    apply Finset.sum_congr rfl; intro c' _
    rw [e1]
  rw [hl, hr, regroup_left, regroup_right]
  apply Finset.sum_congr rfl; intro a' _
  apply Finset.sum_congr rfl; intro b' _
  rw [hE c a' b']

theorem rotC_under (R : Mat K) {r s : Nat} (f : CT K r →ₗ[K] CT K s) (c : K)
    (hf : ∀ x, f (rotC R r x) = c • rotC R s (f x)) (t : CT K (r + 1)) :
    underL f (rotC R (r + 1) t) = c • rotC R (s + 1) (underL f t) := by
  funext i
  show f (rotC R (r + 1) t i) = (c • rotC R (s + 1) (underL f t)) i
  rw [CT.smul_apply, rotC_succ, rotC_succ, map_sum, Finset.smul_sum]
  apply Finset.sum_congr rfl; intro j _
  rw [map_smul, hf, smul_comm]; rfl

/-! ### operations on the leading indices -/

def TOp.eval : {r s : Nat} → TOp r s → (CT K r →ₗ[K] CT K s)
  | _, _, .contr r => contrL r
  | _, _, .eps r => epsL r
  | _, _, .swap r => swapL r
  | _, _, .under f => underL f.eval
  | _, _, .comp g f => g.eval.comp f.eval

def dsign (d : K) (b : Bool) : K := if b then d else 1

theorem dsign_xor (d : K) (hd : d * d = 1) (a b : Bool) : dsign d (a != b) = dsign d a * dsign d b := by
  cases a <;> cases b <;> simp [dsign, hd]

theorem TOp.rot_eval (R : Mat K) (d : K) (hR : Orth R) (hE : EpsCompat R d) (hd : d * d = 1) :
    ∀ {r s : Nat} (op : TOp r s) (x : CT K r),
      op.eval (rotC R r x) = dsign d op.flips • rotC R s (op.eval x)
  | _, _, .contr r, x => by
    show contrL r (rotC R (r + 2) x) = dsign d false • rotC R r (contrL r x)
    rw [rotC_contr R hR]; simp [dsign]
  | _, _, .eps r, x => by
    show epsL r (rotC R (r + 2) x) = dsign d true • rotC R (r + 1) (epsL r x)
    rw [rotC_eps R d hE]; simp [dsign]
  | _, _, .swap r, x => by
    show swapL r (rotC R (r + 2) x) = dsign d false • rotC R (r + 2) (swapL r x)
    rw [rotC_swap R]; simp [dsign]
  | _, _, .under f, x => by
    show underL f.eval (rotC R _ x) = dsign d f.flips • rotC R _ (underL f.eval x)
    exact rotC_under R f.eval _ (TOp.rot_eval R d hR hE hd f) x
  | _, _, .comp g f, x => by
    show g.eval (f.eval (rotC R _ x)) = dsign d (g.flips != f.flips) • rotC R _ (g.eval (f.eval x))
    rw [TOp.rot_eval R d hR hE hd f, map_smul, TOp.rot_eval R d hR hE hd g, smul_smul, dsign_xor d hd, mul_comm]

end Alg

section Sem
variable {K : Type} [CommRing K] {X : Type} {A : Nat → Type}

/-- value of an expression as a tensor field over the k-points `X` -/
def TExpr.eval (env : ∀ r, A r → X → CT K r) (D : ∀ r, (X → CT K r) → (X → CT K (r + 1))) :
    {r : Nat} → TExpr A r → X → CT K r
  | _, .atom a => env _ a
  | _, .mul x y => fun k => tmul _ _ (x.eval env D k) (y.eval env D k)
  | _, .add x y => fun k => x.eval env D k + y.eval env D k
  | _, .zsmul n x => fun k => n • x.eval env D k
  | _, .app op x => fun k => op.eval (x.eval env D k)
  | _, .deriv x => D _ (x.eval env D)

/-- A tensor field is equivariant under one symmetry operation (k ↦ φ k, full orthogonal matrix `R` with
    determinant `d`, `τ = -1` if the operation contains time reversal) with grade (axial, TR-odd):
    `F (φ k) = d^axial τ^trOdd · R…R F(k)`. -/
def Equi (φ : X → X) (R : Mat K) (d τ : K) (r : Nat) (F : X → CT K r) (ax tr : Bool) : Prop :=
  ∀ k, F (φ k) = (dsign d ax * dsign τ tr) • rotC R r (F k)

theorem tensor_expr_equivariant_aux (φ : X → X) (R : Mat K) (d τ : K) (hR : Orth R) (hE : EpsCompat R d)
    (hd : d * d = 1) (hτ : τ * τ = 1)
    (axA trA : ∀ r, A r → Bool) (env : ∀ r, A r → X → CT K r)
    (D : ∀ r, (X → CT K r) → (X → CT K (r + 1)))
    (hD : ∀ r (F : X → CT K r) ax tr, Equi φ R d τ r F ax tr → Equi φ R d τ (r + 1) (D r F) ax (!tr))
    (hatom : ∀ r (a : A r), Equi φ R d τ r (env r a) (axA r a) (trA r a)) :
    ∀ {r : Nat} (e : TExpr A r), e.wf axA trA = true →
      Equi φ R d τ r (e.eval env D) (e.axial axA) (e.trOdd trA)
  | _, .atom a, _ => hatom _ a
  | _, .mul x y, h => by
    simp only [TExpr.wf, Bool.and_eq_true] at h
    have hx := tensor_expr_equivariant_aux φ R d τ hR hE hd hτ axA trA env D hD hatom x h.1
    have hy := tensor_expr_equivariant_aux φ R d τ hR hE hd hτ axA trA env D hD hatom y h.2
    intro k
    show tmul _ _ (x.eval env D (φ k)) (y.eval env D (φ k)) = _
    rw [hx k, hy k, tmul_smul_left, tmul_smul_right, smul_smul]
    show _ = (dsign d (x.axial axA != y.axial axA) * dsign τ (x.trOdd trA != y.trOdd trA)) •
      rotC R _ (tmul _ _ (x.eval env D k) (y.eval env D k))
    rw [rotC_tmul, dsign_xor d hd, dsign_xor τ hτ]
    congr 1; ring
  | _, .add x y, h => by
    simp only [TExpr.wf, Bool.and_eq_true, beq_iff_eq] at h
    have hx := tensor_expr_equivariant_aux φ R d τ hR hE hd hτ axA trA env D hD hatom x h.1.1.1
    have hy := tensor_expr_equivariant_aux φ R d τ hR hE hd hτ axA trA env D hD hatom y h.1.1.2
    intro k
    show x.eval env D (φ k) + y.eval env D (φ k) = _
    rw [hx k, hy k, ← h.1.2, ← h.2, ← smul_add, ← map_add]; rfl
  | _, .zsmul n x, h => by
    have hx := tensor_expr_equivariant_aux φ R d τ hR hE hd hτ axA trA env D hD hatom x h
    intro k
    show n • x.eval env D (φ k) = _
    rw [hx k, smul_comm, ← map_zsmul]; rfl
  | _, .app op x, h => by
    have hx := tensor_expr_equivariant_aux φ R d τ hR hE hd hτ axA trA env D hD hatom x h
    intro k
    show op.eval (x.eval env D (φ k)) = _
    have hop := TOp.rot_eval R d hR hE hd op (x.eval env D k)
    rw [hx k, map_smul, hop, smul_smul]
    show _ = (dsign d (op.flips != x.axial axA) * dsign τ (x.trOdd trA)) • rotC R _ (op.eval (x.eval env D k))
    rw [dsign_xor d hd]
    congr 1; ring
  | _, .deriv x, h => by
    have hx := tensor_expr_equivariant_aux φ R d τ hR hE hd hτ axA trA env D hD hatom x h
    exact hD _ _ _ _ hx

end Sem

end WB.C07
