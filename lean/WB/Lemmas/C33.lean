/-
  C33 — corner phases: multiplicativity, own-list phase arrays, assembly of the spin blocks.
  `A` is any additive group of k-vector components (ℚ, ℝ, …), `ex : A → K` an abstract exponential
  (`ex (x+y) = ex x · ex y`, `ex 0 = 1`; `x ↦ e^{2πi x}` is one), `kdot k R = k·R`.
-/
import WB.Model.C33
import WB.Lemmas.C02Box
import Mathlib.Algebra.Module.Basic
import Mathlib.Tactic.Abel
import Mathlib.Tactic.Linarith
import Mathlib.Algebra.Order.Floor.Ring
import Mathlib.Data.Rat.Floor
import Mathlib.Algebra.Order.Field.Basic

namespace WB.C33
open WB.C01 WB.C02

section
variable {K : Type} [Field K] {A : Type} [AddCommGroup A]

/-- abstract exponential -/
structure IsExp (ex : A → K) : Prop where
  add : ∀ x y, ex (x + y) = ex x * ex y
  zero : ex 0 = 1

theorem IsExp.ne_zero {ex : A → K} (h : IsExp ex) (x : A) : ex x ≠ 0 := by
  intro hx
  have := h.add x (-x)
  rw [add_neg_cancel, h.zero, hx, zero_mul] at this
  exact one_ne_zero this

theorem IsExp.neg {ex : A → K} (h : IsExp ex) (x : A) : ex (-x) = (ex x)⁻¹ := by
  have := h.add x (-x)
  rw [add_neg_cancel, h.zero] at this
  exact eq_inv_of_mul_eq_one_right this.symm

/-- `k·R` -/
def kdot (k : A × A × A) (R : Vec3) : A := R.1 • k.1 + R.2.1 • k.2.1 + R.2.2 • k.2.2

def kadd (k k' : A × A × A) : A × A × A := (k.1 + k'.1, k.2.1 + k'.2.1, k.2.2 + k'.2.2)

theorem kdot_add (k k' : A × A × A) (R : Vec3) : kdot (kadd k k') R = kdot k R + kdot k' R := by
  simp only [kdot, kadd, smul_add]
  abel

/-- the corner vector `((ix,iy,iz) − ½)∘dK` written with the half steps `h = dK/2`: `±h_i` -/
def cornerVec (h : A × A × A) (ix iy iz : Bool) : A × A × A :=
  (if ix then h.1 else -h.1, if iy then h.2.1 else -h.2.1, if iz then h.2.2 else -h.2.2)

theorem cornerFactor_eq {ex : A → K} (hex : IsExp ex) (h : A) (up : Bool) (r : Int) :
    cornerFactor (fun r => ex (r • h)) up r = ex (r • (if up then h else -h)) := by
  unfold cornerFactor
  cases up
  · simp only [Bool.false_eq_true, ↓reduceIte, smul_neg]
    rw [hex.neg]
  · simp

/-- **corner phase** — the product of the three axis factors is the character of the corner vector -/
theorem cornerPhase_eq {ex : A → K} (hex : IsExp ex) (h : A × A × A) (ix iy iz : Bool) (R : Vec3) :
    cornerPhase (fun r => ex (r • h.1)) (fun r => ex (r • h.2.1)) (fun r => ex (r • h.2.2)) ix iy iz R
      = ex (kdot (cornerVec h ix iy iz) R) := by
  unfold cornerPhase
  rw [cornerFactor_eq hex, cornerFactor_eq hex, cornerFactor_eq hex, ← hex.add, ← hex.add]
  rfl

end

section arrays
variable {K : Type} [Field K]

/-- a phase array built from the block's OWN R list multiplies every entry by the phase of its own R -/
theorem mulArr_own (φ : Vec3 → K) (entries : List (Vec3 × K)) :
    mulArr entries (phaseArr φ (entries.map (·.1))) = applyExpdK φ entries := by
  unfold mulArr phaseArr applyExpdK
  induction entries with
  | nil => rfl
  | cons e es ih => simp only [List.map_cons, List.zipWith_cons_cons, ih]

theorem applyExpdK_twice (χd φ : Vec3 → K) (entries : List (Vec3 × K)) :
    applyExpdK φ (applyExpdK χd entries) = applyExpdK (fun R => χd R * φ R) entries := by
  unfold applyExpdK
  rw [List.map_map]
  apply List.map_congr_left
  intro e _
  simp only [Function.comp, mul_assoc]

theorem cornerPath_eq_fftPath (Finv : (Vec3 → K) → Vec3 → K) (N : Mesh) (χd φ : Vec3 → K)
    (entries : List (Vec3 × K)) (m : Vec3) :
    cornerPath Finv N χd φ entries m = fftPath Finv N (fun R => χd R * φ R) entries m := by
  unfold cornerPath fftPath fftCore
  have : (applyExpdK χd entries).map (·.1) = entries.map (·.1) := by
    unfold applyExpdK; rw [List.map_map]; rfl
  rw [← this, mulArr_own, applyExpdK_twice]

/-! ### assembly of the spin blocks -/

theorem socElem_up (up down soc : Nat → Nat → K) (a b : Nat) :
    socElem up down soc (2 * a) (2 * b) = up a b + soc (2 * a) (2 * b) := by
  unfold socElem
  have h1 : 2 * a % 2 = 0 := by omega
  have h2 : 2 * b % 2 = 0 := by omega
  have h3 : 2 * a / 2 = a := by omega
  have h4 : 2 * b / 2 = b := by omega
  simp [h1, h2, h3, h4]

theorem socElem_down (up down soc : Nat → Nat → K) (a b : Nat) :
    socElem up down soc (2 * a + 1) (2 * b + 1) = down a b + soc (2 * a + 1) (2 * b + 1) := by
  unfold socElem
  have h1 : (2 * a + 1) % 2 = 1 := by omega
  have h2 : (2 * b + 1) % 2 = 1 := by omega
  have h3 : (2 * a + 1) / 2 = a := by omega
  have h4 : (2 * b + 1) / 2 = b := by omega
  simp [h1, h2, h3, h4]

theorem socElem_mixed (up down soc : Nat → Nat → K) (i j : Nat) (h : i % 2 ≠ j % 2) :
    socElem up down soc i j = soc i j := by
  unfold socElem
  have a1 : ¬ (i % 2 = 0 ∧ j % 2 = 0) := by omega
  have a2 : ¬ (i % 2 = 1 ∧ j % 2 = 1) := by omega
  simp [a1, a2]

end arrays

/-! ### k.p corners: folding into the box -/

theorem frac1_sub_int (y : Rat) (n : Int) : frac1 (y - (n : Rat)) = frac1 y := by
  have hfl : ∀ z : Rat, z.floor = ⌊z⌋ := fun _ => rfl
  unfold frac1
  rw [hfl, hfl, Int.floor_sub_intCast]
  push_cast
  ring

/-- reducing the k-point modulo 1 first (`kpoints_all = (points + dK) % 1`) does not change the folded argument -/
theorem fold1_frac1_add (x v : Rat) : fold1 (frac1 x + v) = fold1 (x + v) := by
  have hfl : ∀ z : Rat, z.floor = ⌊z⌋ := fun _ => rfl
  unfold fold1
  have : frac1 x + v + 1 / 2 = (x + v + 1 / 2) - ((⌊x⌋ : Int) : Rat) := by
    unfold frac1; rw [hfl]; ring
  rw [this, frac1_sub_int]

theorem kpCorner_eq_kpDirect {α : Type} (ham : QVec3 → α) (p dK v : QVec3) :
    kpCorner ham p dK v = kpDirect ham p dK v := by
  unfold kpCorner kpDirect foldV fracV qadd
  simp only [fold1_frac1_add]

theorem kpCornerCart_eq_kpDirectCart {α : Type} (ham : QVec3 → α) (B : Mat3) (p dK v : QVec3) :
    kpCornerCart ham B p dK v = kpDirectCart ham B p dK v := by
  unfold kpCornerCart kpDirectCart foldV fracV qadd
  simp only [fold1_frac1_add]

/-- `(k + s∘dK)·B = k·B + s·(diag(dK)·B)` : the Cartesian corner is the Cartesian k-point plus `Σ_i s_i dK_i b_i` -/
theorem redToCart_corner (B : Mat3) (k s dK : QVec3) :
    redToCart B (qadd k (hadamard s dK)) = qadd (redToCart B k) (vecMat s (dKcart dK B)) := by
  simp only [redToCart, vecMat, qadd, smulQ, hadamard, dKcart]
  refine Prod.ext ?_ (Prod.ext ?_ ?_) <;> simp only <;> ring

/-- for a SYMMETRIC edge matrix the transposed contraction gives the same vector -/
theorem matVec_eq_vecMat_of_symm (M : Mat3) (s : QVec3)
    (h12 : M.1.2.1 = M.2.1.1) (h13 : M.1.2.2 = M.2.2.1) (h23 : M.2.1.2.2 = M.2.2.2.1) :
    matVec M s = vecMat s M := by
  simp only [matVec, vecMat, dotQ, qadd, smulQ]
  refine Prod.ext ?_ (Prod.ext ?_ ?_) <;> simp only
  · rw [h12, h13]; ring
  · rw [← h12, h23]; ring
  · rw [← h13, ← h23]; ring

/-! ### phonon frequencies -/
section phonon
variable {K : Type} [Field K] [LinearOrder K] [IsStrictOrderedRing K]

/-- `sign(E)·g(|E|)` is odd when `g 0 = 0` -/
theorem phononFreq_odd (g : K → K) (h0 : g 0 = 0) (E : K) : phononFreq g (-E) = -phononFreq g E := by
  unfold phononFreq
  rcases lt_trichotomy E 0 with h | h | h
  · have : ¬ (-E < 0) := by linarith
    rw [if_neg this, if_pos h, neg_neg]
  · subst h; simp [h0]
  · have h1 : -E < 0 := by linarith
    have h2 : ¬ (E < 0) := by linarith
    rw [if_pos h1, if_neg h2, neg_neg]

/-- … and monotone when `g` is monotone and non-negative on `[0,∞)` (so the order of the bands is kept) -/
theorem phononFreq_mono (g : K → K) (hg : ∀ x y, 0 ≤ x → x ≤ y → g x ≤ g y) (hpos : ∀ x, 0 ≤ x → 0 ≤ g x)
    (E E' : K) (h : E ≤ E') : phononFreq g E ≤ phononFreq g E' := by
  unfold phononFreq
  by_cases h1 : E < 0 <;> by_cases h2 : E' < 0
  · rw [if_pos h1, if_pos h2]
    have := hg (-E') (-E) (by linarith) (by linarith)
    linarith
  · rw [if_pos h1, if_neg h2]
    have a := hpos (-E) (by linarith)
    have b := hpos E' (by linarith)
    linarith
  · exfalso; linarith
  · rw [if_neg h1, if_neg h2]
    exact hg E E' (by linarith) h

end phonon

end WB.C33
