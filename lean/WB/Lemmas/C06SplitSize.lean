/-
  C06: the split loops and their fuel; conditional termination of `split_tetra_size`.
-/
import WB.Lemmas.C06Tetra
import Mathlib.Logic.Function.Iterate
import Mathlib.Tactic.Linarith
import Mathlib.Tactic.Ring
import Mathlib.Tactic.Positivity

namespace WB.C06

/-- running `a + b` passes is running `a` passes and then `b` more (the loop stays where it has stopped) -/
theorem splitLoop_add (stop : List Tet → Bool) (sel : Tet → Bool) (edge : Tet → Nat) :
    ∀ (a b : Nat) (l : List Tet),
      splitLoop stop sel edge (a + b) l = splitLoop stop sel edge b (splitLoop stop sel edge a l)
  | 0, b, l => by simp [splitLoop]
  | a + 1, b, l => by
    rw [Nat.add_right_comm]
    by_cases h : stop l = true
    · have e1 : splitLoop stop sel edge (a + b + 1) l = l := by unfold splitLoop; rw [if_pos h]
      have e2 : splitLoop stop sel edge (a + 1) l = l := by unfold splitLoop; rw [if_pos h]
      rw [e1, e2]
      cases b with
      | zero => rfl
      | succ b => unfold splitLoop; rw [if_pos h]
    · have e1 : splitLoop stop sel edge (a + b + 1) l = splitLoop stop sel edge (a + b) (splitPass sel edge l) := by
        conv_lhs => unfold splitLoop
        rw [if_neg h]
      have e2 : splitLoop stop sel edge (a + 1) l = splitLoop stop sel edge a (splitPass sel edge l) := by
        conv_lhs => unfold splitLoop
        rw [if_neg h]
      rw [e1, e2, splitLoop_add stop sel edge a b]

theorem splitLoop_of_stop (stop : List Tet → Bool) (sel : Tet → Bool) (edge : Tet → Nat) (d : Nat) (l : List Tet)
    (h : stop l = true) : splitLoop stop sel edge d l = l := by
  cases d with
  | zero => rfl
  | succ d =>
    conv_lhs => unfold splitLoop
    rw [if_pos h]

/-- once the break test holds for the result, more fuel changes nothing: the fuel of the model is not a restriction -/
theorem splitLoop_stable (stop : List Tet → Bool) (sel : Tet → Bool) (edge : Tet → Nat) (a d : Nat) (l : List Tet)
    (h : stop (splitLoop stop sel edge a l) = true) :
    splitLoop stop sel edge (a + d) l = splitLoop stop sel edge a l := by
  rw [splitLoop_add]
  exact splitLoop_of_stop stop sel edge d _ h

/-- after `a` units of fuel the loop has either stopped or made exactly `a` passes -/
theorem splitLoop_iterate (stop : List Tet → Bool) (sel : Tet → Bool) (edge : Tet → Nat) :
    ∀ (a : Nat) (l : List Tet),
      stop (splitLoop stop sel edge a l) = true ∨ splitLoop stop sel edge a l = (splitPass sel edge)^[a] l
  | 0, l => Or.inr rfl
  | a + 1, l => by
    by_cases h : stop l = true
    · left; unfold splitLoop; rw [if_pos h]; exact h
    · have e : splitLoop stop sel edge (a + 1) l = splitLoop stop sel edge a (splitPass sel edge l) := by
        conv_lhs => unfold splitLoop
        rw [if_neg h]
      rw [e, Function.iterate_succ_apply]
      exact splitLoop_iterate stop sel edge a (splitPass sel edge l)

/-- conditional termination of `split_tetra_size`.  HYPOTHESIS `hcontr` (a geometric fact about longest-edge bisection
    that is NOT proved here): `m` passes of the splitting rule bring every squared size down to a quarter of the
    previous bound, or below the threshold.  Then lists with squared sizes `≤ 4^n · thr` are finished after `m n + 1`
    units of fuel, with every squared size `≤ thr`. -/
theorem splitSize_done (g : Gram) (thr : Rat) (hthr : 0 < thr) (m : Nat)
    (hcontr : ∀ (B : Rat) (l : List Tet), (∀ t ∈ l, t.sizeSq g ≤ B) →
      ∀ t ∈ (splitPass (fun t => decide (t.sizeSq g > thr)) (Tet.iMaxEdge g))^[m] l, t.sizeSq g ≤ max thr (B / 4)) :
    ∀ (n : Nat) (l : List Tet), (∀ t ∈ l, t.sizeSq g ≤ 4 ^ n * thr) →
      ∀ t ∈ splitSize g thr (m * n + 1) l, t.sizeSq g ≤ thr := by
  have hstop : ∀ l : List Tet, decide (maxOf (l.map (Tet.sizeSq g)) ≤ thr) = true ↔ ∀ t ∈ l, t.sizeSq g ≤ thr := by
    intro l
    rw [decide_eq_true_iff, maxOf_le_iff _ _ hthr.le]
    simp only [List.mem_map, forall_exists_index, and_imp, forall_apply_eq_imp_iff₂]
  intro n
  induction n with
  | zero =>
    intro l hl
    have : ∀ t ∈ l, t.sizeSq g ≤ thr := fun t ht => by simpa using hl t ht
    unfold splitSize
    simp only [Nat.mul_zero, Nat.zero_add]
    unfold splitLoop
    rw [if_pos ((hstop l).mpr this)]
    exact this
  | succ n ih =>
    intro l hl
    unfold splitSize at ih ⊢
    have e : m * (n + 1) + 1 = m + (m * n + 1) := by ring
    rw [e, splitLoop_add]
    apply ih
    rcases splitLoop_iterate (fun l => decide (maxOf (l.map (Tet.sizeSq g)) ≤ thr))
        (fun t => decide (t.sizeSq g > thr)) (Tet.iMaxEdge g) m l with h | h
    · intro t ht
      have := (hstop _).mp h t ht
      have h4 : (1 : Rat) ≤ 4 ^ n := one_le_pow₀ (by norm_num)
      nlinarith
    · rw [h]
      intro t ht
      have := hcontr (4 ^ (n + 1) * thr) l hl t ht
      have e4 : (4 : Rat) ^ (n + 1) * thr / 4 = 4 ^ n * thr := by rw [pow_succ]; ring
      rw [e4] at this
      have h4 : (1 : Rat) ≤ 4 ^ n := one_le_pow₀ (by norm_num)
      have : max thr (4 ^ n * thr) = 4 ^ n * thr := max_eq_right (by nlinarith)
      linarith [‹t.sizeSq g ≤ max thr (4 ^ n * thr)›]

end WB.C06
