/-
  C14 — the exact linear-tetrahedron volume fraction (truncated-power / Hermite–Genocchi form) and the proof
  that every branch of `weights_tetra` computes it (and its derivatives) on strictly increasing corners.
-/
import WB.Model.C14
import Mathlib.Tactic.FieldSimp
import Mathlib.Tactic.Ring
import Mathlib.Tactic.Linarith
import Mathlib.Tactic.Positivity
import Mathlib.Tactic.NormNum
import Mathlib.Algebra.Order.Field.Basic

namespace WB.C14
set_option linter.unusedSectionVars false
variable {K : Type} [Field K] [LinearOrder K] [IsStrictOrderedRing K]

/-- truncated power `(x - a)_+^n`, right-continuous convention (`0^0 = 1` at `x = a`) -/
def tp (n : Nat) (a x : K) : K := if a ≤ x then (x - a) ^ n else 0

/-- falling factorial `3·2·…·(3-n+1)` for `n ≤ 3` -/
def ff : Nat → K
  | 0 => 1
  | 1 => 3
  | _ => 6

/-- SPEC.  `spec 0 e₁ e₂ e₃ e₄ ε = Σ_{eᵢ ≤ ε} (ε-eᵢ)³ / Π_{j≠i}(eⱼ-eᵢ)`: the fraction of the volume of a tetrahedron
    with corner energies `e₁..e₄` (linear interpolation) lying below `ε`; `spec n` is its n-th derivative
    (term-wise derivative of the truncated powers).  Manifestly symmetric in the corners (`spec_swap…`). -/
def spec (n : Nat) (e1 e2 e3 e4 x : K) : K :=
  ff n * ( tp (3 - n) e1 x / ((e2 - e1) * (e3 - e1) * (e4 - e1))
         + tp (3 - n) e2 x / ((e1 - e2) * (e3 - e2) * (e4 - e2))
         + tp (3 - n) e3 x / ((e1 - e3) * (e2 - e3) * (e4 - e3))
         + tp (3 - n) e4 x / ((e1 - e4) * (e2 - e4) * (e3 - e4)))

theorem spec_swap12 (n : Nat) (e1 e2 e3 e4 x : K) : spec n e2 e1 e3 e4 x = spec n e1 e2 e3 e4 x := by
  unfold spec; ring
theorem spec_swap23 (n : Nat) (e1 e2 e3 e4 x : K) : spec n e1 e3 e2 e4 x = spec n e1 e2 e3 e4 x := by
  unfold spec; ring
theorem spec_swap34 (n : Nat) (e1 e2 e3 e4 x : K) : spec n e1 e2 e4 e3 x = spec n e1 e2 e3 e4 x := by
  unfold spec; ring

/-- strictly increasing corners -/
structure Incr (e1 e2 e3 e4 : K) : Prop where
  h12 : e1 < e2
  h23 : e2 < e3
  h34 : e3 < e4

/-- the five positions of a Fermi level relative to strictly increasing corners, with the truth value of every
    comparison that occurs in the code and in the spec -/
theorem interval_cases {e1 e2 e3 e4 : K} (h : Incr e1 e2 e3 e4) (x : K) :
    (e4 ≤ x ∧ e3 ≤ x ∧ e2 ≤ x ∧ e1 ≤ x ∧ ¬ x < e1) ∨
    (¬ e4 ≤ x ∧ ¬ e3 ≤ x ∧ ¬ e2 ≤ x ∧ ¬ e1 ≤ x ∧ x < e1) ∨
    (¬ e4 ≤ x ∧ e3 ≤ x ∧ e2 ≤ x ∧ e1 ≤ x ∧ ¬ x < e1) ∨
    (¬ e4 ≤ x ∧ ¬ e3 ≤ x ∧ e2 ≤ x ∧ e1 ≤ x ∧ ¬ x < e1) ∨
    (¬ e4 ≤ x ∧ ¬ e3 ≤ x ∧ ¬ e2 ≤ x ∧ e1 ≤ x ∧ ¬ x < e1) := by
  obtain ⟨h12, h23, h34⟩ := h
  by_cases c4 : e4 ≤ x
  · left
    exact ⟨c4, by linarith, by linarith, by linarith, by linarith⟩
  by_cases c1 : x < e1
  · right; left
    exact ⟨c4, by linarith, by linarith, by linarith, c1⟩
  by_cases c3 : e3 ≤ x
  · right; right; left
    exact ⟨c4, c3, by linarith, by linarith, c1⟩
  by_cases c2 : e2 ≤ x
  · right; right; right; left
    exact ⟨c4, c3, c2, by linarith, c1⟩
  · right; right; right; right
    exact ⟨c4, c3, c2, by linarith, c1⟩

section ne
variable {e1 e2 e3 e4 : K}
theorem Incr.n12 (h : Incr e1 e2 e3 e4) : e2 - e1 ≠ 0 := sub_ne_zero.mpr (ne_of_gt h.h12)
theorem Incr.n13 (h : Incr e1 e2 e3 e4) : e3 - e1 ≠ 0 := sub_ne_zero.mpr (ne_of_gt (h.h12.trans h.h23))
theorem Incr.n14 (h : Incr e1 e2 e3 e4) : e4 - e1 ≠ 0 :=
  sub_ne_zero.mpr (ne_of_gt (h.h12.trans (h.h23.trans h.h34)))
theorem Incr.n23 (h : Incr e1 e2 e3 e4) : e3 - e2 ≠ 0 := sub_ne_zero.mpr (ne_of_gt h.h23)
theorem Incr.n24 (h : Incr e1 e2 e3 e4) : e4 - e2 ≠ 0 := sub_ne_zero.mpr (ne_of_gt (h.h23.trans h.h34))
theorem Incr.n34 (h : Incr e1 e2 e3 e4) : e4 - e3 ≠ 0 := sub_ne_zero.mpr (ne_of_gt h.h34)
end ne

/-- the spec with all differences written positively (`eⱼ - eᵢ`, `i < j`): six distinct factors instead of twelve,
    which keeps `field_simp; ring` small -/
def specP (n : Nat) (e1 e2 e3 e4 x : K) : K :=
  ff n * ( tp (3 - n) e1 x / ((e2 - e1) * (e3 - e1) * (e4 - e1))
         - tp (3 - n) e2 x / ((e2 - e1) * (e3 - e2) * (e4 - e2))
         + tp (3 - n) e3 x / ((e3 - e1) * (e3 - e2) * (e4 - e3))
         - tp (3 - n) e4 x / ((e4 - e1) * (e4 - e2) * (e4 - e3)))

theorem spec_eq_specP (n : Nat) (e1 e2 e3 e4 x : K) : spec n e1 e2 e3 e4 x = specP n e1 e2 e3 e4 x := by
  unfold spec specP
  rw [show e1 - e2 = -(e2 - e1) by ring, show e1 - e3 = -(e3 - e1) by ring, show e1 - e4 = -(e4 - e1) by ring,
    show e2 - e3 = -(e3 - e2) by ring, show e2 - e4 = -(e4 - e2) by ring, show e3 - e4 = -(e4 - e3) by ring]
  simp only [neg_mul, mul_neg, neg_neg, div_neg]
  ring

/-- T1: the `accurate` branch is the spec on each of the five intervals -/
theorem occAcc_eq_spec {e1 e2 e3 e4 : K} (h : Incr e1 e2 e3 e4) (x : K) :
    occAcc e1 e2 e3 e4 x = spec 0 e1 e2 e3 e4 x := by
  have n12 := h.n12; have n13 := h.n13; have n14 := h.n14; have n23 := h.n23; have n24 := h.n24
  have n34 := h.n34
  rw [spec_eq_specP]
  unfold occAcc piece specP tp ff
  rw [show e1 - e4 = -(e4 - e1) by ring, show e2 - e4 = -(e4 - e2) by ring, show e3 - e4 = -(e4 - e3) by ring]
  rcases interval_cases h x with ⟨a, b, c, d, e⟩ | ⟨a, b, c, d, e⟩ | ⟨a, b, c, d, e⟩ | ⟨a, b, c, d, e⟩ |
    ⟨a, b, c, d, e⟩ <;>
  simp only [a, b, c, d, e, if_true, if_false, Nat.sub_zero] <;> field_simp <;> ring

/-- T2 (der = 0): the cubic coefficients `c1*, c2*, c3*` reproduce the spec -/
theorem occPoly0_eq_spec {e1 e2 e3 e4 : K} (h : Incr e1 e2 e3 e4) (x : K) :
    occPoly 0 e1 e2 e3 e4 x = spec 0 e1 e2 e3 e4 x := by
  have n12 := h.n12; have n13 := h.n13; have n14 := h.n14; have n23 := h.n23; have n24 := h.n24
  have n34 := h.n34
  rw [spec_eq_specP]
  unfold occPoly coefs piece specP tp ff two three
  rcases interval_cases h x with ⟨a, b, c, d, e⟩ | ⟨a, b, c, d, e⟩ | ⟨a, b, c, d, e⟩ | ⟨a, b, c, d, e⟩ |
    ⟨a, b, c, d, e⟩ <;>
  simp only [a, b, c, d, e, if_true, if_false, Nat.sub_zero, Nat.cast_ofNat] <;> field_simp <;> ring

/-- T3 (der = 1): the code's first-derivative weights are the term-wise derivative of the spec -/
theorem occPoly1_eq_spec {e1 e2 e3 e4 : K} (h : Incr e1 e2 e3 e4) (x : K) :
    occPoly 1 e1 e2 e3 e4 x = spec 1 e1 e2 e3 e4 x := by
  have n12 := h.n12; have n13 := h.n13; have n14 := h.n14; have n23 := h.n23; have n24 := h.n24
  have n34 := h.n34
  rw [spec_eq_specP]
  unfold occPoly coefs piece specP tp ff two three
  rcases interval_cases h x with ⟨a, b, c, d, e⟩ | ⟨a, b, c, d, e⟩ | ⟨a, b, c, d, e⟩ | ⟨a, b, c, d, e⟩ |
    ⟨a, b, c, d, e⟩ <;>
  simp only [a, b, c, d, e, if_true, if_false, Nat.reduceSub, Nat.cast_ofNat] <;> field_simp <;> ring

/-- T3 (der = 2) -/
theorem occPoly2_eq_spec {e1 e2 e3 e4 : K} (h : Incr e1 e2 e3 e4) (x : K) :
    occPoly 2 e1 e2 e3 e4 x = spec 2 e1 e2 e3 e4 x := by
  have n12 := h.n12; have n13 := h.n13; have n14 := h.n14; have n23 := h.n23; have n24 := h.n24
  have n34 := h.n34
  rw [spec_eq_specP]
  unfold occPoly coefs piece specP tp ff two three six
  rcases interval_cases h x with ⟨a, b, c, d, e⟩ | ⟨a, b, c, d, e⟩ | ⟨a, b, c, d, e⟩ | ⟨a, b, c, d, e⟩ |
    ⟨a, b, c, d, e⟩ <;>
  simp only [a, b, c, d, e, if_true, if_false, Nat.reduceSub, Nat.cast_ofNat, pow_one] <;> field_simp <;> ring

/-- T3 (der = 3) -/
theorem occPoly3_eq_spec {e1 e2 e3 e4 : K} (h : Incr e1 e2 e3 e4) (x : K) :
    occPoly 3 e1 e2 e3 e4 x = spec 3 e1 e2 e3 e4 x := by
  have n12 := h.n12; have n13 := h.n13; have n14 := h.n14; have n23 := h.n23; have n24 := h.n24
  have n34 := h.n34
  rw [spec_eq_specP]
  unfold occPoly coefs piece specP tp ff six
  rcases interval_cases h x with ⟨a, b, c, d, e⟩ | ⟨a, b, c, d, e⟩ | ⟨a, b, c, d, e⟩ | ⟨a, b, c, d, e⟩ |
    ⟨a, b, c, d, e⟩ <;>
  simp only [a, b, c, d, e, if_true, if_false, Nat.reduceSub, Nat.cast_ofNat, pow_zero] <;> field_simp <;> ring

/-- every branch of the code on sorted, strictly increasing corners is the spec -/
theorem occ_eq_spec {e1 e2 e3 e4 : K} (h : Incr e1 e2 e3 e4) (der : Nat) (hder : der ≤ 3) (acc : Bool) (x : K) :
    occ der acc e1 e2 e3 e4 x = spec der e1 e2 e3 e4 x := by
  unfold occ
  have : der = 0 ∨ der = 1 ∨ der = 2 ∨ der = 3 := by omega
  rcases this with rfl | rfl | rfl | rfl
  · cases acc
    · simpa using occPoly0_eq_spec h x
    · simpa using occAcc_eq_spec h x
  · simpa using occPoly1_eq_spec h x
  · simpa using occPoly2_eq_spec h x
  · simpa using occPoly3_eq_spec h x

end WB.C14
