/-
  Core matrix lemmas for C24 (generic facts about `U = E·W`); restated as property theorems in `Props/C24.lean`.
-/
import WB.Lemmas.C24
import Mathlib.LinearAlgebra.Matrix.SemiringInverse

namespace WB.C24.Core
open WB.C24 Matrix

section
variable {K : Type} [CommRing K]

/-- the unit vector of the `j`-th frozen band is the `j`-th column of the embedding -/
theorem frozen_unit_is_column (fz fr : List Nat) (Uf : Nat → Nat → K) (nb nw : Nat)
    (hfzlt : ∀ b ∈ fz, b < nb) (j : Nat) (hj : j < fz.length) (hjw : j < nw) :
    (Pi.single (⟨fz[j], hfzlt _ (List.getElem_mem hj)⟩ : Fin nb) (1 : K))
      = Emat fz fr Uf nb nw *ᵥ Pi.single (⟨j, hjw⟩ : Fin nw) 1 := by
  rw [mulVec_single_one]
  ext b
  simp only [Matrix.col_apply, Emat, Matrix.of_apply, embed_frozen_col _ _ _ _ _ hj, Pi.single_apply]
  by_cases hb : fz[j] = b.val
  · rw [if_pos hb, if_pos (Fin.ext hb.symm)]
  · rw [if_neg hb, if_neg (fun h => hb (by rw [h]))]

/-- T4.  Rows of bands that are neither frozen nor free (i.e. outside the outer-window selection) are zero in
    `E·W`, whatever `U_free` and `W` are. -/
theorem outer_zero (fz fr : List Nat) (Uf : Nat → Nat → K) (nb nw : Nat)
    (W : Matrix (Fin nw) (Fin nw) K) (b : Fin nb) (h1 : b.val ∉ fz) (h2 : b.val ∉ fr) (w : Fin nw) :
    (Emat fz fr Uf nb nw * W) b w = 0 := by
  rw [Matrix.mul_apply]
  apply Finset.sum_eq_zero
  intro j _
  simp only [Emat, Matrix.of_apply, embed_zero_row fz fr Uf b.val j.val h1 h2, zero_mul]

/-- the matrix the model returns (`rotate_to_projections`: `U[:] = 0; U[selected] = U_loc·ZV`) is `E·W`
    when `selected = frozen ∪ free`, and it never writes a row outside `selected` -/
theorem finalU_eq_mul (fz fr : List Nat) (Uf : Nat → Nat → K) (nb nw : Nat) (sel : Nat → Bool)
    (hsel : ∀ b, sel b = true ↔ (b ∈ fz ∨ b ∈ fr))
    (W : Matrix (Fin nw) (Fin nw) K) (b : Fin nb) (w : Fin nw) :
    finalU sel nw (embed fz fr Uf) (fun i j => if h : i < nw ∧ j < nw then W ⟨i, h.1⟩ ⟨j, h.2⟩ else 0) b.val w.val
      = (Emat fz fr Uf nb nw * W) b w := by
  unfold finalU
  by_cases hb : sel b.val = true
  · rw [if_pos hb, sumTo_eq, Matrix.mul_apply, ← Fin.sum_univ_eq_sum_range
      (fun j => embed fz fr Uf b.val j * (if h : j < nw ∧ w.val < nw then W ⟨j, h.1⟩ ⟨w.val, h.2⟩ else 0)) nw]
    apply Finset.sum_congr rfl
    intro j _
    simp only [Emat, Matrix.of_apply]
    rw [dif_pos ⟨j.isLt, w.isLt⟩]
  · rw [if_neg hb]
    have hb' : b.val ∉ fz ∧ b.val ∉ fr := not_or.1 ((hsel b.val).not.1 hb)
    exact (outer_zero fz fr Uf nb nw W b hb'.1 hb'.2 w).symm

theorem finalU_zero_outside (sel : Nat → Bool) (nw : Nat) (Emb W : Nat → Nat → K) (b w : Nat)
    (h : sel b = false) : finalU sel nw Emb W b w = 0 := by
  unfold finalU; simp [h]

end

section
variable {K : Type} [CommRing K] [StarRing K]

/-- T2a.  The embedding `E = [e_frozen | U_free]` built by the code's two masked assignments has orthonormal
    columns whenever the index lists are duplicate-free, disjoint, within range, and `U_free† U_free = 1`
    (eigh contract).  Any number of bands, frozen bands, free bands and Wannier functions. -/
theorem embedding_isometry (fz fr : List Nat) (Uf : Nat → Nat → K) (nb ng : Nat)
    (hfz : fz.Nodup) (hfr : fr.Nodup) (hdisj : ∀ b ∈ fz, b ∉ fr)
    (hfzlt : ∀ b ∈ fz, b < nb) (hfrlt : ∀ b ∈ fr, b < nb)
    (hUf : (Ufmat Uf fr.length ng)ᴴ * Ufmat Uf fr.length ng = 1) :
    (Emat fz fr Uf nb (fz.length + ng))ᴴ * Emat fz fr Uf nb (fz.length + ng) = 1 :=
  Emat_isometry fz fr Uf nb ng hfz hfr hdisj hfzlt hfrlt hUf

/-- T2.  `U = E·W` with `E†E = 1` and `W†W = 1` (SVD contract) has orthonormal columns. -/
theorem isometry {m n : Type} [Fintype m] [Fintype n] [DecidableEq n]
    (E : Matrix m n K) (W : Matrix n n K) (hE : Eᴴ * E = 1) (hW : Wᴴ * W = 1) :
    (E * W)ᴴ * (E * W) = 1 := by
  rw [conjTranspose_mul, Matrix.mul_assoc, ← Matrix.mul_assoc Eᴴ, hE, Matrix.one_mul, hW]

/-- T3 (generic form).  With `W` unitary, `U U†` acts as the identity on every vector of the column space of `E`. -/
theorem projector_fixes_range {m n : Type} [Fintype m] [Fintype n] [DecidableEq n]
    (E : Matrix m n K) (W : Matrix n n K) (hE : Eᴴ * E = 1) (hW : Wᴴ * W = 1) (c : n → K) :
    ((E * W) * (E * W)ᴴ) *ᵥ (E *ᵥ c) = E *ᵥ c := by
  have hW' : W * Wᴴ = 1 := mul_eq_one_comm.1 hW
  rw [conjTranspose_mul, Matrix.mul_assoc, ← Matrix.mul_assoc W, hW', Matrix.one_mul, mulVec_mulVec,
    Matrix.mul_assoc, hE, Matrix.mul_one]

/-- T3.  Every frozen state lies completely in the span of the returned matrix: `U U† e_f = e_f`
    for every frozen band `f` (`U = E·W`, `W` unitary, `E` the code's embedding). -/
theorem frozen_in_span (fz fr : List Nat) (Uf : Nat → Nat → K) (nb ng : Nat)
    (hfz : fz.Nodup) (hfr : fr.Nodup) (hdisj : ∀ b ∈ fz, b ∉ fr)
    (hfzlt : ∀ b ∈ fz, b < nb) (hfrlt : ∀ b ∈ fr, b < nb)
    (hUf : (Ufmat Uf fr.length ng)ᴴ * Ufmat Uf fr.length ng = 1)
    (W : Matrix (Fin (fz.length + ng)) (Fin (fz.length + ng)) K) (hW : Wᴴ * W = 1)
    (j : Nat) (hj : j < fz.length) :
    let U := Emat fz fr Uf nb (fz.length + ng) * W
    (U * Uᴴ) *ᵥ (Pi.single (⟨fz[j], hfzlt _ (List.getElem_mem hj)⟩ : Fin nb) (1 : K))
      = Pi.single (⟨fz[j], hfzlt _ (List.getElem_mem hj)⟩ : Fin nb) 1 := by
  intro U
  have hE := Emat_isometry fz fr Uf nb ng hfz hfr hdisj hfzlt hfrlt hUf
  rw [frozen_unit_is_column fz fr Uf nb (fz.length + ng) hfzlt j hj (by omega)]
  exact projector_fixes_range _ W hE hW _

/-- T2–T4 for the `localise=True` update and any further `orthogonalize`: if `Q` is the polar isometry of
    `A = E·W` (`Q†Q = 1`, `Q·H = A` with `H` invertible — the SVD contract for a matrix of full column rank) and
    `W` is invertible, then `Q` still contains every frozen state in its span and still vanishes on deselected rows. -/
theorem orthogonalised_keeps_constraints (fz fr : List Nat) (Uf : Nat → Nat → K) (nb nw : Nat)
    (hfzlt : ∀ b ∈ fz, b < nb)
    (W W' H H' : Matrix (Fin nw) (Fin nw) K) (Q : Matrix (Fin nb) (Fin nw) K)
    (hQ : Qᴴ * Q = 1) (hpolar : Q * H = Emat fz fr Uf nb nw * W) (hH : H * H' = 1) (hW : W * W' = 1) :
    (∀ j (hj : j < fz.length) (_ : j < nw),
        (Q * Qᴴ) *ᵥ (Pi.single (⟨fz[j], hfzlt _ (List.getElem_mem hj)⟩ : Fin nb) (1 : K))
          = Pi.single (⟨fz[j], hfzlt _ (List.getElem_mem hj)⟩ : Fin nb) 1) ∧
    (∀ (b : Fin nb), b.val ∉ fz → b.val ∉ fr → ∀ w, Q b w = 0) := by
  have hQE : Q = Emat fz fr Uf nb nw * (W * H') := by
    rw [← Matrix.mul_assoc, ← hpolar, Matrix.mul_assoc, hH, Matrix.mul_one]
  have hEQ : Emat fz fr Uf nb nw = Q * (H * W') := by
    rw [← Matrix.mul_assoc, hpolar, Matrix.mul_assoc, hW, Matrix.mul_one]
  constructor
  · intro j hj hjw
    rw [frozen_unit_is_column fz fr Uf nb nw hfzlt j hj hjw]
    conv_lhs => rw [hEQ]
    conv_rhs => rw [hEQ]
    rw [mulVec_mulVec, ← Matrix.mul_assoc, Matrix.mul_assoc Q Qᴴ, hQ, Matrix.mul_one]
  · intro b h1 h2 w
    rw [hQE]
    exact outer_zero fz fr Uf nb nw (W * H') b h1 h2 w

end

end WB.C24.Core
