/-
  C06: re-weighting of the stored K-list at a restart of run() (`restart=True, restart_iteration=k`):
  the factors stored for iteration k are padded with zeros up to the length of the stored K-list.
-/
import WB.Lemmas.C06Sum

namespace WB.C06

/-- `np.hstack([factors, np.zeros(len(K_list) - len(factors))])` -/
def padFactors (stored : List Rat) (n : Nat) : List Rat := stored ++ List.replicate (n - stored.length) 0

/-- `for Kp, fac in zip(K_list, factors): Kp.set_factor(fac)` (zip stops at the shorter list; the rest keeps its factor) -/
def setFactors : List KPoint → List Rat → List KPoint
  | k :: l, f :: fs => { k with factor := f } :: setFactors l fs
  | l, _ => l

/-- the restart branch of run() -/
def restartWeights (l : List KPoint) (stored : List Rat) : List KPoint := setFactors l (padFactors stored l.length)

/-- the variant without the zero padding -/
def restartWeightsNoPad (l : List KPoint) (stored : List Rat) : List KPoint := setFactors l stored

theorem setFactors_factors : ∀ (l : List KPoint) (fs : List Rat), fs.length = l.length →
    (setFactors l fs).map KPoint.factor = fs
  | [], [], _ => rfl
  | [], _ :: _, h => by simp at h
  | _ :: _, [], h => by simp at h
  | k :: l, f :: fs, h => by
    simp only [setFactors, List.map_cons]
    rw [setFactors_factors l fs (by simpa using h)]

theorem setFactors_keys : ∀ (l : List KPoint) (fs : List Rat),
    (setFactors l fs).map (fun k => (k.K, k.dK, k.level)) = l.map (fun k => (k.K, k.dK, k.level))
  | [], _ => by simp [setFactors]
  | k :: l, [] => by simp [setFactors]
  | k :: l, f :: fs => by
    simp only [setFactors, List.map_cons]
    rw [setFactors_keys l fs]

theorem padFactors_length (stored : List Rat) (n : Nat) (h : stored.length ≤ n) : (padFactors stored n).length = n := by
  unfold padFactors; simp; omega

theorem padFactors_sum (stored : List Rat) (n : Nat) : (padFactors stored n).sum = stored.sum := by
  unfold padFactors; simp

end WB.C06
