/-
  C09 helper lemmas, part 6: the named operations.  Rodrigues' matrix of a rotation about a unit vector is
  orthogonal with determinant 1, rotations about one axis compose by adding angles, and the crystallographic
  `(cos, sin)(2π/n)` have order `n`.
-/
import WB.Lemmas.C09Alg
import Mathlib.Tactic.LinearCombination
import Mathlib.Tactic.FieldSimp
import Mathlib.Tactic.Positivity
import Mathlib.Tactic.NormNum

set_option linter.unusedSectionVars false
set_option linter.unusedSimpArgs false

namespace WB.C09

section Rodrigues
variable {F : Type} [CommRing F]

/-- `|u|²` -/
def norm2 (u : Vec F) : F := u 0 * u 0 + u 1 * u 1 + u 2 * u 2

/-- the general product of two rotations about the same axis direction (no normalisation assumed) -/
theorem rodrigues_mul_gen (c1 s1 c2 s2 : F) (u : Vec F) (i j : Fin 3) :
    matMul (rodrigues c1 s1 u) (rodrigues c2 s2 u) i j
      = (c1 * c2 - s1 * s2 * norm2 u) * (if i = j then 1 else 0)
        + (c1 * (1 - c2) + (1 - c1) * c2 + (1 - c1) * (1 - c2) * norm2 u + s1 * s2) * (u i * u j)
        + (c1 * s2 + s1 * c2) * crossMat u i j := by
  fin_cases i <;> fin_cases j <;> simp [matMul, sum3, rodrigues, crossMat, norm2] <;> ring

/-- rotations about a unit vector compose by adding the angles -/
theorem rodrigues_mul (c1 s1 c2 s2 : F) (u : Vec F) (hu : norm2 u = 1) :
    matMul (rodrigues c1 s1 u) (rodrigues c2 s2 u) = rodrigues (c1 * c2 - s1 * s2) (s1 * c2 + c1 * s2) u := by
  funext i j
  rw [rodrigues_mul_gen, hu]
  simp only [rodrigues]
  ring

theorem rodrigues_one (u : Vec F) : rodrigues 1 0 u = matId := by
  funext i j
  simp [rodrigues, matId]

theorem rodrigues_transpose (c s : F) (u : Vec F) : matT (rodrigues c s u) = rodrigues c (-s) u := by
  funext i j
  fin_cases i <;> fin_cases j <;> simp [matT, rodrigues, crossMat] <;> ring

/-- `RᵀR = 1` -/
theorem rodrigues_orth (c s : F) (u : Vec F) (hu : norm2 u = 1) (hcs : c * c + s * s = 1) :
    matMul (matT (rodrigues c s u)) (rodrigues c s u) = matId := by
  rw [rodrigues_transpose, rodrigues_mul _ _ _ _ u hu]
  have h1 : c * c - -s * s = 1 := by linear_combination hcs
  have h2 : -s * c + c * s = 0 := by ring
  rw [h1, h2, rodrigues_one]

theorem rodrigues_det_gen (c s : F) (u : Vec F) :
    det3 (rodrigues c s u) = (c + (1 - c) * norm2 u) * (c * c + s * s * norm2 u) := by
  simp [det3, rodrigues, crossMat, norm2]
  ring

theorem rodrigues_det (c s : F) (u : Vec F) (hu : norm2 u = 1) (hcs : c * c + s * s = 1) :
    det3 (rodrigues c s u) = 1 := by
  rw [rodrigues_det_gen, hu]
  linear_combination hcs

/-- `n`-fold product -/
def matPow (A : Mat F) : Nat → Mat F
  | 0 => matId
  | k + 1 => matMul A (matPow A k)

/-- powers of `(cos, sin)` under angle addition -/
def angPow (c s : F) : Nat → F × F
  | 0 => (1, 0)
  | k + 1 => (c * (angPow c s k).1 - s * (angPow c s k).2, s * (angPow c s k).1 + c * (angPow c s k).2)

theorem matPow_rodrigues (c s : F) (u : Vec F) (hu : norm2 u = 1) :
    ∀ k, matPow (rodrigues c s u) k = rodrigues (angPow c s k).1 (angPow c s k).2 u
  | 0 => (rodrigues_one u).symm
  | k + 1 => by
    show matMul (rodrigues c s u) (matPow (rodrigues c s u) k) = _
    rw [matPow_rodrigues c s u hu k, rodrigues_mul _ _ _ _ u hu]
    rfl

end Rodrigues

section Field
variable {F : Type} [Field F] [LinearOrder F] [IsStrictOrderedRing F]

theorem two_ne_zero' : ((1 : F) + 1) ≠ 0 := by positivity

/-- the tabulated `(cos, sin)(2π/n)` lie on the unit circle and have order `n` (with `s3 = √3`) -/
theorem cosSin_spec (s3 : F) (h3 : s3 * s3 = 3) (n : Nat) (c s : F) (h : cosSin s3 n = some (c, s)) :
    c * c + s * s = 1 ∧ angPow c s n = (1, 0) := by
  have h2 : ((1 : F) + 1) ≠ 0 := two_ne_zero'
  unfold cosSin at h
  split at h
  · simp only [Option.some.injEq, Prod.mk.injEq] at h
    obtain ⟨rfl, rfl⟩ := h; simp [angPow]
  · simp only [Option.some.injEq, Prod.mk.injEq] at h
    obtain ⟨rfl, rfl⟩ := h; simp [angPow]
  · simp only [Option.some.injEq, Prod.mk.injEq] at h
    obtain ⟨rfl, rfl⟩ := h
    refine ⟨?_, ?_⟩
    · field_simp; linear_combination h3
    · simp only [angPow, Prod.mk.injEq]
      constructor
      · field_simp; linear_combination (3 : F) * h3
      · field_simp; linear_combination (-s3) * h3
  · simp only [Option.some.injEq, Prod.mk.injEq] at h
    obtain ⟨rfl, rfl⟩ := h; simp [angPow]
  · simp only [Option.some.injEq, Prod.mk.injEq] at h
    obtain ⟨rfl, rfl⟩ := h
    refine ⟨?_, ?_⟩
    · field_simp; linear_combination h3
    · simp only [angPow, Prod.mk.injEq]
      constructor
      · field_simp; linear_combination (-s3 ^ 4 + 12 * s3 ^ 2 + 21) * h3
      · field_simp; linear_combination (s3 * (6 * s3 ^ 2 - 2)) * h3
  · exact absurd h (by simp)

/-- the unit vectors used by name are unit vectors -/
theorem axisUnit_spec (s3 : F) (h3 : s3 * s3 = 3) (ax : List Int) (u : Vec F) (h : axisUnit s3 ax = some u) :
    norm2 u = 1 := by
  have hthree : ((1 : F) + 1 + 1) ≠ 0 := by positivity
  unfold axisUnit at h
  split at h
  · rename_i a b c
    simp only at h
    split at h
    · rename_i hsum
      simp only [Option.some.injEq] at h
      subst h
      unfold norm2
      have hf : ∀ z : Int, (if z = 0 then (0 : F) else if z > 0 then 1 else -1) *
          (if z = 0 then (0 : F) else if z > 0 then 1 else -1) = if z = 0 then 0 else 1 := by
        intro z
        by_cases h0 : z = 0
        · simp [h0]
        · by_cases hp : z > 0 <;> simp [h0, hp]
      simp only [List.getD_cons_zero, List.getD_cons_succ, Fin.val_zero, Fin.val_one, Fin.val_two, hf]
      by_cases ha : a = 0 <;> by_cases hb : b = 0 <;> by_cases hc : c = 0 <;> simp [ha, hb, hc] <;> omega
    · split at h
      · rename_i h111
        simp only [Option.some.injEq] at h
        subst h
        unfold norm2
        have sq : ∀ z : Int, z.natAbs = 1 →
            ((if z = 0 then (0 : F) else if z > 0 then 1 else -1) * (s3 / (1 + 1 + 1))) *
              ((if z = 0 then (0 : F) else if z > 0 then 1 else -1) * (s3 / (1 + 1 + 1))) = 1 / (1 + 1 + 1) := by
          intro z hz
          have : z = 1 ∨ z = -1 := by omega
          rcases this with rfl | rfl <;> (simp; field_simp; linear_combination h3)
        simp only [List.getD_cons_zero, List.getD_cons_succ, Fin.val_zero, Fin.val_one, Fin.val_two]
        rw [sq a h111.1, sq b h111.2.1, sq c h111.2.2]
        field_simp
      · exact absurd h (by simp)
  · exact absurd h (by simp)

/-- `Rotation(n, axis)` of the model is a proper operation whose stored matrix is Rodrigues' matrix: orthogonal,
    determinant 1, and of order `n` -/
theorem rotationOp_spec (s3 : F) (h3 : s3 * s3 = 3) (n : Nat) (ax : List Int) (g : PSym F)
    (h : rotationOp s3 n ax = some g) :
    g.inv = false ∧ g.tr = false ∧ g.Proper ∧ g.full = g.R ∧
      matMul (matT g.R) g.R = matId ∧ det3 g.R = 1 ∧ matPow g.R n = matId := by
  unfold rotationOp at h
  split at h
  · rename_i cs u hcs hu
    simp only [Option.some.injEq] at h
    obtain ⟨hc1, hc2⟩ := cosSin_spec s3 h3 n cs.1 cs.2 (by rw [hcs])
    have hn := axisUnit_spec s3 h3 ax u hu
    have hdet := rodrigues_det cs.1 cs.2 u hn hc1
    have hneg : ¬ (det3 (rodrigues cs.1 cs.2 u) < 0) := by rw [hdet]; exact not_lt.mpr zero_le_one
    have hR : g.R = rodrigues cs.1 cs.2 u := by
      rw [← h, PSym.mk'_R]; simp [hneg, sgn, matScale_one]
    have hinv : g.inv = false := by rw [← h, PSym.mk'_inv]; simp [hneg]
    refine ⟨hinv, by rw [← h]; rfl, ?_, ?_, ?_, ?_, ?_⟩
    · unfold PSym.Proper; rw [hR, hdet]; exact zero_lt_one
    · unfold PSym.full; rw [hinv]; simp [sgn, matScale_one]
    · rw [hR]; exact rodrigues_orth _ _ u hn hc1
    · rw [hR]; exact hdet
    · rw [hR, matPow_rodrigues _ _ u hn, hc2, rodrigues_one]
  · exact absurd h (by simp)

/-- `Mirror(axis)`: the full matrix is minus the two-fold rotation about the axis (an improper involution) -/
theorem mirrorOp_spec (s3 : F) (h3 : s3 * s3 = 3) (ax : List Int) (g : PSym F) (h : mirrorOp s3 ax = some g) :
    ∃ c2 : PSym F, rotationOp s3 2 ax = some c2 ∧ g.full = matScale c2.R (-1) ∧ g.tr = false ∧
      det3 g.full = -1 ∧ matMul g.full g.full = matId := by
  unfold mirrorOp at h
  cases hc : rotationOp s3 2 ax with
  | none => rw [hc] at h; simp at h
  | some c2 =>
    rw [hc] at h
    simp only [Option.map_some, Option.some.injEq] at h
    obtain ⟨_, _, _, _, _, hdet, hpow⟩ := rotationOp_spec s3 h3 2 ax c2 hc
    refine ⟨c2, rfl, by rw [← h, PSym.full_mk'], by rw [← h]; rfl, ?_, ?_⟩
    · rw [← h, PSym.full_mk', det3_matScale, hdet]; norm_num
    · rw [← h, PSym.full_mk', matMul_matScale]
      have : matMul c2.R c2.R = matId := by
        have := hpow
        simpa [matPow, matMul_id_right] using this
      rw [this]; norm_num [matScale_one]

def unitV (i : Fin 3) : Vec F := fun j => if j = i then 1 else 0

theorem axisUnit_x (s3 : F) : axisUnit s3 [1, 0, 0] = some (unitV 0) := by
  simp only [axisUnit]; norm_num; funext i; fin_cases i <;> simp [unitV]
theorem axisUnit_y (s3 : F) : axisUnit s3 [0, 1, 0] = some (unitV 1) := by
  simp only [axisUnit]; norm_num; funext i; fin_cases i <;> simp [unitV]
theorem axisUnit_z (s3 : F) : axisUnit s3 [0, 0, 1] = some (unitV 2) := by
  simp only [axisUnit]; norm_num; funext i; fin_cases i <;> simp [unitV]

theorem rot_full (s3 : F) (n : Nat) (ax : List Int) (c s : F) (u : Vec F) (h1 : cosSin s3 n = some (c, s))
    (h2 : axisUnit s3 ax = some u) :
    (rotationOp s3 n ax).map (fun g => (g.full, g.tr)) = some (rodrigues c s u, false) := by
  unfold rotationOp; rw [h1, h2]; simp [PSym.full_mk', PSym.mk'_tr]

theorem mir_full (s3 : F) (ax : List Int) (u : Vec F) (h2 : axisUnit s3 ax = some u)
    (hdet : ¬ det3 (rodrigues (-1 : F) 0 u) < 0) :
    (mirrorOp s3 ax).map (fun g => (g.full, g.tr)) = some (matScale (rodrigues (-1) 0 u) (-1), false) := by
  unfold mirrorOp rotationOp
  have : cosSin s3 2 = some ((-1 : F), 0) := rfl
  rw [this, h2]
  simp [PSym.full_mk', PSym.mk'_tr, PSym.mk'_R, hdet, sgn, matScale_one]

theorem norm2_unitV (i : Fin 3) : norm2 (unitV i : Vec F) = 1 := by
  fin_cases i <;> simp [norm2, unitV]

theorem c2_det_nonneg (i : Fin 3) : ¬ det3 (rodrigues (-1 : F) 0 (unitV i)) < 0 := by
  rw [rodrigues_det _ _ _ (norm2_unitV i) (by norm_num)]; exact not_lt.mpr zero_le_one

/-- `product(lst)` multiplies the full matrices from left to right and adds the TR flags -/
theorem productOps_full : ∀ (l : List (PSym F)),
    (productOps l).full = l.foldr (fun op M => matMul op.full M) matId ∧
      (productOps l).tr = l.foldr (fun op t => op.tr != t) false
  | [] => ⟨PSym.identity_full, (PSym.identity_R (F := F)).2.2⟩
  | a :: t => by
    obtain ⟨h1, h2⟩ := productOps_full t
    refine ⟨?_, ?_⟩
    · show (a.mul (productOps t)).full = matMul a.full (t.foldr (fun op M => matMul op.full M) matId)
      rw [PSym.full_mul, h1]
    · show (a.mul (productOps t)).tr = (a.tr != t.foldr (fun op t => op.tr != t) false)
      rw [PSym.tr_mul, h2]

end Field

end WB.C09
