/-
  C01 — Wigner-Seitz selection: non-empty classes, weights, congruence, regrouping of weighted sums.
-/
import WB.Lemmas.C01Basic

namespace WB.C01

/-- the candidate that realises the minimum distance passes the tolerance test (tol ≠ 0) -/
theorem withinTol_self (tol q : Rat) (htol : tol ≠ 0) : withinTol tol q q = true := by
  unfold withinTol
  simp only [Bool.or_eq_true, decide_eq_true_eq]
  left
  have := mul_self_pos.mpr htol
  linarith

/-- the list of selected replicas of a class (before pairing with `Ndegen`) -/
def selClass (ws : Nat) (G : Gram) (mp : Mesh) (tol : Rat) (s : QVec3) (c : Vec3) : List Vec3 :=
  (candidates ws mp c).filter fun R =>
    withinTol tol (dist2 G s R) (minList (dist2 G s c) ((candidates ws mp c).map (dist2 G s)))

theorem wsClass_eq (ws : Nat) (G : Gram) (mp : Mesh) (tol : Rat) (s : QVec3) (c : Vec3) :
    wsClass ws G mp tol s c = (selClass ws G mp tol s c).map fun R => (R, (selClass ws G mp tol s c).length) := rfl

theorem selClass_ne_nil (ws : Nat) (G : Gram) (mp : Mesh) (tol : Rat) (s : QVec3) (c : Vec3) (htol : tol ≠ 0) :
    selClass ws G mp tol s c ≠ [] := by
  -- some candidate realises the minimum
  have hex : ∃ R ∈ candidates ws mp c,
      dist2 G s R = minList (dist2 G s c) ((candidates ws mp c).map (dist2 G s)) := by
    rcases minList_mem (dist2 G s c) ((candidates ws mp c).map (dist2 G s)) with h | h
    · exact ⟨c, self_mem_candidates ws mp c, h.symm⟩
    · obtain ⟨R, hR, hq⟩ := List.mem_map.mp h
      exact ⟨R, hR, hq⟩
  obtain ⟨R, hR, hq⟩ := hex
  intro hnil
  have : R ∈ selClass ws G mp tol s c := by
    unfold selClass
    rw [List.mem_filter]
    refine ⟨hR, ?_⟩
    rw [hq]; exact withinTol_self tol _ htol
  rw [hnil] at this; simp at this

theorem mem_wsClass (ws : Nat) (G : Gram) (mp : Mesh) (tol : Rat) (s : QVec3) (c : Vec3) (p : Vec3 × Nat) :
    p ∈ wsClass ws G mp tol s c ↔ p.1 ∈ selClass ws G mp tol s c ∧ p.2 = (selClass ws G mp tol s c).length := by
  rw [wsClass_eq, List.mem_map]
  constructor
  · rintro ⟨R, hR, rfl⟩; exact ⟨hR, rfl⟩
  · rintro ⟨h1, h2⟩; exact ⟨p.1, h1, by rw [← h2]⟩

theorem selClass_sub_candidates (ws : Nat) (G : Gram) (mp : Mesh) (tol : Rat) (s : QVec3) (c R : Vec3)
    (h : R ∈ selClass ws G mp tol s c) : R ∈ candidates ws mp c := by
  unfold selClass at h
  exact (List.mem_filter.mp h).1

section weights
variable {K : Type} [Field K]

theorem weightOf_cons (p : Vec3 × Nat) (sel : List (Vec3 × Nat)) (R : Vec3) :
    (weightOf (p :: sel) R : K) = (if p.1 = R then (((p.2 : Nat) : K))⁻¹ else 0) + weightOf sel R := by
  unfold weightOf
  by_cases h : p.1 = R
  · simp [h, sumK_cons]
  · simp [h]

theorem weightOf_nil (R : Vec3) : (weightOf [] R : K) = 0 := rfl

variable [CharZero K]

/-- weights of one class sum to one -/
theorem wsClass_weight_sum (ws : Nat) (G : Gram) (mp : Mesh) (tol : Rat) (s : QVec3) (c : Vec3) (htol : tol ≠ 0) :
    sumK ((wsClass ws G mp tol s c).map fun p => (((p.2 : Nat) : K))⁻¹) = 1 := by
  rw [wsClass_eq, List.map_map]
  have hne := selClass_ne_nil ws G mp tol s c htol
  have hlen : ((selClass ws G mp tol s c).length : K) ≠ 0 := by
    have : (selClass ws G mp tol s c).length ≠ 0 := by
      intro h; exact hne (List.length_eq_zero_iff.mp h)
    exact_mod_cast this
  have : ((fun p : Vec3 × Nat => (((p.2 : Nat) : K))⁻¹) ∘ fun R => (R, (selClass ws G mp tol s c).length))
      = fun _ => (((selClass ws G mp tol s c).length : Nat) : K)⁻¹ := rfl
  rw [this, sumK_map_const]
  exact mul_inv_cancel₀ hlen

/-- regrouping: a sum over the (duplicate-free) R list weighted with the accumulated weights equals the sum
    over the selection itself -/
theorem sum_weightOf (iRvec : List Vec3) (hnd : iRvec.Nodup) (sel : List (Vec3 × Nat))
    (hsub : ∀ p ∈ sel, p.1 ∈ iRvec) (f : Vec3 → K) :
    sumK (iRvec.map fun R => f R * weightOf sel R) = sumK (sel.map fun p => f p.1 * (((p.2 : Nat) : K))⁻¹) := by
  induction sel with
  | nil =>
    simp only [List.map_nil, sumK_nil]
    rw [sumK_map_congr iRvec _ (fun _ => (0 : K)) (fun R _ => by rw [weightOf_nil]; ring)]
    exact sumK_map_zero _
  | cons p sel ih =>
    have hp : p.1 ∈ iRvec := hsub p (by simp)
    rw [sumK_map_congr iRvec _
      (fun R => (if p.1 = R then f R * (((p.2 : Nat) : K))⁻¹ else 0) + f R * weightOf sel R)]
    · rw [sumK_map_add, sumK_single iRvec hnd p.1 hp (fun R => f R * (((p.2 : Nat) : K))⁻¹),
        ih (fun q hq => hsub q (by simp [hq]))]
      simp only [List.map_cons, sumK_cons]
    · intro R _
      rw [weightOf_cons]
      split <;> ring

/-- a function that is constant on every class sums, weighted over the whole selection, to its plain sum over the
    grid points -/
theorem sum_wsSelect (ws : Nat) (G : Gram) (mp : Mesh) (tol : Rat) (s : QVec3) (htol : tol ≠ 0)
    (f : Vec3 → K) (hf : ∀ R, f R = f (vmod R mp)) :
    sumK ((wsSelect ws G mp tol s).map fun p => f p.1 * (((p.2 : Nat) : K))⁻¹)
      = sumK ((gridPoints mp).map f) := by
  unfold wsSelect
  rw [sumK_flatMap]
  apply sumK_map_congr
  intro c hc
  rw [sumK_map_congr (wsClass ws G mp tol s c) _ (fun p => f c * (((p.2 : Nat) : K))⁻¹)]
  · rw [sumK_map_mul_left, wsClass_weight_sum ws G mp tol s c htol]; ring
  · intro p hp
    have hcand := selClass_sub_candidates ws G mp tol s c p.1 ((mem_wsClass ..).1 hp).1
    rw [hf p.1, vmod_candidate ws mp c p.1 hc hcand]

end weights

/-! ### shift classes -/

theorem mem_allPairs (n a b : Nat) : (a, b) ∈ allPairs n ↔ a < n ∧ b < n := by
  unfold allPairs
  simp only [List.mem_flatMap, List.mem_map, List.mem_range, Prod.mk.injEq]
  constructor
  · rintro ⟨a', ha, b', hb, rfl, rfl⟩; exact ⟨ha, hb⟩
  · rintro ⟨ha, hb⟩; exact ⟨a, ha, b, hb, rfl, rfl⟩

theorem shiftOf_mem_uniqueShifts (nd : Nat) (cs : List QVec3) (a b : Nat) (ha : a < cs.length) (hb : b < cs.length) :
    shiftOf nd cs a b ∈ uniqueShifts nd cs := by
  unfold uniqueShifts
  rw [List.mem_mergeSort, mem_dedup, List.mem_map]
  exact ⟨(a, b), (mem_allPairs _ a b).2 ⟨ha, hb⟩, rfl⟩

/-- looking the selection up through `shift_index` gives the selection of the pair's own (rounded) shift -/
theorem selOf_eq (ws : Nat) (G : Gram) (mp : Mesh) (tol : Rat) (cs : List QVec3) (a b : Nat)
    (ha : a < cs.length) (hb : b < cs.length) :
    selOf ws G mp tol cs a b = wsSelect ws G mp (absRat tol) (shiftOf (numDigits tol) cs a b) := by
  unfold selOf selFrom selList shiftIndex
  have hmem := shiftOf_mem_uniqueShifts (numDigits tol) cs a b ha hb
  have hlt := List.idxOf_lt_length_of_mem hmem
  rw [List.getD_eq_getElem?_getD, List.getElem?_map, List.getElem?_eq_getElem hlt]
  simp only [Option.map_some, Option.getD_some]
  rw [List.getElem_idxOf]

theorem selOf_mem_selList (ws : Nat) (G : Gram) (mp : Mesh) (tol : Rat) (cs : List QVec3) (a b : Nat)
    (ha : a < cs.length) (hb : b < cs.length) :
    selOf ws G mp tol cs a b ∈ selList ws G mp tol cs := by
  rw [selOf_eq ws G mp tol cs a b ha hb]
  unfold selList
  exact List.mem_map.mpr ⟨_, shiftOf_mem_uniqueShifts (numDigits tol) cs a b ha hb, rfl⟩

theorem selOf_sub_iRvecOf (ws : Nat) (G : Gram) (mp : Mesh) (tol : Rat) (cs : List QVec3) (a b : Nat)
    (ha : a < cs.length) (hb : b < cs.length) :
    ∀ p ∈ selOf ws G mp tol cs a b, p.1 ∈ iRvecOf ws G mp tol cs := by
  intro p hp
  unfold iRvecOf iRvecFrom
  rw [mem_dedup, List.mem_flatMap]
  exact ⟨_, selOf_mem_selList ws G mp tol cs a b ha hb, List.mem_map.mpr ⟨p, hp, rfl⟩⟩

theorem nodup_iRvecOf (ws : Nat) (G : Gram) (mp : Mesh) (tol : Rat) (cs : List QVec3) :
    (iRvecOf ws G mp tol cs).Nodup := nodup_dedup _

theorem absRat_ne_zero (t : Rat) (h : t ≠ 0) : absRat t ≠ 0 := by
  unfold absRat
  split
  · intro h'; apply h; linarith
  · exact h

end WB.C01
