/-
  C18: what the readers see in the files produced by the writers (`_hr.dat`, WCC file, `_tb.dat`).
-/
import WB.Lemmas.C18Flat
import Mathlib.Algebra.Field.Basic
import Mathlib.Tactic.FieldSimp
import Mathlib.Tactic.IntervalCases

namespace WB.C18

variable {V : Type}

theorem idx_lt_sq (nw a b : Nat) (ha : a < nw) (hb : b < nw) : a * nw + b < nw * nw := by
  have : (a + 1) * nw ≤ nw * nw := Nat.mul_le_mul_right nw (by omega)
  have e : (a + 1) * nw = a * nw + nw := by ring
  omega

/-! ### `_hr.dat` -/

section hr
variable [Mul V] [Div V] [IntCast V]

theorem readHr_writeHrNd (ρ : V → V) (nd : List Int) (s : Sys V) (hnd : nd.length = s.Rs.length) :
    (readHr (writeHrNd ρ nd s)).nw = s.nw ∧
    (0 < s.nw → (readHr (writeHrNd ρ nd s)).Rs = s.Rs) ∧
    ∀ ir m n, ir < s.Rs.length → m < s.nw → n < s.nw →
      (readHr (writeHrNd ρ nd s)).ham ir m n =
        cdivInt (ρ (cmulInt (s.ham ir m n) (nd.getD ir 1)).1, ρ (cmulInt (s.ham ir m n) (nd.getD ir 1)).2)
          (nd.getD ir 0) := by
  set body : File V := (List.range s.Rs.length).flatMap (fun ir =>
      nestNM s.nw (fun m n => hrLine ρ (s.Rs.getD ir (0, 0, 0)) m n (cmulInt (s.ham ir m n) (nd.getD ir 1))))
    with hbody
  have hfile : writeHrNd ρ nd s = [] :: [Tok.int (s.nw : Int)] :: [Tok.int (s.Rs.length : Int)] ::
      (chunks15 nd ++ body) := by
    simp [writeHrNd, hbody]
  have hnw : (tokInt (lineAt (writeHrNd ρ nd s) 1) 0).toNat = s.nw := by
    rw [hfile]; simp [lineAt, tokInt, Tok.toInt]
  have hnR : (tokInt (lineAt (writeHrNd ρ nd s) 2) 0).toNat = s.Rs.length := by
    rw [hfile]; simp [lineAt, tokInt, Tok.toInt]
  have hdrop : (writeHrNd ρ nd s).drop 3 = chunks15 nd ++ body := by rw [hfile]; rfl
  have hread : readInts s.Rs.length ((writeHrNd ρ nd s).drop 3) [] = (nd, body) := by
    rw [hdrop, ← hnd]; exact readInts_chunks15 nd body
  have hline : ∀ ir a b, ir < s.Rs.length → a < s.nw → b < s.nw →
      lineAt body (ir * (s.nw * s.nw) + (a * s.nw + b))
        = hrLine ρ (s.Rs.getD ir (0, 0, 0)) b a (cmulInt (s.ham ir b a) (nd.getD ir 1)) := by
    intro ir a b hir ha hb
    unfold lineAt
    rw [hbody, getD_flatMap_range_const _ (s.nw * s.nw) (fun i => length_nestNM _ _) [] _ ir _ hir
      (idx_lt_sq _ _ _ ha hb)]
    exact getD_nestNM _ _ b a hb ha
  refine ⟨?_, ?_, ?_⟩
  · simp only [readHr, hnw]
  · intro hpos
    simp only [readHr, hnw, hnR, hread]
    have : ∀ ir, ir < s.Rs.length →
        lineAt body (ir * (s.nw * s.nw)) = hrLine ρ (s.Rs.getD ir (0, 0, 0)) 0 0
          (cmulInt (s.ham ir 0 0) (nd.getD ir 1)) := by
      intro ir hir
      have := hline ir 0 0 hir hpos hpos
      simpa using this
    conv_rhs => rw [← map_range_getD ((0, 0, 0) : Vec3) s.Rs]
    apply List.map_congr_left
    intro ir hir
    rw [this ir (List.mem_range.mp hir)]
    simp [hrLine, tokInt, Tok.toInt]
  · intro ir m n hir hm hn
    simp only [readHr, hnw, hnR, hread]
    rw [hline ir n m hir hn hm]
    simp [hrLine, tokVal, Tok.toVal]

end hr

/-! ### WCC file -/

section wcc
variable [IntCast V]

theorem toVal_val_map (κ : V → V) (r : List V) :
    (r.map (fun x => Tok.val (κ x))).map Tok.toVal = r.map κ := by
  induction r with
  | nil => rfl
  | cons a t ih => simp [Tok.toVal]

theorem readWccWith_write (κ : V → V) (rows : List (List V)) (split : Nat → Nat)
    (hs : split rows.length = (rows.length + 1) / 2) :
    readWccWith split (writeWcc κ rows) = some (rows.map (fun r => r.map κ)) := by
  set rk := rows.map (fun r => r.map κ) with hrk
  have hdata : (writeWcc κ rows).map (fun l => l.map Tok.toVal) = evens rk ++ odds rk := by
    have he : ∀ l : List (List V), evens (l.map (fun r => r.map κ)) = (evens l).map (fun r => r.map κ) := by
      intro l
      induction l using evens.induct with
      | case1 => rfl
      | case2 a => rfl
      | case3 a b t ih => simp [evens, ih]
    have ho : ∀ l : List (List V), odds (l.map (fun r => r.map κ)) = (odds l).map (fun r => r.map κ) := by
      intro l
      induction l using odds.induct with
      | case1 => rfl
      | case2 a => rfl
      | case3 a b t ih => simp [odds, ih]
    rw [hrk, he, ho, writeWcc, ← List.map_append, List.map_map]
    apply List.map_congr_left
    intro r _
    exact toVal_val_map κ r
  have hlen : (evens rk ++ odds rk).length = rows.length := by
    rw [List.length_append, length_evens, length_odds, hrk, List.length_map]; omega
  have hrkl : rk.length = rows.length := by rw [hrk, List.length_map]
  unfold readWccWith
  simp only [hdata, hlen, hs]
  rw [if_pos (by omega)]
  congr 1
  conv_rhs => rw [← map_range_getD ([] : List V) rk, hrkl]
  apply List.map_congr_left
  intro i hi
  have hi' := List.mem_range.mp hi
  have hel : (evens rk).length = (rows.length + 1) / 2 := by rw [length_evens, hrkl]
  by_cases hev : i % 2 = 0
  · rw [if_pos hev, List.getD_append _ _ _ _ (by rw [hel]; omega), getD_evens]
    congr 1; omega
  · rw [if_neg hev, List.getD_append_right _ _ _ _ (by rw [hel]; omega), hel, getD_odds]
    congr 1; omega

end wcc

end WB.C18

namespace WB.C18

/-! ### `_tb.dat` -/

section tb
variable {K : Type} [Field K]

theorem length_tbBlock (nw : Nat) (R : Vec3) (f : Nat → Nat → Line K) :
    (tbBlock nw R f).length = nw * nw + 2 := by
  simp [tbBlock, length_nestNM]

theorem getD_tbBlock_one (nw : Nat) (R : Vec3) (f : Nat → Nat → Line K) :
    (tbBlock nw R f).getD 1 [] = rLine R := by
  simp [tbBlock]

theorem getD_tbBlock_body (nw : Nat) (R : Vec3) (f : Nat → Nat → Line K) (a b : Nat) (ha : a < nw) (hb : b < nw) :
    (tbBlock nw R f).getD (2 + (a * nw + b)) [] = f b a := by
  have : 2 + (a * nw + b) = (a * nw + b) + 1 + 1 := by ring
  rw [tbBlock, this, List.getD_cons_succ, List.getD_cons_succ]
  exact getD_nestNM nw f b a hb ha

theorem getD_ones (n i : Nat) (d : Int) (h : i < n) : (List.replicate n (1 : Int)).getD i d = 1 := by
  simp [List.getD_eq_getElem?_getD, List.getElem?_replicate, h]

theorem cdiv_cmul_one (ρ : K → K) (h : K × K) :
    cdivInt (ρ (cmulInt h 1).1, ρ (cmulInt h 1).2) 1 = (ρ h.1, ρ h.2) := by
  simp [cdivInt, cmulInt]

/-- value written for AA: `ρ` of the (possibly shifted) matrix element -/
def aaW (ρ : K → K) (s : Sys K) (useII : Bool) (ir m n c : Nat) : K × K :=
  (ρ (aaShift s useII ir m n c).1, ρ (aaShift s useII ir m n c).2)

theorem readTb_writeTb_basic (ρ : K → K) (s : Sys K) (hasAA useII needAA convII : Bool)
    (given : Option (Nat → Nat → K)) :
    let r := readTb (writeTb ρ s hasAA useII) needAA convII given
    r.nw = s.nw ∧ r.Rs = s.Rs ∧ (∀ i j, i < 3 → j < 3 → r.lat i j = s.lat i j) ∧
    (∀ ir m n, ir < s.Rs.length → m < s.nw → n < s.nw → r.ham ir m n = (ρ (s.ham ir m n).1, ρ (s.ham ir m n).2)) := by
  intro r
  set nR := s.Rs.length with hnRdef
  set hamB : File K := (List.range nR).flatMap (fun ir =>
      tbBlock s.nw (s.Rs.getD ir (0, 0, 0)) (fun m n => tbHamLine ρ m n (cmulInt (s.ham ir m n) 1))) with hhamB
  set aaB : File K := (if hasAA then
      (List.range nR).flatMap (fun ir =>
        tbBlock s.nw (s.Rs.getD ir (0, 0, 0))
          (fun m n => tbAALine ρ m n (fun c => cmulInt (aaShift s useII ir m n c) 1)))
     else []) with haaB
  have hfile : writeTb ρ s hasAA useII = [] ::
      [Tok.val (s.lat 0 0), Tok.val (s.lat 0 1), Tok.val (s.lat 0 2)] ::
      [Tok.val (s.lat 1 0), Tok.val (s.lat 1 1), Tok.val (s.lat 1 2)] ::
      [Tok.val (s.lat 2 0), Tok.val (s.lat 2 1), Tok.val (s.lat 2 2)] ::
      [Tok.int (s.nw : Int)] :: [Tok.int (nR : Int)] ::
      (chunks15 (List.replicate nR 1) ++ (hamB ++ aaB)) := by
    simp [writeTb, hhamB, haaB, hnRdef]
  have hnw : (tokInt (lineAt (writeTb ρ s hasAA useII) 4) 0).toNat = s.nw := by
    rw [hfile]; simp [lineAt, tokInt, Tok.toInt]
  have hnR : (tokInt (lineAt (writeTb ρ s hasAA useII) 5) 0).toNat = nR := by
    rw [hfile]; simp [lineAt, tokInt, Tok.toInt]
  have hread : readInts nR ((writeTb ρ s hasAA useII).drop 6) [] = (List.replicate nR 1, hamB ++ aaB) := by
    rw [hfile]
    have := readInts_chunks15 (V := K) (List.replicate nR 1) (hamB ++ aaB)
    simpa using this
  have hblk : ∀ i, (tbBlock s.nw (s.Rs.getD i (0, 0, 0))
      (fun m n => tbHamLine ρ m n (cmulInt (s.ham i m n) 1))).length = s.nw * s.nw + 2 :=
    fun i => length_tbBlock _ _ _
  refine ⟨?_, ?_, ?_, ?_⟩
  · simp only [r, readTb, hnw]
  · simp only [r, readTb, hnw, hnR, hread]
    conv_rhs => rw [← map_range_getD ((0, 0, 0) : Vec3) s.Rs]
    apply List.map_congr_left
    intro ir hir
    have hir' := List.mem_range.mp hir
    unfold lineAt
    rw [hhamB, getD_flatMap_range_const_append _ (s.nw * s.nw + 2) hblk [] aaB nR ir 1 hir' (by omega),
      getD_tbBlock_one]
    simp [rLine, tokInt, Tok.toInt]
  · intro i j hi hj
    simp only [r, readTb]
    rw [hfile]
    interval_cases i <;> interval_cases j <;> simp [lineAt, tokVal, Tok.toVal]
  · intro ir m n hir hm hn
    simp only [r, readTb, hnw, hnR, hread]
    unfold lineAt
    rw [hhamB, getD_flatMap_range_const_append _ (s.nw * s.nw + 2) hblk [] aaB nR ir _ hir
      (by have := idx_lt_sq _ _ _ hn hm; omega), getD_tbBlock_body _ _ _ n m hn hm, getD_ones nR ir 0 hir]
    simp only [tbHamLine, tokVal, Tok.toVal, List.getD_cons_succ, List.getD_cons_zero]
    exact cdiv_cmul_one ρ (s.ham ir m n)

theorem readTb_writeTb_aa (ρ : K → K) (s : Sys K) (useII needAA convII : Bool)
    (given : Option (Nat → Nat → K)) (h0 : iR0 s.Rs < s.Rs.length) :
    let r := readTb (writeTb ρ s true useII) needAA convII given
    (∀ i c, i < s.nw → c < 3 →
      (∀ w, given = some w → r.wcc i c = w i c) ∧
      (given = none → r.wcc i c = (aaW ρ s useII (iR0 s.Rs) i i c).1)) ∧
    (∀ ir m n c, ir < s.Rs.length → m < s.nw → n < s.nw → c < 3 →
      r.aa ir m n c =
        if needAA && convII && ir == iR0 s.Rs && m == n then
          ((aaW ρ s useII ir m n c).1 - r.wcc m c, (aaW ρ s useII ir m n c).2)
        else aaW ρ s useII ir m n c) := by
  intro r
  obtain ⟨hnw', hRs', -, -⟩ := readTb_writeTb_basic ρ s true useII needAA convII given
  set nR := s.Rs.length with hnRdef
  set hamB : File K := (List.range nR).flatMap (fun ir =>
      tbBlock s.nw (s.Rs.getD ir (0, 0, 0)) (fun m n => tbHamLine ρ m n (cmulInt (s.ham ir m n) 1))) with hhamB
  set aaB : File K :=
      (List.range nR).flatMap (fun ir =>
        tbBlock s.nw (s.Rs.getD ir (0, 0, 0))
          (fun m n => tbAALine ρ m n (fun c => cmulInt (aaShift s useII ir m n c) 1))) with haaB
  have hfile : writeTb ρ s true useII = [] ::
      [Tok.val (s.lat 0 0), Tok.val (s.lat 0 1), Tok.val (s.lat 0 2)] ::
      [Tok.val (s.lat 1 0), Tok.val (s.lat 1 1), Tok.val (s.lat 1 2)] ::
      [Tok.val (s.lat 2 0), Tok.val (s.lat 2 1), Tok.val (s.lat 2 2)] ::
      [Tok.int (s.nw : Int)] :: [Tok.int (nR : Int)] ::
      (chunks15 (List.replicate nR 1) ++ (hamB ++ aaB)) := by
    simp [writeTb, hhamB, haaB, hnRdef]
  have hnw : (tokInt (lineAt (writeTb ρ s true useII) 4) 0).toNat = s.nw := by
    rw [hfile]; simp [lineAt, tokInt, Tok.toInt]
  have hnR : (tokInt (lineAt (writeTb ρ s true useII) 5) 0).toNat = nR := by
    rw [hfile]; simp [lineAt, tokInt, Tok.toInt]
  have hread : readInts nR ((writeTb ρ s true useII).drop 6) [] = (List.replicate nR 1, hamB ++ aaB) := by
    rw [hfile]
    have := readInts_chunks15 (V := K) (List.replicate nR 1) (hamB ++ aaB)
    simpa using this
  have hlenH : hamB.length = nR * (s.nw * s.nw + 2) :=
    length_flatMap_range_const _ _ (fun i => length_tbBlock _ _ _) nR
  have hdrop : (hamB ++ aaB).drop (nR * (s.nw * s.nw + 2)) = aaB := by
    rw [← hlenH]; exact List.drop_left
  -- the raw AA value read from the file
  have hraw : ∀ ir m n c, ir < nR → m < s.nw → n < s.nw → c < 3 →
      cdivInt (tokVal (lineAt aaB (ir * (s.nw * s.nw + 2) + (2 + (n * s.nw + m)))) (2 + 2 * c),
               tokVal (lineAt aaB (ir * (s.nw * s.nw + 2) + (2 + (n * s.nw + m)))) (2 + 2 * c + 1))
        ((List.replicate nR (1 : Int)).getD ir 0) = aaW ρ s useII ir m n c := by
    intro ir m n c hir hm hn hc
    unfold lineAt
    rw [haaB, getD_flatMap_range_const _ (s.nw * s.nw + 2) (fun i => length_tbBlock _ _ _) [] nR ir _ hir
      (by have := idx_lt_sq _ _ _ hn hm; omega), getD_tbBlock_body _ _ _ n m hn hm, getD_ones nR ir 0 hir]
    interval_cases c <;>
      simp [tbAALine, tokVal, Tok.toVal, aaW, cdivInt, cmulInt]
  have hRs'' : r.Rs = s.Rs := hRs'
  have hwcc : ∀ i c, i < s.nw → c < 3 →
      (∀ w, given = some w → r.wcc i c = w i c) ∧
      (given = none → r.wcc i c = (aaW ρ s useII (iR0 s.Rs) i i c).1) := by
    intro i c hi hc
    refine ⟨?_, ?_⟩
    · intro w hw
      simp only [r, readTb, hw]
    · intro hnone
      simp only [r, readTb, hnw, hnR, hread, hdrop, hnone] at hRs'' ⊢
      rw [hRs'', hraw (iR0 s.Rs) i i c h0 hi hi hc]
  refine ⟨hwcc, ?_⟩
  intro ir m n c hir hm hn hc
  simp only [r, readTb, hnw, hnR, hread, hdrop] at hRs'' ⊢
  rw [hRs'', hraw ir m n c hir hm hn hc]
  cases needAA <;> simp

end tb

end WB.C18
