/-
  C19: what the text readers see in the files produced by the writers (.eig, .amn, .mmn).
-/
import WB.Model.C19
import WB.Lemmas.C18Flat
import Mathlib.Tactic.Ring
import Mathlib.Tactic.Linarith
import Mathlib.Order.Basic

namespace WB.C19
open WB.C18

variable {V : Type}

/-- two nested writer loops with blocks of constant length `c` -/
theorem getD_flatMap2 {α} (f : Nat → Nat → List α) (c : Nat) (hf : ∀ i j, (f i j).length = c) (d : α)
    (n m i j k : Nat) (hi : i < n) (hj : j < m) (hk : k < c) :
    ((List.range n).flatMap (fun i => (List.range m).flatMap (f i))).getD ((i * m + j) * c + k) d
      = (f i j).getD k d := by
  have hin : ∀ i, ((List.range m).flatMap (f i)).length = m * c :=
    fun i => length_flatMap_range_const (f i) c (hf i) m
  have e : (i * m + j) * c + k = i * (m * c) + (j * c + k) := by ring
  have hlt : j * c + k < m * c := by
    have : (j + 1) * c ≤ m * c := Nat.mul_le_mul_right c (by omega)
    have e2 : (j + 1) * c = j * c + c := by ring
    omega
  rw [e, getD_flatMap_range_const _ (m * c) hin d n i _ hi hlt]
  exact getD_flatMap_range_const (f i) c (hf i) d m j k hj hk

theorem length_flatMap2 {α} (f : Nat → Nat → List α) (c : Nat) (hf : ∀ i j, (f i j).length = c) (n m : Nat) :
    ((List.range n).flatMap (fun i => (List.range m).flatMap (f i))).length = n * (m * c) :=
  length_flatMap_range_const _ (m * c) (fun i => length_flatMap_range_const (f i) c (hf i) m) n

theorem getD_map_range {α} (g : Nat → α) (d : α) (n i : Nat) (h : i < n) :
    ((List.range n).map g).getD i d = g i := by
  simp [List.getD_eq_getElem?_getD, h]

/-! ### column maximum -/

theorem foldl_max_ge_init (g : Line V → Int) : ∀ (f : File V) (a : Int), a ≤ f.foldl (fun m l => max m (g l)) a
  | [], a => le_refl _
  | l :: t, a => le_trans (le_max_left a (g l)) (foldl_max_ge_init g t _)

theorem foldl_max_ge_mem (g : Line V → Int) : ∀ (f : File V) (a : Int) (l : Line V), l ∈ f →
    g l ≤ f.foldl (fun m l => max m (g l)) a
  | [], _, _, h => by simp at h
  | x :: t, a, l, h => by
    rcases List.mem_cons.mp h with rfl | h
    · exact le_trans (le_max_right a (g l)) (foldl_max_ge_init g t _)
    · exact foldl_max_ge_mem g t _ l h

theorem foldl_max_le (g : Line V → Int) (M : Int) : ∀ (f : File V) (a : Int), a ≤ M → (∀ l ∈ f, g l ≤ M) →
    f.foldl (fun m l => max m (g l)) a ≤ M
  | [], a, ha, _ => ha
  | x :: t, a, ha, h => by
    apply foldl_max_le g M t
    · exact max_le ha (h x List.mem_cons_self)
    · exact fun l hl => h l (List.mem_cons_of_mem _ hl)

theorem colMax_eq (f : File V) (c : Nat) (M : Int) (h0 : 0 ≤ M) (hle : ∀ l ∈ f, tokInt l c ≤ M)
    (hex : ∃ l ∈ f, tokInt l c = M) : colMax f c = M := by
  obtain ⟨l, hl, e⟩ := hex
  apply le_antisymm
  · exact foldl_max_le _ M f 0 h0 hle
  · rw [← e]; exact foldl_max_ge_mem (fun l => tokInt l c) f 0 l hl

/-! ### `.eig` -/

section eig
variable [IntCast V]

def eigLine (ρ : V → V) (E : Nat → Nat → V) (ik ib : Nat) : Line V :=
  [Tok.int ((ib : Int) + 1), Tok.int ((ik : Int) + 1), Tok.val (ρ (E ik ib))]

theorem writeEig_eq (ρ : V → V) (NK NB : Nat) (E : Nat → Nat → V) :
    writeEig ρ NK NB E = (List.range NK).flatMap (fun ik => (List.range NB).map (eigLine ρ E ik)) := rfl

theorem length_writeEig (ρ : V → V) (NK NB : Nat) (E : Nat → Nat → V) : (writeEig ρ NK NB E).length = NK * NB := by
  rw [writeEig_eq]
  exact length_flatMap_range_const _ NB (fun i => by simp) NK

theorem lineAt_writeEig (ρ : V → V) (NK NB : Nat) (E : Nat → Nat → V) (ik ib : Nat) (hk : ik < NK) (hb : ib < NB) :
    lineAt (writeEig ρ NK NB E) (ik * NB + ib) = eigLine ρ E ik ib := by
  unfold lineAt
  rw [writeEig_eq, getD_flatMap_range_const _ NB (fun i => by simp) [] NK ik ib hk hb]
  exact getD_map_range _ _ _ _ hb

theorem mem_writeEig (ρ : V → V) (NK NB : Nat) (E : Nat → Nat → V) (l : Line V) (h : l ∈ writeEig ρ NK NB E) :
    ∃ ik ib, ik < NK ∧ ib < NB ∧ l = eigLine ρ E ik ib := by
  rw [writeEig_eq] at h
  simp only [List.mem_flatMap, List.mem_range, List.mem_map] at h
  obtain ⟨ik, hk, ib, hb, rfl⟩ := h
  exact ⟨ik, ib, hk, hb, rfl⟩

theorem readEig_writeEig (ρ : V → V) (NK NB : Nat) (E : Nat → Nat → V) (hK : 0 < NK) (hB : 0 < NB) :
    ∃ r, readEig (writeEig ρ NK NB E) = some r ∧ r.NK = NK ∧ r.NB = NB ∧
      ∀ ik ib, ik < NK → ib < NB → r.E ik ib = ρ (E ik ib) := by
  set f := writeEig ρ NK NB E with hf
  have hlen : f.length = NK * NB := length_writeEig ρ NK NB E
  have hne : f.isEmpty = false := by
    cases hfe : f with
    | nil => rw [hfe] at hlen; simp at hlen; rcases hlen with h | h <;> omega
    | cons a t => rfl
  have hlast : eigLine ρ E (NK - 1) (NB - 1) ∈ f := by
    have := lineAt_writeEig ρ NK NB E (NK - 1) (NB - 1) (by omega) (by omega)
    rw [← this]
    unfold lineAt
    rw [List.getD_eq_getElem?_getD]
    have hlt : (NK - 1) * NB + (NB - 1) < f.length := by
      rw [hlen]
      have : (NK - 1 + 1) * NB = (NK - 1) * NB + NB := by ring
      have h2 : NK - 1 + 1 = NK := by omega
      rw [h2] at this
      omega
    rw [List.getElem?_eq_getElem hlt]
    exact List.getElem_mem hlt
  have hB' : colMax f 0 = (NB : Int) := by
    apply colMax_eq f 0 NB (by omega)
    · intro l hl
      obtain ⟨ik, ib, hk, hb, rfl⟩ := mem_writeEig ρ NK NB E l hl
      simp [eigLine, tokInt, Tok.toInt]; omega
    · exact ⟨_, hlast, by simp [eigLine, tokInt, Tok.toInt]; omega⟩
  have hK' : colMax f 1 = (NK : Int) := by
    apply colMax_eq f 1 NK (by omega)
    · intro l hl
      obtain ⟨ik, ib, hk, hb, rfl⟩ := mem_writeEig ρ NK NB E l hl
      simp [eigLine, tokInt, Tok.toInt]; omega
    · exact ⟨_, hlast, by simp [eigLine, tokInt, Tok.toInt]; omega⟩
  have hchk : (List.range NK).all (fun (ik : Nat) => (List.range NB).all (fun (ib : Nat) =>
      tokInt (lineAt f (ik * NB + ib)) 0 == (ib : Int) + 1 && tokInt (lineAt f (ik * NB + ib)) 1 == (ik : Int) + 1)) = true := by
    simp only [List.all_eq_true, List.mem_range]
    intro ik hk ib hb
    rw [lineAt_writeEig ρ NK NB E ik ib hk hb]
    simp [eigLine, tokInt, Tok.toInt]
  refine ⟨{ NK := NK, NB := NB, E := fun ik ib => tokVal (lineAt f (ik * NB + ib)) 2 }, ?_, rfl, rfl, ?_⟩
  · unfold readEig readEigWith
    simp only [hne, hB', hK', Int.toNat_natCast, hlen, ne_eq, not_true_eq_false, if_false, hchk, if_true,
      Bool.false_eq_true, Bool.false_and]
  · intro ik ib hk hb
    simp only
    rw [lineAt_writeEig ρ NK NB E ik ib hk hb]
    simp [eigLine, tokVal, Tok.toVal]

end eig

/-! ### `.amn` -/

section amn
variable [IntCast V]

def amnLine (ρ : V → V) (A : Nat → Nat → Nat → V × V) (ik iw ib : Nat) : Line V :=
  [Tok.int ((ib : Int) + 1), Tok.int ((iw : Int) + 1), Tok.int ((ik : Int) + 1), Tok.val (ρ (A ik ib iw).1),
   Tok.val (ρ (A ik ib iw).2)]

theorem writeAmn_eq (ρ : V → V) (NK NB NW : Nat) (A : Nat → Nat → Nat → V × V) :
    writeAmn ρ NK NB NW A = [] :: [Tok.int NB, Tok.int NK, Tok.int NW] ::
      (List.range NK).flatMap (fun ik => (List.range NW).flatMap (fun iw => (List.range NB).map (amnLine ρ A ik iw))) :=
  rfl

theorem readAmn_writeAmn (ρ : V → V) (NK NB NW : Nat) (A : Nat → Nat → Nat → V × V) :
    (readAmn (writeAmn ρ NK NB NW A)).NK = NK ∧ (readAmn (writeAmn ρ NK NB NW A)).NB = NB ∧
    (readAmn (writeAmn ρ NK NB NW A)).NW = NW ∧
    ∀ ik ib iw, ik < NK → ib < NB → iw < NW →
      (readAmn (writeAmn ρ NK NB NW A)).A ik ib iw = (ρ (A ik ib iw).1, ρ (A ik ib iw).2) := by
  have h1 : (tokInt (lineAt (writeAmn ρ NK NB NW A) 1) 0).toNat = NB := by
    rw [writeAmn_eq]; simp [lineAt, tokInt, Tok.toInt]
  have h2 : (tokInt (lineAt (writeAmn ρ NK NB NW A) 1) 1).toNat = NK := by
    rw [writeAmn_eq]; simp [lineAt, tokInt, Tok.toInt]
  have h3 : (tokInt (lineAt (writeAmn ρ NK NB NW A) 1) 2).toNat = NW := by
    rw [writeAmn_eq]; simp [lineAt, tokInt, Tok.toInt]
  refine ⟨by simp only [readAmn, h2], by simp only [readAmn, h1], by simp only [readAmn, h3], ?_⟩
  intro ik ib iw hk hb hw
  simp only [readAmn, h1, h2, h3]
  have e : 2 + (ik * (NW * NB) + (iw * NB + ib)) = ((ik * NW + iw) * NB + ib) + 1 + 1 := by ring
  have hl : lineAt (writeAmn ρ NK NB NW A) (2 + (ik * (NW * NB) + (iw * NB + ib))) = amnLine ρ A ik iw ib := by
    unfold lineAt
    rw [writeAmn_eq, e, List.getD_cons_succ, List.getD_cons_succ,
      getD_flatMap2 (fun ik iw => (List.range NB).map (amnLine ρ A ik iw)) NB (fun i j => by simp) [] NK NW ik iw ib hk hw hb]
    exact getD_map_range _ _ _ _ hb
  rw [hl]
  simp [amnLine, tokVal, Tok.toVal]

end amn

/-! ### `.mmn` -/

section mmn
variable [IntCast V]

def mmnHead (nbr : Nat → Nat → Int) (G : Nat → Nat → Vec3) (ik ib : Nat) : Line V :=
  [Tok.int ((ik : Int) + 1), Tok.int (nbr ik ib + 1), Tok.int (G ik ib).1, Tok.int (G ik ib).2.1, Tok.int (G ik ib).2.2]

def mmnBlock (NB : Nat) (nbr : Nat → Nat → Int) (G : Nat → Nat → Vec3) (M : Nat → Nat → Nat → Nat → V × V)
    (ik ib : Nat) : File V :=
  mmnHead nbr G ik ib ::
    (List.range NB).flatMap (fun (m : Nat) => (List.range NB).map (fun (n : Nat) =>
      [Tok.val (M ik ib n m).1, Tok.val (M ik ib n m).2]))

theorem writeMmn_eq (NK NNB NB : Nat) (nbr : Nat → Nat → Int) (G : Nat → Nat → Vec3) (M : Nat → Nat → Nat → Nat → V × V) :
    writeMmn NK NNB NB nbr G M = [] :: [Tok.int NB, Tok.int NK, Tok.int NNB] ::
      (List.range NK).flatMap (fun ik => (List.range NNB).flatMap (mmnBlock NB nbr G M ik)) := rfl

theorem length_mmnBlock (NB : Nat) (nbr : Nat → Nat → Int) (G : Nat → Nat → Vec3) (M : Nat → Nat → Nat → Nat → V × V)
    (ik ib : Nat) : (mmnBlock NB nbr G M ik ib).length = 1 + NB * NB := by
  unfold mmnBlock
  rw [List.length_cons, length_flatMap_range_const _ NB (fun i => by simp) NB]
  ring

theorem readMmn_writeMmn (NK NNB NB : Nat) (nbr : Nat → Nat → Int) (G : Nat → Nat → Vec3)
    (M : Nat → Nat → Nat → Nat → V × V) :
    let r := readMmn (writeMmn NK NNB NB nbr G M)
    r.NK = NK ∧ r.NNB = NNB ∧ r.NB = NB ∧ r.headOk = true ∧
    (∀ ik ib, ik < NK → ib < NNB → r.nbr ik ib = nbr ik ib ∧ r.G ik ib = G ik ib) ∧
    (∀ ik ib m n, ik < NK → ib < NNB → m < NB → n < NB → r.M ik ib m n = M ik ib m n) := by
  set f := writeMmn NK NNB NB nbr G M with hf
  intro r
  have h1 : (tokInt (lineAt f 1) 0).toNat = NB := by
    rw [hf, writeMmn_eq]; simp [lineAt, tokInt, Tok.toInt]
  have h2 : (tokInt (lineAt f 1) 1).toNat = NK := by
    rw [hf, writeMmn_eq]; simp [lineAt, tokInt, Tok.toInt]
  have h3 : (tokInt (lineAt f 1) 2).toNat = NNB := by
    rw [hf, writeMmn_eq]; simp [lineAt, tokInt, Tok.toInt]
  have hline : ∀ ik ib j, ik < NK → ib < NNB → j < 1 + NB * NB →
      lineAt f (2 + ((ik * NNB + ib) * (1 + NB * NB) + j)) = (mmnBlock NB nbr G M ik ib).getD j [] := by
    intro ik ib j hk hb hj
    have e : 2 + ((ik * NNB + ib) * (1 + NB * NB) + j) = ((ik * NNB + ib) * (1 + NB * NB) + j) + 1 + 1 := by ring
    unfold lineAt
    rw [hf, writeMmn_eq, e, List.getD_cons_succ, List.getD_cons_succ]
    exact getD_flatMap2 (mmnBlock NB nbr G M) (1 + NB * NB) (length_mmnBlock NB nbr G M) [] NK NNB ik ib j hk hb hj
  have hhead : ∀ ik ib, ik < NK → ib < NNB →
      lineAt f (2 + (ik * NNB + ib) * (1 + NB * NB)) = mmnHead nbr G ik ib := by
    intro ik ib hk hb
    have := hline ik ib 0 hk hb (by omega)
    simpa [mmnBlock] using this
  refine ⟨by simp only [r, readMmn, h2], by simp only [r, readMmn, h3], by simp only [r, readMmn, h1], ?_, ?_, ?_⟩
  · simp only [r, readMmn, h1, h2, h3, List.all_eq_true, List.mem_range]
    intro ik hk ib hb
    rw [hhead ik ib hk hb]
    simp [mmnHead, tokInt, Tok.toInt]
  · intro ik ib hk hb
    simp only [r, readMmn, h1, h2, h3]
    rw [hhead ik ib hk hb]
    simp [mmnHead, tokInt, Tok.toInt]
  · intro ik ib m n hk hb hm hn
    simp only [r, readMmn, h1, h2, h3]
    have hj : 1 + (n * NB + m) < 1 + NB * NB := by
      have : (n + 1) * NB ≤ NB * NB := Nat.mul_le_mul_right NB (by omega)
      have e2 : (n + 1) * NB = n * NB + NB := by ring
      omega
    rw [hline ik ib (1 + (n * NB + m)) hk hb hj]
    have e : 1 + (n * NB + m) = (n * NB + m) + 1 := by ring
    unfold mmnBlock
    rw [e, List.getD_cons_succ,
      getD_flatMap_range_const _ NB (fun i => by simp) [] NB n m hn hm, getD_map_range _ _ _ _ hm]
    simp [tokVal, Tok.toVal]

end mmn

end WB.C19
