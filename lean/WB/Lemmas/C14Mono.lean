/-
  C14 — range and monotonicity of the tetrahedron occupation (any linearly ordered field).

  Proof idea, valid without calculus: on each closed interval `[eₖ, eₖ₊₁]` the spec is a cubic `Pₖ` whose derivative
  `Qₖ` has a manifestly non-negative form there, and Simpson's rule is exact for cubics:
      Pₖ y - Pₖ x = (y - x)/6 · (Qₖ x + 4 Qₖ((x+y)/2) + Qₖ y).
-/
import WB.Lemmas.C14Spec
import Mathlib.Order.Monotone.Union
import Mathlib.Order.Interval.Set.LinearOrder
import Mathlib.Order.Bounds.Basic

namespace WB.C14
set_option linter.unusedSectionVars false
variable {K : Type} [Field K] [LinearOrder K] [IsStrictOrderedRing K]

theorem tp_of_le {n : Nat} {a x : K} (h : a ≤ x) : tp n a x = (x - a) ^ n := by
  unfold tp; rw [if_pos h]

theorem tp_of_lt {n : Nat} {a x : K} (h : x < a) : tp n a x = 0 := by
  unfold tp; rw [if_neg (not_le.mpr h)]

/-- a truncated power of positive degree also vanishes AT the knot -/
theorem tp_of_ge {n : Nat} (hn : 0 < n) {a x : K} (h : x ≤ a) : tp n a x = 0 := by
  unfold tp
  split
  · rename_i h'
    have : x = a := le_antisymm h h'
    rw [this, sub_self, zero_pow (by omega)]
  · rfl

/-- the cubic pieces (`P4 = 1` identically) and their derivatives, differences written positively -/
def P1 (e1 e2 e3 e4 x : K) : K := (x - e1) ^ 3 / ((e2 - e1) * (e3 - e1) * (e4 - e1))
def P2 (e1 e2 e3 e4 x : K) : K := P1 e1 e2 e3 e4 x - (x - e2) ^ 3 / ((e2 - e1) * (e3 - e2) * (e4 - e2))
def P3 (e1 e2 e3 e4 x : K) : K := P2 e1 e2 e3 e4 x + (x - e3) ^ 3 / ((e3 - e1) * (e3 - e2) * (e4 - e3))
def Q1 (e1 e2 e3 e4 x : K) : K := 3 * (x - e1) ^ 2 / ((e2 - e1) * (e3 - e1) * (e4 - e1))
def Q2 (e1 e2 e3 e4 x : K) : K := Q1 e1 e2 e3 e4 x - 3 * (x - e2) ^ 2 / ((e2 - e1) * (e3 - e2) * (e4 - e2))
def Q3 (e1 e2 e3 e4 x : K) : K := Q2 e1 e2 e3 e4 x + 3 * (x - e3) ^ 2 / ((e3 - e1) * (e3 - e2) * (e4 - e3))

theorem simpson1 (e1 e2 e3 e4 x y : K) :
    P1 e1 e2 e3 e4 y - P1 e1 e2 e3 e4 x =
      (y - x) / 6 * (Q1 e1 e2 e3 e4 x + 4 * Q1 e1 e2 e3 e4 ((x + y) / 2) + Q1 e1 e2 e3 e4 y) := by
  unfold P1 Q1; ring
theorem simpson2 (e1 e2 e3 e4 x y : K) :
    P2 e1 e2 e3 e4 y - P2 e1 e2 e3 e4 x =
      (y - x) / 6 * (Q2 e1 e2 e3 e4 x + 4 * Q2 e1 e2 e3 e4 ((x + y) / 2) + Q2 e1 e2 e3 e4 y) := by
  unfold P2 Q2 P1 Q1; ring
theorem simpson3 (e1 e2 e3 e4 x y : K) :
    P3 e1 e2 e3 e4 y - P3 e1 e2 e3 e4 x =
      (y - x) / 6 * (Q3 e1 e2 e3 e4 x + 4 * Q3 e1 e2 e3 e4 ((x + y) / 2) + Q3 e1 e2 e3 e4 y) := by
  unfold P3 Q3 P2 Q2 P1 Q1; ring

section pos
variable {e1 e2 e3 e4 : K}
theorem Incr.p12 (h : Incr e1 e2 e3 e4) : 0 < e2 - e1 := sub_pos.mpr h.h12
theorem Incr.p13 (h : Incr e1 e2 e3 e4) : 0 < e3 - e1 := sub_pos.mpr (h.h12.trans h.h23)
theorem Incr.p14 (h : Incr e1 e2 e3 e4) : 0 < e4 - e1 := sub_pos.mpr (h.h12.trans (h.h23.trans h.h34))
theorem Incr.p23 (h : Incr e1 e2 e3 e4) : 0 < e3 - e2 := sub_pos.mpr h.h23
theorem Incr.p24 (h : Incr e1 e2 e3 e4) : 0 < e4 - e2 := sub_pos.mpr (h.h23.trans h.h34)
theorem Incr.p34 (h : Incr e1 e2 e3 e4) : 0 < e4 - e3 := sub_pos.mpr h.h34
end pos

theorem Q1_nonneg {e1 e2 e3 e4 : K} (h : Incr e1 e2 e3 e4) (x : K) : 0 ≤ Q1 e1 e2 e3 e4 x := by
  unfold Q1
  have := h.p12; have := h.p13; have := h.p14
  positivity

/-- quadratic B-spline recurrence: the middle-piece derivative is a positive combination of two hat functions -/
theorem Q2_form {e1 e2 e3 e4 : K} (h : Incr e1 e2 e3 e4) (x : K) :
    Q2 e1 e2 e3 e4 x = 3 / (e4 - e1) * ((x - e1) * (e3 - x) / ((e3 - e1) * (e3 - e2))
      + (e4 - x) * (x - e2) / ((e4 - e2) * (e3 - e2))) := by
  have n12 := h.n12; have n13 := h.n13; have n14 := h.n14; have n23 := h.n23; have n24 := h.n24
  unfold Q2 Q1
  field_simp
  ring

theorem Q2_nonneg {e1 e2 e3 e4 : K} (h : Incr e1 e2 e3 e4) {x : K} (h2 : e2 ≤ x) (h3 : x ≤ e3) :
    0 ≤ Q2 e1 e2 e3 e4 x := by
  rw [Q2_form h]
  have := h.p12; have := h.p13; have := h.p14; have := h.p23; have := h.p24; have := h.p34
  have a1 : 0 ≤ x - e1 := by linarith
  have a2 : 0 ≤ e3 - x := by linarith
  have a3 : 0 ≤ e4 - x := by linarith
  have a4 : 0 ≤ x - e2 := by linarith
  positivity

theorem Q3_form {e1 e2 e3 e4 : K} (h : Incr e1 e2 e3 e4) (x : K) :
    Q3 e1 e2 e3 e4 x = 3 * (e4 - x) ^ 2 / ((e4 - e1) * (e4 - e2) * (e4 - e3)) := by
  have n12 := h.n12; have n13 := h.n13; have n14 := h.n14; have n23 := h.n23; have n24 := h.n24
  have n34 := h.n34
  unfold Q3 Q2 Q1
  field_simp
  ring

theorem Q3_nonneg {e1 e2 e3 e4 : K} (h : Incr e1 e2 e3 e4) (x : K) : 0 ≤ Q3 e1 e2 e3 e4 x := by
  rw [Q3_form h]
  have := h.p14; have := h.p24; have := h.p34
  positivity

/-- the spec on the closed pieces -/
theorem spec0_below {e1 e2 e3 e4 : K} (h : Incr e1 e2 e3 e4) {x : K} (hx : x ≤ e1) :
    spec 0 e1 e2 e3 e4 x = 0 := by
  rw [spec_eq_specP]; unfold specP
  rw [tp_of_ge (by norm_num) hx, tp_of_ge (by norm_num) (hx.trans h.h12.le),
    tp_of_ge (by norm_num) (hx.trans (h.h12.le.trans h.h23.le)),
    tp_of_ge (by norm_num) (hx.trans (h.h12.le.trans (h.h23.le.trans h.h34.le)))]
  simp

theorem spec0_piece1 {e1 e2 e3 e4 : K} (h : Incr e1 e2 e3 e4) {x : K} (h1 : e1 ≤ x) (h2 : x ≤ e2) :
    spec 0 e1 e2 e3 e4 x = P1 e1 e2 e3 e4 x := by
  rw [spec_eq_specP]; unfold specP P1 ff
  rw [tp_of_le h1, tp_of_ge (by norm_num) h2, tp_of_ge (by norm_num) (h2.trans h.h23.le),
    tp_of_ge (by norm_num) (h2.trans (h.h23.le.trans h.h34.le))]
  simp

theorem spec0_piece2 {e1 e2 e3 e4 : K} (h : Incr e1 e2 e3 e4) {x : K} (h2 : e2 ≤ x) (h3 : x ≤ e3) :
    spec 0 e1 e2 e3 e4 x = P2 e1 e2 e3 e4 x := by
  rw [spec_eq_specP]; unfold specP P2 P1 ff
  rw [tp_of_le (h.h12.le.trans h2), tp_of_le h2, tp_of_ge (by norm_num) h3,
    tp_of_ge (by norm_num) (h3.trans h.h34.le)]
  simp

theorem spec0_piece3 {e1 e2 e3 e4 : K} (h : Incr e1 e2 e3 e4) {x : K} (h3 : e3 ≤ x) (h4 : x ≤ e4) :
    spec 0 e1 e2 e3 e4 x = P3 e1 e2 e3 e4 x := by
  rw [spec_eq_specP]; unfold specP P3 P2 P1 ff
  rw [tp_of_le (h.h12.le.trans (h.h23.le.trans h3)), tp_of_le (h.h23.le.trans h3), tp_of_le h3,
    tp_of_ge (by norm_num) h4]
  simp

theorem spec0_above {e1 e2 e3 e4 : K} (h : Incr e1 e2 e3 e4) {x : K} (h4 : e4 ≤ x) :
    spec 0 e1 e2 e3 e4 x = 1 := by
  have n12 := h.n12; have n13 := h.n13; have n14 := h.n14; have n23 := h.n23; have n24 := h.n24
  have n34 := h.n34
  rw [spec_eq_specP]; unfold specP ff
  rw [tp_of_le (h.h12.le.trans (h.h23.le.trans (h.h34.le.trans h4))), tp_of_le (h.h23.le.trans (h.h34.le.trans h4)),
    tp_of_le (h.h34.le.trans h4), tp_of_le h4]
  simp only [Nat.sub_zero]
  field_simp
  ring

theorem mono_of_simpson {P Q : K → K} (hs : ∀ x y, P y - P x = (y - x) / 6 * (Q x + 4 * Q ((x + y) / 2) + Q y))
    {a b : K} (hq : ∀ z, a ≤ z → z ≤ b → 0 ≤ Q z) {x y : K} (hax : a ≤ x) (hxy : x ≤ y) (hyb : y ≤ b) :
    P x ≤ P y := by
  have q1 := hq x hax (hxy.trans hyb)
  have q2 := hq ((x + y) / 2) (by linarith) (by linarith)
  have q3 := hq y (hax.trans hxy) hyb
  have : 0 ≤ (y - x) / 6 * (Q x + 4 * Q ((x + y) / 2) + Q y) := by
    apply mul_nonneg
    · apply div_nonneg <;> linarith
    · linarith
  linarith [hs x y]

/-- T4 (monotone): the exact occupation is non-decreasing in the Fermi level -/
theorem spec0_mono {e1 e2 e3 e4 : K} (h : Incr e1 e2 e3 e4) : Monotone (spec 0 e1 e2 e3 e4) := by
  have A0 : MonotoneOn (spec 0 e1 e2 e3 e4) (Set.Iic e1) := by
    intro x hx y hy _
    rw [spec0_below h hx, spec0_below h hy]
  have A1 : MonotoneOn (spec 0 e1 e2 e3 e4) (Set.Icc e1 e2) := by
    intro x hx y hy hxy
    rw [spec0_piece1 h hx.1 hx.2, spec0_piece1 h hy.1 hy.2]
    exact mono_of_simpson (simpson1 e1 e2 e3 e4) (fun z _ _ => Q1_nonneg h z) hx.1 hxy hy.2
  have A2 : MonotoneOn (spec 0 e1 e2 e3 e4) (Set.Icc e2 e3) := by
    intro x hx y hy hxy
    rw [spec0_piece2 h hx.1 hx.2, spec0_piece2 h hy.1 hy.2]
    exact mono_of_simpson (simpson2 e1 e2 e3 e4) (fun z hz1 hz2 => Q2_nonneg h hz1 hz2) hx.1 hxy hy.2
  have A3 : MonotoneOn (spec 0 e1 e2 e3 e4) (Set.Icc e3 e4) := by
    intro x hx y hy hxy
    rw [spec0_piece3 h hx.1 hx.2, spec0_piece3 h hy.1 hy.2]
    exact mono_of_simpson (simpson3 e1 e2 e3 e4) (fun z _ _ => Q3_nonneg h z) hx.1 hxy hy.2
  have A4 : MonotoneOn (spec 0 e1 e2 e3 e4) (Set.Ici e4) := by
    intro x hx y hy _
    rw [spec0_above h hx, spec0_above h hy]
  have B1 := A0.union_right A1 isGreatest_Iic (isLeast_Icc h.h12.le)
  rw [Set.Iic_union_Icc_eq_Iic h.h12.le] at B1
  have B2 := B1.union_right A2 isGreatest_Iic (isLeast_Icc h.h23.le)
  rw [Set.Iic_union_Icc_eq_Iic h.h23.le] at B2
  have B3 := B2.union_right A3 isGreatest_Iic (isLeast_Icc h.h34.le)
  rw [Set.Iic_union_Icc_eq_Iic h.h34.le] at B3
  exact B3.Iic_union_Ici A4

/-- T4 (range) -/
theorem spec0_range {e1 e2 e3 e4 : K} (h : Incr e1 e2 e3 e4) (x : K) :
    0 ≤ spec 0 e1 e2 e3 e4 x ∧ spec 0 e1 e2 e3 e4 x ≤ 1 := by
  constructor
  · have := spec0_mono h (min_le_left x e1)
    rwa [spec0_below h (min_le_right x e1)] at this
  · have := spec0_mono h (le_max_left x e4)
    rwa [spec0_above h (le_max_right x e4)] at this

/-- the density of states weight (first derivative) is non-negative everywhere -/
theorem spec1_nonneg {e1 e2 e3 e4 : K} (h : Incr e1 e2 e3 e4) (x : K) : 0 ≤ spec 1 e1 e2 e3 e4 x := by
  have n12 := h.n12; have n13 := h.n13; have n14 := h.n14; have n23 := h.n23; have n24 := h.n24
  have n34 := h.n34
  rw [spec_eq_specP]; unfold specP ff
  simp only [Nat.reduceSub]
  rcases interval_cases h x with ⟨a, b, c, d, e⟩ | ⟨a, b, c, d, e⟩ | ⟨a, b, c, d, e⟩ | ⟨a, b, c, d, e⟩ |
    ⟨a, b, c, d, e⟩
  · -- above: the four terms cancel
    rw [tp_of_le a, tp_of_le b, tp_of_le c, tp_of_le d]
    apply le_of_eq; symm
    field_simp; ring
  · rw [tp_of_lt (not_le.mp a), tp_of_lt (not_le.mp b), tp_of_lt (not_le.mp c), tp_of_lt (not_le.mp d)]
    simp
  · rw [tp_of_lt (not_le.mp a), tp_of_le b, tp_of_le c, tp_of_le d]
    refine le_of_le_of_eq (Q3_nonneg h x) ?_
    unfold Q3 Q2 Q1; ring
  · rw [tp_of_lt (not_le.mp a), tp_of_lt (not_le.mp b), tp_of_le c, tp_of_le d]
    refine le_of_le_of_eq (Q2_nonneg h c (not_le.mp b).le) ?_
    unfold Q2 Q1; ring
  · rw [tp_of_lt (not_le.mp a), tp_of_lt (not_le.mp b), tp_of_lt (not_le.mp c), tp_of_le d]
    refine le_of_le_of_eq (Q1_nonneg h x) ?_
    unfold Q1; ring

end WB.C14
