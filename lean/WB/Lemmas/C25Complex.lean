/-
  C25: the complex numbers with `c = cos(θ/2)`, `s = sin(θ/2)`, `e = exp(−iφ/2)` satisfy the hypotheses `PauliHyp`,
  and the abstract `axis` is the usual unit vector `(sinθ cosφ, sinθ sinφ, cosθ)`.
-/
import WB.Lemmas.C25Pauli
import Mathlib.Analysis.Complex.Trigonometric

namespace WB.C25
open Complex

noncomputable def eC (φ : ℝ) : ℂ := Complex.exp (-(Complex.I * φ / 2))

theorem conj_eC (φ : ℝ) : (starRingEnd ℂ) (eC φ) = Complex.exp (Complex.I * φ / 2) := by
  unfold eC
  rw [← Complex.exp_conj]
  congr 1
  simp only [map_neg, map_div₀, map_mul, Complex.conj_I, Complex.conj_ofReal, map_ofNat]
  ring

theorem pauliHyp_complex (θ φ : ℝ) :
    PauliHyp (starRingEnd ℂ) Complex.I (Real.cos (θ / 2) : ℂ) (Real.sin (θ / 2) : ℂ) (eC φ) where
  hI := Complex.I_mul_I
  hcI := Complex.conj_I
  hc := Complex.conj_ofReal _
  hs := Complex.conj_ofReal _
  he := by
    rw [conj_eC, eC, ← Complex.exp_add]; simp
  hcs := by
    have := Real.cos_sq_add_sin_sq (θ / 2)
    rw [← Complex.ofReal_mul, ← Complex.ofReal_mul, ← Complex.ofReal_add, ← sq, ← sq, this, Complex.ofReal_one]

/-- the abstract axis is `(sinθ cosφ, sinθ sinφ, cosθ)` -/
theorem axis_complex (θ φ : ℝ) :
    axis (starRingEnd ℂ) Complex.I (Real.cos (θ / 2) : ℂ) (Real.sin (θ / 2) : ℂ) (eC φ) 0
        = ((Real.sin θ * Real.cos φ : ℝ) : ℂ) ∧
    axis (starRingEnd ℂ) Complex.I (Real.cos (θ / 2) : ℂ) (Real.sin (θ / 2) : ℂ) (eC φ) 1
        = ((Real.sin θ * Real.sin φ : ℝ) : ℂ) ∧
    axis (starRingEnd ℂ) Complex.I (Real.cos (θ / 2) : ℂ) (Real.sin (θ / 2) : ℂ) (eC φ) 2
        = ((Real.cos θ : ℝ) : ℂ) := by
  have hsin : Real.sin θ = 2 * Real.sin (θ / 2) * Real.cos (θ / 2) := by
    rw [← Real.sin_two_mul]; congr 1; ring
  have hcos : Real.cos θ = Real.cos (θ / 2) ^ 2 - Real.sin (θ / 2) ^ 2 := by
    rw [← Real.cos_two_mul']; congr 1; ring
  have he2 : eC φ * eC φ = Complex.exp (-(φ * Complex.I)) := by
    unfold eC; rw [← Complex.exp_add]; congr 1; ring
  have hf2 : (starRingEnd ℂ) (eC φ) * (starRingEnd ℂ) (eC φ) = Complex.exp (φ * Complex.I) := by
    rw [conj_eC, ← Complex.exp_add]; congr 1; ring
  have hcosφ : ((Real.cos φ : ℝ) : ℂ) = (Complex.exp (φ * Complex.I) + Complex.exp (-(φ * Complex.I))) / 2 := by
    rw [Complex.ofReal_cos, Complex.cos]; ring_nf
  have hsinφ : ((Real.sin φ : ℝ) : ℂ) = (Complex.exp (-(φ * Complex.I)) - Complex.exp (φ * Complex.I)) * Complex.I / 2 := by
    rw [Complex.ofReal_sin, Complex.sin]; ring_nf
  refine ⟨?_, ?_, ?_⟩
  · show 2 * _ * _ * ((eC φ * eC φ + _ * _) / 2) = _
    rw [he2, hf2, Complex.ofReal_mul, hcosφ, hsin]; push_cast; ring
  · show 2 * _ * _ * (Complex.I * (eC φ * eC φ - _ * _) / 2) = _
    rw [he2, hf2, Complex.ofReal_mul, hsinφ, hsin]; push_cast; ring
  · show _ * _ - _ * _ = _
    rw [hcos]; push_cast; ring

end WB.C25
