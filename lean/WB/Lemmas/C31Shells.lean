/-
  C31 helper lemmas: `find_shells` / `check_B1` - what holds whenever the function returns.
-/
import WB.Lemmas.C31
import Mathlib.Data.List.Basic
import Mathlib.Algebra.Order.Field.Rat
import Mathlib.Tactic.Positivity
import Mathlib.Tactic.NormNum
import Mathlib.Tactic.FinCases
import Mathlib.Data.Fintype.Basic
import Mathlib.Tactic.Linarith

namespace WB.C31

/-! ### the loop: a returned weight list passed the guard of `check_B1` on the selected shells -/

theorem checkB1_some {kernel : List Nat → Option (List Rat)} {M : Nat → Fin 3 → Fin 3 → Rat} {tol : Rat} {sel : List Nat}
    {acc b1 : Bool} {ws : List Rat} (h : checkB1 kernel M tol sel = (acc, b1, some ws)) :
    acc = true ∧ b1 = true ∧ kernel sel = some ws ∧ resid2 M sel ws ≤ tol * tol := by
  unfold checkB1 at h
  split at h
  · simp at h
  · rename_i ws' hk
    split at h
    · simp at h
    · rename_i hle
      simp only [Prod.mk.injEq, Option.some.injEq] at h
      obtain ⟨rfl, rfl, rfl⟩ := h
      exact ⟨rfl, rfl, hk, not_lt.1 hle⟩

theorem checkB1_b1 {kernel : List Nat → Option (List Rat)} {M : Nat → Fin 3 → Fin 3 → Rat} {tol : Rat} {sel : List Nat}
    {acc : Bool} {w : Option (List Rat)} (h : checkB1 kernel M tol sel = (acc, true, w)) :
    acc = true ∧ ∃ ws, w = some ws := by
  unfold checkB1 at h
  split at h
  · simp at h
  · split at h
    · simp at h
    · simp only [Prod.mk.injEq] at h
      exact ⟨h.1.symm, _, h.2.2.symm⟩

theorem checkB1_not_b1 {kernel : List Nat → Option (List Rat)} {M : Nat → Fin 3 → Fin 3 → Rat} {tol : Rat} {sel : List Nat}
    {acc : Bool} {w : Option (List Rat)} (h : checkB1 kernel M tol sel = (acc, false, w)) : w = none := by
  unfold checkB1 at h
  split at h
  · simp only [Prod.mk.injEq] at h; exact h.2.2.symm
  · split at h
    · simp only [Prod.mk.injEq] at h; exact h.2.2.symm
    · simp at h

/-- the loop started with `weights = None`: if it ends with a weight list, that list is the kernel's answer for the
    final selection and passed the guard `‖Σ_s w_s M_s − 1‖_F ≤ tol`; the selection extends the initial one by
    candidates -/
theorem shellLoop_spec (par : List Nat → Nat → Bool) (kernel : List Nat → Option (List Rat))
    (M : Nat → Fin 3 → Fin 3 → Rat) (tol : Rat) :
    ∀ (cands sel : List Nat) (sel' : List Nat) (ws : List Rat),
      shellLoop par kernel M tol cands sel none = (sel', some ws) →
      kernel sel' = some ws ∧ resid2 M sel' ws ≤ tol * tol ∧ ∃ t, t.Sublist cands ∧ sel' = sel ++ t
  | [], sel, sel', ws, h => by simp [shellLoop] at h
  | k :: rest, sel, sel', ws, h => by
    unfold shellLoop at h
    split at h
    · obtain ⟨h1, h2, t, ht, hs⟩ := shellLoop_spec par kernel M tol rest sel sel' ws h
      exact ⟨h1, h2, t, ht.cons _, hs⟩
    · split at h
      rename_i acc b1 w' hc
      cases b1 with
      | true =>
        simp only [↓reduceIte, Prod.mk.injEq] at h
        obtain ⟨hacc, ws', hw'⟩ := checkB1_b1 hc
        subst hw'
        obtain ⟨_, _, hk, hr⟩ := checkB1_some hc
        obtain ⟨hsel, hws⟩ := h
        simp only [Option.some.injEq] at hws
        subst hws
        rw [hacc] at hsel
        simp only [↓reduceIte] at hsel
        subst hsel
        exact ⟨hk, hr, [k], by simp, rfl⟩
      | false =>
        simp only [Bool.false_eq_true, ↓reduceIte] at h
        have hw' := checkB1_not_b1 hc
        subst hw'
        obtain ⟨h1, h2, t, ht, hs⟩ := shellLoop_spec par kernel M tol rest _ sel' ws h
        cases acc with
        | true =>
          simp only [↓reduceIte] at hs
          exact ⟨h1, h2, k :: t, ht.cons_cons _, by rw [hs]; simp⟩
        | false =>
          simp only [Bool.false_eq_true, ↓reduceIte] at hs
          exact ⟨h1, h2, t, ht.cons _, hs⟩

/-! ### residual: every entry of `check_eye − 1` is within the tolerance -/

theorem entry_sq_le_resid2 (M : Nat → Fin 3 → Fin 3 → Rat) (sel : List Nat) (ws : List Rat) (a c : Fin 3) :
    (checkEye M sel ws a c - delta3 a c) * (checkEye M sel ws a c - delta3 a c) ≤ resid2 M sel ws := by
  unfold resid2
  simp only [fin3, List.flatMap_cons, List.flatMap_nil, List.map_cons, List.map_nil, List.append_nil, List.cons_append,
    List.nil_append, List.sum_cons, List.sum_nil]
  have h : ∀ x : Rat, 0 ≤ x * x := fun x => mul_self_nonneg x
  fin_cases a <;> fin_cases c <;> simp only [Fin.zero_eta, Fin.mk_one, Fin.reduceFinMk, Fin.isValue] <;>
    linarith [h (checkEye M sel ws 0 0 - delta3 0 0), h (checkEye M sel ws 0 1 - delta3 0 1),
      h (checkEye M sel ws 0 2 - delta3 0 2), h (checkEye M sel ws 1 0 - delta3 1 0), h (checkEye M sel ws 1 1 - delta3 1 1),
      h (checkEye M sel ws 1 2 - delta3 1 2), h (checkEye M sel ws 2 0 - delta3 2 0), h (checkEye M sel ws 2 1 - delta3 2 1),
      h (checkEye M sel ws 2 2 - delta3 2 2)]

end WB.C31
