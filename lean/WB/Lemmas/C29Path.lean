/-
  Helper lemmas for C29: `Path.from_nodes` and `Path.get_refined`.
-/
import WB.Model.C29
import Mathlib.Data.List.Basic
import Mathlib.Algebra.Order.Field.Rat
import Mathlib.Tactic.Linarith
import Mathlib.Tactic.Ring

namespace WB.C29

/-! ### basic facts -/

theorem getD_append_left' {α} (l l' : List α) (d : α) (n : Nat) (h : n < l.length) :
    (l ++ l').getD n d = l.getD n d := by
  rw [List.getD_eq_getElem?_getD, List.getD_eq_getElem?_getD, List.getElem?_append_left h]

theorem getD_append_right' {α} (l l' : List α) (d : α) (n : Nat) (h : l.length ≤ n) :
    (l ++ l').getD n d = l'.getD (n - l.length) d := by
  rw [List.getD_eq_getElem?_getD, List.getD_eq_getElem?_getD, List.getElem?_append_right h]

theorem lerp_zero (a b : Q3) (m : Nat) : lerp a b 0 m = a := by
  unfold lerp add3 smul3 sub3
  simp

theorem segPts_length (a b : Q3) (n : Nat) : (segPts a b n).length = n - 1 := by
  unfold segPts; simp

theorem segPts_getD (a b : Q3) (n j : Nat) (hj : j < n - 1) : (segPts a b n).getD j (0, 0, 0) = lerp a b j (n - 1) := by
  unfold segPts
  rw [List.getD_eq_getElem?_getD, List.getElem?_map, List.getElem?_range hj]
  rfl

theorem segPts_head (a b : Q3) (n : Nat) (hn : 2 ≤ n) : ∃ tl, segPts a b n = a :: tl := by
  obtain ⟨k, hk⟩ : ∃ k, n - 1 = k + 1 := ⟨n - 2, by omega⟩
  unfold segPts
  rw [hk, List.range_succ_eq_map, List.map_cons, lerp_zero]
  exact ⟨_, rfl⟩

/-- the label keys are indices of stored points, in strictly increasing order -/
def Inv (st : PathM) : Prop :=
  (∀ p ∈ st.labels, p.1 < st.K.length) ∧ (st.labels.map (·.1)).Pairwise (· < ·)

theorem inv_empty : Inv PathM.empty := by
  unfold Inv PathM.empty; simp

theorem dictSet_fresh (d : List (Nat × Nat)) (k v : Nat) (h : ∀ p ∈ d, p.1 < k) : dictSet d k v = d ++ [(k, v)] := by
  unfold dictSet
  have : d.any (fun p => p.1 == k) = false := by
    rw [List.any_eq_false]
    intro p hp
    have := h p hp
    simp; omega
  rw [this]; simp

/-- reading the stored points at the labelled indices -/
def labelsRead (st : PathM) : List (Q3 × Nat) := st.labels.map (fun p => (st.K.getD p.1 (0, 0, 0), p.2))

/-- the non-None nodes with their labels, in order -/
def someNodes (nodes : List (Option (Q3 × Nat))) : List (Q3 × Nat) := nodes.filterMap id

/-- one labelled append: the state after `new_labels[len(K)] = l ; K = vstack(K, a :: more)` -/
theorem push_inv (st : PathM) (a : Q3) (more : List Q3) (la : Nat) (brk : List Nat) (hinv : Inv st) :
    let st' : PathM := { K := st.K ++ a :: more, labels := dictSet st.labels st.K.length la, breaks := brk }
    Inv st' ∧ st'.labels = st.labels ++ [(st.K.length, la)] ∧ labelsRead st' = labelsRead st ++ [(a, la)] := by
  obtain ⟨h1, h2⟩ := hinv
  have hfresh := dictSet_fresh st.labels st.K.length la h1
  intro st'
  have hl : st'.labels = st.labels ++ [(st.K.length, la)] := hfresh
  refine ⟨⟨?_, ?_⟩, hl, ?_⟩
  · intro p hp
    rw [hl] at hp
    show p.1 < (st.K ++ a :: more).length
    rw [List.length_append, List.length_cons]
    rcases List.mem_append.mp hp with hp | hp
    · have := h1 p hp; omega
    · simp at hp; rw [hp]; simp
  · rw [hl, List.map_append, List.pairwise_append]
    refine ⟨h2, by simp, ?_⟩
    intro x hx y hy
    obtain ⟨p, hp, rfl⟩ := List.mem_map.mp hx
    simp at hy
    rw [hy]
    exact h1 p hp
  · unfold labelsRead
    rw [hl, List.map_append]
    congr 1
    · apply List.map_congr_left
      intro p hp
      show ((st.K ++ a :: more).getD p.1 (0, 0, 0), p.2) = (st.K.getD p.1 (0, 0, 0), p.2)
      rw [getD_append_left' _ _ _ _ (h1 p hp)]
    · show [((st.K ++ a :: more).getD st.K.length (0, 0, 0), la)] = [(a, la)]
      rw [getD_append_right' _ _ _ _ (le_refl _)]
      simp

/-! ### from_nodes: nodes in order at the labelled indices -/

theorem fromNodesLoop_labels : ∀ (nodes : List (Option (Q3 × Nat))) (nks : List Nat) (st r : PathM),
    Inv st → (∀ n ∈ nks, 2 ≤ n) → fromNodesLoop nodes nks st = some r →
    Inv r ∧ labelsRead r = labelsRead st ++ someNodes nodes
  | [], _, _, _, _, _, h => by simp [fromNodesLoop] at h
  | [none], _, _, _, _, _, h => by simp [fromNodesLoop] at h
  | [some (a, la)], nks, st, r, hinv, _, h => by
    simp only [fromNodesLoop, Option.some.injEq] at h
    subst h
    obtain ⟨i1, _, i3⟩ := push_inv st a [] la st.breaks hinv
    exact ⟨i1, by rw [i3]; simp [someNodes]⟩
  | none :: y :: rest, nks, st, r, hinv, hn, h => by
    simp only [fromNodesLoop] at h
    have := fromNodesLoop_labels (y :: rest) nks st r hinv hn h
    simpa [someNodes] using this
  | some (a, la) :: none :: rest, nks, st, r, hinv, hn, h => by
    simp only [fromNodesLoop] at h
    obtain ⟨i1, _, i3⟩ := push_inv st a [] la (st.breaks ++ [st.K.length]) hinv
    obtain ⟨j1, j2⟩ := fromNodesLoop_labels (none :: rest) nks _ r i1 hn h
    refine ⟨j1, ?_⟩
    rw [j2, i3]
    simp [someNodes]
  | some (a, la) :: some (b, lb) :: rest, nks, st, r, hinv, hn, h => by
    simp only [fromNodesLoop] at h
    have hn2 : 2 ≤ nks.headD 2 := by
      cases nks with
      | nil => simp
      | cons n _ => simpa using hn n (by simp)
    obtain ⟨tl, htl⟩ := segPts_head a b (nks.headD 2) hn2
    rw [htl] at h
    obtain ⟨i1, _, i3⟩ := push_inv st a tl la st.breaks hinv
    have hn' : ∀ n ∈ nks.tail, 2 ≤ n := fun n hn'' => hn n (List.mem_of_mem_tail hn'')
    obtain ⟨j1, j2⟩ := fromNodesLoop_labels (some (b, lb) :: rest) nks.tail _ r i1 hn' h
    refine ⟨j1, ?_⟩
    rw [j2, i3]
    simp [someNodes]

/-- the run only appends: earlier points and labels are kept, and when the next node is `b` the first appended
    point is `b`, labelled at its index -/
theorem fromNodesLoop_grow : ∀ (nodes : List (Option (Q3 × Nat))) (nks : List Nat) (st r : PathM),
    Inv st → (∀ n ∈ nks, 2 ≤ n) → fromNodesLoop nodes nks st = some r →
    ∃ ext lext, r.K = st.K ++ ext ∧ r.labels = st.labels ++ lext ∧
      (∀ b lb rest', nodes = some (b, lb) :: rest' → ext.head? = some b ∧ lext.head? = some (st.K.length, lb))
  | [], _, _, _, _, _, h => by simp [fromNodesLoop] at h
  | [none], _, _, _, _, _, h => by simp [fromNodesLoop] at h
  | [some (a, la)], nks, st, r, hinv, _, h => by
    simp only [fromNodesLoop, Option.some.injEq] at h
    subst h
    obtain ⟨_, i2, _⟩ := push_inv st a [] la st.breaks hinv
    refine ⟨[a], [(st.K.length, la)], rfl, i2, ?_⟩
    intro b lb rest' e
    simp only [List.cons.injEq, Option.some.injEq, Prod.mk.injEq] at e
    obtain ⟨⟨rfl, rfl⟩, _⟩ := e
    simp
  | none :: y :: rest, nks, st, r, hinv, hn, h => by
    simp only [fromNodesLoop] at h
    obtain ⟨ext, lext, h1, h2, _⟩ := fromNodesLoop_grow (y :: rest) nks st r hinv hn h
    exact ⟨ext, lext, h1, h2, by intro b lb rest' e; simp at e⟩
  | some (a, la) :: none :: rest, nks, st, r, hinv, hn, h => by
    simp only [fromNodesLoop] at h
    obtain ⟨i1, i2, _⟩ := push_inv st a [] la (st.breaks ++ [st.K.length]) hinv
    obtain ⟨ext, lext, h1, h2, _⟩ := fromNodesLoop_grow (none :: rest) nks _ r i1 hn h
    refine ⟨a :: ext, (st.K.length, la) :: lext, ?_, ?_, ?_⟩
    · rw [h1]; simp
    · rw [h2, i2]; simp
    · intro b lb rest' e
      simp only [List.cons.injEq, Option.some.injEq, Prod.mk.injEq] at e
      obtain ⟨⟨rfl, rfl⟩, _⟩ := e
      simp
  | some (a, la) :: some (b, lb) :: rest, nks, st, r, hinv, hn, h => by
    simp only [fromNodesLoop] at h
    have hn2 : 2 ≤ nks.headD 2 := by
      cases nks with
      | nil => simp
      | cons n _ => simpa using hn n (by simp)
    obtain ⟨tl, htl⟩ := segPts_head a b (nks.headD 2) hn2
    rw [htl] at h
    obtain ⟨i1, i2, _⟩ := push_inv st a tl la st.breaks hinv
    have hn' : ∀ n ∈ nks.tail, 2 ≤ n := fun n hn'' => hn n (List.mem_of_mem_tail hn'')
    obtain ⟨ext, lext, h1, h2, _⟩ := fromNodesLoop_grow (some (b, lb) :: rest) nks.tail _ r i1 hn' h
    refine ⟨a :: tl ++ ext, (st.K.length, la) :: lext, ?_, ?_, ?_⟩
    · rw [h1]; simp
    · rw [h2, i2]; simp
    · intro b' lb' rest' e
      simp only [List.cons.injEq, Option.some.injEq, Prod.mk.injEq] at e
      obtain ⟨⟨rfl, rfl⟩, _⟩ := e
      simp

/-! ### get_refined -/

/-- number of refined points generated for original point `i` -/
def stepLen (P : PathM) (factor i : Nat) : Nat := if P.breaks.contains i then 1 else factor

/-- refined offset of the `t`-th remaining point when the scan is at original index `i` -/
def phiFrom (P : PathM) (factor : Nat) : Nat → Nat → Nat
  | _, 0 => 0
  | i, t + 1 => stepLen P factor i + phiFrom P factor (i + 1) t

theorem interior_length (a b : Q3) (factor : Nat) : (interior a b factor).length = factor - 1 := by
  unfold interior; simp

theorem pushOrig_K (P : PathM) (i : Nat) (a : Q3) (st : PathM) : (pushOrig P i a st).K = st.K ++ [a] := rfl

theorem refineGo_prefix (P : PathM) (factor : Nat) : ∀ (l : List Q3) (i : Nat) (st : PathM),
    ∃ ext, (refineGo P factor i l st).K = st.K ++ ext
  | [], _, st => ⟨[], by simp [refineGo]⟩
  | [a], i, st => ⟨[a], by simp [refineGo, pushOrig_K]⟩
  | a :: b :: rest, i, st => by
    simp only [refineGo]
    obtain ⟨ext, h⟩ := refineGo_prefix P factor (b :: rest) (i + 1)
      (if P.breaks.contains i then pushOrig P i a st
       else { pushOrig P i a st with K := (pushOrig P i a st).K ++ interior a b factor })
    rw [h]
    split
    · exact ⟨[a] ++ ext, by rw [pushOrig_K]; simp⟩
    · exact ⟨[a] ++ interior a b factor ++ ext, by simp [pushOrig_K]⟩

/-- T4 core: the `t`-th remaining original point sits at refined offset `phiFrom i t` -/
theorem refineGo_points (P : PathM) (factor : Nat) (hf : 1 ≤ factor) : ∀ (l : List Q3) (i : Nat) (st : PathM) (t : Nat),
    t < l.length →
    (refineGo P factor i l st).K.getD (st.K.length + phiFrom P factor i t) (0, 0, 0) = l.getD t (0, 0, 0)
  | [], _, _, t, h => by simp at h
  | [a], i, st, t, h => by
    have : t = 0 := by simpa using h
    subst this
    simp [refineGo, pushOrig_K, phiFrom]
  | a :: b :: rest, i, st, 0, _ => by
    simp only [refineGo, phiFrom, Nat.add_zero]
    obtain ⟨ext, h⟩ := refineGo_prefix P factor (b :: rest) (i + 1)
      (if P.breaks.contains i then pushOrig P i a st
       else { pushOrig P i a st with K := (pushOrig P i a st).K ++ interior a b factor })
    rw [h]
    split
    · rw [pushOrig_K, List.append_assoc, getD_append_right' _ _ _ _ (le_refl _)]; simp
    · simp only [pushOrig_K]
      rw [List.append_assoc, List.append_assoc, getD_append_right' _ _ _ _ (le_refl _)]; simp
  | a :: b :: rest, i, st, t + 1, h => by
    simp only [refineGo]
    have ih := refineGo_points P factor hf (b :: rest) (i + 1)
      (if P.breaks.contains i then pushOrig P i a st
       else { pushOrig P i a st with K := (pushOrig P i a st).K ++ interior a b factor }) t (by simpa using h)
    have hlen : (if P.breaks.contains i then pushOrig P i a st
       else { pushOrig P i a st with K := (pushOrig P i a st).K ++ interior a b factor }).K.length
        = st.K.length + stepLen P factor i := by
      unfold stepLen
      split
      · simp [pushOrig_K]
      · simp only [pushOrig_K, List.length_append, interior_length, List.length_cons, List.length_nil]; omega
    rw [hlen] at ih
    have e : st.K.length + phiFrom P factor i (t + 1) = st.K.length + stepLen P factor i + phiFrom P factor (i + 1) t := by
      simp only [phiFrom]; omega
    rw [e, ih]
    simp

theorem fromNodesLoop_breaks : ∀ (nodes : List (Option (Q3 × Nat))) (nks : List Nat) (st r : PathM),
    fromNodesLoop nodes nks st = some r → ∃ bext, r.breaks = st.breaks ++ bext
  | [], _, _, _, h => by simp [fromNodesLoop] at h
  | [none], _, _, _, h => by simp [fromNodesLoop] at h
  | [some (a, la)], nks, st, r, h => by
    simp only [fromNodesLoop, Option.some.injEq] at h
    subst h
    exact ⟨[], by simp⟩
  | none :: y :: rest, nks, st, r, h => by
    simp only [fromNodesLoop] at h
    exact fromNodesLoop_breaks (y :: rest) nks st r h
  | some (a, la) :: none :: rest, nks, st, r, h => by
    simp only [fromNodesLoop] at h
    obtain ⟨bext, hb⟩ := fromNodesLoop_breaks (none :: rest) nks _ r h
    exact ⟨st.K.length :: bext, by rw [hb]; simp⟩
  | some (a, la) :: some (b, lb) :: rest, nks, st, r, h => by
    simp only [fromNodesLoop] at h
    obtain ⟨bext, hb⟩ := fromNodesLoop_breaks (some (b, lb) :: rest) nks.tail _ r h
    exact ⟨bext, by rw [hb]⟩

/-! ### get_refined: labels and breaks -/

/-- labels generated while scanning `n` remaining points from original index `i`, the first one being stored at
    refined index `base` -/
def refLabels (P : PathM) (factor : Nat) : Nat → Nat → Nat → List (Nat × Nat)
  | _, _, 0 => []
  | base, i, n + 1 =>
    (match dictGet P.labels i with
      | some l => [(base, l)]
      | none => []) ++ refLabels P factor (base + stepLen P factor i) (i + 1) n

def refBreaks (P : PathM) (factor : Nat) : Nat → Nat → Nat → List Nat
  | _, _, 0 => []
  | base, i, n + 1 =>
    (if P.breaks.contains i then [base] else []) ++ refBreaks P factor (base + stepLen P factor i) (i + 1) n

theorem mem_refLabels (P : PathM) (factor : Nat) : ∀ (n base i : Nat) (k l : Nat),
    (k, l) ∈ refLabels P factor base i n ↔ ∃ t, t < n ∧ k = base + phiFrom P factor i t ∧ dictGet P.labels (i + t) = some l
  | 0, _, _, _, _ => by simp [refLabels]
  | n + 1, base, i, k, l => by
    rw [refLabels, List.mem_append, mem_refLabels P factor n]
    constructor
    · rintro (h | ⟨t, ht, hk, hl⟩)
      · refine ⟨0, by omega, ?_⟩
        cases hd : dictGet P.labels i with
        | none => rw [hd] at h; simp at h
        | some l' =>
          rw [hd] at h
          simp at h
          obtain ⟨rfl, rfl⟩ := h
          simp [phiFrom]
      · exact ⟨t + 1, by omega, by simp only [phiFrom]; omega, by rw [← hl]; congr 1; omega⟩
    · rintro ⟨t, ht, hk, hl⟩
      cases t with
      | zero =>
        left
        simp only [phiFrom, Nat.add_zero] at hk hl
        rw [hl, hk]; simp
      | succ t =>
        right
        exact ⟨t, by omega, by simp only [phiFrom] at hk; omega, by rw [← hl]; congr 1; omega⟩

theorem mem_refBreaks (P : PathM) (factor : Nat) : ∀ (n base i : Nat) (k : Nat),
    k ∈ refBreaks P factor base i n ↔ ∃ t, t < n ∧ k = base + phiFrom P factor i t ∧ P.breaks.contains (i + t) = true
  | 0, _, _, _ => by simp [refBreaks]
  | n + 1, base, i, k => by
    rw [refBreaks, List.mem_append, mem_refBreaks P factor n]
    constructor
    · rintro (h | ⟨t, ht, hk, hl⟩)
      · refine ⟨0, by omega, ?_⟩
        by_cases hc : P.breaks.contains i = true
        · rw [if_pos hc] at h
          simp at h
          exact ⟨by simp [phiFrom, h], by simpa using hc⟩
        · rw [if_neg hc] at h; simp at h
      · exact ⟨t + 1, by omega, by simp only [phiFrom]; omega,
          by have : i + (t + 1) = i + 1 + t := by omega
             rw [this]; exact hl⟩
    · rintro ⟨t, ht, hk, hl⟩
      cases t with
      | zero =>
        left
        simp only [phiFrom, Nat.add_zero] at hk hl
        rw [if_pos hl, hk]; simp
      | succ t =>
        right
        exact ⟨t, by omega, by simp only [phiFrom] at hk; omega,
          by have : i + 1 + t = i + (t + 1) := by omega
             rw [this]; exact hl⟩

theorem pushOrig_labels (P : PathM) (i : Nat) (a : Q3) (st : PathM) (hk : ∀ p ∈ st.labels, p.1 < st.K.length) :
    (pushOrig P i a st).labels = st.labels ++ (match dictGet P.labels i with
      | some l => [(st.K.length, l)]
      | none => []) ∧ (∀ p ∈ (pushOrig P i a st).labels, p.1 < st.K.length + 1) := by
  unfold pushOrig
  cases hd : dictGet P.labels i with
  | none =>
    simp only [List.append_nil]
    exact ⟨trivial, fun p hp => by have := hk p hp; omega⟩
  | some l =>
    simp only
    rw [dictSet_fresh _ _ _ hk]
    refine ⟨rfl, ?_⟩
    intro p hp
    rcases List.mem_append.mp hp with hp | hp
    · have := hk p hp; omega
    · simp at hp; rw [hp]; simp

theorem pushOrig_breaks (P : PathM) (i : Nat) (a : Q3) (st : PathM) :
    (pushOrig P i a st).breaks = st.breaks ++ (if P.breaks.contains i then [st.K.length] else []) := by
  show (if P.breaks.contains i then st.breaks ++ [st.K.length] else st.breaks) = _
  by_cases h : P.breaks.contains i = true
  · rw [if_pos h, if_pos h]
  · rw [if_neg h, if_neg h]; simp

theorem refineGo_labels (P : PathM) (factor : Nat) (hf : 1 ≤ factor) : ∀ (l : List Q3) (i : Nat) (st : PathM),
    (∀ p ∈ st.labels, p.1 < st.K.length) →
    (refineGo P factor i l st).labels = st.labels ++ refLabels P factor st.K.length i l.length ∧
    (refineGo P factor i l st).breaks = st.breaks ++ refBreaks P factor st.K.length i l.length
  | [], _, st, _ => by simp [refineGo, refLabels, refBreaks]
  | [a], i, st, hk => by
    obtain ⟨h1, _⟩ := pushOrig_labels P i a st hk
    simp only [refineGo, List.length_cons, List.length_nil, refLabels, refBreaks, List.append_nil]
    exact ⟨h1, pushOrig_breaks P i a st⟩
  | a :: b :: rest, i, st, hk => by
    obtain ⟨h1, h2⟩ := pushOrig_labels P i a st hk
    have hb := pushOrig_breaks P i a st
    simp only [refineGo]
    have hlen : (if P.breaks.contains i then pushOrig P i a st
       else { pushOrig P i a st with K := (pushOrig P i a st).K ++ interior a b factor }).K.length
        = st.K.length + stepLen P factor i := by
      unfold stepLen
      split
      · simp [pushOrig_K]
      · simp only [pushOrig_K, List.length_append, interior_length, List.length_cons, List.length_nil]; omega
    have hlab : (if P.breaks.contains i then pushOrig P i a st
       else { pushOrig P i a st with K := (pushOrig P i a st).K ++ interior a b factor }).labels
        = (pushOrig P i a st).labels := by split <;> rfl
    have hbrk : (if P.breaks.contains i then pushOrig P i a st
       else { pushOrig P i a st with K := (pushOrig P i a st).K ++ interior a b factor }).breaks
        = (pushOrig P i a st).breaks := by split <;> rfl
    have hstep : 1 ≤ stepLen P factor i := by unfold stepLen; split <;> omega
    obtain ⟨j1, j2⟩ := refineGo_labels P factor hf (b :: rest) (i + 1) _ (by
      intro p hp
      rw [hlab] at hp
      rw [hlen]
      have := h2 p hp
      omega)
    rw [j1, j2, hlab, hbrk, hlen, h1, hb]
    simp only [List.length_cons, refLabels, refBreaks, List.append_assoc]
    exact ⟨trivial, trivial⟩

/-- the uniform subdivision between two consecutive original points that are not separated by a break -/
theorem refineGo_interior (P : PathM) (factor : Nat) (hf : 1 ≤ factor) : ∀ (l : List Q3) (i : Nat) (st : PathM) (t j : Nat),
    t + 1 < l.length → P.breaks.contains (i + t) = false → j < factor →
    (refineGo P factor i l st).K.getD (st.K.length + phiFrom P factor i t + j) (0, 0, 0)
      = lerp (l.getD t (0, 0, 0)) (l.getD (t + 1) (0, 0, 0)) j factor
  | [], _, _, _, _, h, _, _ => by simp at h
  | [a], _, _, _, _, h, _, _ => by simp at h
  | a :: b :: rest, i, st, 0, j, _, hnb, hj => by
    simp only [refineGo, phiFrom, Nat.add_zero] at hnb ⊢
    obtain ⟨ext, h⟩ := refineGo_prefix P factor (b :: rest) (i + 1)
      (if P.breaks.contains i then pushOrig P i a st
       else { pushOrig P i a st with K := (pushOrig P i a st).K ++ interior a b factor })
    rw [h, hnb]
    simp only [Bool.false_eq_true, if_false, pushOrig_K]
    rw [List.append_assoc, List.append_assoc, getD_append_right' _ _ _ _ (by omega)]
    have e : st.K.length + j - st.K.length = j := by omega
    rw [e]
    cases j with
    | zero => simp [lerp_zero]
    | succ j =>
      simp only [List.cons_append, List.nil_append, List.getD_cons_succ]
      rw [getD_append_left' _ _ _ _ (by rw [interior_length]; omega)]
      unfold interior
      rw [List.getD_eq_getElem?_getD, List.getElem?_map, List.getElem?_range (by omega)]
      rfl
  | a :: b :: rest, i, st, t + 1, j, h, hnb, hj => by
    simp only [refineGo]
    have ih := refineGo_interior P factor hf (b :: rest) (i + 1)
      (if P.breaks.contains i then pushOrig P i a st
       else { pushOrig P i a st with K := (pushOrig P i a st).K ++ interior a b factor }) t j
      (by simpa using h) (by have : i + 1 + t = i + (t + 1) := by omega
                             rw [this]; exact hnb) hj
    have hlen : (if P.breaks.contains i then pushOrig P i a st
       else { pushOrig P i a st with K := (pushOrig P i a st).K ++ interior a b factor }).K.length
        = st.K.length + stepLen P factor i := by
      unfold stepLen
      split
      · simp [pushOrig_K]
      · simp only [pushOrig_K, List.length_append, interior_length, List.length_cons, List.length_nil]; omega
    rw [hlen] at ih
    have e : st.K.length + phiFrom P factor i (t + 1) + j
        = st.K.length + stepLen P factor i + phiFrom P factor (i + 1) t + j := by
      simp only [phiFrom]; omega
    rw [e, ih]
    simp

/-! ### self_to_path -/

theorem zip_map_self {α β} (f : α → β) : ∀ l : List α, (l.map f).zip l = l.map (fun p => (f p, p))
  | [] => rfl
  | a :: l => by simp [zip_map_self f l]

end WB.C29
