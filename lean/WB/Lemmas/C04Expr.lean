/-
  Soundness of the covariant-expression syntax of `WB/Model/C04.lean`: every expression built from covariant atoms by
  sums, differences, scalar multiples, products over a shared index set, Hermitian conjugation and element-wise
  factors depending on the two band energies is covariant under unitary rotations of the inner and of the outer
  states that mix only states of exactly equal energy.
-/
import WB.Lemmas.C04Gauge

namespace WB.C04
open Matrix

variable {K : Type} [Field K] [StarRing K]

/-- an index-function block as a Mathlib matrix -/
def toMat (p q : ℕ) (f : ℕ → ℕ → K) : Matrix (Fin p) (Fin q) K := Matrix.of fun i j => f i j

/-- element-wise factors that depend only on the energies of the row and of the column commute with the gauge
    change, provided the unitaries mix only equal energies -/
theorem cj_had {p q : ℕ} (U : Matrix (Fin p) (Fin p) K) (W : Matrix (Fin q) (Fin q) K)
    (X : Matrix (Fin p) (Fin q) K) (er : Fin p → K) (ec : Fin q → K) (φ : K → K → K)
    (hU : ∀ i j, U i j ≠ 0 → er i = er j) (hW : ∀ i j, W i j ≠ 0 → ec i = ec j) :
    cj U W (Matrix.of fun i j => X i j * φ (er i) (ec j))
      = Matrix.of fun a b => cj U W X a b * φ (er a) (ec b) := by
  ext a b
  simp only [cj, Matrix.mul_apply, Matrix.conjTranspose_apply, Matrix.of_apply, Finset.sum_mul]
  apply Finset.sum_congr rfl; intro x _
  apply Finset.sum_congr rfl; intro y _
  by_cases h1 : U y a = 0
  · simp [h1]
  · by_cases h2 : W x b = 0
    · simp [h2]
    · rw [hU y a h1, hW x b h2]; ring

/-- a gauge change: one unitary per index set, mixing only states of exactly equal energy -/
structure Gauge (env : BEnv K) where
  U : (s : Side) → Matrix (Fin (env.dim s)) (Fin (env.dim s)) K
  unitary : ∀ s, U s * (U s)ᴴ = 1
  energy : ∀ s (i j : Fin (env.dim s)), U s i j ≠ 0 → env.en s i = env.en s j

/-- **Soundness.**  If every atom block transforms covariantly, so does every expression. -/
theorem covariant_sound (env : BEnv K) (g : Gauge env)
    (blk' : String → ℕ → List ℕ → Side → Side → ℕ → ℕ → K)
    (hatom : ∀ name der cs r c, toMat (env.dim r) (env.dim c) (blk' name der cs r c)
      = cj (g.U r) (g.U c) (toMat (env.dim r) (env.dim c) (env.blk name der cs r c)))
    {r c : Side} (e : CExpr K r c) :
    toMat (env.dim r) (env.dim c) (e.eval star { env with blk := blk' })
      = cj (g.U r) (g.U c) (toMat (env.dim r) (env.dim c) (e.eval star env)) := by
  induction e with
  | atom name der cs r c => exact hatom name der cs r c
  | zero r c =>
    have : ∀ env' : BEnv K, toMat (env.dim r) (env.dim c) ((CExpr.zero r c : CExpr K r c).eval star env') = 0 :=
      fun _ => rfl
    rw [this, this]; unfold cj; rw [Matrix.mul_zero, Matrix.zero_mul]
  | @add r c a b iha ihb =>
    have : ∀ env' : BEnv K, toMat (env.dim r) (env.dim c) ((CExpr.add a b).eval star env')
        = toMat (env.dim r) (env.dim c) (a.eval star env') + toMat (env.dim r) (env.dim c) (b.eval star env') :=
      fun _ => rfl
    rw [this, this, iha, ihb, cj_add]
  | @sub r c a b iha ihb =>
    have : ∀ env' : BEnv K, toMat (env.dim r) (env.dim c) ((CExpr.sub a b).eval star env')
        = toMat (env.dim r) (env.dim c) (a.eval star env') - toMat (env.dim r) (env.dim c) (b.eval star env') :=
      fun _ => rfl
    rw [this, this, iha, ihb, cj_sub]
  | @neg r c a iha =>
    have : ∀ env' : BEnv K, toMat (env.dim r) (env.dim c) ((CExpr.neg a).eval star env')
        = (-1 : K) • toMat (env.dim r) (env.dim c) (a.eval star env') := by
      intro env'; ext i j; simp [toMat, CExpr.eval]
    rw [this, this, iha, cj_smul]
  | @smul r c k a iha =>
    have : ∀ env' : BEnv K, toMat (env.dim r) (env.dim c) ((CExpr.smul k a).eval star env')
        = k • toMat (env.dim r) (env.dim c) (a.eval star env') := fun _ => rfl
    rw [this, this, iha, cj_smul]
  | @mul r m c a b iha ihb =>
    have h1 : toMat (env.dim r) (env.dim c) ((CExpr.mul a b).eval star { env with blk := blk' })
        = toMat (env.dim r) (env.dim m) (a.eval star { env with blk := blk' })
          * toMat (env.dim m) (env.dim c) (b.eval star { env with blk := blk' }) := by
      ext i j
      simp only [toMat, CExpr.eval, sumRange_eq, Matrix.mul_apply, Matrix.of_apply]
    have h2 : toMat (env.dim r) (env.dim c) ((CExpr.mul a b).eval star env)
        = toMat (env.dim r) (env.dim m) (a.eval star env) * toMat (env.dim m) (env.dim c) (b.eval star env) := by
      ext i j
      simp only [toMat, CExpr.eval, sumRange_eq, Matrix.mul_apply, Matrix.of_apply]
    rw [h1, h2, iha, ihb, cj_mul _ _ _ (g.unitary m)]
  | @herm r c a iha =>
    have : ∀ env' : BEnv K, toMat (env.dim r) (env.dim c) ((CExpr.herm a).eval star env')
        = (toMat (env.dim c) (env.dim r) (a.eval star env'))ᴴ := fun _ => rfl
    rw [this, this, iha, cj_conjTranspose]
  | @had r c φ a iha =>
    have h1 : toMat (env.dim r) (env.dim c) ((CExpr.had φ a).eval star { env with blk := blk' })
        = Matrix.of fun i j : Fin _ => toMat (env.dim r) (env.dim c) (a.eval star { env with blk := blk' }) i j
            * φ (env.en r i) (env.en c j) := rfl
    have h2 : toMat (env.dim r) (env.dim c) ((CExpr.had φ a).eval star env)
        = Matrix.of fun i j : Fin _ => toMat (env.dim r) (env.dim c) (a.eval star env) i j
            * φ (env.en r i) (env.en c j) := rfl
    rw [h1, h2, iha,
      cj_had (g.U r) (g.U c) _ (fun i => env.en r i) (fun j => env.en c j) φ (g.energy r) (g.energy c)]

/-- hence the trace of every inner-block expression (what `Formula_ln.trace` returns, before `.real`) is gauge
    invariant -/
theorem trace_sound (env : BEnv K) (g : Gauge env)
    (blk' : String → ℕ → List ℕ → Side → Side → ℕ → ℕ → K)
    (hatom : ∀ name der cs r c, toMat (env.dim r) (env.dim c) (blk' name der cs r c)
      = cj (g.U r) (g.U c) (toMat (env.dim r) (env.dim c) (env.blk name der cs r c)))
    {r : Side} (e : CExpr K r r) :
    traceM (env.dim r) (e.eval star { env with blk := blk' }) = traceM (env.dim r) (e.eval star env) := by
  rw [traceM_eq, traceM_eq]
  have := covariant_sound env g blk' hatom e
  unfold toMat at this
  rw [this]
  exact trace_cj _ _ (g.unitary r)

end WB.C04
