/-
  Helper lemmas for C30: the C-order grid index, the k-points of a factorisation, `to_grid`.
-/
import WB.Model.C30
import Mathlib.Data.List.Nodup
import Mathlib.Data.List.Range
import Mathlib.Algebra.Field.Basic
import Mathlib.Algebra.CharZero.Defs
import Mathlib.Data.Rat.Defs
import Mathlib.Data.Rat.Cast.CharZero
import Mathlib.Algebra.Order.Field.Rat
import Mathlib.Tactic.Ring
import Mathlib.Tactic.FieldSimp
import Mathlib.Tactic.Linarith

namespace WB.C30

/-! ### C-order index -/

theorem unindex_cindex_aux (g1 g2 x y z : Nat) (hy : y < g1) (hz : z < g2) :
    let s := z + g2 * (y + g1 * x)
    s / (g1 * g2) = x ∧ (s / g2) % g1 = y ∧ s % g2 = z := by
  intro s
  have hg2 : 0 < g2 := by omega
  have hg1 : 0 < g1 := by omega
  have h1 : s % g2 = z := by
    show (z + g2 * (y + g1 * x)) % g2 = z
    rw [Nat.add_mul_mod_self_left, Nat.mod_eq_of_lt hz]
  have h2 : s / g2 = y + g1 * x := by
    show (z + g2 * (y + g1 * x)) / g2 = y + g1 * x
    rw [Nat.add_mul_div_left _ _ hg2, Nat.div_eq_of_lt hz, Nat.zero_add]
  have h3 : (s / g2) % g1 = y := by
    rw [h2, Nat.add_mul_mod_self_left, Nat.mod_eq_of_lt hy]
  have h4 : s / (g1 * g2) = x := by
    rw [Nat.mul_comm g1 g2, ← Nat.div_div_eq_div_mul, h2, Nat.add_mul_div_left _ _ hg1, Nat.div_eq_of_lt hy,
      Nat.zero_add]
  exact ⟨h4, h3, h1⟩

theorem unindex_cindex' (g p : N3) (h : inBox g p) : unindex g (cindex g p) = p := by
  obtain ⟨g0, g1, g2⟩ := g
  obtain ⟨x, y, z⟩ := p
  obtain ⟨_, hy, hz⟩ := h
  simp only at hy hz
  obtain ⟨h1, h2, h3⟩ := unindex_cindex_aux g1 g2 x y z hy hz
  simp only [unindex, cindex]
  rw [h1, h2, h3]

theorem cindex_lt' (g p : N3) (h : inBox g p) : cindex g p < vol g := by
  obtain ⟨g0, g1, g2⟩ := g
  obtain ⟨x, y, z⟩ := p
  obtain ⟨hx, hy, hz⟩ := h
  simp only at hx hy hz
  simp only [cindex, vol]
  have h1 : y + g1 * x + 1 ≤ g1 * g0 := by
    calc y + g1 * x + 1 ≤ g1 + g1 * x := by omega
      _ = g1 * (x + 1) := by ring
      _ ≤ g1 * g0 := Nat.mul_le_mul_left _ hx
  calc z + g2 * (y + g1 * x) < g2 + g2 * (y + g1 * x) := by omega
    _ = g2 * (y + g1 * x + 1) := by ring
    _ ≤ g2 * (g1 * g0) := Nat.mul_le_mul_left _ h1
    _ = g0 * g1 * g2 := by ring

theorem cindex_unindex' (g : N3) (s : Nat) (hs : s < vol g) :
    cindex g (unindex g s) = s ∧ inBox g (unindex g s) := by
  obtain ⟨g0, g1, g2⟩ := g
  simp only [vol] at hs
  have hg2 : 0 < g2 := by
    rcases Nat.eq_zero_or_pos g2 with h | h
    · subst h; simp at hs
    · exact h
  have hg1 : 0 < g1 := by
    rcases Nat.eq_zero_or_pos g1 with h | h
    · subst h; simp at hs
    · exact h
  simp only [cindex, unindex, inBox]
  refine ⟨?_, ?_, Nat.mod_lt _ hg1, Nat.mod_lt _ hg2⟩
  · have e1 : s / (g1 * g2) = s / g2 / g1 := by rw [Nat.mul_comm, Nat.div_div_eq_div_mul]
    rw [e1, Nat.mod_add_div, Nat.mod_add_div]
  · rw [Nat.div_lt_iff_lt_mul (Nat.mul_pos hg1 hg2)]
    calc s < g0 * g1 * g2 := hs
      _ = g0 * (g1 * g2) := by ring

/-! ### the k-points of a factorisation -/

theorem mem_triples (n p : N3) : p ∈ triples n ↔ inBox n p := by
  obtain ⟨a, b, c⟩ := n
  obtain ⟨x, y, z⟩ := p
  simp only [triples, List.mem_flatMap, List.mem_map, List.mem_range, inBox, Prod.mk.injEq]
  constructor
  · rintro ⟨x', hx, y', hy, z', hz, rfl, rfl, rfl⟩
    exact ⟨hx, hy, hz⟩
  · rintro ⟨hx, hy, hz⟩
    exact ⟨x, hx, y, hy, z, hz, rfl, rfl, rfl⟩

theorem triples_nodup (n : N3) : (triples n).Nodup := by
  obtain ⟨a, b, c⟩ := n
  simp only [triples]
  rw [List.nodup_flatMap]
  constructor
  · intro x _
    rw [List.nodup_flatMap]
    constructor
    · intro y _
      exact List.nodup_range.map (fun z z' h => by simpa using h)
    · refine List.nodup_range.imp ?_
      intro y y' hne
      simp only [Function.onFun, List.disjoint_left, List.mem_map, List.mem_range]
      rintro p ⟨z, _, rfl⟩ ⟨z', _, h⟩
      simp only [Prod.mk.injEq] at h
      exact hne h.2.1.symm
  · refine List.nodup_range.imp ?_
    intro x x' hne
    simp only [Function.onFun, List.disjoint_left, List.mem_flatMap, List.mem_map, List.mem_range]
    rintro p ⟨y, _, z, _, rfl⟩ ⟨y', _, z', _, h⟩
    simp only [Prod.mk.injEq] at h
    exact hne h.1.symm

theorem axis_lt (d f x i : Nat) (hx : x < d) (hi : i < f) : x + d * i < d * f := by
  calc x + d * i < d + d * i := by omega
    _ = d * (i + 1) := by ring
    _ ≤ d * f := Nat.mul_le_mul_left _ hi

theorem axis_inj (d x i x' i' : Nat) (hx : x < d) (hx' : x' < d) (h : x + d * i = x' + d * i') :
    x = x' ∧ i = i' := by
  have hd : 0 < d := by omega
  have h1 : (x + d * i) % d = x := by rw [Nat.add_mul_mod_self_left, Nat.mod_eq_of_lt hx]
  have h2 : (x' + d * i') % d = x' := by rw [Nat.add_mul_mod_self_left, Nat.mod_eq_of_lt hx']
  have h3 : (x + d * i) / d = i := by rw [Nat.add_mul_div_left _ _ hd, Nat.div_eq_of_lt hx, Nat.zero_add]
  have h4 : (x' + d * i') / d = i' := by rw [Nat.add_mul_div_left _ _ hd, Nat.div_eq_of_lt hx', Nat.zero_add]
  rw [h] at h1 h3
  exact ⟨h1.symm.trans h2, h3.symm.trans h4⟩

theorem kpointOf_inBox (div Kp F fft : N3) (hK : inBox div Kp) (hF : inBox fft F) :
    inBox (dense div fft) (kpointOf div Kp F) :=
  ⟨axis_lt _ _ _ _ hK.1 hF.1, axis_lt _ _ _ _ hK.2.1 hF.2.1, axis_lt _ _ _ _ hK.2.2 hF.2.2⟩

theorem kpointOf_inj (div Kp F Kp' F' : N3) (hK : inBox div Kp) (hK' : inBox div Kp')
    (h : kpointOf div Kp F = kpointOf div Kp' F') : Kp = Kp' ∧ F = F' := by
  obtain ⟨d0, d1, d2⟩ := div
  obtain ⟨x, y, z⟩ := Kp
  obtain ⟨x', y', z'⟩ := Kp'
  obtain ⟨i, j, k⟩ := F
  obtain ⟨i', j', k'⟩ := F'
  simp only [kpointOf, Prod.mk.injEq] at h
  obtain ⟨a1, a2⟩ := axis_inj _ _ _ _ _ hK.1 hK'.1 h.1
  obtain ⟨b1, b2⟩ := axis_inj _ _ _ _ _ hK.2.1 hK'.2.1 h.2.1
  obtain ⟨c1, c2⟩ := axis_inj _ _ _ _ _ hK.2.2 hK'.2.2 h.2.2
  simp only at a1 a2 b1 b2 c1 c2
  subst a1 a2 b1 b2 c1 c2
  exact ⟨rfl, rfl⟩

theorem axis_surj (d f X : Nat) (hd : 0 < d) (hX : X < d * f) :
    X % d < d ∧ X / d < f ∧ X % d + d * (X / d) = X :=
  ⟨Nat.mod_lt _ hd, (Nat.div_lt_iff_lt_mul hd).2 (by rw [Nat.mul_comm]; exact hX), Nat.mod_add_div _ _⟩

theorem mem_tabPoints (div fft P : N3) (hd : 0 < div.1 ∧ 0 < div.2.1 ∧ 0 < div.2.2) :
    P ∈ tabPoints div fft ↔ inBox (dense div fft) P := by
  simp only [tabPoints, List.mem_flatMap, List.mem_map, mem_triples]
  constructor
  · rintro ⟨Kp, hK, F, hF, rfl⟩
    exact kpointOf_inBox div Kp F fft hK hF
  · intro hP
    obtain ⟨a1, a2, a3⟩ := axis_surj div.1 fft.1 P.1 hd.1 hP.1
    obtain ⟨b1, b2, b3⟩ := axis_surj div.2.1 fft.2.1 P.2.1 hd.2.1 hP.2.1
    obtain ⟨c1, c2, c3⟩ := axis_surj div.2.2 fft.2.2 P.2.2 hd.2.2 hP.2.2
    refine ⟨(P.1 % div.1, P.2.1 % div.2.1, P.2.2 % div.2.2), ⟨a1, b1, c1⟩,
      (P.1 / div.1, P.2.1 / div.2.1, P.2.2 / div.2.2), ⟨a2, b2, c2⟩, ?_⟩
    simp only [kpointOf, a3, b3, c3]

theorem tabPoints_nodup (div fft : N3) : (tabPoints div fft).Nodup := by
  simp only [tabPoints]
  rw [List.nodup_flatMap]
  constructor
  · intro Kp hK
    rw [mem_triples] at hK
    refine (triples_nodup fft).map_on ?_
    intro F _ F' _ h
    exact (kpointOf_inj div Kp F Kp F' hK hK h).2
  · have hnd : List.Pairwise (· ≠ ·) (triples div) := triples_nodup div
    refine hnd.imp_of_mem ?_
    intro Kp Kp' hK hK' hne
    rw [mem_triples] at hK hK'
    simp only [Function.onFun, List.disjoint_left, List.mem_map]
    rintro p ⟨F, _, rfl⟩ ⟨F', _, h⟩
    exact hne (kpointOf_inj div Kp' F' Kp F hK' hK h).1.symm

/-! ### `to_grid` -/

theorem rint_int (n : Int) : rint (n : Rat) = n := by
  unfold rint
  simp only [Rat.floor_intCast, sub_self]
  norm_num

theorem coord_exact (g X : Nat) (hX : X < g) : coord g ((X : Rat) / g) = (true, X) := by
  have hg : (g : Rat) ≠ 0 := by
    have : 0 < g := by omega
    exact_mod_cast this.ne'
  have h1 : (X : Rat) / g * g = ((X : Int) : Rat) := by
    rw [div_mul_cancel₀ _ hg]; simp
  unfold coord
  simp only [h1, rint_int]
  refine Prod.ext ?_ ?_
  · simp only [Int.cast_natCast, sub_self, absQ]
    norm_num
  · simp only
    have : ((X : Int) % (g : Int)) = (X : Int) := Int.emod_eq_of_lt (by omega) (by exact_mod_cast hX)
    rw [this]; simp

theorem slotOf_exact (g P : N3) (h : inBox g P) : slotOf g (toQ g P) = some (cindex g P) := by
  unfold slotOf toQ
  simp only [coord_exact _ _ h.1, coord_exact _ _ h.2.1, coord_exact _ _ h.2.2]
  simp

theorem mem_kmap (g : N3) (kpts : List Q3) (s ik : Nat) :
    ik ∈ kmap g kpts s ↔ ik < kpts.length ∧ slotOf g (kpts.getD ik (0, 0, 0)) = some s := by
  simp [kmap]

section
variable {K : Type} [Field K]

theorem foldl_add_const (l : List Nat) (v a : K) :
    (l.map (fun _ => v)).foldl (· + ·) a = a + (l.length : K) * v := by
  induction l generalizing a with
  | nil => simp
  | cons x l ih =>
    simp only [List.map_cons, List.foldl_cons, List.length_cons]
    rw [ih]
    push_cast
    ring

theorem sumList_const [CharZero K] (l : List Nat) (hl : l ≠ []) (data : Nat → K) (v : K)
    (h : ∀ ik ∈ l, data ik = v) : sumList (l.map data) / (l.length : K) = v := by
  have e : l.map data = l.map (fun _ => v) := List.map_congr_left h
  have hlen : (l.length : K) ≠ 0 := by
    have : l.length ≠ 0 := by simpa using hl
    exact_mod_cast this
  rw [sumList, e, foldl_add_const, zero_add, mul_div_cancel_left₀ _ hlen]

end

/-- `T` is an array with exactly `ndim` tensor axes: positions beyond them are never read -/
def HasRank {F : Type} (ndim : Nat) (T : TArr F) : Prop :=
  ∀ v t t', (∀ a, a < ndim → t a = t' a) → T v t = T v t'

end WB.C30
