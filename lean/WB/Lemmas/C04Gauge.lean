/-
  Helper lemmas for C04 (and C05): unitary conjugation of matrix blocks, covariance of the building blocks of the
  gauge-covariant formulas, and the bridge from the index-function model of `Data_K._rotate` to Mathlib matrices.
-/
import WB.Model.C04
import Mathlib.LinearAlgebra.Matrix.Trace
import Mathlib.LinearAlgebra.Matrix.ConjTranspose
import Mathlib.Data.Matrix.Block
import Mathlib.Algebra.BigOperators.Fin
import Mathlib.Algebra.Star.BigOperators
import Mathlib.Algebra.Field.Basic
import Mathlib.Tactic.Ring
import Mathlib.Tactic.Linarith

namespace WB.C04
open Matrix

variable {K : Type} [Field K] [StarRing K]
variable {n l : ℕ}

/-- the gauge change of a block: `Uᴴ X W` (inner unitary `U` on the rows, unitary `W` on the columns) -/
def cj {p q : ℕ} (U : Matrix (Fin p) (Fin p) K) (W : Matrix (Fin q) (Fin q) K) (X : Matrix (Fin p) (Fin q) K) :
    Matrix (Fin p) (Fin q) K := Uᴴ * X * W

theorem cj_add {p q : ℕ} (U : Matrix (Fin p) (Fin p) K) (W : Matrix (Fin q) (Fin q) K) (X Y : Matrix (Fin p) (Fin q) K) :
    cj U W (X + Y) = cj U W X + cj U W Y := by
  unfold cj; rw [Matrix.mul_add, Matrix.add_mul]

theorem cj_sub {p q : ℕ} (U : Matrix (Fin p) (Fin p) K) (W : Matrix (Fin q) (Fin q) K) (X Y : Matrix (Fin p) (Fin q) K) :
    cj U W (X - Y) = cj U W X - cj U W Y := by
  unfold cj; rw [Matrix.mul_sub, Matrix.sub_mul]

theorem cj_smul {p q : ℕ} (U : Matrix (Fin p) (Fin p) K) (W : Matrix (Fin q) (Fin q) K) (c : K) (X : Matrix (Fin p) (Fin q) K) :
    cj U W (c • X) = c • cj U W X := by
  unfold cj; rw [Matrix.mul_smul, Matrix.smul_mul]

/-- products: the unitary in the middle drops out -/
theorem cj_mul {p q r : ℕ} (U : Matrix (Fin p) (Fin p) K) (W : Matrix (Fin q) (Fin q) K)
    (Z : Matrix (Fin r) (Fin r) K) (hW : W * Wᴴ = 1)
    (X : Matrix (Fin p) (Fin q) K) (Y : Matrix (Fin q) (Fin r) K) :
    cj U W X * cj W Z Y = cj U Z (X * Y) := by
  unfold cj
  have h : ∀ T : Matrix (Fin q) (Fin r) K, W * (Wᴴ * T) = T := by
    intro T; rw [← Matrix.mul_assoc, hW, Matrix.one_mul]
  simp only [Matrix.mul_assoc, h]

theorem cj_conjTranspose {p q : ℕ} (U : Matrix (Fin p) (Fin p) K) (W : Matrix (Fin q) (Fin q) K)
    (X : Matrix (Fin p) (Fin q) K) : (cj U W X)ᴴ = cj W U Xᴴ := by
  unfold cj
  rw [Matrix.conjTranspose_mul, Matrix.conjTranspose_mul, Matrix.conjTranspose_conjTranspose, Matrix.mul_assoc]

theorem trace_cj (U X : Matrix (Fin n) (Fin n) K) (hU : U * Uᴴ = 1) : (cj U U X).trace = X.trace := by
  unfold cj
  rw [Matrix.trace_mul_comm, ← Matrix.mul_assoc, hU, Matrix.one_mul]

/-! ### `D_H`: Hadamard product with a function of the two energies -/

/-- `D_H[n,l] = -V[n,l] * φ(E n, E l)`  (`φ` = `dEig_inv` as a function of the two energies) -/
def DHmat (V : Matrix (Fin n) (Fin n) K) (E : Fin n → K) (φ : K → K → K) : Matrix (Fin n) (Fin n) K :=
  Matrix.of fun i j => -(V i j) * φ (E i) (E j)

theorem DHmat_covariant (G V : Matrix (Fin n) (Fin n) K) (E : Fin n → K) (φ : K → K → K)
    (hG : ∀ i j, G i j ≠ 0 → E i = E j) :
    Gᴴ * DHmat V E φ * G = DHmat (Gᴴ * V * G) E φ := by
  ext a b
  simp only [DHmat, Matrix.mul_apply, Matrix.conjTranspose_apply, Matrix.of_apply, Finset.sum_mul,
    ← Finset.sum_neg_distrib]
  apply Finset.sum_congr rfl; intro x _
  apply Finset.sum_congr rfl; intro y _
  by_cases h1 : G y a = 0
  · simp [h1]
  · by_cases h2 : G x b = 0
    · simp [h2]
    · rw [hG y a h1, hG x b h2]; ring

/-! ### sums over `List.range` as sums over `Fin n` -/

omit [StarRing K] in
theorem sumRange_eq (m : ℕ) (f : ℕ → K) : sumRange m f = ∑ i : Fin m, f i := by
  unfold sumRange
  induction m with
  | zero => simp
  | succ m ih =>
    rw [List.range_succ, List.map_append, List.sum_append, ih, Fin.sum_univ_castSucc]
    simp

/-- the model of `Data_K._rotate` is `Uᴴ X U` -/
theorem rotate_eq (m : ℕ) (U X : ℕ → ℕ → K) (a d : Fin m) :
    rotate star m U X a d =
      ((Matrix.of fun i j : Fin m => U i j)ᴴ * (Matrix.of fun i j : Fin m => X i j)
        * (Matrix.of fun i j : Fin m => U i j)) a d := by
  unfold rotate
  rw [sumRange_eq]
  simp only [sumRange_eq, Matrix.mul_apply, Matrix.conjTranspose_apply, Matrix.of_apply, Finset.sum_mul]
  rw [Finset.sum_comm]

omit [StarRing K] in
theorem traceM_eq (m : ℕ) (X : ℕ → ℕ → K) : traceM m X = (Matrix.of fun i j : Fin m => X i j).trace := by
  unfold traceM
  rw [sumRange_eq]
  rfl

/-! ### product chains (`FormulaProduct`) -/

/-- the index-function matrix restricted to `Fin m` -/
def toM (m : ℕ) (X : ℕ → ℕ → K) : Matrix (Fin m) (Fin m) K := Matrix.of fun i j : Fin m => X i j

omit [StarRing K] in
theorem toM_mulM (m : ℕ) (A B : ℕ → ℕ → K) : toM m (mulM m A B) = toM m A * toM m B := by
  ext i j
  simp only [toM, mulM, sumRange_eq, Matrix.mul_apply, Matrix.of_apply]

theorem toM_rotate (m : ℕ) (U X : ℕ → ℕ → K) : toM m (rotate star m U X) = cj (toM m U) (toM m U) (toM m X) := by
  ext a d
  exact rotate_eq m U X a d

/-- `FormulaProduct.nn` on matrices: `res = M₀; for M in rest: res = res * M` -/
def productChain {p : ℕ} (M0 : Matrix (Fin p) (Fin p) K) (rest : List (Matrix (Fin p) (Fin p) K)) :
    Matrix (Fin p) (Fin p) K := rest.foldl (· * ·) M0

omit [StarRing K] in
theorem toM_chainM (m : ℕ) (M0 : ℕ → ℕ → K) (rest : List (ℕ → ℕ → K)) :
    toM m (chainM m M0 rest) = productChain (toM m M0) (rest.map (toM m)) := by
  unfold chainM productChain
  induction rest generalizing M0 with
  | nil => rfl
  | cons X Xs ih => rw [List.foldl_cons, List.map_cons, List.foldl_cons, ih, toM_mulM]

theorem productChain_cj {p : ℕ} (U : Matrix (Fin p) (Fin p) K) (hU : U * Uᴴ = 1)
    (M0 : Matrix (Fin p) (Fin p) K) (rest : List (Matrix (Fin p) (Fin p) K)) :
    productChain (cj U U M0) (rest.map (cj U U)) = cj U U (productChain M0 rest) := by
  unfold productChain
  induction rest generalizing M0 with
  | nil => rfl
  | cons X Xs ih => rw [List.map_cons, List.foldl_cons, List.foldl_cons, cj_mul U U U hU, ih]

end WB.C04
