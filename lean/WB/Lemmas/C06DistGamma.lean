/-
  C06: the pre-filter key of `exclude_equiv_points`, `KpointBZparallel.distGamma`: distance (squared here) from `K % 1`
  to the nearest lattice point among the corners `[-n, n]^3` of a search box.
-/
import WB.Lemmas.C06Sum
import Mathlib.Tactic.Linarith

namespace WB.C06

def minList : List Rat → Rat
  | [] => 0
  | [x] => x
  | x :: y :: l => if x ≤ minList (y :: l) then x else minList (y :: l)

def boxCorners (n : Nat) : List V3 :=
  let r : List Int := (List.range (2 * n + 1)).map fun i => (i : Int) - n
  r.flatMap fun x => r.flatMap fun y => r.map fun z => ⟨(x : Rat), (y : Rat), (z : Rat)⟩

def fracV (k : V3) : V3 := ⟨k.x - k.x.floor, k.y - k.y.floor, k.z - k.z.floor⟩

/-- `distGamma`² with the search box `±n` and the Gram matrix `g` of the reciprocal lattice -/
def distGammaSq (g : Gram) (n : Nat) (k : V3) : Rat :=
  minList ((boxCorners n).map fun c => g.sq ((fracV k).sub c))

theorem minList_le : ∀ (l : List Rat) (x : Rat), x ∈ l → minList l ≤ x
  | [], _, h => by simp at h
  | [y], x, h => by simp at h; simp [minList, h]
  | a :: b :: l, x, h => by
    unfold minList
    rcases List.mem_cons.mp h with rfl | h
    · split <;> linarith
    · have := minList_le (b :: l) x h
      split <;> linarith

theorem minList_mem : ∀ (l : List Rat), l ≠ [] → minList l ∈ l
  | [], h => absurd rfl h
  | [y], _ => by simp [minList]
  | a :: b :: l, _ => by
    unfold minList
    split
    · simp
    · exact List.mem_cons_of_mem _ (minList_mem (b :: l) (by simp))

/-- the key equals the true minimal distance `m` as soon as the box contains a corner that attains it -/
theorem distGammaSq_eq (g : Gram) (n : Nat) (k : V3) (m : Rat)
    (hlow : ∀ c ∈ boxCorners n, m ≤ g.sq ((fracV k).sub c))
    (hatt : ∃ c ∈ boxCorners n, g.sq ((fracV k).sub c) = m) : distGammaSq g n k = m := by
  unfold distGammaSq
  obtain ⟨c, hc, e⟩ := hatt
  have hm : m ∈ (boxCorners n).map fun c => g.sq ((fracV k).sub c) := List.mem_map.mpr ⟨c, hc, e⟩
  have h1 := minList_le _ m hm
  have hne : ((boxCorners n).map fun c => g.sq ((fracV k).sub c)) ≠ [] := List.ne_nil_of_mem hm
  obtain ⟨c', hc', e'⟩ := List.mem_map.mp (minList_mem _ hne)
  have h2 := hlow c' hc'
  rw [e'] at h2
  linarith

end WB.C06
