/-
  C09 helper lemmas, part 5: integrality (lattice invariance, symmetric grids) and the star of a k-point.
-/
import WB.Lemmas.C09Alg
import Mathlib.Data.Rat.Defs
import Mathlib.Data.Rat.Cast.Defs
import Mathlib.Algebra.Order.Field.Rat
import Mathlib.Tactic.FieldSimp
import Mathlib.Tactic.Ring
import Mathlib.Tactic.FinCases
import Mathlib.Tactic.Linarith

set_option linter.unusedSectionVars false
set_option linter.unusedSimpArgs false

namespace WB.C09

/-! ### the action on reduced vectors is a (left) action -/
section RedAction
variable {F : Type} [Field F] [LinearOrder F] [IsStrictOrderedRing F]

theorem matT_matId : matT (matId : Mat F) = matId := by
  funext i j; simp only [matT, matId]; by_cases h : i = j <;> simp [h, eq_comm]

theorem PSym.redMat_mul (g h : PSym F) (hg : g.Proper) (hh : h.Proper) (B : Mat F) (hB : det3 B ≠ 0) :
    (g.mul h).redMat B = matMul (h.redMat B) (g.redMat B) := by
  unfold PSym.redMat
  rw [(PSym.mul_parts g h hg hh).1, matT_matMul]
  have e : matMul (matMul (matMul B (matT h.R)) (matInv B)) (matMul (matMul B (matT g.R)) (matInv B))
      = matMul (matMul B (matT h.R)) (matMul (matMul (matInv B) B) (matMul (matT g.R) (matInv B))) := by
    simp only [matMul_assoc]
  rw [e, matInv_matMul B hB, matMul_id_left]
  simp only [matMul_assoc]

theorem PSym.transformReduced_mul (g h : PSym F) (hg : g.Proper) (hh : h.Proper) (B : Mat F)
    (hB : det3 B ≠ 0) (v : Vec F) :
    (g.mul h).transformReduced v B = g.transformReduced (h.transformReduced v B) B := by
  obtain ⟨-, h2, h3⟩ := PSym.mul_parts g h hg hh
  funext j
  unfold PSym.transformReduced
  rw [PSym.redMat_mul g h hg hh B hB, vecMat_matMul, h2, h3, sgn_xor, sgn_xor]
  simp only [vecMat, sum3]
  ring

theorem PSym.transformReduced_identity (B : Mat F) (hB : det3 B ≠ 0) (v : Vec F) :
    (PSym.identity : PSym F).transformReduced v B = v := by
  obtain ⟨h1, h2, h3⟩ := PSym.identity_R (F := F)
  funext j
  unfold PSym.transformReduced PSym.redMat
  rw [h1, h2, h3, matT_matId, matMul_id_right, matMul_matInv B hB]
  simp only [vecMat, sum3, matId, sgn]
  fin_cases j <;> simp

end RedAction

/-! ### integers among the rationals -/

theorem isInt_iff (q : Rat) : isInt q = true ↔ ∃ z : Int, q = z := by
  unfold isInt
  simp only [beq_iff_eq]
  constructor
  · intro h; exact ⟨q.num, (Rat.coe_int_num_of_den_eq_one h).symm⟩
  · rintro ⟨z, rfl⟩; exact Rat.den_intCast z

theorem isInt_intCast (z : Int) : isInt (z : Rat) = true := (isInt_iff _).2 ⟨z, rfl⟩

theorem isInt_zero : isInt 0 = true := (isInt_iff _).2 ⟨0, by simp⟩

theorem isInt_add {a b : Rat} (ha : isInt a = true) (hb : isInt b = true) : isInt (a + b) = true := by
  obtain ⟨x, rfl⟩ := (isInt_iff _).1 ha
  obtain ⟨y, rfl⟩ := (isInt_iff _).1 hb
  exact (isInt_iff _).2 ⟨x + y, by push_cast; ring⟩

theorem isInt_mul {a b : Rat} (ha : isInt a = true) (hb : isInt b = true) : isInt (a * b) = true := by
  obtain ⟨x, rfl⟩ := (isInt_iff _).1 ha
  obtain ⟨y, rfl⟩ := (isInt_iff _).1 hb
  exact (isInt_iff _).2 ⟨x * y, by push_cast; ring⟩

theorem isInt_neg {a : Rat} (ha : isInt a = true) : isInt (-a) = true := by
  obtain ⟨x, rfl⟩ := (isInt_iff _).1 ha
  exact (isInt_iff _).2 ⟨-x, by push_cast; ring⟩

theorem isInt_sub {a b : Rat} (ha : isInt a = true) (hb : isInt b = true) : isInt (a - b) = true := by
  rw [sub_eq_add_neg]; exact isInt_add ha (isInt_neg hb)

/-! ### lattice invariance -/

theorem transformReduced_unit (g : PSym Rat) (B : Mat Rat) (i j : Fin 3) :
    g.transformReduced (unitVec i) B j = g.redMat B i j * (sgn g.tr * sgn g.inv) := by
  unfold PSym.transformReduced vecMat sum3 unitVec
  fin_cases i <;> simp

theorem transformReduced_lin (g : PSym Rat) (B : Mat Rat) (v : Vec Rat) (j : Fin 3) :
    g.transformReduced v B j =
      v 0 * g.transformReduced (unitVec 0) B j + v 1 * g.transformReduced (unitVec 1) B j
        + v 2 * g.transformReduced (unitVec 2) B j := by
  rw [transformReduced_unit, transformReduced_unit, transformReduced_unit]
  unfold PSym.transformReduced vecMat sum3
  ring

theorem checkBasis_iff (L : List (PSym Rat)) (B : Mat Rat) :
    checkBasis L B = true ↔ ∀ g ∈ L, ∀ i j, isInt (g.transformReduced (unitVec i) B j) = true := by
  unfold checkBasis
  simp only [List.all_eq_true, List.mem_finRange, forall_const]

/-- `check_basis_symmetry` true ⇒ every operation maps integer reduced vectors to integer reduced vectors -/
theorem checkBasis_integral_aux (L : List (PSym Rat)) (B : Mat Rat) (h : checkBasis L B = true)
    (g : PSym Rat) (hg : g ∈ L) (n : Vec Rat) (hn : ∀ i, isInt (n i) = true) (j : Fin 3) :
    isInt (g.transformReduced n B j) = true := by
  have hb := (checkBasis_iff L B).1 h g hg
  rw [transformReduced_lin]
  exact isInt_add (isInt_add (isInt_mul (hn 0) (hb 0 j)) (isInt_mul (hn 1) (hb 1 j))) (isInt_mul (hn 2) (hb 2 j))

/-- inverse of a basis whose rows are divided by `nk` -/
theorem matInv_rowscale (B : Mat Rat) (nk : Vec Rat) (hnk : ∀ i, nk i ≠ 0) (hB : det3 B ≠ 0) (i j : Fin 3) :
    matInv (fun a b => B a b / nk a) i j = matInv B i j * nk j := by
  have h0 := hnk 0
  have h1 := hnk 1
  have h2 := hnk 2
  have hd : det3 (fun a b => B a b / nk a) = det3 B / (nk 0 * nk 1 * nk 2) := by
    unfold det3; field_simp
  unfold matInv
  rw [hd]
  fin_cases i <;> fin_cases j <;> simp [adj3] <;> field_simp

theorem redMat_rowscale (g : PSym Rat) (B : Mat Rat) (nk : Vec Rat) (hnk : ∀ i, nk i ≠ 0) (hB : det3 B ≠ 0)
    (i j : Fin 3) :
    g.redMat (fun a b => B a b / nk a) i j = g.redMat B i j * nk j / nk i := by
  have hi := hnk i
  unfold PSym.redMat matMul sum3
  simp only [matInv_rowscale B nk hnk hB]
  field_simp

/-- `symmetric_grid(nk)` true ⇒ every operation maps the grid `{m_i / nk_i}` to itself:
    the image of a grid point, multiplied back by `nk`, is an integer vector. -/
theorem symmetricGrid_maps_grid_aux (L : List (PSym Rat)) (B : Mat Rat) (nk : Vec Rat)
    (hnk : ∀ i, nk i ≠ 0) (hB : det3 B ≠ 0) (h : symmetricGrid L B nk = true)
    (g : PSym Rat) (hg : g ∈ L) (m : Vec Rat) (hm : ∀ i, isInt (m i) = true) (j : Fin 3) :
    isInt (g.transformReduced (fun i => m i / nk i) B j * nk j) = true := by
  have key : g.transformReduced (fun i => m i / nk i) B j * nk j
      = g.transformReduced m (fun a b => B a b / nk a) j := by
    have h0 := hnk 0
    have h1 := hnk 1
    have h2 := hnk 2
    unfold PSym.transformReduced vecMat sum3
    simp only [redMat_rowscale g B nk hnk hB]
    field_simp
  rw [key]
  exact checkBasis_integral_aux L _ h g hg m hm j

/-! ### equivalence modulo the lattice and the star -/

theorem equivMod1_iff (u v : Vec Rat) : equivMod1 u v = true ↔ ∀ i, isInt (u i - v i) = true := by
  unfold equivMod1
  simp only [List.all_eq_true, List.mem_finRange, forall_const]

theorem equivMod1_refl (u : Vec Rat) : equivMod1 u u = true := by
  rw [equivMod1_iff]; intro i; rw [sub_self]; exact isInt_zero

theorem equivMod1_symm {u v : Vec Rat} (h : equivMod1 u v = true) : equivMod1 v u = true := by
  rw [equivMod1_iff] at h ⊢
  intro i
  have := isInt_neg (h i)
  rwa [neg_sub] at this

theorem equivMod1_trans {u v w : Vec Rat} (h1 : equivMod1 u v = true) (h2 : equivMod1 v w = true) :
    equivMod1 u w = true := by
  rw [equivMod1_iff] at h1 h2 ⊢
  intro i
  have := isInt_add (h1 i) (h2 i)
  rwa [sub_add_sub_cancel] at this

theorem starFilter_sublist : ∀ (seen l : List (Vec Rat)), (starFilter seen l).Sublist l
  | _, [] => by simp [starFilter]
  | seen, x :: rest => by
    unfold starFilter
    split
    · exact (starFilter_sublist _ rest).cons _
    · exact (starFilter_sublist _ rest).cons_cons _

/-- survivors are pairwise inequivalent, and inequivalent to everything seen before -/
theorem starFilter_inequiv : ∀ (seen l : List (Vec Rat)),
    (starFilter seen l).Pairwise (fun u v => equivMod1 u v = false) ∧
      ∀ y ∈ seen, ∀ x ∈ starFilter seen l, equivMod1 y x = false
  | _, [] => by simp [starFilter]
  | seen, x :: rest => by
    obtain ⟨ih1, ih2⟩ := starFilter_inequiv (seen ++ [x]) rest
    unfold starFilter
    split
    · exact ⟨ih1, fun y hy z hz => ih2 y (List.mem_append_left _ hy) z hz⟩
    · rename_i hnot
      refine ⟨List.pairwise_cons.2 ⟨fun z hz => ih2 x (by simp) z hz, ih1⟩, ?_⟩
      intro y hy z hz
      rcases List.mem_cons.1 hz with rfl | hz
      · have := hnot
        simp only [List.any_eq_true, not_exists, not_and] at this
        have := this y hy
        simpa using this
      · exact ih2 y (List.mem_append_left _ hy) z hz

/-- every entry is represented: it is equivalent to something seen before or to a survivor -/
theorem starFilter_cover : ∀ (seen l : List (Vec Rat)), ∀ x ∈ l,
    ∃ y, (y ∈ seen ∨ y ∈ starFilter seen l) ∧ equivMod1 y x = true
  | _, [], x, hx => by simp at hx
  | seen, x0 :: rest, x, hx => by
    unfold starFilter
    split
    · rename_i hany
      obtain ⟨s, hs, hsx⟩ := List.any_eq_true.1 hany
      rcases List.mem_cons.1 hx with rfl | hx
      · exact ⟨s, Or.inl hs, hsx⟩
      · obtain ⟨y, hy, hyx⟩ := starFilter_cover (seen ++ [x0]) rest x hx
        rcases hy with hy | hy
        · rcases List.mem_append.1 hy with hy | hy
          · exact ⟨y, Or.inl hy, hyx⟩
          · rw [List.mem_singleton] at hy; subst hy
            exact ⟨s, Or.inl hs, equivMod1_trans hsx hyx⟩
        · exact ⟨y, Or.inr hy, hyx⟩
    · rcases List.mem_cons.1 hx with rfl | hx
      · exact ⟨x, Or.inr (by simp), equivMod1_refl x⟩
      · obtain ⟨y, hy, hyx⟩ := starFilter_cover (seen ++ [x0]) rest x hx
        rcases hy with hy | hy
        · rcases List.mem_append.1 hy with hy | hy
          · exact ⟨y, Or.inl hy, hyx⟩
          · rw [List.mem_singleton] at hy; subst hy
            exact ⟨y, Or.inr (by simp), hyx⟩
        · exact ⟨y, Or.inr (List.mem_cons_of_mem _ hy), hyx⟩

/-- an entry survives iff nothing before it (seen or earlier in the list) is equivalent to it:
    the first occurrence of every class is the one kept -/
theorem starFilter_first : ∀ (seen pre : List (Vec Rat)) (x : Vec Rat) (post : List (Vec Rat)),
    (∀ y ∈ seen ++ pre, equivMod1 y x = false) → x ∈ starFilter seen (pre ++ x :: post)
  | seen, [], x, post, h => by
    simp only [List.nil_append]
    unfold starFilter
    have : ¬ (seen.any (fun y => equivMod1 y x) = true) := by
      simp only [List.any_eq_true, not_exists, not_and]
      intro y hy
      have := h y (by simpa using hy)
      simp [this]
    rw [if_neg this]
    simp
  | seen, p :: pre, x, post, h => by
    simp only [List.cons_append]
    unfold starFilter
    have ih := starFilter_first (seen ++ [p]) pre x post (by
      intro y hy
      apply h y
      simp only [List.append_assoc, List.singleton_append] at hy
      exact hy)
    split
    · exact ih
    · exact List.mem_cons_of_mem _ ih

end WB.C09
