/-
  C31 helper lemmas: assembling the facts about the stencil returned by `find_shells`.
-/
import WB.Lemmas.C31Neg
import WB.Lemmas.C31Poly

namespace WB.C31

/-! ### the stencil built from the returned list -/

theorem toStencil_append (basis : Fin 3 → Fin 3 → Rat) (dk : Rat) (l1 l2 : List (Rat × I3)) :
    toStencil basis dk (l1 ++ l2) = toStencil basis dk l1 ++ toStencil basis dk l2 := by
  simp [toStencil]

theorem mom_append (g : V3 Rat → Rat) : ∀ (l1 l2 : List (BPoint Rat)), mom g (l1 ++ l2) = mom g l1 + mom g l2
  | [], l2 => by simp [mom]
  | p :: l1, l2 => by rw [List.cons_append, mom, mom, mom_append g l1 l2]; ring

/-- second moment of one shell with a common weight -/
theorem mom2_shell (basis : Fin 3 → Fin 3 → Rat) (dk w : Rat) (a c : Fin 3) : ∀ vecs : List I3,
    mom2 (toStencil basis dk (vecs.map (fun m => (w, m)))) a c = w * shellMat basis vecs a c
  | [] => by simp [mom2, mom, toStencil, shellMat]
  | m :: vecs => by
    have ih := mom2_shell basis dk w a c vecs
    simp only [mom2, toStencil, shellMat, List.map_cons, List.map_map, mom, List.sum_cons] at ih ⊢
    rw [ih]; ring

/-- the part of `check_eye` carried by the returned vectors / dropped by the `abs(w) > eps` filter -/
def keptEye (M : Nat → Fin 3 → Fin 3 → Rat) (eps : Rat) (sel : List Nat) (ws : List Rat) (a c : Fin 3) : Rat :=
  ((sel.zip ws).map (fun kw => if absQ kw.2 > eps then kw.2 * M kw.1 a c else 0)).sum

def droppedEye (M : Nat → Fin 3 → Fin 3 → Rat) (eps : Rat) (sel : List Nat) (ws : List Rat) (a c : Fin 3) : Rat :=
  ((sel.zip ws).map (fun kw => if absQ kw.2 > eps then 0 else kw.2 * M kw.1 a c)).sum

theorem kept_add_dropped (M : Nat → Fin 3 → Fin 3 → Rat) (eps : Rat) (sel : List Nat) (ws : List Rat) (a c : Fin 3) :
    keptEye M eps sel ws a c + droppedEye M eps sel ws a c = checkEye M sel ws a c := by
  unfold keptEye droppedEye checkEye
  induction sel.zip ws with
  | nil => simp
  | cons kw l ih =>
    simp only [List.map_cons, List.sum_cons]
    split <;> linarith

theorem mom2_expandF (basis : Fin 3 → Fin 3 → Rat) (dk eps : Rat) (vecsOf : Nat → List I3) (sel : List Nat) (ws : List Rat)
    (a c : Fin 3) :
    mom2 (toStencil basis dk (expandF vecsOf eps sel ws)) a c
      = keptEye (fun k => shellMat basis (vecsOf k)) eps sel ws a c := by
  unfold expandF keptEye
  induction sel.zip ws with
  | nil => simp [mom2, mom, toStencil]
  | cons kw l ih =>
    rw [List.flatMap_cons, toStencil_append]
    unfold mom2 at ih ⊢
    rw [mom_append, ih, List.map_cons, List.sum_cons]
    congr 1
    split
    · rename_i h
      simp only [decide_eq_true_eq] at h
      rw [if_pos h]
      exact mom2_shell basis dk kw.2 a c (vecsOf kw.1)
    · rename_i h
      simp only [decide_eq_true_eq] at h
      rw [if_neg h]
      simp [mom, toStencil]

/-! ### closed under negation -/

theorem toStencil_neg (basis : Fin 3 → Fin 3 → Rat) (dk : Rat) (st : List (Rat × I3)) :
    (toStencil basis dk st).map BPoint.neg = toStencil basis dk (st.map (fun wm => (wm.1, negI wm.2))) := by
  unfold toStencil
  rw [List.map_map, List.map_map]
  apply List.map_congr_left
  intro wm _
  simp only [Function.comp, BPoint.neg, BPoint.mk.injEq, true_and]
  constructor
  · funext a
    fin_cases a <;> simp [negI]
  · funext c; exact (cartI_negI basis wm.2 c).symm

theorem expandF_neg_perm (vecsOf : Nat → List I3) (hv : ∀ k, ((vecsOf k).map negI).Perm (vecsOf k)) (eps : Rat)
    (sel : List Nat) (ws : List Rat) :
    ((expandF vecsOf eps sel ws).map (fun wm => (wm.1, negI wm.2))).Perm (expandF vecsOf eps sel ws) := by
  unfold expandF
  rw [List.map_flatMap]
  apply List.Perm.flatMap_left
  intro kw _
  split
  · rw [List.map_map]
    have : ((fun wm : Rat × I3 => (wm.1, negI wm.2)) ∘ fun m => (kw.2, m)) = (fun m => (kw.2, m)) ∘ negI := rfl
    rw [this, ← List.map_map]
    exact (hv kw.1).map _
  · simp

/-- the shell table used by `find_shells`: every entry is closed under negation -/
theorem tableFn_neg_perm (nrm : V3 Rat → Rat) (hnrm : ∀ v : V3 Rat, nrm (fun c => -v c) = nrm v)
    (basis : Fin 3 → Fin 3 → Rat) (n : Nat) (th : Rat) (hth : 0 ≤ th) (ns k : Nat) :
    ((tableFn (shellTableList nrm basis n th ns) k).map negI).Perm (tableFn (shellTableList nrm basis n th ns) k) := by
  rw [tableFn_shellTableList]
  split
  · exact shellVecs_neg_perm nrm hnrm basis n th hth k
  · simp

/-- what holds whenever `find_shells` returns -/
theorem findShells_sound_aux (par : List Nat → Nat → Bool) (kernel : List Nat → Option (List Rat)) (nrm : V3 Rat → Rat)
    (hnrm : ∀ v : V3 Rat, nrm (fun c => -v c) = nrm v)
    (basis : Fin 3 → Fin 3 → Rat) (n : Nat) (th tol eps : Rat) (hth : 0 ≤ th) (nshells : Nat) (dk : Rat)
    (st : List (Rat × I3)) (h : findShells par kernel nrm basis n th tol eps nshells = some st) :
    ∃ (sel : List Nat) (ws : List Rat),
      kernel sel = some ws ∧ st = expandF (tableFn (shellTableList nrm basis n th nshells)) eps sel ws ∧
      resid2 (fun k => shellMat basis (tableFn (shellTableList nrm basis n th nshells) k)) sel ws ≤ tol * tol ∧
      ((toStencil basis dk st).map BPoint.neg).Perm (toStencil basis dk st) ∧
      ∀ a c, (mom2 (toStencil basis dk st) a c
                + droppedEye (fun k => shellMat basis (tableFn (shellTableList nrm basis n th nshells) k)) eps sel ws a c
                - delta3 a c)
             * (mom2 (toStencil basis dk st) a c
                + droppedEye (fun k => shellMat basis (tableFn (shellTableList nrm basis n th nshells) k)) eps sel ws a c
                - delta3 a c)
             ≤ tol * tol := by
  unfold findShells at h
  simp only at h
  split at h
  · rename_i sel ws hloop
    obtain ⟨hk, hr, _⟩ := shellLoop_spec par kernel _ tol _ [] sel ws hloop
    simp only [Option.some.injEq] at h
    subst h
    refine ⟨sel, ws, hk, rfl, hr, ?_, ?_⟩
    · rw [toStencil_neg]
      unfold toStencil
      exact (expandF_neg_perm _ (fun k => tableFn_neg_perm nrm hnrm basis n th hth nshells k) eps sel ws).map _
    · intro a c
      rw [mom2_expandF, kept_add_dropped]
      exact le_trans (entry_sq_le_resid2 _ sel ws a c) hr
  · simp at h

end WB.C31
