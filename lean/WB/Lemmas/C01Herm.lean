/-
  C01 — from the mirror symmetry of the Wigner-Seitz selection to  X_ba(−R) = conj X_ab(R)  for the matrices that the
  model's `q_to_R` produces from Hermitian mesh data (exact DFT, any field with an involution `star`).
-/
import WB.Lemmas.C01Mirror
import WB.Lemmas.C01Fourier
import WB.Lemmas.C02Box
import Mathlib.Algebra.Star.Basic
import Mathlib.Algebra.Order.Floor.Ring
import Mathlib.Data.Rat.Floor

namespace WB.C01
open WB.C02 (nodup_gridPoints boxChar)

/-! ### weights: only the class of `R mod mp` contributes -/
section weights
variable {K : Type} [Field K]

theorem weightOf_append (l₁ l₂ : List (Vec3 × Nat)) (R : Vec3) :
    (weightOf (l₁ ++ l₂) R : K) = weightOf l₁ R + weightOf l₂ R := by
  unfold weightOf
  rw [List.filter_append, List.map_append, sumK_append]

theorem weightOf_flatMap {α} (l : List α) (f : α → List (Vec3 × Nat)) (R : Vec3) :
    (weightOf (l.flatMap f) R : K) = sumK (l.map fun a => (weightOf (f a) R : K)) := by
  induction l with
  | nil => rfl
  | cons a l ih => rw [List.flatMap_cons, weightOf_append, ih]; rfl

theorem weightOf_eq_zero (sel : List (Vec3 × Nat)) (R : Vec3) (h : ∀ p ∈ sel, p.1 ≠ R) :
    (weightOf sel R : K) = 0 := by
  induction sel with
  | nil => rfl
  | cons p sel ih =>
    rw [weightOf_cons, if_neg (h p (by simp)), ih (fun q hq => h q (by simp [hq]))]
    ring

theorem weightOf_wsSelect_class (ws : Nat) (G : Gram) (mp : Mesh) (h1 : 0 < mp.1) (h2 : 0 < mp.2.1) (h3 : 0 < mp.2.2)
    (tol : Rat) (s : QVec3) (R : Vec3) :
    (weightOf (wsSelect ws G mp tol s) R : K) = weightOf (wsClass ws G mp tol s (vmod R mp)) R := by
  unfold wsSelect
  rw [weightOf_flatMap]
  rw [sumK_map_congr (gridPoints mp) _
    (fun c => if vmod R mp = c then (weightOf (wsClass ws G mp tol s c) R : K) else 0)]
  · exact sumK_single (gridPoints mp) (nodup_gridPoints mp) (vmod R mp) (vmod_mem_gridPoints mp h1 h2 h3 R)
      (fun c => (weightOf (wsClass ws G mp tol s c) R : K))
  · intro c hc
    by_cases h : vmod R mp = c
    · rw [if_pos h]
    · rw [if_neg h]
      apply weightOf_eq_zero
      intro p hp hpR
      apply h
      rw [← hpR]
      exact vmod_candidate ws mp c p.1 hc (selClass_sub_candidates ws G mp tol s c p.1 ((mem_wsClass ..).1 hp).1)

/-- weight of `R` inside one class: `1/Ndegen` if selected, else 0 (the selection has no duplicates) -/
theorem weightOf_map_const (sel : List Vec3) (hnd : sel.Nodup) (n : Nat) (R : Vec3) :
    (weightOf (sel.map fun R' => (R', n)) R : K) = if R ∈ sel then ((n : K))⁻¹ else 0 := by
  induction sel with
  | nil => simp [weightOf_nil]
  | cons x sel ih =>
    have hnd' := List.nodup_cons.mp hnd
    rw [List.map_cons, weightOf_cons, ih hnd'.2]
    by_cases hx : x = R
    · subst hx
      simp [hnd'.1]
    · have : ¬ R = x := fun h => hx h.symm
      simp [hx, this]

theorem weightOf_wsClass (ws : Nat) (G : Gram) (mp : Mesh) (h1 : 0 < mp.1) (h2 : 0 < mp.2.1) (h3 : 0 < mp.2.2)
    (tol : Rat) (s : QVec3) (c R : Vec3) :
    (weightOf (wsClass ws G mp tol s c) R : K)
      = if R ∈ selClass ws G mp tol s c then (((selClass ws G mp tol s c).length : K))⁻¹ else 0 := by
  rw [wsClass_eq]
  exact weightOf_map_const _ (nodup_selClass ws G mp tol s c h1 h2 h3) _ R

end weights

/-! ### the class of the mirror image -/

theorem vmod_vneg (R : Vec3) (mp : Mesh) : vmod (vneg R) mp = mirrorClass (vmod R mp) mp := by
  unfold mirrorClass vmod vneg
  simp only
  have key : ∀ (x : Int) (n : Int), (-x) % n = (-(x % n)) % n := by
    intro x n
    have h : -x = -(x % n) + n * (-(x / n)) := by
      have := Int.emod_add_mul_ediv x n
      rw [Int.mul_neg]
      omega
    conv_lhs => rw [h]
    exact Int.add_mul_emod_self_left _ _ _
  rw [key R.1, key R.2.1, key R.2.2]


/-- the mirror hypothesis for ALL grid points (decidable for concrete input; it is what the harness evaluates as
    `mirror_outside_box`): every selected replica of `s` at `c`, and of `-s` at the mirror grid point, has its mirror
    image among the searched replicas -/
def MirrorInside (ws : Nat) (G : Gram) (mp : Mesh) (tol : Rat) (s : QVec3) : Prop :=
  ∀ c ∈ gridPoints mp,
    (∀ p ∈ wsClass ws G mp tol s c, vneg p.1 ∈ candidates ws mp (mirrorClass c mp)) ∧
    (∀ p ∈ wsClass ws G mp tol (qneg s) (mirrorClass c mp), vneg p.1 ∈ candidates ws mp c)

section mirrorweights
variable {K : Type} [Field K]

/-- `w_ba(−R) = w_ab(R)` under the mirror hypothesis -/
theorem weightOf_mirror (ws : Nat) (G : Gram) (mp : Mesh) (h1 : 0 < mp.1) (h2 : 0 < mp.2.1) (h3 : 0 < mp.2.2)
    (tol : Rat) (htol : tol ≠ 0) (s : QVec3) (H : MirrorInside ws G mp tol s) (R : Vec3) :
    (weightOf (wsSelect ws G mp tol (qneg s)) (vneg R) : K) = weightOf (wsSelect ws G mp tol s) R := by
  rw [weightOf_wsSelect_class ws G mp h1 h2 h3, weightOf_wsSelect_class ws G mp h1 h2 h3, vmod_vneg,
    weightOf_wsClass ws G mp h1 h2 h3, weightOf_wsClass ws G mp h1 h2 h3]
  obtain ⟨H1, H2⟩ := H (vmod R mp) (vmod_mem_gridPoints mp h1 h2 h3 R)
  have H1' : ∀ R' ∈ selClass ws G mp tol s (vmod R mp), vneg R' ∈ candidates ws mp (mirrorClass (vmod R mp) mp) :=
    fun R' hR' => H1 (R', _) ((mem_wsClass ..).2 ⟨hR', rfl⟩)
  have H2' : ∀ R' ∈ selClass ws G mp tol (qneg s) (mirrorClass (vmod R mp) mp), vneg R' ∈ candidates ws mp (vmod R mp) :=
    fun R' hR' => H2 (R', _) ((mem_wsClass ..).2 ⟨hR', rfl⟩)
  have hlen := selClass_mirror_length ws G mp tol htol s (vmod R mp) _ h1 h2 h3 H1' H2'
  have hmem := selClass_mirror ws G mp tol htol s (vmod R mp) _ H1' H2' R
  rw [hlen]
  by_cases h : R ∈ selClass ws G mp tol s (vmod R mp)
  · rw [if_pos h, if_pos (hmem.1 h)]
  · rw [if_neg h, if_neg (fun h' => h (hmem.2 h'))]

end mirrorweights

/-! ### conjugation -/
section conj
variable {K : Type} [Field K] [StarRing K]

theorem star_weightOf (sel : List (Vec3 × Nat)) (R : Vec3) : star (weightOf sel R : K) = weightOf sel R := by
  induction sel with
  | nil => simp [weightOf_nil]
  | cons p sel ih =>
    rw [weightOf_cons, star_add, ih]
    split
    · rw [star_inv₀, star_natCast]
    · rw [star_zero]

theorem star_sumK' (l : List K) : star (sumK l) = sumK (l.map star) := by
  induction l with
  | nil => simp [sumK_nil]
  | cons x l ih => simp only [List.map_cons, sumK_cons, star_add, ih]

/-- conjugating the DFT of `A` = DFT of `conj A` at the mirror point, for characters with `conj χ(c) = χ(−c)` -/
theorem star_dftBox (χinv : Vec3 → Vec3 → K) (hconj : ∀ q c, star (χinv q c) = χinv q (vneg c)) (mp : Mesh)
    (A : Vec3 → K) (c : Vec3) :
    star (dftBox χinv mp A c) = dftBox χinv mp (fun q => star (A q)) (vneg c) := by
  unfold dftBox
  rw [star_sumK', List.map_map]
  apply sumK_map_congr
  intro q _
  simp only [Function.comp, star_mul', hconj]

omit [StarRing K] in
theorem dftBox_periodic (χinv : Vec3 → Vec3 → K) (mp : Mesh) (hper : ∀ q, MeshPeriodic mp (χinv q))
    (A : Vec3 → K) (c : Vec3) : dftBox χinv mp A c = dftBox χinv mp A (vmod c mp) := by
  unfold dftBox
  apply sumK_map_congr
  intro q _
  rw [hper q c]

theorem place_star (slots : List Vec3) (X Y : Nat → K) (hXY : ∀ i, Y i = star (X i)) (q : Vec3) :
    place slots Y q = star (place slots X q) := by
  unfold place
  cases (List.range slots.length).reverse.find? (fun i => slots.getD i (0, 0, 0) = q) with
  | none => simp
  | some i => exact hXY i

/-- **Hermiticity of the real-space matrices** (selection of one shift `s`, and of `−s` for the transposed pair) -/
theorem qToR_hermitian [CharZero K] (ws : Nat) (G : Gram) (mp : Mesh) (h1 : 0 < mp.1) (h2 : 0 < mp.2.1) (h3 : 0 < mp.2.2)
    (tol : Rat) (htol : tol ≠ 0) (s : QVec3) (H : MirrorInside ws G mp tol s)
    (χinv : Vec3 → Vec3 → K) (hconj : ∀ q c, star (χinv q c) = χinv q (vneg c)) (hper : ∀ q, MeshPeriodic mp (χinv q))
    (Ninv : K) (hN : star Ninv = Ninv)
    (slots : List Vec3) (Xab Xba : Nat → K) (hX : ∀ i, Xba i = star (Xab i)) (R : Vec3) :
    qToR (dftBox χinv mp) Ninv mp slots (weightOf (wsSelect ws G mp tol (qneg s))) Xba (vneg R)
      = star (qToR (dftBox χinv mp) Ninv mp slots (weightOf (wsSelect ws G mp tol s)) Xab R) := by
  unfold qToR
  rw [star_mul', star_mul', star_weightOf, hN, star_dftBox χinv hconj,
    weightOf_mirror ws G mp h1 h2 h3 tol htol s H R]
  have e0 : vmod (vneg (vmod R mp)) mp = vmod (vneg R) mp := (vmod_vneg R mp).symm
  have e1 : dftBox χinv mp (place slots Xba) (vmod (vneg R) mp)
      = dftBox χinv mp (fun q => star (place slots Xab q)) (vneg (vmod R mp)) := by
    rw [dftBox_periodic χinv mp hper _ (vneg (vmod R mp)), e0]
    congr 1
    funext q
    exact place_star slots Xab Xba hX q
  rw [e1]

end conj

/-! ### the box characters of roots of unity with `conj ζ = ζ⁻¹` -/
section boxchar
variable {K : Type} [Field K] [StarRing K]

omit [StarRing K] in
theorem boxChar_vneg (ζ : K × K × K) (q c : Vec3) : boxChar ζ q (vneg c) = (boxChar ζ q c)⁻¹ := by
  simp only [boxChar, vneg, mul_neg, zpow_neg, mul_inv]

theorem star_boxChar (ζ : K × K × K) (h1 : star ζ.1 = ζ.1⁻¹) (h2 : star ζ.2.1 = ζ.2.1⁻¹) (h3 : star ζ.2.2 = ζ.2.2⁻¹)
    (q c : Vec3) : star (boxChar ζ q c) = (boxChar ζ q c)⁻¹ := by
  simp only [boxChar, star_mul', star_zpow₀, h1, h2, h3, inv_zpow, mul_inv]

end boxchar

/-! ### the rounded shifts of the pairs (a,b) and (b,a) are opposite -/

theorem roundHalfEven_neg (x : Rat) : roundHalfEven (-x) = -roundHalfEven x := by
  have hfl : ∀ y : Rat, y.floor = ⌊y⌋ := fun _ => rfl
  unfold roundHalfEven
  simp only [hfl]
  have hf := Int.floor_le x
  have hf' := Int.lt_floor_add_one x
  by_cases hint : x = (⌊x⌋ : Rat)
  · -- x is an integer
    have h1 : ⌊-x⌋ = -⌊x⌋ := by
      rw [Int.floor_eq_iff]
      constructor
      · push_cast; linarith
      · push_cast; linarith
    rw [h1]
    have r0 : x - (⌊x⌋ : Rat) = 0 := by linarith
    have r0' : -x - ((-⌊x⌋ : Int) : Rat) = 0 := by push_cast; linarith
    rw [r0, r0']
    norm_num
  · have hlt : (⌊x⌋ : Rat) < x := lt_of_le_of_ne hf (fun h => hint h.symm)
    have h1 : ⌊-x⌋ = -⌊x⌋ - 1 := by
      rw [Int.floor_eq_iff]
      constructor
      · push_cast; linarith
      · push_cast; linarith
    rw [h1]
    have hr : -x - ((-⌊x⌋ - 1 : Int) : Rat) = 1 - (x - (⌊x⌋ : Rat)) := by push_cast; ring
    rw [hr]
    set r := x - (⌊x⌋ : Rat) with hrdef
    have hr0 : 0 < r := by linarith
    have hr1 : r < 1 := by linarith
    by_cases c1 : r < 1 / 2
    · have n1 : ¬ (1 - r < 1 / 2) := by linarith
      have n2 : 1 - r > 1 / 2 := by linarith
      rw [if_neg n1, if_pos n2, if_pos c1]
      ring
    · by_cases c2 : r > 1 / 2
      · have n1 : 1 - r < 1 / 2 := by linarith
        rw [if_pos n1, if_neg c1, if_pos c2]
        ring
      · have e' : 1 - r = 1 / 2 := by linarith
        have n0 : ¬ ((1 : Rat) / 2 < 1 / 2) := lt_irrefl _
        have n0' : ¬ ((1 : Rat) / 2 > 1 / 2) := lt_irrefl _
        rw [if_neg c1, if_neg c2, e', if_neg n0, if_neg n0']
        split_ifs <;> omega

theorem roundDec_neg (nd : Nat) (x : Rat) : roundDec nd (-x) = -roundDec nd x := by
  unfold roundDec
  rw [neg_mul, roundHalfEven_neg]
  push_cast
  ring

theorem shiftOf_swap (nd : Nat) (cs : List QVec3) (a b : Nat) : shiftOf nd cs b a = qneg (shiftOf nd cs a b) := by
  have h : ∀ x y : Rat, roundDec nd (-x + y) = -roundDec nd (-y + x) := by
    intro x y
    rw [← roundDec_neg]
    congr 1
    ring
  unfold shiftOf qneg
  exact Prod.ext (h _ _) (Prod.ext (h _ _) (h _ _))

end WB.C01
