/-
  Helper lemmas for C23: fractional part, python `min`, per-direction detection, lcm of denominators.
-/
import WB.Model.C23
import Mathlib.Data.Rat.Floor
import Mathlib.Data.Rat.Lemmas
import Mathlib.Data.Nat.GCD.Basic
import Mathlib.Tactic.Linarith
import Mathlib.Tactic.FieldSimp
import Mathlib.Tactic.Positivity

namespace WB.C23

theorem frac_eq_fract (q : Rat) : frac q = Int.fract q := rfl

theorem frac_of_reduced {q : Rat} (h0 : 0 ≤ q) (h1 : q < 1) : frac q = q := by
  rw [frac_eq_fract]; exact Int.fract_eq_self.2 ⟨h0, h1⟩

theorem frac_nonneg (q : Rat) : 0 ≤ frac q := by rw [frac_eq_fract]; exact Int.fract_nonneg q
theorem frac_lt_one (q : Rat) : frac q < 1 := by rw [frac_eq_fract]; exact Int.fract_lt_one q

theorem isInt_natCast (i : Nat) : isInt (i : Rat) = true := by simp [isInt]
theorem isInt_intCast (i : Int) : isInt (i : Rat) = true := by simp [isInt]

theorem isInt_iff (q : Rat) : isInt q = true ↔ ∃ z : Int, q = z := by
  constructor
  · intro h
    refine ⟨q.num, ?_⟩
    have hd : q.den = 1 := by simpa [isInt] using h
    exact (Rat.den_eq_one_iff q).mp hd |>.symm
  · rintro ⟨z, rfl⟩; exact isInt_intCast z

/-! ### python `min` -/

theorem minOf_mem : ∀ (l : List Rat) (a : Rat), minOf a l ∈ a :: l
  | [], a => by simp [minOf]
  | x :: l, a => by
    unfold minOf; rw [List.foldl_cons]
    have := minOf_mem l (if x < a then x else a)
    unfold minOf at this
    by_cases hx : x < a
    · rw [if_pos hx] at this ⊢
      rcases List.mem_cons.mp this with h | h
      · rw [h]; simp
      · simp [h]
    · rw [if_neg hx] at this ⊢
      rcases List.mem_cons.mp this with h | h
      · rw [h]; simp
      · simp [h]

theorem minOf_le : ∀ (l : List Rat) (a : Rat), ∀ y ∈ a :: l, minOf a l ≤ y
  | [], a => by simp [minOf]
  | x :: l, a => by
    intro y hy
    unfold minOf; rw [List.foldl_cons]
    have ih := minOf_le l (if x < a then x else a)
    unfold minOf at ih
    have h0 := ih _ (List.mem_cons_self)
    rcases List.mem_cons.mp hy with rfl | hy
    · refine le_trans h0 ?_; split <;> linarith
    rcases List.mem_cons.mp hy with rfl | hy
    · refine le_trans h0 ?_; split <;> linarith
    · exact ih y (List.mem_cons_of_mem _ hy)

/-! ### one direction of get_mp_grid -/

theorem natCast_div_pos_iff {i N : Nat} (hN : 0 < N) : ((i : Rat) / N ≠ 0) ↔ 0 < i := by
  have : (N : Rat) ≠ 0 := by positivity
  constructor
  · intro h; rcases Nat.eq_zero_or_pos i with rfl | h'
    · simp at h
    · exact h'
  · intro h; have : (0 : Rat) < i := by exact_mod_cast h
    positivity

/-- if the coordinates (mod 1) are all of the form `i/N`, `i < N`, and `1/N` occurs when `N > 1`,
    the detection returns `N` — whatever the order and the multiplicities -/
theorem detectDir_mesh (N : Nat) (hN : 0 < N) (cs : List Rat)
    (h1 : ∀ c ∈ cs, ∃ i : Nat, i < N ∧ frac c = (i : Rat) / N)
    (h2 : 1 < N → ∃ c ∈ cs, frac c = 1 / (N : Rat)) : detectDir cs = some N := by
  have hNq : (0 : Rat) < N := by exact_mod_cast hN
  have hmem : ∀ x, x ∈ (cs.map frac).filter (fun c => c ≠ 0) ↔ ∃ c ∈ cs, frac c = x ∧ x ≠ 0 := by
    intro x; simp only [List.mem_filter, List.mem_map, decide_eq_true_eq]
    constructor
    · rintro ⟨⟨c, hc, rfl⟩, hx⟩; exact ⟨c, hc, rfl, hx⟩
    · rintro ⟨c, hc, rfl, hx⟩; exact ⟨⟨c, hc, rfl⟩, hx⟩
  unfold detectDir
  cases hL : (cs.map frac).filter (fun c => c ≠ 0) with
  | nil =>
    simp only
    by_contra hne
    have h1N : 1 < N := by
      rcases Nat.lt_or_ge 1 N with h | h
      · exact h
      · exfalso; apply hne; congr 1; omega
    obtain ⟨c, hc, hfc⟩ := h2 h1N
    have : frac c ∈ (cs.map frac).filter (fun c => c ≠ 0) :=
      (hmem _).2 ⟨c, hc, rfl, by rw [hfc]; positivity⟩
    rw [hL] at this; simp at this
  | cons a l =>
    simp only
    have hm := minOf_mem l a
    have hle := minOf_le l a
    rw [← hL] at hm hle
    obtain ⟨c, hc, hcm, hm0⟩ := (hmem _).1 hm
    obtain ⟨i, hiN, hci⟩ := h1 c hc
    have hi0 : 0 < i := by
      rw [← hcm, hci] at hm0; exact (natCast_div_pos_iff hN).1 hm0
    have h1N : 1 < N := by omega
    obtain ⟨c', hc', hfc'⟩ := h2 h1N
    have hin : (1 : Rat) / N ∈ (cs.map frac).filter (fun c => c ≠ 0) :=
      (hmem _).2 ⟨c', hc', hfc', by positivity⟩
    have hle1 := hle _ hin
    have hge1 : (1 : Rat) / N ≤ minOf a l := by
      rw [← hcm, hci]
      have : (1 : Rat) ≤ i := by exact_mod_cast hi0
      exact div_le_div_of_nonneg_right this hNq.le
    have heq : minOf a l = ((N : Nat) : Rat)⁻¹ := by
      rw [inv_eq_one_div]; exact le_antisymm hle1 hge1
    rw [heq, Rat.inv_natCast_num_of_pos hN, Rat.inv_natCast_den_of_pos hN]
    simp

/-! ### lcm of the denominators -/

theorem foldl_lcm_dvd (N : Nat) : ∀ (cs : List Rat) (a : Nat), a ∣ N → (∀ c ∈ cs, c.den ∣ N) →
    cs.foldl (fun a q => Nat.lcm a q.den) a ∣ N
  | [], a, ha, _ => by simpa using ha
  | c :: cs, a, ha, h => by
    rw [List.foldl_cons]
    exact foldl_lcm_dvd N cs _ (Nat.lcm_dvd ha (h c (by simp))) (fun c' hc' => h c' (by simp [hc']))

theorem dvd_foldl_lcm : ∀ (cs : List Rat) (a : Nat),
    a ∣ cs.foldl (fun a q => Nat.lcm a q.den) a ∧ ∀ c ∈ cs, c.den ∣ cs.foldl (fun a q => Nat.lcm a q.den) a
  | [], a => by simp
  | c :: cs, a => by
    rw [List.foldl_cons]
    obtain ⟨h1, h2⟩ := dvd_foldl_lcm cs (Nat.lcm a c.den)
    refine ⟨dvd_trans (Nat.dvd_lcm_left _ _) h1, ?_⟩
    intro c' hc'
    rcases List.mem_cons.mp hc' with rfl | hc'
    · exact dvd_trans (Nat.dvd_lcm_right _ _) h1
    · exact h2 c' hc'

theorem den_natCast_div_dvd (i N : Nat) : ((i : Rat) / N).den ∣ N := by
  rw [Rat.natCast_div_eq_divInt]
  have := Rat.den_dvd (i : Int) (N : Int)
  exact_mod_cast this

theorem den_one_div (N : Nat) (hN : 0 < N) : ((1 : Rat) / N).den = N := by
  rw [one_div]; exact Rat.inv_natCast_den_of_pos hN

/-- lcm of the reduced denominators of a set of `i/N` containing `1/N` (or `N = 1`) is `N` -/
theorem lcmDen_mesh (N : Nat) (hN : 0 < N) (cs : List Rat)
    (h1 : ∀ c ∈ cs, ∃ i : Nat, c = (i : Rat) / N)
    (h2 : 1 < N → (1 : Rat) / N ∈ cs) : lcmDen cs = N := by
  unfold lcmDen
  apply Nat.dvd_antisymm
  · apply foldl_lcm_dvd N cs 1 (one_dvd _)
    intro c hc; obtain ⟨i, rfl⟩ := h1 c hc; exact den_natCast_div_dvd i N
  · rcases Nat.lt_or_ge 1 N with h | h
    · have := (dvd_foldl_lcm cs 1).2 _ (h2 h)
      rwa [den_one_div N hN] at this
    · have : N = 1 := by omega
      rw [this]; exact one_dvd _

end WB.C23
