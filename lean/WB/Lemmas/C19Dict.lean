/-
  C19: npz dictionaries — `dic_to_keydic` / `keydic_to_dic`, `as_dict` / `from_dict`, `equals`.
-/
import WB.Model.C19
import WB.Lemmas.C18Npz
import Mathlib.Data.List.Basic
import Mathlib.Data.List.Nodup
import Mathlib.Data.List.Infix

namespace WB.C19
open WB.C18

variable {A : Type}

/-! ### a list of pairs with distinct keys is its own dictionary -/

theorem foldl_dictInsert_nodup : ∀ (l acc : List (Name × A)), ((acc ++ l).map (·.1)).Nodup →
    l.foldl dictInsert acc = acc ++ l
  | [], acc, _ => by simp
  | p :: t, acc, h => by
    have hnot : acc.any (fun q => q.1 == p.1) = false := by
      rw [List.any_eq_false]
      intro q hq hqp
      have hqp' : q.1 = p.1 := by simpa using hqp
      rw [List.map_append, List.map_cons] at h
      have := (List.nodup_append.mp h).2.2 q.1 (List.mem_map.2 ⟨q, hq, rfl⟩) p.1 List.mem_cons_self
      exact this hqp'
    rw [List.foldl_cons, dictInsert, hnot]
    simp only [Bool.false_eq_true, if_false]
    have := foldl_dictInsert_nodup t (acc ++ [p]) (by simpa [List.append_assoc] using h)
    simpa [List.append_assoc] using this

theorem dictOf_nodup (l : List (Name × A)) (h : (l.map (·.1)).Nodup) : dictOf l = l := by
  have := foldl_dictInsert_nodup l [] (by simpa using h)
  simpa [dictOf] using this

/-! ### keys -/

variable (render : Int → Name) (parse : Name → Int)

theorem keyOf_eq (t : Name) (k : Int) : keyOf render t k = (t ++ ['_']) ++ render k := by
  simp [keyOf]

theorem isPrefix_keyOf (t : Name) (k : Int) : (t ++ ['_']).isPrefixOf (keyOf render t k) = true := by
  rw [keyOf_eq, List.isPrefixOf_iff_prefix]
  exact List.prefix_append _ _

theorem drop_keyOf (t : Name) (k : Int) : (keyOf render t k).drop (t.length + 1) = render k := by
  rw [keyOf_eq]
  have : t.length + 1 = (t ++ ['_']).length := by simp
  rw [this, List.drop_left]

theorem keydicToDic_append (t : Name) (a b : List (Name × A)) :
    keydicToDic parse t (a ++ b) = keydicToDic parse t a ++ keydicToDic parse t b := by
  simp [keydicToDic, List.filter_append]

theorem keydicToDic_none (t : Name) (l : List (Name × A)) (h : ∀ p ∈ l, (t ++ ['_']).isPrefixOf p.1 = false) :
    keydicToDic parse t l = [] := by
  unfold keydicToDic
  rw [List.filter_eq_nil_iff.mpr (fun p hp => by simp [h p hp])]
  rfl

theorem keydicToDic_own (hpr : ∀ k, parse (render k) = k) (t : Name) (d : List (Int × A)) :
    keydicToDic parse t (dicToKeydic render t d) = d := by
  induction d with
  | nil => rfl
  | cons p rest ih =>
    have hc : dicToKeydic render t (p :: rest) = [(keyOf render t p.1, p.2)] ++ dicToKeydic render t rest := rfl
    rw [hc, keydicToDic_append, ih]
    simp [keydicToDic, isPrefix_keyOf, drop_keyOf, hpr]

theorem keydicToDic_other (t u : Name) (d : List (Int × A))
    (h : ∀ k, (t ++ ['_']).isPrefixOf (keyOf render u k) = false) :
    keydicToDic parse t (dicToKeydic render u d) = [] := by
  apply keydicToDic_none
  intro p hp
  simp only [dicToKeydic, List.mem_map] at hp
  obtain ⟨q, -, rfl⟩ := hp
  exact h q.1

theorem keydicToDic_flatMap_others (t : Name) : ∀ (dicts : List (Name × List (Int × A))),
    (∀ u ∈ dicts, u.1 ≠ t) →
    (∀ u ∈ dicts, u.1 ≠ t → ∀ k, (t ++ ['_']).isPrefixOf (keyOf render u.1 k) = false) →
    keydicToDic parse t (dicts.flatMap (fun u => dicToKeydic render u.1 u.2)) = []
  | [], _, _ => rfl
  | u :: rest, hne, hsep => by
    rw [List.flatMap_cons, keydicToDic_append,
      keydicToDic_other render parse t u.1 u.2 (hsep u List.mem_cons_self (hne u List.mem_cons_self)),
      keydicToDic_flatMap_others t rest (fun v hv => hne v (List.mem_cons_of_mem _ hv))
        (fun v hv => hsep v (List.mem_cons_of_mem _ hv))]
    rfl

theorem keydicToDic_flatMap (hpr : ∀ k, parse (render k) = k) (t : Name) (d : List (Int × A)) :
    ∀ (dicts : List (Name × List (Int × A))), (t, d) ∈ dicts → (dicts.map (·.1)).Nodup →
    (∀ u ∈ dicts, u.1 ≠ t → ∀ k, (t ++ ['_']).isPrefixOf (keyOf render u.1 k) = false) →
    keydicToDic parse t (dicts.flatMap (fun u => dicToKeydic render u.1 u.2)) = d
  | [], hmem, _, _ => by simp at hmem
  | u :: rest, hmem, hnd, hsep => by
    rw [List.map_cons, List.nodup_cons] at hnd
    rw [List.flatMap_cons, keydicToDic_append]
    by_cases hu : u.1 = t
    · -- then u = (t, d): otherwise t would occur twice among the tags
      have hud : u = (t, d) := by
        rcases List.mem_cons.mp hmem with h | h
        · exact h.symm
        · exact absurd (List.mem_map.2 ⟨(t, d), h, rfl⟩) (hu ▸ hnd.1)
      have hrest : ∀ v ∈ rest, v.1 ≠ t := by
        intro v hv e
        exact hnd.1 (List.mem_map.2 ⟨v, hv, by rw [e, hu]⟩)
      rw [keydicToDic_flatMap_others render parse t rest hrest
        (fun v hv => hsep v (List.mem_cons_of_mem _ hv)), hud]
      simp [keydicToDic_own render parse hpr]
    · have hin : (t, d) ∈ rest := by
        rcases List.mem_cons.mp hmem with h | h
        · exact absurd (by rw [← h]) hu
        · exact h
      rw [keydicToDic_other render parse t u.1 u.2 (hsep u List.mem_cons_self hu),
        keydicToDic_flatMap hpr t d rest hin hnd.2 (fun v hv => hsep v (List.mem_cons_of_mem _ hv))]
      rfl

/-- the tag-level condition that the harness checks on the live tag tables: if `t_` is not a prefix of `u_`,
    `t ≠ u` and rendered integers contain no underscore, no key of `u` is mistaken for a key of `t` -/
theorem sep_of_tags (t u : Name) (hne : t ≠ u) (hpre : (t ++ ['_']).isPrefixOf (u ++ ['_']) = false)
    (hr : ∀ k, '_' ∉ render k) (k : Int) : (t ++ ['_']).isPrefixOf (keyOf render u k) = false := by
  rw [Bool.eq_false_iff]
  intro h
  rw [List.isPrefixOf_iff_prefix, keyOf_eq] at h
  have h2 : (u ++ ['_']) <+: (u ++ ['_']) ++ render k := List.prefix_append _ _
  rcases List.prefix_or_prefix_of_prefix h h2 with h3 | h3
  · rw [← List.isPrefixOf_iff_prefix, hpre] at h3
    exact Bool.noConfusion h3
  · obtain ⟨s, hs⟩ := h3
    rw [← hs, List.prefix_append_right_inj] at h
    cases s with
    | nil =>
      rw [List.append_nil] at hs
      exact hne (List.append_cancel_right hs).symm
    | cons c s' =>
      -- the last character of `t_` is '_' and it lies in `s`, hence in `render k`
      have hlast : '_' ∈ (c :: s') := by
        have e1 : ((u ++ ['_']) ++ (c :: s')).getLast (by simp) = '_' := by
          simp only [hs]
          simp
        rw [List.getLast_append_of_ne_nil (by simp) (List.cons_ne_nil c s')] at e1
        rw [← e1]
        exact List.getLast_mem _
      exact hr k (h.subset hlast)

/-! ### `from_dict ∘ as_dict` -/

theorem filterMap_lookup : ∀ (l pre rest : List (Name × A)), ((pre ++ l ++ rest).map (·.1)).Nodup →
    (l.map (·.1)).filterMap (fun k => (dirGet (pre ++ l ++ rest) k).map (fun a => (k, a))) = l
  | [], _, _, _ => rfl
  | p :: t, pre, rest, h => by
    have hpre : dirGet pre p.1 = none := by
      apply dirGet_none_of_not_mem
      intro q hq e
      rw [List.append_assoc, List.map_append] at h
      have := (List.nodup_append.mp h).2.2 q.1 (List.mem_map.2 ⟨q, hq, rfl⟩) p.1
        (by simp)
      exact this e
    have hget : dirGet (pre ++ p :: t ++ rest) p.1 = some p.2 := by
      rw [List.append_assoc, dirGet_append, hpre, List.cons_append, dirGet_cons, if_pos rfl]
      rfl
    rw [List.map_cons, List.filterMap_cons, hget]
    simp only [Option.map_some]
    have e : pre ++ p :: t ++ rest = (pre ++ [p]) ++ t ++ rest := by simp
    rw [e]
    rw [filterMap_lookup t (pre ++ [p]) rest (by rw [← e]; exact h)]

theorem fromDict_asDict (hpr : ∀ k, parse (render k) = k) (o : Obj A)
    (hnd : (o.dicts.map (·.1)).Nodup)
    (hkeys : ((o.tags ++ o.dicts.flatMap (fun t => dicToKeydic render t.1 t.2)).map (·.1)).Nodup)
    (htags : ∀ t ∈ o.dicts, ∀ p ∈ o.tags, (t.1 ++ ['_']).isPrefixOf p.1 = false)
    (hsep : ∀ t ∈ o.dicts, ∀ u ∈ o.dicts, u.1 ≠ t.1 → ∀ k, (t.1 ++ ['_']).isPrefixOf (keyOf render u.1 k) = false) :
    fromDict parse (o.tags.map (·.1)) (o.dicts.map (·.1)) (asDict render o) = o := by
  obtain ⟨tags, dicts⟩ := o
  simp only at hnd hkeys htags hsep
  have has : asDict render ⟨tags, dicts⟩ = tags ++ dicts.flatMap (fun t => dicToKeydic render t.1 t.2) :=
    dictOf_nodup _ hkeys
  unfold fromDict
  rw [has]
  congr 1
  · have := filterMap_lookup tags [] (dicts.flatMap (fun t => dicToKeydic render t.1 t.2)) (by simpa using hkeys)
    simpa using this
  · rw [List.map_map]
    conv_rhs => rw [← List.map_id dicts]
    apply List.map_congr_left
    intro u hu
    simp only [Function.comp, id]
    rw [keydicToDic_append, keydicToDic_none parse u.1 tags (htags u hu),
      keydicToDic_flatMap render parse hpr u.1 u.2 dicts hu hnd (fun v hv hne => hsep u hu v hv hne)]
    rfl

/-! ### `equals` -/

theorem dictEquals_refl (close : A → A → Bool) (hc : ∀ a, close a a = true) (d : List (Int × A))
    (hnd : (d.map (·.1)).Nodup) : dictEquals close d d = true := by
  unfold dictEquals
  simp only [Bool.and_eq_true, List.all_eq_true, List.any_eq_true, Bool.or_eq_true, Bool.not_eq_true',
    beq_eq_false_iff_ne, beq_iff_eq]
  refine ⟨⟨fun p hp => ⟨p, hp, rfl⟩, fun p hp => ⟨p, hp, rfl⟩⟩, ?_⟩
  intro p hp q hq
  by_cases e : q.1 = p.1
  · right
    have : q = p := List.inj_on_of_nodup_map hnd hq hp e
    rw [this]; exact hc _
  · left; exact e

/-! ### saving is a function of the current contents only -/

theorem filterMap_eq_map_of_some {α β : Type} (h : α → Option β) (g : α → β) :
    ∀ l : List α, (∀ p ∈ l, h p = some (g p)) → l.filterMap h = l.map g
  | [], _ => rfl
  | a :: t, hl => by
    rw [List.filterMap_cons, hl a List.mem_cons_self, List.map_cons,
      filterMap_eq_map_of_some h g t (fun p hp => hl p (List.mem_cons_of_mem _ hp))]


section save
variable {B : Type} (ext : Name → Name)

theorem saveTo_other (seed : Name) (x : Name) : ∀ (cont : List (Name × FileObj B)) (disk : List (Name × B)),
    (∀ q ∈ cont, npzPath ext seed q.1 ≠ x) → dirGet (saveTo ext seed cont disk) x = dirGet disk x
  | [], _, _ => rfl
  | p :: t, disk, h => by
    unfold saveTo
    rw [List.foldl_cons]
    have := saveTo_other seed x t ((npzPath ext seed p.1, p.2.content) :: disk)
      (fun q hq => h q (List.mem_cons_of_mem _ hq))
    unfold saveTo at this
    rw [this, dirGet_cons, if_neg (h p List.mem_cons_self)]

theorem saveTo_get (seed : Name) : ∀ (cont : List (Name × FileObj B)) (disk : List (Name × B)),
    (cont.map (fun p => npzPath ext seed p.1)).Nodup → ∀ p ∈ cont,
    dirGet (saveTo ext seed cont disk) (npzPath ext seed p.1) = some p.2.content
  | [], _, _, p, hp => by simp at hp
  | q :: t, disk, hnd, p, hp => by
    rw [List.map_cons, List.nodup_cons] at hnd
    rcases List.mem_cons.mp hp with rfl | hp
    · have hne : ∀ r ∈ t, npzPath ext seed r.1 ≠ npzPath ext seed p.1 := by
        intro r hr e
        exact hnd.1 (List.mem_map.2 ⟨r, hr, e⟩)
      have := saveTo_other ext seed (npzPath ext seed p.1) t ((npzPath ext seed p.1, p.2.content) :: disk) hne
      unfold saveTo at this ⊢
      rw [List.foldl_cons, this, dirGet_cons, if_pos rfl]
    · have := saveTo_get seed t ((npzPath ext seed q.1, q.2.content) :: disk) hnd.2 p hp
      unfold saveTo at this ⊢
      rw [List.foldl_cons]
      exact this

end save

end WB.C19
