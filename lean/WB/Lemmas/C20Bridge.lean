/-
  C20 — bridge between the executable entry formula `WB.C20.pullEntry` (Model, run by the correspondence check against
  the real `average_XX_block`) and the matrix-level `pull` of `Lemmas/C20Avg.lean` (the subject of the group-action
  theorems): for `Fin`-indexed orbitals and Cartesian components they are the same numbers.
-/
import WB.Model.C20
import WB.Lemmas.C20Avg
import Mathlib.Algebra.BigOperators.Fin

namespace WB.C20
open Matrix

section
variable {K : Type} [Field K] [StarRing K]

omit [StarRing K] in
theorem sumTo_eq (n : Nat) (f : Nat → K) : sumTo n f = ∑ j ∈ Finset.range n, f j := by
  unfold sumTo
  induction n with
  | zero => simp
  | succ n ih =>
    rw [List.range_succ, List.foldl_append, ih, Finset.sum_range_succ]
    simp

/-- a `Fin`-indexed matrix as a function on `Nat × Nat` (zero outside the block) -/
def ext2 {a b : Nat} (M : Matrix (Fin a) (Fin b) K) : Nat → Nat → K :=
  fun i j => if h : i < a ∧ j < b then M ⟨i, h.1⟩ ⟨j, h.2⟩ else 0

omit [StarRing K] in
theorem ext2_val {a b : Nat} (M : Matrix (Fin a) (Fin b) K) (i : Fin a) (j : Fin b) : ext2 M i.val j.val = M i j := by
  unfold ext2
  rw [dif_pos ⟨i.isLt, j.isLt⟩]

omit [StarRing K] in
theorem sumTo_fin (n : Nat) (f : Nat → K) : sumTo n f = ∑ j : Fin n, f j.val := by
  rw [sumTo_eq, Fin.sum_univ_eq_sum_range]

variable {G ι A₁ A₂ : Type} {N1 N2 NC : Nat} [Group G] [AddCommGroup ι] [DistribMulAction G ι]
    [MulAction G A₁] [MulAction G A₂]

/-- the numbers computed by the executable model are the entries of `pull` -/
theorem pull_entry (S : BlockRep G ι A₁ A₂ (Fin N1) (Fin N2) (Fin NC) K) (h : G) (X : BlockFn S)
    (R : ι) (a : A₁) (b : A₂) (i : Fin NC) (p : Fin N1) (q : Fin N2) :
    pull S h X R a b i p q =
      pullEntry star (S.tr h) N1 N2 NC (ext2 (S.Rc h)) (ext2 (S.D₁ h a)) (ext2 (S.D₂ h b))
        (fun j r s => if hj : j < NC then
            ext2 (X (h • R + S.T₁ h a - S.T₂ h b) (h • a) (h • b) ⟨j, hj⟩) r s else 0)
        i.val p.val q.val := by
  -- the inner expression, entrywise
  have inner : (∑ j, S.Rc h j i • ((S.D₁ h a)ᴴ * X (h • R + S.T₁ h a - S.T₂ h b) (h • a) (h • b) j * S.D₂ h b)) p q
      = sumTo NC (fun j => ext2 (S.Rc h) j i.val * sumTo N1 (fun r => sumTo N2 (fun s =>
          star (ext2 (S.D₁ h a) r p.val) *
            (if hj : j < NC then ext2 (X (h • R + S.T₁ h a - S.T₂ h b) (h • a) (h • b) ⟨j, hj⟩) r s else 0) *
            ext2 (S.D₂ h b) s q.val))) := by
    rw [sumTo_fin, Matrix.sum_apply]
    apply Finset.sum_congr rfl
    intro j _
    rw [Matrix.smul_apply, smul_eq_mul, ext2_val, sumTo_fin]
    congr 1
    rw [Matrix.mul_apply]
    simp only [Matrix.mul_apply, conjTranspose_apply, Finset.sum_mul]
    rw [Finset.sum_comm]
    apply Finset.sum_congr rfl
    intro r _
    rw [sumTo_fin]
    apply Finset.sum_congr rfl
    intro s _
    rw [ext2_val, ext2_val, dif_pos j.isLt, ext2_val]
  unfold pull pullEntry
  cases ht : S.tr h
  · simp only [cj, Bool.false_eq_true, if_false]
    exact inner
  · simp only [cj, if_true, Matrix.map_apply]
    rw [inner]

end

end WB.C20
