/-
  C13 — bins are step functions of the Fermi level; linearity of the finite-difference stencils.
-/
import WB.Model.C13
import WB.Lemmas.C14Groups
import Mathlib.Algebra.Order.Field.Basic
import Mathlib.Tactic.Linarith
import Mathlib.Tactic.Ring
import Mathlib.Tactic.FieldSimp
import Mathlib.Tactic.NormNum

namespace WB.C13
open WB.C14 (foldl_add_eq_sum)

/-- T1.  On a uniform grid with spacing `d > 0` the bin index `ceil((E - EFmin)/d)` is `≤ j` exactly when
    `E ≤ EFmin + j·d`: bin `j` and all later ones see the state -/
theorem iEf_le_iff (efmin d E : Rat) (hd : 0 < d) (j : Nat) :
    iEf efmin d E ≤ (j : Int) ↔ E ≤ efmin + (j : Rat) * d := by
  unfold iEf
  rw [Rat.ceil_le_iff, Int.cast_natCast, div_le_iff₀ hd]
  constructor <;> intro h <;> linarith

/-- "the group lies below the level `x`" (`none` is the lumped group at `-inf`) -/
def Below (e : Option Rat) (x : Rat) : Prop :=
  match e with
  | none => True
  | some E => E ≤ x

instance (e : Option Rat) (x : Rat) : Decidable (Below e x) := by
  unfold Below; cases e <;> infer_instance

/-- step function of one group -/
def stepVal (g : Group) (x : Rat) : Rat := if Below g.1 x then g.2 else 0

/-- the Fermi-sea sum at level `x`: all groups with energy `≤ x`, each counted whole -/
def stepSum (groups : List Group) (x : Rat) : Rat := (groups.map (fun g => stepVal g x)).sum

theorem stepVal_none (v x : Rat) : stepVal (none, v) x = v := by
  unfold stepVal
  rw [if_pos (show Below none x from trivial)]

theorem stepVal_some (E v x : Rat) : stepVal (some E, v) x = if E ≤ x then v else 0 := by
  unfold stepVal
  by_cases h : E ≤ x
  · rw [if_pos h, if_pos (show Below (some E) x from h)]
  · rw [if_neg h, if_neg (show ¬ Below (some E) x from h)]

theorem contrib_eq_step (efmin efmax d : Rat) (hd : 0 < d) (g : Group) (j : Nat)
    (hj : efmin + (j : Rat) * d ≤ efmax) :
    contrib efmin efmax d g j = stepVal g (efmin + (j : Rat) * d) := by
  have hjd : (0 : Rat) ≤ (j : Rat) * d := mul_nonneg (Nat.cast_nonneg j) hd.le
  rcases g with ⟨e, v⟩
  cases e with
  | none => rw [stepVal_none]; rfl
  | some E =>
    rw [stepVal_some]
    unfold contrib
    simp only
    by_cases h1 : E < efmin
    · rw [if_pos h1, if_pos (by linarith)]
    · rw [if_neg h1]
      by_cases h2 : E ≤ efmax
      · rw [if_pos h2]
        simp only [iEf_le_iff efmin d E hd j]
      · rw [if_neg h2, if_neg (by intro h; apply h2; linarith)]

/-- T1 (accumulation).  For every bin `j` of the (extended) grid, `restot[j]` is the sum of the values of exactly the
    groups whose energy is `≤ EFmin + j·d` -/
theorem accumulate_eq_stepSum (efmin efmax d : Rat) (hd : 0 < d) (groups : List Group) (j : Nat)
    (hj : efmin + (j : Rat) * d ≤ efmax) :
    accumulate efmin efmax d groups j = stepSum groups (efmin + (j : Rat) * d) := by
  unfold accumulate stepSum
  rw [foldl_add_eq_sum, zero_add]
  congr 1
  apply List.map_congr_left
  intro g _
  exact contrib_eq_step efmin efmax d hd g j hj

theorem accumulate_append (efmin efmax d : Rat) (g1 g2 : List Group) (j : Nat) :
    accumulate efmin efmax d (g1 ++ g2) j = accumulate efmin efmax d g1 j + accumulate efmin efmax d g2 j := by
  unfold accumulate
  simp only [List.map_append, foldl_add_eq_sum, List.sum_append]
  ring

/-! ### stencils -/

theorem stencil_0 (d : Rat) (r : Nat → Rat) (j : Nat) : stencil 0 d r j = r j := rfl
theorem stencil_1 (d : Rat) (r : Nat → Rat) (j : Nat) : stencil 1 d r j = (r (j + 2) - r j) / (2 * d) := rfl
theorem stencil_2 (d : Rat) (r : Nat → Rat) (j : Nat) :
    stencil 2 d r j = (r (j + 2) + r j - 2 * r (j + 1)) / (d * d) := rfl
theorem stencil_3 (d : Rat) (r : Nat → Rat) (j : Nat) :
    stencil 3 d r j = (r (j + 4) - r j - 2 * (r (j + 3) - r (j + 1))) / (2 * (d * d * d)) := rfl
theorem stencil_ge4 (n : Nat) (d : Rat) (r : Nat → Rat) (j : Nat) : stencil (n + 4) d r j = 0 := rfl

/-- the stencils of order 1-3 annihilate constants -/
theorem stencil_add_const (fder : Nat) (hf : 1 ≤ fder) (d : Rat) (r : Nat → Rat) (c : Rat) (j : Nat) :
    stencil fder d (fun i => r i + c) j = stencil fder d r j := by
  match fder, hf with
  | 1, _ => simp only [stencil_1]; ring
  | 2, _ => simp only [stencil_2]; ring
  | 3, _ => simp only [stencil_3]; ring
  | (n + 4), _ => rfl

theorem stencil_add (fder : Nat) (d : Rat) (r s : Nat → Rat) (j : Nat) :
    stencil fder d (fun i => r i + s i) j = stencil fder d r j + stencil fder d s j := by
  match fder with
  | 0 => rfl
  | 1 => simp only [stencil_1]; ring
  | 2 => simp only [stencil_2]; ring
  | 3 => simp only [stencil_3]; ring
  | (n + 4) => simp only [stencil_ge4]; ring

theorem stencil_zero (fder : Nat) (d : Rat) (j : Nat) : stencil fder d (fun _ => 0) j = 0 := by
  match fder with
  | 0 => rfl
  | 1 => simp only [stencil_1]; ring
  | 2 => simp only [stencil_2]; ring
  | 3 => simp only [stencil_3]; ring
  | (n + 4) => rfl

theorem stencil_div (fder : Nat) (d : Rat) (r : Nat → Rat) (c : Rat) (j : Nat) :
    stencil fder d (fun i => r i / c) j = stencil fder d r j / c := by
  match fder with
  | 0 => rfl
  | 1 => simp only [stencil_1]; ring
  | 2 => simp only [stencil_2]; ring
  | 3 => simp only [stencil_3]; ring
  | (n + 4) => simp only [stencil_ge4]; ring

theorem sumK_nil (j : Nat) : sumK [] j = 0 := rfl

theorem sumK_cons (r : Nat → Rat) (rs : List (Nat → Rat)) (j : Nat) : sumK (r :: rs) j = r j + sumK rs j := by
  unfold sumK
  rw [List.map_cons, foldl_add_eq_sum, foldl_add_eq_sum, List.sum_cons]
  ring

/-- the stencil of a sum over k-points is the sum of the stencils -/
theorem stencil_sumK (fder : Nat) (d : Rat) (rs : List (Nat → Rat)) (j : Nat) :
    stencil fder d (sumK rs) j = ((rs.map (fun r => stencil fder d r j))).sum := by
  induction rs with
  | nil =>
    have : sumK [] = fun _ => (0 : Rat) := funext sumK_nil
    rw [this, stencil_zero]; rfl
  | cons r rs ih =>
    have : sumK (r :: rs) = fun i => r i + sumK rs i := funext (sumK_cons r rs)
    rw [this, stencil_add, ih, List.map_cons, List.sum_cons]

/-- T4.  The mean over k of the k-resolved result is the unresolved result (all derivative orders) -/
theorem kresolved_mean_aux (fder : Nat) (Ef : Nat → Rat) (n : Nat) (ks : List (List Group)) (j : Nat) :
    ((ks.map (fun g => resolved fder Ef n g j)).sum) / (ks.length : Rat) = unresolved fder Ef n ks j := by
  unfold unresolved resolved
  rw [stencil_sumK, List.map_map]
  rfl

end WB.C13
