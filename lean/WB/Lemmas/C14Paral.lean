/-
  C14 — the parallelepiped weight: the 12 tetrahedra (centre + 2 triangles per face) have volume 1/12 each and cover
  the cell, and the weight is their arithmetic mean, hence a convex combination of exact tetrahedron fractions.
-/
import WB.Lemmas.C14Sort

namespace WB.C14
set_option linter.unusedSectionVars false

/-! ### geometry (cell = unit cube in reduced coordinates; vertex `(ix,iy,iz)` sits at `(ix,iy,iz)`, centre at ½½½) -/

/-- six times the signed volume of the tetrahedron (centre, v1, v2, v3), doubled coordinates to stay integral:
    `det(2v1-1, 2v2-1, 2v3-1) / 8` -/
def tetVol6 (t : (Nat × Nat × Nat) × (Nat × Nat × Nat) × (Nat × Nat × Nat)) : Rat :=
  let u (v : Nat × Nat × Nat) : Rat × Rat × Rat := (2 * v.1 - 1, 2 * v.2.1 - 1, 2 * v.2.2 - 1)
  let a := u t.1
  let b := u t.2.1
  let c := u t.2.2
  (a.1 * (b.2.1 * c.2.2 - b.2.2 * c.2.1) - a.2.1 * (b.1 * c.2.2 - b.2.2 * c.1)
    + a.2.2 * (b.1 * c.2.1 - b.2.1 * c.1)) / 8

theorem paralTets_length : paralTets.length = 12 := by decide

/-- every one of the 12 tetrahedra has volume |det|/6 = 1/12 of the cell -/
theorem paralTets_volume : ∀ t ∈ paralTets, tetVol6 t * tetVol6 t = 1 / 4 := by decide +kernel

variable {K : Type} [Field K] [LinearOrder K] [IsStrictOrderedRing K]

/-- the point `l0·centre + l1·v1 + l2·v2 + l3·v3` -/
def comb (t : (Nat × Nat × Nat) × (Nat × Nat × Nat) × (Nat × Nat × Nat)) (l0 l1 l2 l3 : K) : K × K × K :=
  (l0 / 2 + l1 * (t.1.1 : K) + l2 * (t.2.1.1 : K) + l3 * (t.2.2.1 : K),
   l0 / 2 + l1 * (t.1.2.1 : K) + l2 * (t.2.1.2.1 : K) + l3 * (t.2.2.2.1 : K),
   l0 / 2 + l1 * (t.1.2.2 : K) + l2 * (t.2.1.2.2 : K) + l3 * (t.2.2.2.2 : K))

/-- `p` lies in the closed tetrahedron (centre, v1, v2, v3) -/
def InTet (t : (Nat × Nat × Nat) × (Nat × Nat × Nat) × (Nat × Nat × Nat)) (p : K × K × K) : Prop :=
  ∃ l0 l1 l2 l3 : K, 0 ≤ l0 ∧ 0 ≤ l1 ∧ 0 ≤ l2 ∧ 0 ≤ l3 ∧ l0 + l1 + l2 + l3 = 1 ∧ p = comb t l0 l1 l2 l3

theorem cover_witness (x y z : K) (t : (Nat × Nat × Nat) × (Nat × Nat × Nat) × (Nat × Nat × Nat))
    (ht : t ∈ paralTets) (l0 l1 l2 l3 : K) (h0 : 0 ≤ l0) (h1 : 0 ≤ l1) (h2 : 0 ≤ l2) (h3 : 0 ≤ l3)
    (hsum : l0 + l1 + l2 + l3 = 1) (hp : (x, y, z) = comb t l0 l1 l2 l3) :
    ∃ t ∈ paralTets, InTet t (x, y, z) :=
  ⟨t, ht, l0, l1, l2, l3, h0, h1, h2, h3, hsum, hp⟩

/-- T6 (cover): every point of the cell lies in one of the 12 tetrahedra; together with `paralTets_volume`
    (12 · 1/12 = 1) they tile the cell -/
theorem paralTets_cover (x y z : K) (hx0 : 0 ≤ x) (hx1 : x ≤ 1) (hy0 : 0 ≤ y) (hy1 : y ≤ 1) (hz0 : 0 ≤ z)
    (hz1 : z ≤ 1) : ∃ t ∈ paralTets, InTet t (x, y, z) := by
  rcases le_total x y with hxy | hxy <;> rcases le_total y z with hyz | hyz <;>
    rcases le_total x z with hxz | hxz
  · rcases le_total (x + z) 1 with hs | hs
    · exact cover_witness x y z ((0,0,0), (0,0,1), (0,1,1)) (by decide) (2*x) (-x - z + 1) (-y + z) (-x + y)
        (by linarith) (by linarith) (by linarith) (by linarith) (by ring)
        (by simp only [comb, Nat.cast_one, Nat.cast_zero]; refine Prod.ext ?_ (Prod.ext ?_ ?_) <;> (simp only []; ring))
    · exact cover_witness x y z ((0,0,1), (0,1,1), (1,1,1)) (by decide) (2 - 2*z) (-y + z) (-x + y) (x + z - 1)
        (by linarith) (by linarith) (by linarith) (by linarith) (by ring)
        (by simp only [comb, Nat.cast_one, Nat.cast_zero]; refine Prod.ext ?_ (Prod.ext ?_ ?_) <;> (simp only []; ring))
  · rcases le_total (x + y) 1 with hs | hs
    · exact cover_witness x y z ((0,0,0), (0,0,1), (0,1,1)) (by decide) (2*x) (-x - z + 1) (-y + z) (-x + y)
        (by linarith) (by linarith) (by linarith) (by linarith) (by ring)
        (by simp only [comb, Nat.cast_one, Nat.cast_zero]; refine Prod.ext ?_ (Prod.ext ?_ ?_) <;> (simp only []; ring))
    · exact cover_witness x y z ((1,0,0), (1,0,1), (1,1,1)) (by decide) (2 - 2*x) (x - z) (-y + z) (x + y - 1)
        (by linarith) (by linarith) (by linarith) (by linarith) (by ring)
        (by simp only [comb, Nat.cast_one, Nat.cast_zero]; refine Prod.ext ?_ (Prod.ext ?_ ?_) <;> (simp only []; ring))
  · rcases le_total (x + y) 1 with hs | hs
    · exact cover_witness x y z ((0,0,0), (0,1,0), (0,1,1)) (by decide) (2*x) (-x - y + 1) (y - z) (-x + z)
        (by linarith) (by linarith) (by linarith) (by linarith) (by ring)
        (by simp only [comb, Nat.cast_one, Nat.cast_zero]; refine Prod.ext ?_ (Prod.ext ?_ ?_) <;> (simp only []; ring))
    · exact cover_witness x y z ((0,1,0), (0,1,1), (1,1,1)) (by decide) (2 - 2*y) (y - z) (-x + z) (x + y - 1)
        (by linarith) (by linarith) (by linarith) (by linarith) (by ring)
        (by simp only [comb, Nat.cast_one, Nat.cast_zero]; refine Prod.ext ?_ (Prod.ext ?_ ?_) <;> (simp only []; ring))
  · rcases le_total (z + y) 1 with hs | hs
    · exact cover_witness x y z ((0,0,0), (0,1,0), (1,1,0)) (by decide) (2*z) (-y - z + 1) (-x + y) (x - z)
        (by linarith) (by linarith) (by linarith) (by linarith) (by ring)
        (by simp only [comb, Nat.cast_one, Nat.cast_zero]; refine Prod.ext ?_ (Prod.ext ?_ ?_) <;> (simp only []; ring))
    · exact cover_witness x y z ((0,1,0), (1,1,0), (1,1,1)) (by decide) (2 - 2*y) (-x + y) (x - z) (y + z - 1)
        (by linarith) (by linarith) (by linarith) (by linarith) (by ring)
        (by simp only [comb, Nat.cast_one, Nat.cast_zero]; refine Prod.ext ?_ (Prod.ext ?_ ?_) <;> (simp only []; ring))
  · rcases le_total (y + z) 1 with hs | hs
    · exact cover_witness x y z ((0,0,0), (0,0,1), (1,0,1)) (by decide) (2*y) (-y - z + 1) (-x + z) (x - y)
        (by linarith) (by linarith) (by linarith) (by linarith) (by ring)
        (by simp only [comb, Nat.cast_one, Nat.cast_zero]; refine Prod.ext ?_ (Prod.ext ?_ ?_) <;> (simp only []; ring))
    · exact cover_witness x y z ((0,0,1), (1,0,1), (1,1,1)) (by decide) (2 - 2*z) (-x + z) (x - y) (y + z - 1)
        (by linarith) (by linarith) (by linarith) (by linarith) (by ring)
        (by simp only [comb, Nat.cast_one, Nat.cast_zero]; refine Prod.ext ?_ (Prod.ext ?_ ?_) <;> (simp only []; ring))
  · rcases le_total (y + x) 1 with hs | hs
    · exact cover_witness x y z ((0,0,0), (1,0,0), (1,0,1)) (by decide) (2*y) (-x - y + 1) (x - z) (-y + z)
        (by linarith) (by linarith) (by linarith) (by linarith) (by ring)
        (by simp only [comb, Nat.cast_one, Nat.cast_zero]; refine Prod.ext ?_ (Prod.ext ?_ ?_) <;> (simp only []; ring))
    · exact cover_witness x y z ((1,0,0), (1,0,1), (1,1,1)) (by decide) (2 - 2*x) (x - z) (-y + z) (x + y - 1)
        (by linarith) (by linarith) (by linarith) (by linarith) (by ring)
        (by simp only [comb, Nat.cast_one, Nat.cast_zero]; refine Prod.ext ?_ (Prod.ext ?_ ?_) <;> (simp only []; ring))
  · rcases le_total (x + y) 1 with hs | hs
    · exact cover_witness x y z ((0,0,0), (0,0,1), (0,1,1)) (by decide) (2*x) (-x - z + 1) (-y + z) (-x + y)
        (by linarith) (by linarith) (by linarith) (by linarith) (by ring)
        (by simp only [comb, Nat.cast_one, Nat.cast_zero]; refine Prod.ext ?_ (Prod.ext ?_ ?_) <;> (simp only []; ring))
    · exact cover_witness x y z ((1,0,0), (1,0,1), (1,1,1)) (by decide) (2 - 2*x) (x - z) (-y + z) (x + y - 1)
        (by linarith) (by linarith) (by linarith) (by linarith) (by ring)
        (by simp only [comb, Nat.cast_one, Nat.cast_zero]; refine Prod.ext ?_ (Prod.ext ?_ ?_) <;> (simp only []; ring))
  · rcases le_total (z + x) 1 with hs | hs
    · exact cover_witness x y z ((0,0,0), (1,0,0), (1,1,0)) (by decide) (2*z) (-x - z + 1) (x - y) (y - z)
        (by linarith) (by linarith) (by linarith) (by linarith) (by ring)
        (by simp only [comb, Nat.cast_one, Nat.cast_zero]; refine Prod.ext ?_ (Prod.ext ?_ ?_) <;> (simp only []; ring))
    · exact cover_witness x y z ((1,0,0), (1,1,0), (1,1,1)) (by decide) (2 - 2*x) (x - y) (y - z) (x + z - 1)
        (by linarith) (by linarith) (by linarith) (by linarith) (by ring)
        (by simp only [comb, Nat.cast_one, Nat.cast_zero]; refine Prod.ext ?_ (Prod.ext ?_ ?_) <;> (simp only []; ring))

/-! ### the weight is the mean of 12 tetrahedron weights -/

theorem foldl_sum_bounds {T : Type} (f : T → K) : ∀ (l : List T) (a0 : K),
    (∀ t ∈ l, 0 ≤ f t ∧ f t ≤ 1) →
    a0 ≤ l.foldl (fun acc t => acc + f t) a0 ∧ l.foldl (fun acc t => acc + f t) a0 ≤ a0 + (l.length : K)
  | [], a0, _ => by simp
  | t :: l, a0, h => by
    have ht := h t (by simp)
    have ih := foldl_sum_bounds f l (a0 + f t) (fun s hs => h s (List.mem_cons_of_mem _ hs))
    simp only [List.foldl_cons, List.length_cons, Nat.cast_add, Nat.cast_one]
    constructor <;> linarith [ih.1, ih.2, ht.1, ht.2]

theorem foldl_sum_mono {T : Type} (f g : T → K) : ∀ (l : List T) (a0 b0 : K), a0 ≤ b0 →
    (∀ t ∈ l, f t ≤ g t) →
    l.foldl (fun acc t => acc + f t) a0 ≤ l.foldl (fun acc t => acc + g t) b0
  | [], a0, b0, h0, _ => by simpa using h0
  | t :: l, a0, b0, h0, h => by
    simp only [List.foldl_cons]
    exact foldl_sum_mono f g l _ _ (by linarith [h t (by simp)]) (fun s hs => h s (List.mem_cons_of_mem _ hs))

theorem foldl_sum_const {T : Type} (f : T → K) (c : K) : ∀ (l : List T) (a0 : K), (∀ t ∈ l, f t = c) →
    l.foldl (fun acc t => acc + f t) a0 = a0 + (l.length : K) * c
  | [], a0, _ => by simp
  | t :: l, a0, h => by
    simp only [List.foldl_cons, List.length_cons, Nat.cast_add, Nat.cast_one]
    rw [foldl_sum_const f c l _ (fun s hs => h s (List.mem_cons_of_mem _ hs)), h t (by simp)]
    ring

/-- T6 (range): the parallelepiped occupation weight lies in [0,1] -/
theorem paralWeight_range {dmin : K} (hd : 0 < dmin) (acc : Bool) (center : K) (corner : Nat × Nat × Nat → K) (x : K) :
    0 ≤ paralWeight dmin 0 acc center corner x ∧ paralWeight dmin 0 acc center corner x ≤ 1 := by
  unfold paralWeight
  have h := foldl_sum_bounds
    (fun t : (Nat × Nat × Nat) × (Nat × Nat × Nat) × (Nat × Nat × Nat) =>
      weightsTetra dmin 0 acc center (corner t.1) (corner t.2.1) (corner t.2.2) x) paralTets 0
    (fun t _ => weightsTetra_range hd acc _ _ _ _ x)
  rw [paralTets_length] at h
  have h12 : (0 : K) < ((12 : Nat) : K) := by norm_num
  constructor
  · exact div_nonneg h.1 h12.le
  · rw [div_le_one h12]; simpa using h.2

/-- T6 (monotone) -/
theorem paralWeight_mono {dmin : K} (hd : 0 < dmin) (acc : Bool) (center : K) (corner : Nat × Nat × Nat → K) :
    Monotone (fun x => paralWeight dmin 0 acc center corner x) := by
  intro x y hxy
  unfold paralWeight
  have h12 : (0 : K) < ((12 : Nat) : K) := by norm_num
  apply div_le_div_of_nonneg_right _ h12.le
  exact foldl_sum_mono _ _ paralTets 0 0 (le_refl _) (fun t _ => weightsTetra_mono hd acc _ _ _ _ hxy)

/-- the parallelepiped weight is 1 once the Fermi level is `3·diff_min` above the centre and all 8 corners -/
theorem paralWeight_one_above {dmin : K} (hd : 0 < dmin) (acc : Bool) (center : K) (corner : Nat × Nat × Nat → K)
    (x M : K) (hc : center ≤ M) (hcorn : ∀ v, corner v ≤ M) (hx : M + 3 * dmin ≤ x) :
    paralWeight dmin 0 acc center corner x = 1 := by
  unfold paralWeight
  rw [foldl_sum_const _ 1 paralTets 0
    (fun t _ => weightsTetra_one_above hd acc _ _ _ _ x M hc (hcorn _) (hcorn _) (hcorn _) hx), paralTets_length]
  norm_num

/-- … and 0 (all derivative orders) when it is below the centre and all 8 corners -/
theorem paralWeight_zero_below {dmin : K} (hd : 0 < dmin) (der : Nat) (hder : der ≤ 3) (acc : Bool) (center : K)
    (corner : Nat × Nat × Nat → K) (x : K) (hc : x < center) (hcorn : ∀ v, x < corner v) :
    paralWeight dmin der acc center corner x = 0 := by
  unfold paralWeight
  rw [foldl_sum_const _ 0 paralTets 0
    (fun t _ => weightsTetra_zero_below hd der hder acc _ _ _ _ x hc (hcorn _) (hcorn _) (hcorn _))]
  simp

end WB.C14
