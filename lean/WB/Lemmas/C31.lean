/-
  C31 helper lemmas: the finite-difference stencil `Σ_b w_b f(k+b) b` as a combination of stencil moments.
-/
import WB.Model.C31
import Mathlib.Algebra.Field.Basic
import Mathlib.Algebra.CharZero.Defs
import Mathlib.Algebra.Ring.CharZero
import Mathlib.Data.List.Perm.Basic
import Mathlib.Tactic.Ring
import Mathlib.Tactic.Linarith
import Mathlib.Tactic.LinearCombination

namespace WB.C31

variable {K : Type}

/-- the stencil point `(w, −b_red, −b_cart)` -/
def BPoint.neg [Neg K] (p : BPoint K) : BPoint K := ⟨p.w, fun a => -p.bred a, fun a => -p.bcart a⟩

section ring
variable [CommRing K]

theorem deriv3D_eq_mom (f : V3 K → K) (k : V3 K) (e : Fin 3) (G : V3 K → K) :
    ∀ (bs : List (BPoint K)), (∀ p ∈ bs, f (vadd k p.bred) = G p.bcart) →
      deriv3D f k e bs = mom (fun b => G b * b e) bs
  | [], _ => rfl
  | p :: ps, h => by
    rw [deriv3D, mom, h p (by simp), deriv3D_eq_mom f k e G ps (fun q hq => h q (by simp [hq]))]
    ring

theorem mom_add (g1 g2 : V3 K → K) : ∀ bs : List (BPoint K),
    mom (fun b => g1 b + g2 b) bs = mom g1 bs + mom g2 bs
  | [] => by simp [mom]
  | p :: ps => by rw [mom, mom, mom, mom_add g1 g2 ps]; ring

theorem mom_smul (x : K) (g : V3 K → K) : ∀ bs : List (BPoint K),
    mom (fun b => x * g b) bs = x * mom g bs
  | [] => by simp [mom]
  | p :: ps => by rw [mom, mom, mom_smul x g ps]; ring

theorem mom_congr (g1 g2 : V3 K → K) (h : ∀ b, g1 b = g2 b) (bs : List (BPoint K)) : mom g1 bs = mom g2 bs := by
  have : g1 = g2 := funext h
  rw [this]

theorem mom_perm (g : V3 K → K) {bs bs' : List (BPoint K)} (h : bs.Perm bs') : mom g bs = mom g bs' := by
  induction h with
  | nil => rfl
  | cons p _ ih => rw [mom, mom, ih]
  | swap p q l => simp only [mom]; ring
  | trans _ _ ih1 ih2 => rw [ih1, ih2]

theorem mom_map_neg (g : V3 K → K) : ∀ bs : List (BPoint K),
    mom g (bs.map BPoint.neg) = mom (fun b => g (fun a => -b a)) bs
  | [] => rfl
  | p :: ps => by
    rw [List.map_cons, mom, mom, mom_map_neg g ps]
    rfl

/-- odd functions have zero moment on a stencil closed under negation -/
theorem mom_odd_zero [IsDomain K] [CharZero K] (g : V3 K → K) (hodd : ∀ b, g (fun a => -b a) = -g b)
    (bs : List (BPoint K)) (hneg : (bs.map BPoint.neg).Perm bs) : mom g bs = 0 := by
  have h1 : mom g bs = mom g (bs.map BPoint.neg) := (mom_perm g hneg).symm
  rw [mom_map_neg] at h1
  have h2 : mom (fun b => g (fun a => -b a)) bs = -mom g bs := by
    rw [mom_congr _ (fun b => (-1) * g b) (fun b => by rw [hodd]; ring), mom_smul]; ring
  rw [h2] at h1
  have h3 : (2 : K) * mom g bs = 0 := by linear_combination h1
  rcases mul_eq_zero.1 h3 with h | h
  · exact absurd h two_ne_zero
  · exact h

theorem deriv3D_congr (f f' : V3 K → K) (h : ∀ x, f x = f' x) (k : V3 K) (e : Fin 3) (bs : List (BPoint K)) :
    deriv3D f k e bs = deriv3D f' k e bs := by
  have : f = f' := funext h
  rw [this]

/-- conjugation commutes with the stencil when weights and displacement vectors are real -/
theorem deriv3D_conj (conj : K →+* K) (f : V3 K → K) (k : V3 K) (e : Fin 3) :
    ∀ bs : List (BPoint K), (∀ p ∈ bs, conj p.w = p.w ∧ ∀ a, conj (p.bcart a) = p.bcart a) →
      conj (deriv3D f k e bs) = deriv3D (fun x => conj (f x)) k e bs
  | [], _ => by simp [deriv3D]
  | p :: ps, h => by
    rw [deriv3D, deriv3D, map_add, map_mul, map_mul, (h p (by simp)).1, (h p (by simp)).2 e,
      deriv3D_conj conj f k e ps (fun q hq => h q (by simp [hq]))]

end ring

end WB.C31
