/-
  C21 helper lemmas: hybrids `M A Mᵀ`, the Wannier representation matrix (block permutation), and the abstract
  "substitution is functorial ⇒ composition law".
-/
import WB.Model.C21
import Mathlib.Data.Matrix.Mul
import Mathlib.LinearAlgebra.Matrix.ConjTranspose
import Mathlib.Data.Fintype.BigOperators
import Mathlib.Algebra.BigOperators.Fin
import Mathlib.Algebra.Star.Basic
import Mathlib.Tactic.Ring

namespace WB.C21
open Matrix

/-! ### hybrids -/
section hybrid
variable {K : Type} [CommRing K] {h b : Type} [Fintype h] [Fintype b] [DecidableEq h] [DecidableEq b]

omit [DecidableEq b] in
theorem hybrid_mul_aux (M : Matrix h b K) (hM : M * Mᵀ = 1) (A1 A2 : Matrix b b K)
    (hc : A2 * (Mᵀ * M) = (Mᵀ * M) * A2) :
    (M * A1 * Mᵀ) * (M * A2 * Mᵀ) = M * (A1 * A2) * Mᵀ := by
  calc (M * A1 * Mᵀ) * (M * A2 * Mᵀ)
      = M * A1 * ((Mᵀ * M) * A2) * Mᵀ := by simp only [Matrix.mul_assoc]
    _ = M * A1 * (A2 * (Mᵀ * M)) * Mᵀ := by rw [hc]
    _ = M * (A1 * A2) * Mᵀ * (M * Mᵀ) := by simp only [Matrix.mul_assoc]
    _ = M * (A1 * A2) * Mᵀ := by rw [hM, Matrix.mul_one]

omit [Fintype h] in
theorem hybrid_one_aux (M : Matrix h b K) (hM : M * Mᵀ = 1) : M * (1 : Matrix b b K) * Mᵀ = 1 := by
  rw [Matrix.mul_one, hM]

theorem hybrid_orthogonal_aux (M : Matrix h b K) (hM : M * Mᵀ = 1) (A : Matrix b b K) (hA : Aᵀ * A = 1)
    (hc : A * (Mᵀ * M) = (Mᵀ * M) * A) :
    (M * A * Mᵀ)ᵀ * (M * A * Mᵀ) = 1 := by
  have ht : (M * A * Mᵀ)ᵀ = M * Aᵀ * Mᵀ := by
    simp only [Matrix.transpose_mul, Matrix.transpose_transpose, Matrix.mul_assoc]
  rw [ht, hybrid_mul_aux M hM Aᵀ A hc, hA, hybrid_one_aux M hM]

end hybrid

/-! ### sums over `range` vs `Fin` -/

theorem sumRange_eq_sum_fin {K : Type} [AddCommMonoid K] (n : Nat) (f : Nat → K) :
    sumRange n f = ∑ i : Fin n, f i := by
  induction n with
  | zero => simp [sumRange]
  | succ n ih => rw [sumRange, ih, Fin.sum_univ_castSucc]; simp

/-- the executable `hybridRot` is the Mathlib matrix product `M * A * Mᵀ` -/
theorem hybridRot_eq {K : Type} [CommRing K] (h b : Nat) (M A : Nat → Nat → K) :
    (Matrix.of fun (i j : Fin h) => hybridRot b M A i j)
      = (Matrix.of fun (i : Fin h) (k : Fin b) => M i k) * (Matrix.of fun (k l : Fin b) => A k l)
        * (Matrix.of fun (i : Fin h) (k : Fin b) => M i k)ᵀ := by
  ext i j
  simp only [Matrix.of_apply, hybridRot, sumRange_eq_sum_fin, Matrix.mul_apply, Matrix.transpose_apply]
  rw [Finset.sum_comm]
  apply Finset.sum_congr rfl
  intro l _
  rw [Finset.sum_mul]

/-! ### the Wannier representation matrix -/
section dwann
variable {K : Type} [CommRing K] [StarRing K] {ι : Type} [Fintype ι] [DecidableEq ι] {m : Type} [Fintype m] [DecidableEq m]

/-- block `(π i, i)` is `c i • U i`, all other blocks vanish -/
def Dblock (π : ι → ι) (c : ι → K) (U : ι → Matrix m m K) : Matrix (ι × m) (ι × m) K :=
  fun ja ib => if π ib.1 = ja.1 then c ib.1 * U ib.1 ja.2 ib.2 else 0

theorem Dblock_unitary_aux (π : Equiv.Perm ι) (c : ι → K) (U : ι → Matrix m m K)
    (hc : ∀ i, star (c i) * c i = 1) (hU : ∀ i, (U i)ᴴ * U i = 1) :
    (Dblock π c U)ᴴ * Dblock π c U = 1 := by
  ext ⟨i, b⟩ ⟨i', b'⟩
  rw [Matrix.mul_apply, Fintype.sum_prod_type]
  simp only [Matrix.conjTranspose_apply, Dblock]
  by_cases hii : i = i'
  · subst hii
    rw [Finset.sum_eq_single (π i)]
    · simp only [↓reduceIte]
      have := congrFun (congrFun (hU i) b) b'
      rw [Matrix.mul_apply] at this
      simp only [Matrix.conjTranspose_apply] at this
      have e : ∀ a, star (c i * U i a b) * (c i * U i a b') = (star (c i) * c i) * (star (U i a b) * U i a b') := by
        intro a; rw [star_mul']; ring
      simp only [e, hc i, one_mul, this]
      by_cases hb : b = b'
      · subst hb; simp
      · simp [hb, Prod.mk.injEq]
    · intro j _ hj
      apply Finset.sum_eq_zero
      intro a _
      rw [if_neg (Ne.symm hj), star_zero, zero_mul]
    · intro h; exact absurd (Finset.mem_univ _) h
  · have hne : (i, b) ≠ (i', b') := fun h => hii (Prod.mk.inj h).1
    rw [Matrix.one_apply, if_neg hne]
    apply Finset.sum_eq_zero
    intro j _
    apply Finset.sum_eq_zero
    intro a _
    by_cases h1 : π i = j
    · have h2 : π i' ≠ j := fun h2 => hii (π.injective (h1.trans h2.symm))
      rw [if_neg h2, mul_zero]
    · rw [if_neg h1, star_zero, zero_mul]

end dwann

/-- the executable `dwann` on flattened indices has the block form -/
theorem dwann_block {K : Type} [Mul K] [OfNat K 0] (m : Nat) (atm : Nat → Nat) (phase : Nat → K)
    (rot : Nat → Nat → Nat → K) (j i a b : Nat) (ha : a < m) (hb : b < m) :
    dwann m atm phase rot (j * m + a) (i * m + b) = if atm i = j then phase i * rot i a b else 0 := by
  have hm : 0 < m := by omega
  have e1 : (i * m + b) / m = i := by rw [Nat.add_comm, Nat.add_mul_div_right _ _ hm, Nat.div_eq_of_lt hb, Nat.zero_add]
  have e2 : (j * m + a) / m = j := by rw [Nat.add_comm, Nat.add_mul_div_right _ _ hm, Nat.div_eq_of_lt ha, Nat.zero_add]
  have e3 : (i * m + b) % m = b := by rw [Nat.add_comm, Nat.add_mul_mod_self_right, Nat.mod_eq_of_lt hb]
  have e4 : (j * m + a) % m = a := by rw [Nat.add_comm, Nat.add_mul_mod_self_right, Nat.mod_eq_of_lt ha]
  simp only [dwann, e1, e2, e3, e4]

/-! ### substitution is functorial ⇒ composition law -/

/-- T1 in abstract form.  `φ` = a family of functions on a space `X` whose coefficient vectors are unique
    (linear independence), `g₁ g₂ : X → X` two substitutions.  If `φ_i ∘ g₂ = Σ_j B_ji φ_j`, `φ_j ∘ g₁ = Σ_l A_lj φ_l`
    and `φ_i ∘ (g₂ ∘ g₁) = Σ_l C_li φ_l`, then `C = A · B`. -/
theorem subst_functorial_aux {K : Type} [CommRing K] {X : Type} {n : Type} [Fintype n] [DecidableEq n]
    (φ : n → X → K)
    (hindep : ∀ c : n → K, (∀ x, ∑ l, φ l x * c l = 0) → ∀ l, c l = 0)
    (g1 g2 : X → X) (A B C : Matrix n n K)
    (h2 : ∀ i x, φ i (g2 x) = ∑ j, φ j x * B j i)
    (h1 : ∀ j x, φ j (g1 x) = ∑ l, φ l x * A l j)
    (h12 : ∀ i x, φ i (g2 (g1 x)) = ∑ l, φ l x * C l i) :
    C = A * B := by
  ext l i
  have key : ∀ x, ∑ l, φ l x * (C l i - (A * B) l i) = 0 := by
    intro x
    have e1 : ∑ l, φ l x * C l i = φ i (g2 (g1 x)) := (h12 i x).symm
    have e2 : ∑ l, φ l x * (A * B) l i = φ i (g2 (g1 x)) := by
      rw [h2 i (g1 x)]
      simp only [h1, Matrix.mul_apply, Finset.mul_sum, Finset.sum_mul]
      rw [Finset.sum_comm]
      apply Finset.sum_congr rfl; intro j _
      apply Finset.sum_congr rfl; intro l' _
      ring
    simp only [mul_sub, Finset.sum_sub_distrib, e1, e2, sub_self]
  exact sub_eq_zero.1 (hindep (fun l => C l i - (A * B) l i) key l)

end WB.C21
