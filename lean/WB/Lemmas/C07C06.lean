/-
  C07 helper lemmas, part 5: composition with C06 (`Grid.get_K_list`): the list of retained points of the C06 model
  has pairwise different points, and together with C06's orbit cover this is the partition hypothesis of
  `irred_equals_full`.
-/
import WB.Lemmas.C07Orbit
import WB.Lemmas.C06Orbit
import Mathlib.Data.List.Nodup
import Mathlib.Data.Rat.Cast.CharZero

set_option linter.unusedSectionVars false
set_option linter.unusedSimpArgs false

namespace WB.C07
open WB.C06

/-! ### the grid state keeps its points in place -/

theorem fst_absorbAt (g : GridState) (i j : Nat) : (absorbAt g i j).map Prod.fst = g.map Prod.fst := by
  unfold absorbAt
  split
  · rename_i p f q fo hi hj
    have hi' : i < g.length := (List.getElem?_eq_some_iff.mp hi).1
    have hj' : j < g.length := (List.getElem?_eq_some_iff.mp hj).1
    apply List.ext_getElem?
    intro n
    simp only [List.getElem?_map, List.getElem?_set]
    have ej := (List.getElem?_eq_some_iff.mp hj).2
    have ei := (List.getElem?_eq_some_iff.mp hi).2
    by_cases h1 : j = n
    · subst h1
      simp [hj', hj, ej]
    · by_cases h2 : i = n
      · subst h2
        simp [h1, hi', hi, ei]
      · simp [h1, h2]
  · rfl

theorem fst_gridStep (syms : List Sym) (div : Idx) (g : GridState) (p : Idx) :
    (gridStep syms div g p).map Prod.fst = g.map Prod.fst := by
  unfold gridStep
  split
  · rfl
  · rename_i hslot
    clear hslot
    generalize starIdx syms div p = ks
    induction ks generalizing g with
    | nil => rfl
    | cons k t ih =>
      rw [List.foldl_cons, ih]
      split
      · exact fst_absorbAt g _ _
      · rfl

theorem fst_finalGrid (syms : List Sym) (div : Idx) (useSym : Bool) :
    (finalGrid syms div useSym).map Prod.fst = flatOrder div := by
  have h0 : (initGrid div).map Prod.fst = flatOrder div := by
    unfold initGrid; rw [List.map_map]
    exact (List.map_congr_left (fun _ _ => rfl)).trans (List.map_id _)
  unfold finalGrid
  split
  · generalize loopOrder div = ps
    have : ∀ (g : GridState), (ps.foldl (gridStep syms div) g).map Prod.fst = g.map Prod.fst := by
      induction ps with
      | nil => intro g; rfl
      | cons p t ih => intro g; rw [List.foldl_cons, ih, fst_gridStep]
    rw [this, h0]
  · exact h0

theorem fst_filterMap_sublist {α β γ : Type} (f : α → Option β) (a : α → γ) (b : β → γ)
    (h : ∀ x y, f x = some y → b y = a x) : ∀ (l : List α), ((l.filterMap f).map b).Sublist (l.map a)
  | [] => by simp
  | x :: t => by
    rw [List.filterMap_cons]
    cases hx : f x with
    | none => simpa using (fst_filterMap_sublist f a b h t).cons _
    | some y =>
      simp only [List.map_cons]
      rw [h x y hx]
      exact (fst_filterMap_sublist f a b h t).cons_cons _

/-- the retained points of `get_K_list` are pairwise different -/
theorem kept_fst_nodup (syms : List Sym) (div : Idx) (useSym : Bool) :
    ((kept syms div useSym).map Prod.fst).Nodup := by
  unfold kept
  have hs := fst_filterMap_sublist (fun e : Idx × Option Rat => e.2.map fun f => (e.1, f)) Prod.fst Prod.fst
    (by
      intro x y hxy
      cases h2 : x.2 with
      | none => simp [h2] at hxy
      | some f => simp [h2] at hxy; rw [← hxy])
    (finalGrid syms div useSym)
  rw [fst_finalGrid] at hs
  exact hs.nodup (flatOrder_nodup div)

section Compose
variable {G V K : Type} [Field K] [CharZero K] [AddCommGroup V] [Module K V]
variable {mul : G → G → G} {L : List G} {act : G → Idx → Idx}

/-- C06's orbit cover + "C06's star of a grid index is the orbit under the action" give the partition hypothesis -/
theorem partition_of_C06 (syms : List Sym) (div : Idx) (hS : OrbitHyp div (starIdx syms div))
    (hstar : ∀ r, inRange div r → (starIdx syms div r).Perm (orbit L act r)) :
    (((kept syms div true).map Prod.fst).flatMap (orbit L act)).Perm (flatOrder div) := by
  obtain ⟨h1, h2⟩ := kept_orbit_cover syms div hS
  have hin : ∀ r ∈ (kept syms div true).map Prod.fst, inRange div r := by
    intro r hr
    obtain ⟨⟨r', f⟩, hm, rfl⟩ := List.mem_map.1 hr
    exact (h1 r' f hm).1
  have hmemk : ∀ r ∈ (kept syms div true).map Prod.fst, ∃ f, (r, f) ∈ kept syms div true := by
    intro r hr
    obtain ⟨⟨r', f⟩, hm, rfl⟩ := List.mem_map.1 hr
    exact ⟨f, hm⟩
  refine (List.perm_ext_iff_of_nodup ?_ (flatOrder_nodup div)).2 ?_
  · rw [List.nodup_flatMap]
    refine ⟨fun r _ => List.nodup_dedup _, ?_⟩
    apply (kept_fst_nodup syms div true).pairwise_of_forall_ne
    intro a ha b hb hab
    show List.Disjoint (orbit L act a) (orbit L act b)
    intro q hqa hqb
    have ia := hin a ha
    have ib := hin b hb
    have qa : q ∈ starIdx syms div a := (hstar a ia).mem_iff.2 hqa
    have qb : q ∈ starIdx syms div b := (hstar b ib).mem_iff.2 hqb
    have hq : inRange div q := hS.range a ia q qa
    obtain ⟨r, f, _, _, huniq⟩ := h2 q hq
    obtain ⟨fa, hfa⟩ := hmemk a ha
    obtain ⟨fb, hfb⟩ := hmemk b hb
    exact hab ((huniq a fa hfa qa).trans (huniq b fb hfb qb).symm)
  · intro q
    rw [List.mem_flatMap, mem_flatOrder]
    constructor
    · rintro ⟨r, hr, hq⟩
      have := hS.range r (hin r hr) q ((hstar r (hin r hr)).mem_iff.2 hq)
      exact this
    · intro hq
      obtain ⟨r, f, hm, hqr, _⟩ := h2 q hq
      exact ⟨r, List.mem_map.2 ⟨(r, f), hm, rfl⟩, (hstar r (h1 r f hm).1).mem_iff.1 hqr⟩

/-- C07 ∘ C06: the weighted, symmetrised sum over the K-list that the C06 model of `get_K_list` returns (its own
    points and its own factors) is the plain average over the division grid. -/
theorem irred_equals_full_C06_aux (syms : List Sym) (div : Idx) (hS : OrbitHyp div (starIdx syms div))
    (hA : ListAction mul L act) (hL : L ≠ [])
    (hstar : ∀ r, inRange div r → (starIdx syms div r).Perm (orbit L act r))
    (T : G → V → V) (F : Idx → V) (hequiv : ∀ g ∈ L, ∀ k, F (act g k) = T g (F k)) :
    ((kept syms div true).map fun rf => ((rf.2 : Rat) : K) • ((L.length : K)⁻¹ • (L.map fun g => T g (F rf.1)).sum)).sum
      = (((div.1 * div.2.1 * div.2.2 : Nat) : K))⁻¹ • ((flatOrder div).map F).sum := by
  obtain ⟨h1, _⟩ := kept_orbit_cover syms div hS
  have hpart := partition_of_C06 (L := L) (act := act) syms div hS hstar
  have key := irred_equals_full_aux (K := K) hA hL T F hequiv (flatOrder div)
    ((kept syms div true).map Prod.fst) hpart
  rw [length_flatOrder] at key
  rw [← key, List.map_map]
  congr 1
  apply List.map_congr_left
  intro rf hrf
  obtain ⟨hin, hf⟩ := h1 rf.1 rf.2 hrf
  simp only [Function.comp]
  rw [hf, ((hstar rf.1 hin).length_eq)]
  push_cast
  rfl

end Compose

end WB.C07
