/-
  C11: invariants of a run with its disk, and the restart-equivalence argument.
-/
import WB.Lemmas.C11

set_option linter.unusedSectionVars false
set_option linter.unnecessarySeqFocus false

namespace WB.C11
open WB.C10

variable {K : Type} [Field K] [DecidableEq K]

theorem keepNew_ok : ∀ d : K, keepNew d = false → d = 0 := by
  intro d hd; simpa [keepNew] using hd

/-- what holds after every completed iteration of a run that writes restart files -/
structure J (mode : Mode) (R : Run K) : Prop where
  synced : Synced R.st
  mode : R.st.mode = mode
  log : LogRel R.disk.klog R.st.pts
  nk : R.nkPrev = R.st.pts.length
  facs : FacsOK R.disk.facs R.iter R.st.factors

theorem J_freshStart (mode : Mode) (hm : mode ≠ Mode.clear) (init : List (K × K)) :
    J mode (freshStart mode init) := by
  have hs := synced_first (keepNew (K := K)) mode hm init
  refine ⟨hs, ?_, ?_, rfl, ?_⟩
  · show (iterate keepNew (start mode init)).mode = mode
    rw [iterate_mode]; rfl
  · show LogRel ((iterate keepNew (start mode init)).pts.drop 0) _
    rw [List.drop_zero]; exact logRel_refl _
  · have hfac : (iterate keepNew (start mode init)).factors = (start mode init).factors := by
      unfold iterate
      rw [(start_facts mode init).1]
    show FacsOK [(0, (start mode init).factors)] 0 (iterate keepNew (start mode init)).factors
    rw [hfac]
    refine ⟨by simp, ?_, by simp [readFile]⟩
    intro e he
    simp only [List.mem_singleton] at he
    rw [he]

theorem J_nextIter (mode : Mode) (hm : mode ≠ Mode.clear) (policy : Policy K) (R : Run K) (h : J mode R) :
    J mode (nextIter policy R) := by
  have hmid := midInv_foldl (policy R.st.pts) R.st (midInv_of_synced h.synced)
  have hmode : ((policy R.st.pts).foldl refStep R.st).mode = mode := by rw [foldl_refStep_mode, h.mode]
  have hsync := synced_iterate keepNew keepNew_ok _ (by rw [hmode]; exact hm) hmid
  have hpre := logPrefix_foldl R.disk.klog (policy R.st.pts) R.st
    (logPrefix_of_logRel _ _ h.log (fun p hp => (h.synced.stored p hp).1))
  refine ⟨hsync, ?_, ?_, rfl, ?_⟩
  · show (iterate keepNew _).mode = mode
    rw [iterate_mode, hmode]
  · show LogRel (R.disk.klog ++ (iterate keepNew _).pts.drop R.nkPrev) (iterate keepNew _).pts
    rw [iterate_pts, h.nk, ← logRel_length _ _ h.log]
    exact logRel_after_process _ _ _ hpre
  · exact facsOK_write h.facs _

theorem J_steps (mode : Mode) (hm : mode ≠ Mode.clear) (policy : Policy K) :
    ∀ (n : Nat) (R : Run K), J mode R → J mode (steps policy n R)
  | 0, _, h => h
  | n + 1, R, h => J_steps mode hm policy n _ (J_nextIter mode hm policy R h)

theorem steps_add (policy : Policy K) : ∀ (n m : Nat) (R : Run K),
    steps policy (n + m) R = steps policy m (steps policy n R)
  | 0, m, R => by simp [steps]
  | n + 1, m, R => by
    rw [show n + 1 + m = (n + m) + 1 by omega]
    simp only [steps]
    exact steps_add policy n m _

/-- two runs that agree on everything a continuation can see (the factors files possibly listed in another order) -/
structure REq (A B : Run K) : Prop where
  st : A.st = B.st
  klog : A.disk.klog = B.disk.klog
  facs : A.disk.facs.Perm B.disk.facs
  iter : A.iter = B.iter
  nk : A.nkPrev = B.nkPrev

theorem REq_nextIter (policy : Policy K) {A B : Run K} (h : REq A B) :
    REq (nextIter policy A) (nextIter policy B) ∧
      ∃ x, (nextIter policy A).saved = A.saved ++ [x] ∧ (nextIter policy B).saved = B.saved ++ [x] := by
  unfold nextIter
  refine ⟨⟨?_, ?_, ?_, ?_, ?_⟩, ?_⟩
  · simp only [h.st]
  · simp only [h.st, h.klog, h.nk]
  · simp only [h.st, h.iter]; exact writeFile_perm h.facs _ _
  · simp only [h.iter]
  · simp only [h.st]
  · exact ⟨_, rfl, by simp only [h.st, h.iter]⟩

theorem REq_steps (policy : Policy K) : ∀ (n : Nat) {A B : Run K}, REq A B →
    REq (steps policy n A) (steps policy n B) ∧
      ∃ T, (steps policy n A).saved = A.saved ++ T ∧ (steps policy n B).saved = B.saved ++ T
  | 0, _, _, h => ⟨h, [], by simp [steps], by simp [steps]⟩
  | n + 1, A, B, h => by
    obtain ⟨h1, x, hA, hB⟩ := REq_nextIter policy h
    obtain ⟨h2, T, hA2, hB2⟩ := REq_steps policy n h1
    refine ⟨h2, x :: T, ?_, ?_⟩
    · simp only [steps]; rw [hA2, hA, List.append_assoc]; rfl
    · simp only [steps]; rw [hB2, hB, List.append_assoc]; rfl

/-- restart from the files of a run `R` (listed in any order) re-creates `R` -/
theorem restart_recreates (mode : Mode) (R : Run K) (h : J mode R) (d : Disk K)
    (hk : d.klog = R.disk.klog) (hf : d.facs.Perm R.disk.facs) :
    ∃ R', restartStart true mode d (-1) = some R' ∧ REq R' R ∧ R'.saved = [] := by
  have ok' : FacsOK d.facs R.iter R.st.factors := facsOK_perm hf.symm h.facs
  have hmem : R.iter ∈ listing d := List.mem_map.2 ⟨(R.iter, R.st.factors), mem_of_readFile ok'.cur, rfl⟩
  have hmax : ∀ x ∈ listing d, x ≤ R.iter := by
    intro x hx
    obtain ⟨e, he, rfl⟩ := List.mem_map.1 hx
    exact ok'.le e he
  have hchoose := chooseIter_latest hmem hmax
  have hpts : setFactors d.klog R.st.factors = R.st.pts := by
    rw [hk, h.synced.factors]
    exact setFactors_of_logRel _ _ h.log
  have hsum : sumAll R.st.pts = some (wsum R.st.pts) := sumAll_of_stored _ h.synced.stored
  have hs0 : (State.mk R.st.pts (R.st.pts.map (·.f)) (some (wsum R.st.pts)) mode false : State K) = R.st := by
    have h1 := h.synced.factors
    have h2 := h.synced.sum
    have h3 := h.synced.ok
    have h4 := h.mode
    obtain ⟨st, disk, iter, nk, saved⟩ := R
    obtain ⟨pts, factors, resultAll, md, err⟩ := st
    simp only at h1 h2 h3 h4
    simp [h1, h2, h3, h4]
  unfold restartStart readFactors
  rw [hchoose]
  simp only [ok'.cur, Option.map_some, hpts, hsum, hs0]
  rw [iterate_synced_id R.st h.synced]
  refine ⟨_, rfl, ⟨rfl, ?_, ?_, rfl, ?_⟩, rfl⟩
  · show d.klog ++ R.st.pts.drop R.st.pts.length = R.disk.klog
    rw [List.drop_length, List.append_nil, hk]
  · show (writeFile d.facs R.iter R.st.factors).Perm R.disk.facs
    rw [writeFile_same ok'.nodup (mem_of_readFile ok'.cur)]
    exact hf
  · show R.st.pts.length = R.nkPrev
    exact h.nk.symm

theorem stepsH_fst {H : Type} (policyH : H → Policy K) (stepH : H → State K → H)
    (hind : ∀ h h', policyH h = policyH h') (h0 : H) :
    ∀ (n : Nat) (rh : Run K × H), (stepsH policyH stepH n rh).1 = steps (policyH h0) n rh.1
  | 0, _ => rfl
  | n + 1, rh => by
    simp only [stepsH, steps]
    rw [stepsH_fst policyH stepH hind h0 n]
    simp only [nextIterH, hind rh.2 h0]

/-! ### selection rule: argsort on tie-free data -/

theorem map_eq_of_injOn {α β : Type} (f : α → β) : ∀ (p q : List α), p.map f = q.map f →
    (∀ a ∈ p, ∀ b ∈ q, f a = f b → a = b) → p = q
  | [], [], _, _ => rfl
  | [], _ :: _, h, _ => by simp at h
  | _ :: _, [], h, _ => by simp at h
  | a :: p, b :: q, h, hinj => by
    simp only [List.map_cons, List.cons.injEq] at h
    have hab : a = b := hinj a (List.mem_cons_self ..) b (List.mem_cons_self ..) h.1
    rw [hab, map_eq_of_injOn f p q h.2 (fun x hx y hy => hinj x (List.mem_cons_of_mem _ hx) y (List.mem_cons_of_mem _ hy))]

/-- on tie-free scores there is exactly one argsort -/
theorem argsort_unique_of_nodup {v : List Rat} (hv : v.Nodup) {p q : List Nat}
    (hp : IsArgsort v p) (hq : IsArgsort v q) : p = q := by
  have hperm : (p.map (fun i => v.getD i 0)).Perm (q.map (fun i => v.getD i 0)) :=
    (hp.1.trans hq.1.symm).map _
  have hmap : p.map (fun i => v.getD i 0) = q.map (fun i => v.getD i 0) :=
    List.Perm.eq_of_pairwise (le := fun a b : Rat => a ≤ b) (fun a b _ _ h1 h2 => le_antisymm h1 h2) hp.2 hq.2 hperm
  apply map_eq_of_injOn _ p q hmap
  intro a ha b hb hab
  have ha' : a < v.length := List.mem_range.1 (hp.1.mem_iff.1 ha)
  have hb' : b < v.length := List.mem_range.1 (hq.1.mem_iff.1 hb)
  simp only [List.getD_eq_getElem?_getD, List.getElem?_eq_getElem ha', List.getElem?_eq_getElem hb',
    Option.getD_some] at hab
  exact (List.Nodup.getElem_inj_iff hv).1 hab

/-! ### selection on an array padded with zero scores (stale points of a restart from an earlier iteration) -/

/-- in a list sorted by a non-negative score, the positions with score 0 come first -/
theorem sorted_split (f : Nat → Rat) (hf : ∀ i, 0 ≤ f i) : ∀ (l : List Nat), (l.map f).Pairwise (fun a b => a ≤ b) →
    l = l.filter (fun i => !decide (0 < f i)) ++ l.filter (fun i => decide (0 < f i))
  | [], _ => rfl
  | a :: l, h => by
    rw [List.map_cons, List.pairwise_cons] at h
    have ih := sorted_split f hf l h.2
    by_cases ha : 0 < f a
    · -- everything behind `a` is positive too
      have hall : ∀ i ∈ l, 0 < f i := fun i hi => lt_of_lt_of_le ha (h.1 (f i) (List.mem_map.2 ⟨i, hi, rfl⟩))
      have h1 : l.filter (fun i => !decide (0 < f i)) = [] := by
        rw [List.filter_eq_nil_iff]; intro i hi; simp [hall i hi]
      have h2 : l.filter (fun i => decide (0 < f i)) = l := by
        rw [List.filter_eq_self]; intro i hi; simp [hall i hi]
      simp [ha, h1, h2]
    · have : (a :: l).filter (fun i => !decide (0 < f i)) = a :: l.filter (fun i => !decide (0 < f i)) := by
        simp [ha]
      have h2 : (a :: l).filter (fun i => decide (0 < f i)) = l.filter (fun i => decide (0 < f i)) := by
        simp [ha]
      rw [this, h2, List.cons_append, ← ih]

theorem lastK_append (k : Nat) (A B : List Nat) (hk : k ≤ B.length) : lastK k (A ++ B) = lastK k B := by
  unfold lastK
  rw [List.drop_append, List.length_append]
  have h1 : A.drop (A.length + B.length - k) = [] := List.drop_eq_nil_of_le (by omega)
  rw [h1, List.nil_append]
  congr 1; omega

/-- the positive part of an argsort is determined by the positive scores when these are pairwise different -/
theorem positive_part_unique (n : Nat) (f g : Nat → Rat) (hfg : ∀ i, i < n → g i = f i)
    (hg0 : ∀ i, n ≤ i → ¬ 0 < g i)
    (hdist : ∀ i j, i < n → j < n → 0 < f i → f i = f j → i = j)
    (p q : List Nat) (N : Nat) (hN : n ≤ N)
    (hp : p.Perm (List.range n)) (hps : (p.map f).Pairwise (fun a b => a ≤ b))
    (hq : q.Perm (List.range N)) (hqs : (q.map g).Pairwise (fun a b => a ≤ b)) :
    p.filter (fun i => decide (0 < f i)) = q.filter (fun i => decide (0 < g i)) := by
  -- both sides are permutations of the positive positions below n
  have hq_lt : ∀ i ∈ q.filter (fun i => decide (0 < g i)), i < n := by
    intro i hi
    rw [List.mem_filter] at hi
    by_contra hlt
    exact hg0 i (by omega) (by simpa using hi.2)
  have hmem : ∀ i, i ∈ p.filter (fun i => decide (0 < f i)) ↔ i ∈ q.filter (fun i => decide (0 < g i)) := by
    intro i
    constructor
    · intro hi
      rw [List.mem_filter] at hi ⊢
      have hin : i < n := List.mem_range.1 (hp.mem_iff.1 hi.1)
      exact ⟨hq.mem_iff.2 (List.mem_range.2 (by omega)), by rw [hfg i hin]; exact hi.2⟩
    · intro hi
      have hin := hq_lt i hi
      rw [List.mem_filter] at hi ⊢
      exact ⟨hp.mem_iff.2 (List.mem_range.2 hin), by rw [← hfg i hin]; exact hi.2⟩
  have hpn : (p.filter (fun i => decide (0 < f i))).Nodup := (hp.nodup_iff.2 List.nodup_range).filter _
  have hqn : (q.filter (fun i => decide (0 < g i))).Nodup := (hq.nodup_iff.2 List.nodup_range).filter _
  have hperm : (p.filter (fun i => decide (0 < f i))).Perm (q.filter (fun i => decide (0 < g i))) :=
    (List.perm_ext_iff_of_nodup hpn hqn).2 hmem
  -- their scores are sorted
  have hps' : ((p.filter (fun i => decide (0 < f i))).map f).Pairwise (fun a b => a ≤ b) :=
    hps.sublist ((List.filter_sublist).map f)
  have hqs' : ((q.filter (fun i => decide (0 < g i))).map g).Pairwise (fun a b => a ≤ b) :=
    hqs.sublist ((List.filter_sublist).map g)
  have hqg : (q.filter (fun i => decide (0 < g i))).map g = (q.filter (fun i => decide (0 < g i))).map f :=
    List.map_congr_left (fun i hi => hfg i (hq_lt i hi))
  rw [hqg] at hqs'
  have hmap : (p.filter (fun i => decide (0 < f i))).map f = (q.filter (fun i => decide (0 < g i))).map f :=
    List.Perm.eq_of_pairwise (le := fun a b : Rat => a ≤ b) (fun a b _ _ h1 h2 => le_antisymm h1 h2) hps' hqs'
      (hperm.map f)
  apply map_eq_of_injOn f _ _ hmap
  intro a ha b hb hab
  have ha' := List.mem_filter.1 ha
  have han : a < n := List.mem_range.1 (hp.mem_iff.1 ha'.1)
  exact hdist a b han (hq_lt b hb) (by simpa using ha'.2) hab

end WB.C11
