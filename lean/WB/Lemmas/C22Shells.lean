/-
  Helper lemmas for C22: shells (`k_to_shells`), the search box, the weights/guard of `get_shell_weights`
  and the shell loop of `find_bk_vectors`.
-/
import WB.Model.C22
import Mathlib.Data.List.Basic
import Mathlib.Algebra.BigOperators.Group.List.Basic
import Mathlib.Algebra.BigOperators.Ring.List
import Mathlib.Algebra.Order.BigOperators.Group.List
import Mathlib.Algebra.Order.Field.Rat
import Mathlib.Tactic.Linarith
import Mathlib.Tactic.Ring

namespace WB.C22

/-! ### sorted insertion without repetition -/

theorem mem_insertUniq (x y : Rat) : ∀ l : List Rat, y ∈ insertUniq x l ↔ y = x ∨ y ∈ l
  | [] => by simp [insertUniq]
  | z :: l => by
    unfold insertUniq
    split
    · simp
    · split
      · rename_i h
        subst h
        simp
      · rw [List.mem_cons, mem_insertUniq x y l, List.mem_cons]
        tauto

theorem insertUniq_sorted (x : Rat) : ∀ l : List Rat, l.Pairwise (· < ·) → (insertUniq x l).Pairwise (· < ·)
  | [], _ => by simp [insertUniq]
  | z :: l, h => by
    unfold insertUniq
    split
    · rename_i hxz
      rw [List.pairwise_cons]
      refine ⟨?_, h⟩
      intro a ha
      rcases List.mem_cons.mp ha with rfl | ha
      · exact hxz
      · exact lt_trans hxz ((List.pairwise_cons.mp h).1 a ha)
    · split
      · exact h
      · rename_i h1 h2
        have hzx : z < x := lt_of_le_of_ne (not_lt.mp h1) (Ne.symm h2)
        rw [List.pairwise_cons]
        refine ⟨?_, insertUniq_sorted x l (List.pairwise_cons.mp h).2⟩
        intro a ha
        rcases (mem_insertUniq x a l).1 ha with rfl | ha
        · exact hzx
        · exact (List.pairwise_cons.mp h).1 a ha

theorem mem_foldr_insertUniq (y : Rat) : ∀ l : List Rat, y ∈ l.foldr insertUniq [] ↔ y ∈ l
  | [] => by simp
  | x :: l => by rw [List.foldr_cons, mem_insertUniq, mem_foldr_insertUniq y l, List.mem_cons]

theorem foldr_insertUniq_sorted : ∀ l : List Rat, (l.foldr insertUniq []).Pairwise (· < ·)
  | [] => by simp
  | x :: l => by rw [List.foldr_cons]; exact insertUniq_sorted x _ (foldr_insertUniq_sorted l)

/-! ### shells -/

theorem mem_shellKeys (l : List BV) (L : Rat) : L ∈ shellKeys l ↔ L ≠ 0 ∧ ∃ p ∈ l, norm2 p.2 = L := by
  unfold shellKeys
  rw [mem_foldr_insertUniq, List.mem_filter, List.mem_map]
  simp only [decide_eq_true_eq]
  constructor
  · rintro ⟨⟨p, hp, rfl⟩, h0⟩; exact ⟨h0, p, hp, rfl⟩
  · rintro ⟨h0, p, hp, rfl⟩; exact ⟨⟨p, hp, rfl⟩, h0⟩

theorem shellKeys_sorted (l : List BV) : (shellKeys l).Pairwise (· < ·) := foldr_insertUniq_sorted _

/-- the shell of squared length `L` -/
def shellOf (l : List BV) (L : Rat) : Shell := l.filter (fun p => norm2 p.2 == L)

theorem kToShells_eq (l : List BV) : kToShells l = (shellKeys l).map (shellOf l) := rfl

theorem mem_shellOf (l : List BV) (L : Rat) (p : BV) : p ∈ shellOf l L ↔ p ∈ l ∧ norm2 p.2 = L := by
  unfold shellOf
  rw [List.mem_filter]
  simp

theorem mem_kToShells (l : List BV) (S : Shell) : S ∈ kToShells l ↔ ∃ L ∈ shellKeys l, S = shellOf l L := by
  rw [kToShells_eq, List.mem_map]
  constructor <;> rintro ⟨L, hL, h⟩ <;> exact ⟨L, hL, h.symm⟩

/-! ### the symmetric search box -/

theorem mem_symRange (m : Nat) (x : Int) : x ∈ symRange m ↔ -(m : Int) ≤ x ∧ x ≤ (m : Int) := by
  unfold symRange
  rw [List.mem_map]
  constructor
  · rintro ⟨t, ht, rfl⟩
    rw [List.mem_range] at ht
    omega
  · rintro ⟨h1, h2⟩
    refine ⟨(x + m).toNat, ?_, ?_⟩
    · rw [List.mem_range]; omega
    · omega

theorem mem_boxList (N : G3) (s : Nat) (n : I3) : n ∈ boxList N s ↔
    (-((s * N.1 : Nat) : Int) ≤ n.1 ∧ n.1 ≤ ((s * N.1 : Nat) : Int)) ∧
    (-((s * N.2.1 : Nat) : Int) ≤ n.2.1 ∧ n.2.1 ≤ ((s * N.2.1 : Nat) : Int)) ∧
    (-((s * N.2.2 : Nat) : Int) ≤ n.2.2 ∧ n.2.2 ≤ ((s * N.2.2 : Nat) : Int)) := by
  unfold boxList
  simp only [List.mem_flatMap, List.mem_map, mem_symRange]
  constructor
  · rintro ⟨i, hi, j, hj, k, hk, rfl⟩
    exact ⟨hi, hj, hk⟩
  · rintro ⟨hi, hj, hk⟩
    exact ⟨n.1, hi, n.2.1, hj, n.2.2, hk, rfl⟩

theorem neg_mem_boxList (N : G3) (s : Nat) (n : I3) (h : n ∈ boxList N s) : neg3 n ∈ boxList N s := by
  rw [mem_boxList] at h ⊢
  unfold neg3
  simp only
  omega

def negQ (v : Q3) : Q3 := (-v.1, -v.2.1, -v.2.2)

theorem cart_neg3 (B : Basis) (n : I3) : cart B (neg3 n) = negQ (cart B n) := by
  unfold cart neg3 negQ
  simp only [Int.cast_neg]
  refine Prod.ext ?_ (Prod.ext ?_ ?_) <;> simp only <;> ring

theorem norm2_negQ (v : Q3) : norm2 (negQ v) = norm2 v := by
  unfold norm2 negQ
  simp only
  ring

theorem mem_boxBV (B : Basis) (N : G3) (s : Nat) (p : BV) :
    p ∈ boxBV B N s ↔ p.1 ∈ boxList N s ∧ p.2 = cart B p.1 := by
  unfold boxBV
  rw [List.mem_map]
  constructor
  · rintro ⟨n, hn, rfl⟩; exact ⟨hn, rfl⟩
  · rintro ⟨h1, h2⟩; exact ⟨p.1, h1, Prod.ext rfl h2.symm⟩

/-! ### weights: flat list, checked array, guard -/

theorem wbb_append (a b : List WB3) (i j : Fin 3) : wbb (a ++ b) i j = wbb a i j + wbb b i j := by
  unfold wbb
  rw [List.map_append, List.sum_append]

theorem wbb_shell (w : Rat) (S : Shell) (i j : Fin 3) :
    wbb (S.map (fun b => (w, b.1, b.2))) i j = w * shellMat S i j := by
  unfold wbb shellMat
  induction S with
  | nil => simp
  | cons b S ih =>
    simp only [List.map_cons, List.sum_cons] at ih ⊢
    rw [ih]
    ring

theorem wbb_expand_aux (zs : List (Rat × Shell)) (i j : Fin 3) :
    wbb (zs.flatMap (fun p => p.2.map (fun b => (p.1, b.1, b.2)))) i j =
      (zs.map (fun p => p.1 * shellMat p.2 i j)).sum := by
  induction zs with
  | nil => simp [wbb]
  | cons z zs ih =>
    rw [List.flatMap_cons, wbb_append, ih, wbb_shell, List.map_cons, List.sum_cons]

/-- Σ_b w_b b_i b_j of the returned flat list is exactly the array the code checked -/
theorem wbb_expand (ws : List Rat) (shells : List Shell) (i j : Fin 3) :
    wbb (expand ws shells) i j = checkEye ws shells i j := wbb_expand_aux _ i j

theorem mem_fin3 (i : Fin 3) : i ∈ fin3 := by
  unfold fin3
  revert i
  decide

theorem entry_sq_le_frob2 (A : Fin 3 → Fin 3 → Rat) (i j : Fin 3) :
    (A i j - delta i j) * (A i j - delta i j) ≤ frob2 A := by
  unfold frob2
  have h1 : (A i j - delta i j) * (A i j - delta i j) ≤
      (fin3.map (fun j => (A i j - delta i j) * (A i j - delta i j))).sum := by
    apply List.single_le_sum
    · intro x hx
      obtain ⟨b, _, rfl⟩ := List.mem_map.mp hx
      exact mul_self_nonneg _
    · exact List.mem_map.mpr ⟨j, mem_fin3 j, rfl⟩
  refine le_trans h1 ?_
  apply List.single_le_sum
  · intro x hx
    obtain ⟨a, _, rfl⟩ := List.mem_map.mp hx
    apply List.sum_nonneg
    intro y hy
    obtain ⟨b, _, rfl⟩ := List.mem_map.mp hy
    exact mul_self_nonneg _
  · exact List.mem_map.mpr ⟨i, mem_fin3 i, rfl⟩

theorem mem_expand (ws : List Rat) (shells : List Shell) (x : WB3) :
    x ∈ expand ws shells ↔ ∃ p ∈ ws.zip shells, x.1 = p.1 ∧ (x.2.1, x.2.2) ∈ p.2 := by
  unfold expand
  rw [List.mem_flatMap]
  constructor
  · rintro ⟨p, hp, hx⟩
    obtain ⟨b, hb, rfl⟩ := List.mem_map.mp hx
    exact ⟨p, hp, rfl, hb⟩
  · rintro ⟨p, hp, h1, h2⟩
    refine ⟨p, hp, List.mem_map.mpr ⟨(x.2.1, x.2.2), h2, ?_⟩⟩
    rw [← h1]

/-! ### the shell loop -/

/-- what a successful return of the loop certifies, for arbitrary kernels -/
theorem findLoop_spec (par : List Shell → Shell → Bool) (kernel : List Shell → Solve) (tol : Rat) :
    ∀ (shells acc : List Shell) (r : List WB3), findLoop par kernel tol shells acc = some r →
      ∃ (t : List Shell) (ws : List Rat), t.Sublist shells ∧ t ≠ [] ∧
        kernel (acc ++ t) = .weights ws ∧ shellWeights ws (acc ++ t) tol = some r
  | [], acc, r, h => by simp [findLoop] at h
  | s :: rest, acc, r, h => by
    unfold findLoop at h
    split at h
    · obtain ⟨t, ws, h1, h2, h3, h4⟩ := findLoop_spec par kernel tol rest acc r h
      exact ⟨t, ws, h1.cons _, h2, h3, h4⟩
    · split at h
      · obtain ⟨t, ws, h1, h2, h3, h4⟩ := findLoop_spec par kernel tol rest acc r h
        exact ⟨t, ws, h1.cons _, h2, h3, h4⟩
      · rename_i ws hk
        split at h
        · rename_i r' hsw
          cases h
          exact ⟨[s], ws, by simp, by simp, hk, hsw⟩
        · obtain ⟨t, ws', h1, h2, h3, h4⟩ := findLoop_spec par kernel tol rest (acc ++ [s]) r h
          refine ⟨s :: t, ws', h1.cons_cons _, by simp, ?_, ?_⟩
          · rw [List.append_assoc] at h3; exact h3
          · rw [List.append_assoc] at h4; exact h4

/-! ### more on the flat list -/

def dot (a b : Q3) : Rat := a.1 * b.1 + a.2.1 * b.2.1 + a.2.2 * b.2.2

theorem gradient_aux (q : Q3) (i : Fin 3) : ∀ r : List WB3,
    (r.map (fun p => p.1 * el p.2.2 i * dot q p.2.2)).sum =
      q.1 * wbb r i 0 + q.2.1 * wbb r i 1 + q.2.2 * wbb r i 2
  | [] => by simp [wbb]
  | p :: r => by
    have ih := gradient_aux q i r
    unfold wbb at ih ⊢
    simp only [List.map_cons, List.sum_cons]
    rw [ih]
    simp only [dot, el]
    ring

theorem delta_contract (q : Q3) (i : Fin 3) :
    q.1 * delta i 0 + q.2.1 * delta i 1 + q.2.2 * delta i 2 = el q i := by
  match i with
  | 0 => simp [delta, el]
  | 1 => simp [delta, el]
  | 2 => simp [delta, el]

theorem expand_vectors : ∀ (ws : List Rat) (shells : List Shell), ws.length = shells.length →
    (expand ws shells).map (fun x => (x.2.1, x.2.2)) = shells.flatten
  | [], [], _ => by simp [expand]
  | [], _ :: _, h => by simp at h
  | _ :: _, [], h => by simp at h
  | w :: ws, S :: shells, h => by
    have ih := expand_vectors ws shells (by simpa using h)
    unfold expand at ih ⊢
    rw [List.zip_cons_cons, List.flatMap_cons, List.map_append, ih, List.flatten_cons]
    congr 1
    rw [List.map_map]
    conv_rhs => rw [← List.map_id S]
    apply List.map_congr_left
    intro b _
    rfl

end WB.C22
