/-
  C21 helper lemmas: the d-shell rotation matrix.
-/
import WB.Lemmas.C21
import Mathlib.Tactic.NormNum
namespace WB.C21
variable {K : Type} [Field K] [CharZero K]

theorem r3_ne {r3 : K} (hr : r3 * r3 = 3) : r3 ≠ 0 := by
  intro h; rw [h, zero_mul] at hr
  have h3 : (3 : K) ≠ 0 := by exact_mod_cast (show (3 : ℕ) ≠ 0 by decide)
  exact h3 hr.symm

theorem inv_r3 {r3 : K} (hr : r3 * r3 = 3) : 3 * r3⁻¹ * r3⁻¹ = 1 := by
  have := r3_ne hr
  field_simp
  linear_combination -hr

theorem rotD_expand {r3 : K} (hr : r3 * r3 = 3) (S : M3 K) (hS : Orth3 S) (i : Fin 5) (v : V3 K) :
    dFun r3 i (mulVec3 S v)
      = dFun r3 0 v * rotD r3 S 0 i + dFun r3 1 v * rotD r3 S 1 i + dFun r3 2 v * rotD r3 S 2 i
        + dFun r3 3 v * rotD r3 S 3 i + dFun r3 4 v * rotD r3 S 4 i := by
  have hu := inv_r3 hr
  have h00 := hS 0 0; have h11 := hS 1 1; have h22 := hS 2 2
  have h01 := hS 0 1; have h02 := hS 0 2; have h12 := hS 1 2
  simp only [sum3, Fin.isValue, ↓reduceIte, show (0 : Fin 3) ≠ 1 from by decide, show (0 : Fin 3) ≠ 2 from by decide,
    show (1 : Fin 3) ≠ 2 from by decide] at h00 h11 h22 h01 h02 h12
  fin_cases i
  · simp [dFun, evalQuad, dQuad, rotD, monoCoeff, substQuad, mulVec3, sum3, div_eq_mul_inv]
    generalize r3⁻¹ = u at hu ⊢
    linear_combination
      (u * (v 0 ^ 2 + v 1 ^ 2 - 2 * v 2 ^ 2) * (S 0 0 ^ 2 + S 0 1 ^ 2 - 2 * S 0 2 ^ 2 + S 1 0 ^ 2 + S 1 1 ^ 2 - 2 * S 1 2 ^ 2
          - 2 * S 2 0 ^ 2 - 2 * S 2 1 ^ 2 + 4 * S 2 2 ^ 2) / 12) * hu
      + ((v 0 ^ 2 + v 1 ^ 2 + v 2 ^ 2) / 3) * (-(u / 2) * h00 - (u / 2) * h11 + u * h22)
  · simp [dFun, evalQuad, dQuad, rotD, monoCoeff, substQuad, mulVec3, sum3, div_eq_mul_inv]
    generalize r3⁻¹ = u at hu ⊢
    linear_combination
      (-(v 0 ^ 2 + v 1 ^ 2 - 2 * v 2 ^ 2) * (S 0 0 * S 2 0 + S 0 1 * S 2 1 - 2 * S 0 2 * S 2 2) / 6) * hu
      + ((v 0 ^ 2 + v 1 ^ 2 + v 2 ^ 2) / 3) * h02
  · simp [dFun, evalQuad, dQuad, rotD, monoCoeff, substQuad, mulVec3, sum3, div_eq_mul_inv]
    generalize r3⁻¹ = u at hu ⊢
    linear_combination
      (-(v 0 ^ 2 + v 1 ^ 2 - 2 * v 2 ^ 2) * (S 1 0 * S 2 0 + S 1 1 * S 2 1 - 2 * S 1 2 * S 2 2) / 6) * hu
      + ((v 0 ^ 2 + v 1 ^ 2 + v 2 ^ 2) / 3) * h12
  · simp [dFun, evalQuad, dQuad, rotD, monoCoeff, substQuad, mulVec3, sum3, div_eq_mul_inv]
    generalize r3⁻¹ = u at hu ⊢
    linear_combination
      (-(v 0 ^ 2 + v 1 ^ 2 - 2 * v 2 ^ 2) * (S 0 0 ^ 2 + S 0 1 ^ 2 - 2 * S 0 2 ^ 2 - S 1 0 ^ 2 - S 1 1 ^ 2 + 2 * S 1 2 ^ 2) / 12) * hu
      + ((v 0 ^ 2 + v 1 ^ 2 + v 2 ^ 2) / 3) * ((1 / 2) * h00 - (1 / 2) * h11)
  · simp [dFun, evalQuad, dQuad, rotD, monoCoeff, substQuad, mulVec3, sum3, div_eq_mul_inv]
    generalize r3⁻¹ = u at hu ⊢
    linear_combination
      (-(v 0 ^ 2 + v 1 ^ 2 - 2 * v 2 ^ 2) * (S 0 0 * S 1 0 + S 0 1 * S 1 1 - 2 * S 0 2 * S 1 2) / 6) * hu
      + ((v 0 ^ 2 + v 1 ^ 2 + v 2 ^ 2) / 3) * h01

/-- the five d functions are linearly independent (as functions on K³) -/
theorem dFun_indep {r3 : K} (hr : r3 * r3 = 3) (c : Fin 5 → K)
    (h : ∀ v : V3 K, dFun r3 0 v * c 0 + dFun r3 1 v * c 1 + dFun r3 2 v * c 2 + dFun r3 3 v * c 3
        + dFun r3 4 v * c 4 = 0) : ∀ j, c j = 0 := by
  have hne := r3_ne hr
  have h2 : (2 : K) ≠ 0 := by exact_mod_cast (show (2 : ℕ) ≠ 0 by decide)
  let pt (x y z : K) : V3 K := fun a => match a.val with | 0 => x | 1 => y | _ => z
  have e1 := h (pt 1 0 0); have e2 := h (pt 0 1 0); have e3 := h (pt 0 0 1)
  have e4 := h (pt 1 1 0); have e5 := h (pt 1 0 1); have e6 := h (pt 0 1 1)
  simp [dFun, evalQuad, dQuad, sum3, pt, div_eq_mul_inv] at e1 e2 e3 e4 e5 e6
  have hu : r3⁻¹ ≠ 0 := inv_ne_zero hne
  generalize r3⁻¹ = u at *
  have c3 : c 3 = 0 := by linear_combination e1 - e2
  have c0 : c 0 = 0 := by
    have : u * c 0 = 0 := by linear_combination (-1 : K) * e1 - e2
    rcases mul_eq_zero.1 this with h' | h'
    · exact absurd h' hu
    · exact h'
  have c4 : c 4 = 0 := by rw [c0] at e4; linear_combination e4
  have c1 : c 1 = 0 := by rw [c0, c3] at e5; linear_combination e5
  have c2 : c 2 = 0 := by rw [c0, c3] at e6; linear_combination e6
  intro j; fin_cases j <;> assumption

def sum5 {K} [Add K] (f : Fin 5 → K) : K := f 0 + f 1 + f 2 + f 3 + f 4

/-- composition law for the d shell (S = inverse rotations, so `S₁₂ = S₂·S₁` ⇔ `R₁₂ = R₁·R₂`):
    `A(S₂ S₁) = A(S₁) · A(S₂)` for orthogonal `S₁, S₂` -/
theorem rotD_comp {r3 : K} (hr : r3 * r3 = 3) (S1 S2 : M3 K) (h1 : Orth3 S1) (h2 : Orth3 S2) (l i : Fin 5) :
    rotD r3 (mulM3 S2 S1) l i = sum5 (fun j => rotD r3 S1 l j * rotD r3 S2 j i) := by
  have h12 : Orth3 (mulM3 S2 S1) := Orth3.mul h1 h2
  -- both sides are coefficient vectors of the same function  r ↦ d_i(S₂ S₁ r)
  have key : ∀ v : V3 K,
      dFun r3 0 v * (rotD r3 (mulM3 S2 S1) 0 i - sum5 (fun j => rotD r3 S1 0 j * rotD r3 S2 j i))
      + dFun r3 1 v * (rotD r3 (mulM3 S2 S1) 1 i - sum5 (fun j => rotD r3 S1 1 j * rotD r3 S2 j i))
      + dFun r3 2 v * (rotD r3 (mulM3 S2 S1) 2 i - sum5 (fun j => rotD r3 S1 2 j * rotD r3 S2 j i))
      + dFun r3 3 v * (rotD r3 (mulM3 S2 S1) 3 i - sum5 (fun j => rotD r3 S1 3 j * rotD r3 S2 j i))
      + dFun r3 4 v * (rotD r3 (mulM3 S2 S1) 4 i - sum5 (fun j => rotD r3 S1 4 j * rotD r3 S2 j i)) = 0 := by
    intro v
    have e12 := rotD_expand hr (mulM3 S2 S1) h12 i v
    rw [mulVec3_mul] at e12
    have e2 := rotD_expand hr S2 h2 i (mulVec3 S1 v)
    have f0 := rotD_expand hr S1 h1 0 v
    have f1 := rotD_expand hr S1 h1 1 v
    have f2 := rotD_expand hr S1 h1 2 v
    have f3 := rotD_expand hr S1 h1 3 v
    have f4 := rotD_expand hr S1 h1 4 v
    simp only [sum5]
    linear_combination e2 - e12 + rotD r3 S2 0 i * f0 + rotD r3 S2 1 i * f1 + rotD r3 S2 2 i * f2
      + rotD r3 S2 3 i * f3 + rotD r3 S2 4 i * f4
  have := dFun_indep hr (fun l => rotD r3 (mulM3 S2 S1) l i - sum5 (fun j => rotD r3 S1 l j * rotD r3 S2 j i)) key l
  exact sub_eq_zero.1 this

theorem rotD_transpose (r3 : K) (S : M3 K) (j i : Fin 5) : rotD r3 (transpose3 S) j i = rotD r3 S i j := by
  fin_cases j <;> fin_cases i <;>
    simp [dQuad, rotD, monoCoeff, substQuad, transpose3, sum3, div_eq_mul_inv] <;> (first | ring1 | (left; ring1))

theorem rotD_one {r3 : K} (hr : r3 * r3 = 3) (j i : Fin 5) : rotD r3 (one3 : M3 K) j i = if j = i then 1 else 0 := by
  have hu := inv_r3 hr
  fin_cases j <;> fin_cases i <;>
    simp [dQuad, rotD, monoCoeff, substQuad, one3, sum3, div_eq_mul_inv] <;>
    (try first
      | (generalize r3⁻¹ = u at hu ⊢; linear_combination hu)
      | norm_num)

omit [CharZero K] in
/-- the d shell is even: `A(−S) = A(S)` (improper rotations act like the proper part) -/
theorem rotD_neg (r3 : K) (S : M3 K) (j i : Fin 5) : rotD r3 (fun a b => -S a b) j i = rotD r3 S j i := by
  fin_cases j <;> fin_cases i <;>
    simp [dQuad, rotD, monoCoeff, substQuad, sum3, div_eq_mul_inv]

/-- orthogonality of the d matrix: `A(S)ᵀ A(S) = 1` for orthogonal `S` -/
theorem rotD_orthogonal_aux {r3 : K} (hr : r3 * r3 = 3) (S : M3 K) (hS : Orth3 S) (i i' : Fin 5) :
    sum5 (fun j => rotD r3 S j i * rotD r3 S j i') = if i = i' then 1 else 0 := by
  have hc := rotD_comp hr (transpose3 S) S hS.transpose hS i i'
  rw [hS.mul_transpose, rotD_one hr] at hc
  rw [hc]
  simp only [sum5, rotD_transpose]

end WB.C21
