/-
  Helper lemmas for C23: the selection loop of `grid_from_kpoints` and the counting argument.
-/
import WB.Lemmas.C23Detect
import Mathlib.Data.List.Nodup
import Mathlib.Data.Finset.Prod
import Mathlib.Data.Finset.Card
import Mathlib.Data.Int.Interval

namespace WB.C23

/-- a reduced k-point: all coordinates in `[0,1)` -/
def Reduced (k : K3) : Prop := (0 ≤ k.1 ∧ k.1 < 1) ∧ (0 ≤ k.2.1 ∧ k.2.1 < 1) ∧ (0 ≤ k.2.2 ∧ k.2.2 < 1)

/-- a grid with all three sizes ≥ 1 -/
def GPos (g : G3) : Prop := 0 < g.1 ∧ 0 < g.2.1 ∧ 0 < g.2.2

/-- the mesh point `(i/N1, j/N2, l/N3)` -/
def meshPt (g : G3) (i j l : Nat) : K3 := ((i : Rat) / g.1, (j : Rat) / g.2.1, (l : Rat) / g.2.2)

theorem roundInt_intCast (z : Int) : roundInt (z : Rat) = z := by
  unfold roundInt
  show ⌊(z : Rat) + 1 / 2⌋ = z
  rw [Int.floor_eq_iff]
  constructor <;> linarith

theorem onGrid_iff (g : G3) (k : K3) : onGrid g k = true ↔
    (∃ a : Int, k.1 * g.1 = a) ∧ (∃ b : Int, k.2.1 * g.2.1 = b) ∧ (∃ c : Int, k.2.2 * g.2.2 = c) := by
  unfold onGrid
  simp only [Bool.and_eq_true, isInt_iff, and_assoc]

theorem kint_inj (g : G3) (hg : GPos g) (k k' : K3) (h : onGrid g k = true) (h' : onGrid g k' = true)
    (e : kint g k = kint g k') : k = k' := by
  obtain ⟨⟨a, ha⟩, ⟨b, hb⟩, ⟨c, hc⟩⟩ := (onGrid_iff g k).1 h
  obtain ⟨⟨a', ha'⟩, ⟨b', hb'⟩, ⟨c', hc'⟩⟩ := (onGrid_iff g k').1 h'
  unfold kint at e
  rw [ha, hb, hc, ha', hb', hc'] at e
  simp only [roundInt_intCast, Prod.mk.injEq] at e
  obtain ⟨e1, e2, e3⟩ := e
  obtain ⟨g1, g2, g3⟩ := hg
  have q1 : (g.1 : Rat) ≠ 0 := by positivity
  have q2 : (g.2.1 : Rat) ≠ 0 := by positivity
  have q3 : (g.2.2 : Rat) ≠ 0 := by positivity
  have r1 : k.1 = k'.1 := by
    apply mul_right_cancel₀ q1; rw [ha, ha', e1]
  have r2 : k.2.1 = k'.2.1 := by
    apply mul_right_cancel₀ q2; rw [hb, hb', e2]
  have r3 : k.2.2 = k'.2.2 := by
    apply mul_right_cancel₀ q3; rw [hc, hc', e3]
  exact Prod.ext r1 (Prod.ext r2 r3)

theorem onGrid_meshPt (g : G3) (hg : GPos g) (i j l : Nat) : onGrid g (meshPt g i j l) = true := by
  obtain ⟨g1, g2, g3⟩ := hg
  have q1 : (g.1 : Rat) ≠ 0 := by positivity
  have q2 : (g.2.1 : Rat) ≠ 0 := by positivity
  have q3 : (g.2.2 : Rat) ≠ 0 := by positivity
  rw [onGrid_iff]
  refine ⟨⟨i, ?_⟩, ⟨j, ?_⟩, ⟨l, ?_⟩⟩ <;> simp only [meshPt, Int.cast_natCast] <;> field_simp

theorem kint_meshPt (g : G3) (hg : GPos g) (i j l : Nat) : kint g (meshPt g i j l) = ((i : Int), (j : Int), (l : Int)) := by
  obtain ⟨g1, g2, g3⟩ := hg
  have q1 : (g.1 : Rat) ≠ 0 := by positivity
  have q2 : (g.2.1 : Rat) ≠ 0 := by positivity
  have q3 : (g.2.2 : Rat) ≠ 0 := by positivity
  have e1 : (i : Rat) / g.1 * g.1 = ((i : Int) : Rat) := by simp only [Int.cast_natCast]; field_simp
  have e2 : (j : Rat) / g.2.1 * g.2.1 = ((j : Int) : Rat) := by simp only [Int.cast_natCast]; field_simp
  have e3 : (l : Rat) / g.2.2 * g.2.2 = ((l : Int) : Rat) := by simp only [Int.cast_natCast]; field_simp
  unfold kint meshPt
  simp only [e1, e2, e3, roundInt_intCast]

/-- the search box `[0,N1) × [0,N2) × [0,N3)` of integer triples -/
def box (g : G3) : Finset I3 :=
  Finset.Ico (0 : Int) g.1 ×ˢ Finset.Ico (0 : Int) g.2.1 ×ˢ Finset.Ico (0 : Int) g.2.2

theorem card_box (g : G3) : (box g).card = numGrid g := by
  simp [box, numGrid, Finset.card_product, Int.card_Ico, Nat.mul_assoc]

theorem mem_box (g : G3) (p : I3) : p ∈ box g ↔
    (0 ≤ p.1 ∧ p.1 < g.1) ∧ (0 ≤ p.2.1 ∧ p.2.1 < g.2.1) ∧ (0 ≤ p.2.2 ∧ p.2.2 < g.2.2) := by
  simp [box, Finset.mem_product, Finset.mem_Ico]

/-- an on-grid reduced point has its integer triple inside the box -/
theorem kint_mem_box (g : G3) (hg : GPos g) (k : K3) (hr : Reduced k) (h : onGrid g k = true) : kint g k ∈ box g := by
  obtain ⟨⟨a, ha⟩, ⟨b, hb⟩, ⟨c, hc⟩⟩ := (onGrid_iff g k).1 h
  obtain ⟨⟨x0, x1⟩, ⟨y0, y1⟩, ⟨z0, z1⟩⟩ := hr
  rw [mem_box]
  unfold kint
  rw [ha, hb, hc]
  simp only [roundInt_intCast]
  have key : ∀ (x : Rat) (n : Nat) (a : Int), 0 < n → 0 ≤ x → x < 1 → x * n = a → 0 ≤ a ∧ a < n := by
    intro x n a hpos h0 h1 e
    have hnq : (0 : Rat) < n := by exact_mod_cast hpos
    constructor
    · have : (0 : Rat) ≤ a := by rw [← e]; positivity
      exact_mod_cast this
    · have : (a : Rat) < n := by rw [← e]; nlinarith
      exact_mod_cast this
  exact ⟨key _ _ _ hg.1 x0 x1 ha, key _ _ _ hg.2.1 y0 y1 hb, key _ _ _ hg.2.2 z0 z1 hc⟩

/-! ### the selection loop -/

theorem selectFrom_sublist (g : G3) : ∀ (l : List (K3 × Nat)) (seen : List I3), (selectFrom g l seen).Sublist l
  | [], _ => by simp [selectFrom]
  | (k, i) :: rest, seen => by
    unfold selectFrom
    split
    · exact (selectFrom_sublist g rest _).cons_cons _
    · exact (selectFrom_sublist g rest _).cons _

/-- every selected point is on the grid and was not seen before -/
theorem selectFrom_mem (g : G3) : ∀ (l : List (K3 × Nat)) (seen : List I3), ∀ p ∈ selectFrom g l seen,
    onGrid g p.1 = true ∧ kint g p.1 ∉ seen
  | [], _ => by simp [selectFrom]
  | (k, i) :: rest, seen => by
    intro p hp
    unfold selectFrom at hp
    split at hp
    · rename_i hc
      simp only [Bool.and_eq_true, Bool.not_eq_true', List.contains_eq_mem, decide_eq_false_iff_not] at hc
      rcases List.mem_cons.mp hp with rfl | hp
      · exact hc
      · have := selectFrom_mem g rest _ p hp
        exact ⟨this.1, fun h => this.2 (List.mem_cons_of_mem _ h)⟩
    · exact selectFrom_mem g rest _ p hp

/-- the integer triples of the selected points are pairwise different -/
theorem selectFrom_nodup (g : G3) : ∀ (l : List (K3 × Nat)) (seen : List I3),
    ((selectFrom g l seen).map (fun p => kint g p.1)).Nodup
  | [], _ => by simp [selectFrom]
  | (k, i) :: rest, seen => by
    unfold selectFrom
    split
    · rw [List.map_cons, List.nodup_cons]
      refine ⟨?_, selectFrom_nodup g rest _⟩
      intro hmem
      obtain ⟨p, hp, hpe⟩ := List.mem_map.mp hmem
      have := (selectFrom_mem g rest _ p hp).2
      apply this; rw [hpe]; exact List.mem_cons_self
    · exact selectFrom_nodup g rest _

/-- every on-grid point of the input has its integer triple among the seen or the selected ones -/
theorem selectFrom_covers (g : G3) : ∀ (l : List (K3 × Nat)) (seen : List I3), ∀ p ∈ l, onGrid g p.1 = true →
    kint g p.1 ∈ seen ∨ kint g p.1 ∈ (selectFrom g l seen).map (fun p => kint g p.1)
  | [], _ => by simp
  | (k, i) :: rest, seen => by
    intro p hp hon
    unfold selectFrom
    split
    · rcases List.mem_cons.mp hp with rfl | hp
      · right; simp
      · rcases selectFrom_covers g rest (kint g k :: seen) p hp hon with h | h
        · rcases List.mem_cons.mp h with h | h
          · right; rw [h]; simp
          · left; exact h
        · right; rw [List.map_cons]; exact List.mem_cons_of_mem _ h
    · rename_i hc
      rcases List.mem_cons.mp hp with rfl | hp
      · left
        simp only [Bool.and_eq_true, Bool.not_eq_true', List.contains_eq_mem, decide_eq_false_iff_not, not_and,
          not_not] at hc
        exact hc hon
      · exact selectFrom_covers g rest _ p hp hon

/-! ### counting -/

/-- `ks` lists exactly the points of the Γ-centred mesh `N` (coordinates in `[0,1)`), in any order,
    possibly with repetitions -/
def IsMesh (N : G3) (ks : List K3) : Prop :=
  (∀ k ∈ ks, ∃ i j l, i < N.1 ∧ j < N.2.1 ∧ l < N.2.2 ∧ k = meshPt N i j l) ∧
  (∀ i j l, i < N.1 → j < N.2.1 → l < N.2.2 → meshPt N i j l ∈ ks)

theorem meshPt_reduced (N : G3) (i j l : Nat) (hi : i < N.1) (hj : j < N.2.1) (hl : l < N.2.2) :
    Reduced (meshPt N i j l) := by
  have key : ∀ (a n : Nat), a < n → (0 : Rat) ≤ (a : Rat) / n ∧ (a : Rat) / n < 1 := by
    intro a n h
    have hn : (0 : Rat) < n := by exact_mod_cast (by omega : 0 < n)
    have ha : (a : Rat) < n := by exact_mod_cast h
    exact ⟨by positivity, (div_lt_one hn).2 ha⟩
  exact ⟨key i _ hi, key j _ hj, key l _ hl⟩

theorem isMesh_reduced (N : G3) (ks : List K3) (h : IsMesh N ks) : ∀ k ∈ ks, Reduced k := by
  intro k hk
  obtain ⟨i, j, l, hi, hj, hl, rfl⟩ := h.1 k hk
  exact meshPt_reduced N i j l hi hj hl

/-- the selected `(k, i)` pairs and their integer triples -/
def selPairs (g : G3) (ks : List K3) : List (K3 × Nat) := selectFrom g ks.zipIdx []
def selKints (g : G3) (ks : List K3) : List I3 := (selPairs g ks).map (fun p => kint g p.1)

theorem select_eq (g : G3) (ks : List K3) : select g ks = (selPairs g ks).map (·.2) := rfl

theorem length_select (g : G3) (ks : List K3) : (select g ks).length = (selKints g ks).length := by
  simp [select_eq, selKints]

theorem selPairs_mem (g : G3) (ks : List K3) (p : K3 × Nat) (hp : p ∈ selPairs g ks) :
    ks[p.2]? = some p.1 ∧ p.1 ∈ ks ∧ onGrid g p.1 = true := by
  have h1 : p ∈ ks.zipIdx := (selectFrom_sublist g _ _).subset hp
  have h2 : ks[p.2]? = some p.1 := List.mem_zipIdx_iff_getElem?.1 h1
  exact ⟨h2, List.mem_of_getElem? h2, (selectFrom_mem g _ _ p hp).1⟩

theorem selKints_nodup (g : G3) (ks : List K3) : (selKints g ks).Nodup := selectFrom_nodup g _ _

theorem selKints_covers (g : G3) (ks : List K3) (k : K3) (hk : k ∈ ks) (hon : onGrid g k = true) :
    kint g k ∈ selKints g ks := by
  obtain ⟨i, hki⟩ := List.mem_iff_getElem?.1 hk
  have hm : (k, i) ∈ ks.zipIdx := List.mem_zipIdx_iff_getElem?.2 hki
  rcases selectFrom_covers g ks.zipIdx [] (k, i) hm hon with h | h
  · simp at h
  · exact h

theorem selKints_subset_box (g : G3) (hg : GPos g) (ks : List K3) (hr : ∀ k ∈ ks, Reduced k) :
    (selKints g ks).toFinset ⊆ box g := by
  intro x hx
  rw [List.mem_toFinset] at hx
  obtain ⟨p, hp, rfl⟩ := List.mem_map.mp hx
  obtain ⟨_, hmem, hon⟩ := selPairs_mem g ks p hp
  exact kint_mem_box g hg p.1 (hr _ hmem) hon

theorem length_select_le (g : G3) (hg : GPos g) (ks : List K3) (hr : ∀ k ∈ ks, Reduced k) :
    (select g ks).length ≤ numGrid g := by
  rw [length_select, ← List.toFinset_card_of_nodup (selKints_nodup g ks), ← card_box]
  exact Finset.card_le_card (selKints_subset_box g hg ks hr)

theorem length_select_complete (g : G3) (hg : GPos g) (ks : List K3) (hr : ∀ k ∈ ks, Reduced k)
    (hall : ∀ i j l, i < g.1 → j < g.2.1 → l < g.2.2 → meshPt g i j l ∈ ks) :
    (select g ks).length = numGrid g := by
  apply le_antisymm (length_select_le g hg ks hr)
  rw [length_select, ← List.toFinset_card_of_nodup (selKints_nodup g ks), ← card_box]
  apply Finset.card_le_card
  intro x hx
  rw [mem_box] at hx
  obtain ⟨⟨a0, a1⟩, ⟨b0, b1⟩, ⟨c0, c1⟩⟩ := hx
  rw [List.mem_toFinset]
  have hm := hall x.1.toNat x.2.1.toNat x.2.2.toNat (by omega) (by omega) (by omega)
  have := selKints_covers g ks _ hm (onGrid_meshPt g hg _ _ _)
  rw [kint_meshPt g hg] at this
  have e : ((x.1.toNat : Int), (x.2.1.toNat : Int), (x.2.2.toNat : Int)) = x := by
    rw [Int.toNat_of_nonneg a0, Int.toNat_of_nonneg b0, Int.toNat_of_nonneg c0]
  rwa [e] at this

theorem length_select_missing (g : G3) (hg : GPos g) (ks : List K3) (hr : ∀ k ∈ ks, Reduced k)
    (i j l : Nat) (hi : i < g.1) (hj : j < g.2.1) (hl : l < g.2.2) (hmiss : meshPt g i j l ∉ ks) :
    (select g ks).length < numGrid g := by
  rw [length_select, ← List.toFinset_card_of_nodup (selKints_nodup g ks), ← card_box]
  apply Finset.card_lt_card
  refine ⟨selKints_subset_box g hg ks hr, ?_⟩
  intro hsub
  have hin : ((i : Int), (j : Int), (l : Int)) ∈ box g := by
    rw [mem_box]; simp only; omega
  have := hsub hin
  rw [List.mem_toFinset] at this
  obtain ⟨p, hp, hpe⟩ := List.mem_map.mp this
  obtain ⟨_, hmem, hon⟩ := selPairs_mem g ks p hp
  rw [← kint_meshPt g hg] at hpe
  have := kint_inj g hg _ _ hon (onGrid_meshPt g hg i j l) hpe
  exact hmiss (this ▸ hmem)

end WB.C23
