/-
  Helper lemmas for C23: the selection loop of `grid_from_kpoints` and the counting argument.
-/
import WB.Lemmas.C23Detect
import Mathlib.Data.List.Nodup
import Mathlib.Data.Finset.Prod
import Mathlib.Data.Finset.Card
import Mathlib.Data.Int.Interval

namespace WB.C23

/-- a reduced k-point: all coordinates in `[0,1)` -/
def Reduced (k : K3) : Prop := (0 ≤ k.1 ∧ k.1 < 1) ∧ (0 ≤ k.2.1 ∧ k.2.1 < 1) ∧ (0 ≤ k.2.2 ∧ k.2.2 < 1)

/-- a grid with all three sizes ≥ 1 -/
def GPos (g : G3) : Prop := 0 < g.1 ∧ 0 < g.2.1 ∧ 0 < g.2.2

/-- the mesh point `(i/N1, j/N2, l/N3)` -/
def meshPt (g : G3) (i j l : Nat) : K3 := ((i : Rat) / g.1, (j : Rat) / g.2.1, (l : Rat) / g.2.2)

theorem roundInt_intCast (z : Int) : roundInt (z : Rat) = z := by
  unfold roundInt
  show ⌊(z : Rat) + 1 / 2⌋ = z
  rw [Int.floor_eq_iff]
  constructor <;> linarith

theorem onGrid_iff (g : G3) (k : K3) : onGrid g k = true ↔
    (∃ a : Int, k.1 * g.1 = a) ∧ (∃ b : Int, k.2.1 * g.2.1 = b) ∧ (∃ c : Int, k.2.2 * g.2.2 = c) := by
  unfold onGrid
  simp only [Bool.and_eq_true, isInt_iff, and_assoc]

theorem kint_inj (g : G3) (hg : GPos g) (k k' : K3) (h : onGrid g k = true) (h' : onGrid g k' = true)
    (e : kint g k = kint g k') : k = k' := by
  obtain ⟨⟨a, ha⟩, ⟨b, hb⟩, ⟨c, hc⟩⟩ := (onGrid_iff g k).1 h
  obtain ⟨⟨a', ha'⟩, ⟨b', hb'⟩, ⟨c', hc'⟩⟩ := (onGrid_iff g k').1 h'
  unfold kint at e
  rw [ha, hb, hc, ha', hb', hc'] at e
  simp only [roundInt_intCast, Prod.mk.injEq] at e
  obtain ⟨e1, e2, e3⟩ := e
  obtain ⟨g1, g2, g3⟩ := hg
  have q1 : (g.1 : Rat) ≠ 0 := by positivity
  have q2 : (g.2.1 : Rat) ≠ 0 := by positivity
  have q3 : (g.2.2 : Rat) ≠ 0 := by positivity
  have r1 : k.1 = k'.1 := by
    apply mul_right_cancel₀ q1; rw [ha, ha', e1]
  have r2 : k.2.1 = k'.2.1 := by
    apply mul_right_cancel₀ q2; rw [hb, hb', e2]
  have r3 : k.2.2 = k'.2.2 := by
    apply mul_right_cancel₀ q3; rw [hc, hc', e3]
  exact Prod.ext r1 (Prod.ext r2 r3)

theorem onGrid_meshPt (g : G3) (hg : GPos g) (i j l : Nat) : onGrid g (meshPt g i j l) = true := by
  obtain ⟨g1, g2, g3⟩ := hg
  have q1 : (g.1 : Rat) ≠ 0 := by positivity
  have q2 : (g.2.1 : Rat) ≠ 0 := by positivity
  have q3 : (g.2.2 : Rat) ≠ 0 := by positivity
  rw [onGrid_iff]
  refine ⟨⟨i, ?_⟩, ⟨j, ?_⟩, ⟨l, ?_⟩⟩ <;> simp only [meshPt, Int.cast_natCast] <;> field_simp

theorem kint_meshPt (g : G3) (hg : GPos g) (i j l : Nat) : kint g (meshPt g i j l) = ((i : Int), (j : Int), (l : Int)) := by
  obtain ⟨g1, g2, g3⟩ := hg
  have q1 : (g.1 : Rat) ≠ 0 := by positivity
  have q2 : (g.2.1 : Rat) ≠ 0 := by positivity
  have q3 : (g.2.2 : Rat) ≠ 0 := by positivity
  have e1 : (i : Rat) / g.1 * g.1 = ((i : Int) : Rat) := by simp only [Int.cast_natCast]; field_simp
  have e2 : (j : Rat) / g.2.1 * g.2.1 = ((j : Int) : Rat) := by simp only [Int.cast_natCast]; field_simp
  have e3 : (l : Rat) / g.2.2 * g.2.2 = ((l : Int) : Rat) := by simp only [Int.cast_natCast]; field_simp
  unfold kint meshPt
  simp only [e1, e2, e3, roundInt_intCast]

/-- the search box `[0,N1) × [0,N2) × [0,N3)` of integer triples -/
def box (g : G3) : Finset I3 :=
  Finset.Ico (0 : Int) g.1 ×ˢ Finset.Ico (0 : Int) g.2.1 ×ˢ Finset.Ico (0 : Int) g.2.2

theorem card_box (g : G3) : (box g).card = numGrid g := by
  simp [box, numGrid, Finset.card_product, Int.card_Ico, Nat.mul_assoc]

theorem mem_box (g : G3) (p : I3) : p ∈ box g ↔
    (0 ≤ p.1 ∧ p.1 < g.1) ∧ (0 ≤ p.2.1 ∧ p.2.1 < g.2.1) ∧ (0 ≤ p.2.2 ∧ p.2.2 < g.2.2) := by
  simp [box, Finset.mem_product, Finset.mem_Ico]

/-- an on-grid reduced point has its integer triple inside the box -/
theorem kint_mem_box (g : G3) (hg : GPos g) (k : K3) (hr : Reduced k) (h : onGrid g k = true) : kint g k ∈ box g := by
  obtain ⟨⟨a, ha⟩, ⟨b, hb⟩, ⟨c, hc⟩⟩ := (onGrid_iff g k).1 h
  obtain ⟨⟨x0, x1⟩, ⟨y0, y1⟩, ⟨z0, z1⟩⟩ := hr
  rw [mem_box]
  unfold kint
  rw [ha, hb, hc]
  simp only [roundInt_intCast]
  have key : ∀ (x : Rat) (n : Nat) (a : Int), 0 < n → 0 ≤ x → x < 1 → x * n = a → 0 ≤ a ∧ a < n := by
    intro x n a hpos h0 h1 e
    have hnq : (0 : Rat) < n := by exact_mod_cast hpos
    constructor
    · have : (0 : Rat) ≤ a := by rw [← e]; positivity
      exact_mod_cast this
    · have : (a : Rat) < n := by rw [← e]; nlinarith
      exact_mod_cast this
  exact ⟨key _ _ _ hg.1 x0 x1 ha, key _ _ _ hg.2.1 y0 y1 hb, key _ _ _ hg.2.2 z0 z1 hc⟩

end WB.C23
