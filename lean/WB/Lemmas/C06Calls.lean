/-
  C06: call histories on ONE grid object.  In the model the grid object is the pair (symmetry list, div); a call of
  `get_K_list(use_symmetry)` returns fresh K-points and leaves the object unchanged, so the answer to a call is a
  function of (grid, group, use_symmetry) only - whatever was asked before and whatever was done to earlier results.
-/
import WB.Model.C06

namespace WB.C06

structure GridObj where
  syms : List Sym
  div : Idx

/-- `grid.get_K_list(use_symmetry)`: (object after the call, returned list) -/
def gridCall (g : GridObj) (useSym : Bool) : GridObj × List KPoint := (g, getKList g.syms g.div useSym)

/-- a sequence of calls on the same object (refinement of the returned lists happens outside of the object) -/
def gridCalls (g : GridObj) : List Bool → GridObj × List (List KPoint)
  | [] => (g, [])
  | us :: rest => ((gridCalls (gridCall g us).1 rest).1, (gridCall g us).2 :: (gridCalls (gridCall g us).1 rest).2)

theorem gridCalls_spec (g : GridObj) : ∀ calls : List Bool,
    (gridCalls g calls).1 = g ∧ (gridCalls g calls).2 = calls.map (getKList g.syms g.div)
  | [] => ⟨rfl, rfl⟩
  | us :: rest => by
    obtain ⟨a, b⟩ := gridCalls_spec g rest
    unfold gridCalls gridCall
    exact ⟨a, by rw [List.map_cons]; exact congrArg _ b⟩

end WB.C06
