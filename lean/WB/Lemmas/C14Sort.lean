/-
  C14 — sorting and the 1e-12 separation: `weights_tetra` on ARBITRARY corners is the spec on the sorted, separated
  corners; permutation invariance.
-/
import WB.Lemmas.C14Mono
import Mathlib.Data.List.Sort

namespace WB.C14
set_option linter.unusedSectionVars false
variable {K : Type} [Field K] [LinearOrder K] [IsStrictOrderedRing K]

theorem sort4_perm (a b c d : K) : (sort4 a b c d).Perm [a, b, c, d] := by
  unfold sort4; exact List.mergeSort_perm _ _

theorem sort4_sorted (a b c d : K) : (sort4 a b c d).Pairwise (· ≤ ·) := by
  unfold sort4; exact List.pairwise_mergeSort' (· ≤ ·) _

theorem sort4_length (a b c d : K) : (sort4 a b c d).length = 4 := by
  simpa using (sort4_perm a b c d).length_eq

/-- the sorted corners as four named values -/
theorem sort4_cases (a b c d : K) :
    ∃ s1 s2 s3 s4 : K, sort4 a b c d = [s1, s2, s3, s4] ∧ s1 ≤ s2 ∧ s2 ≤ s3 ∧ s3 ≤ s4 := by
  have hl := sort4_length a b c d
  have hs := sort4_sorted a b c d
  match hm : sort4 a b c d, hl with
  | [s1, s2, s3, s4], _ =>
    rw [hm] at hs
    simp only [List.pairwise_cons, List.mem_cons, List.not_mem_nil, or_false, forall_eq_or_imp, forall_eq] at hs
    exact ⟨s1, s2, s3, s4, rfl, hs.1.1, hs.2.1.1, hs.2.2.1⟩

/-- T5 core: sorting forgets the order of the corners -/
theorem sort4_congr {a b c d a' b' c' d' : K} (hp : [a, b, c, d].Perm [a', b', c', d']) :
    sort4 a b c d = sort4 a' b' c' d' :=
  (((sort4_perm a b c d).trans hp).trans (sort4_perm a' b' c' d').symm).eq_of_pairwise'
    (sort4_sorted a b c d) (sort4_sorted a' b' c' d')

/-- already sorted corners are left alone -/
theorem sort4_of_sorted {a b c d : K} (h1 : a ≤ b) (h2 : b ≤ c) (h3 : c ≤ d) : sort4 a b c d = [a, b, c, d] := by
  unfold sort4
  apply List.mergeSort_eq_self (· ≤ ·)
  simp only [List.pairwise_cons, List.mem_cons, List.not_mem_nil, or_false, forall_eq_or_imp, forall_eq,
    List.Pairwise.nil, and_true, IsEmpty.forall_iff, implies_true]
  exact ⟨⟨h1, h1.trans h2, h1.trans (h2.trans h3)⟩, ⟨h2, h2.trans h3⟩, h3⟩

/-- after the separation pass the corners are strictly increasing — for ANY input (sorted or not), as soon as
    `diff_min > 0` -/
theorem sep4_incr {dmin : K} (hd : 0 < dmin) (e1 e2 e3 e4 : K) :
    Incr (sep4 dmin e1 e2 e3 e4).1 (sep4 dmin e1 e2 e3 e4).2.1 (sep4 dmin e1 e2 e3 e4).2.2.1
      (sep4 dmin e1 e2 e3 e4).2.2.2 := by
  unfold sep4
  refine ⟨?_, ?_, ?_⟩ <;> dsimp only <;> split_ifs <;> linarith

/-- … and consecutive corners are at least `diff_min` apart -/
theorem sep4_gap {dmin : K} (e1 e2 e3 e4 : K) :
    dmin ≤ (sep4 dmin e1 e2 e3 e4).2.1 - (sep4 dmin e1 e2 e3 e4).1 ∧
    dmin ≤ (sep4 dmin e1 e2 e3 e4).2.2.1 - (sep4 dmin e1 e2 e3 e4).2.1 ∧
    dmin ≤ (sep4 dmin e1 e2 e3 e4).2.2.2 - (sep4 dmin e1 e2 e3 e4).2.2.1 := by
  unfold sep4
  refine ⟨?_, ?_, ?_⟩ <;> dsimp only <;> split_ifs <;> linarith

/-- corners that are already `diff_min` apart are not moved -/
theorem sep4_id {dmin e1 e2 e3 e4 : K} (h12 : dmin ≤ e2 - e1) (h23 : dmin ≤ e3 - e2) (h34 : dmin ≤ e4 - e3) :
    sep4 dmin e1 e2 e3 e4 = (e1, e2, e3, e4) := by
  unfold sep4
  simp only [not_lt.mpr h12, not_lt.mpr h23, not_lt.mpr h34, if_false]

/-- the separation never moves a corner down, and moves it up by at most `3·diff_min` (sorted input) -/
theorem sep4_shift {dmin : K} (hd : 0 ≤ dmin) {e1 e2 e3 e4 : K} (h12 : e1 ≤ e2) (h23 : e2 ≤ e3) (h34 : e3 ≤ e4) :
    (sep4 dmin e1 e2 e3 e4).1 = e1 ∧
    (e2 ≤ (sep4 dmin e1 e2 e3 e4).2.1 ∧ (sep4 dmin e1 e2 e3 e4).2.1 ≤ e2 + dmin) ∧
    (e3 ≤ (sep4 dmin e1 e2 e3 e4).2.2.1 ∧ (sep4 dmin e1 e2 e3 e4).2.2.1 ≤ e3 + 2 * dmin) ∧
    (e4 ≤ (sep4 dmin e1 e2 e3 e4).2.2.2 ∧ (sep4 dmin e1 e2 e3 e4).2.2.2 ≤ e4 + 3 * dmin) := by
  unfold sep4
  refine ⟨rfl, ⟨?_, ?_⟩, ⟨?_, ?_⟩, ⟨?_, ?_⟩⟩ <;> dsimp only <;> split_ifs <;> linarith

/-- MAIN: for arbitrary corners (any order, coincident or not) every branch of `weights_tetra` evaluates the spec
    on the sorted, separated corners -/
theorem weightsTetra_eq_spec {dmin : K} (hd : 0 < dmin) (der : Nat) (hder : der ≤ 3) (acc : Bool)
    (a b c d x s1 s2 s3 s4 : K) (hs : sort4 a b c d = [s1, s2, s3, s4]) :
    weightsTetra dmin der acc a b c d x =
      spec der (sep4 dmin s1 s2 s3 s4).1 (sep4 dmin s1 s2 s3 s4).2.1 (sep4 dmin s1 s2 s3 s4).2.2.1
        (sep4 dmin s1 s2 s3 s4).2.2.2 x := by
  unfold weightsTetra
  rw [hs]
  exact occ_eq_spec (sep4_incr hd s1 s2 s3 s4) der hder acc x

theorem weightsTetra_perm (dmin : K) (der : Nat) (acc : Bool) {a b c d a' b' c' d' : K}
    (hp : [a, b, c, d].Perm [a', b', c', d']) (x : K) :
    weightsTetra dmin der acc a b c d x = weightsTetra dmin der acc a' b' c' d' x := by
  unfold weightsTetra
  rw [sort4_congr hp]

/-! ### consequences for arbitrary corners -/

theorem spec_below_all {e1 e2 e3 e4 : K} (h : Incr e1 e2 e3 e4) (n : Nat) {x : K} (hx : x < e1) :
    spec n e1 e2 e3 e4 x = 0 := by
  unfold spec
  rw [tp_of_lt hx, tp_of_lt (hx.trans h.h12), tp_of_lt (hx.trans (h.h12.trans h.h23)),
    tp_of_lt (hx.trans (h.h12.trans (h.h23.trans h.h34)))]
  simp

/-- T4 for the code: the occupation weight lies in [0,1] — any corners, any order, coincident or not -/
theorem weightsTetra_range {dmin : K} (hd : 0 < dmin) (acc : Bool) (a b c d x : K) :
    0 ≤ weightsTetra dmin 0 acc a b c d x ∧ weightsTetra dmin 0 acc a b c d x ≤ 1 := by
  obtain ⟨s1, s2, s3, s4, hs, -, -, -⟩ := sort4_cases a b c d
  rw [weightsTetra_eq_spec hd 0 (by omega) acc a b c d x s1 s2 s3 s4 hs]
  exact spec0_range (sep4_incr hd s1 s2 s3 s4) x

/-- T4 for the code: the occupation weight is non-decreasing in the Fermi level -/
theorem weightsTetra_mono {dmin : K} (hd : 0 < dmin) (acc : Bool) (a b c d : K) :
    Monotone (fun x => weightsTetra dmin 0 acc a b c d x) := by
  obtain ⟨s1, s2, s3, s4, hs, -, -, -⟩ := sort4_cases a b c d
  intro x y hxy
  simp only
  rw [weightsTetra_eq_spec hd 0 (by omega) acc a b c d x s1 s2 s3 s4 hs,
    weightsTetra_eq_spec hd 0 (by omega) acc a b c d y s1 s2 s3 s4 hs]
  exact spec0_mono (sep4_incr hd s1 s2 s3 s4) hxy

/-- the density-of-states weight (`der = 1`) is non-negative -/
theorem weightsTetra_der1_nonneg {dmin : K} (hd : 0 < dmin) (acc : Bool) (a b c d x : K) :
    0 ≤ weightsTetra dmin 1 acc a b c d x := by
  obtain ⟨s1, s2, s3, s4, hs, -, -, -⟩ := sort4_cases a b c d
  rw [weightsTetra_eq_spec hd 1 (by omega) acc a b c d x s1 s2 s3 s4 hs]
  exact spec1_nonneg (sep4_incr hd s1 s2 s3 s4) x

/-- below all four corners every weight (occupation and derivatives) vanishes -/
theorem weightsTetra_zero_below {dmin : K} (hd : 0 < dmin) (der : Nat) (hder : der ≤ 3) (acc : Bool)
    (a b c d x : K) (ha : x < a) (hb : x < b) (hc : x < c) (hdd : x < d) :
    weightsTetra dmin der acc a b c d x = 0 := by
  obtain ⟨s1, s2, s3, s4, hs, h12, h23, h34⟩ := sort4_cases a b c d
  rw [weightsTetra_eq_spec hd der hder acc a b c d x s1 s2 s3 s4 hs]
  have hmem : s1 ∈ [a, b, c, d] := by
    have := (sort4_perm a b c d).mem_iff (a := s1)
    rw [hs] at this
    exact this.mp (by simp)
  have hx : x < s1 := by
    simp only [List.mem_cons, List.not_mem_nil, or_false] at hmem
    rcases hmem with rfl | rfl | rfl | rfl <;> assumption
  apply spec_below_all (sep4_incr hd s1 s2 s3 s4) der
  rw [(sep4_shift hd.le h12 h23 h34).1]
  exact hx

/-- `3·diff_min` above all four corners the occupation weight is exactly 1 -/
theorem weightsTetra_one_above {dmin : K} (hd : 0 < dmin) (acc : Bool) (a b c d x M : K)
    (ha : a ≤ M) (hb : b ≤ M) (hc : c ≤ M) (hdd : d ≤ M) (hx : M + 3 * dmin ≤ x) :
    weightsTetra dmin 0 acc a b c d x = 1 := by
  obtain ⟨s1, s2, s3, s4, hs, h12, h23, h34⟩ := sort4_cases a b c d
  rw [weightsTetra_eq_spec hd 0 (by omega) acc a b c d x s1 s2 s3 s4 hs]
  have hmem : s4 ∈ [a, b, c, d] := by
    have := (sort4_perm a b c d).mem_iff (a := s4)
    rw [hs] at this
    exact this.mp (by simp)
  have hM : s4 ≤ M := by
    simp only [List.mem_cons, List.not_mem_nil, or_false] at hmem
    rcases hmem with rfl | rfl | rfl | rfl <;> assumption
  apply spec0_above (sep4_incr hd s1 s2 s3 s4)
  have := (sep4_shift hd.le h12 h23 h34).2.2.2.2
  linarith

end WB.C14
