/-
  C31 helper lemmas: the shells of `find_shells` are closed under b → −b (as lists: permutations), because the search
  box is symmetric, the lengths of b and −b are equal and a run of the sorted lengths contains every vector of a
  given length.
-/
import WB.Lemmas.C31Shells
import Mathlib.Data.List.Nodup
import Mathlib.Data.List.GetD
import Mathlib.Data.List.Perm.Basic
import Mathlib.Data.List.Perm.Subperm
import Mathlib.Tactic.Ring

namespace WB.C31

/-! ### a general fact -/

theorem perm_map_of_closed {α : Type} (f : α → α) (hf : Function.Injective f) (l : List α) (hn : l.Nodup)
    (hcl : ∀ x ∈ l, f x ∈ l) : (l.map f).Perm l := by
  have h1 : (l.map f).Nodup := hn.map hf
  have h2 : l.map f ⊆ l := by
    intro y hy
    obtain ⟨x, hx, rfl⟩ := List.mem_map.1 hy
    exact hcl x hx
  exact (h1.subperm h2).perm_of_length_le (by simp)

/-! ### the search box -/

theorem mem_symRange (n : Nat) (x : Int) : x ∈ symRange n ↔ -(n : Int) ≤ x ∧ x ≤ n := by
  unfold symRange
  simp only [List.mem_map, List.mem_range]
  constructor
  · rintro ⟨t, ht, rfl⟩; omega
  · rintro ⟨h1, h2⟩; exact ⟨(x + n).toNat, by omega, by omega⟩

theorem nodup_symRange (n : Nat) : (symRange n).Nodup := by
  unfold symRange
  apply List.Nodup.map _ List.nodup_range
  intro a b h; simp only at h; omega

theorem mem_boxList (n : Nat) (m : I3) : m ∈ boxList n ↔ m.1 ∈ symRange n ∧ m.2.1 ∈ symRange n ∧ m.2.2 ∈ symRange n := by
  obtain ⟨a, b, c⟩ := m
  unfold boxList
  simp only [List.mem_flatMap, List.mem_map, Prod.mk.injEq]
  constructor
  · rintro ⟨a', ha, b', hb, c', hc, rfl, rfl, rfl⟩; exact ⟨ha, hb, hc⟩
  · rintro ⟨ha, hb, hc⟩; exact ⟨a, ha, b, hb, c, hc, rfl, rfl, rfl⟩

theorem nodup_boxList (n : Nat) : (boxList n).Nodup := by
  unfold boxList
  rw [List.nodup_flatMap]
  refine ⟨fun a _ => ?_, ?_⟩
  · rw [List.nodup_flatMap]
    refine ⟨fun b _ => ?_, ?_⟩
    · apply List.Nodup.map _ (nodup_symRange n)
      intro c c' h; simpa using h
    · apply (nodup_symRange n).imp
      intro b b' hbb'
      simp only [Function.onFun, List.disjoint_left, List.mem_map]
      rintro x ⟨c, _, rfl⟩ ⟨c', _, h⟩
      simp only [Prod.mk.injEq] at h
      exact hbb' h.2.1.symm
  · apply (nodup_symRange n).imp
    intro a a' haa'
    simp only [Function.onFun, List.disjoint_left, List.mem_flatMap, List.mem_map]
    rintro x ⟨b, _, c, _, rfl⟩ ⟨b', _, c', _, h⟩
    simp only [Prod.mk.injEq] at h
    exact haa' h.1.symm

theorem negI_mem_boxList (n : Nat) (m : I3) (h : m ∈ boxList n) : negI m ∈ boxList n := by
  rw [mem_boxList] at h ⊢
  simp only [negI, mem_symRange] at h ⊢
  omega

theorem negI_injective : Function.Injective negI := by
  rintro ⟨a, b, c⟩ ⟨a', b', c'⟩ h
  simp only [negI, Prod.mk.injEq, neg_inj] at h
  obtain ⟨rfl, rfl, rfl⟩ := h; rfl

theorem cartI_negI (basis : Fin 3 → Fin 3 → Rat) (m : I3) (c : Fin 3) : cartI basis (negI m) c = -cartI basis m c := by
  simp only [cartI, negI, Int.cast_neg]; ring

/-! ### runs of the sorted lengths -/

theorem blockIdx_succ (E : Nat → Rat) (th : Rat) (p : Nat) :
    blockIdx E th (p + 1) = blockIdx E th p + (if E (p + 1) - E p > th then 1 else 0) := by
  unfold blockIdx
  rw [List.range_succ, List.filter_append, List.length_append]
  congr 1
  by_cases h : E (p + 1) - E p > th
  · simp [h]
  · simp [h]

/-- positions with equal length (in a sorted list, threshold ≥ 0) lie in the same run -/
theorem blockIdx_eq_of_eq (E : Nat → Rat) (th : Rat) (hth : 0 ≤ th) (N : Nat)
    (hsorted : ∀ i j, i ≤ j → j < N → E i ≤ E j) :
    ∀ (d p : Nat), p + d < N → E p = E (p + d) → blockIdx E th (p + d) = blockIdx E th p
  | 0, p, _, _ => rfl
  | d + 1, p, hN, hE => by
    have h1 : E p ≤ E (p + d) := hsorted p (p + d) (by omega) (by omega)
    have h2 : E (p + d) ≤ E (p + d + 1) := hsorted (p + d) (p + d + 1) (by omega) (by omega)
    have h3 : E (p + d) = E p := le_antisymm (by rw [hE]; exact h2) h1
    have ih := blockIdx_eq_of_eq E th hth N hsorted d p (by omega) h3.symm
    rw [show p + (d + 1) = (p + d) + 1 from by omega, blockIdx_succ, ih]
    have : ¬ (E (p + d + 1) - E (p + d) > th) := by
      rw [show p + (d + 1) = p + d + 1 from by omega] at hE
      rw [← hE, h3]; simpa using hth
    rw [if_neg this, Nat.add_zero]

theorem blockIdx_eq_of_eq' (E : Nat → Rat) (th : Rat) (hth : 0 ≤ th) (N : Nat)
    (hsorted : ∀ i j, i ≤ j → j < N → E i ≤ E j) (p q : Nat) (hp : p < N) (hq : q < N) (hE : E p = E q) :
    blockIdx E th p = blockIdx E th q := by
  rcases Nat.le_total p q with h | h
  · obtain ⟨d, rfl⟩ := Nat.exists_eq_add_of_le h
    exact (blockIdx_eq_of_eq E th hth N hsorted d p hq hE).symm
  · obtain ⟨d, rfl⟩ := Nat.exists_eq_add_of_le h
    exact blockIdx_eq_of_eq E th hth N hsorted d q hp hE.symm

/-! ### array of keys, one-pass run indices -/

theorem keysOf_getD (nrm : V3 Rat → Rat) (basis : Fin 3 → Fin 3 → Rat) (sb : List I3) (i : Nat) (hi : i < sb.length) :
    (keysOf nrm basis sb).getD i 0 = nrm (cartI basis (sb.getD i (0, 0, 0))) := by
  unfold keysOf
  rw [List.getD_eq_getElem _ _ hi]
  simp [Array.getD, hi]

theorem blockIdx_zero (E : Nat → Rat) (th : Rat) : blockIdx E th 0 = 0 := by
  simp [blockIdx]

theorem blockIdxAll_aux (E : Nat → Rat) (th : Rat) : ∀ N : Nat,
    (List.range N).foldl (fun (acc : List Nat × Nat) p =>
        let c := if decide (0 < p) && decide (E p - E (p - 1) > th) then acc.2 + 1 else acc.2
        (c :: acc.1, c)) ([], 0)
      = (((List.range N).map (blockIdx E th)).reverse, if N = 0 then 0 else blockIdx E th (N - 1))
  | 0 => by simp
  | N + 1 => by
    rw [List.range_succ, List.foldl_append, blockIdxAll_aux E th N]
    simp only [List.foldl_cons, List.foldl_nil, List.map_append, List.map_cons, List.map_nil, List.reverse_append,
      List.reverse_cons, List.reverse_nil, List.nil_append, List.cons_append, Nat.add_sub_cancel,
      Nat.add_one_ne_zero, ↓reduceIte]
    rcases N with _ | N
    · simp [blockIdx_zero]
    · have hs := blockIdx_succ E th N
      simp only [Nat.add_one_ne_zero, ↓reduceIte, Nat.add_sub_cancel, Nat.zero_lt_succ, decide_true, Bool.true_and,
        decide_eq_true_eq]
      by_cases hc : E (N + 1) - E N > th
      · simp [hc, hs]
      · simp [hc, hs]

theorem blockIdxAll_eq (E : Nat → Rat) (th : Rat) (N : Nat) :
    blockIdxAll E th N = (List.range N).map (blockIdx E th) := by
  unfold blockIdxAll
  rw [blockIdxAll_aux]
  simp

theorem filter_zip_map {β : Type} (l : List Nat) (g : Nat → Nat) (f : Nat → β) (k : Nat) :
    ((l.zip (l.map g)).filter (fun x => x.2 == k)).map (fun x => f x.1) = (l.filter (fun p => g p == k)).map f := by
  induction l with
  | nil => simp
  | cons a l ih =>
    simp only [List.map_cons, List.zip_cons_cons, List.filter_cons]
    by_cases h : g a == k
    · simp only [h, ↓reduceIte, List.map_cons, ih]
    · simp only [h, Bool.false_eq_true, ↓reduceIte, ih]

theorem tableFn_shellTableList (nrm : V3 Rat → Rat) (basis : Fin 3 → Fin 3 → Rat) (n : Nat) (th : Rat) (ns k : Nat) :
    tableFn (shellTableList nrm basis n th ns) k = if k ≤ ns then shellVecs nrm basis n th k else [] := by
  unfold tableFn shellTableList
  simp only [blockIdxAll_eq]
  by_cases hk : k ≤ ns
  · rw [if_pos hk, List.getD_eq_getElem _ _ (by simp; omega)]
    simp only [List.getElem_map, List.getElem_range]
    exact filter_zip_map (List.range (sortedBox nrm basis n).length) _
      (fun p => (sortedBox nrm basis n).getD p (0, 0, 0)) k
  · rw [if_neg hk]
    rw [List.getD_eq_default _ _ (by simp; omega)]

/-! ### every shell is closed under negation -/

section shells
variable (nrm : V3 Rat → Rat) (hnrm : ∀ v : V3 Rat, nrm (fun c => -v c) = nrm v)
variable (basis : Fin 3 → Fin 3 → Rat) (n : Nat) (th : Rat) (hth : 0 ≤ th)

theorem sortedBox_perm : (sortedBox nrm basis n).Perm (boxList n) := List.mergeSort_perm _ _

theorem sortedBox_nodup : (sortedBox nrm basis n).Nodup := (sortedBox_perm nrm basis n).nodup_iff.2 (nodup_boxList n)

theorem sortedBox_sorted (i j : Nat) (hij : i ≤ j) (hj : j < (sortedBox nrm basis n).length) :
    nrm (cartI basis ((sortedBox nrm basis n).getD i (0, 0, 0))) ≤ nrm (cartI basis ((sortedBox nrm basis n).getD j (0, 0, 0))) := by
  have hp : (sortedBox nrm basis n).Pairwise
      (fun a c => decide (nrm (cartI basis a) ≤ nrm (cartI basis c)) = true) := by
    unfold sortedBox
    apply List.pairwise_mergeSort
    · intro a b c hab hbc
      simp only [decide_eq_true_eq] at hab hbc ⊢
      exact le_trans hab hbc
    · intro a b
      simp only [Bool.or_eq_true, decide_eq_true_eq]
      exact le_total _ _
  rcases Nat.lt_or_eq_of_le hij with h | h
  · have := List.pairwise_iff_getElem.1 hp i j (by omega) hj h
    simp only [decide_eq_true_eq] at this
    rw [List.getD_eq_getElem _ _ (by omega : i < _), List.getD_eq_getElem _ _ hj]
    exact this
  · subst h; exact le_refl _

include hnrm hth in
theorem shellVecs_neg_perm (k : Nat) :
    ((shellVecs nrm basis n th k).map negI).Perm (shellVecs nrm basis n th k) := by
  apply perm_map_of_closed negI negI_injective
  · -- Nodup
    unfold shellVecs
    apply List.Nodup.map_on _ (List.nodup_range.filter _)
    intro p hp q hq hpq
    have hp' : p < (sortedBox nrm basis n).length := by simpa using (List.mem_filter.1 hp).1
    have hq' : q < (sortedBox nrm basis n).length := by simpa using (List.mem_filter.1 hq).1
    rw [List.getD_eq_getElem _ _ hp', List.getD_eq_getElem _ _ hq'] at hpq
    exact (sortedBox_nodup nrm basis n).getElem_inj_iff.1 hpq
  · -- closed under negation
    intro m hm
    unfold shellVecs at hm ⊢
    simp only [List.mem_map, List.mem_filter, List.mem_range, beq_iff_eq] at hm ⊢
    obtain ⟨p, ⟨hp, hk⟩, rfl⟩ := hm
    set sb := sortedBox nrm basis n with hsb
    have hmem : sb.getD p (0, 0, 0) ∈ sb := by
      rw [List.getD_eq_getElem _ _ hp]; exact List.getElem_mem hp
    have hneg : negI (sb.getD p (0, 0, 0)) ∈ sb :=
      (sortedBox_perm nrm basis n).mem_iff.2
        (negI_mem_boxList n _ ((sortedBox_perm nrm basis n).mem_iff.1 hmem))
    obtain ⟨q, hq, hqe⟩ := List.getElem_of_mem hneg
    refine ⟨q, ⟨hq, ?_⟩, by rw [List.getD_eq_getElem _ _ hq]; exact hqe⟩
    rw [← hk]
    have hE : ∀ i, i < sb.length → (keysOf nrm basis sb).getD i 0 = nrm (cartI basis (sb.getD i (0, 0, 0))) :=
      fun i hi => keysOf_getD nrm basis sb i hi
    apply blockIdx_eq_of_eq' _ th hth sb.length _ q p hq hp
    · show (keysOf nrm basis sb).getD q 0 = (keysOf nrm basis sb).getD p 0
      rw [hE q hq, hE p hp, List.getD_eq_getElem _ _ hq, hqe]
      have : cartI basis (negI (sb.getD p (0, 0, 0))) = fun c => -cartI basis (sb.getD p (0, 0, 0)) c := by
        funext c; exact cartI_negI basis _ c
      rw [this, hnrm]
    · intro i j hij hj
      show (keysOf nrm basis sb).getD i 0 ≤ (keysOf nrm basis sb).getD j 0
      rw [hE i (by omega), hE j hj]
      exact sortedBox_sorted nrm basis n i j hij hj

end shells

end WB.C31
