/-
  C14 — the lazy weight cache of `TetraWeights` as a state machine: for every history in which no registered Fermi
  array is modified in place, the cached answers are those of the cache-free computation.
-/
import WB.Model.C14
import Mathlib.Data.List.Basic
import Mathlib.Tactic.Linarith

namespace WB.C14

variable (kern : List Rat → Int → Nat → Nat → List Rat)

/-- every cached entry is what `kern` gives on the CURRENT contents of the registered object -/
def CacheOk (σ : Sys) : Prop :=
  ∀ (key : Nat × Int × Nat × Nat) (w : List Rat), σ.tw.cache.lookup key = some w →
    ∃ id, σ.tw.eFermis[key.1]? = some id ∧ w = kern (heapGet σ.heap id) key.2.1 key.2.2.1 key.2.2.2

theorem register_spec (s : TW) (id : Nat) :
    (s.register id).2.eFermis[(s.register id).1]? = some id ∧ (s.register id).2.cache = s.cache ∧
    (∀ (j : Nat) (id' : Nat), s.eFermis[j]? = some id' → (s.register id).2.eFermis[j]? = some id') ∧
    (∀ x, x ∈ (s.register id).2.eFermis → x ∈ s.eFermis ∨ x = id) := by
  unfold TW.register
  cases hf : s.eFermis.findIdx? (· == id) with
  | some i =>
    simp only
    rw [List.findIdx?_eq_some_iff_getElem] at hf
    obtain ⟨hi, hp, -⟩ := hf
    refine ⟨?_, by first | rfl | trivial, fun _ _ h => h, fun x hx => Or.inl hx⟩
    rw [List.getElem?_eq_getElem hi]
    simpa using hp
  | none =>
    simp only
    refine ⟨by simp, by first | rfl | trivial, ?_, ?_⟩
    · intro j id' h
      have hj : j < s.eFermis.length := by
        by_contra hc
        rw [List.getElem?_eq_none (by omega)] at h
        exact absurd h (by simp)
      rw [List.getElem?_append_left hj]; exact h
    · intro x hx
      rcases List.mem_append.mp hx with h | h
      · exact Or.inl h
      · exact Or.inr (by simpa using h)

theorem weight1b_spec (h : Heap) (s : TW) (ief : Nat) (der : Int) (ik ib : Nat) (id : Nat)
    (hid : s.eFermis[ief]? = some id)
    (hok : CacheOk kern ⟨h, s⟩) :
    (s.weight1b kern h ief der ik ib).1 = kern (heapGet h id) der ik ib ∧
    (s.weight1b kern h ief der ik ib).2.eFermis = s.eFermis ∧
    CacheOk kern ⟨h, (s.weight1b kern h ief der ik ib).2⟩ := by
  unfold TW.weight1b
  cases hc : s.cache.lookup (ief, der, ik, ib) with
  | some w =>
    simp only
    obtain ⟨id', h1, h2⟩ := hok (ief, der, ik, ib) w hc
    simp only at h1 h2
    rw [hid] at h1
    cases h1
    exact ⟨h2, by first | rfl | trivial, hok⟩
  | none =>
    simp only
    have hget : s.eFermis.getD ief 0 = id := by
      rw [List.getD_eq_getElem?_getD, hid]; rfl
    refine ⟨by rw [hget], by first | rfl | trivial, ?_⟩
    intro key w hl
    simp only [List.lookup_cons] at hl
    by_cases hk : key == (ief, der, ik, ib)
    · rw [hk] at hl
      have hkey : key = (ief, der, ik, ib) := by simpa using hk
      subst hkey
      refine ⟨id, hid, ?_⟩
      simp only at hl ⊢
      rw [hget] at hl
      exact (Option.some.inj hl).symm
    · have : (key == (ief, der, ik, ib)) = false := by simpa using hk
      rw [this] at hl
      exact hok key w hl

/-- an operation that cannot invalidate the cache: any query; an in-place modification only of an array that was
    never passed to this `TetraWeights` object (or one that does not change the contents) -/
def Safe (σ : Sys) : Op → Prop
  | .query _ _ _ _ => True
  | .mutate id vals => id ∉ σ.tw.eFermis ∨ vals = heapGet σ.heap id

def AllSafe : Sys → List Op → Prop
  | _, [] => True
  | σ, op :: rest => Safe σ op ∧ AllSafe (step kern σ op).1 rest

theorem heapGet_cons_ne (h : Heap) (id id' : Nat) (vals : List Rat) (hne : id' ≠ id) :
    heapGet ((id, vals) :: h) id' = heapGet h id' := by
  unfold heapGet
  rw [List.lookup_cons]
  have : (id' == id) = false := by simpa using hne
  rw [this]

theorem heapGet_cons_self (h : Heap) (id : Nat) (vals : List Rat) : heapGet ((id, vals) :: h) id = vals := by
  unfold heapGet; simp

theorem step_spec (σ : Sys) (op : Op) (hok : CacheOk kern σ) (hs : Safe σ op) :
    (step kern σ op).2 = (pureRun kern σ.heap [op]).head! ∧ CacheOk kern (step kern σ op).1 ∧
    (step kern σ op).1.heap = (match op with | .query _ _ _ _ => σ.heap | .mutate id vals => (id, vals) :: σ.heap) := by
  cases op with
  | query id der ik ib =>
    obtain ⟨h1, h2, h3, -⟩ := register_spec σ.tw id
    have hok' : CacheOk kern ⟨σ.heap, (σ.tw.register id).2⟩ := by
      intro key w hl
      simp only at hl
      rw [h2] at hl
      obtain ⟨id', a, b⟩ := hok key w hl
      exact ⟨id', h3 _ _ a, b⟩
    obtain ⟨w1, -, w3⟩ := weight1b_spec kern σ.heap (σ.tw.register id).2 (σ.tw.register id).1 der ik ib id h1 hok'
    refine ⟨?_, ?_, rfl⟩
    · simp only [step, pureRun, List.head!]
      rw [w1]
    · exact w3
  | mutate id vals =>
    refine ⟨rfl, ?_, rfl⟩
    intro key w hl
    obtain ⟨id', a, b⟩ := hok key w hl
    refine ⟨id', a, ?_⟩
    simp only [step]
    rcases hs with hs | hs
    · have hne : id' ≠ id := by
        intro he; subst he
        exact hs (List.mem_of_getElem? a)
      rw [heapGet_cons_ne _ _ _ _ hne]; exact b
    · by_cases he : id' = id
      · subst he; rw [heapGet_cons_self, hs]; exact b
      · rw [heapGet_cons_ne _ _ _ _ he]; exact b

/-- CACHE TRANSPARENCY.  For every history of queries (any Fermi arrays, derivative orders, k-points, bands, in any
    order and with any repetitions) and in-place modifications that are `Safe`, the object with its cache returns exactly
    what the cache-free computation returns. -/
theorem cache_transparent_aux : ∀ (ops : List Op) (σ : Sys), CacheOk kern σ → AllSafe kern σ ops →
    run kern σ ops = pureRun kern σ.heap ops
  | [], _, _, _ => rfl
  | op :: rest, σ, hok, hsafe => by
    obtain ⟨h1, h2, h3⟩ := step_spec kern σ op hok hsafe.1
    have ih := cache_transparent_aux rest (step kern σ op).1 h2 hsafe.2
    rw [run, ih, h3]
    cases op with
    | query id der ik ib => simp only [pureRun]; rw [h1]; rfl
    | mutate id vals => simp only [pureRun]; rw [h1]; rfl

theorem cacheOk_empty (h : Heap) : CacheOk kern ⟨h, TW.empty⟩ := by
  intro key w hl
  simp [TW.empty] at hl

/-! ### which entry a query uses -/

/-- a query re-uses an existing registration exactly when the SAME array object was registered before -/
theorem register_hit_iff (s : TW) (id : Nat) :
    (s.register id).1 < s.eFermis.length ↔ id ∈ s.eFermis := by
  unfold TW.register
  cases hf : s.eFermis.findIdx? (· == id) with
  | some i =>
    simp only
    rw [List.findIdx?_eq_some_iff_getElem] at hf
    obtain ⟨hi, hp, -⟩ := hf
    have : s.eFermis[i] = id := by simpa using hp
    exact ⟨fun _ => this ▸ List.getElem_mem hi, fun _ => hi⟩
  | none =>
    simp only
    rw [List.findIdx?_eq_none_iff] at hf
    constructor
    · intro h; omega
    · intro h
      have := hf id h
      simp at this

/-- … and then it is the registration of that very object -/
theorem register_hit_same (s : TW) (id : Nat) : (s.register id).2.eFermis[(s.register id).1]? = some id :=
  (register_spec s id).1

/-! ### a lookup by "same length, same first and last value" (NOT what the code does) -/

def sameEnds (a b : List Rat) : Bool :=
  a.length == b.length && a.head? == b.head? && a.getLast? == b.getLast?

/-- registration that also accepts a stored array with equal size and end points -/
def TW.registerEnds (h : Heap) (s : TW) (id : Nat) : Nat × TW :=
  match s.eFermis.findIdx? (fun j => j == id || sameEnds (heapGet h j) (heapGet h id)) with
  | some i => (i, s)
  | none => (s.eFermis.length, { s with eFermis := s.eFermis ++ [id] })

def stepEnds (σ : Sys) : Op → Sys × Option (List Rat)
  | .query id der ik ib =>
    let r := σ.tw.registerEnds σ.heap id
    let q := r.2.weight1b kern σ.heap r.1 der ik ib
    ({ σ with tw := q.2 }, some q.1)
  | .mutate id vals => ({ σ with heap := (id, vals) :: σ.heap }, none)

def runEnds : Sys → List Op → List (Option (List Rat))
  | _, [] => []
  | σ, op :: rest => (stepEnds kern σ op).2 :: runEnds (stepEnds kern σ op).1 rest

end WB.C14
