/-
  C02 — Hermiticity: derivative factors preserve  X(-R) = X(R)†;  the k-space sums are Hermitian;  hermitize.
  `K` is any field with a star operation (complex conjugation on ℂ).
-/
import WB.Lemmas.C02Box
import Mathlib.Algebra.Star.Basic
import Mathlib.Algebra.Star.Rat
import Mathlib.Algebra.BigOperators.Group.List.Basic
import Mathlib.Tactic.FieldSimp

namespace WB.C02
open WB.C01

section herm
variable {K : Type} [Field K] [StarRing K]

/-- `X(-R)_{ba} = conj X(R)_{ab}` -/
def HermR (X : Vec3 → Nat → Nat → K) : Prop := ∀ R a b, X (vneg R) b a = star (X R a b)

/-- a real factor that is odd under `(R,a,b) ↦ (-R,b,a)` — such as `(R + t_b − t_a)_α` -/
def RealOdd (v : Vec3 → Nat → Nat → K) : Prop :=
  (∀ R a b, star (v R a b) = v R a b) ∧ ∀ R a b, v (vneg R) b a = -(v R a b)

theorem derivStep_hermitian (I : K) (hI : star I = -I) (v : Vec3 → Nat → Nat → K) (hv : RealOdd v)
    (X : Vec3 → Nat → Nat → K) (hX : HermR X) :
    HermR (fun R a b => derivStep I (v R a b) (X R a b)) := by
  intro R a b
  simp only [derivStep]
  rw [hX R a b, hv.2 R a b, star_mul', star_mul', hI, hv.1 R a b]
  ring

omit [StarRing K] in
theorem derivN_cons (I : K) (v : K) (vs : List K) (x : K) :
    derivN I (v :: vs) x = derivN I vs (derivStep I v x) := rfl

/-- every n-fold derivative factor `i^n Π_α (R+t_b−t_a)_α` preserves `X(-R) = X(R)†` -/
theorem derivN_hermitian (I : K) (hI : star I = -I) (vs : List (Vec3 → Nat → Nat → K))
    (hvs : ∀ v ∈ vs, RealOdd v) (X : Vec3 → Nat → Nat → K) (hX : HermR X) :
    HermR (fun R a b => derivN I (vs.map fun v => v R a b) (X R a b)) := by
  induction vs generalizing X with
  | nil => simpa [derivN] using hX
  | cons v vs ih =>
    have h1 := derivStep_hermitian I hI v (hvs v (by simp)) X hX
    have := ih (fun w hw => hvs w (by simp [hw])) _ h1
    intro R a b
    simp only [List.map_cons, derivN_cons]
    exact this R a b

theorem star_sumK (l : List K) : star (sumK l) = sumK (l.map star) := by
  induction l with
  | nil => simp [sumK_nil]
  | cons x l ih => simp only [List.map_cons, sumK_cons, star_add, ih]

omit [StarRing K] in
theorem sumK_eq_sum (l : List K) : sumK l = l.sum := rfl

omit [StarRing K] in
theorem sumK_perm {l₁ l₂ : List K} (h : l₁.Perm l₂) : sumK l₁ = sumK l₂ := by
  rw [sumK_eq_sum, sumK_eq_sum]
  exact h.sum_eq

/-- the k-space matrix `H_ab = Σ_R χ(R) Y_ab(R)` of Hermitian real-space data on an inversion-symmetric R list is
    Hermitian, for every character with `conj χ(R) = χ(-R)` -/
theorem ksum_hermitian (iRvec : List Vec3) (hsym : (iRvec.map vneg).Perm iRvec)
    (χ : Vec3 → K) (hχ : ∀ R, star (χ R) = χ (vneg R))
    (Y : Vec3 → Nat → Nat → K) (hY : HermR Y) (a b : Nat) :
    explicitSum χ (iRvec.map fun R => (R, Y R b a)) = star (explicitSum χ (iRvec.map fun R => (R, Y R a b))) := by
  unfold explicitSum
  rw [star_sumK, List.map_map, List.map_map, List.map_map]
  have h1 : sumK (iRvec.map ((fun e : Vec3 × K => χ e.1 * e.2) ∘ fun R => (R, Y R b a)))
      = sumK ((iRvec.map vneg).map fun R => χ R * Y R b a) :=
    sumK_perm ((hsym.map _).symm)
  rw [h1, List.map_map]
  apply sumK_map_congr
  intro R _
  simp only [Function.comp, star_mul', hχ R, hY R a b]

/-! ### `_rotate` : U† X U -/

omit [StarRing K] in
theorem sumK_swap {α β} (l₁ : List α) (l₂ : List β) (f : α → β → K) :
    sumK (l₁.map fun a => sumK (l₂.map fun b => f a b)) = sumK (l₂.map fun b => sumK (l₁.map fun a => f a b)) := by
  induction l₁ with
  | nil =>
    simp only [List.map_nil, sumK_nil]
    exact (sumK_map_zero l₂).symm
  | cons a l ih =>
    simp only [List.map_cons, sumK_cons, ih]
    rw [← sumK_map_add]

/-- rotating a Hermitian matrix into ANY basis `U` (unitary or not) gives a Hermitian matrix -/
theorem rotate_hermitian (n : Nat) (U X : Nat → Nat → K) (hX : ∀ b c, X c b = star (X b c)) (a d : Nat) :
    rotate n star U X d a = star (rotate n star U X a d) := by
  unfold rotate
  rw [star_sumK, List.map_map]
  rw [sumK_swap]
  apply sumK_map_congr
  intro b _
  simp only [Function.comp]
  rw [star_sumK, List.map_map]
  apply sumK_map_congr
  intro c _
  simp only [Function.comp, star_mul', star_star, ← hX b c]
  ring

/-! ### the `hermitian=True` option -/

theorem star_half : star ((2 : K)⁻¹) = (2 : K)⁻¹ := by
  rw [star_inv₀, star_ofNat]

/-- the result of `hermitize` is Hermitian -/
theorem hermitize_hermitian (A : Nat → Nat → K) (a b : Nat) :
    hermitize ((2 : K)⁻¹) star A b a = star (hermitize ((2 : K)⁻¹) star A a b) := by
  unfold hermitize
  rw [star_mul', star_add, star_star, star_half]
  ring

/-- `hermitize` leaves a Hermitian matrix unchanged (characteristic ≠ 2) -/
theorem hermitize_fix (h2 : (2 : K) ≠ 0) (A : Nat → Nat → K) (hA : ∀ a b, A b a = star (A a b)) (a b : Nat) :
    hermitize ((2 : K)⁻¹) star A a b = A a b := by
  unfold hermitize
  rw [hA a b, star_star]
  field_simp
  ring

end herm

/-! ### the derivative factor of the code is real and odd -/

theorem cRshift_odd (L : List (List Rat)) (cs : List QVec3) (R : Vec3) (a b α : Nat) :
    cRshift L cs (vneg R) b a α = -(cRshift L cs R a b α) := by
  simp only [cRshift, cartComp, vneg]
  push_cast
  ring

theorem cRshift_realOdd {K : Type} [Field K] [StarRing K] (L : List (List Rat)) (cs : List QVec3) (α : Nat) :
    RealOdd (fun R a b => ((cRshift L cs R a b α : Rat) : K)) := by
  constructor
  · intro R a b
    exact star_ratCast _
  · intro R a b
    simp only
    rw [cRshift_odd]
    push_cast
    ring

end WB.C02
