/-
  Helper lemmas for C24 (wannierise: masks, embedding, isometry).
-/
import WB.Model.C24
import WB.Lemmas.Window
import Mathlib.Data.List.Nodup
import Mathlib.Data.List.GetD
import Mathlib.LinearAlgebra.Matrix.ConjTranspose
import Mathlib.Data.Matrix.Mul
import Mathlib.Algebra.BigOperators.Fin
import Mathlib.Tactic.Ring

namespace WB.C24
open WB.C15

/-! ### masks -/

theorem selectWindow_false_inWindow (E : Nat → Rat) (th wmin wmax : Rat) (n j : Nat)
    (hsel : selectWindow E th wmin wmax n false j = true) : inWindow E wmin wmax j = true := by
  unfold selectWindow at hsel
  split at hsel
  · simp only [Bool.false_eq_true, ↓reduceIte, Bool.and_eq_true] at hsel
    exact hsel.1.1
  · simp at hsel

theorem inWindow_mono (E : Nat → Rat) (a b c d : Rat) (j : Nat) (h1 : c ≤ a) (h2 : b ≤ d)
    (h : inWindow E a b j = true) : inWindow E c d j = true := by
  unfold inWindow at *
  simp only [Bool.and_eq_true, decide_eq_true_eq] at *
  exact ⟨le_trans h.1 h2, le_trans h1 h.2⟩

theorem freeMask_eq (n : Nat) (sel frozen : Nat → Bool) (j : Nat) :
    freeMask n sel frozen j = (decide (j < n) && !frozen j && sel j) := by
  unfold freeMask deselected free0
  cases sel j <;> cases frozen j <;> cases decide (j < n) <;> rfl

theorem assertOK_iff (n : Nat) (sel frozen : Nat → Bool) :
    assertOK n sel frozen = true ↔ ∀ j, j < n → frozen j = true → sel j = true := by
  unfold assertOK
  simp only [List.all_eq_true, List.mem_range, Bool.or_eq_true, Bool.not_eq_true']
  constructor
  · intro h j hj hf
    rcases h j hj with h | h
    · rw [hf] at h; cases h
    · exact h
  · intro h j hj
    cases hf : frozen j
    · left; rfl
    · right; exact h j hj hf

theorem mem_idx (n : Nat) (mask : Nat → Bool) (j : Nat) : j ∈ idx n mask ↔ j < n ∧ mask j = true := by
  unfold idx; simp [List.mem_filter]

theorem idx_nodup (n : Nat) (mask : Nat → Bool) : (idx n mask).Nodup :=
  List.Nodup.filter _ List.nodup_range

/-! ### matrices -/

open Matrix

section
variable {K : Type} [CommRing K]

/-- the model's `sumTo` is the finite sum -/
theorem sumTo_eq (n : Nat) (f : Nat → K) : sumTo n f = ∑ j ∈ Finset.range n, f j := by
  unfold sumTo
  induction n with
  | zero => simp
  | succ n ih =>
    rw [List.range_succ, List.foldl_append, ih, Finset.sum_range_succ]
    simp

/-- the embedding as a Mathlib matrix -/
def Emat (fz fr : List Nat) (Uf : Nat → Nat → K) (nb nw : Nat) : Matrix (Fin nb) (Fin nw) K :=
  Matrix.of fun b w => embed fz fr Uf b.val w.val

/-- `U_opt_free` as a Mathlib matrix -/
def Ufmat (Uf : Nat → Nat → K) (nf ng : Nat) : Matrix (Fin nf) (Fin ng) K :=
  Matrix.of fun i g => Uf i.val g.val

theorem embed_frozen_col (fz fr : List Nat) (Uf : Nat → Nat → K) (b w : Nat) (hw : w < fz.length) :
    embed fz fr Uf b w = if fz[w] = b then 1 else 0 := by
  unfold embed
  rw [if_pos hw, List.getElem?_eq_getElem hw]
  simp

theorem embed_free_col (fz fr : List Nat) (Uf : Nat → Nat → K) (b w : Nat) (hw : ¬ w < fz.length) :
    embed fz fr Uf b w = if fr.idxOf b < fr.length then Uf (fr.idxOf b) (w - fz.length) else 0 := by
  unfold embed
  rw [if_neg hw]

/-- rows that are neither frozen nor free are never written -/
theorem embed_zero_row (fz fr : List Nat) (Uf : Nat → Nat → K) (b w : Nat)
    (h1 : b ∉ fz) (h2 : b ∉ fr) : embed fz fr Uf b w = 0 := by
  unfold embed
  split
  · rename_i hw
    rw [List.getElem?_eq_getElem hw]
    have : fz[w] ≠ b := fun h => h1 (h ▸ List.getElem_mem hw)
    simp [this]
  · have : ¬ fr.idxOf b < fr.length := fun h => h2 (List.idxOf_lt_length_iff.1 h)
    rw [if_neg this]

/-- a free column vanishes on rows that are not free -/
theorem embed_zero_free_col (fz fr : List Nat) (Uf : Nat → Nat → K) (b w : Nat)
    (hw : ¬ w < fz.length) (h2 : b ∉ fr) : embed fz fr Uf b w = 0 := by
  rw [embed_free_col _ _ _ _ _ hw]
  have : ¬ fr.idxOf b < fr.length := fun h => h2 (List.idxOf_lt_length_iff.1 h)
  rw [if_neg this]

/-- reindexing a sum over all bands that vanishes off the list `fr` as a sum over the positions in `fr` -/
theorem sum_over_list (nb : Nat) (fr : List Nat) (hnd : fr.Nodup) (hlt : ∀ b ∈ fr, b < nb)
    (F : Nat → K) (hF : ∀ b, b ∉ fr → F b = 0) :
    ∑ b : Fin nb, F b.val = ∑ i : Fin fr.length, F (fr[i.val]) := by
  have hR : ∑ i : Fin fr.length, F (fr[i.val]) = ∑ i ∈ Finset.range fr.length, F (fr.getD i 0) := by
    rw [← Fin.sum_univ_eq_sum_range (fun i => F (fr.getD i 0)) fr.length]
    apply Finset.sum_congr rfl
    intro i _
    rw [List.getD_eq_getElem (l := fr) (d := 0) i.isLt]
  rw [Fin.sum_univ_eq_sum_range (fun b => F b) nb, hR]
  have himg : ∀ i ∈ Finset.range fr.length, fr.getD i 0 ∈ Finset.range nb := by
    intro i hi
    rw [Finset.mem_range] at hi ⊢
    rw [List.getD_eq_getElem (l := fr) (d := 0) hi]
    exact hlt _ (List.getElem_mem hi)
  symm
  apply Finset.sum_bij_ne_zero (fun i _ _ => fr.getD i 0)
  · intro i hi _; exact himg i hi
  · intro i hi _ j hj _ hij
    rw [Finset.mem_range] at hi hj
    rw [List.getD_eq_getElem (l := fr) (d := 0) hi, List.getD_eq_getElem (l := fr) (d := 0) hj] at hij
    exact (hnd.getElem_inj_iff).1 hij
  · intro b _ hb
    have hmem : b ∈ fr := by
      by_contra hcon; exact hb (hF b hcon)
    obtain ⟨i, hi, rfl⟩ := List.getElem_of_mem hmem
    refine ⟨i, Finset.mem_range.2 hi, ?_, ?_⟩
    · rw [List.getD_eq_getElem (l := fr) (d := 0) hi]; exact hb
    · rw [List.getD_eq_getElem (l := fr) (d := 0) hi]
  · intro i _ _; rfl

end

section
variable {K : Type} [CommRing K] [StarRing K]

/-- entries of `E†E` -/
theorem Emat_gram_apply (fz fr : List Nat) (Uf : Nat → Nat → K) (nb nw : Nat) (w w' : Fin nw) :
    ((Emat fz fr Uf nb nw)ᴴ * Emat fz fr Uf nb nw) w w'
      = ∑ b : Fin nb, star (embed fz fr Uf b.val w.val) * embed fz fr Uf b.val w'.val := by
  rw [Matrix.mul_apply]
  rfl

theorem Emat_isometry (fz fr : List Nat) (Uf : Nat → Nat → K) (nb ng : Nat)
    (hfz : fz.Nodup) (hfr : fr.Nodup) (hdisj : ∀ b ∈ fz, b ∉ fr)
    (hfzlt : ∀ b ∈ fz, b < nb) (hfrlt : ∀ b ∈ fr, b < nb)
    (hUf : (Ufmat Uf fr.length ng)ᴴ * Ufmat Uf fr.length ng = 1) :
    (Emat fz fr Uf nb (fz.length + ng))ᴴ * Emat fz fr Uf nb (fz.length + ng) = 1 := by
  ext w w'
  rw [Emat_gram_apply, Matrix.one_apply]
  by_cases hw : w.val < fz.length <;> by_cases hw' : w'.val < fz.length
  · -- two frozen columns: unit vectors of distinct bands
    simp only [embed_frozen_col _ _ _ _ _ hw, embed_frozen_col _ _ _ _ _ hw']
    rw [Finset.sum_eq_single (⟨fz[w.val], hfzlt _ (List.getElem_mem hw)⟩ : Fin nb)]
    · simp only [if_true, star_one, one_mul]
      by_cases hww : w = w'
      · subst hww; simp
      · have : fz[w'.val] ≠ fz[w.val] := by
          intro h
          exact hww (Fin.ext ((hfz.getElem_inj_iff).1 h).symm)
        simp [this, hww]
    · intro b _ hb
      have : fz[w.val] ≠ b.val := fun h => hb (Fin.ext h.symm)
      simp [this]
    · intro h; exact absurd (Finset.mem_univ _) h
  · -- frozen column against free column
    have hne : w ≠ w' := fun h => hw' (h ▸ hw)
    rw [if_neg hne]
    apply Finset.sum_eq_zero
    intro b _
    rw [embed_frozen_col _ _ _ _ _ hw, embed_free_col _ _ _ _ _ hw']
    by_cases hb : fz[w.val] = b.val
    · have hnot : ¬ fr.idxOf b.val < fr.length := by
        intro h
        exact hdisj b.val (hb ▸ List.getElem_mem hw) (List.idxOf_lt_length_iff.1 h)
      simp [hnot]
    · simp [hb]
  · have hne : w ≠ w' := fun h => hw (h ▸ hw')
    rw [if_neg hne]
    apply Finset.sum_eq_zero
    intro b _
    rw [embed_frozen_col _ _ _ _ _ hw', embed_free_col _ _ _ _ _ hw]
    by_cases hb : fz[w'.val] = b.val
    · have hnot : ¬ fr.idxOf b.val < fr.length := by
        intro h
        exact hdisj b.val (hb ▸ List.getElem_mem hw') (List.idxOf_lt_length_iff.1 h)
      simp [hnot]
    · simp [hb]
  · -- two free columns: the Gram matrix of `U_opt_free`
    have hg : w.val - fz.length < ng := by have := w.isLt; omega
    have hg' : w'.val - fz.length < ng := by have := w'.isLt; omega
    have key := sum_over_list nb fr hfr hfrlt
      (fun b => star (embed fz fr Uf b w.val) * embed fz fr Uf b w'.val)
      (fun b hb => by rw [embed_zero_free_col fz fr Uf b w'.val hw' hb, mul_zero])
    rw [key]
    have hU := congrFun (congrFun hUf ⟨w.val - fz.length, hg⟩) ⟨w'.val - fz.length, hg'⟩
    rw [Matrix.mul_apply, Matrix.one_apply] at hU
    simp only [Matrix.conjTranspose_apply, Ufmat, Matrix.of_apply] at hU
    have hcond : ((⟨w.val - fz.length, hg⟩ : Fin ng) = ⟨w'.val - fz.length, hg'⟩) ↔ w = w' := by
      rw [Fin.ext_iff, Fin.ext_iff]; simp only; omega
    rw [show (if w = w' then (1 : K) else 0)
          = if (⟨w.val - fz.length, hg⟩ : Fin ng) = ⟨w'.val - fz.length, hg'⟩ then 1 else 0 from by
        simp only [hcond], ← hU]
    apply Finset.sum_congr rfl
    intro i _
    rw [embed_free_col _ _ _ _ _ hw, embed_free_col _ _ _ _ _ hw', hfr.idxOf_getElem i.val i.isLt,
      if_pos i.isLt, if_pos i.isLt]

end

end WB.C24
