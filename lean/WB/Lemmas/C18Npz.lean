/-
  C18: the npz directory on the dictionary level (`to_npz` / `load_npz`), point symmetries and the
  point-group closure loop.
-/
import WB.Model.C18
import Mathlib.Data.List.Basic
import Mathlib.Algebra.Order.Field.Basic
import Mathlib.Tactic.Ring
import Mathlib.Tactic.Linarith

namespace WB.C18

variable {A : Type}

theorem dirGet_cons (p : Name × A) (l : List (Name × A)) (k : Name) :
    dirGet (p :: l) k = if p.1 = k then some p.2 else dirGet l k := by
  unfold dirGet
  rw [List.find?_cons]
  cases hb : (p.1 == k) with
  | true =>
    have h : p.1 = k := eq_of_beq hb
    rw [if_pos h]; rfl
  | false =>
    have h : ¬ p.1 = k := fun e => by rw [e, beq_self_eq_true] at hb; exact Bool.noConfusion hb
    rw [if_neg h]

theorem dirGet_append (l1 l2 : List (Name × A)) (k : Name) :
    dirGet (l1 ++ l2) k = (dirGet l1 k).or (dirGet l2 k) := by
  induction l1 with
  | nil => simp [dirGet]
  | cons p t ih =>
    rw [List.cons_append, dirGet_cons, dirGet_cons, ih]
    by_cases h : p.1 = k <;> simp [h]

theorem dirGet_mem {l : List (Name × A)} {k : Name} {a : A} (h : dirGet l k = some a) : (k, a) ∈ l := by
  induction l with
  | nil => simp [dirGet] at h
  | cons p t ih =>
    rw [dirGet_cons] at h
    by_cases hk : p.1 = k
    · rw [if_pos hk] at h
      have : p = (k, a) := by
        cases p; simp only [Option.some.injEq] at h; simp_all
      rw [this]; exact List.mem_cons_self
    · rw [if_neg hk] at h
      exact List.mem_cons_of_mem _ (ih h)

theorem dirGet_none_of_not_mem {l : List (Name × A)} {k : Name} (h : ∀ p ∈ l, p.1 ≠ k) : dirGet l k = none := by
  induction l with
  | nil => simp [dirGet]
  | cons p t ih =>
    rw [dirGet_cons, if_neg (h p List.mem_cons_self)]
    exact ih (fun q hq => h q (List.mem_cons_of_mem _ hq))

theorem dirGet_isSome_of_mem {l : List (Name × A)} {k : Name} (h : k ∈ l.map (·.1)) : (dirGet l k).isSome := by
  induction l with
  | nil => simp at h
  | cons p t ih =>
    rw [dirGet_cons]
    by_cases hk : p.1 = k
    · simp [hk]
    · rw [if_neg hk]
      apply ih
      simp only [List.map_cons, List.mem_cons] at h
      rcases h with h | h
      · exact absurd h.symm hk
      · exact h

theorem dirGet_map_prefix (mats : List (Name × A)) (k : Name) :
    dirGet (mats.map (fun p => (xxPrefix ++ p.1, p.2))) (xxPrefix ++ k) = dirGet mats k := by
  induction mats with
  | nil => simp [dirGet]
  | cons p t ih =>
    rw [List.map_cons, dirGet_cons, dirGet_cons, ih]
    by_cases h : p.1 = k
    · simp [h]
    · have : ¬ (xxPrefix ++ p.1 = xxPrefix ++ k) := fun e => h (List.append_cancel_left e)
      simp [h, this]

theorem isPrefix_xx (k : Name) : xxPrefix.isPrefixOf (xxPrefix ++ k) = true := by
  simp [List.isPrefixOf_iff_prefix]

theorem eq_append_of_isPrefix {x : Name} (h : xxPrefix.isPrefixOf x = true) : x = xxPrefix ++ x.drop 6 := by
  rw [List.isPrefixOf_iff_prefix] at h
  obtain ⟨t, rfl⟩ := h
  simp [xxPrefix]

/-- what `load_npz` finds in a directory written by `to_npz` -/
theorem dirGet_saveDir_prop (props mats : List (Name × A)) (k : Name) (a : A) (h : dirGet props k = some a) :
    dirGet (saveDir props mats) k = some a := by
  rw [saveDir, dirGet_append, h]; rfl

theorem dirGet_saveDir_mat (props mats : List (Name × A)) (k : Name)
    (hnop : ∀ p ∈ props, xxPrefix.isPrefixOf p.1 = false) :
    dirGet (saveDir props mats) (xxPrefix ++ k) = dirGet mats k := by
  rw [saveDir, dirGet_append, dirGet_map_prefix]
  have : dirGet props (xxPrefix ++ k) = none := by
    apply dirGet_none_of_not_mem
    intro p hp e
    have := hnop p hp
    rw [e, isPrefix_xx] at this
    exact Bool.noConfusion this
  rw [this]; rfl

/-! ### the loading loop -/

theorem attr_eq_dirGet (s : Loaded A) (k : Name) : s.attr k = dirGet s.attrs k := rfl

theorem attr_cons (s t : Loaded A) (key k : Name) (a : A) (ht : t.attrs = (key, a) :: s.attrs) :
    t.attr k = if key = k then some a else s.attr k := by
  rw [attr_eq_dirGet, attr_eq_dirGet, ht, dirGet_cons]

/-- invariant of the loading loop -/
structure LoadInv (dir : List (Name × A)) (s : Loaded A) : Prop where
  fresh : ∀ k, k ∉ s.done → s.attr k = none
  loaded : ∀ k, k ∈ s.done → k ≠ nIR → s.attr k = dirGet dir k

theorem loadStep_inv (dir : List (Name × A)) (s : Loaded A) (key : Name) (h : LoadInv dir s) :
    LoadInv dir (loadStep dir s key) ∧ key ∈ (loadStep dir s key).done ∧
      (∀ k, k ∈ s.done → k ∈ (loadStep dir s key).done) ∧
      (∀ k, k ∈ (loadStep dir s key).done → k = key ∨ k ∈ s.done) := by
  unfold loadStep
  by_cases hd : s.done.contains key = true
  · rw [if_pos hd]
    have hmem : key ∈ s.done := by simpa using hd
    exact ⟨h, hmem, fun k hk => hk, fun k hk => Or.inr hk⟩
  · rw [if_neg hd]
    have hnm : key ∉ s.done := by simpa using hd
    cases hg : dirGet dir key with
    | none =>
      refine ⟨⟨?_, ?_⟩, by simp, fun k hk => by simp [hk], fun k hk => by simpa using hk⟩
      · intro k hk
        simp only [List.mem_cons, not_or] at hk
        exact h.fresh k hk.2
      · intro k hk hne
        simp only [List.mem_cons] at hk
        rcases hk with rfl | hk
        · change s.attr k = dirGet dir k
          rw [hg]; exact h.fresh k hnm
        · exact h.loaded k hk hne
    | some a =>
      by_cases hi : (key == nIR) = true
      · simp only [hi, if_true]
        have hkey : key = nIR := by simpa using hi
        refine ⟨⟨?_, ?_⟩, by simp, fun k hk => by simp [hk], fun k hk => by simpa using hk⟩
        · intro k hk
          simp only [List.mem_cons, not_or] at hk
          exact h.fresh k hk.2
        · intro k hk hne
          simp only [List.mem_cons] at hk
          rcases hk with rfl | hk
          · exact absurd hkey hne
          · exact h.loaded k hk hne
      · simp only [hi, Bool.false_eq_true, if_false]
        refine ⟨⟨?_, ?_⟩, by simp, fun k hk => by simp [hk], fun k hk => by simpa using hk⟩
        · intro k hk
          simp only [List.mem_cons, not_or] at hk
          rw [attr_cons s _ key k a rfl, if_neg (fun e => hk.1 e.symm)]
          exact h.fresh k hk.2
        · intro k hk hne
          simp only [List.mem_cons] at hk
          rw [attr_cons s _ key k a rfl]
          by_cases e : key = k
          · rw [if_pos e, ← e, hg]
          · rw [if_neg e]
            rcases hk with rfl | hk
            · exact absurd rfl e
            · exact h.loaded k hk hne

theorem loadStep_rvec_of_done (dir : List (Name × A)) (s : Loaded A) (key : Name) (h : nIR ∈ s.done) :
    (loadStep dir s key).rvec = s.rvec := by
  unfold loadStep
  by_cases hd : s.done.contains key = true
  · rw [if_pos hd]
  · rw [if_neg hd]
    have hnm : key ∉ s.done := by simpa using hd
    cases hg : dirGet dir key with
    | none => rfl
    | some a =>
      by_cases hi : (key == nIR) = true
      · have hkey : key = nIR := by simpa using hi
        rw [hkey] at hnm; exact absurd h hnm
      · simp only [hi, Bool.false_eq_true, if_false]

theorem loadStep_rvec_at (dir : List (Name × A)) (s : Loaded A) (a : A) (h : nIR ∉ s.done)
    (hg : dirGet dir nIR = some a) :
    (loadStep dir s nIR).rvec = some (s.attr nLat, a, s.attr nWcc) := by
  unfold loadStep
  have hd : ¬ (s.done.contains nIR = true) := by simpa using h
  rw [if_neg hd, hg]
  simp

theorem loadStep_rvec_other (dir : List (Name × A)) (s : Loaded A) (key : Name) (h : key ≠ nIR) :
    (loadStep dir s key).rvec = s.rvec := by
  unfold loadStep
  split
  · rfl
  · split
    · rfl
    · have hi : ¬ ((key == nIR) = true) := by simpa using h
      simp only [hi, Bool.false_eq_true, if_false]

/-- invariant of the loop over the listed property files, after the lattice and the centres were loaded -/
structure LoadInv2 (dir : List (Name × A)) (s : Loaded A) (L W I : A) : Prop extends LoadInv dir s where
  lat : nLat ∈ s.done
  wcc : nWcc ∈ s.done
  rv : nIR ∈ s.done → s.rvec = some (some L, I, some W)

theorem foldl_inv2 (dir : List (Name × A)) (L W I : A)
    (hL : dirGet dir nLat = some L) (hW : dirGet dir nWcc = some W) (hI : dirGet dir nIR = some I) :
    ∀ (keys : List Name) (s : Loaded A), LoadInv2 dir s L W I →
      LoadInv2 dir (keys.foldl (loadStep dir) s) L W I ∧
        (∀ k, k ∈ keys → k ∈ (keys.foldl (loadStep dir) s).done)
  | [], s, h => ⟨h, fun k hk => by simp at hk⟩
  | key :: rest, s, h => by
    obtain ⟨hinv, hkey, hmono, hback⟩ := loadStep_inv dir s key h.toLoadInv
    have h2 : LoadInv2 dir (loadStep dir s key) L W I := by
      refine { toLoadInv := hinv, lat := hmono _ h.lat, wcc := hmono _ h.wcc, rv := ?_ }
      intro hdone
      by_cases hold : nIR ∈ s.done
      · rw [loadStep_rvec_of_done dir s key hold]; exact h.rv hold
      · have hk : key = nIR := by
          rcases hback _ hdone with e | e
          · exact e.symm
          · exact absurd e hold
        rw [hk, loadStep_rvec_at dir s I hold hI]
        have e1 : s.attr nLat = some L := by
          rw [h.loaded nLat h.lat (by decide), hL]
        have e2 : s.attr nWcc = some W := by
          rw [h.loaded nWcc h.wcc (by decide), hW]
        rw [e1, e2]
    obtain ⟨h3, hall⟩ := foldl_inv2 dir L W I hL hW hI rest _ h2
    refine ⟨h3, ?_⟩
    intro k hk
    rcases List.mem_cons.mp hk with rfl | hk
    · -- `done` only grows along the fold
      have hgrow : ∀ (ks : List Name) (t : Loaded A), k ∈ t.done → k ∈ (ks.foldl (loadStep dir) t).done := by
        intro ks
        induction ks with
        | nil => intro t ht; exact ht
        | cons x xs ih =>
          intro t ht
          -- membership in `done` is preserved by a step whatever the state is
          have : k ∈ (loadStep dir t x).done := by
            unfold loadStep
            split
            · exact ht
            · split
              · simp [ht]
              · split <;> simp [ht]
          exact ih _ this
      exact hgrow rest _ hkey
    · exact hall k hk

/-! ### group closure -/

section closure
variable {G : Type} (mul : G → G → G) (eqv : G → G → Bool)

def Closed (l : List G) : Prop := ∀ a ∈ l, ∀ b ∈ l, l.any (fun x => eqv (mul a b) x) = true

theorem inner_closed (l : List G) (hc : Closed mul eqv l) (i : Nat) (hi : i < l.length) :
    ∀ fuel j, l.length - j < fuel → inner mul eqv fuel l i j = some l
  | 0, j, h => by omega
  | fuel + 1, j, h => by
    unfold inner
    by_cases hj : j < l.length
    · have e1 : l[i]? = some l[i] := List.getElem?_eq_getElem hi
      have e2 : l[j]? = some l[j] := List.getElem?_eq_getElem hj
      rw [e1, e2]
      simp only
      rw [if_pos (hc _ (List.getElem_mem hi) _ (List.getElem_mem hj))]
      exact inner_closed l hc i hi fuel (j + 1) (by omega)
    · have e2 : l[j]? = none := List.getElem?_eq_none (by omega)
      rw [e2]
      cases l[i]? <;> rfl

theorem outer_closed (l : List G) (hc : Closed mul eqv l) (fuel : Nat) (hf : l.length < fuel) :
    ∀ k i, l.length - i < k → outer mul eqv fuel k l i = some l
  | 0, i, h => by omega
  | k + 1, i, h => by
    unfold outer
    by_cases hi : i < l.length
    · rw [if_pos hi, inner_closed mul eqv l hc i hi fuel 0 (by omega)]
      exact outer_closed l hc fuel hf k (i + 1) (by omega)
    · rw [if_neg hi]

theorem closure_closed_aux (l : List G) (hc : Closed mul eqv l) (fuel k : Nat) (hf : l.length < fuel) :
    closure mul eqv fuel (k + 1) l = some l := by
  unfold closure
  rw [outer_closed mul eqv l hc fuel hf fuel 0 (by omega)]
  simp

theorem dedupGens_aux : ∀ (l acc : List G), (acc ++ l).Pairwise (fun y x => eqv x y = false) →
    l.foldl (fun acc x => if acc.any (fun y => eqv x y) then acc else acc ++ [x]) acc = acc ++ l
  | [], acc, _ => by simp
  | x :: t, acc, h => by
    have hnot : acc.any (fun y => eqv x y) = false := by
      rw [List.any_eq_false]
      intro y hy
      have := (List.pairwise_append.mp h).2.2 y hy x List.mem_cons_self
      simp [this]
    rw [List.foldl_cons, hnot]
    simp only [Bool.false_eq_true, if_false]
    have := dedupGens_aux t (acc ++ [x]) (by simpa [List.append_assoc] using h)
    simpa [List.append_assoc] using this

/-- a list whose elements are pairwise different (as the element list of a group is) is read unchanged -/
theorem dedupGens_fixed (l : List G) (h : l.Pairwise (fun y x => eqv x y = false)) : dedupGens eqv l = l := by
  have := dedupGens_aux eqv l [] (by simpa using h)
  simpa [dedupGens] using this

end closure

/-! ### point symmetry ↔ dictionary -/

section psym
variable {K : Type} [Field K] [LinearOrder K] [IsStrictOrderedRing K]

theorem det3_neg (R : M3 K) : det3 (fun i j => - R i j) = - det3 R := by
  unfold det3; ring

end psym

end WB.C18
