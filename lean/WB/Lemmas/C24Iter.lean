/-
  C24 — the update loop: invariants of `Kpoint_and_neighbours.update` for any number of iterations.
  Kernel contracts (`Contracts`), validity of the static data (`Valid`), the three invariants (`Inv3`).
-/
import WB.Lemmas.C24Core
import Mathlib.Algebra.Star.BigOperators

namespace WB.C24
open Matrix

section
variable {K : Type} [Field K] [StarRing K]

/-- a model matrix (function on `Nat × Nat`) restricted to its `nb × nw` block -/
def toMat (nb nw : Nat) (f : Nat → Nat → K) : Matrix (Fin nb) (Fin nw) K := Matrix.of fun i j => f i.val j.val

/-- Hermitian on the `n × n` block -/
def HermFn (n : Nat) (Z : Nat → Nat → K) : Prop := ∀ i j, i < n → j < n → star (Z i j) = Z j i

/-- what the code relies on for the static data of a k-point (established by the mask logic, T1, and by the
    validity of the input: `#frozen ≤ num_wann ≤ #selected`, real b-vector weights) -/
structure Valid (d : KData K) : Prop where
  fz_nodup : d.fz.Nodup
  fr_nodup : d.fr.Nodup
  disj : ∀ b ∈ d.fz, b ∉ d.fr
  fz_lt : ∀ b ∈ d.fz, b < d.nb
  fr_lt : ∀ b ∈ d.fr, b < d.nb
  nfz_le : d.fz.length ≤ d.nw
  nw_le : d.nw - d.fz.length ≤ d.fr.length
  wb_real : ∀ ib, star (d.wb ib) = d.wb ib

/-- the named contracts of the numerical kernels.
    * `eig_orthonormal`  — `numpy.linalg.eigh` returns orthonormal eigenvectors of a Hermitian matrix, so any `nvec ≤ n`
      of its columns form an isometry (`get_max_eig`);
    * `polarSq_unitary`  — `orthogonalize` of a SQUARE matrix is `U @ VT` with both SVD factors unitary, hence unitary
      for EVERY argument, rank-deficient ones included (this is what `rotate_to_projections` and the localisation
      step rely on: they only ever orthogonalise square `num_wann × num_wann` matrices before multiplying by `E`);
    * `polarTall_fullrank` — `orthogonalize` of an `nb × nw` matrix of FULL COLUMN RANK (it has a left inverse) is an
      isometry `Q` with `Q·H = A`, `H` invertible (same column space).  Nothing is assumed for rank-deficient tall
      arguments: there the SVD completes the isometry with arbitrary vectors (see
      `rank_deficient_tall_polar_can_lose_frozen_state` in `Props/C24.lean`).
    `numpy.linalg.inv` needs no contract: its result is orthogonalised as a square matrix. -/
structure Contracts (ker : Kernels K) : Prop where
  eig_orthonormal : ∀ (n nvec : Nat) (Z : Nat → Nat → K), HermFn n Z → nvec ≤ n →
      (toMat n nvec (ker.eig n nvec Z))ᴴ * toMat n nvec (ker.eig n nvec Z) = 1
  polarSq_unitary : ∀ (n : Nat) (A : Nat → Nat → K),
      (toMat n n (ker.polarSq n A))ᴴ * toMat n n (ker.polarSq n A) = 1
  polarTall_fullrank : ∀ (nb nw : Nat) (A : Nat → Nat → K),
      (∃ L : Matrix (Fin nw) (Fin nb) K, L * toMat nb nw A = 1) →
      (toMat nb nw (ker.polarTall nb nw A))ᴴ * toMat nb nw (ker.polarTall nb nw A) = 1 ∧
      ∃ H H' : Matrix (Fin nw) (Fin nw) K,
        toMat nb nw (ker.polarTall nb nw A) * H = toMat nb nw A ∧ H * H' = 1

/-- the three invariants of the gauge at one k-point, for a matrix -/
structure Inv3M (d : KData K) (U : Matrix (Fin d.nb) (Fin d.nw) K) : Prop where
  iso : Uᴴ * U = 1
  span : ∀ f : Fin d.nb, f.val ∈ d.fz → (U * Uᴴ) *ᵥ Pi.single f (1 : K) = Pi.single f 1
  zero : ∀ b : Fin d.nb, b.val ∉ d.fz → b.val ∉ d.fr → ∀ w : Fin d.nw, U b w = 0

/-- … for a model matrix -/
def Inv3 (d : KData K) (U : Nat → Nat → K) : Prop := Inv3M d (toMat d.nb d.nw U)

/-! ### bridging the model's sums to matrices -/

omit [StarRing K] in
theorem toMat_matMulFn (nb n nw : Nat) (A B : Nat → Nat → K) :
    toMat nb nw (matMulFn n A B) = toMat nb n A * toMat n nw B := by
  ext i j
  simp only [toMat, Matrix.of_apply, matMulFn, sumTo_eq, Matrix.mul_apply]
  rw [Fin.sum_univ_eq_sum_range (fun l => A i.val l * B l j.val) n]

omit [Field K] [StarRing K] in
theorem selOf_iff (d : KData K) (b : Nat) : selOf d b = true ↔ (b ∈ d.fz ∨ b ∈ d.fr) := by
  unfold selOf
  simp

omit [StarRing K] in
theorem toMat_finalU (d : KData K) (Uf W : Nat → Nat → K) :
    toMat d.nb d.nw (finalU (selOf d) d.nw (embed d.fz d.fr Uf) W)
      = Emat d.fz d.fr Uf d.nb d.nw * toMat d.nw d.nw W := by
  ext b w
  simp only [toMat, Matrix.of_apply]
  unfold finalU
  by_cases hb : selOf d b.val = true
  · rw [if_pos hb, sumTo_eq, Matrix.mul_apply,
      ← Fin.sum_univ_eq_sum_range (fun j => embed d.fz d.fr Uf b.val j * W j w.val) d.nw]
    rfl
  · rw [if_neg hb]
    have hb' : b.val ∉ d.fz ∧ b.val ∉ d.fr := not_or.1 ((selOf_iff d b.val).not.1 hb)
    exact (Core.outer_zero d.fz d.fr Uf d.nb d.nw _ b hb'.1 hb'.2 w).symm

theorem star_sumTo (n : Nat) (f : Nat → K) : star (sumTo n f) = sumTo n (fun j => star (f j)) := by
  rw [sumTo_eq, sumTo_eq, star_sum]

omit [StarRing K] in
theorem sumTo_congr (n : Nat) (f g : Nat → K) (h : ∀ j, f j = g j) : sumTo n f = sumTo n g := by
  have : f = g := funext h
  rw [this]

/-! ### Hermiticity of the matrices handed to `eigh` -/

theorem zFree_herm (d : KData K) (hwb : ∀ ib, star (d.wb ib) = d.wb ib) (Unb : Nat → Nat → Nat → K) (i i' : Nat) :
    star (zFree star d Unb i i') = zFree star d Unb i' i := by
  unfold zFree
  rw [star_sumTo]
  apply sumTo_congr; intro ib
  rw [star_mul', hwb, star_sumTo]
  congr 1
  apply sumTo_congr; intro w
  rw [star_mul', star_star, mul_comm]

theorem zFrozen_herm (d : KData K) (hwb : ∀ ib, star (d.wb ib) = d.wb ib) (i i' : Nat) :
    star (zFrozen star d i i') = zFrozen star d i' i := by
  unfold zFrozen
  rw [star_sumTo]
  apply sumTo_congr; intro ib
  rw [star_mul', hwb, star_sumTo]
  congr 1
  apply sumTo_congr; intro j
  rw [star_mul', star_star, mul_comm]

/-- admissible mixing data: real coefficients and a Hermitian `Zold` -/
def MixOK (n : Nat) : Option (K × K × (Nat → Nat → K)) → Prop
  | some (m, om, Zold) => star m = m ∧ star om = om ∧ HermFn n Zold
  | none => True

theorem zMatrix_herm (d : KData K) (hwb : ∀ ib, star (d.wb ib) = d.wb ib)
    (mixing : Option (K × K × (Nat → Nat → K))) (hmix : MixOK d.fr.length mixing) (Unb : Nat → Nat → Nat → K) :
    HermFn d.fr.length (zMatrix star d mixing Unb) := by
  intro i j hi hj
  unfold zMatrix
  cases mixing with
  | none => simp only [star_add, zFree_herm d hwb, zFrozen_herm d hwb]
  | some t =>
    obtain ⟨m, om, Zold⟩ := t
    obtain ⟨h1, h2, h3⟩ := hmix
    simp only [star_add, star_mul', zFree_herm d hwb, zFrozen_herm d hwb, h1, h2, h3 i j hi hj]

theorem amn2_herm (d : KData K) : HermFn d.fr.length (amn2 star d) := by
  intro i j _ _
  unfold amn2
  rw [star_sumTo]
  apply sumTo_congr; intro w
  rw [star_mul', star_star, mul_comm]

/-! ### the invariants of `E·W` and of its polar factor, in the dimensions of the data -/

theorem Emat_isometry' (d : KData K) (hd : Valid d) (Uf : Nat → Nat → K)
    (hUf : (toMat d.fr.length (d.nw - d.fz.length) Uf)ᴴ * toMat d.fr.length (d.nw - d.fz.length) Uf = 1) :
    (Emat d.fz d.fr Uf d.nb d.nw)ᴴ * Emat d.fz d.fr Uf d.nb d.nw = 1 := by
  have hnw : d.nw = d.fz.length + (d.nw - d.fz.length) := by have := hd.nfz_le; omega
  have key : ∀ nw, nw = d.fz.length + (d.nw - d.fz.length) →
      (Emat d.fz d.fr Uf d.nb nw)ᴴ * Emat d.fz d.fr Uf d.nb nw = 1 := by
    intro nw h
    subst h
    exact Emat_isometry d.fz d.fr Uf d.nb (d.nw - d.fz.length) hd.fz_nodup hd.fr_nodup hd.disj hd.fz_lt hd.fr_lt hUf
  exact key d.nw hnw

theorem frozen_is_column (d : KData K) (hd : Valid d) (Uf : Nat → Nat → K) (f : Fin d.nb) (hf : f.val ∈ d.fz) :
    ∃ c : Fin d.nw → K, Pi.single f (1 : K) = Emat d.fz d.fr Uf d.nb d.nw *ᵥ c := by
  obtain ⟨j, hj, hjf⟩ := List.getElem_of_mem hf
  have hjw : j < d.nw := lt_of_lt_of_le hj hd.nfz_le
  refine ⟨Pi.single ⟨j, hjw⟩ 1, ?_⟩
  rw [← Core.frozen_unit_is_column d.fz d.fr Uf d.nb d.nw hd.fz_lt j hj hjw]
  congr 1
  exact Fin.ext hjf.symm

/-- `U = E·W`, `U_free` an isometry, `W` unitary ⇒ the three invariants -/
theorem inv3_EW (d : KData K) (hd : Valid d) (Uf : Nat → Nat → K)
    (hUf : (toMat d.fr.length (d.nw - d.fz.length) Uf)ᴴ * toMat d.fr.length (d.nw - d.fz.length) Uf = 1)
    (W : Matrix (Fin d.nw) (Fin d.nw) K) (hW : Wᴴ * W = 1) :
    Inv3M d (Emat d.fz d.fr Uf d.nb d.nw * W) := by
  have hE := Emat_isometry' d hd Uf hUf
  refine ⟨Core.isometry _ W hE hW, ?_, ?_⟩
  · intro f hf
    obtain ⟨c, hc⟩ := frozen_is_column d hd Uf f hf
    rw [hc]
    exact Core.projector_fixes_range _ W hE hW c
  · intro b h1 h2 w
    exact Core.outer_zero d.fz d.fr Uf d.nb d.nw W b h1 h2 w

/-- the polar factor `Q` of `E·W` (contract: `Q†Q = 1`, `Q·H = E·W`, `H` invertible; `W` invertible) keeps them -/
theorem inv3_polar (d : KData K) (hd : Valid d) (Uf : Nat → Nat → K)
    (W W' H H' : Matrix (Fin d.nw) (Fin d.nw) K) (Q : Matrix (Fin d.nb) (Fin d.nw) K)
    (hQ : Qᴴ * Q = 1) (hpolar : Q * H = Emat d.fz d.fr Uf d.nb d.nw * W) (hH : H * H' = 1) (hW : W * W' = 1) :
    Inv3M d Q := by
  have hQE : Q = Emat d.fz d.fr Uf d.nb d.nw * (W * H') := by
    rw [← Matrix.mul_assoc, ← hpolar, Matrix.mul_assoc, hH, Matrix.mul_one]
  have hEQ : Emat d.fz d.fr Uf d.nb d.nw = Q * (H * W') := by
    rw [← Matrix.mul_assoc, hpolar, Matrix.mul_assoc, hW, Matrix.mul_one]
  refine ⟨hQ, ?_, ?_⟩
  · intro f hf
    obtain ⟨c, hc⟩ := frozen_is_column d hd Uf f hf
    rw [hc]
    conv_lhs => rw [hEQ]
    conv_rhs => rw [hEQ]
    rw [mulVec_mulVec, ← Matrix.mul_assoc, Matrix.mul_assoc Q Qᴴ, hQ, Matrix.mul_one]
  · intro b h1 h2 w
    rw [hQE]
    exact Core.outer_zero d.fz d.fr Uf d.nb d.nw (W * H') b h1 h2 w

/-! ### one call of `rotate_to_projections`, one call of `update`, the initialisation -/

theorem rotateToProj_inv3 (ker : Kernels K) (hker : Contracts ker) (d : KData K) (hd : Valid d) (Uf : Nat → Nat → K)
    (hUf : (toMat d.fr.length (d.nw - d.fz.length) Uf)ᴴ * toMat d.fr.length (d.nw - d.fz.length) Uf = 1) :
    Inv3 d (rotateToProj ker star d Uf) := by
  unfold Inv3 rotateToProj
  simp only []
  rw [toMat_finalU]
  exact inv3_EW d hd Uf hUf _ (hker.polarSq_unitary d.nw _)

theorem updateK_inv3 (ker : Kernels K) (hker : Contracts ker) (d : KData K) (hd : Valid d) (localise : Bool)
    (mixing : Option (K × K × (Nat → Nat → K))) (hmix : MixOK d.fr.length mixing)
    (Unb : Nat → Nat → Nat → K) (phase : Nat → Nat → K) :
    Inv3 d (updateK ker star d localise mixing Unb phase).1 ∧
      HermFn d.fr.length (updateK ker star d localise mixing Unb phase).2 := by
  have hZ := zMatrix_herm d hd.wb_real mixing hmix Unb
  have hUf := hker.eig_orthonormal d.fr.length (d.nw - d.fz.length) (zMatrix star d mixing Unb) hZ hd.nw_le
  cases localise with
  | false =>
    refine ⟨?_, ?_⟩
    · show Inv3 d (rotateToProj ker star d (ker.eig d.fr.length (d.nw - d.fz.length) (zMatrix star d mixing Unb)))
      exact rotateToProj_inv3 ker hker d hd _ hUf
    · exact hZ
  | true =>
    refine ⟨?_, hZ⟩
    -- the matrices of the localisation branch
    set Uf := ker.eig d.fr.length (d.nw - d.fz.length) (zMatrix star d mixing Unb) with hUfdef
    set Wf := ker.polarSq d.nw (fun i j =>
      star (ker.inv d.nw (mlocSum star d (embed d.fz d.fr Uf) Unb phase) j i)) with hWdef
    show Inv3 d (ker.polarTall d.nb d.nw (matMulFn d.nw (embed d.fz d.fr Uf) Wf))
    have hW : (toMat d.nw d.nw Wf)ᴴ * toMat d.nw d.nw Wf = 1 := hker.polarSq_unitary d.nw _
    have hW' : toMat d.nw d.nw Wf * (toMat d.nw d.nw Wf)ᴴ = 1 := mul_eq_one_comm.1 hW
    have hE := Emat_isometry' d hd Uf hUf
    have hA : toMat d.nb d.nw (matMulFn d.nw (embed d.fz d.fr Uf) Wf)
        = Emat d.fz d.fr Uf d.nb d.nw * toMat d.nw d.nw Wf := toMat_matMulFn d.nb d.nw d.nw _ _
    -- `E·W` is an isometry, in particular of full column rank: the tall polar contract applies
    have hL : ∃ L : Matrix (Fin d.nw) (Fin d.nb) K,
        L * toMat d.nb d.nw (matMulFn d.nw (embed d.fz d.fr Uf) Wf) = 1 := by
      refine ⟨(toMat d.nw d.nw Wf)ᴴ * (Emat d.fz d.fr Uf d.nb d.nw)ᴴ, ?_⟩
      rw [hA, Matrix.mul_assoc, ← Matrix.mul_assoc (Emat d.fz d.fr Uf d.nb d.nw)ᴴ, hE, Matrix.one_mul, hW]
    obtain ⟨hQ, H, H', hQH, hHH⟩ := hker.polarTall_fullrank d.nb d.nw _ hL
    rw [hA] at hQH
    exact inv3_polar d hd Uf _ _ H H' _ hQ hQH hHH hW'

theorem initK_inv3 (ker : Kernels K) (hker : Contracts ker) (d : KData K) (hd : Valid d) :
    Inv3 d (initK ker star d) := by
  unfold initK
  exact rotateToProj_inv3 ker hker d hd _
    (hker.eig_orthonormal d.fr.length (d.nw - d.fz.length) _ (amn2_herm d) hd.nw_le)

/-! ### all iterations -/

/-- what is carried from sweep to sweep: the invariants, and a Hermitian `Zold` -/
def StateOK (d : Nat → KData K) (S : Nat → KState K) : Prop :=
  ∀ k, Inv3 (d k) (S k).U ∧ ∀ Z, (S k).Zold = some Z → HermFn (d k).fr.length Z

theorem initAll_ok (ker : Kernels K) (hker : Contracts ker) (d : Nat → KData K) (hd : ∀ k, Valid (d k)) :
    StateOK d (initAll ker star d) := by
  intro k
  refine ⟨initK_inv3 ker hker (d k) (hd k), ?_⟩
  intro Z hZ
  simp [initAll] at hZ

theorem stepAll_ok (ker : Kernels K) (hker : Contracts ker) (d : Nat → KData K) (hd : ∀ k, Valid (d k))
    (nbr : Nat → Nat → Nat) (localise : Bool) (mix : Option (K × K))
    (hmix : ∀ m om, mix = some (m, om) → star m = m ∧ star om = om)
    (phaseOf : (Nat → KState K) → Nat → Nat → Nat → K) (S : Nat → KState K) (hS : StateOK d S) :
    StateOK d (stepAll ker star d nbr localise mix phaseOf S) := by
  intro k
  -- the mixing data handed to `update` is admissible
  have hmixOK : MixOK (d k).fr.length
      (match mix, (S k).Zold with
        | some (m, om), some Zold => some (m, om, Zold)
        | _, _ => none) := by
    cases hm : mix with
    | none => simp [MixOK]
    | some t =>
      obtain ⟨m, om⟩ := t
      cases hz : (S k).Zold with
      | none => simp [MixOK]
      | some Zold =>
        have := hmix m om hm
        exact ⟨this.1, this.2, (hS k).2 Zold hz⟩
  have h := updateK_inv3 ker hker (d k) (hd k) localise _ hmixOK (fun ib => (S (nbr k ib)).U) (phaseOf S k)
  refine ⟨h.1, ?_⟩
  intro Z hZ
  simp only [stepAll, Option.some.injEq] at hZ
  rw [← hZ]
  exact h.2

end

end WB.C24
