/-
  C06: the pieces of an edge split tile the parent tetrahedron (barycentric coordinates over ℚ).
-/
import WB.Lemmas.C06Tetra
import Mathlib.Data.Rat.Floor
import Mathlib.Tactic.Linarith
import Mathlib.Tactic.Ring
import Mathlib.Tactic.FieldSimp
import Mathlib.Tactic.LinearCombination
import Mathlib.Tactic.Positivity

namespace WB.C06

abbrev Quad := V3 × V3 × V3 × V3

/-- piece `i` of the split of edge (a, b) = (third, fourth vertex) into `n` parts -/
def pieceQ (q : Quad) (n i : Nat) : Quad :=
  (q.1, q.2.1,
   q.2.2.1.add (V3.smul (i : Rat) (V3.smul (1 / (n : Rat)) (q.2.2.2.sub q.2.2.1))),
   q.2.2.1.add (V3.smul ((i : Rat) + 1) (V3.smul (1 / (n : Rat)) (q.2.2.2.sub q.2.2.1))))

/-- where along the edge does the point sit: piece `i` with `i s ≤ n δ ≤ (i+1) s` -/
theorem choose_piece (s δ : Rat) (n : Nat) (hn : 0 < n) (h0 : 0 ≤ δ) (h1 : δ ≤ s) :
    ∃ i : Nat, i < n ∧ (i : Rat) * s ≤ n * δ ∧ (n : Rat) * δ ≤ ((i : Rat) + 1) * s := by
  have hn' : (0 : Rat) < n := by exact_mod_cast hn
  by_cases hs : s = 0
  · refine ⟨0, hn, ?_, ?_⟩
    · have : δ = 0 := by linarith
      simp [this]
    · have : δ = 0 := by linarith
      simp [this, hs]
  have hs' : 0 < s := lt_of_le_of_ne (le_trans h0 h1) (Ne.symm hs)
  by_cases hq : δ = s
  · refine ⟨n - 1, by omega, ?_, ?_⟩
    · have : ((n - 1 : Nat) : Rat) = (n : Rat) - 1 := by
        rw [Nat.cast_sub (by omega)]; simp
      rw [this, hq]; nlinarith
    · have : ((n - 1 : Nat) : Rat) = (n : Rat) - 1 := by
        rw [Nat.cast_sub (by omega)]; simp
      rw [this, hq]; linarith
  have hlt : δ < s := lt_of_le_of_ne h1 hq
  obtain ⟨t, ht⟩ : ∃ t : Rat, t = n * δ / s := ⟨_, rfl⟩
  have hts : t * s = n * δ := by rw [ht]; field_simp
  have ht0 : 0 ≤ t := by rw [ht]; positivity
  have htn : t < n := by
    rw [ht, div_lt_iff₀ hs']
    exact mul_lt_mul_of_pos_left hlt hn'
  have hfl0 : 0 ≤ ⌊t⌋ := Int.floor_nonneg.mpr ht0
  have hx : ((⌊t⌋.toNat : Nat) : Rat) = (⌊t⌋ : Rat) := by
    have : ((⌊t⌋.toNat : Nat) : Int) = ⌊t⌋ := Int.toNat_of_nonneg hfl0
    exact_mod_cast this
  have f1 : (⌊t⌋ : Rat) ≤ t := Int.floor_le t
  have f2 : t < (⌊t⌋ : Rat) + 1 := Int.lt_floor_add_one t
  refine ⟨⌊t⌋.toNat, ?_, ?_, ?_⟩
  · have : ((⌊t⌋.toNat : Nat) : Rat) < n := by rw [hx]; linarith
    exact_mod_cast this
  · rw [hx, ← hts]; exact mul_le_mul_of_nonneg_right f1 hs'.le
  · rw [hx, ← hts]; exact mul_le_mul_of_nonneg_right f2.le hs'.le

/-- every point of the parent lies in some piece -/
theorem pieces_cover (q : Quad) (n : Nat) (hn : 0 < n) (p : V3) (h : inTetClosed q p) :
    ∃ i, i < n ∧ inTetClosed (pieceQ q n i) p := by
  obtain ⟨α, β, γ, δ, hα, hβ, hγ, hδ, hs, ex, ey, ez⟩ := h
  have hn' : (n : Rat) ≠ 0 := by exact_mod_cast hn.ne'
  obtain ⟨i, hi, l1, l2⟩ := choose_piece (γ + δ) δ n hn hδ (by linarith)
  refine ⟨i, hi, α, β, ((i : Rat) + 1) * (γ + δ) - n * δ, n * δ - i * (γ + δ), hα, hβ, by linarith, by linarith,
    by linarith, ?_, ?_, ?_⟩
  · rw [ex]; simp only [pieceQ, V3.add, V3.smul, V3.sub]; field_simp; ring
  · rw [ey]; simp only [pieceQ, V3.add, V3.smul, V3.sub]; field_simp; ring
  · rw [ez]; simp only [pieceQ, V3.add, V3.smul, V3.sub]; field_simp; ring

/-- coordinates of a point of piece `i` with respect to the parent -/
def gammaOf (n i : Nat) (L M : Rat) : Rat := L * (1 - (i : Rat) / n) + M * (1 - ((i : Rat) + 1) / n)
def deltaOf (n i : Nat) (L M : Rat) : Rat := L * ((i : Rat) / n) + M * (((i : Rat) + 1) / n)

theorem piece_to_parent (q : Quad) (n i : Nat) (hn : 0 < n) (p : V3) (α β L M : Rat)
    (hs : α + β + L + M = 1)
    (ex : p.x = α * (pieceQ q n i).1.x + β * (pieceQ q n i).2.1.x + L * (pieceQ q n i).2.2.1.x + M * (pieceQ q n i).2.2.2.x)
    (ey : p.y = α * (pieceQ q n i).1.y + β * (pieceQ q n i).2.1.y + L * (pieceQ q n i).2.2.1.y + M * (pieceQ q n i).2.2.2.y)
    (ez : p.z = α * (pieceQ q n i).1.z + β * (pieceQ q n i).2.1.z + L * (pieceQ q n i).2.2.1.z + M * (pieceQ q n i).2.2.2.z) :
    α + β + gammaOf n i L M + deltaOf n i L M = 1 ∧ gammaOf n i L M + deltaOf n i L M = L + M ∧
    (n : Rat) * deltaOf n i L M = i * (L + M) + M ∧
    p.x = α * q.1.x + β * q.2.1.x + gammaOf n i L M * q.2.2.1.x + deltaOf n i L M * q.2.2.2.x ∧
    p.y = α * q.1.y + β * q.2.1.y + gammaOf n i L M * q.2.2.1.y + deltaOf n i L M * q.2.2.2.y ∧
    p.z = α * q.1.z + β * q.2.1.z + gammaOf n i L M * q.2.2.1.z + deltaOf n i L M * q.2.2.2.z := by
  have hn' : (n : Rat) ≠ 0 := by exact_mod_cast hn.ne'
  simp only [pieceQ, V3.add, V3.smul, V3.sub] at ex ey ez
  unfold gammaOf deltaOf
  have e0 : L * (1 - (i : Rat) / n) + M * (1 - ((i : Rat) + 1) / n) + (L * ((i : Rat) / n) + M * (((i : Rat) + 1) / n)) = L + M := by
    ring
  refine ⟨by linarith, e0, by field_simp; ring, ?_, ?_, ?_⟩
  · rw [ex]; field_simp; ring
  · rw [ey]; field_simp; ring
  · rw [ez]; field_simp; ring

/-- every piece lies inside the parent -/
theorem piece_inside (q : Quad) (n i : Nat) (hn : 0 < n) (hi : i < n) (p : V3) (h : inTetClosed (pieceQ q n i) p) :
    inTetClosed q p := by
  obtain ⟨α, β, L, M, hα, hβ, hL, hM, hs, ex, ey, ez⟩ := h
  obtain ⟨s1, _, _, x, y, z⟩ := piece_to_parent q n i hn p α β L M hs ex ey ez
  have hn' : (0 : Rat) < n := by exact_mod_cast hn
  have hi1 : ((i : Rat) + 1) / n ≤ 1 := by
    rw [div_le_one hn']; exact_mod_cast hi
  have hi0 : (0 : Rat) ≤ (i : Rat) / n := by positivity
  have hi2 : (i : Rat) / n ≤ 1 := by
    have : (i : Rat) / n ≤ ((i : Rat) + 1) / n := by
      apply div_le_div_of_nonneg_right _ hn'.le; linarith
    linarith
  have hi3 : (0 : Rat) ≤ ((i : Rat) + 1) / n := by positivity
  refine ⟨α, β, gammaOf n i L M, deltaOf n i L M, hα, hβ, ?_, ?_, s1, x, y, z⟩
  · unfold gammaOf
    have a := mul_nonneg hL (by linarith : (0 : Rat) ≤ 1 - (i : Rat) / n)
    have b := mul_nonneg hM (by linarith : (0 : Rat) ≤ 1 - ((i : Rat) + 1) / n)
    linarith
  · unfold deltaOf
    have a := mul_nonneg hL hi0
    have b := mul_nonneg hM hi3
    linarith

/-- barycentric coordinates with respect to a non-degenerate tetrahedron are unique -/
theorem bary_unique (q : Quad) (hdet : det3 (q.2.1.sub q.1) (q.2.2.1.sub q.1) (q.2.2.2.sub q.1) ≠ 0) (p : V3)
    (a1 b1 c1 d1 a2 b2 c2 d2 : Rat) (hs1 : a1 + b1 + c1 + d1 = 1) (hs2 : a2 + b2 + c2 + d2 = 1)
    (x1 : p.x = a1 * q.1.x + b1 * q.2.1.x + c1 * q.2.2.1.x + d1 * q.2.2.2.x)
    (y1 : p.y = a1 * q.1.y + b1 * q.2.1.y + c1 * q.2.2.1.y + d1 * q.2.2.2.y)
    (z1 : p.z = a1 * q.1.z + b1 * q.2.1.z + c1 * q.2.2.1.z + d1 * q.2.2.2.z)
    (x2 : p.x = a2 * q.1.x + b2 * q.2.1.x + c2 * q.2.2.1.x + d2 * q.2.2.2.x)
    (y2 : p.y = a2 * q.1.y + b2 * q.2.1.y + c2 * q.2.2.1.y + d2 * q.2.2.2.y)
    (z2 : p.z = a2 * q.1.z + b2 * q.2.1.z + c2 * q.2.2.1.z + d2 * q.2.2.2.z) :
    b1 = b2 ∧ c1 = c2 ∧ d1 = d2 := by
  obtain ⟨v0, v1, v2, v3⟩ := q
  try simp only at hdet x1 y1 z1 x2 y2 z2
  have Ex : (b1 - b2) * (v1.x - v0.x) + (c1 - c2) * (v2.x - v0.x) + (d1 - d2) * (v3.x - v0.x) = 0 := by
    linear_combination (-1 : Rat) * x1 + x2 - v0.x * (hs1 - hs2)
  have Ey : (b1 - b2) * (v1.y - v0.y) + (c1 - c2) * (v2.y - v0.y) + (d1 - d2) * (v3.y - v0.y) = 0 := by
    linear_combination (-1 : Rat) * y1 + y2 - v0.y * (hs1 - hs2)
  have Ez : (b1 - b2) * (v1.z - v0.z) + (c1 - c2) * (v2.z - v0.z) + (d1 - d2) * (v3.z - v0.z) = 0 := by
    linear_combination (-1 : Rat) * z1 + z2 - v0.z * (hs1 - hs2)
  unfold det3 V3.sub at hdet
  simp only at hdet
  have hb : (b1 - b2) * ((v1.x - v0.x) * ((v2.y - v0.y) * (v3.z - v0.z) - (v2.z - v0.z) * (v3.y - v0.y)) -
      (v1.y - v0.y) * ((v2.x - v0.x) * (v3.z - v0.z) - (v2.z - v0.z) * (v3.x - v0.x)) +
      (v1.z - v0.z) * ((v2.x - v0.x) * (v3.y - v0.y) - (v2.y - v0.y) * (v3.x - v0.x))) = 0 := by
    linear_combination ((v2.y - v0.y) * (v3.z - v0.z) - (v2.z - v0.z) * (v3.y - v0.y)) * Ex -
      ((v2.x - v0.x) * (v3.z - v0.z) - (v2.z - v0.z) * (v3.x - v0.x)) * Ey +
      ((v2.x - v0.x) * (v3.y - v0.y) - (v2.y - v0.y) * (v3.x - v0.x)) * Ez
  have hc : (c1 - c2) * ((v1.x - v0.x) * ((v2.y - v0.y) * (v3.z - v0.z) - (v2.z - v0.z) * (v3.y - v0.y)) -
      (v1.y - v0.y) * ((v2.x - v0.x) * (v3.z - v0.z) - (v2.z - v0.z) * (v3.x - v0.x)) +
      (v1.z - v0.z) * ((v2.x - v0.x) * (v3.y - v0.y) - (v2.y - v0.y) * (v3.x - v0.x))) = 0 := by
    linear_combination (-((v1.y - v0.y) * (v3.z - v0.z) - (v1.z - v0.z) * (v3.y - v0.y))) * Ex +
      ((v1.x - v0.x) * (v3.z - v0.z) - (v1.z - v0.z) * (v3.x - v0.x)) * Ey -
      ((v1.x - v0.x) * (v3.y - v0.y) - (v1.y - v0.y) * (v3.x - v0.x)) * Ez
  have hd : (d1 - d2) * ((v1.x - v0.x) * ((v2.y - v0.y) * (v3.z - v0.z) - (v2.z - v0.z) * (v3.y - v0.y)) -
      (v1.y - v0.y) * ((v2.x - v0.x) * (v3.z - v0.z) - (v2.z - v0.z) * (v3.x - v0.x)) +
      (v1.z - v0.z) * ((v2.x - v0.x) * (v3.y - v0.y) - (v2.y - v0.y) * (v3.x - v0.x))) = 0 := by
    linear_combination ((v1.y - v0.y) * (v2.z - v0.z) - (v1.z - v0.z) * (v2.y - v0.y)) * Ex -
      ((v1.x - v0.x) * (v2.z - v0.z) - (v1.z - v0.z) * (v2.x - v0.x)) * Ey +
      ((v1.x - v0.x) * (v2.y - v0.y) - (v1.y - v0.y) * (v2.x - v0.x)) * Ez
  refine ⟨?_, ?_, ?_⟩
  · exact sub_eq_zero.mp ((mul_eq_zero.mp hb).resolve_right hdet)
  · exact sub_eq_zero.mp ((mul_eq_zero.mp hc).resolve_right hdet)
  · exact sub_eq_zero.mp ((mul_eq_zero.mp hd).resolve_right hdet)

/-- two different pieces of a non-degenerate tetrahedron have no common interior point -/
theorem pieces_disjoint (q : Quad) (hdet : det3 (q.2.1.sub q.1) (q.2.2.1.sub q.1) (q.2.2.2.sub q.1) ≠ 0)
    (n i j : Nat) (hn : 0 < n) (hij : i < j) (p : V3)
    (h1 : inTetOpen (pieceQ q n i) p) (h2 : inTetOpen (pieceQ q n j) p) : False := by
  obtain ⟨α, β, L, M, _, _, hL, hM, hs, ex, ey, ez⟩ := h1
  obtain ⟨α', β', L', M', _, _, hL', hM', hs', ex', ey', ez'⟩ := h2
  obtain ⟨s1, g1, d1, x1, y1, z1⟩ := piece_to_parent q n i hn p α β L M hs ex ey ez
  obtain ⟨s2, g2, d2, x2, y2, z2⟩ := piece_to_parent q n j hn p α' β' L' M' hs' ex' ey' ez'
  obtain ⟨_, hc, hd⟩ := bary_unique q hdet p α β (gammaOf n i L M) (deltaOf n i L M) α' β' (gammaOf n j L' M')
    (deltaOf n j L' M') s1 s2 x1 y1 z1 x2 y2 z2
  -- same total weight on the edge and same position along it
  have hsum : L + M = L' + M' := by rw [← g1, ← g2, hc, hd]
  have hpos : (i : Rat) * (L + M) + M = j * (L' + M') + M' := by rw [← d1, ← d2, hd]
  have hij' : (i : Rat) + 1 ≤ j := by exact_mod_cast hij
  have h3 : ((i : Rat) + 1) * (L + M) ≤ j * (L + M) := mul_le_mul_of_nonneg_right hij' (by linarith)
  rw [← hsum] at hpos
  have h4 : ((i : Rat) + 1) * (L + M) = i * (L + M) + (L + M) := by ring
  linarith

theorem absR_eq_zero (r : Rat) : absR r = 0 ↔ r = 0 := by
  unfold absR
  constructor
  · intro h; split at h <;> linarith
  · intro h; rw [h]; simp

/-! ### the vertex order used by `divideTet` -/

/-- the parent's vertices in the order (off-edge, off-edge, edge start, edge end) of edge `e` -/
def quadOf (t : Tet) (e : Nat) : Quad :=
  (t.vert (edgeComp e).1, t.vert (edgeComp e).2, t.vert (edgeEnds e).1, t.vert (edgeEnds e).2)

theorem quadOf_closed (t : Tet) (e : Nat) (p : V3) :
    inTetClosed (t.v0, t.v1, t.v2, t.v3) p ↔ inTetClosed (quadOf t e) p := by
  unfold inTetClosed quadOf
  rcases e with _ | _ | _ | _ | _ | e <;> simp only [edgeEnds, edgeComp, Tet.vert] <;> constructor <;>
    rintro ⟨a, b, c, d, ha, hb, hc, hd, hs, hx, hy, hz⟩
  · exact ⟨c, d, a, b, hc, hd, ha, hb, by linarith, by linarith, by linarith, by linarith⟩
  · exact ⟨c, d, a, b, hc, hd, ha, hb, by linarith, by linarith, by linarith, by linarith⟩
  · exact ⟨b, d, a, c, hb, hd, ha, hc, by linarith, by linarith, by linarith, by linarith⟩
  · exact ⟨c, a, d, b, hc, ha, hd, hb, by linarith, by linarith, by linarith, by linarith⟩
  · exact ⟨b, c, a, d, hb, hc, ha, hd, by linarith, by linarith, by linarith, by linarith⟩
  · exact ⟨c, a, b, d, hc, ha, hb, hd, by linarith, by linarith, by linarith, by linarith⟩
  · exact ⟨a, d, b, c, ha, hd, hb, hc, by linarith, by linarith, by linarith, by linarith⟩
  · exact ⟨a, c, d, b, ha, hc, hd, hb, by linarith, by linarith, by linarith, by linarith⟩
  · exact ⟨a, c, b, d, ha, hc, hb, hd, by linarith, by linarith, by linarith, by linarith⟩
  · exact ⟨a, c, b, d, ha, hc, hb, hd, by linarith, by linarith, by linarith, by linarith⟩

/-- the determinant in the edge's vertex order is ± the determinant of the parent -/
theorem quadOf_det (t : Tet) (e : Nat) :
    det3 ((quadOf t e).2.1.sub (quadOf t e).1) ((quadOf t e).2.2.1.sub (quadOf t e).1)
        ((quadOf t e).2.2.2.sub (quadOf t e).1) = det3 (t.v1.sub t.v0) (t.v2.sub t.v0) (t.v3.sub t.v0) ∨
    det3 ((quadOf t e).2.1.sub (quadOf t e).1) ((quadOf t e).2.2.1.sub (quadOf t e).1)
        ((quadOf t e).2.2.2.sub (quadOf t e).1) = -det3 (t.v1.sub t.v0) (t.v2.sub t.v0) (t.v3.sub t.v0) := by
  rcases e with _ | _ | _ | _ | _ | e <;> simp only [quadOf, edgeEnds, edgeComp, Tet.vert, det3, V3.sub]
  · left; ring1
  · right; ring1
  · left; ring1
  · left; ring1
  · right; ring1
  · exact Or.inl trivial

end WB.C06
