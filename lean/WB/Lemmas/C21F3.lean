/-
  C21 helper lemmas, f shell: transfer from the integer basis `g` to the code's normalised orbitals `f_i = g_i / n_i`
  (`n = (2√15, 2√10, 2√10, 2, 1, 2√6, 2√6)`):  `rotF j i = n_j · rotG j i / n_i`.
-/
import WB.Lemmas.C21F2b
import Mathlib.Algebra.BigOperators.Fin

namespace WB.C21

variable {K : Type} [Field K] [CharZero K] {r15 r10 r6 : K}

/-- `r15 = √15`, `r10 = √10`, `r6 = √6` -/
structure FConst (r15 r10 r6 : K) : Prop where
  h15 : r15 * r15 = 15
  h10 : r10 * r10 = 10
  h6 : r6 * r6 = 6

omit [CharZero K] in
theorem sq_ne_zero_of {x c : K} (h : x * x = c) (hc : c ≠ 0) : x ≠ 0 := by
  intro h0; rw [h0, zero_mul] at h; exact hc h.symm

theorem nF_ne (h : FConst r15 r10 r6) (i : Fin 7) : nF r15 r10 r6 i ≠ 0 := by
  have a := sq_ne_zero_of h.h15 (by norm_num)
  have b := sq_ne_zero_of h.h10 (by norm_num)
  have c := sq_ne_zero_of h.h6 (by norm_num)
  have two : (2 : K) ≠ 0 := by norm_num
  fin_cases i <;> simp [nF] <;> assumption

/-- `n_i² w_i = 1` -/
theorem nF_sq (h : FConst r15 r10 r6) (i : Fin 7) : nF r15 r10 r6 i * nF r15 r10 r6 i * wF i = 1 := by
  have a := h.h15; have b := h.h10; have c := h.h6
  fin_cases i <;> simp [nF, wF]
  · linear_combination (4 / 60 : K) * a
  · linear_combination (4 / 40 : K) * b
  · linear_combination (4 / 40 : K) * b
  · norm_num
  · linear_combination (4 / 24 : K) * c
  · linear_combination (4 / 24 : K) * c

omit [CharZero K] in
theorem substCub_map_div (n : K) (S : M3 K) (b d f : Fin 3) : ∀ q : Cub K,
    substCub (q.map (fun m => (m.1 / n, m.2))) S b d f = substCub q S b d f / n
  | [] => by simp [substCub]
  | m :: q => by
    have ih := substCub_map_div n S b d f q
    simp only [substCub, List.map_cons, List.foldr_cons] at ih ⊢
    rw [ih]; ring

omit [CharZero K] in
theorem evalCub_map_div (n : K) (v : V3 K) : ∀ q : Cub K,
    evalCub (q.map (fun m => (m.1 / n, m.2))) v = evalCub q v / n
  | [] => by simp [evalCub]
  | m :: q => by
    have ih := evalCub_map_div n v q
    simp only [evalCub, List.map_cons, List.foldr_cons] at ih ⊢
    rw [ih]; ring

omit [CharZero K] in
theorem substCub_fCub (i : Fin 7) (S : M3 K) (b d f : Fin 3) :
    substCub (fCub r15 r10 r6 i) S b d f = substCub (gCub i) S b d f / nF r15 r10 r6 i :=
  substCub_map_div _ S b d f _

omit [CharZero K] in
theorem fFun_eq (i : Fin 7) (v : V3 K) : fFun r15 r10 r6 i v = gFun i v / nF r15 r10 r6 i :=
  evalCub_map_div _ v _

theorem rotF_eq (S : M3 K) (j i : Fin 7) :
    rotF r15 r10 r6 S j i = nF r15 r10 r6 j * rotG S j i / nF r15 r10 r6 i := by
  have e0 : rotF r15 r10 r6 S 0 i = coefZZZ (substCub (fCub r15 r10 r6 i) S) * r15 := rfl
  have e1 : rotF r15 r10 r6 S 1 i = coefXZZ (substCub (fCub r15 r10 r6 i) S) * r10 / 2 := rfl
  have e2 : rotF r15 r10 r6 S 2 i = coefYZZ (substCub (fCub r15 r10 r6 i) S) * r10 / 2 := rfl
  have e3 : rotF r15 r10 r6 S 3 i = 2 * coefZXX (substCub (fCub r15 r10 r6 i) S)
      + 3 * coefZZZ (substCub (fCub r15 r10 r6 i) S) := rfl
  have e4 : rotF r15 r10 r6 S 4 i = coefXYZ (substCub (fCub r15 r10 r6 i) S) := rfl
  have e5 : rotF r15 r10 r6 S 5 i = (2 * coefXXX (substCub (fCub r15 r10 r6 i) S)
      + coefXZZ (substCub (fCub r15 r10 r6 i) S) / 2) * r6 := rfl
  have e6 : rotF r15 r10 r6 S 6 i = (-(2 * coefYYY (substCub (fCub r15 r10 r6 i) S))
      - coefYZZ (substCub (fCub r15 r10 r6 i) S) / 2) * r6 := rfl
  have n0 : nF r15 r10 r6 0 = 2 * r15 := rfl
  have n1 : nF r15 r10 r6 1 = 2 * r10 := rfl
  have n2 : nF r15 r10 r6 2 = 2 * r10 := rfl
  have n3 : nF r15 r10 r6 3 = 2 := rfl
  have n4 : nF r15 r10 r6 4 = 1 := rfl
  have n5 : nF r15 r10 r6 5 = 2 * r6 := rfl
  have n6 : nF r15 r10 r6 6 = 2 * r6 := rfl
  fin_cases j <;>
    simp only [Fin.zero_eta, Fin.mk_one, Fin.reduceFinMk, Fin.isValue, e0, e1, e2, e3, e4, e5, e6, n0, n1, n2, n3, n4, n5,
      n6, rotG_0, rotG_1, rotG_2, rotG_3, rotG_4, rotG_5, rotG_6, coefZZZ, coefXZZ, coefYZZ, coefZXX, coefXYZ, coefXXX,
      coefYYY, substCub_fCub] <;> ring

/-! ### the five statements for the code's matrix -/

theorem rotF_expand (h : FConst r15 r10 r6) (S : M3 K) (hS : Orth3 S) (i : Fin 7) (v : V3 K) :
    fFun r15 r10 r6 i (mulVec3 S v) = sum7 (fun j => fFun r15 r10 r6 j v * rotF r15 r10 r6 S j i) := by
  have t : ∀ j, fFun r15 r10 r6 j v * rotF r15 r10 r6 S j i = gFun j v * rotG S j i / nF r15 r10 r6 i := by
    intro j
    have := nF_ne h j
    have := nF_ne h i
    rw [fFun_eq, rotF_eq]; field_simp
  rw [fFun_eq, gFun_expand S hS]
  simp only [sum7, t]
  ring

theorem rotF_comp (h : FConst r15 r10 r6) (S1 S2 : M3 K) (h1 : Orth3 S1) (h2 : Orth3 S2) (l i : Fin 7) :
    rotF r15 r10 r6 (mulM3 S2 S1) l i = sum7 (fun j => rotF r15 r10 r6 S1 l j * rotF r15 r10 r6 S2 j i) := by
  have t : ∀ j, rotF r15 r10 r6 S1 l j * rotF r15 r10 r6 S2 j i
      = nF r15 r10 r6 l * (rotG S1 l j * rotG S2 j i) / nF r15 r10 r6 i := by
    intro j
    have := nF_ne h j
    have := nF_ne h i
    rw [rotF_eq, rotF_eq]; field_simp
  rw [rotF_eq, rotG_comp S1 S2 h1 h2]
  simp only [sum7, t]
  ring

theorem rotF_one (h : FConst r15 r10 r6) (j i : Fin 7) :
    rotF r15 r10 r6 (one3 : M3 K) j i = if j = i then 1 else 0 := by
  rw [rotF_eq, rotG_one]
  by_cases hji : j = i
  · subst hji; simp [nF_ne h j]
  · simp [hji]

omit [CharZero K] in
theorem rotF_neg (S : M3 K) (j i : Fin 7) :
    rotF r15 r10 r6 (fun a c => -S a c) j i = -rotF r15 r10 r6 S j i := by
  have e : ∀ (q : Cub K), substCub q (fun a c => -S a c) = fun b d f => -substCub q S b d f := by
    intro q; funext b d f; exact substCub_neg S b d f q
  have hrow : ∀ q : Fin 3 → Fin 3 → Fin 3 → K, (coefZZZ (fun b d f => -q b d f) = -coefZZZ q) ∧ (coefXZZ (fun b d f => -q b d f) = -coefXZZ q)
      ∧ (coefYZZ (fun b d f => -q b d f) = -coefYZZ q) ∧ (coefZXX (fun b d f => -q b d f) = -coefZXX q)
      ∧ (coefXYZ (fun b d f => -q b d f) = -coefXYZ q) ∧ (coefXXX (fun b d f => -q b d f) = -coefXXX q)
      ∧ (coefYYY (fun b d f => -q b d f) = -coefYYY q) := by
    intro q
    refine ⟨rfl, ?_, ?_, ?_, ?_, rfl, rfl⟩ <;> simp only [coefXZZ, coefYZZ, coefZXX, coefXYZ] <;> ring
  obtain ⟨a0, a1, a2, a3, a4, a5, a6⟩ := hrow (substCub (fCub r15 r10 r6 i) S)
  fin_cases j <;> simp only [rotF, e, a0, a1, a2, a3, a4, a5, a6] <;> ring

/-- rows: `A Aᵀ = 1` -/
theorem rotF_rows (h : FConst r15 r10 r6) (S : M3 K) (hS : Orth3 S) (i i' : Fin 7) :
    sum7 (fun j => rotF r15 r10 r6 S i j * rotF r15 r10 r6 S i' j) = if i = i' then 1 else 0 := by
  have t : ∀ j, rotF r15 r10 r6 S i j * rotF r15 r10 r6 S i' j
      = nF r15 r10 r6 i * nF r15 r10 r6 i' * (wF j * rotG S i j * rotG S i' j) := by
    intro j
    have hj := nF_ne h j
    have hw : wF j = 1 / (nF r15 r10 r6 j * nF r15 r10 r6 j) := by
      field_simp; linear_combination nF_sq h j
    rw [rotF_eq, rotF_eq, hw]; field_simp
  have hw := rotG_weighted S hS i i'
  simp only [sum7] at hw
  simp only [sum7, t]
  by_cases hii : i = i'
  · subst hii
    rw [if_pos rfl] at hw ⊢
    linear_combination (nF r15 r10 r6 i * nF r15 r10 r6 i) * hw + nF_sq h i
  · rw [if_neg hii] at hw ⊢
    linear_combination (nF r15 r10 r6 i * nF r15 r10 r6 i') * hw

/-- columns: `Aᵀ A = 1` -/
theorem rotF_cols (h : FConst r15 r10 r6) (S : M3 K) (hS : Orth3 S) (i i' : Fin 7) :
    sum7 (fun j => rotF r15 r10 r6 S j i * rotF r15 r10 r6 S j i') = if i = i' then 1 else 0 := by
  let A : Matrix (Fin 7) (Fin 7) K := Matrix.of (rotF r15 r10 r6 S)
  have h1 : A * A.transpose = 1 := by
    ext a c
    rw [Matrix.mul_apply, Fin.sum_univ_seven]
    have := rotF_rows h S hS a c
    simp only [sum7] at this
    simpa [A, Matrix.one_apply] using this
  have h2 : A.transpose * A = 1 := mul_eq_one_comm.1 h1
  have := congrFun (congrFun h2 i) i'
  rw [Matrix.mul_apply, Fin.sum_univ_seven] at this
  simp only [A, Matrix.transpose_apply, Matrix.of_apply, Matrix.one_apply] at this
  simp only [sum7]
  exact this

end WB.C21
