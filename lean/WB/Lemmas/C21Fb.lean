/-
  C21 helper lemmas, f shell: expansion identities g_i(S v) = Σ_j g_j(v) B_ji(S) for orthogonal S, part 2
  (cofactors computed offline with sympy, see WB/Lemmas/C21F.lean).
-/
import WB.Lemmas.C21F

namespace WB.C21

variable {K : Type} [Field K] [CharZero K]

theorem gFun_expand_3 (S : M3 K) (hS : Orth3 S) (v : V3 K) :
    gFun 3 (mulVec3 S v) = sum7 (fun j => gFun j v * rotG S j 3) := by
  have h00 := hS 0 0; have h11 := hS 1 1; have h22 := hS 2 2
  have h01 := hS 0 1; have h02 := hS 0 2; have h12 := hS 1 2
  simp only [sum3, Fin.isValue, ↓reduceIte, show (0 : Fin 3) ≠ 1 from by decide, show (0 : Fin 3) ≠ 2 from by decide,
    show (1 : Fin 3) ≠ 2 from by decide] at h00 h11 h22 h01 h02 h12
  simp only [sum7, rotG_0, rotG_1, rotG_2, rotG_3, rotG_4, rotG_5, rotG_6, gFun_0, gFun_1, gFun_2, gFun_3, gFun_4, gFun_5, gFun_6, coefZZZ, coefXZZ, coefYZZ, coefZXX,
    coefXYZ, coefXXX, coefYYY, substCub_g3, mulVec3, sum3, Fin.isValue, Fin.val_zero, Fin.val_one, Fin.val_two,
    Fin.reduceFinMk]
  linear_combination ((1 : K) * S 2 0 * v 0 * v 1 * v 1 + (1 : K) * S 2 1 * v 1 * v 0 * v 0 + (1 : K) * S 2 2 * v 2 * v 1 * v 1) * h00 + ((2 : K) * S 0 0 * v 0 * v 1 * v 1 + (2 : K) * S 0 1 * v 1 * v 0 * v 0 + (2 : K) * S 0 2 * v 2 * v 1 * v 1) * h02 + ((-1 : K) * S 2 0 * v 0 * v 1 * v 1 + (-1 : K) * S 2 1 * v 1 * v 0 * v 0 + (-1 : K) * S 2 2 * v 2 * v 1 * v 1) * h11 + ((-2 : K) * S 1 0 * v 0 * v 1 * v 1 + (-2 : K) * S 1 1 * v 1 * v 0 * v 0 + (-2 : K) * S 1 2 * v 2 * v 1 * v 1) * h12

theorem gFun_expand_4 (S : M3 K) (hS : Orth3 S) (v : V3 K) :
    gFun 4 (mulVec3 S v) = sum7 (fun j => gFun j v * rotG S j 4) := by
  have h00 := hS 0 0; have h11 := hS 1 1; have h22 := hS 2 2
  have h01 := hS 0 1; have h02 := hS 0 2; have h12 := hS 1 2
  simp only [sum3, Fin.isValue, ↓reduceIte, show (0 : Fin 3) ≠ 1 from by decide, show (0 : Fin 3) ≠ 2 from by decide,
    show (1 : Fin 3) ≠ 2 from by decide] at h00 h11 h22 h01 h02 h12
  simp only [sum7, rotG_0, rotG_1, rotG_2, rotG_3, rotG_4, rotG_5, rotG_6, gFun_0, gFun_1, gFun_2, gFun_3, gFun_4, gFun_5, gFun_6, coefZZZ, coefXZZ, coefYZZ, coefZXX,
    coefXYZ, coefXXX, coefYYY, substCub_g4, mulVec3, sum3, Fin.isValue, Fin.val_zero, Fin.val_one, Fin.val_two,
    Fin.reduceFinMk]
  linear_combination ((1 : K) * S 2 0 * v 0 * v 1 * v 1 + (1 : K) * S 2 1 * v 1 * v 0 * v 0 + (1 : K) * S 2 2 * v 2 * v 1 * v 1) * h01 + ((1 : K) * S 1 0 * v 0 * v 1 * v 1 + (1 : K) * S 1 1 * v 1 * v 0 * v 0 + (1 : K) * S 1 2 * v 2 * v 1 * v 1) * h02 + ((1 : K) * S 0 0 * v 0 * v 1 * v 1 + (1 : K) * S 0 1 * v 1 * v 0 * v 0 + (1 : K) * S 0 2 * v 2 * v 1 * v 1) * h12

theorem gFun_expand_5 (S : M3 K) (hS : Orth3 S) (v : V3 K) :
    gFun 5 (mulVec3 S v) = sum7 (fun j => gFun j v * rotG S j 5) := by
  have h00 := hS 0 0; have h11 := hS 1 1; have h22 := hS 2 2
  have h01 := hS 0 1; have h02 := hS 0 2; have h12 := hS 1 2
  simp only [sum3, Fin.isValue, ↓reduceIte, show (0 : Fin 3) ≠ 1 from by decide, show (0 : Fin 3) ≠ 2 from by decide,
    show (1 : Fin 3) ≠ 2 from by decide] at h00 h11 h22 h01 h02 h12
  simp only [sum7, rotG_0, rotG_1, rotG_2, rotG_3, rotG_4, rotG_5, rotG_6, gFun_0, gFun_1, gFun_2, gFun_3, gFun_4, gFun_5, gFun_6, coefZZZ, coefXZZ, coefYZZ, coefZXX,
    coefXYZ, coefXXX, coefYYY, substCub_g5, mulVec3, sum3, Fin.isValue, Fin.val_zero, Fin.val_one, Fin.val_two,
    Fin.reduceFinMk]
  linear_combination ((3 : K) * S 0 0 * v 0 * v 1 * v 1 + (3 : K) * S 0 1 * v 1 * v 0 * v 0 + (3 : K) * S 0 2 * v 2 * v 1 * v 1) * h00 + ((-6 : K) * S 1 0 * v 0 * v 1 * v 1 + (-6 : K) * S 1 1 * v 1 * v 0 * v 0 + (-6 : K) * S 1 2 * v 2 * v 1 * v 1) * h01 + ((-3 : K) * S 0 0 * v 0 * v 1 * v 1 + (-3 : K) * S 0 1 * v 1 * v 0 * v 0 + (-3 : K) * S 0 2 * v 2 * v 1 * v 1) * h11

theorem gFun_expand_6 (S : M3 K) (hS : Orth3 S) (v : V3 K) :
    gFun 6 (mulVec3 S v) = sum7 (fun j => gFun j v * rotG S j 6) := by
  have h00 := hS 0 0; have h11 := hS 1 1; have h22 := hS 2 2
  have h01 := hS 0 1; have h02 := hS 0 2; have h12 := hS 1 2
  simp only [sum3, Fin.isValue, ↓reduceIte, show (0 : Fin 3) ≠ 1 from by decide, show (0 : Fin 3) ≠ 2 from by decide,
    show (1 : Fin 3) ≠ 2 from by decide] at h00 h11 h22 h01 h02 h12
  simp only [sum7, rotG_0, rotG_1, rotG_2, rotG_3, rotG_4, rotG_5, rotG_6, gFun_0, gFun_1, gFun_2, gFun_3, gFun_4, gFun_5, gFun_6, coefZZZ, coefXZZ, coefYZZ, coefZXX,
    coefXYZ, coefXXX, coefYYY, substCub_g6, mulVec3, sum3, Fin.isValue, Fin.val_zero, Fin.val_one, Fin.val_two,
    Fin.reduceFinMk]
  linear_combination ((3 : K) * S 1 0 * v 0 * v 1 * v 1 + (3 : K) * S 1 1 * v 1 * v 0 * v 0 + (3 : K) * S 1 2 * v 2 * v 1 * v 1) * h00 + ((6 : K) * S 0 0 * v 0 * v 1 * v 1 + (6 : K) * S 0 1 * v 1 * v 0 * v 0 + (6 : K) * S 0 2 * v 2 * v 1 * v 1) * h01 + ((-3 : K) * S 1 0 * v 0 * v 1 * v 1 + (-3 : K) * S 1 1 * v 1 * v 0 * v 0 + (-3 : K) * S 1 2 * v 2 * v 1 * v 1) * h11

end WB.C21
