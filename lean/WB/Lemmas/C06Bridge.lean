/-
  C06 bridge: from GROUP hypotheses on the list of operations (identity, inverses, products, the grid is symmetric)
  to the hypotheses `OrbitHyp` on the star relation that the orbit-cover theorem uses.
-/
import WB.Lemmas.C06Orbit
import Mathlib.Data.Rat.Floor
import Mathlib.Data.Rat.Lemmas
import Mathlib.Tactic.Linarith
import Mathlib.Tactic.Ring
import Mathlib.Tactic.FieldSimp
import Mathlib.Tactic.LinearCombination

namespace WB.C06

/-! ### integers among the rationals, equality modulo lattice vectors -/

def IsIntR (r : Rat) : Prop := ∃ z : Int, r = z

theorem isInt_iff (r : Rat) : isInt r = true ↔ IsIntR r := by
  unfold isInt IsIntR
  simp only [beq_iff_eq]
  constructor
  · intro h; exact ⟨r.num, ((Rat.den_eq_one_iff r).mp h).symm⟩
  · rintro ⟨z, rfl⟩; exact Rat.den_intCast z

theorem IsIntR.add {a b : Rat} : IsIntR a → IsIntR b → IsIntR (a + b) := by
  rintro ⟨x, rfl⟩ ⟨y, rfl⟩; exact ⟨x + y, by push_cast; ring⟩
theorem IsIntR.sub {a b : Rat} : IsIntR a → IsIntR b → IsIntR (a - b) := by
  rintro ⟨x, rfl⟩ ⟨y, rfl⟩; exact ⟨x - y, by push_cast; ring⟩
theorem IsIntR.neg {a : Rat} : IsIntR a → IsIntR (-a) := by
  rintro ⟨x, rfl⟩; exact ⟨-x, by push_cast; ring⟩
theorem IsIntR.mul_int {a : Rat} (m : Int) : IsIntR a → IsIntR (a * m) := by
  rintro ⟨x, rfl⟩; exact ⟨x * m, by push_cast; ring⟩
theorem IsIntR.mul {a b : Rat} : IsIntR a → IsIntR b → IsIntR (a * b) := by
  rintro ⟨x, rfl⟩ ⟨y, rfl⟩; exact ⟨x * y, by push_cast; ring⟩
theorem IsIntR.zero : IsIntR 0 := ⟨0, by simp⟩

def EqM (a b : V3) : Prop := IsIntR (a.x - b.x) ∧ IsIntR (a.y - b.y) ∧ IsIntR (a.z - b.z)

theorem eqMod1_iff (a b : V3) : eqMod1 a b = true ↔ EqM a b := by
  unfold eqMod1 EqM
  simp only [Bool.and_eq_true, isInt_iff, and_assoc]

theorem EqM.refl (a : V3) : EqM a a := by
  unfold EqM; simp only [sub_self]; exact ⟨IsIntR.zero, IsIntR.zero, IsIntR.zero⟩

theorem EqM.symm {a b : V3} (h : EqM a b) : EqM b a := by
  obtain ⟨h1, h2, h3⟩ := h
  refine ⟨?_, ?_, ?_⟩
  · have := h1.neg; rwa [neg_sub] at this
  · have := h2.neg; rwa [neg_sub] at this
  · have := h3.neg; rwa [neg_sub] at this

theorem EqM.trans {a b c : V3} (h : EqM a b) (h' : EqM b c) : EqM a c := by
  obtain ⟨h1, h2, h3⟩ := h
  obtain ⟨g1, g2, g3⟩ := h'
  refine ⟨?_, ?_, ?_⟩
  · have := h1.add g1; rwa [sub_add_sub_cancel] at this
  · have := h2.add g2; rwa [sub_add_sub_cancel] at this
  · have := h3.add g3; rwa [sub_add_sub_cancel] at this

theorem sign_pm (s : Sym) : s.sign = 1 ∨ s.sign = -1 := by
  unfold Sym.sign
  cases s.tr <;> cases s.inv <;> simp

theorem sign_int (s : Sym) : IsIntR s.sign := by
  rcases sign_pm s with h | h <;> rw [h]
  · exact ⟨1, by simp⟩
  · exact ⟨-1, by simp⟩

/-- an operation with integer matrix maps lattice vectors to lattice vectors -/
theorem apply_EqM (s : Sym) {a b : V3} (h : EqM a b) : EqM (s.apply a) (s.apply b) := by
  obtain ⟨h1, h2, h3⟩ := h
  unfold EqM Sym.apply
  simp only
  refine ⟨?_, ?_, ?_⟩
  · have := (((h1.mul_int s.m11).add (h2.mul_int s.m21)).add (h3.mul_int s.m31)).mul (sign_int s)
    convert this using 1; ring
  · have := (((h1.mul_int s.m12).add (h2.mul_int s.m22)).add (h3.mul_int s.m32)).mul (sign_int s)
    convert this using 1; ring
  · have := (((h1.mul_int s.m13).add (h2.mul_int s.m23)).add (h3.mul_int s.m33)).mul (sign_int s)
    convert this using 1; ring

/-! ### one direction of `toIdx` -/

theorem floor_eq' (q : Rat) : (q.floor : Int) = ⌊q⌋ := rfl

theorem roundHE_int (n : Int) : roundHE (n : Rat) = n := by
  unfold roundHE
  have hfl : ((n : Rat).floor : Int) = n := by rw [floor_eq']; exact Int.floor_intCast n
  simp only [hfl]
  norm_num

def idx1 (d : Nat) (r : Rat) : Nat := (roundHE (r * d) % (d : Int)).toNat

theorem toIdx_eq (div : Idx) (k : V3) : toIdx div k = (idx1 div.1 k.x, idx1 div.2.1 k.y, idx1 div.2.2 k.z) := rfl

theorem idx1_of_int (d : Nat) (r : Rat) (z : Int) (h : r * d = z) : idx1 d r = (z % (d : Int)).toNat := by
  unfold idx1; rw [h, roundHE_int]

theorem idx1_congr (d : Nat) (_hd : 0 < d) (r r' : Rat) (hm : IsIntR (r - r')) (hz : IsIntR (r * d)) :
    idx1 d r = idx1 d r' ∧ IsIntR (r' * d) := by
  obtain ⟨m, hm⟩ := hm
  obtain ⟨z, hz⟩ := hz
  have h' : r' * d = ((z - m * d : Int) : Rat) := by
    push_cast; rw [← hz, ← hm]; ring
  refine ⟨?_, ⟨_, h'⟩⟩
  rw [idx1_of_int d r z hz, idx1_of_int d r' _ h', Int.sub_mul_emod_self_right]

theorem idx1_inj (d : Nat) (hd : 0 < d) (r r' : Rat) (hz : IsIntR (r * d)) (hz' : IsIntR (r' * d))
    (h : idx1 d r = idx1 d r') : IsIntR (r - r') := by
  obtain ⟨z, hz⟩ := hz
  obtain ⟨z', hz'⟩ := hz'
  rw [idx1_of_int d r z hz, idx1_of_int d r' z' hz'] at h
  have hd' : (d : Int) ≠ 0 := by omega
  have n1 := Int.emod_nonneg z hd'
  have n2 := Int.emod_nonneg z' hd'
  have e : z % (d : Int) = z' % (d : Int) := by
    have := congrArg (fun n : Nat => (n : Int)) h
    simp only [Int.toNat_of_nonneg n1, Int.toNat_of_nonneg n2] at this
    exact this
  have hdvd : (d : Int) ∣ z - z' := Int.dvd_of_emod_eq_zero (Int.emod_eq_emod_iff_emod_sub_eq_zero.mp e)
  obtain ⟨c, hc⟩ := hdvd
  refine ⟨c, ?_⟩
  have hdr : (d : Rat) ≠ 0 := by exact_mod_cast hd.ne'
  have : (r - r') * d = ((d : Int) : Rat) * c := by
    have : ((z - z' : Int) : Rat) = ((d : Int) * c : Int) := by rw [hc]
    push_cast at this
    rw [sub_mul, hz, hz']; push_cast; linarith
  push_cast at this
  have h2 : (r - r') * d = (c : Rat) * d := by rw [this]; ring
  exact mul_right_cancel₀ hdr h2

theorem idx1_grid (d p : Nat) (hp : p < d) : idx1 d ((p : Rat) * (1 / (d : Rat))) = p := by
  have hd : (d : Rat) ≠ 0 := by exact_mod_cast (by omega : d ≠ 0)
  have : (p : Rat) * (1 / (d : Rat)) * d = ((p : Int) : Rat) := by push_cast; field_simp
  rw [idx1_of_int d _ p this, Int.emod_eq_of_lt (by omega) (by omega)]
  simp

theorem grid_idx1 (d : Nat) (hd : 0 < d) (r : Rat) (hz : IsIntR (r * d)) :
    IsIntR (((idx1 d r : Nat) : Rat) * (1 / (d : Rat)) - r) ∧ idx1 d r < d := by
  obtain ⟨z, hz⟩ := hz
  have hd' : (d : Int) ≠ 0 := by omega
  have n1 := Int.emod_nonneg z hd'
  have n2 := Int.emod_lt_of_pos z (by omega : (0 : Int) < d)
  rw [idx1_of_int d r z hz]
  refine ⟨⟨-(z / (d : Int)), ?_⟩, by omega⟩
  have hdr : (d : Rat) ≠ 0 := by exact_mod_cast hd.ne'
  have e1 : (((z % (d : Int)).toNat : Nat) : Rat) = ((z % (d : Int) : Int) : Rat) := by
    have : (((z % (d : Int)).toNat : Nat) : Int) = z % (d : Int) := Int.toNat_of_nonneg n1
    exact_mod_cast this
  have e2 : ((z % (d : Int) : Int) : Rat) = z - (d : Rat) * ((z / (d : Int) : Int) : Rat) := by
    have := Int.emod_def z d
    rw [this]; push_cast; ring
  have hr : r = (z : Rat) / d := by rw [← hz]; field_simp
  rw [e1, e2, hr]
  push_cast
  field_simp
  ring

/-! ### the grid -/

def OnGrid (div : Idx) (k : V3) : Prop :=
  IsIntR (k.x * div.1) ∧ IsIntR (k.y * div.2.1) ∧ IsIntR (k.z * div.2.2)

theorem toIdx_congr (div : Idx) (hd : 0 < div.1 ∧ 0 < div.2.1 ∧ 0 < div.2.2) {a b : V3} (h : EqM a b)
    (ha : OnGrid div a) : toIdx div a = toIdx div b ∧ OnGrid div b := by
  obtain ⟨h1, h2, h3⟩ := h
  obtain ⟨a1, a2, a3⟩ := ha
  obtain ⟨e1, g1⟩ := idx1_congr div.1 hd.1 a.x b.x h1 a1
  obtain ⟨e2, g2⟩ := idx1_congr div.2.1 hd.2.1 a.y b.y h2 a2
  obtain ⟨e3, g3⟩ := idx1_congr div.2.2 hd.2.2 a.z b.z h3 a3
  exact ⟨by rw [toIdx_eq, toIdx_eq, e1, e2, e3], g1, g2, g3⟩

theorem toIdx_inj (div : Idx) (hd : 0 < div.1 ∧ 0 < div.2.1 ∧ 0 < div.2.2) {a b : V3}
    (ha : OnGrid div a) (hb : OnGrid div b) (h : toIdx div a = toIdx div b) : EqM a b := by
  rw [toIdx_eq, toIdx_eq] at h
  simp only [Prod.mk.injEq] at h
  exact ⟨idx1_inj _ hd.1 _ _ ha.1 hb.1 h.1, idx1_inj _ hd.2.1 _ _ ha.2.1 hb.2.1 h.2.1,
    idx1_inj _ hd.2.2 _ _ ha.2.2 hb.2.2 h.2.2⟩

theorem toIdx_gridK (div p : Idx) (hp : inRange div p) : toIdx div (gridK div p) = p := by
  rw [toIdx_eq]
  unfold gridK
  simp only
  rw [idx1_grid _ _ hp.1, idx1_grid _ _ hp.2.1, idx1_grid _ _ hp.2.2]

theorem gridK_toIdx (div : Idx) (hd : 0 < div.1 ∧ 0 < div.2.1 ∧ 0 < div.2.2) (k : V3) (hk : OnGrid div k) :
    EqM (gridK div (toIdx div k)) k := by
  rw [toIdx_eq]
  unfold gridK EqM
  simp only
  exact ⟨(grid_idx1 _ hd.1 _ hk.1).1, (grid_idx1 _ hd.2.1 _ hk.2.1).1, (grid_idx1 _ hd.2.2 _ hk.2.2).1⟩

theorem gridK_onGrid (div p : Idx) (hd : 0 < div.1 ∧ 0 < div.2.1 ∧ 0 < div.2.2) : OnGrid div (gridK div p) := by
  have n1 : (div.1 : Rat) ≠ 0 := by exact_mod_cast hd.1.ne'
  have n2 : (div.2.1 : Rat) ≠ 0 := by exact_mod_cast hd.2.1.ne'
  have n3 : (div.2.2 : Rat) ≠ 0 := by exact_mod_cast hd.2.2.ne'
  unfold OnGrid gridK
  simp only
  refine ⟨⟨p.1, ?_⟩, ⟨p.2.1, ?_⟩, ⟨p.2.2, ?_⟩⟩ <;> push_cast <;> field_simp

/-! ### symmetric grids: the images of grid points stay on the grid -/

theorem comp_on_grid (p1 p2 p3 d1 d2 d3 dj : Nat) (a b c : Int) (sg : Rat) (hsg : sg = 1 ∨ sg = -1)
    (hd1 : 0 < d1) (hd2 : 0 < d2) (hd3 : 0 < d3)
    (h1 : (a * dj) % (d1 : Int) = 0) (h2 : (b * dj) % (d2 : Int) = 0) (h3 : (c * dj) % (d3 : Int) = 0) :
    ∃ z : Int, ((p1 : Rat) * (1 / d1) * a + (p2 : Rat) * (1 / d2) * b + (p3 : Rat) * (1 / d3) * c) * sg * dj = z := by
  obtain ⟨k1, e1⟩ := Int.dvd_of_emod_eq_zero h1
  obtain ⟨k2, e2⟩ := Int.dvd_of_emod_eq_zero h2
  obtain ⟨k3, e3⟩ := Int.dvd_of_emod_eq_zero h3
  have q1 : (a : Rat) * dj = d1 * k1 := by exact_mod_cast e1
  have q2 : (b : Rat) * dj = d2 * k2 := by exact_mod_cast e2
  have q3 : (c : Rat) * dj = d3 * k3 := by exact_mod_cast e3
  have n1 : (d1 : Rat) ≠ 0 := by exact_mod_cast hd1.ne'
  have n2 : (d2 : Rat) ≠ 0 := by exact_mod_cast hd2.ne'
  have n3 : (d3 : Rat) ≠ 0 := by exact_mod_cast hd3.ne'
  have key : ((p1 : Rat) * (1 / d1) * a + (p2 : Rat) * (1 / d2) * b + (p3 : Rat) * (1 / d3) * c) * dj =
      ((p1 * k1 + p2 * k2 + p3 * k3 : Int) : Rat) := by
    have : ((p1 : Rat) * (1 / d1) * a + (p2 : Rat) * (1 / d2) * b + (p3 : Rat) * (1 / d3) * c) * dj =
        (p1 : Rat) * (1 / d1) * (a * dj) + (p2 : Rat) * (1 / d2) * (b * dj) + (p3 : Rat) * (1 / d3) * (c * dj) := by ring
    rw [this, q1, q2, q3]
    push_cast
    field_simp
  rcases hsg with rfl | rfl
  · exact ⟨p1 * k1 + p2 * k2 + p3 * k3, by rw [mul_one]; exact key⟩
  · refine ⟨-(p1 * k1 + p2 * k2 + p3 * k3), ?_⟩
    have : ((p1 : Rat) * (1 / d1) * a + (p2 : Rat) * (1 / d2) * b + (p3 : Rat) * (1 / d3) * c) * (-1) * dj =
        -(((p1 : Rat) * (1 / d1) * a + (p2 : Rat) * (1 / d2) * b + (p3 : Rat) * (1 / d3) * c) * dj) := by ring
    rw [this, key]; push_cast; ring

/-- the executable symmetric-grid test implies that every operation maps grid points to grid points -/
theorem symmetricGrid_onGrid (syms : List Sym) (div : Idx) (hd : 0 < div.1 ∧ 0 < div.2.1 ∧ 0 < div.2.2)
    (hs : symmetricGrid syms div = true) (s : Sym) (hsm : s ∈ syms) (p : Idx) :
    OnGrid div (s.apply (gridK div p)) := by
  unfold symmetricGrid at hs
  rw [List.all_eq_true] at hs
  have h := hs s hsm
  simp only [Bool.and_eq_true, decide_eq_true_eq] at h
  obtain ⟨⟨⟨⟨⟨⟨⟨⟨a11, a12⟩, a13⟩, a21⟩, a22⟩, a23⟩, a31⟩, a32⟩, a33⟩ := h
  unfold OnGrid Sym.apply gridK IsIntR
  simp only
  refine ⟨?_, ?_, ?_⟩
  · exact comp_on_grid p.1 p.2.1 p.2.2 div.1 div.2.1 div.2.2 div.1 s.m11 s.m21 s.m31 s.sign (sign_pm s)
      hd.1 hd.2.1 hd.2.2 a11 a21 a31
  · exact comp_on_grid p.1 p.2.1 p.2.2 div.1 div.2.1 div.2.2 div.2.1 s.m12 s.m22 s.m32 s.sign (sign_pm s)
      hd.1 hd.2.1 hd.2.2 a12 a22 a32
  · exact comp_on_grid p.1 p.2.1 p.2.2 div.1 div.2.1 div.2.2 div.2.2 s.m13 s.m23 s.m33 s.sign (sign_pm s)
      hd.1 hd.2.1 hd.2.2 a13 a23 a33

/-! ### the de-duplication of `PointGroup.star` -/

theorem mem_dedupAux : ∀ (l seen : List V3) (v : V3), v ∈ dedupAux seen l → v ∈ l
  | [], _, v, h => by simp [dedupAux] at h
  | x :: rest, seen, v, h => by
    unfold dedupAux at h
    split at h
    · exact List.mem_cons_of_mem _ (mem_dedupAux rest _ v h)
    · rcases List.mem_cons.mp h with rfl | h
      · simp
      · exact List.mem_cons_of_mem _ (mem_dedupAux rest _ v h)

theorem dedupAux_rep : ∀ (l seen : List V3) (v : V3), v ∈ l →
    (∃ s ∈ seen, EqM s v) ∨ ∃ w ∈ dedupAux seen l, EqM w v
  | [], _, v, h => by simp at h
  | x :: rest, seen, v, h => by
    have hany : (seen.any fun s => eqMod1 s x) = true ↔ ∃ s ∈ seen, EqM s x := by
      simp only [List.any_eq_true, eqMod1_iff]
    rcases List.mem_cons.mp h with rfl | hv
    · by_cases hc : (seen.any fun s => eqMod1 s v) = true
      · left; exact hany.mp hc
      · right
        unfold dedupAux; rw [if_neg hc]
        exact ⟨v, by simp, EqM.refl v⟩
    · rcases dedupAux_rep rest (x :: seen) v hv with ⟨s, hs, hsv⟩ | ⟨w, hw, hwv⟩
      · rcases List.mem_cons.mp hs with rfl | hs
        · by_cases hc : (seen.any fun s' => eqMod1 s' s) = true
          · obtain ⟨s0, hs0, h0⟩ := hany.mp hc
            left; exact ⟨s0, hs0, h0.trans hsv⟩
          · right
            unfold dedupAux; rw [if_neg hc]
            exact ⟨s, by simp, hsv⟩
        · left; exact ⟨s, hs, hsv⟩
      · right
        unfold dedupAux
        split
        · exact ⟨w, hw, hwv⟩
        · exact ⟨w, List.mem_cons_of_mem _ hw, hwv⟩

theorem dedupAux_pairwise : ∀ (l seen : List V3),
    (dedupAux seen l).Pairwise (fun a b => ¬ EqM a b) ∧ ∀ w ∈ dedupAux seen l, ∀ s ∈ seen, ¬ EqM s w
  | [], _ => by simp [dedupAux]
  | x :: rest, seen => by
    obtain ⟨ih1, ih2⟩ := dedupAux_pairwise rest (x :: seen)
    unfold dedupAux
    split
    · exact ⟨ih1, fun w hw s hs => ih2 w hw s (List.mem_cons_of_mem _ hs)⟩
    · rename_i hc
      have hnot : ∀ s ∈ seen, ¬ EqM s x := by
        intro s hs he
        apply hc
        simp only [List.any_eq_true, eqMod1_iff]
        exact ⟨s, hs, he⟩
      refine ⟨List.pairwise_cons.mpr ⟨fun w hw => ih2 w hw x (by simp), ih1⟩, ?_⟩
      intro w hw s hs
      rcases List.mem_cons.mp hw with rfl | hw
      · exact hnot s hs
      · exact ih2 w hw s (List.mem_cons_of_mem _ hs)

/-! ### group hypotheses ⇒ `OrbitHyp` -/

/-- the list of operations is a group acting on reduced vectors, and maps the grid `div` into itself -/
structure GroupHyp (syms : List Sym) (div : Idx) : Prop where
  pos : 0 < div.1 ∧ 0 < div.2.1 ∧ 0 < div.2.2
  one : ∃ e ∈ syms, ∀ k : V3, e.apply k = k
  inv : ∀ s ∈ syms, ∃ t ∈ syms, ∀ k : V3, t.apply (s.apply k) = k
  mul : ∀ s ∈ syms, ∀ t ∈ syms, ∃ u ∈ syms, ∀ k : V3, u.apply k = t.apply (s.apply k)
  grid : symmetricGrid syms div = true

theorem mem_starIdx (syms : List Sym) (div : Idx) (hG : GroupHyp syms div) (p q : Idx) :
    q ∈ starIdx syms div p ↔ ∃ s ∈ syms, q = toIdx div (s.apply (gridK div p)) := by
  unfold starIdx star
  rw [List.mem_map]
  constructor
  · rintro ⟨v, hv, rfl⟩
    have := mem_dedupAux _ _ v hv
    obtain ⟨s, hs, rfl⟩ := List.mem_map.mp this
    exact ⟨s, hs, rfl⟩
  · rintro ⟨s, hs, rfl⟩
    have hmem : s.apply (gridK div p) ∈ syms.map fun s => s.apply (gridK div p) := List.mem_map.mpr ⟨s, hs, rfl⟩
    rcases dedupAux_rep _ [] _ hmem with ⟨s0, h0, _⟩ | ⟨w, hw, hwv⟩
    · simp at h0
    · refine ⟨w, hw, ?_⟩
      have hwl := mem_dedupAux _ _ w hw
      obtain ⟨s', hs', rfl⟩ := List.mem_map.mp hwl
      exact (toIdx_congr div hG.pos hwv (symmetricGrid_onGrid syms div hG.pos hG.grid s' hs' p)).1

/-- the image of grid point `p` under `s`, as a grid point, represents `s(K_p)` modulo lattice vectors -/
theorem act_rep (syms : List Sym) (div : Idx) (hG : GroupHyp syms div) (s : Sym) (hs : s ∈ syms) (p : Idx) :
    EqM (gridK div (toIdx div (s.apply (gridK div p)))) (s.apply (gridK div p)) :=
  gridK_toIdx div hG.pos _ (symmetricGrid_onGrid syms div hG.pos hG.grid s hs p)

theorem orbitHyp_of_group (syms : List Sym) (div : Idx) (hG : GroupHyp syms div) :
    OrbitHyp div (starIdx syms div) := by
  have hon := symmetricGrid_onGrid syms div hG.pos hG.grid
  refine { range := ?_, refl := ?_, symm := ?_, trans := ?_, nodup := ?_ }
  · intro p _ q hq
    unfold starIdx at hq
    obtain ⟨v, _, rfl⟩ := List.mem_map.mp hq
    exact toIdx_inRange div v hG.pos.1 hG.pos.2.1 hG.pos.2.2
  · intro p hp
    obtain ⟨e, he, hid⟩ := hG.one
    exact (mem_starIdx syms div hG p p).mpr ⟨e, he, by rw [hid, toIdx_gridK div p hp]⟩
  · intro p q hp _ hq
    obtain ⟨s, hs, rfl⟩ := (mem_starIdx syms div hG p _).mp hq
    obtain ⟨t, ht, hts⟩ := hG.inv s hs
    refine (mem_starIdx syms div hG _ p).mpr ⟨t, ht, ?_⟩
    have h1 := apply_EqM t (act_rep syms div hG s hs p)
    rw [hts] at h1
    have := (toIdx_congr div hG.pos h1 (hon t ht _)).1
    rw [this, toIdx_gridK div p hp]
  · intro p q r _ _ _ hq hr
    obtain ⟨s, hs, rfl⟩ := (mem_starIdx syms div hG p _).mp hq
    obtain ⟨t, ht, rfl⟩ := (mem_starIdx syms div hG _ _).mp hr
    obtain ⟨u, hu, hu'⟩ := hG.mul s hs t ht
    refine (mem_starIdx syms div hG p _).mpr ⟨u, hu, ?_⟩
    have h1 := apply_EqM t (act_rep syms div hG s hs p)
    rw [hu']
    exact (toIdx_congr div hG.pos h1 (hon t ht _)).1
  · intro p _
    unfold starIdx star
    obtain ⟨hpw, _⟩ := dedupAux_pairwise (syms.map fun s => s.apply (gridK div p)) []
    have hmem : ∀ v ∈ dedupAux [] (syms.map fun s => s.apply (gridK div p)), OnGrid div v := by
      intro v hv
      obtain ⟨s, hs, rfl⟩ := List.mem_map.mp (mem_dedupAux _ _ v hv)
      exact hon s hs p
    rw [List.Nodup, List.pairwise_map]
    refine List.Pairwise.imp_of_mem ?_ hpw
    intro a b ha hb hab heq
    exact hab (toIdx_inj div hG.pos (hmem a ha) (hmem b hb) heq)

/-! ### the executable group check implies the group hypotheses -/

theorem isgn_cast (s : Sym) : s.sign = (s.isgn : Rat) := by
  unfold Sym.sign Sym.isgn
  cases s.tr <;> cases s.inv <;> simp

theorem isgn_sq (s : Sym) : s.isgn * s.isgn = 1 := by
  unfold Sym.isgn
  cases s.tr <;> cases s.inv <;> simp

theorem comp_apply (s t : Sym) (k : V3) : (s.comp t).apply k = t.apply (s.apply k) := by
  have hc : (s.comp t).sign = 1 := by unfold Sym.sign Sym.comp; simp
  unfold Sym.apply
  rw [hc, isgn_cast s, isgn_cast t]
  unfold Sym.comp
  simp only [V3.mk.injEq]
  refine ⟨?_, ?_, ?_⟩ <;> push_cast <;> ring

theorem sameAct_apply (u v : Sym) (h : u.sameAct v = true) (k : V3) : u.apply k = v.apply k := by
  unfold Sym.sameAct at h
  simp only [Bool.and_eq_true, beq_iff_eq] at h
  obtain ⟨⟨⟨⟨⟨⟨⟨⟨a11, a12⟩, a13⟩, a21⟩, a22⟩, a23⟩, a31⟩, a32⟩, a33⟩ := h
  have c : ∀ {x y : Int}, x = y → (x : Rat) = (y : Rat) := fun h => by rw [h]
  have b11 := c a11; have b12 := c a12; have b13 := c a13
  have b21 := c a21; have b22 := c a22; have b23 := c a23
  have b31 := c a31; have b32 := c a32; have b33 := c a33
  push_cast at b11 b12 b13 b21 b22 b23 b31 b32 b33
  unfold Sym.apply
  rw [isgn_cast u, isgn_cast v]
  simp only [V3.mk.injEq]
  refine ⟨?_, ?_, ?_⟩
  · linear_combination k.x * b11 + k.y * b21 + k.z * b31
  · linear_combination k.x * b12 + k.y * b22 + k.z * b32
  · linear_combination k.x * b13 + k.y * b23 + k.z * b33

theorem idSym_apply (k : V3) : idSym.apply k = k := by
  unfold Sym.apply idSym Sym.sign
  simp

theorem groupHyp_of_check (syms : List Sym) (div : Idx) (hd : 0 < div.1 ∧ 0 < div.2.1 ∧ 0 < div.2.2)
    (hg : groupCheck syms = true) (hs : symmetricGrid syms div = true) : GroupHyp syms div := by
  unfold groupCheck at hg
  simp only [Bool.and_eq_true, List.any_eq_true, List.all_eq_true] at hg
  obtain ⟨⟨⟨e, he, hid⟩, hinv⟩, hmul⟩ := hg
  refine { pos := hd, one := ?_, inv := ?_, mul := ?_, grid := hs }
  · exact ⟨e, he, fun k => by rw [sameAct_apply e idSym hid, idSym_apply]⟩
  · intro s hs'
    obtain ⟨t, ht, h⟩ := hinv s hs'
    exact ⟨t, ht, fun k => by rw [← comp_apply, sameAct_apply _ idSym h, idSym_apply]⟩
  · intro s hs' t ht
    obtain ⟨u, hu, h⟩ := hmul s hs' t ht
    exact ⟨u, hu, fun k => by rw [sameAct_apply u _ h, comp_apply]⟩

end WB.C06
