/-
  C21 helper lemmas: p and d rotation matrices.
-/
import WB.Model.C21
import Mathlib.Algebra.Field.Basic
import Mathlib.Algebra.CharZero.Defs
import Mathlib.Algebra.Ring.CharZero
import Mathlib.Data.Fintype.Basic
import Mathlib.LinearAlgebra.Matrix.NonsingularInverse
import Mathlib.Tactic.Ring
import Mathlib.Tactic.FieldSimp
import Mathlib.Tactic.LinearCombination
import Mathlib.Tactic.FinCases
import Mathlib.Tactic.Linarith

namespace WB.C21

variable {K : Type} [Field K]

/-- `S Sᵀ = 1` (rows orthonormal) -/
def Orth3 (S : M3 K) : Prop := ∀ a c, sum3 (fun b => S a b * S c b) = if a = c then 1 else 0

/-- for a square matrix, orthonormal rows ⇒ orthonormal columns -/
theorem Orth3.transpose {S : M3 K} (h : Orth3 S) : Orth3 (transpose3 S) := by
  have h1 : (Matrix.of S) * (Matrix.of S).transpose = 1 := by
    ext a c
    rw [Matrix.mul_apply, Fin.sum_univ_three]
    have := h a c
    simp only [sum3] at this
    simp [Matrix.one_apply, this]
  have h2 : (Matrix.of S).transpose * (Matrix.of S) = 1 := mul_eq_one_comm.1 h1
  intro a c
  have := congrFun (congrFun h2 a) c
  rw [Matrix.mul_apply, Fin.sum_univ_three] at this
  simp only [Matrix.transpose_apply, Matrix.of_apply, Matrix.one_apply] at this
  simp only [sum3, transpose3]
  exact this

theorem Orth3.mul_transpose {S : M3 K} (h : Orth3 S) : mulM3 S (transpose3 S) = one3 := by
  funext a c
  have := h a c
  simp only [sum3] at this
  simp only [mulM3, transpose3, one3, sum3]
  exact this

theorem Orth3.mul {S1 S2 : M3 K} (h1 : Orth3 S1) (h2 : Orth3 S2) : Orth3 (mulM3 S2 S1) := by
  have h1' := h1
  intro a c
  have e : sum3 (fun b => mulM3 S2 S1 a b * mulM3 S2 S1 c b)
      = sum3 (fun x => sum3 (fun y => S2 a x * S2 c y * sum3 (fun b => S1 x b * S1 y b))) := by
    simp only [mulM3, sum3]; ring
  rw [e]
  have h2ac := h2 a c
  simp only [sum3] at h2ac
  have := fun x y => h1 x y
  simp only [h1 _ _]
  simp only [sum3]
  simp only [Fin.isValue, ↓reduceIte, mul_one, mul_zero, add_zero, zero_add,
    show (0 : Fin 3) ≠ 1 from by decide, show (0 : Fin 3) ≠ 2 from by decide, show (1 : Fin 3) ≠ 0 from by decide,
    show (1 : Fin 3) ≠ 2 from by decide, show (2 : Fin 3) ≠ 0 from by decide, show (2 : Fin 3) ≠ 1 from by decide]
  exact h2ac

theorem mulVec3_mul (S2 S1 : M3 K) (v : V3 K) : mulVec3 (mulM3 S2 S1) v = mulVec3 S2 (mulVec3 S1 v) := by
  funext a; simp only [mulVec3, mulM3, sum3]; ring

/-! ### p shell -/

theorem rotP_expand (S : M3 K) (i : Fin 3) (v : V3 K) :
    pFun i (mulVec3 S v) = sum3 (fun j => pFun j v * rotP S j i) := by
  fin_cases i <;> simp [pFun, pIdx, rotP, mulVec3, sum3] <;> ring

theorem rotP_comp (S1 S2 : M3 K) (j i : Fin 3) :
    rotP (mulM3 S2 S1) j i = sum3 (fun l => rotP S1 j l * rotP S2 l i) := by
  fin_cases j <;> fin_cases i <;> simp [pIdx, rotP, mulM3, sum3] <;> ring

theorem rotP_one (j i : Fin 3) : rotP (one3 : M3 K) j i = if j = i then 1 else 0 := by
  fin_cases j <;> fin_cases i <;> simp [pIdx, rotP, one3]

omit [Field K] in
theorem rotP_transpose (S : M3 K) (j i : Fin 3) : rotP (transpose3 S) j i = rotP S i j := rfl

theorem rotP_neg (S : M3 K) (j i : Fin 3) : rotP (fun a b => -S a b) j i = -rotP S j i := rfl

end WB.C21
