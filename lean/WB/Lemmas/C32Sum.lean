/-
  C32: closed form of the hopping accumulation loop, Bloch sums, Hermiticity, the R-vector list.
-/
import WB.Model.C32
import Mathlib.Algebra.BigOperators.Group.Finset.Basic
import Mathlib.Algebra.BigOperators.Intervals
import Mathlib.Algebra.BigOperators.Ring.Finset
import Mathlib.Algebra.Field.Basic
import Mathlib.Tactic.Ring
import Mathlib.Tactic.Abel
import Mathlib.Tactic.Linarith

namespace WB.C32
open WB.C18 (Vec3)

/-! ### the R-vector list -/

theorem mem_insertU (a b : Vec3) : ∀ l : List Vec3, b ∈ insertU a l ↔ b = a ∨ b ∈ l
  | [] => by simp [insertU]
  | c :: t => by
    unfold insertU
    by_cases h1 : a = c
    · rw [if_pos h1]; subst h1
      constructor
      · intro h; exact Or.inr h
      · rintro (h | h)
        · rw [h]; exact List.mem_cons_self
        · exact h
    · rw [if_neg h1]
      by_cases h2 : ltV a c = true
      · rw [if_pos h2]; simp [List.mem_cons]
      · rw [if_neg h2, List.mem_cons, mem_insertU a b t, List.mem_cons]
        tauto

theorem mem_foldl_insertU (b : Vec3) : ∀ (l acc : List Vec3),
    b ∈ l.foldl (fun acc a => insertU a acc) acc ↔ b ∈ l ∨ b ∈ acc
  | [], acc => by simp
  | a :: t, acc => by
    rw [List.foldl_cons, mem_foldl_insertU b t, mem_insertU, List.mem_cons]
    tauto

theorem mem_uniqueRows (b : Vec3) (l : List Vec3) : b ∈ uniqueRows l ↔ b ∈ l := by
  unfold uniqueRows
  rw [mem_foldl_insertU]; simp

variable {K : Type}

theorem zero_mem_mkRs (hops : List (Hop K)) : zeroV ∈ mkRs hops := by
  unfold mkRs; rw [mem_uniqueRows]; simp

theorem R_mem_mkRs (hops : List (Hop K)) (h : Hop K) (hh : h ∈ hops) : h.R ∈ mkRs hops := by
  unfold mkRs; rw [mem_uniqueRows]
  simp only [List.cons_append, List.mem_cons, List.mem_append, List.mem_map]
  exact Or.inr (Or.inl ⟨h, hh, rfl⟩)

theorem negR_mem_mkRs (hops : List (Hop K)) (h : Hop K) (hh : h ∈ hops) : negV h.R ∈ mkRs hops := by
  unfold mkRs; rw [mem_uniqueRows]
  simp only [List.cons_append, List.mem_cons, List.mem_append, List.mem_map]
  exact Or.inr (Or.inr ⟨h, hh, rfl⟩)

theorem negV_negV (R : Vec3) : negV (negV R) = R := by
  obtain ⟨a, b, c⟩ := R; simp [negV]

theorem negV_eq_iff (R S : Vec3) : negV R = S ↔ R = negV S := by
  constructor
  · intro h; rw [← h, negV_negV]
  · intro h; rw [h, negV_negV]

theorem negV_zero : negV zeroV = zeroV := by simp [negV, zeroV]

/-! ### closed form of the accumulation loop -/

section accum
variable [Field K]

/-- what one hopping adds at `(ir, i, j)` -/
def contrib (conj : K → K) (Rs : List Vec3) (h : Hop K) (ir i j : Nat) : K :=
  (if ir = Rs.idxOf h.R ∧ i = h.i ∧ j = h.j then h.amp else 0) +
  (if ir = Rs.idxOf (negV h.R) ∧ i = h.j ∧ j = h.i then conj h.amp else 0)

theorem foldl_accum (conj : K → K) (Rs : List Vec3) : ∀ (hops : List (Hop K)) (H0 : Nat → Nat → Nat → K) (ir i j : Nat),
    (hops.foldl (fun H h => addAt (addAt H (Rs.idxOf h.R) h.i h.j h.amp) (Rs.idxOf (negV h.R)) h.j h.i (conj h.amp)) H0)
      ir i j = H0 ir i j + (hops.map (fun h => contrib conj Rs h ir i j)).sum
  | [], H0, ir, i, j => by simp
  | h :: t, H0, ir, i, j => by
    rw [List.foldl_cons, foldl_accum conj Rs t, List.map_cons, List.sum_cons]
    simp only [addAt, contrib]
    split_ifs <;> ring

theorem accumulate_eq (conj : K → K) (Rs : List Vec3) (hops : List (Hop K)) (ir i j : Nat) :
    accumulate conj Rs hops ir i j = (hops.map (fun h => contrib conj Rs h ir i j)).sum := by
  unfold accumulate
  rw [foldl_accum]; simp

/-! ### Bloch sums -/

theorem list_range_sum (n : Nat) (f : Nat → K) : ((List.range n).map f).sum = ∑ i ∈ Finset.range n, f i := by
  induction n with
  | zero => simp
  | succ n ih => rw [List.range_succ, List.map_append, List.sum_append, ih, Finset.sum_range_succ]; simp

theorem getD_idxOf (Rs : List Vec3) (R : Vec3) (h : R ∈ Rs) : Rs.getD (Rs.idxOf R) zeroV = R := by
  have hlt : Rs.idxOf R < Rs.length := List.idxOf_lt_length_iff.mpr h
  rw [List.getD_eq_getElem?_getD, List.getElem?_eq_getElem hlt]
  simp

theorem bloch_single (χ : Vec3 → K) (Rs : List Vec3) (a : Nat) (ha : a < Rs.length) (P : Prop) [Decidable P] (x : K) :
    ∑ ir ∈ Finset.range Rs.length, χ (Rs.getD ir zeroV) * (if ir = a ∧ P then x else 0)
      = if P then χ (Rs.getD a zeroV) * x else 0 := by
  by_cases hP : P
  · simp only [hP, and_true, if_true, mul_ite, mul_zero]
    rw [Finset.sum_ite_eq' (Finset.range Rs.length) a]
    simp [ha]
  · simp [hP]

theorem blochSum_accumulate (conj : K → K) (χ : Vec3 → K) (Rs : List Vec3) :
    ∀ (hops : List (Hop K)), (∀ h ∈ hops, h.R ∈ Rs ∧ negV h.R ∈ Rs) → ∀ i j,
    blochSum χ Rs (accumulate conj Rs hops) i j = sourceHops conj χ hops i j
  | [], _, i, j => by
    simp [blochSum, sourceHops, accumulate_eq, list_range_sum]
  | h :: t, hmem, i, j => by
    have ih := blochSum_accumulate conj χ Rs t (fun g hg => hmem g (List.mem_cons_of_mem _ hg)) i j
    unfold blochSum sourceHops at ih ⊢
    rw [list_range_sum] at ih ⊢
    simp only [accumulate_eq, List.map_cons, List.sum_cons] at ih ⊢
    simp only [mul_add, Finset.sum_add_distrib]
    rw [ih]
    congr 1
    obtain ⟨hR, hnR⟩ := hmem h List.mem_cons_self
    have e1 := bloch_single χ Rs (Rs.idxOf h.R) (List.idxOf_lt_length_iff.mpr hR) (i = h.i ∧ j = h.j) h.amp
    have e2 := bloch_single χ Rs (Rs.idxOf (negV h.R)) (List.idxOf_lt_length_iff.mpr hnR) (i = h.j ∧ j = h.i) (conj h.amp)
    rw [getD_idxOf Rs _ hR] at e1
    rw [getD_idxOf Rs _ hnR] at e2
    simp only [contrib, mul_add, Finset.sum_add_distrib]
    rw [e1, e2]
    congr 1
    · by_cases hc : i = h.i ∧ j = h.j
      · rw [if_pos hc, if_pos ⟨hc.1.symm, hc.2.symm⟩]
      · rw [if_neg hc, if_neg (fun hh => hc ⟨hh.1.symm, hh.2.symm⟩)]
    · by_cases hc : i = h.j ∧ j = h.i
      · rw [if_pos hc, if_pos ⟨hc.1.symm, hc.2.symm⟩]
      · rw [if_neg hc, if_neg (fun hh => hc ⟨hh.1.symm, hh.2.symm⟩)]

/-! ### Hermiticity -/

theorem idxOf_eq_iff (Rs : List Vec3) (a b : Vec3) (ha : a ∈ Rs) : Rs.idxOf a = Rs.idxOf b ↔ a = b :=
  List.idxOf_inj ha

theorem accumulate_hermitian (conj : K → K) (hc0 : conj 0 = 0) (hadd : ∀ a b, conj (a + b) = conj a + conj b)
    (hinv : ∀ a, conj (conj a) = a) (Rs : List Vec3) (R : Vec3) (hR : R ∈ Rs) (hnR : negV R ∈ Rs) (i j : Nat) :
    ∀ (hops : List (Hop K)), (∀ h ∈ hops, h.R ∈ Rs ∧ negV h.R ∈ Rs) →
    accumulate conj Rs hops (Rs.idxOf (negV R)) j i = conj (accumulate conj Rs hops (Rs.idxOf R) i j) := by
  intro hops hmem
  rw [accumulate_eq, accumulate_eq]
  induction hops with
  | nil => simp [hc0]
  | cons h t ih =>
    rw [List.map_cons, List.sum_cons, List.map_cons, List.sum_cons, hadd,
      ih (fun g hg => hmem g (List.mem_cons_of_mem _ hg))]
    congr 1
    obtain ⟨hhR, hhnR⟩ := hmem h List.mem_cons_self
    simp only [contrib]
    have k1 : (Rs.idxOf (negV R) = Rs.idxOf h.R) ↔ (Rs.idxOf R = Rs.idxOf (negV h.R)) := by
      rw [idxOf_eq_iff Rs _ _ hnR, idxOf_eq_iff Rs _ _ hR, negV_eq_iff]
    have k2 : (Rs.idxOf (negV R) = Rs.idxOf (negV h.R)) ↔ (Rs.idxOf R = Rs.idxOf h.R) := by
      rw [idxOf_eq_iff Rs _ _ hnR, idxOf_eq_iff Rs _ _ hR, negV_eq_iff, negV_negV]
    rw [hadd]
    by_cases c1 : Rs.idxOf R = Rs.idxOf (negV h.R) ∧ i = h.j ∧ j = h.i
    · have c1' : Rs.idxOf (negV R) = Rs.idxOf h.R ∧ j = h.i ∧ i = h.j := ⟨k1.mpr c1.1, c1.2.2, c1.2.1⟩
      rw [if_pos c1, if_pos c1', hinv]
      by_cases c2 : Rs.idxOf R = Rs.idxOf h.R ∧ i = h.i ∧ j = h.j
      · have c2' : Rs.idxOf (negV R) = Rs.idxOf (negV h.R) ∧ j = h.j ∧ i = h.i := ⟨k2.mpr c2.1, c2.2.2, c2.2.1⟩
        rw [if_pos c2, if_pos c2']
        all_goals (try ring)
      · have c2' : ¬ (Rs.idxOf (negV R) = Rs.idxOf (negV h.R) ∧ j = h.j ∧ i = h.i) :=
          fun hh => c2 ⟨k2.mp hh.1, hh.2.2, hh.2.1⟩
        rw [if_neg c2, if_neg c2', hc0]
        all_goals (try ring)
    · have c1' : ¬ (Rs.idxOf (negV R) = Rs.idxOf h.R ∧ j = h.i ∧ i = h.j) :=
        fun hh => c1 ⟨k1.mp hh.1, hh.2.2, hh.2.1⟩
      rw [if_neg c1, if_neg c1', hc0]
      by_cases c2 : Rs.idxOf R = Rs.idxOf h.R ∧ i = h.i ∧ j = h.j
      · have c2' : Rs.idxOf (negV R) = Rs.idxOf (negV h.R) ∧ j = h.j ∧ i = h.i := ⟨k2.mpr c2.1, c2.2.2, c2.2.1⟩
        rw [if_pos c2, if_pos c2']
        all_goals (try ring)
      · have c2' : ¬ (Rs.idxOf (negV R) = Rs.idxOf (negV h.R) ∧ j = h.j ∧ i = h.i) :=
          fun hh => c2 ⟨k2.mp hh.1, hh.2.2, hh.2.1⟩
        rw [if_neg c2, if_neg c2', hc0]
        all_goals (try ring)

end accum

end WB.C32

namespace WB.C32
open WB.C18 (Vec3)

section more
variable {K : Type} [Field K]

theorem neg_mem_mkRs (hops : List (Hop K)) (R : Vec3) (h : R ∈ mkRs hops) : negV R ∈ mkRs hops := by
  unfold mkRs at h ⊢
  rw [mem_uniqueRows] at h ⊢
  simp only [List.cons_append, List.mem_cons, List.mem_append, List.mem_map] at h ⊢
  rcases h with h | ⟨g, hg, rfl⟩ | ⟨g, hg, rfl⟩
  · left; rw [h, negV_zero]
  · right; right; exact ⟨g, hg, rfl⟩
  · right; left; exact ⟨g, hg, by rw [negV_negV]⟩

theorem accumulate_zero (conj : K → K) (Rs : List Vec3) (hops : List (Hop K)) (ir i j : Nat)
    (h : ∀ g ∈ hops, contrib conj Rs g ir i j = 0) : accumulate conj Rs hops ir i j = 0 := by
  rw [accumulate_eq]
  apply List.sum_eq_zero
  intro x hx
  obtain ⟨g, hg, rfl⟩ := List.mem_map.mp hx
  exact h g hg

/-- overriding entries of the `R = 0` block that the accumulation left at zero adds their Bloch contribution -/
theorem blochSum_override (χ : Vec3 → K) (Rs : List Vec3) (H : Nat → Nat → Nat → K) (i0 : Nat) (hi0 : i0 < Rs.length)
    (P : Nat → Nat → Prop) [∀ i j, Decidable (P i j)] (v : Nat → Nat → K) (i j : Nat)
    (hz : P i j → H i0 i j = 0) :
    blochSum χ Rs (fun ir i j => if ir = i0 ∧ P i j then v i j else H ir i j) i j
      = blochSum χ Rs H i j + (if P i j then χ (Rs.getD i0 zeroV) * v i j else 0) := by
  unfold blochSum
  rw [list_range_sum, list_range_sum, ← bloch_single χ Rs i0 hi0 (P i j) (v i j), ← Finset.sum_add_distrib]
  apply Finset.sum_congr rfl
  intro ir _
  dsimp only
  by_cases hc : ir = i0 ∧ P i j
  · rw [if_pos hc, if_pos hc, hc.1, hz hc.2]; ring
  · rw [if_neg hc, if_neg hc]; ring

theorem sum_flatMap' {α : Type} (f : α → List K) : ∀ l : List α, (l.flatMap f).sum = (l.map (fun a => (f a).sum)).sum
  | [] => by simp
  | a :: t => by rw [List.flatMap_cons, List.sum_append, sum_flatMap' f t, List.map_cons, List.sum_cons]

/-- the Bloch contribution of a whole matrix of hoppings to one lattice vector (TBmodels) -/
theorem sourceHops_flattenTbm (conj : K → K) (χ : Vec3 → K) (nw : Nat) (i j : Nat) (hi : i < nw) (hj : j < nw) :
    ∀ hop : List (Vec3 × (Nat → Nat → K)),
    sourceHops conj χ (flattenTbm nw hop) i j
      = (hop.map (fun p => χ p.1 * p.2 i j + χ (negV p.1) * conj (p.2 j i))).sum
  | [] => by simp [sourceHops, flattenTbm]
  | p :: t => by
    have ih := sourceHops_flattenTbm conj χ nw i j hi hj t
    unfold sourceHops flattenTbm at ih ⊢
    rw [List.flatMap_cons, List.map_append, List.sum_append, ih, List.map_cons, List.sum_cons]
    congr 1
    -- the nw × nw elementary hoppings of the matrix p.2
    have inner : ∀ a, ((List.range nw).map (fun b =>
          (if a = i ∧ b = j then χ p.1 * p.2 a b else 0) + (if b = i ∧ a = j then χ (negV p.1) * conj (p.2 a b) else 0))).sum
        = (if a = i then χ p.1 * p.2 a j else 0) + (if a = j then χ (negV p.1) * conj (p.2 a i) else 0) := by
      intro a
      rw [list_range_sum, Finset.sum_add_distrib]
      congr 1
      · by_cases ha : a = i
        · simp only [ha, true_and, if_true]
          rw [Finset.sum_ite_eq' (Finset.range nw) j]; simp [hj]
        · simp [ha]
      · by_cases ha : a = j
        · simp only [ha, and_true, if_true]
          rw [Finset.sum_ite_eq' (Finset.range nw) i]; simp [hi]
        · simp [ha]
    rw [List.map_flatMap, sum_flatMap']
    simp only [List.map_map, Function.comp_def, inner]
    rw [list_range_sum, Finset.sum_add_distrib, Finset.sum_ite_eq' (Finset.range nw) i,
      Finset.sum_ite_eq' (Finset.range nw) j]
    simp [hi, hj]

theorem mem_flattenSpin (hops : List (Hop2 K)) (g : Hop K) (hg : g ∈ flattenSpin hops) :
    ∃ h ∈ hops, ∃ s t, s < 2 ∧ t < 2 ∧ g.i = 2 * h.i + s ∧ g.j = 2 * h.j + t ∧ g.R = h.R ∧ g.amp = h.amp s t := by
  unfold flattenSpin at hg
  simp only [List.mem_flatMap, List.mem_map] at hg
  obtain ⟨h, hh, st, hst, rfl⟩ := hg
  refine ⟨h, hh, st.1, st.2, ?_, ?_, rfl, rfl, rfl, rfl⟩ <;>
  · simp only [List.mem_cons, Prod.mk.injEq, List.mem_nil_iff, or_false] at hst
    rcases hst with h | h | h | h <;> simp [h]

end more

end WB.C32
