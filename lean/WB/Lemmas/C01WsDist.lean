/-
  C01 — `remap_XX_R` / `do_ws_dist`: the replica selection applied to an existing real-space matrix keeps every
  k-space sum at the mesh points.
-/
import WB.Lemmas.C01Fourier
import WB.Lemmas.C02Box

namespace WB.C01
open WB.C02 (placeOnBox explicitSum box_sum)

section
variable {K : Type} [Field K] [CharZero K]

omit [CharZero K] in
theorem foldOnMesh_eq_placeOnBox (mp : Mesh) (entries : List (Vec3 × K)) (c : Vec3) :
    foldOnMesh mp entries c = placeOnBox mp entries c := rfl

/-- interpolating ANY grid function `g` spread over the selected replicas with their weights gives the plain box sum -/
theorem RtoK_weighted_grid (ws : Nat) (G : Gram) (mp : Mesh) (tol : Rat) (s : QVec3) (htol : tol ≠ 0)
    (iRvec : List Vec3) (hnd : iRvec.Nodup) (hsub : ∀ p ∈ wsSelect ws G mp tol s, p.1 ∈ iRvec)
    (χ : Vec3 → K) (hper : MeshPeriodic mp χ) (g : Vec3 → K) :
    RtoK χ iRvec (fun R => weightOf (wsSelect ws G mp tol s) R * g (vmod R mp))
      = sumK ((gridPoints mp).map fun c => χ c * g c) := by
  unfold RtoK
  rw [sumK_map_congr iRvec _
    (fun R => (χ R * g (vmod R mp)) * weightOf (wsSelect ws G mp tol s) R) (fun R _ => by ring)]
  rw [sum_weightOf iRvec hnd _ hsub (fun R => χ R * g (vmod R mp))]
  rw [sum_wsSelect ws G mp tol s htol (fun R => χ R * g (vmod R mp))]
  · apply sumK_map_congr
    intro c hc
    obtain ⟨⟨a1, a2⟩, ⟨a3, a4⟩, a5, a6⟩ := (mem_gridPoints mp c).1 hc
    have : vmod c mp = c := by
      simp only [vmod, Int.emod_eq_of_lt a1 a2, Int.emod_eq_of_lt a3 a4, Int.emod_eq_of_lt a5 a6]
    rw [this]
  · intro R
    have hidem : vmod (vmod R mp) mp = vmod R mp := by
      simp only [vmod, Int.emod_emod_of_dvd _ (dvd_refl _)]
    rw [hidem, hper R]

/-- `remap_XX_R` keeps the k-space sum of every mesh-periodic character -/
theorem RtoK_remapXXR (ws : Nat) (G : Gram) (mp : Mesh) (h1 : 0 < mp.1) (h2 : 0 < mp.2.1) (h3 : 0 < mp.2.2)
    (tol : Rat) (s : QVec3) (htol : tol ≠ 0)
    (iRvec : List Vec3) (hnd : iRvec.Nodup) (hsub : ∀ p ∈ wsSelect ws G mp tol s, p.1 ∈ iRvec)
    (χ : Vec3 → K) (hper : MeshPeriodic mp χ) (entries : List (Vec3 × K)) :
    RtoK χ iRvec (remapXXR mp (weightOf (wsSelect ws G mp tol s)) entries) = explicitSum χ entries := by
  unfold remapXXR
  rw [RtoK_weighted_grid ws G mp tol s htol iRvec hnd hsub χ hper (foldOnMesh mp entries)]
  exact box_sum mp h1 h2 h3 χ hper entries

end

end WB.C01
