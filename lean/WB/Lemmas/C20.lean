/-
  Helper lemmas for C20: the marking loop of `find_irreducible_Rab`.
-/
import WB.Model.C20
import Mathlib.Data.List.Basic
import Mathlib.Order.Basic
import Mathlib.Data.Nat.Find

namespace WB.C20

/-- the state seen as a predicate on positions -/
def view (irr : List Bool) (z : Nat) : Bool := irr.getD z false

theorem view_set_false (irr : List Bool) (y z : Nat) :
    view (irr.set y false) z = if z = y then false else view irr z := by
  unfold view
  rw [List.getD_eq_getElem?_getD, List.getD_eq_getElem?_getD, List.getElem?_set]
  by_cases h : y = z
  · subst h
    simp only [↓reduceIte]
    by_cases hl : y < irr.length <;> simp [hl]
  · have h' : ¬ z = y := fun e => h e.symm
    simp [h, h']

theorem view_replicate (N z : Nat) : view (List.replicate N true) z = decide (z < N) := by
  unfold view
  rw [List.getD_eq_getElem?_getD]
  by_cases h : z < N
  · simp [h]
  · simp [h]

/-- `t` is a later state than `s`: everything still unmarked in `t` was unmarked in `s` -/
def Later (s t : List Bool) : Prop := ∀ z, view t z = true → view s z = true

theorem Later.refl (s : List Bool) : Later s s := fun _ h => h
theorem Later.trans {s t u : List Bool} (h1 : Later s t) (h2 : Later t u) : Later s u :=
  fun z h => h1 z (h2 z h)

theorem markStep_view (act : Nat → Option Nat) (irr : List Bool) (x z : Nat) :
    view (markStep act irr x) z =
      if view irr x = true ∧ (∃ y, act x = some y ∧ x < y ∧ z = y) then false else view irr z := by
  unfold markStep
  by_cases hx : irr.getD x false = true
  · have hx' : view irr x = true := hx
    rw [if_pos hx]
    cases hact : act x with
    | none => simp [hx']
    | some y =>
      simp only
      by_cases hxy : x < y
      · rw [if_pos hxy, view_set_false]
        by_cases hz : z = y
        · subst hz; simp [hx', hxy]
        · have : ¬ (∃ y', some y = some y' ∧ x < y' ∧ z = y') := by
            rintro ⟨y', h1, _, h3⟩
            injection h1 with h1
            exact hz (h3.trans h1.symm)
          rw [if_neg hz, if_neg (fun h => this h.2)]
      · rw [if_neg hxy]
        have : ¬ (∃ y', some y = some y' ∧ x < y' ∧ z = y') := by
          rintro ⟨y', h1, h2, _⟩
          injection h1 with h1
          exact hxy (h1 ▸ h2)
        rw [if_neg (fun h => this h.2)]
  · rw [if_neg hx]
    have hx' : ¬ view irr x = true := hx
    simp [hx']

theorem markStep_later (act : Nat → Option Nat) (irr : List Bool) (x : Nat) :
    Later irr (markStep act irr x) := by
  intro z h
  rw [markStep_view] at h
  split at h
  · cases h
  · exact h

theorem foldl_markStep_later (act : Nat → Option Nat) (l : List Nat) (irr : List Bool) :
    Later irr (l.foldl (markStep act) irr) := by
  induction l generalizing irr with
  | nil => exact Later.refl _
  | cons x l ih => exact (markStep_later act irr x).trans (ih _)

theorem markOp_later (N : Nat) (irr : List Bool) (act : Nat → Option Nat) : Later irr (markOp N irr act) :=
  foldl_markStep_later act _ irr

theorem foldl_markOp_later (N : Nat) (ops : List (Nat → Option Nat)) (irr : List Bool) :
    Later irr (ops.foldl (markOp N) irr) := by
  induction ops generalizing irr with
  | nil => exact Later.refl _
  | cons g ops ih => exact (markOp_later N irr g).trans (ih _)

/-- whatever gets marked during the steps of one operation was hit from a smaller point -/
theorem foldl_markStep_marked (act : Nat → Option Nat) (l : List Nat) (irr : List Bool) (z : Nat)
    (h0 : view irr z = true) (h1 : view (l.foldl (markStep act) irr) z = false) :
    ∃ x ∈ l, act x = some z ∧ x < z := by
  induction l generalizing irr with
  | nil => simp only [List.foldl_nil] at h1; rw [h0] at h1; cases h1
  | cons x l ih =>
    rw [List.foldl_cons] at h1
    by_cases hz : view (markStep act irr x) z = true
    · obtain ⟨x', hx', h⟩ := ih _ hz h1
      exact ⟨x', List.mem_cons_of_mem _ hx', h⟩
    · rw [markStep_view] at hz
      split at hz
      · rename_i hc
        obtain ⟨_, y, hy1, hy2, hy3⟩ := hc
        subst hy3
        exact ⟨x, List.mem_cons_self, hy1, hy2⟩
      · exact absurd h0 hz

theorem foldl_markOp_marked (N : Nat) (ops : List (Nat → Option Nat)) (irr : List Bool) (z : Nat)
    (h0 : view irr z = true) (h1 : view (ops.foldl (markOp N) irr) z = false) :
    ∃ g ∈ ops, ∃ x, x < N ∧ g x = some z ∧ x < z := by
  induction ops generalizing irr with
  | nil => simp only [List.foldl_nil] at h1; rw [h0] at h1; cases h1
  | cons g ops ih =>
    rw [List.foldl_cons] at h1
    by_cases hz : view (markOp N irr g) z = true
    · obtain ⟨g', hg', h⟩ := ih _ hz h1
      exact ⟨g', List.mem_cons_of_mem _ hg', h⟩
    · have hz' : view (markOp N irr g) z = false := by
        cases hv : view (markOp N irr g) z
        · rfl
        · exact absurd hv hz
      obtain ⟨x, hx, h⟩ := foldl_markStep_marked g (List.range N) irr z h0 hz'
      exact ⟨g, List.mem_cons_self, x, List.mem_range.1 hx, h⟩

theorem markOp_split (N m : Nat) (hm : m < N) (irr : List Bool) (g : Nat → Option Nat) :
    markOp N irr g = (List.range' (m + 1) (N - (m + 1))).foldl (markStep g)
      (markStep g ((List.range m).foldl (markStep g) irr) m) := by
  have hsplit : List.range N = List.range m ++ m :: (List.range' (m + 1) (N - (m + 1))) := by
    rw [List.range_eq_range', List.range_eq_range']
    have : N = m + (1 + (N - (m + 1))) := by omega
    conv_lhs => rw [this]
    rw [← List.range'_append_1, ← List.range'_append_1]
    simp [Nat.add_comm]
  unfold markOp
  rw [hsplit, List.foldl_append, List.foldl_cons]

/-- a step from an unmarked point `m` to a larger image marks the image, for good -/
theorem marked_after (N : Nat) (pre post : List (Nat → Option Nat)) (g : Nat → Option Nat) (m y : Nat)
    (hm : m < N) (hg : g m = some y) (hlt : m < y)
    (hfinal : view ((pre ++ g :: post).foldl (markOp N) (List.replicate N true)) m = true) :
    view ((pre ++ g :: post).foldl (markOp N) (List.replicate N true)) y = false := by
  rw [List.foldl_append, List.foldl_cons] at hfinal ⊢
  generalize pre.foldl (markOp N) (List.replicate N true) = s0 at hfinal ⊢
  rw [markOp_split N m hm s0 g] at hfinal ⊢
  generalize hs1 : (List.range m).foldl (markStep g) s0 = s1 at hfinal ⊢
  generalize hs2 : markStep g s1 m = s2 at hfinal ⊢
  generalize htl : List.range' (m + 1) (N - (m + 1)) = tl at hfinal ⊢
  -- m is still unmarked when its turn comes
  have hlater : Later s1 (post.foldl (markOp N) (tl.foldl (markStep g) s2)) := by
    rw [← hs2]
    exact (markStep_later g s1 m).trans ((foldl_markStep_later g _ _).trans (foldl_markOp_later N post _))
  have hm1 : view s1 m = true := hlater m hfinal
  -- so y is marked at that step
  have hy2 : view s2 y = false := by
    rw [← hs2, markStep_view, if_pos ⟨hm1, y, hg, hlt, rfl⟩]
  -- and stays marked
  have hlater2 : Later s2 (post.foldl (markOp N) (tl.foldl (markStep g) s2)) :=
    (foldl_markStep_later g _ s2).trans (foldl_markOp_later N post _)
  cases hv : view (post.foldl (markOp N) (tl.foldl (markStep g) s2)) y
  · rfl
  · have := hlater2 y hv
    rw [hy2] at this; cases this

end WB.C20
