/-
  C01 — basic lemmas: list sums, `dedup`, grid points, super cells, `minList`.
-/
import WB.Model.C01
import Mathlib.Data.List.Basic
import Mathlib.Algebra.Order.Field.Rat
import Mathlib.Algebra.Field.Basic
import Mathlib.Algebra.CharZero.Defs
import Mathlib.Tactic.Ring
import Mathlib.Tactic.Linarith
import Mathlib.Tactic.FieldSimp

namespace WB.C01

/-! ### sums -/
section sums
variable {K : Type} [Field K]

theorem sumK_nil : sumK ([] : List K) = 0 := rfl
theorem sumK_cons (x : K) (l : List K) : sumK (x :: l) = x + sumK l := rfl

theorem sumK_append (l₁ l₂ : List K) : sumK (l₁ ++ l₂) = sumK l₁ + sumK l₂ := by
  induction l₁ with
  | nil => simp [sumK_nil]
  | cons x l ih => simp only [List.cons_append, sumK_cons, ih]; ring

theorem sumK_map_zero {α} (l : List α) : sumK (l.map fun _ => (0 : K)) = 0 := by
  induction l with
  | nil => rfl
  | cons x l ih => simp only [List.map_cons, sumK_cons, ih]; ring

theorem sumK_map_add {α} (l : List α) (f g : α → K) :
    sumK (l.map fun x => f x + g x) = sumK (l.map f) + sumK (l.map g) := by
  induction l with
  | nil => simp [sumK_nil]
  | cons x l ih => simp only [List.map_cons, sumK_cons, ih]; ring

theorem sumK_map_mul_left {α} (l : List α) (r : K) (f : α → K) :
    sumK (l.map fun x => r * f x) = r * sumK (l.map f) := by
  induction l with
  | nil => simp [sumK_nil]
  | cons x l ih => simp only [List.map_cons, sumK_cons, ih]; ring

theorem sumK_map_congr {α} (l : List α) (f g : α → K) (h : ∀ x ∈ l, f x = g x) :
    sumK (l.map f) = sumK (l.map g) := by
  induction l with
  | nil => rfl
  | cons x l ih =>
    simp only [List.map_cons, sumK_cons]
    rw [h x (by simp), ih (fun y hy => h y (by simp [hy]))]

theorem sumK_map_const {α} (l : List α) (r : K) : sumK (l.map fun _ => r) = (l.length : K) * r := by
  induction l with
  | nil => simp [sumK_nil]
  | cons x l ih => simp only [List.map_cons, sumK_cons, ih, List.length_cons]; push_cast; ring

theorem sumK_flatMap {α β} (l : List α) (g : α → List β) (f : β → K) :
    sumK ((l.flatMap g).map f) = sumK (l.map fun a => sumK ((g a).map f)) := by
  induction l with
  | nil => rfl
  | cons x l ih => simp only [List.flatMap_cons, List.map_append, sumK_append, List.map_cons, sumK_cons, ih]

/-- the sum of an indicator over a duplicate-free list -/
theorem sumK_single {α} [DecidableEq α] (l : List α) (hnd : l.Nodup) (x : α) (hx : x ∈ l) (g : α → K) :
    sumK (l.map fun R => if x = R then g R else 0) = g x := by
  induction l with
  | nil => simp at hx
  | cons y l ih =>
    simp only [List.map_cons, sumK_cons]
    have hnd' := List.nodup_cons.mp hnd
    rcases List.mem_cons.mp hx with rfl | hx'
    · rw [if_pos rfl]
      have : sumK (l.map fun R => if x = R then g R else 0) = 0 := by
        rw [sumK_map_congr l _ (fun _ => (0 : K))]
        · exact sumK_map_zero l
        · intro z hz
          have : x ≠ z := fun h => hnd'.1 (h ▸ hz)
          simp [this]
      rw [this]; ring
    · have : x ≠ y := fun h => hnd'.1 (h ▸ hx')
      rw [if_neg this, ih hnd'.2 hx']; ring

end sums

/-! ### dedup -/
section dedup
variable {α : Type} [DecidableEq α]

theorem mem_insertNew (x y : α) (acc : List α) : y ∈ insertNew x acc ↔ y = x ∨ y ∈ acc := by
  unfold insertNew
  split
  · constructor
    · exact Or.inr
    · rintro (rfl | h)
      · assumption
      · exact h
  · simp

theorem mem_dedup (l : List α) (y : α) : y ∈ dedup l ↔ y ∈ l := by
  induction l with
  | nil => simp [dedup]
  | cons x l ih =>
    have : dedup (x :: l) = insertNew x (dedup l) := rfl
    rw [this, mem_insertNew, ih]; simp

theorem nodup_dedup (l : List α) : (dedup l).Nodup := by
  induction l with
  | nil => simp [dedup]
  | cons x l ih =>
    have : dedup (x :: l) = insertNew x (dedup l) := rfl
    rw [this]; unfold insertNew
    split
    · exact ih
    · rename_i h; exact List.nodup_cons.mpr ⟨h, ih⟩

theorem length_dedup_le (l : List α) : (dedup l).length ≤ l.length := by
  induction l with
  | nil => simp [dedup]
  | cons x l ih =>
    have : dedup (x :: l) = insertNew x (dedup l) := rfl
    rw [this]; unfold insertNew
    split <;> simp <;> omega

/-- the duplicate test of `set_fft_q_to_R` : `len(set(l)) == len(l)` exactly when `l` has no duplicates -/
theorem nodup_of_length_dedup (l : List α) (h : (dedup l).length = l.length) : l.Nodup := by
  induction l with
  | nil => simp
  | cons x l ih =>
    have e : dedup (x :: l) = insertNew x (dedup l) := rfl
    rw [e] at h; unfold insertNew at h
    have hle := length_dedup_le l
    split at h
    · simp at h; omega
    · rename_i hx
      simp at h
      exact List.nodup_cons.mpr ⟨fun hm => hx ((mem_dedup l x).2 hm), ih h⟩

end dedup

/-! ### grid points and super cells -/

theorem mem_gridPoints (mp : Mesh) (c : Vec3) :
    c ∈ gridPoints mp ↔ (0 ≤ c.1 ∧ c.1 < mp.1) ∧ (0 ≤ c.2.1 ∧ c.2.1 < mp.2.1) ∧ (0 ≤ c.2.2 ∧ c.2.2 < mp.2.2) := by
  obtain ⟨c1, c2, c3⟩ := c
  unfold gridPoints
  simp only [List.mem_flatMap, List.mem_map, List.mem_range, Prod.mk.injEq]
  constructor
  · rintro ⟨i, hi, j, hj, k, hk, rfl, rfl, rfl⟩
    omega
  · rintro ⟨⟨h1, h2⟩, ⟨h3, h4⟩, h5, h6⟩
    exact ⟨c1.toNat, by omega, c2.toNat, by omega, c3.toNat, by omega, by omega, by omega, by omega⟩

theorem length_gridPoints (mp : Mesh) : (gridPoints mp).length = mp.1 * mp.2.1 * mp.2.2 := by
  unfold gridPoints
  simp [List.length_flatMap, Nat.mul_assoc]

theorem zero_mem_pm (n : Nat) : (0 : Int) ∈ pm n := by
  unfold pm
  simp only [List.mem_map, List.mem_range]
  exact ⟨n, by omega, by omega⟩

theorem zero_mem_superCells (ws : Nat) : ((0, 0, 0) : Vec3) ∈ superCells ws := by
  unfold superCells
  simp only [List.mem_flatMap, List.mem_map]
  exact ⟨0, zero_mem_pm ws, 0, zero_mem_pm ws, 0, zero_mem_pm ws, rfl⟩

theorem self_mem_candidates (ws : Nat) (mp : Mesh) (c : Vec3) : c ∈ candidates ws mp c := by
  unfold candidates
  simp only [List.mem_map]
  refine ⟨(0, 0, 0), zero_mem_superCells ws, ?_⟩
  simp [vadd, vscale]

/-- every candidate of a grid point is congruent to it modulo the mesh -/
theorem vmod_candidate (ws : Nat) (mp : Mesh) (c R : Vec3) (hc : c ∈ gridPoints mp)
    (hR : R ∈ candidates ws mp c) : vmod R mp = c := by
  unfold candidates at hR
  simp only [List.mem_map] at hR
  obtain ⟨t, -, rfl⟩ := hR
  obtain ⟨⟨h1, h2⟩, ⟨h3, h4⟩, h5, h6⟩ := (mem_gridPoints mp c).1 hc
  simp only [vmod, vadd, vscale]
  rw [Int.add_mul_emod_self_right, Int.add_mul_emod_self_right, Int.add_mul_emod_self_right,
    Int.emod_eq_of_lt h1 h2, Int.emod_eq_of_lt h3 h4, Int.emod_eq_of_lt h5 h6]

theorem vmod_mem_gridPoints (mp : Mesh) (h1 : 0 < mp.1) (h2 : 0 < mp.2.1) (h3 : 0 < mp.2.2) (R : Vec3) :
    vmod R mp ∈ gridPoints mp := by
  rw [mem_gridPoints]
  simp only [vmod]
  have a1 : (0 : Int) < (mp.1 : Int) := by omega
  have a2 : (0 : Int) < (mp.2.1 : Int) := by omega
  have a3 : (0 : Int) < (mp.2.2 : Int) := by omega
  exact ⟨⟨Int.emod_nonneg _ (by omega), Int.emod_lt_of_pos _ a1⟩,
    ⟨Int.emod_nonneg _ (by omega), Int.emod_lt_of_pos _ a2⟩,
    Int.emod_nonneg _ (by omega), Int.emod_lt_of_pos _ a3⟩

/-! ### the minimum -/

theorem minList_le_init (q0 : Rat) (l : List Rat) : minList q0 l ≤ q0 := by
  unfold minList
  induction l generalizing q0 with
  | nil => simp
  | cons x l ih =>
    simp only [List.foldl_cons]
    split
    · rename_i h; exact le_trans (ih x) (le_of_lt h)
    · exact ih q0

theorem minList_le_mem (q0 : Rat) (l : List Rat) : ∀ x ∈ l, minList q0 l ≤ x := by
  unfold minList
  induction l generalizing q0 with
  | nil => simp
  | cons y l ih =>
    intro x hx
    simp only [List.foldl_cons]
    rcases List.mem_cons.mp hx with rfl | hx'
    · split
      · exact minList_le_init x l
      · rename_i h; exact le_trans (minList_le_init q0 l) (not_lt.mp h)
    · exact ih _ x hx'

theorem minList_mem (q0 : Rat) (l : List Rat) : minList q0 l = q0 ∨ minList q0 l ∈ l := by
  unfold minList
  induction l generalizing q0 with
  | nil => simp
  | cons y l ih =>
    simp only [List.foldl_cons]
    split
    · rcases ih y with h | h
      · right; rw [h]; simp
      · right; exact List.mem_cons_of_mem _ h
    · rcases ih q0 with h | h
      · left; exact h
      · right; exact List.mem_cons_of_mem _ h

end WB.C01
