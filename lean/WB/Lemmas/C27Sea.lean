/-
  Helper lemmas for the Fermi-sea band groups of C27 (`seaGroups`): slice maxima/minima, the last band below the
  range, and the ordering of the blocks of `get_borders`.
-/
import WB.Model.C27
import WB.Lemmas.Pairs
import WB.Props.C15
import Mathlib.Tactic.Linarith

namespace WB.C27
open WB.C15

theorem foldl_max_ge_iff (l : List ℚ) (m x : ℚ) :
    x ≤ l.foldl (fun m y => if y > m then y else m) m ↔ (x ≤ m ∨ ∃ y ∈ l, x ≤ y) := by
  induction l generalizing m with
  | nil => simp
  | cons y ys ih =>
    rw [List.foldl_cons, ih]
    constructor
    · rintro (h | ⟨z, hz, hxz⟩)
      · split_ifs at h with hy
        · right; exact ⟨y, by simp, h⟩
        · left; exact h
      · right; exact ⟨z, by simp [hz], hxz⟩
    · rintro (h | ⟨z, hz, hxz⟩)
      · left; split_ifs with hy
        · linarith
        · exact h
      · rcases List.mem_cons.mp hz with rfl | hz
        · left; split_ifs with hy
          · exact hxz
          · linarith [not_lt.mp hy]
        · right; exact ⟨z, hz, hxz⟩

theorem foldl_min_le (l : List ℚ) (m x : ℚ) (hm : m ≤ x) :
    l.foldl (fun m y => if y < m then y else m) m ≤ x := by
  induction l generalizing m with
  | nil => simpa using hm
  | cons y ys ih =>
    rw [List.foldl_cons]
    apply ih
    split_ifs with hy
    · linarith
    · exact hm

/-- the slice maximum taken by `get_bands_in_range` reaches `x` iff some band of the block does -/
theorem sliceMax_ge_iff (E : ℕ → ℚ) (a b : ℕ) (hab : a < b) (x : ℚ) :
    x ≤ sliceMax E a b ↔ ∃ i, a ≤ i ∧ i < b ∧ x ≤ E i := by
  unfold sliceMax
  rw [foldl_max_ge_iff]
  constructor
  · rintro (h | ⟨y, hy, hxy⟩)
    · exact ⟨a, le_refl _, hab, h⟩
    · obtain ⟨j, hj, rfl⟩ := List.mem_map.mp hy
      have := List.mem_range.mp hj
      exact ⟨a + j, by omega, by omega, hxy⟩
  · rintro ⟨i, h1, h2, h3⟩
    right
    refine ⟨E i, List.mem_map.mpr ⟨i - a, List.mem_range.mpr (by omega), ?_⟩, h3⟩
    congr 1; omega

theorem sliceMin_le (E : ℕ → ℚ) (a b : ℕ) (x : ℚ) (h : E a ≤ x) : sliceMin E a b ≤ x := by
  unfold sliceMin; exact foldl_min_le _ _ _ h

theorem mem_bandsInRange (E : ℕ → ℚ) (th : ℚ) (n : ℕ) (kr : Bool) (emin emax : ℚ) (ab : ℕ × ℕ) :
    ab ∈ bandsInRange E th n kr emin emax ↔
      ab ∈ blocks E th n kr ∧ emin ≤ sliceMax E ab.1 ab.2 ∧ sliceMin E ab.1 ab.2 ≤ emax := by
  unfold bandsInRange
  simp only [List.mem_filter, Bool.and_eq_true, decide_eq_true_eq, ge_iff_le]

/-- last index below `n` satisfying `p` -/
theorem findLast_some (p : ℕ → Bool) {n i : ℕ} (h : (List.range n).reverse.find? p = some i) :
    i < n ∧ p i = true ∧ ∀ k, i < k → k < n → p k = false := by
  refine ⟨?_, ?_, ?_⟩
  · have := List.mem_of_find?_eq_some h; simpa using this
  · exact List.find?_some h
  · intro k hk hkn
    rw [List.find?_eq_some_iff_append] at h
    obtain ⟨_, as, bs, hsplit, hall⟩ := h
    by_contra hne
    have hkt : p k = true := by
      cases hw : p k <;> simp_all
    have hmem : k ∈ (List.range n).reverse := by simp [hkn]
    rw [hsplit] at hmem
    rcases List.mem_append.mp hmem with hm | hm
    · have := hall k hm; simp [hkt] at this
    · rcases List.mem_cons.mp hm with rfl | hm
      · omega
      · have hp : ((List.range n).reverse).Pairwise (· > ·) := by
          rw [List.pairwise_reverse]; exact List.pairwise_lt_range
        rw [hsplit] at hp
        have := (List.pairwise_cons.mp (List.pairwise_append.mp hp).2.1).1 k hm
        omega

theorem findLast_none (p : ℕ → Bool) {n : ℕ} (h : (List.range n).reverse.find? p = none) :
    ∀ k, k < n → p k = false := by
  intro k hk
  rw [List.find?_eq_none] at h
  have := h k (by simp [hk])
  simpa using this

/-- `get_bands_below_range`: at most `n`, above every band that lies below `emin`, and (if positive) the band
    just under it lies below `emin` -/
theorem belowRange_spec (E : ℕ → ℚ) (emin : ℚ) (n : ℕ) :
    belowRange E emin n ≤ n ∧ (∀ i, i < n → E i < emin → i < belowRange E emin n) ∧
      (0 < belowRange E emin n → E (belowRange E emin n - 1) < emin) := by
  unfold belowRange
  split
  · rename_i i hi
    obtain ⟨h1, h2, h3⟩ := findLast_some _ hi
    refine ⟨by omega, ?_, ?_⟩
    · intro k hk hE
      by_contra hc
      have : i < k := by omega
      have := h3 k this hk
      simp [hE] at this
    · intro _; simpa using h2
  · rename_i hnone
    have := findLast_none _ hnone
    refine ⟨Nat.zero_le _, ?_, ?_⟩
    · intro k hk hE
      have := this k hk
      simp [hE] at this
    · intro h; omega

/-- consecutive pairs of a strictly increasing list are ordered: each ends before the later ones start -/
theorem pairs_ordered : ∀ l : List ℕ, l.Pairwise (· < ·) → (pairs l).Pairwise (fun x y => x.2 ≤ y.1)
  | [], _ => by simp [pairs]
  | [x], _ => by simp [pairs]
  | x :: y :: rest, hs => by
    rw [pairs]
    have hs' := (List.pairwise_cons.mp hs).2
    refine List.pairwise_cons.mpr ⟨?_, pairs_ordered (y :: rest) hs'⟩
    intro cd hcd
    obtain ⟨c, d⟩ := cd
    obtain ⟨hc, _, _, _⟩ := pairs_mem_consecutive _ hs' c d hcd
    rcases List.mem_cons.mp hc with rfl | hc
    · exact le_refl _
    · exact le_of_lt ((List.pairwise_cons.mp hs').1 c hc)

/-- any two members of a pairwise-related list are equal or related one way or the other -/
theorem pairwise_trichotomy {α : Type} {R : α → α → Prop} :
    ∀ (l : List α), l.Pairwise R → ∀ x ∈ l, ∀ y ∈ l, x = y ∨ R x y ∨ R y x
  | [], _, x, hx, _, _ => by simp at hx
  | a :: l, h, x, hx, y, hy => by
    obtain ⟨h1, h2⟩ := List.pairwise_cons.mp h
    rcases List.mem_cons.mp hx with ex | hx <;> rcases List.mem_cons.mp hy with ey | hy
    · exact Or.inl (ex.trans ey.symm)
    · exact Or.inr (Or.inl (ex ▸ h1 y hy))
    · exact Or.inr (Or.inr (ey ▸ h1 x hx))
    · exact pairwise_trichotomy l h2 x hx y hy

end WB.C27
