/-
  C06: full specification of `exclude_equiv_points` for an equivalence relation on the indices:
  only new points are deleted, the survivors are the first points of their classes (in list order), and each
  survivor carries the sum of the weights of its class.
-/
import WB.Lemmas.C06Sum
import Mathlib.Algebra.BigOperators.Group.Finset.Basic
import Mathlib.Tactic.Linarith
import Mathlib.Tactic.Ring

namespace WB.C06
open Finset

/-- what never changes in a K-point during merging -/
def kkey (k : KPoint) : V3 × V3 × Nat := (k.K, k.dK, k.level)

def flagAt (s : ExState) (k : Nat) : Bool :=
  match s[k]? with
  | some e => e.2
  | none => true

def facAt (s : ExState) (k : Nat) : Rat :=
  match s[k]? with
  | some e => e.1.factor
  | none => 0

def cterm (eqv : Nat → Nat → Bool) (s : ExState) (c k : Nat) : Rat :=
  if eqv c k = true ∧ flagAt s k = false then facAt s k else 0

/-- weight of the not-yet-excluded members of the class of `c` -/
def classSum (eqv : Nat → Nat → Bool) (s : ExState) (n c : Nat) : Rat := ∑ k ∈ range n, cterm eqv s c k

/-! ### one step -/

/-- either nothing happens, or `j` is absorbed by `i` -/
theorem exclStep_cases (eqv : Nat → Nat → Bool) (nOld : Nat) (s : ExState) (ij : Nat × Nat) :
    exclStep eqv nOld s ij = s ∨
    ∃ ki kj, ij.1 < ij.2 ∧ ¬ (ij.1 < nOld ∧ ij.2 < nOld) ∧ s[ij.1]? = some (ki, false) ∧ s[ij.2]? = some (kj, false) ∧
      eqv ij.1 ij.2 = true ∧
      exclStep eqv nOld s ij =
        (s.set ij.1 ({ ki with factor := ki.factor + kj.factor }, false)).set ij.2 (kj, true) := by
  unfold exclStep
  split
  · rename_i hc
    split
    · rename_i ki kj h1 h2
      split
      · rename_i he
        exact Or.inr ⟨ki, kj, hc.1, hc.2, h1, h2, he, rfl⟩
      · exact Or.inl rfl
    · exact Or.inl rfl
  · exact Or.inl rfl

/-- entries after a transfer -/
theorem transfer_get (s : ExState) (i j : Nat) (ki kj : KPoint) (ki' : KPoint) (hij : i ≠ j)
    (h1 : s[i]? = some (ki, false)) (h2 : s[j]? = some (kj, false)) (k : Nat) :
    ((s.set i (ki', false)).set j (kj, true))[k]? =
      if k = j then some (kj, true) else if k = i then some (ki', false) else s[k]? := by
  have hi : i < s.length := (List.getElem?_eq_some_iff.mp h1).1
  have hj : j < s.length := (List.getElem?_eq_some_iff.mp h2).1
  by_cases hkj : k = j
  · subst hkj
    rw [if_pos rfl, List.getElem?_set_self (by simpa using hj)]
  · rw [if_neg hkj, List.getElem?_set_ne (fun h => hkj h.symm)]
    by_cases hki : k = i
    · subst hki
      rw [if_pos rfl, List.getElem?_set_self hi]
    · rw [if_neg hki, List.getElem?_set_ne (fun h => hki h.symm)]

section step
variable (eqv : Nat → Nat → Bool) (nOld n : Nat)

/-- hypotheses on the equivalence test -/
structure EqvHyp : Prop where
  refl : ∀ i, i < n → eqv i i = true
  symm : ∀ i j, i < n → j < n → eqv i j = true → eqv j i = true
  trans : ∀ i j k, i < n → j < n → k < n → eqv i j = true → eqv j k = true → eqv i k = true
  old : ∀ i j, i < nOld → j < nOld → i ≠ j → eqv i j = false

/-- `k` is the first point of its class -/
def isMin (k : Nat) : Prop := ∀ i, i < k → eqv i k = false

instance (k : Nat) : Decidable (isMin eqv k) := by unfold isMin; exact Nat.decidableBallLT k _

theorem flag_mono (s : ExState) (ij : Nat × Nat) (k : Nat) (h : flagAt s k = true) :
    flagAt (exclStep eqv nOld s ij) k = true := by
  rcases exclStep_cases eqv nOld s ij with e | ⟨ki, kj, hlt, _, h1, h2, _, e⟩
  · rw [e]; exact h
  · rw [e]
    unfold flagAt
    rw [transfer_get s ij.1 ij.2 ki kj _ (by omega) h1 h2 k]
    by_cases hkj : k = ij.2
    · simp [hkj]
    · by_cases hki : k = ij.1
      · subst hki
        unfold flagAt at h; rw [h1] at h; simp at h
      · simp only [hkj, hki, ↓reduceIte]
        exact h

theorem flag_mono_fold (pairs : List (Nat × Nat)) : ∀ (s : ExState) (k : Nat), flagAt s k = true →
    flagAt (pairs.foldl (exclStep eqv nOld) s) k = true := by
  induction pairs with
  | nil => intro s k h; exact h
  | cons p ps ih => intro s k h; simp only [List.foldl_cons]; exact ih _ k (flag_mono eqv nOld s p k h)

/-- the invariant of the double loop, relative to the initial state `s0` -/
structure ExInv (s0 s : ExState) : Prop where
  len : s.length = n
  keys : ∀ k : Nat, (s[k]?).map (fun e : KPoint × Bool => kkey e.1) = (s0[k]?).map (fun e : KPoint × Bool => kkey e.1)
  excl : ∀ k, k < n → flagAt s k = true → nOld ≤ k ∧ ∃ i, i < k ∧ eqv i k = true
  csum : ∀ c, c < n → classSum eqv s n c = classSum eqv s0 n c

theorem inv_step (H : EqvHyp eqv nOld n) (s0 s : ExState) (hI : ExInv eqv nOld n s0 s) (ij : Nat × Nat) :
    ExInv eqv nOld n s0 (exclStep eqv nOld s ij) := by
  rcases exclStep_cases eqv nOld s ij with e | ⟨ki, kj, hlt, hold, h1, h2, he, e⟩
  · rw [e]; exact hI
  · rw [e]
    have hi : ij.1 < n := by rw [← hI.len]; exact (List.getElem?_eq_some_iff.mp h1).1
    have hj : ij.2 < n := by rw [← hI.len]; exact (List.getElem?_eq_some_iff.mp h2).1
    have hne : ij.1 ≠ ij.2 := by omega
    have get := transfer_get s ij.1 ij.2 ki kj { ki with factor := ki.factor + kj.factor } hne h1 h2
    refine { len := by simp [hI.len], keys := ?_, excl := ?_, csum := ?_ }
    · intro k
      rw [get k, ← hI.keys k]
      by_cases hkj : k = ij.2
      · subst hkj; rw [if_pos rfl, h2]; rfl
      · rw [if_neg hkj]
        by_cases hki : k = ij.1
        · subst hki; rw [if_pos rfl, h1]; rfl
        · rw [if_neg hki]
    · intro k hk hf
      unfold flagAt at hf
      rw [get k] at hf
      by_cases hkj : k = ij.2
      · subst hkj
        exact ⟨by omega, ij.1, hlt, he⟩
      · rw [if_neg hkj] at hf
        by_cases hki : k = ij.1
        · rw [if_pos hki] at hf; simp at hf
        · rw [if_neg hki] at hf
          exact hI.excl k hk hf
    · intro c hc
      rw [← hI.csum c hc]
      unfold classSum
      have hmi : ij.1 ∈ range n := mem_range.mpr hi
      have hmj : ij.2 ∈ (range n).erase ij.1 := mem_erase.mpr ⟨hne.symm, mem_range.mpr hj⟩
      rw [← add_sum_erase _ _ hmi, ← add_sum_erase _ _ hmj, ← add_sum_erase (range n) (cterm eqv s c) hmi,
        ← add_sum_erase _ (cterm eqv s c) hmj]
      have hrest : ∀ k ∈ ((range n).erase ij.1).erase ij.2,
          cterm eqv ((s.set ij.1 ({ ki with factor := ki.factor + kj.factor }, false)).set ij.2 (kj, true)) c k =
            cterm eqv s c k := by
        intro k hk
        have hk2 : k ≠ ij.2 := (mem_erase.mp hk).1
        have hk1 : k ≠ ij.1 := (mem_erase.mp (mem_erase.mp hk).2).1
        unfold cterm flagAt facAt
        rw [get k, if_neg hk2, if_neg hk1]
      rw [sum_congr rfl hrest]
      have hcls : eqv c ij.1 = eqv c ij.2 := by
        cases h : eqv c ij.1 with
        | true => exact (H.trans c ij.1 ij.2 hc hi hj h he).symm
        | false =>
          cases h' : eqv c ij.2 with
          | false => rfl
          | true =>
            have := H.trans c ij.2 ij.1 hc hj hi h' (H.symm ij.1 ij.2 hi hj he)
            rw [h] at this; exact absurd this (by simp)
      have t1 : cterm eqv ((s.set ij.1 ({ ki with factor := ki.factor + kj.factor }, false)).set ij.2 (kj, true)) c ij.1 =
          if eqv c ij.1 = true then ki.factor + kj.factor else 0 := by
        unfold cterm flagAt facAt
        rw [get ij.1, if_neg hne, if_pos rfl]
        simp
      have t2 : cterm eqv ((s.set ij.1 ({ ki with factor := ki.factor + kj.factor }, false)).set ij.2 (kj, true)) c ij.2 = 0 := by
        unfold cterm flagAt
        rw [get ij.2, if_pos rfl]
        simp
      have t3 : cterm eqv s c ij.1 = if eqv c ij.1 = true then ki.factor else 0 := by
        unfold cterm flagAt facAt; rw [h1]; simp
      have t4 : cterm eqv s c ij.2 = if eqv c ij.1 = true then kj.factor else 0 := by
        unfold cterm flagAt facAt; rw [h2, hcls]; simp
      rw [t1, t2, t3, t4]
      split <;> ring

theorem inv_fold (H : EqvHyp eqv nOld n) (s0 : ExState) (pairs : List (Nat × Nat)) :
    ∀ s, ExInv eqv nOld n s0 s → ExInv eqv nOld n s0 (pairs.foldl (exclStep eqv nOld) s) := by
  induction pairs with
  | nil => intro s h; exact h
  | cons p ps ih => intro s h; simp only [List.foldl_cons]; exact ih _ (inv_step eqv nOld n H s0 s h p)

/-- processing the pair (first point of the class, `j`) excludes `j` -/
theorem step_excludes (H : EqvHyp eqv nOld n) (s0 s : ExState) (hI : ExInv eqv nOld n s0 s) (i j : Nat)
    (hij : i < j) (hj : j < n) (he : eqv i j = true) (hmin : isMin eqv i) :
    flagAt (exclStep eqv nOld s (i, j)) j = true := by
  have hi : i < n := by omega
  have hfi : flagAt s i = false := by
    cases h : flagAt s i with
    | false => rfl
    | true =>
      obtain ⟨_, i', hi', he'⟩ := hI.excl i hi h
      rw [hmin i' hi'] at he'; exact absurd he' (by simp)
  cases hfj : flagAt s j with
  | true => exact flag_mono eqv nOld s (i, j) j hfj
  | false =>
    have hli : i < s.length := by rw [hI.len]; exact hi
    have hlj : j < s.length := by rw [hI.len]; exact hj
    have g1 : s[i]? = some ((s[i]).1, false) := by
      unfold flagAt at hfi; rw [List.getElem?_eq_getElem hli] at hfi ⊢
      simp only at hfi; rw [← hfi]
    have g2 : s[j]? = some ((s[j]).1, false) := by
      unfold flagAt at hfj; rw [List.getElem?_eq_getElem hlj] at hfj ⊢
      simp only at hfj; rw [← hfj]
    have hold : ¬ (i < nOld ∧ j < nOld) := by
      rintro ⟨a, b⟩
      have := H.old i j a b (by omega)
      rw [he] at this; exact absurd this (by simp)
    have : exclStep eqv nOld s (i, j) =
        (s.set i ({ (s[i]).1 with factor := (s[i]).1.factor + (s[j]).1.factor }, false)).set j ((s[j]).1, true) := by
      unfold exclStep
      simp only [hij, hold, not_false_eq_true, and_self, ↓reduceIte, g1, g2, he]
    rw [this]
    unfold flagAt
    rw [transfer_get s i j _ _ _ (by omega) g1 g2 j, if_pos rfl]

theorem fold_excludes (H : EqvHyp eqv nOld n) (s0 : ExState) (i j : Nat)
    (hij : i < j) (hj : j < n) (he : eqv i j = true) (hmin : isMin eqv i) :
    ∀ (pairs : List (Nat × Nat)) (s : ExState), ExInv eqv nOld n s0 s → (i, j) ∈ pairs →
      flagAt (pairs.foldl (exclStep eqv nOld) s) j = true := by
  intro pairs
  induction pairs with
  | nil => intro s _ h; simp at h
  | cons p ps ih =>
    intro s hI hm
    simp only [List.foldl_cons]
    rcases List.mem_cons.mp hm with rfl | hm
    · exact flag_mono_fold eqv nOld ps _ j (step_excludes eqv nOld n H s0 s hI i j hij hj he hmin)
    · exact ih _ (inv_step eqv nOld n H s0 s hI p) hm

/-- every index has a first point of its class -/
theorem exists_min (H : EqvHyp eqv nOld n) : ∀ j, j < n → ∃ m, m ≤ j ∧ eqv m j = true ∧ isMin eqv m := by
  intro j
  induction j using Nat.strong_induction_on with
  | _ j ih =>
    intro hj
    by_cases hm : isMin eqv j
    · exact ⟨j, le_refl _, H.refl j hj, hm⟩
    · unfold isMin at hm
      simp only [not_forall] at hm
      obtain ⟨i, hi, he⟩ := hm
      have he' : eqv i j = true := by
        cases h : eqv i j with
        | true => rfl
        | false => exact absurd h he
      obtain ⟨m, hmi, hme, hmm⟩ := ih i hi (by omega)
      exact ⟨m, by omega, H.trans m i j (by omega) (by omega) hj hme he', hmm⟩

end step

/-! ### the final state -/

theorem init_inv (eqv : Nat → Nat → Bool) (nOld : Nat) (l : List KPoint) :
    ExInv eqv nOld l.length (l.map fun k => (k, false)) (l.map fun k => (k, false)) :=
  { len := by simp, keys := fun _ => rfl, excl := by
      intro k hk hf
      unfold flagAt at hf
      rw [List.getElem?_map, List.getElem?_eq_getElem hk] at hf
      simp at hf,
    csum := fun _ _ => rfl }

/-- weight of the whole class of `m` in the original list -/
def classWeight (eqv : Nat → Nat → Bool) (l : List KPoint) (m : Nat) : Rat :=
  ∑ j ∈ range l.length, if eqv m j = true then (l.getD j default).factor else 0

theorem classSum_init (eqv : Nat → Nat → Bool) (l : List KPoint) (c : Nat) :
    classSum eqv (l.map fun k => (k, false)) l.length c = classWeight eqv l c := by
  unfold classSum classWeight
  apply sum_congr rfl
  intro k hk
  have hk' : k < l.length := mem_range.mp hk
  unfold cterm flagAt facAt
  rw [List.getElem?_map, List.getElem?_eq_getElem hk']
  simp [List.getD_eq_getElem?_getD, List.getElem?_eq_getElem hk']

/-- contents of the final state -/
theorem final_state (eqv : Nat → Nat → Bool) (l : List KPoint) (np : Nat) (pairs : List (Nat × Nat))
    (H : EqvHyp eqv (l.length - np) l.length)
    (hcov : ∀ i j, i < j → j < l.length → eqv i j = true → (i, j) ∈ pairs) (k : Nat) (hk : k < l.length) :
    let sf := pairs.foldl (exclStep eqv (l.length - np)) (l.map fun k => (k, false))
    sf.length = l.length ∧
    (isMin eqv k → sf[k]? = some ({ l[k] with factor := classWeight eqv l k }, false)) ∧
    (¬ isMin eqv k → flagAt sf k = true) := by
  intro sf
  have hI : ExInv eqv (l.length - np) l.length (l.map fun k => (k, false)) sf :=
    inv_fold eqv _ _ H _ pairs _ (init_inv eqv _ l)
  -- every non-first point is excluded at the end
  have hexcl : ∀ j, j < l.length → ¬ isMin eqv j → flagAt sf j = true := by
    intro j hj hnm
    obtain ⟨m, hmj, hme, hmm⟩ := exists_min eqv _ _ H j hj
    have hlt : m < j := by
      rcases Nat.lt_or_ge m j with h | h
      · exact h
      · have : m = j := by omega
        subst this; exact absurd hmm hnm
    exact fold_excludes eqv _ _ H _ m j hlt hj hme hmm pairs _ (init_inv eqv _ l) (hcov m j hlt hj hme)
  refine ⟨hI.len, ?_, hexcl k hk⟩
  intro hmin
  have hfk : flagAt sf k = false := by
    cases h : flagAt sf k with
    | false => rfl
    | true =>
      obtain ⟨_, i, hi, he⟩ := hI.excl k hk h
      rw [hmin i hi] at he; exact absurd he (by simp)
  have hlk : k < sf.length := by rw [hI.len]; exact hk
  -- the class sum is carried by k alone
  have hsum : classSum eqv sf l.length k = facAt sf k := by
    unfold classSum
    rw [sum_eq_single k]
    · unfold cterm; rw [if_pos ⟨H.refl k hk, hfk⟩]
    · intro j hj hjk
      have hj' : j < l.length := mem_range.mp hj
      unfold cterm
      by_cases he : eqv k j = true
      · have hkj : k < j := by
          rcases Nat.lt_or_gt_of_ne hjk with h | h
          · have := hmin j h
            rw [H.symm k j hk hj' he] at this; exact absurd this (by simp)
          · exact h
        have : ¬ isMin eqv j := fun hm => by
          have := hm k hkj; rw [he] at this; exact absurd this (by simp)
        rw [if_neg]
        rintro ⟨_, hf⟩
        rw [hexcl j hj' this] at hf; exact absurd hf (by simp)
      · rw [if_neg (fun h => he h.1)]
    · intro h; exact absurd (mem_range.mpr hk) h
  have hfac : facAt sf k = classWeight eqv l k := by
    rw [← hsum, hI.csum k hk, classSum_init]
  -- assemble the entry
  have hkeys := hI.keys k
  rw [List.getElem?_eq_getElem hlk, List.getElem?_map, List.getElem?_eq_getElem hk] at hkeys
  simp only [Option.map_some, Option.some.injEq] at hkeys
  rw [List.getElem?_eq_getElem hlk]
  unfold flagAt at hfk
  unfold facAt at hfac
  rw [List.getElem?_eq_getElem hlk] at hfk hfac
  simp only at hfk hfac
  obtain ⟨e1, e2⟩ : sf[k] = (sf[k].1, sf[k].2) := rfl
  have : sf[k] = ({ l[k] with factor := classWeight eqv l k }, false) := by
    apply Prod.ext
    · unfold kkey at hkeys
      simp only [Prod.mk.injEq] at hkeys
      obtain ⟨a, b, c⟩ := hkeys
      cases hs : sf[k].1 with
      | mk K dK f lev =>
        rw [hs] at a b c hfac
        simp only at a b c hfac
        subst a b c hfac
        rfl
    · exact hfk
  rw [this]

/-- survivors of a flagged list, by index -/
theorem filter_by_index {α β : Type} (p : α → Bool) (f : α → β) (q : Nat → Bool) (h : Nat → Option β) :
    ∀ (s : List α), (∀ k (hk : k < s.length), p s[k] = q k ∧ (q k = true → h k = some (f s[k]))) →
      (s.filter p).map f = ((List.range s.length).filter q).filterMap h := by
  intro s
  induction s using List.reverseRecOn with
  | nil => intro _; rfl
  | append_singleton init x ih =>
    intro hs
    have hinit : ∀ k (hk : k < init.length), p init[k] = q k ∧ (q k = true → h k = some (f init[k])) := by
      intro k hk
      have := hs k (by simp; omega)
      rwa [List.getElem_append_left hk] at this
    have hx := hs init.length (by simp)
    rw [List.getElem_append_right (le_refl _)] at hx
    simp only [Nat.sub_self, List.getElem_cons_zero] at hx
    rw [List.length_append, List.length_singleton, List.range_succ, List.filter_append, List.filter_append,
      List.map_append, List.filterMap_append, ih hinit]
    congr 1
    cases hq : q init.length with
    | true =>
      have hp : p x = true := by rw [hx.1, hq]
      simp [hp, hq, hx.2 hq]
    | false =>
      have hp : p x = false := by rw [hx.1, hq]
      simp [hp, hq]

/-- the functional specification of `exclude_equiv_points` -/
theorem excludeEquivWith_spec (eqv : Nat → Nat → Bool) (groups : List (List Nat)) (l : List KPoint) (np : Nat)
    (H : EqvHyp eqv (l.length - np) l.length)
    (hcov : ∀ i j, i < j → j < l.length → eqv i j = true → (i, j) ∈ groupPairs groups) :
    excludeEquivWith eqv groups l np =
      ((List.range l.length).filter fun m => decide (isMin eqv m)).filterMap fun m =>
        (l[m]?).map fun k => { k with factor := classWeight eqv l m } := by
  unfold excludeEquivWith
  simp only
  have hlen := (final_state eqv l np (groupPairs groups) H hcov)
  by_cases hl : l.length = 0
  · have : l = [] := List.length_eq_zero_iff.mp hl
    subst this
    have hf : ∀ ps : List (Nat × Nat), ps.foldl (exclStep eqv (([] : List KPoint).length - np)) [] = [] := by
      intro ps
      induction ps with
      | nil => rfl
      | cons p ps ih =>
        simp only [List.foldl_cons]
        have : exclStep eqv (([] : List KPoint).length - np) [] p = [] := by
          unfold exclStep; split <;> simp
        rw [this]; exact ih
    simp only [List.map_nil, hf]
    rfl
  · have hl0 : 0 < l.length := Nat.pos_of_ne_zero hl
    have hL : ((groupPairs groups).foldl (exclStep eqv (l.length - np)) (l.map fun k => (k, false))).length = l.length :=
      (hlen 0 hl0).1
    rw [filter_by_index (fun e : KPoint × Bool => !e.2) (fun e => e.1) (fun m => decide (isMin eqv m))
      (fun m => (l[m]?).map fun k => { k with factor := classWeight eqv l m })]
    · rw [hL]
    · intro k hk
      rw [hL] at hk
      obtain ⟨_, hmin, hnot⟩ := hlen k hk
      by_cases hm : isMin eqv k
      · have e := hmin hm
        rw [List.getElem?_eq_getElem (by rw [hL]; exact hk)] at e
        simp only [Option.some.injEq] at e
        rw [e]
        refine ⟨by simp [hm], fun _ => ?_⟩
        rw [List.getElem?_eq_getElem hk]; rfl
      · have e := hnot hm
        unfold flagAt at e
        rw [List.getElem?_eq_getElem (by rw [hL]; exact hk)] at e
        simp only at e
        refine ⟨by simp [hm, e], fun h => ?_⟩
        simp [hm] at h

/-- only new points are deleted: the old points keep their place, position, cell and level (no hypothesis on the
    equivalence test or on the grouping) -/
theorem excludeEquivWith_keeps_old (eqv : Nat → Nat → Bool) (groups : List (List Nat)) (l : List KPoint) (np : Nat)
    (i : Nat) (hi : i < l.length - np) :
    ((excludeEquivWith eqv groups l np)[i]?).map kkey = (l[i]?).map kkey := by
  unfold excludeEquivWith
  simp only
  generalize hps : groupPairs groups = ps
  -- invariants that need no hypothesis: length, keys, old flags stay false
  have key : ∀ (ps : List (Nat × Nat)) (s : ExState), s.length = l.length →
      (∀ k : Nat, (s[k]?).map (fun e : KPoint × Bool => kkey e.1) = (l[k]?).map kkey) → (∀ k, k < l.length - np → flagAt s k = false) →
      let sf := ps.foldl (exclStep eqv (l.length - np)) s
      sf.length = l.length ∧ (∀ k : Nat, (sf[k]?).map (fun e : KPoint × Bool => kkey e.1) = (l[k]?).map kkey) ∧
        (∀ k, k < l.length - np → flagAt sf k = false) := by
    intro ps
    induction ps with
    | nil => intro s a b c; exact ⟨a, b, c⟩
    | cons p ps ih =>
      intro s a b c
      simp only [List.foldl_cons]
      rcases exclStep_cases eqv (l.length - np) s p with e | ⟨ki, kj, hlt, hold, h1, h2, _, e⟩
      · rw [e]; exact ih s a b c
      · rw [e]
        have get := transfer_get s p.1 p.2 ki kj { ki with factor := ki.factor + kj.factor } (by omega) h1 h2
        apply ih
        · simp [a]
        · intro k
          rw [get k, ← b k]
          by_cases hkj : k = p.2
          · subst hkj; rw [if_pos rfl, h2]; rfl
          · rw [if_neg hkj]
            by_cases hki : k = p.1
            · subst hki; rw [if_pos rfl, h1]; rfl
            · rw [if_neg hki]
        · intro k hk
          unfold flagAt
          rw [get k]
          have hkj : k ≠ p.2 := by
            intro h; subst h
            exact hold ⟨by omega, hk⟩
          rw [if_neg hkj]
          by_cases hki : k = p.1
          · rw [if_pos hki]
          · rw [if_neg hki]; exact c k hk
  obtain ⟨hlen, hkeys, hflags⟩ := key ps (l.map fun k => (k, false)) (by simp)
    (by intro k; rw [List.getElem?_map]; cases l[k]? <;> rfl)
    (by intro k hk; unfold flagAt; rw [List.getElem?_map, List.getElem?_eq_getElem (by omega)]; rfl)
  generalize ps.foldl (exclStep eqv (l.length - np)) (l.map fun k => (k, false)) = sf at hlen hkeys hflags
  -- the first nOld entries survive the filter in place
  have pre : ∀ (s : List (KPoint × Bool)) (m : Nat), m ≤ s.length → (∀ k, k < m → flagAt s k = false) →
      ∀ k, k < m → ((s.filter fun e => !e.2).map fun e => e.1)[k]? = (s[k]?).map fun e => e.1 := by
    intro s
    induction s with
    | nil => intro m hm _ k hk; simp at hm; omega
    | cons x s ih =>
      intro m hm hf k hk
      have h0 : x.2 = false := by
        have := hf 0 (by omega); unfold flagAt at this; simpa using this
      simp only [List.filter_cons, h0, Bool.not_false, ↓reduceIte, List.map_cons]
      cases k with
      | zero => rfl
      | succ k =>
        simp only [List.getElem?_cons_succ]
        exact ih (m - 1) (by simp at hm; omega) (fun j hj => by
          have := hf (j + 1) (by omega); unfold flagAt at this ⊢; simpa using this) k (by omega)
  rw [pre sf (l.length - np) (by omega) hflags i hi, ← hkeys i]
  cases sf[i]? <;> rfl

end WB.C06
