/-
  C10 / C11: the storage-name discipline of run() (name = position in K_list at assignment time) never lets two
  K-points share a file, for fresh and restarted histories.
-/
import WB.Model.C10
import Mathlib.Data.List.Basic
import Mathlib.Tactic.Linarith

set_option linter.unusedSectionVars false
set_option linter.unnecessarySeqFocus false

namespace WB.C10

variable {K : Type}

/-- every point is evaluated, carries its position as name, and the file of that name holds its own result -/
def AllNamed (files : List (Nat × K)) : Nat → List (NP K) → Prop
  | _, [] => True
  | off, p :: ps => p.ev = true ∧ p.name = some off ∧ lookupFile files off = some p.r ∧ AllNamed files (off + 1) ps

/-- the first `n` points are as in `AllNamed`, the rest is new (not evaluated) -/
def Good (files : List (Nat × K)) : Nat → Nat → List (NP K) → Prop
  | _, 0, ps => ∀ p ∈ ps, p.ev = false
  | _, _ + 1, [] => False
  | off, n + 1, p :: ps =>
    p.ev = true ∧ p.name = some off ∧ lookupFile files off = some p.r ∧ Good files (off + 1) n ps

theorem good_zero_iff (files : List (Nat × K)) (off : Nat) (ps : List (NP K)) :
    Good files off 0 ps ↔ ∀ p ∈ ps, p.ev = false := by
  cases ps <;> rfl

theorem good_append : ∀ (files : List (Nat × K)) (off : Nat) (ps cs : List (NP K)),
    AllNamed files off ps → (∀ c ∈ cs, c.ev = false) → Good files off ps.length (ps ++ cs)
  | files, off, [], cs, _, hc => by simpa [good_zero_iff] using hc
  | files, off, p :: ps, cs, h, hc => by
    obtain ⟨h1, h2, h3, h4⟩ := h
    exact ⟨h1, h2, h3, good_append files (off + 1) ps cs h4 hc⟩

theorem good_removeNP : ∀ (files : List (Nat × K)) (off n j : Nat) (ps : List (NP K)) (q : NP K),
    Good files off n ps → ps[j]? = some q → q.ev = false → Good files off n (removeNP j ps)
  | _, _, _, _, [], _, _, hq, _ => by simp at hq
  | files, off, 0, 0, p :: ps, _, h, _, _ => by
    rw [good_zero_iff] at h ⊢
    intro a ha
    exact h a (List.mem_cons_of_mem _ (by simpa [removeNP] using ha))
  | files, off, 0, j + 1, p :: ps, q, h, hq, hev => by
    rw [good_zero_iff] at h ⊢
    have ih := good_removeNP files (off + 1) 0 j ps q
      ((good_zero_iff ..).2 (fun a ha => h a (List.mem_cons_of_mem _ ha))) (by simpa using hq) hev
    rw [good_zero_iff] at ih
    intro a ha
    simp only [removeNP, List.mem_cons] at ha
    rcases ha with rfl | ha
    · exact h _ (List.mem_cons_self ..)
    · exact ih a ha
  | files, off, n + 1, 0, p :: ps, q, h, hq, hev => by
    simp only [List.getElem?_cons_zero, Option.some.injEq] at hq
    subst hq
    rw [h.1] at hev; exact Bool.noConfusion hev
  | files, off, n + 1, j + 1, p :: ps, q, h, hq, hev => by
    obtain ⟨h1, h2, h3, h4⟩ := h
    exact ⟨h1, h2, h3, good_removeNP files (off + 1) n j ps q h4 (by simpa using hq) hev⟩

theorem good_deleteNew (files : List (Nat × K)) (off n : Nat) (ps : List (NP K)) (j : Nat)
    (h : Good files off n ps) : Good files off n (deleteNew ps j) := by
  unfold deleteNew
  cases hq : ps[j]? with
  | none => exact h
  | some q =>
    dsimp only
    cases hev : q.ev with
    | true => simpa using h
    | false => simpa using good_removeNP files off n j ps q h hq hev

theorem good_foldl_deleteNew (files : List (Nat × K)) (off n : Nat) (dels : List Nat) :
    ∀ (ps : List (NP K)), Good files off n ps → Good files off n (dels.foldl deleteNew ps) := by
  induction dels with
  | nil => intro ps h; exact h
  | cons j dels ih => intro ps h; exact ih _ (good_deleteNew files off n ps j h)

theorem lookupFile_cons_ne (files : List (Nat × K)) (k j : Nat) (v : K) (h : k ≠ j) :
    lookupFile ((k, v) :: files) j = lookupFile files j := by
  unfold lookupFile
  rw [List.find?_cons_of_neg (by simpa using h)]

theorem lookupFile_cons_self (files : List (Nat × K)) (k : Nat) (v : K) :
    lookupFile ((k, v) :: files) k = some v := by
  unfold lookupFile
  simp

/-- naming the new tail with positions and evaluating it: everything is named, earlier files are untouched.
    `nk` is `nk_prev`: it equals the number of evaluated points in front (`off + n` when counted from `off`). -/
theorem named_after_process : ∀ (n off nk : Nat) (ps : List (NP K)) (files : List (Nat × K)),
    nk ≤ off + n → (0 < n → nk = off + n) → Good files off n ps →
      AllNamed (processN none (assignNames nk off ps) files).2.1 off (processN none (assignNames nk off ps) files).1 ∧
        (processN none (assignNames nk off ps) files).2.2.2 = false ∧
        (∀ j, j < off + n → lookupFile (processN none (assignNames nk off ps) files).2.1 j = lookupFile files j)
  | 0, off, nk, [], files, _, _, _ => by simp [assignNames, processN, AllNamed]
  | 0, off, nk, p :: ps, files, h1, _, h => by
    rw [good_zero_iff] at h
    have hp := h p (List.mem_cons_self ..)
    have hrest : Good ((off, p.r) :: files) (off + 1) 0 ps :=
      (good_zero_iff ..).2 (fun a ha => h a (List.mem_cons_of_mem _ ha))
    obtain ⟨i1, i2, i3⟩ := named_after_process 0 (off + 1) nk ps ((off, p.r) :: files) (by omega) (by omega) hrest
    simp only [Nat.add_zero] at i3 h1 ⊢
    simp only [assignNames, h1, if_true, processN, hp, Bool.false_eq_true, if_false, Option.map_none]
    refine ⟨⟨rfl, rfl, ?_, i1⟩, i2, ?_⟩
    · rw [i3 off (by omega)]; exact lookupFile_cons_self ..
    · intro j hj
      rw [i3 j (by omega)]
      exact lookupFile_cons_ne _ _ _ _ (by omega)
  | n + 1, off, nk, [], files, _, _, h => by cases h
  | n + 1, off, nk, p :: ps, files, hn1, hn2, h => by
    obtain ⟨h1, h2, h3, h4⟩ := h
    have hnk : nk = off + (n + 1) := hn2 (by omega)
    obtain ⟨i1, i2, i3⟩ := named_after_process n (off + 1) nk ps files (by omega) (by intro _; omega) h4
    simp only [assignNames, show ¬ (nk ≤ off) by omega, if_false, processN, h1, if_true]
    refine ⟨⟨h1, h2, ?_, i1⟩, i2, ?_⟩
    · rw [i3 off (by omega)]; exact h3
    · intro j hj; exact i3 j (by omega)

theorem processN_length : ∀ (ps : List (NP K)) (ctr : Option Nat) (files : List (Nat × K)),
    (processN ctr ps files).1.length = ps.length
  | [], _, _ => rfl
  | p :: ps, ctr, files => by
    cases hev : p.ev with
    | true => simp [processN, hev, processN_length ps]
    | false =>
      cases ctr with
      | some c => simp [processN, hev, processN_length ps]
      | none =>
        cases hn : p.name with
        | some n => simp [processN, hev, hn, processN_length ps]
        | none => simp [processN, hev, hn, processN_length ps]

theorem assignNames_length : ∀ (nk off : Nat) (ps : List (NP K)), (assignNames nk off ps).length = ps.length
  | _, _, [] => rfl
  | nk, off, p :: ps => by simp [assignNames, assignNames_length nk (off + 1) ps]

theorem allNamed_get : ∀ (files : List (Nat × K)) (off : Nat) (ps : List (NP K)), AllNamed files off ps →
    ∀ (i : Nat) (p : NP K), ps[i]? = some p →
      p.ev = true ∧ p.name = some (off + i) ∧ lookupFile files (off + i) = some p.r
  | _, _, [], _, i, p, hp => by simp at hp
  | files, off, q :: ps, h, 0, p, hp => by
    simp only [List.getElem?_cons_zero, Option.some.injEq] at hp
    subst hp
    exact ⟨h.1, h.2.1, h.2.2.1⟩
  | files, off, q :: ps, h, i + 1, p, hp => by
    have := allNamed_get files (off + 1) ps h.2.2.2 i p (by simpa using hp)
    rw [show off + (i + 1) = off + 1 + i by omega]
    exact this

/-- the invariant at the end of every event, for the naming rule of the real code -/
structure NInv (s : NState K) : Prop where
  named : AllNamed s.files 0 s.pts
  nk : s.nkPrev = s.pts.length
  ok : s.err = false

theorem ninv_step (s : NState K) (e : NEvent K) (h : NInv s) : NInv (nstep NameRule.atIterStart s e) := by
  cases e with
  | restart => exact ⟨h.named, rfl, h.ok⟩
  | iter children deletes =>
    simp only [nstep, show (NameRule.atIterStart = NameRule.beforeDelete) = False by simp, if_false,
      show (NameRule.atIterStart = NameRule.perRunCounter) = False by simp, if_true]
    have hg := good_append s.files 0 s.pts (children.map (fun r => ({ r := r, ev := false, name := none } : NP K)))
      h.named (by intro c hc; obtain ⟨r, _, rfl⟩ := List.mem_map.1 hc; rfl)
    have hg2 := good_foldl_deleteNew s.files 0 s.pts.length deletes _ hg
    rw [h.nk]
    obtain ⟨i1, i2, _⟩ := named_after_process s.pts.length 0 s.pts.length _ s.files (by omega) (by intro _; omega) hg2
    exact ⟨i1, rfl, by rw [h.ok, i2]; rfl⟩

theorem ninv_run (events : List (NEvent K)) : NInv (nrun NameRule.atIterStart events) := by
  unfold nrun
  have h0 : NInv ({ pts := [], files := [], nkPrev := 0, counter := 0, err := false } : NState K) :=
    ⟨trivial, rfl, rfl⟩
  generalize ({ pts := [], files := [], nkPrev := 0, counter := 0, err := false } : NState K) = s0 at h0
  induction events generalizing s0 with
  | nil => exact h0
  | cons e es ih => exact ih _ (ninv_step s0 e h0)

end WB.C10
