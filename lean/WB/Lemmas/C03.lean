/-
  C03 helper lemmas: re-indexing of the k-point sums, the `% 1` of in-range k-points, the folded FFT.
-/
import WB.Model.C03
import WB.Lemmas.C06Sum
import WB.Lemmas.C06Bridge
import Mathlib.Data.Rat.Floor
import Mathlib.Algebra.BigOperators.Group.Finset.Basic
import Mathlib.Algebra.BigOperators.GroupWithZero.Action
import Mathlib.Algebra.BigOperators.Ring.Finset
import Mathlib.Algebra.Module.Defs
import Mathlib.Algebra.Module.Rat
import Mathlib.Algebra.Order.Field.Rat
import Mathlib.Tactic.Linarith
import Mathlib.Tactic.Ring
import Mathlib.Tactic.FieldSimp
import Mathlib.Tactic.Positivity

namespace WB.C03
open WB.C06 Finset

/-! ### T1: the index bijection of one direction -/

theorem index_lt (d f x m : Nat) (hx : x < d) (hm : m < f) : m * d + x < d * f := by
  have : (m + 1) * d ≤ f * d := Nat.mul_le_mul_right d hm
  rw [Nat.add_mul] at this
  rw [Nat.mul_comm d f]; omega

theorem index_inj (d x m x' m' : Nat) (hx : x < d) (hx' : x' < d) (h : m * d + x = m' * d + x') :
    x = x' ∧ m = m' := by
  obtain ⟨a, b⟩ := mul_add_inj d m x m' x' hx hx' h
  exact ⟨b, a⟩

theorem index_surj (d f n : Nat) (hd : 0 < d) (hn : n < d * f) :
    n % d < d ∧ n / d < f ∧ (n / d) * d + n % d = n := by
  refine ⟨Nat.mod_lt n hd, ?_, ?_⟩
  · exact Nat.div_lt_of_lt_mul hn
  · rw [Nat.mul_comm]; exact Nat.div_add_mod n d

/-! ### sums over ranges -/

variable {V : Type} [AddCommMonoid V]

theorem list_sum_range (g : Nat → V) : ∀ n : Nat, ((List.range n).map g).sum = ∑ i ∈ range n, g i
  | 0 => by simp
  | n + 1 => by
    rw [List.range_succ, List.map_append, List.sum_append, list_sum_range g n, Finset.sum_range_succ]
    simp

theorem sum_flatMap_map {α β : Type} (h : α → List β) (g : β → V) :
    ∀ l : List α, ((l.flatMap h).map g).sum = (l.map fun a => ((h a).map g).sum).sum
  | [] => by simp
  | a :: l => by
    simp only [List.flatMap_cons, List.map_append, List.sum_append, List.map_cons, List.sum_cons,
      sum_flatMap_map h g l]

theorem sum_flatOrder (n : Idx) (g : Idx → V) :
    ((flatOrder n).map g).sum = ∑ x ∈ range n.1, ∑ y ∈ range n.2.1, ∑ z ∈ range n.2.2, g (x, y, z) := by
  unfold flatOrder
  rw [sum_flatMap_map, list_sum_range]
  apply Finset.sum_congr rfl
  intro x _
  rw [sum_flatMap_map, list_sum_range]
  apply Finset.sum_congr rfl
  intro y _
  rw [List.map_map, list_sum_range]
  rfl

/-- one direction: summing over the K-points `x < d` and the FFT points `i < f` of each is summing over the
    whole grid `a < d f`, with `a = i d + x` -/
theorem sum_factor (d : Nat) (G : Nat → V) :
    ∀ f : Nat, ∑ x ∈ range d, ∑ i ∈ range f, G (i * d + x) = ∑ a ∈ range (d * f), G a := by
  intro f
  rw [Finset.sum_comm]
  induction f with
  | zero => simp
  | succ f ih =>
    rw [Finset.sum_range_succ, ih, Nat.mul_succ, Finset.sum_range_add]
    congr 1
    apply Finset.sum_congr rfl
    intro x _
    rw [Nat.mul_comm f d]

/-! ### the k-points of a K-point of the initial grid -/

theorem floor_eq (q : Rat) : (q.floor : Int) = ⌊q⌋ := rfl

theorem frac_of_unit (q : Rat) (h0 : 0 ≤ q) (h1 : q < 1) : frac q = q := by
  unfold frac
  rw [floor_eq, Int.floor_eq_zero_iff.mpr ⟨h0, h1⟩]
  simp

/-- `(i/f + (x/d)/f) % 1 = (i d + x)/(d f)` for `x < d`, `i < f` -/
theorem kpoint_1d (d f x i : Nat) (hx : x < d) (hi : i < f) :
    frac ((i : Rat) * (1 / (f : Rat)) + ((x : Rat) * (1 / (d : Rat))) / (f : Rat)) =
      ((i * d + x : Nat) : Rat) * (1 / ((d * f : Nat) : Rat)) := by
  have hd : (0 : Rat) < d := by exact_mod_cast (by omega : 0 < d)
  have hf : (0 : Rat) < f := by exact_mod_cast (by omega : 0 < f)
  have e : (i : Rat) * (1 / (f : Rat)) + ((x : Rat) * (1 / (d : Rat))) / (f : Rat) =
      ((i * d + x : Nat) : Rat) * (1 / ((d * f : Nat) : Rat)) := by
    push_cast; field_simp
  rw [e]
  apply frac_of_unit
  · positivity
  · have hlt : ((i * d + x : Nat) : Rat) < ((d * f : Nat) : Rat) := by exact_mod_cast index_lt d f x i hx hi
    have hpos : (0 : Rat) < ((d * f : Nat) : Rat) := by push_cast; positivity
    rw [mul_one_div, div_lt_one hpos]
    exact hlt

/-! ### the folded FFT -/

section fold
variable {K : Type} [CommSemiring K]

theorem sum_filter_partition (f : Nat) (hf : 0 < f) (Rs : List Int) (g : Int → Nat → K) :
    ((List.range f).map fun (c : Nat) => ((Rs.filter fun R => R % (f : Int) == (c : Int)).map fun R => g R c).sum).sum
      = (Rs.map fun R => g R (R % (f : Int)).toNat).sum := by
  induction Rs with
  | nil => simp
  | cons R Rs ih =>
    have hr0 : 0 ≤ R % (f : Int) := Int.emod_nonneg R (by omega)
    have hr1 : R % (f : Int) < f := Int.emod_lt_of_pos R (by omega)
    have hc : ((R % (f : Int)).toNat : Int) = R % (f : Int) := Int.toNat_of_nonneg hr0
    have hlt : (R % (f : Int)).toNat < f := by omega
    -- split the outer sum: the term of R appears exactly for c = R % f
    have key : ∀ c : Nat, ((((R :: Rs).filter fun R' => R' % (f : Int) == (c : Int)).map fun R' => g R' c).sum : K) =
        (if c = (R % (f : Int)).toNat then g R c else 0) +
          ((Rs.filter fun R' => R' % (f : Int) == (c : Int)).map fun R' => g R' c).sum := by
      intro c
      by_cases h : c = (R % (f : Int)).toNat
      · have : (R % (f : Int) == (c : Int)) = true := by rw [h, hc]; simp
        rw [List.filter_cons, if_pos this, List.map_cons, List.sum_cons, if_pos h]
      · have : ¬ ((R % (f : Int) == (c : Int)) = true) := by
          intro heq
          apply h
          have := eq_of_beq heq
          omega
        rw [List.filter_cons, if_neg this, if_neg h, zero_add]
    simp only [key]
    rw [List.map_cons, List.sum_cons, ← ih]
    rw [list_sum_range, list_sum_range, Finset.sum_add_distrib]
    congr 1
    rw [Finset.sum_ite_eq' (range f) (R % (f : Int)).toNat (fun c => g R c)]
    simp [hlt]

end fold

/-! ### the main re-indexing in three directions -/

section main
variable {V : Type} [AddCommMonoid V] [Module ℚ V]

theorem getKList_nosym_eq (syms : List Sym) (div : Idx) :
    getKList syms div false =
      (flatOrder div).map fun p =>
        { K := gridK div p, dK := gridDK div, factor := 1 / ((div.1 * div.2.1 * div.2.2 : Nat) : Rat), level := 0 } := by
  unfold getKList finalGrid initGrid
  simp only [Bool.false_eq_true, ↓reduceIte, List.filterMap_map]
  rw [← List.filterMap_eq_map]
  rfl

/-- the k-point of K-point `p` and FFT point `i` as the code computes it -/
def kpt (div fft : Idx) (p i : Idx) : V3 :=
  ⟨frac ((i.1 : Rat) * (1 / fft.1) + ((p.1 : Rat) * (1 / div.1)) / fft.1),
   frac ((i.2.1 : Rat) * (1 / fft.2.1) + ((p.2.1 : Rat) * (1 / div.2.1)) / fft.2.1),
   frac ((i.2.2 : Rat) * (1 / fft.2.2) + ((p.2.2 : Rat) * (1 / div.2.2)) / fft.2.2)⟩

theorem wsum_gridKW (syms : List Sym) (div fft : Idx) (f : V3 → V) :
    wsum (gridKW (getKList syms div false) fft) f =
      ((flatOrder div).map fun p => ((flatOrder fft).map fun i =>
        ((1 / ((div.1 * div.2.1 * div.2.2 : Nat) : Rat)) / ((nprod fft : Nat) : Rat)) • f (kpt div fft p i)).sum).sum := by
  rw [getKList_nosym_eq]
  unfold wsum gridKW kpointsAll pointsFFT kpFullBZ gridK kpt
  rw [sum_flatMap_map, List.map_map]
  congr 1
  apply List.map_congr_left
  intro p _
  simp only [Function.comp_def, List.map_map]

omit [Module ℚ V] in
theorem reorder6 (s1 s2 s3 t1 t2 t3 : Finset Nat) (A : Nat → Nat → Nat → Nat → Nat → Nat → V) :
    ∑ x ∈ s1, ∑ y ∈ s2, ∑ z ∈ s3, ∑ i ∈ t1, ∑ j ∈ t2, ∑ l ∈ t3, A x y z i j l =
    ∑ x ∈ s1, ∑ i ∈ t1, ∑ y ∈ s2, ∑ j ∈ t2, ∑ z ∈ s3, ∑ l ∈ t3, A x y z i j l := by
  apply Finset.sum_congr rfl
  intro x _
  have h1 : ∑ y ∈ s2, ∑ z ∈ s3, ∑ i ∈ t1, ∑ j ∈ t2, ∑ l ∈ t3, A x y z i j l =
      ∑ y ∈ s2, ∑ i ∈ t1, ∑ z ∈ s3, ∑ j ∈ t2, ∑ l ∈ t3, A x y z i j l :=
    Finset.sum_congr rfl fun y _ => Finset.sum_comm
  rw [h1, Finset.sum_comm]
  apply Finset.sum_congr rfl
  intro i _
  apply Finset.sum_congr rfl
  intro y _
  exact Finset.sum_comm

omit [Module ℚ V] in
theorem sum_factor3 (d f : Idx) (H : Nat → Nat → Nat → V) :
    ∑ x ∈ range d.1, ∑ y ∈ range d.2.1, ∑ z ∈ range d.2.2, ∑ i ∈ range f.1, ∑ j ∈ range f.2.1, ∑ l ∈ range f.2.2,
        H (i * d.1 + x) (j * d.2.1 + y) (l * d.2.2 + z) =
    ∑ a ∈ range (d.1 * f.1), ∑ b ∈ range (d.2.1 * f.2.1), ∑ c ∈ range (d.2.2 * f.2.2), H a b c := by
  rw [reorder6]
  have hz : ∀ a b : Nat, ∑ z ∈ range d.2.2, ∑ l ∈ range f.2.2, H a b (l * d.2.2 + z) =
      ∑ c ∈ range (d.2.2 * f.2.2), H a b c := fun a b => sum_factor d.2.2 (fun c => H a b c) f.2.2
  have hy : ∀ a : Nat, ∑ y ∈ range d.2.1, ∑ j ∈ range f.2.1, ∑ c ∈ range (d.2.2 * f.2.2), H a (j * d.2.1 + y) c =
      ∑ b ∈ range (d.2.1 * f.2.1), ∑ c ∈ range (d.2.2 * f.2.2), H a b c :=
    fun a => sum_factor d.2.1 (fun b => ∑ c ∈ range (d.2.2 * f.2.2), H a b c) f.2.1
  simp only [hz, hy]
  exact sum_factor d.1 (fun a => ∑ b ∈ range (d.2.1 * f.2.1), ∑ c ∈ range (d.2.2 * f.2.2), H a b c) f.1

end main

/-! ### the time-reversal sign in the image of a reduced k-vector: `k ↦ iTR · iInv · (k M)` -/

/-- the rule WITHOUT the sign of time reversal (the operation is treated as if it did not contain TR) -/
def dropTR (s : Sym) : Sym := { s with tr := false }

def negV (v : V3) : V3 := ⟨-v.x, -v.y, -v.z⟩

theorem dropTR_apply (s : Sym) (k : V3) :
    (dropTR s).apply k = if s.tr = true then negV (s.apply k) else s.apply k := by
  unfold dropTR Sym.apply Sym.sign negV
  cases s.tr <;> cases s.inv <;> simp

/-- if the group contains the inversion (every operation has a partner with the same TR flag acting as its negative),
    the set of images of any k is the same with and without the TR sign -/
theorem images_same_with_inversion (syms : List Sym)
    (hinv : ∀ s ∈ syms, ∃ t ∈ syms, t.tr = s.tr ∧ ∀ k : V3, t.apply k = negV (s.apply k)) (k v : V3) :
    (∃ s ∈ syms, v = (dropTR s).apply k) ↔ (∃ s ∈ syms, v = s.apply k) := by
  have hnn : ∀ w : V3, negV (negV w) = w := by intro w; unfold negV; simp
  constructor
  · rintro ⟨s, hs, rfl⟩
    rw [dropTR_apply]
    cases h : s.tr with
    | false => exact ⟨s, hs, by simp⟩
    | true =>
      obtain ⟨t, ht, _, hneg⟩ := hinv s hs
      exact ⟨t, ht, by simp [hneg k]⟩
  · rintro ⟨s, hs, rfl⟩
    cases h : s.tr with
    | false => exact ⟨s, hs, by rw [dropTR_apply, h]; simp⟩
    | true =>
      obtain ⟨t, ht, htr, hneg⟩ := hinv s hs
      refine ⟨t, ht, ?_⟩
      rw [dropTR_apply, htr, h, hneg k]
      simp [hnn]

end WB.C03
