/-
  C14 — band groups of `TetraWeights.weights_all_band_groups`: with the Fermi-sea completion every band is counted
  exactly once, so the tetrahedron cumulative DOS is 0 below all bands and NB above them.
-/
import WB.Model.C14
import Mathlib.Data.List.Basic
import Mathlib.Algebra.Order.Field.Basic
import Mathlib.Tactic.Linarith
import Mathlib.Tactic.Ring
import Mathlib.Tactic.FieldSimp
import Mathlib.Tactic.NormNum

namespace WB.C14
open WB.C15 (pairs blocks borders sliceMax sliceMin isCut)

theorem foldl_add_eq_sum (l : List Rat) (x0 : Rat) : l.foldl (· + ·) x0 = x0 + l.sum := by
  induction l generalizing x0 with
  | nil => simp
  | cons y l ih => simp only [List.foldl_cons, List.sum_cons, ih]; ring

theorem foldl_max_ge_iff (l : List Rat) (x0 c : Rat) :
    c ≤ l.foldl (fun m x => if x > m then x else m) x0 ↔ c ≤ x0 ∨ ∃ x ∈ l, c ≤ x := by
  induction l generalizing x0 with
  | nil => simp
  | cons y l ih =>
    simp only [List.foldl_cons, ih, List.mem_cons, exists_eq_or_imp]
    by_cases h : y > x0
    · simp only [h, if_true]
      constructor
      · rintro (h1 | h1)
        · exact Or.inr (Or.inl h1)
        · exact Or.inr (Or.inr h1)
      · rintro (h1 | h1 | h1)
        · exact Or.inl (le_trans h1 h.le)
        · exact Or.inl h1
        · exact Or.inr h1
    · simp only [h, if_false]
      constructor
      · rintro (h1 | h1)
        · exact Or.inl h1
        · exact Or.inr (Or.inr h1)
      · rintro (h1 | h1 | h1)
        · exact Or.inl h1
        · exact Or.inl (le_trans h1 (not_lt.mp h))
        · exact Or.inr h1

theorem foldl_min_le_iff (l : List Rat) (x0 c : Rat) :
    l.foldl (fun m x => if x < m then x else m) x0 ≤ c ↔ x0 ≤ c ∨ ∃ x ∈ l, x ≤ c := by
  induction l generalizing x0 with
  | nil => simp
  | cons y l ih =>
    simp only [List.foldl_cons, ih, List.mem_cons, exists_eq_or_imp]
    by_cases h : y < x0
    · simp only [h, if_true]
      constructor
      · rintro (h1 | h1)
        · exact Or.inr (Or.inl h1)
        · exact Or.inr (Or.inr h1)
      · rintro (h1 | h1 | h1)
        · exact Or.inl (le_trans h.le h1)
        · exact Or.inl h1
        · exact Or.inr h1
    · simp only [h, if_false]
      constructor
      · rintro (h1 | h1)
        · exact Or.inl h1
        · exact Or.inr (Or.inr h1)
      · rintro (h1 | h1 | h1)
        · exact Or.inl h1
        · exact Or.inl (le_trans (not_lt.mp h) h1)
        · exact Or.inr h1

theorem sliceMax_ge_iff (E : Nat → Rat) (a b : Nat) (c : Rat) :
    c ≤ sliceMax E a b ↔ c ≤ E a ∨ ∃ j, j < b - a ∧ c ≤ E (a + j) := by
  unfold sliceMax
  rw [foldl_max_ge_iff]
  simp only [List.mem_map, List.mem_range]
  constructor
  · rintro (h | ⟨x, ⟨j, hj, rfl⟩, hx⟩)
    · exact Or.inl h
    · exact Or.inr ⟨j, hj, hx⟩
  · rintro (h | ⟨j, hj, hx⟩)
    · exact Or.inl h
    · exact Or.inr ⟨_, ⟨j, hj, rfl⟩, hx⟩

theorem sliceMin_le_iff (E : Nat → Rat) (a b : Nat) (c : Rat) :
    sliceMin E a b ≤ c ↔ E a ≤ c ∨ ∃ j, j < b - a ∧ E (a + j) ≤ c := by
  unfold sliceMin
  rw [foldl_min_le_iff]
  simp only [List.mem_map, List.mem_range]
  constructor
  · rintro (h | ⟨x, ⟨j, hj, rfl⟩, hx⟩)
    · exact Or.inl h
    · exact Or.inr ⟨j, hj, hx⟩
  · rintro (h | ⟨j, hj, hx⟩)
    · exact Or.inl h
    · exact Or.inr ⟨_, ⟨j, hj, rfl⟩, hx⟩

/-- for band-index-monotone `Emax` the maximum over a block is attained at its last band -/
theorem sliceMax_ge_mono (E : Nat → Rat) (n a b : Nat) (hab : a < b) (hbn : b ≤ n)
    (hmono : ∀ i j, i ≤ j → j < n → E i ≤ E j) (c : Rat) :
    c ≤ sliceMax E a b ↔ c ≤ E (b - 1) := by
  rw [sliceMax_ge_iff]
  constructor
  · rintro (h | ⟨j, hj, h⟩)
    · exact le_trans h (hmono a (b - 1) (by omega) (by omega))
    · exact le_trans h (hmono (a + j) (b - 1) (by omega) (by omega))
  · intro h
    refine Or.inr ⟨b - 1 - a, by omega, ?_⟩
    have : a + (b - 1 - a) = b - 1 := by omega
    rw [this]; exact h

/-! ### `get_bands_below_range` -/

theorem find?_reverse_range_some {p : Nat → Bool} {n i : Nat} (h : (List.range n).reverse.find? p = some i) :
    i < n ∧ p i = true ∧ ∀ k, i < k → k < n → p k = false := by
  refine ⟨?_, List.find?_some h, ?_⟩
  · have := List.mem_of_find?_eq_some h; simpa using this
  · intro k hk hkn
    rw [List.find?_eq_some_iff_append] at h
    obtain ⟨_, as, bs, hsplit, hall⟩ := h
    by_contra hne
    have hkt : p k = true := by cases hw : p k <;> simp_all
    have hmem : k ∈ (List.range n).reverse := by simp [hkn]
    rw [hsplit] at hmem
    rcases List.mem_append.mp hmem with hm | hm
    · have := hall k hm; simp [hkt] at this
    · rcases List.mem_cons.mp hm with rfl | hm
      · omega
      · have hp : ((List.range n).reverse).Pairwise (· > ·) := by
          rw [List.pairwise_reverse]; exact List.pairwise_lt_range
        rw [hsplit] at hp
        have := (List.pairwise_cons.mp (List.pairwise_append.mp hp).2.1).1 k hm
        omega

theorem bandsBelow_some (Emax : Nat → Rat) (n : Nat) (emin : Rat) :
    bandsBelow Emax n (some emin) =
      match (List.range n).reverse.find? (fun i => decide (Emax i < emin)) with
      | some i => i + 1
      | none => 0 := rfl

/-- for band-index-monotone `Emax`: `get_bands_below_range` counts the bands lying entirely below `emin` -/
theorem bandsBelow_spec (Emax : Nat → Rat) (n : Nat) (emin : Rat)
    (hmono : ∀ i j, i ≤ j → j < n → Emax i ≤ Emax j) :
    bandsBelow Emax n (some emin) ≤ n ∧ ∀ i, i < n → (i < bandsBelow Emax n (some emin) ↔ Emax i < emin) := by
  rw [bandsBelow_some]
  cases hf : (List.range n).reverse.find? (fun i => decide (Emax i < emin)) with
  | some i =>
    show i + 1 ≤ n ∧ ∀ k, k < n → (k < i + 1 ↔ Emax k < emin)
    obtain ⟨hin, hpi, hlast⟩ := find?_reverse_range_some hf
    simp only [decide_eq_true_eq] at hpi
    refine ⟨by omega, ?_⟩
    intro k hk
    constructor
    · intro hki
      exact lt_of_le_of_lt (hmono k i (by omega) hin) hpi
    · intro hlt
      by_contra hge
      have := hlast k (by omega) hk
      simp only [decide_eq_false_iff_not] at this
      exact this hlt
  | none =>
    show 0 ≤ n ∧ ∀ k, k < n → (k < 0 ↔ Emax k < emin)
    rw [List.find?_eq_none] at hf
    refine ⟨Nat.zero_le _, ?_⟩
    intro k hk
    constructor
    · intro h; omega
    · intro hlt
      have := hf k (by simp [hk])
      simp only [decide_eq_true_eq] at this
      exact absurd hlt this

/-! ### consecutive pairs of a strictly increasing border list -/

theorem pairs_snd_gt : ∀ (l : List Nat) (x : Nat), (x :: l).Pairwise (· < ·) → ∀ ab ∈ pairs (x :: l),
    x ≤ ab.1 ∧ ab.1 < ab.2 ∧ ab.2 ≤ (x :: l).getLast (List.cons_ne_nil _ _)
  | [], x, _, ab, h => by simp [pairs] at h
  | y :: rest, x, hs, ab, h => by
    rw [pairs] at h
    have hxy : x < y := (List.pairwise_cons.mp hs).1 y (by simp)
    have hs' := (List.pairwise_cons.mp hs).2
    have hlast : (x :: y :: rest).getLast (List.cons_ne_nil _ _) = (y :: rest).getLast (List.cons_ne_nil _ _) := by
      simp [List.getLast_cons]
    rcases List.mem_cons.mp h with rfl | h
    · refine ⟨le_refl _, hxy, ?_⟩
      rw [hlast]
      -- y ≤ last of a strictly increasing list starting with y
      have : ∀ (r : List Nat) (y : Nat), (y :: r).Pairwise (· < ·) → y ≤ (y :: r).getLast (List.cons_ne_nil _ _) := by
        intro r
        induction r with
        | nil => intro y _; simp
        | cons z r ih =>
          intro y hp
          have hyz : y < z := (List.pairwise_cons.mp hp).1 z (by simp)
          have := ih z (List.pairwise_cons.mp hp).2
          simp only [List.getLast_cons (List.cons_ne_nil z r)]
          omega
      exact this rest y hs'
    · obtain ⟨h1, h2, h3⟩ := pairs_snd_gt rest y hs' ab h
      exact ⟨by omega, h2, by rw [hlast]; exact h3⟩

/-- telescoping sum of the block sizes -/
theorem sum_pairs_all : ∀ (l : List Nat) (x : Nat), (x :: l).Pairwise (· < ·) →
    ((pairs (x :: l)).map identTrace).sum = (((x :: l).getLast (List.cons_ne_nil _ _) : Nat) : Rat) - (x : Rat)
  | [], x, _ => by simp [pairs]
  | y :: rest, x, hs => by
    rw [pairs]
    have hxy : x < y := (List.pairwise_cons.mp hs).1 y (by simp)
    have hs' := (List.pairwise_cons.mp hs).2
    have ih := sum_pairs_all rest y hs'
    have hlast : (x :: y :: rest).getLast (List.cons_ne_nil _ _) = (y :: rest).getLast (List.cons_ne_nil _ _) := by
      simp [List.getLast_cons]
    rw [List.map_cons, List.sum_cons, ih, hlast]
    unfold identTrace
    rw [Nat.cast_sub hxy.le]
    ring

/-- size of the lumped Fermi-sea group as the code computes it -/
def lumpSize (fl : List (Nat × Nat)) (m : Nat) : Nat :=
  match fl.head? with
  | some ab => min m ab.1
  | none => m

/-- KEY counting lemma: the blocks ending above `m` plus the lumped group `[0, min(m, first kept block))`
    account for every index below the last border exactly once -/
theorem blocks_plus_lump : ∀ (l : List Nat) (x m : Nat), (x :: l).Pairwise (· < ·) → x ≤ m →
    m ≤ (x :: l).getLast (List.cons_ne_nil _ _) →
    (((pairs (x :: l)).filter (fun ab => decide (m < ab.2))).map identTrace).sum
      + ((lumpSize ((pairs (x :: l)).filter (fun ab => decide (m < ab.2))) m : Nat) : Rat)
      = (((x :: l).getLast (List.cons_ne_nil _ _) : Nat) : Rat)
  | [], x, m, _, h1, h2 => by
    simp only [List.getLast_singleton] at h2
    have : m = x := by omega
    subst this
    simp [pairs, lumpSize]
  | y :: rest, x, m, hs, h1, h2 => by
    have hxy : x < y := (List.pairwise_cons.mp hs).1 y (by simp)
    have hs' := (List.pairwise_cons.mp hs).2
    have hlast : (x :: y :: rest).getLast (List.cons_ne_nil _ _) = (y :: rest).getLast (List.cons_ne_nil _ _) := by
      simp [List.getLast_cons]
    rw [pairs]
    by_cases hmy : m < y
    · -- the first block is kept, hence all of them
      have hall : (pairs (y :: rest)).filter (fun ab => decide (m < ab.2)) = pairs (y :: rest) := by
        rw [List.filter_eq_self]
        intro ab hab
        obtain ⟨h3, h4, _⟩ := pairs_snd_gt rest y hs' ab hab
        simp only [decide_eq_true_eq]; omega
      rw [List.filter_cons_of_pos (by simpa using hmy), hall, List.map_cons, List.sum_cons,
        sum_pairs_all rest y hs', hlast]
      have : lumpSize ((x, y) :: pairs (y :: rest)) m = x := by
        simp only [lumpSize, List.head?_cons]; omega
      rw [this]
      unfold identTrace
      rw [Nat.cast_sub hxy.le]
      ring
    · have hym : y ≤ m := by omega
      rw [List.filter_cons_of_neg (by simpa using hmy), hlast]
      exact blocks_plus_lump rest y m hs' hym (by rw [← hlast]; exact h2)

/-! ### the border list starts with 0 and ends with n -/

theorem borders_sorted' (E : Nat → Rat) (th : Rat) (n : Nat) (kr : Bool) :
    (borders E th n kr).Pairwise (· < ·) :=
  List.Pairwise.filter _ List.pairwise_lt_range

theorem mem_borders_le {E : Nat → Rat} {th : Rat} {n : Nat} {kr : Bool} {i : Nat} (h : i ∈ borders E th n kr) :
    i ≤ n := by
  unfold borders at h
  have := (List.mem_filter.mp h).1
  simp only [List.mem_range] at this; omega

theorem last_of_sorted_max : ∀ (l : List Nat) (x n : Nat), (x :: l).Pairwise (· < ·) → n ∈ (x :: l) →
    (∀ c ∈ (x :: l), c ≤ n) → (x :: l).getLast (List.cons_ne_nil _ _) = n
  | [], x, n, _, hn, _ => by
    have : n = x := by simpa using hn
    simp [this]
  | y :: rest, x, n, hs, hn, hle => by
    have hxy : x < y := (List.pairwise_cons.mp hs).1 y (by simp)
    have hs' := (List.pairwise_cons.mp hs).2
    have hlast : (x :: y :: rest).getLast (List.cons_ne_nil _ _) = (y :: rest).getLast (List.cons_ne_nil _ _) := by
      simp [List.getLast_cons]
    rw [hlast]
    apply last_of_sorted_max rest y n hs'
    · rcases List.mem_cons.mp hn with rfl | h
      · have := hle y (by simp); omega
      · exact h
    · intro c hc; exact hle c (List.mem_cons_of_mem _ hc)

theorem borders_shape (E : Nat → Rat) (th : Rat) (n : Nat) (kr : Bool) (hk : kr = true → n % 2 = 0) :
    ∃ l, borders E th n kr = 0 :: l ∧ (0 :: l).getLast (List.cons_ne_nil _ _) = n := by
  have hs := borders_sorted' E th n kr
  have h0 : 0 ∈ borders E th n kr := by
    unfold borders
    refine List.mem_filter.mpr ⟨by simp, ?_⟩
    cases kr <;> simp
  have hN : n ∈ borders E th n kr := by
    unfold borders
    refine List.mem_filter.mpr ⟨by simp, ?_⟩
    cases kr
    · simp
    · have := hk rfl; simp [this]
  obtain ⟨l, hl⟩ : ∃ l, borders E th n kr = 0 :: l := by
    cases hb : borders E th n kr with
    | nil => rw [hb] at h0; simp at h0
    | cons x l =>
      rw [hb] at h0 hs
      rcases List.mem_cons.mp h0 with h | h
      · exact ⟨l, by rw [← h]⟩
      · have := (List.pairwise_cons.mp hs).1 0 h; omega
  refine ⟨l, hl, ?_⟩
  apply last_of_sorted_max l 0 n (hl ▸ hs) (hl ▸ hN)
  intro c hc; rw [← hl] at hc; exact mem_borders_le hc

/-- every block `(a,b)` has `a < b ≤ n` -/
theorem blocks_bounds (E : Nat → Rat) (th : Rat) (n : Nat) (kr : Bool) (hk : kr = true → n % 2 = 0)
    (ab : Nat × Nat) (h : ab ∈ blocks E th n kr) : ab.1 < ab.2 ∧ ab.2 ≤ n := by
  obtain ⟨l, hl, hlast⟩ := borders_shape E th n kr hk
  unfold blocks at h
  rw [hl] at h
  obtain ⟨_, h2, h3⟩ := pairs_snd_gt l 0 (hl ▸ borders_sorted' E th n kr) ab h
  exact ⟨h2, by rw [← hlast]; exact h3⟩

/-! ### the two limits of the tetrahedron cumulative DOS -/

/-- the lumped sea group (when present) is `(0, lumpSize)`; when absent `lumpSize = 0` -/
theorem seaGroup_value (Emax : Nat → Rat) (n : Nat) (F : List (Nat × Nat)) (ef0 : Rat) :
    lumpValue (seaGroup Emax n F ef0 none) identTrace
      = ((lumpSize F (bandsBelow Emax n (some ef0)) : Nat) : Rat) := by
  have hb : bandsBelow Emax n none = 0 := rfl
  unfold lumpValue seaGroup lumpSize
  rw [hb]
  generalize bandsBelow Emax n (some ef0) = M
  cases F.head? with
  | none =>
    simp only []
    by_cases hM : M > 0
    · simp [hM, identTrace]
    · have : M = 0 := by omega
      simp [this]
  | some ab =>
    simp only []
    by_cases hM : min M ab.1 > 0
    · simp [hM, identTrace]
    · have : min M ab.1 = 0 := by omega
      simp [this]

theorem groupWeight_const (w : Nat → Rat) (c : Rat) (ab : Nat × Nat) (hab : ab.1 < ab.2)
    (hw : ∀ i, ab.1 ≤ i → i < ab.2 → w i = c) : groupWeight w ab = c := by
  unfold groupWeight
  have hmap : (List.range (ab.2 - ab.1)).map (fun j => w (ab.1 + j)) = (List.range (ab.2 - ab.1)).map (fun _ => c) := by
    apply List.map_congr_left
    intro j hj
    simp only [List.mem_range] at hj
    exact hw _ (by omega) (by omega)
  rw [hmap, foldl_add_eq_sum]
  have hpos : ((ab.2 - ab.1 : Nat) : Rat) ≠ 0 := by
    have : 0 < ab.2 - ab.1 := by omega
    exact_mod_cast this.ne'
  have hsum : ∀ k : Nat, ((List.range k).map (fun _ => c)).sum = (k : Rat) * c := by
    intro k
    induction k with
    | zero => simp
    | succ k ih => rw [List.range_succ, List.map_append, List.sum_append, ih]; simp; ring
  rw [hsum, zero_add]
  field_simp

/-- T7 (above): when the Fermi level is above every corner of every band (by the margin `δ` beyond which the band
    weights are 1: `δ = 3·diff_min` for `weights_tetra`), the tetrahedron cumulative DOS of a k-point is the
    number of bands: each band is counted exactly once, either in a group of the Fermi window (weight 1) or in
    the lumped sea group -/
theorem tetraCumDOS_above_aux (Ec Emin Emax : Nat → Rat) (th : Rat) (n : Nat) (kr : Bool) (ef0 efN ef : Rat)
    (w : Nat → Rat) (hk : kr = true → n % 2 = 0)
    (hmm : ∀ i, i < n → Emin i ≤ Emax i) (hmono : ∀ i j, i ≤ j → j < n → Emax i ≤ Emax j)
    (hN : ef ≤ efN) (δ : Rat) (hδ : 0 ≤ δ) (habove : ∀ i, i < n → Emax i + δ ≤ ef)
    (hw : ∀ i, i < n → Emax i + δ ≤ ef → w i = 1) :
    tetraCumDOS Ec Emin Emax th n kr ef0 efN w = (n : Rat) := by
  obtain ⟨hmle, hmiff⟩ := bandsBelow_spec Emax n ef0 hmono
  obtain ⟨l, hl, hlast⟩ := borders_shape Ec th n kr hk
  -- which blocks are in the Fermi window
  have hfilter : inRange Ec Emin Emax th n kr ef0 efN =
      (blocks Ec th n kr).filter (fun ab => decide (bandsBelow Emax n (some ef0) < ab.2)) := by
    unfold inRange
    apply List.filter_congr
    intro ab hab
    obtain ⟨h1, h2⟩ := blocks_bounds Ec th n kr hk ab hab
    have hmin : sliceMin Emin ab.1 ab.2 ≤ efN := by
      rw [sliceMin_le_iff]
      have h5 := habove ab.1 (by omega)
      exact Or.inl (le_trans (hmm _ (by omega)) (by linarith))
    have hmax : (sliceMax Emax ab.1 ab.2 ≥ ef0) ↔ bandsBelow Emax n (some ef0) < ab.2 := by
      rw [ge_iff_le, sliceMax_ge_mono Emax n ab.1 ab.2 h1 h2 hmono]
      have := hmiff (ab.2 - 1) (by omega)
      constructor
      · intro h
        by_contra hc
        have h3 : ab.2 - 1 < bandsBelow Emax n (some ef0) := by omega
        exact absurd (this.mp h3) (not_lt.mpr h)
      · intro h
        by_contra hc
        have := this.mpr (not_le.mp hc)
        omega
    simp only [hmin, decide_true, Bool.and_true, decide_eq_decide]
    exact hmax
  unfold tetraCumDOS tetraResult
  simp only []
  rw [hfilter]
  -- weights of the kept groups are 1
  have hmapw : ((blocks Ec th n kr).filter (fun ab => decide (bandsBelow Emax n (some ef0) < ab.2))).map
        (fun ab => groupWeight w ab * identTrace ab) =
      ((blocks Ec th n kr).filter (fun ab => decide (bandsBelow Emax n (some ef0) < ab.2))).map identTrace := by
    apply List.map_congr_left
    intro ab hab
    obtain ⟨h1, h2⟩ := blocks_bounds Ec th n kr hk ab (List.mem_filter.mp hab).1
    rw [groupWeight_const w 1 ab h1 (fun i _ hi => hw i (by omega) (habove i (by omega))), one_mul]
  rw [hmapw, foldl_add_eq_sum, zero_add]
  rw [seaGroup_value]
  unfold blocks
  rw [hl]
  have := blocks_plus_lump l 0 (bandsBelow Emax n (some ef0)) (hl ▸ borders_sorted' Ec th n kr) (Nat.zero_le _)
    (by rw [hlast]; exact hmle)
  rw [hlast] at this
  exact this

/-- T7 (below): when the Fermi level is below every corner of every band the tetrahedron cumulative DOS vanishes -/
theorem tetraCumDOS_below_aux (Ec Emin Emax : Nat → Rat) (th : Rat) (n : Nat) (kr : Bool) (ef0 efN ef : Rat)
    (w : Nat → Rat) (hk : kr = true → n % 2 = 0)
    (hmm : ∀ i, i < n → Emin i ≤ Emax i)
    (h0 : ef0 ≤ ef) (hbelow : ∀ i, i < n → ef < Emin i)
    (hw : ∀ i, i < n → ef < Emin i → w i = 0) :
    tetraCumDOS Ec Emin Emax th n kr ef0 efN w = 0 := by
  have hb0 : bandsBelow Emax n (some ef0) = 0 := by
    rw [bandsBelow_some]
    cases hf : (List.range n).reverse.find? (fun i => decide (Emax i < ef0)) with
    | some i =>
      exfalso
      have hi := List.find?_some hf
      have hin : i < n := by have := List.mem_of_find?_eq_some hf; simpa using this
      simp only [decide_eq_true_eq] at hi
      have := hbelow i hin
      have := hmm i hin
      linarith
    | none => rfl
  unfold tetraCumDOS tetraResult
  simp only []
  have hmapw : (inRange Ec Emin Emax th n kr ef0 efN).map (fun ab => groupWeight w ab * identTrace ab) =
      (inRange Ec Emin Emax th n kr ef0 efN).map (fun _ => (0 : Rat)) := by
    apply List.map_congr_left
    intro ab hab
    unfold inRange at hab
    obtain ⟨h1, h2⟩ := blocks_bounds Ec th n kr hk ab (List.mem_filter.mp hab).1
    rw [groupWeight_const w 0 ab h1 (fun i _ hi => hw i (by omega) (hbelow i (by omega))), zero_mul]
  rw [hmapw, foldl_add_eq_sum]
  have hz : ((inRange Ec Emin Emax th n kr ef0 efN).map (fun _ => (0 : Rat))).sum = 0 := by
    generalize inRange Ec Emin Emax th n kr ef0 efN = L
    induction L with
    | nil => simp
    | cons a L ih => simp [ih]
  rw [hz, seaGroup_value, hb0]
  unfold lumpSize
  cases (inRange Ec Emin Emax th n kr ef0 efN).head? <;> simp

end WB.C14
