/-
  C01 — `exclude_zeros`: which R vectors are kept, and why dropping all-zero blocks changes no k-space sum.
-/
import WB.Lemmas.C01Basic

namespace WB.C01

theorem mem_excludeZeros {K : Type} (big : K → Bool) (blocks : List (Vec3 × List K)) (b : Vec3 × List K) :
    b ∈ excludeZeros big blocks ↔ b ∈ blocks ∧ ∃ x ∈ b.2, big x = true := by
  unfold excludeZeros
  rw [List.mem_filter, List.any_eq_true]

section
variable {K : Type} [Field K]

/-- a list sum splits into the kept and the dropped part -/
theorem sumK_filter_split {α} (l : List α) (p : α → Bool) (f : α → K) :
    sumK (l.map f) = sumK ((l.filter p).map f) + sumK ((l.filter fun a => !p a).map f) := by
  induction l with
  | nil => simp [sumK_nil]
  | cons a l ih =>
    cases h : p a
    · simp only [List.map_cons, sumK_cons, List.filter_cons, h, Bool.false_eq_true, ↓reduceIte, Bool.not_false, ih]
      ring
    · simp only [List.map_cons, sumK_cons, List.filter_cons, h, ↓reduceIte, Bool.not_true, Bool.false_eq_true, ih]
      ring

theorem sumK_excludeZeros (big : K → Bool) (blocks : List (Vec3 × List K)) (f : Vec3 × List K → K) :
    sumK (blocks.map f) = sumK ((excludeZeros big blocks).map f)
      + sumK ((blocks.filter fun b => !(b.2.any big)).map f) :=
  sumK_filter_split blocks (fun b => b.2.any big) f

end

end WB.C01
