/-
  C13 — the calculator with `fder = n` is the n-th central difference of the Fermi-sea calculator (same formula)
  on the Fermi grid extended by `extraEf` points on both sides; the lumped sea group cancels.
-/
import WB.Lemmas.C13Step

namespace WB.C13
open WB.C14 (foldl_add_eq_sum)

/-- the Fermi grid is uniform with the spacing the code itself uses (`Efermi[1]-Efermi[0]`, or 0.001 for one point) -/
def Uniform (Ef : Nat → Rat) (n : Nat) : Prop := ∀ j, j < n → Ef j = Ef 0 + (j : Rat) * dEF Ef n

theorem extraEf_pos {fder : Nat} (h1 : 1 ≤ fder) (h3 : fder ≤ 3) : 1 ≤ extraEf fder := by
  have : fder = 1 ∨ fder = 2 ∨ fder = 3 := by omega
  rcases this with rfl | rfl | rfl <;> simp [extraEf]

section grid
variable (fder : Nat) (Ef : Nat → Rat) (n : Nat)

theorem ext_dEF (h1 : 1 ≤ fder) (h3 : fder ≤ 3) :
    dEF (extGrid fder Ef n) (nEFextra n fder) = dEF Ef n := by
  have he := extraEf_pos h1 h3
  have hN : nEFextra n fder > 1 := by unfold nEFextra; omega
  have h : dEF (extGrid fder Ef n) (nEFextra n fder) = extGrid fder Ef n 1 - extGrid fder Ef n 0 := by
    unfold dEF; rw [if_pos hN]
  rw [h]
  unfold extGrid
  push_cast
  ring

theorem ext_EFmin :
    EFmin (extGrid fder Ef n) (nEFextra n fder) 0 = EFmin Ef n fder := by
  have h0 : extraEf 0 = 0 := rfl
  have h : EFmin (extGrid fder Ef n) (nEFextra n fder) 0 =
      extGrid fder Ef n 0 - ((extraEf 0 : Nat) : Rat) * dEF (extGrid fder Ef n) (nEFextra n fder) := rfl
  rw [h, h0]
  unfold extGrid
  push_cast
  ring

theorem ext_EFmax (hn : 0 < n) (hu : Uniform Ef n) :
    EFmax (extGrid fder Ef n) (nEFextra n fder) 0 = EFmax Ef n fder := by
  have h0 : extraEf 0 = 0 := rfl
  have h : EFmax (extGrid fder Ef n) (nEFextra n fder) 0 =
      extGrid fder Ef n (nEFextra n fder - 1) +
        ((extraEf 0 : Nat) : Rat) * dEF (extGrid fder Ef n) (nEFextra n fder) := rfl
  have h' : EFmax Ef n fder = Ef (n - 1) + ((extraEf fder : Nat) : Rat) * dEF Ef n := rfl
  have hm : EFmin Ef n fder = Ef 0 - ((extraEf fder : Nat) : Rat) * dEF Ef n := rfl
  rw [h, h0, h', hu (n - 1) (by omega)]
  unfold extGrid nEFextra
  rw [hm]
  have c1 : ((n + 2 * extraEf fder - 1 : Nat) : Rat) = (n : Rat) + 2 * (extraEf fder : Rat) - 1 := by
    rw [Nat.cast_sub (by omega)]; push_cast; ring
  have c2 : ((n - 1 : Nat) : Rat) = (n : Rat) - 1 := by
    rw [Nat.cast_sub (by omega)]; push_cast; ring
  rw [c1, c2]
  push_cast
  ring

end grid

/-- with `sea = True` (and no band selection) the dictionary is the `sea = False` one plus possibly the lumped group -/
theorem groups_sea_split (E : Nat → Rat) (th : Rat) (nb : Nat) (kr : Bool) (emin emax : Rat) (v : Nat × Nat → Rat) :
    ∃ c : Rat, ∀ (d : Rat) (j : Nat),
      accumulate emin emax d (groupsWithValues E th nb kr emin emax true none v) j =
        accumulate emin emax d (groupsWithValues E th nb kr emin emax false none v) j + c := by
  unfold groupsWithValues groupsIK
  by_cases hb : seaBandmax E nb emin (windowGroups E th nb kr emin emax none) > 0
  · refine ⟨v (0, seaBandmax E nb emin (windowGroups E th nb kr emin emax none)) *
      wsel none (0, seaBandmax E nb emin (windowGroups E th nb kr emin emax none)), ?_⟩
    intro d j
    simp only [Bool.true_and, Bool.false_and, decide_eq_true_eq, hb, if_true, List.map_append, List.map_cons,
      List.map_nil, Bool.false_eq_true, if_false]
    rw [accumulate_append]
    congr 1
    unfold accumulate contrib
    simp
  · refine ⟨0, ?_⟩
    intro d j
    simp only [Bool.true_and, Bool.false_and, decide_eq_true_eq, hb, if_false, Bool.false_eq_true, add_zero]

/-- T3 (one k-point / k-resolved).  For `fder = 1, 2, 3` and a uniform Fermi grid, the result at every Fermi level is
    the code's central-difference stencil applied to the Fermi-sea (`fder = 0`) result of the same formula on the
    extended grid `EFmin + j·dEF`; the lumped group `(0, bandmax)` is constant along the grid and cancels -/
theorem surface_is_fd_of_sea_resolved (fder : Nat) (h1 : 1 ≤ fder) (h3 : fder ≤ 3) (Ef : Nat → Rat) (n : Nat)
    (hn : 0 < n) (hu : Uniform Ef n) (E : Nat → Rat) (th : Rat) (nb : Nat) (kr : Bool) (v : Nat × Nat → Rat)
    (j : Nat) :
    resolved fder Ef n (calcK fder Ef n E th nb kr none v) j =
      stencil fder (dEF Ef n)
        (fun i => resolved 0 (extGrid fder Ef n) (nEFextra n fder)
          (calcK 0 (extGrid fder Ef n) (nEFextra n fder) E th nb kr none v) i) j := by
  obtain ⟨c, hc⟩ := groups_sea_split E th nb kr (EFmin Ef n fder) (EFmax Ef n fder) v
  have hf : fder ≠ 0 := by omega
  unfold resolved calcK
  simp only [stencil_0, ext_dEF fder Ef n h1 h3, ext_EFmin fder Ef n, ext_EFmax fder Ef n hn hu]
  have e0 : ((0 : Nat) == 0) = true := rfl
  have ef : (fder == 0) = false := by simpa using hf
  rw [e0, ef]
  have : (fun i => accumulate (EFmin Ef n fder) (EFmax Ef n fder) (dEF Ef n)
      (groupsWithValues E th nb kr (EFmin Ef n fder) (EFmax Ef n fder) true none v) i) =
      fun i => accumulate (EFmin Ef n fder) (EFmax Ef n fder) (dEF Ef n)
        (groupsWithValues E th nb kr (EFmin Ef n fder) (EFmax Ef n fder) false none v) i + c :=
    funext fun i => hc (dEF Ef n) i
  rw [this, stencil_add_const fder h1]

/-- a k-point: band energies, number of bands, and the formula trace of a group -/
abbrev KPoint := (Nat → Rat) × Nat × (Nat × Nat → Rat)

theorem sumK_add_const (rs : List ((Nat → Rat) × Rat)) :
    ∃ C : Rat, ∀ j, sumK (rs.map (fun rc => fun i => rc.1 i + rc.2)) j = sumK (rs.map (fun rc => rc.1)) j + C := by
  induction rs with
  | nil => exact ⟨0, fun j => by simp [sumK_nil]⟩
  | cons rc rs ih =>
    obtain ⟨C, hC⟩ := ih
    refine ⟨rc.2 + C, fun j => ?_⟩
    simp only [List.map_cons, sumK_cons, hC j]
    ring

/-- T3 (k-summed).  The unresolved `fder = n` result is the stencil of the unresolved Fermi-sea result on the
    extended grid -/
theorem surface_is_fd_of_sea_aux (fder : Nat) (h1 : 1 ≤ fder) (h3 : fder ≤ 3) (Ef : Nat → Rat) (n : Nat)
    (hn : 0 < n) (hu : Uniform Ef n) (th : Rat) (kr : Bool) (ks : List KPoint) (j : Nat) :
    unresolved fder Ef n (ks.map (fun k => calcK fder Ef n k.1 th k.2.1 kr none k.2.2)) j =
      stencil fder (dEF Ef n)
        (fun i => unresolved 0 (extGrid fder Ef n) (nEFextra n fder)
          (ks.map (fun k => calcK 0 (extGrid fder Ef n) (nEFextra n fder) k.1 th k.2.1 kr none k.2.2)) i) j := by
  have hf : fder ≠ 0 := by omega
  have e0 : ((0 : Nat) == 0) = true := rfl
  have ef : (fder == 0) = false := by simpa using hf
  unfold unresolved calcK
  simp only [stencil_0, ext_dEF fder Ef n h1 h3, ext_EFmin fder Ef n, ext_EFmax fder Ef n hn hu,
    List.length_map, List.map_map, e0, ef]
  rw [stencil_div]
  congr 1
  -- per k-point: sea accumulation = surface accumulation + constant
  have hk : ∀ k : KPoint, ∃ c : Rat, ∀ i,
      accumulate (EFmin Ef n fder) (EFmax Ef n fder) (dEF Ef n)
        (groupsWithValues k.1 th k.2.1 kr (EFmin Ef n fder) (EFmax Ef n fder) true none k.2.2) i =
      accumulate (EFmin Ef n fder) (EFmax Ef n fder) (dEF Ef n)
        (groupsWithValues k.1 th k.2.1 kr (EFmin Ef n fder) (EFmax Ef n fder) false none k.2.2) i + c := by
    intro k
    obtain ⟨c, hc⟩ := groups_sea_split k.1 th k.2.1 kr (EFmin Ef n fder) (EFmax Ef n fder) k.2.2
    exact ⟨c, fun i => hc (dEF Ef n) i⟩
  choose cf hcf using hk
  have hsea : (ks.map ((fun g => accumulate (EFmin Ef n fder) (EFmax Ef n fder) (dEF Ef n) g) ∘
      fun k : KPoint => groupsWithValues k.1 th k.2.1 kr (EFmin Ef n fder) (EFmax Ef n fder) true none k.2.2)) =
      ((ks.map (fun k : KPoint => ((fun i => accumulate (EFmin Ef n fder) (EFmax Ef n fder) (dEF Ef n)
        (groupsWithValues k.1 th k.2.1 kr (EFmin Ef n fder) (EFmax Ef n fder) false none k.2.2) i), cf k))).map
        (fun rc => fun i => rc.1 i + rc.2)) := by
    rw [List.map_map]
    apply List.map_congr_left
    intro k _
    funext i
    exact hcf k i
  have hsurf : (ks.map ((fun g => accumulate (EFmin Ef n fder) (EFmax Ef n fder) (dEF Ef n) g) ∘
      fun k : KPoint => groupsWithValues k.1 th k.2.1 kr (EFmin Ef n fder) (EFmax Ef n fder) false none k.2.2)) =
      ((ks.map (fun k : KPoint => ((fun i => accumulate (EFmin Ef n fder) (EFmax Ef n fder) (dEF Ef n)
        (groupsWithValues k.1 th k.2.1 kr (EFmin Ef n fder) (EFmax Ef n fder) false none k.2.2) i), cf k))).map
        (fun rc => rc.1)) := by
    rw [List.map_map]
    apply List.map_congr_left
    intro k _
    rfl
  obtain ⟨C, hC⟩ := sumK_add_const (ks.map (fun k : KPoint =>
    ((fun i => accumulate (EFmin Ef n fder) (EFmax Ef n fder) (dEF Ef n)
      (groupsWithValues k.1 th k.2.1 kr (EFmin Ef n fder) (EFmax Ef n fder) false none k.2.2) i), cf k)))
  rw [hsea, hsurf]
  have : sumK ((ks.map (fun k : KPoint =>
      ((fun i => accumulate (EFmin Ef n fder) (EFmax Ef n fder) (dEF Ef n)
        (groupsWithValues k.1 th k.2.1 kr (EFmin Ef n fder) (EFmax Ef n fder) false none k.2.2) i), cf k))).map
      (fun rc => fun i => rc.1 i + rc.2)) = fun i => sumK ((ks.map (fun k : KPoint =>
      ((fun i => accumulate (EFmin Ef n fder) (EFmax Ef n fder) (dEF Ef n)
        (groupsWithValues k.1 th k.2.1 kr (EFmin Ef n fder) (EFmax Ef n fder) false none k.2.2) i), cf k))).map
      (fun rc => rc.1)) i + C := funext hC
  rw [this, stencil_add_const fder h1]

end WB.C13
