/-
  C01 — the rational tolerance test of the model is the code's test on the true distances.

  The code compares distances `dist = √q`, `dist_min = √qmin`.  To avoid importing real analysis the statement is
  made in an arbitrary ordered field `K` (ℝ included) for any non-negative `a`, `b` with `a² = q`, `b² = qmin`.
-/
import WB.Model.C01
import Mathlib.Algebra.Order.Field.Basic
import Mathlib.Algebra.Order.Field.Rat
import Mathlib.Data.Rat.Cast.Order
import Mathlib.Tactic.Linarith
import Mathlib.Tactic.Ring
import Mathlib.Tactic.Positivity

namespace WB.C01

/-- `withinTol` is exactly the code's test `abs(dist - dist_min) < tol` on the true distances -/
theorem withinTol_iff_dist {K : Type} [Field K] [LinearOrder K] [IsStrictOrderedRing K]
    (tol q qmin : ℚ) (htol : 0 < tol) (hq : qmin ≤ q)
    (a b : K) (ha0 : 0 ≤ a) (hb0 : 0 ≤ b) (ha2 : a * a = (q : K)) (hb2 : b * b = (qmin : K)) :
    withinTol tol q qmin = true ↔ |a - b| < (tol : K) := by
  have hqr : (qmin : K) ≤ (q : K) := by exact_mod_cast hq
  have htr : (0 : K) < (tol : K) := by exact_mod_cast htol
  have hab : b ≤ a := by
    by_contra h
    have h := not_le.mp h
    have := mul_self_lt_mul_self ha0 h
    rw [ha2, hb2] at this
    exact absurd hqr (not_le.mpr this)
  rw [abs_of_nonneg (by linarith)]
  unfold withinTol
  simp only [Bool.or_eq_true, decide_eq_true_eq]
  have c1 : (q - qmin - tol * tol < 0) ↔ ((q : K) - qmin - tol * tol < 0) := by
    rw [← Rat.cast_lt (K := K)]; push_cast; rfl
  have c2 : ((q - qmin - tol * tol) * (q - qmin - tol * tol) < 4 * tol * tol * qmin) ↔
      (((q : K) - qmin - tol * tol) * ((q : K) - qmin - tol * tol) < 4 * tol * tol * qmin) := by
    rw [← Rat.cast_lt (K := K)]; push_cast; rfl
  rw [c1, c2, ← ha2, ← hb2]
  constructor
  · rintro (h | h)
    · nlinarith [mul_pos htr htr, mul_nonneg htr.le hb0]
    · -- d² < (2 tol b)²  ⇒  d < 2 tol b
      have h2 : (a * a - b * b - tol * tol) < 2 * tol * b := by
        by_contra hc
        have hc := not_lt.mp hc
        have : (2 * tol * b) * (2 * tol * b) ≤ (a * a - b * b - tol * tol) * (a * a - b * b - tol * tol) :=
          mul_self_le_mul_self (by positivity) hc
        nlinarith
      nlinarith
  · intro h
    by_cases hd : a * a - b * b - tol * tol < 0
    · left; exact hd
    · right
      have hd := not_lt.mp hd
      have h2 : a * a - b * b - tol * tol < 2 * tol * b := by nlinarith
      have := mul_self_lt_mul_self hd h2
      nlinarith

end WB.C01
