/-
  C21 helper lemmas, f shell: the zonal kernel (addition theorem for l = 3) and the weighted orthogonality
  Σ_j w_j B_ij B_i'j = w_i δ_ii'  (w_j = 1/n_j²) of the matrix in the integer basis.
-/
import WB.Lemmas.C21F2

namespace WB.C21

variable {K : Type} [Field K] [CharZero K]

/-! ### zonal kernel and weighted orthogonality -/

/-- weights `w_j = 1/n_j²` -/
def wF (j : Fin 7) : K :=
  match j.val with
  | 0 => 1 / 60
  | 1 => 1 / 40
  | 2 => 1 / 40
  | 3 => 1 / 4
  | 4 => 1
  | 5 => 1 / 24
  | _ => 1 / 24

omit [CharZero K] in
theorem wF_vals : (wF 0 : K) = 1 / 60 ∧ (wF 1 : K) = 1 / 40 ∧ (wF 2 : K) = 1 / 40 ∧ (wF 3 : K) = 1 / 4 ∧ (wF 4 : K) = 1
    ∧ (wF 5 : K) = 1 / 24 ∧ (wF 6 : K) = 1 / 24 := ⟨rfl, rfl, rfl, rfl, rfl, rfl, rfl⟩

def dot3 (u v : V3 K) : K := u 0 * v 0 + u 1 * v 1 + u 2 * v 2

/-- addition theorem for l = 3: `Σ_j w_j g_j(u) g_j(v) = (u·v)³/6 − (u·v)|u|²|v|²/10` (a Legendre polynomial) -/
theorem zonal (u v : V3 K) :
    sum7 (fun j => wF j * gFun j u * gFun j v)
      = dot3 u v * dot3 u v * dot3 u v / 6 - dot3 u v * dot3 u u * dot3 v v / 10 := by
  obtain ⟨w0, w1, w2, w3, w4, w5, w6⟩ := wF_vals (K := K)
  simp only [sum7, w0, w1, w2, w3, w4, w5, w6, gFun_0, gFun_1, gFun_2, gFun_3, gFun_4, gFun_5, gFun_6, dot3, Fin.isValue]
  ring

omit [CharZero K] in
theorem dot3_mulVec3 (S : M3 K) (hS : Orth3 S) (u v : V3 K) : dot3 (mulVec3 S u) (mulVec3 S v) = dot3 u v := by
  have hc := hS.transpose
  have c00 := hc 0 0; have c11 := hc 1 1; have c22 := hc 2 2
  have c01 := hc 0 1; have c02 := hc 0 2; have c12 := hc 1 2
  simp only [sum3, transpose3, Fin.isValue, ↓reduceIte, show (0 : Fin 3) ≠ 1 from by decide,
    show (0 : Fin 3) ≠ 2 from by decide, show (1 : Fin 3) ≠ 2 from by decide] at c00 c11 c22 c01 c02 c12
  simp only [dot3, mulVec3, sum3]
  linear_combination (u 0 * v 0) * c00 + (u 1 * v 1) * c11 + (u 2 * v 2) * c22 + (u 0 * v 1 + u 1 * v 0) * c01
    + (u 0 * v 2 + u 2 * v 0) * c02 + (u 1 * v 2 + u 2 * v 1) * c12

/-- `B W Bᵀ = W` -/
theorem rotG_weighted (S : M3 K) (hS : Orth3 S) (i i' : Fin 7) :
    sum7 (fun j => wF j * rotG S i j * rotG S i' j) = if i = i' then wF i else 0 := by
  have key : ∀ u v : V3 K, sum7 (fun i => gFun i u * sum7 (fun i' => gFun i' v *
      (sum7 (fun j => wF j * rotG S i j * rotG S i' j) - if i = i' then wF i else 0))) = 0 := by
    intro u v
    have hz := zonal (mulVec3 S u) (mulVec3 S v)
    rw [dot3_mulVec3 S hS, dot3_mulVec3 S hS, dot3_mulVec3 S hS, ← zonal u v] at hz
    simp only [gFun_expand S hS] at hz
    simp only [sum7, Fin.isValue, Fin.reduceEq, ↓reduceIte] at hz ⊢
    linear_combination hz
  have h1 : ∀ i, ∀ v : V3 K, sum7 (fun i' => gFun i' v *
      (sum7 (fun j => wF j * rotG S i j * rotG S i' j) - if i = i' then wF i else 0)) = 0 := by
    intro i v
    exact gFun_indep (fun i => sum7 (fun i' => gFun i' v *
      (sum7 (fun j => wF j * rotG S i j * rotG S i' j) - if i = i' then wF i else 0))) (fun u => key u v) i
  have := gFun_indep (fun i' => sum7 (fun j => wF j * rotG S i j * rotG S i' j) - if i = i' then wF i else 0) (h1 i) i'
  exact sub_eq_zero.1 this

end WB.C21
