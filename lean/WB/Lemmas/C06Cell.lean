/-
  C06 helper lemmas: the children of `divide` tile the parent's half-open cell (one direction at a time).
-/
import WB.Model.C06
import Mathlib.Data.Rat.Floor
import Mathlib.Algebra.Order.Field.Rat
import Mathlib.Tactic.Linarith
import Mathlib.Tactic.Ring
import Mathlib.Tactic.FieldSimp
import Mathlib.Tactic.Positivity

namespace WB.C06

/-- centre of child number `x` along one direction -/
def childC (K dK : Rat) (n x : Nat) : Rat := K + (-dK + dK / n) / 2 + dK / n * x

theorem child_interval (K dK : Rat) (n x : Nat) :
    childC K dK n x - dK / n / 2 = (K - dK / 2) + dK / n * x ∧
    childC K dK n x + dK / n / 2 = (K - dK / 2) + dK / n * (x + 1) := by
  unfold childC
  constructor <;> ring

/-- every point of the parent's interval lies in some child's interval -/
theorem cell1_cover (K dK p : Rat) (n : Nat) (hn : 0 < n) (hd : 0 < dK)
    (h : K - dK / 2 ≤ p ∧ p < K + dK / 2) :
    ∃ x : Nat, x < n ∧ childC K dK n x - dK / n / 2 ≤ p ∧ p < childC K dK n x + dK / n / 2 := by
  have hn' : (0 : Rat) < n := by exact_mod_cast hn
  have hwpos : 0 < dK / n := div_pos hd hn'
  have hwn : dK / n * n = dK := by field_simp
  obtain ⟨t, ht⟩ : ∃ t : Rat, t = (p - (K - dK / 2)) / (dK / n) := ⟨_, rfl⟩
  have hp : p = (K - dK / 2) + dK / n * t := by rw [ht]; field_simp; ring
  have ht0 : 0 ≤ t := by rw [ht]; exact div_nonneg (by linarith) hwpos.le
  have htn : t < n := by
    by_contra hc
    have hc : (n : Rat) ≤ t := not_lt.mp hc
    have : dK / n * n ≤ dK / n * t := mul_le_mul_of_nonneg_left hc hwpos.le
    rw [hwn] at this
    linarith
  have hfl0 : 0 ≤ ⌊t⌋ := Int.floor_nonneg.mpr ht0
  have hx : ((⌊t⌋.toNat : Nat) : Rat) = (⌊t⌋ : Rat) := by
    have : ((⌊t⌋.toNat : Nat) : Int) = ⌊t⌋ := Int.toNat_of_nonneg hfl0
    exact_mod_cast this
  refine ⟨⌊t⌋.toNat, ?_, ?_, ?_⟩
  · have h1 : (⌊t⌋ : Rat) ≤ t := Int.floor_le t
    have : ((⌊t⌋.toNat : Nat) : Rat) < n := by rw [hx]; linarith
    exact_mod_cast this
  · rw [(child_interval K dK n _).1, hx, hp]
    have h1 : (⌊t⌋ : Rat) ≤ t := Int.floor_le t
    have := mul_le_mul_of_nonneg_left h1 hwpos.le
    linarith
  · rw [(child_interval K dK n _).2, hx, hp]
    have h1 : t < (⌊t⌋ : Rat) + 1 := Int.lt_floor_add_one t
    have := mul_lt_mul_of_pos_left h1 hwpos
    linarith

/-- a child's interval lies inside the parent's interval -/
theorem cell1_inside (K dK p : Rat) (n x : Nat) (hn : 0 < n) (hd : 0 < dK) (hx : x < n)
    (h : childC K dK n x - dK / n / 2 ≤ p ∧ p < childC K dK n x + dK / n / 2) :
    K - dK / 2 ≤ p ∧ p < K + dK / 2 := by
  have hn' : (0 : Rat) < n := by exact_mod_cast hn
  have hwpos : 0 < dK / n := div_pos hd hn'
  have hwn : dK / n * n = dK := by field_simp
  rw [(child_interval K dK n x).1, (child_interval K dK n x).2] at h
  have hx0 : (0 : Rat) ≤ x := Nat.cast_nonneg x
  have hx1 : (x : Rat) + 1 ≤ n := by exact_mod_cast hx
  have h1 := mul_nonneg hwpos.le hx0
  have h2 := mul_le_mul_of_nonneg_left hx1 hwpos.le
  rw [hwn] at h2
  constructor <;> linarith

/-- two different children have disjoint intervals -/
theorem cell1_unique (K dK p : Rat) (n x x' : Nat) (hn : 0 < n) (hd : 0 < dK)
    (h : childC K dK n x - dK / n / 2 ≤ p ∧ p < childC K dK n x + dK / n / 2)
    (h' : childC K dK n x' - dK / n / 2 ≤ p ∧ p < childC K dK n x' + dK / n / 2) : x = x' := by
  have hn' : (0 : Rat) < n := by exact_mod_cast hn
  have hwpos : 0 < dK / n := div_pos hd hn'
  rw [(child_interval K dK n x).1, (child_interval K dK n x).2] at h
  rw [(child_interval K dK n x').1, (child_interval K dK n x').2] at h'
  by_contra hne
  rcases Nat.lt_or_gt_of_ne hne with hlt | hlt
  · have : (x : Rat) + 1 ≤ x' := by exact_mod_cast hlt
    have := mul_le_mul_of_nonneg_left this hwpos.le
    linarith
  · have : (x' : Rat) + 1 ≤ x := by exact_mod_cast hlt
    have := mul_le_mul_of_nonneg_left this hwpos.le
    linarith

/-- the cell of a child, direction by direction, in terms of `childC` -/
theorem inCell_child (kp : KPoint) (n c : Idx) (p : V3) :
    inCell (child kp n c) p ↔
      (childC kp.K.x kp.dK.x n.1 c.1 - kp.dK.x / n.1 / 2 ≤ p.x ∧ p.x < childC kp.K.x kp.dK.x n.1 c.1 + kp.dK.x / n.1 / 2) ∧
      (childC kp.K.y kp.dK.y n.2.1 c.2.1 - kp.dK.y / n.2.1 / 2 ≤ p.y ∧ p.y < childC kp.K.y kp.dK.y n.2.1 c.2.1 + kp.dK.y / n.2.1 / 2) ∧
      (childC kp.K.z kp.dK.z n.2.2 c.2.2 - kp.dK.z / n.2.2 / 2 ≤ p.z ∧ p.z < childC kp.K.z kp.dK.z n.2.2 c.2.2 + kp.dK.z / n.2.2 / 2) := by
  unfold inCell child childC
  exact Iff.rfl

end WB.C06
