/-
  Helper lemmas for C17: `sumTo` is a `Finset.range` sum; algebra of one smoothing pass.
-/
import WB.Model.C17
import Mathlib.Algebra.BigOperators.Field
import Mathlib.Algebra.BigOperators.Ring.Finset
import Mathlib.Algebra.Order.BigOperators.Ring.Finset
import Mathlib.Algebra.Order.Field.Basic
import Mathlib.Tactic.Ring
import Mathlib.Tactic.FieldSimp
import Mathlib.Tactic.Linarith

namespace WB.C17
open Finset

variable {K : Type} [Field K]

theorem sumTo_eq_sum (f : Nat → K) (n : Nat) : sumTo f n = ∑ t ∈ range n, f t := by
  induction n with
  | zero => simp [sumTo]
  | succ n ih => rw [sumTo, ih, Finset.sum_range_succ]

theorem upd_same (idx : Nat → Nat) (a j : Nat) : upd idx a j a = j := by simp [upd]

theorem upd_other (idx : Nat → Nat) {a b : Nat} (j : Nat) (h : b ≠ a) : upd idx a j b = idx b := by
  simp [upd, h]

theorem upd_comm (idx : Nat → Nat) {a b : Nat} (h : a ≠ b) (j k : Nat) :
    upd (upd idx a j) b k = upd (upd idx b k) a j := by
  funext c
  unfold upd
  by_cases h1 : c = b <;> by_cases h2 : c = a
  · subst h1; subst h2; exact absurd rfl h
  · subst h1; simp [h2]
  · subst h2; simp [h1]
  · simp [h1, h2]

/-- the defining formula of one pass with `Finset` sums -/
theorem smooth1_eq (s : Smoother K) (f : Nat → K) (i : Nat) :
    smooth1 s f i =
      (∑ t ∈ range (wlen s i), f (wstart s i + t) * s.smt (wstart1 s i + t)) /
        (∑ t ∈ range (wlen s i), s.smt (wstart1 s i + t)) := by
  unfold smooth1 wsum
  rw [sumTo_eq_sum, sumTo_eq_sum]

theorem wsum_eq (s : Smoother K) (i : Nat) :
    wsum s i = ∑ t ∈ range (wlen s i), s.smt (wstart1 s i + t) := by
  unfold wsum; rw [sumTo_eq_sum]

theorem smooth1_linear (s : Smoother K) (f g : Nat → K) (c d : K) (i : Nat) :
    smooth1 s (fun j => c * f j + d * g j) i = c * smooth1 s f i + d * smooth1 s g i := by
  simp only [smooth1_eq]
  rw [← mul_div_assoc, ← mul_div_assoc, ← add_div, Finset.mul_sum, Finset.mul_sum, ← Finset.sum_add_distrib]
  congr 1
  apply Finset.sum_congr rfl
  intro t _
  ring

theorem smooth1_const (s : Smoother K) (c : K) (i : Nat) (h : wsum s i ≠ 0) :
    smooth1 s (fun _ => c) i = c := by
  rw [wsum_eq] at h
  rw [smooth1_eq, ← Finset.mul_sum, mul_div_assoc, div_self h, mul_one]

/-- the window of output `i` reads inputs `start ≤ j < end ≤ NE` only -/
theorem smooth1_congr (s : Smoother K) (f g : Nat → K) (i : Nat)
    (h : ∀ j, wstart s i ≤ j → j < wend s i → f j = g j) :
    smooth1 s f i = smooth1 s g i := by
  simp only [smooth1_eq]
  congr 1
  apply Finset.sum_congr rfl
  intro t ht
  rw [h]
  · omega
  · have := Finset.mem_range.mp ht
    unfold wlen at this
    omega

/-- one pass along axis `a` does not touch the window bookkeeping of another axis -/
theorem smoothAxis_eq (s : Smoother K) (a : Nat) (A : Arr K) (idx : Nat → Nat) :
    smoothAxis s a A idx =
      (∑ t ∈ range (wlen s (idx a)), A (upd idx a (wstart s (idx a) + t)) * s.smt (wstart1 s (idx a) + t)) /
        wsum s (idx a) := by
  unfold smoothAxis
  rw [smooth1_eq, wsum_eq]

theorem smoothAxis_comm (s t : Smoother K) {a b : Nat} (hab : a ≠ b) (A : Arr K) :
    smoothAxis s a (smoothAxis t b A) = smoothAxis t b (smoothAxis s a A) := by
  funext idx
  rw [smoothAxis_eq s a, smoothAxis_eq t b]
  simp only [smoothAxis_eq t b, smoothAxis_eq s a]
  have e1 : ∀ j, upd idx a j b = idx b := fun j => upd_other idx j (Ne.symm hab)
  have e2 : ∀ j, upd idx b j a = idx a := fun j => upd_other idx j hab
  simp only [e1, e2]
  -- both sides are the double sum divided by both window sums
  have L : ∀ u,
      (∑ v ∈ range (wlen t (idx b)),
          A (upd (upd idx a (wstart s (idx a) + u)) b (wstart t (idx b) + v)) * t.smt (wstart1 t (idx b) + v)) /
        wsum t (idx b) * s.smt (wstart1 s (idx a) + u)
      = (∑ v ∈ range (wlen t (idx b)),
          A (upd (upd idx a (wstart s (idx a) + u)) b (wstart t (idx b) + v)) * t.smt (wstart1 t (idx b) + v)
            * s.smt (wstart1 s (idx a) + u)) / wsum t (idx b) := by
    intro u; rw [div_mul_eq_mul_div, Finset.sum_mul]
  have R : ∀ v,
      (∑ u ∈ range (wlen s (idx a)),
          A (upd (upd idx b (wstart t (idx b) + v)) a (wstart s (idx a) + u)) * s.smt (wstart1 s (idx a) + u)) /
        wsum s (idx a) * t.smt (wstart1 t (idx b) + v)
      = (∑ u ∈ range (wlen s (idx a)),
          A (upd (upd idx a (wstart s (idx a) + u)) b (wstart t (idx b) + v)) * t.smt (wstart1 t (idx b) + v)
            * s.smt (wstart1 s (idx a) + u)) / wsum s (idx a) := by
    intro v; rw [div_mul_eq_mul_div, Finset.sum_mul]
    congr 1
    apply Finset.sum_congr rfl
    intro u _
    rw [upd_comm idx hab]
    ring
  simp only [L, R]
  rw [← Finset.sum_div, ← Finset.sum_div, Finset.sum_comm, div_div, div_div, mul_comm (wsum t (idx b))]

theorem applySm_comm (x y : Option (Smoother K)) {a b : Nat} (hab : a ≠ b) (A : Arr K) :
    applySm x a (applySm y b A) = applySm y b (applySm x a A) := by
  cases x <;> cases y <;> simp only [applySm]
  exact smoothAxis_comm _ _ hab A

theorem applyAxes_perm (sm : Nat → Option (Smoother K)) {l l' : List Nat} (h : l.Perm l') :
    ∀ A : Arr K, applyAxes sm l A = applyAxes sm l' A := by
  induction h with
  | nil => intro A; rfl
  | cons x _ ih => intro A; simp only [applyAxes]; exact ih _
  | swap x y l =>
    intro A
    simp only [applyAxes]
    by_cases hxy : x = y
    · subst hxy; rfl
    · rw [applySm_comm (sm x) (sm y) hxy A]
  | trans _ _ ih1 ih2 => intro A; rw [ih1, ih2]

theorem applyAxes_append (sm : Nat → Option (Smoother K)) (l l' : List Nat) (A : Arr K) :
    applyAxes sm (l ++ l') A = applyAxes sm l' (applyAxes sm l A) := by
  induction l generalizing A with
  | nil => rfl
  | cons a l ih => simp only [List.cons_append, applyAxes]; exact ih _

/-- window sums of a positive kernel are positive (so the hypothesis of the constant theorem holds) -/
theorem wsum_pos {F : Type} [Field F] [LinearOrder F] [IsStrictOrderedRing F]
    (s : Smoother F) (i : Nat) (hi : i < s.NE) (hpos : ∀ k, k ≤ 2 * s.NE1 → 0 < s.smt k) :
    0 < wsum s i := by
  rw [wsum_eq]
  apply Finset.sum_pos
  · intro t ht
    apply hpos
    have := Finset.mem_range.mp ht
    unfold wlen wend wstart at this
    unfold wstart1 wstart
    omega
  · rw [Finset.nonempty_range_iff]
    unfold wlen wend wstart
    omega

/-- the invariant of the memoised `dataSmooth`: a stored value, if present, is the smoothed CURRENT data -/
def CacheOk (sm : Nat → Option (Smoother K)) (nE : Nat) (s : Cached K) : Prop :=
  ∀ c, s.cache = some c → c = dataSmooth sm nE s.data

/-- the invariant of one live result: a memoised `dataSmooth`, if present, is the smoothing of ITS OWN current data
    with ITS OWN smoothers -/
def ObjOk (o : Obj K) : Prop := ∀ c, o.cache = some c → c = dataSmooth o.sm o.nE o.data

theorem mem_updAt {α : Type} (l : List α) (i : Nat) (f : α → α) (x : α) (h : x ∈ updAt l i f) :
    x ∈ l ∨ ∃ a ∈ l, x = f a := by
  induction l generalizing i with
  | nil => simp [updAt] at h
  | cons a l ih =>
    cases i with
    | zero =>
      simp only [updAt, List.mem_cons] at h
      rcases h with h | h
      · right; exact ⟨a, by simp, h⟩
      · left; exact List.mem_cons_of_mem _ h
    | succ i =>
      simp only [updAt, List.mem_cons] at h
      rcases h with h | h
      · left; rw [h]; simp
      · rcases ih i h with h | ⟨b, hb, rfl⟩
        · left; exact List.mem_cons_of_mem _ h
        · right; exact ⟨b, List.mem_cons_of_mem _ hb, rfl⟩

end WB.C17
