/-
  Helper lemmas for C10 (bookkeeping of run(): result_all = Σ factor · result after every iteration).
-/
import WB.Model.C10
import Mathlib.Algebra.Field.Basic
import Mathlib.Tactic.Ring
import Mathlib.Tactic.LinearCombination
import Mathlib.Data.List.Basic

set_option linter.unusedSectionVars false
set_option linter.unnecessarySeqFocus false

namespace WB.C10

variable {K : Type}

/-- between two updates: the recorded factors `fs` run along the evaluated prefix of the K-point list (whose
    results can be read back), everything behind is new and not evaluated -/
def Mid : List (KP K) → List K → Prop
  | ps, [] => ∀ p ∈ ps, p.ev = false
  | [], _ :: _ => False
  | p :: ps, _ :: fs => p.ev = true ∧ getResult p = some p.r ∧ Mid ps fs

/-- Σ_{i < len fs} fs[i] · r_i -/
def dotRec [Mul K] [Add K] [Zero K] : List (KP K) → List K → K
  | p :: ps, f :: fs => f * p.r + dotRec ps fs
  | _, _ => 0

/-- what process() does to one K-point -/
def procPt [Mul K] [Zero K] (mode : Mode) (p : KP K) : KP K := if p.ev then p else (setResult mode p).1

/-- Σ over the not yet evaluated points of r · f  (= result_sum of process()) -/
def unevSum [Mul K] [Add K] [Zero K] : List (KP K) → K
  | [] => 0
  | p :: ps => if p.ev then unevSum ps else p.r * p.f + unevSum ps

section basic
variable [Mul K] [Add K] [Zero K]

theorem setResult_snd (mode : Mode) (p : KP K) : (setResult mode p).2 = p.r * p.f := by
  simp [setResult, getResult]

theorem setResult_fst_f (mode : Mode) (p : KP K) : (setResult mode p).1.f = p.f := by
  cases mode <;> simp [setResult] <;> split <;> rfl

theorem setResult_fst_r (mode : Mode) (p : KP K) : (setResult mode p).1.r = p.r := by
  cases mode <;> simp [setResult] <;> split <;> rfl

theorem setResult_fst_ev (mode : Mode) (p : KP K) : (setResult mode p).1.ev = true := by
  cases mode <;> simp [setResult] <;> split <;> rfl

theorem setResult_fst_get (mode : Mode) (hm : mode ≠ Mode.clear) (p : KP K) :
    getResult (setResult mode p).1 = some p.r := by
  cases mode with
  | memory => simp [setResult, getResult]
  | dump =>
    simp only [setResult]
    split
    · simp [getResult]
    · simp [getResult]
  | clear => exact absurd rfl hm

theorem procPt_f (mode : Mode) (p : KP K) : (procPt mode p).f = p.f := by
  unfold procPt; split
  · rfl
  · exact setResult_fst_f mode p

theorem procPt_r (mode : Mode) (p : KP K) : (procPt mode p).r = p.r := by
  unfold procPt; split
  · rfl
  · exact setResult_fst_r mode p

theorem procPt_ev (mode : Mode) (p : KP K) : (procPt mode p).ev = true := by
  unfold procPt; split
  · assumption
  · exact setResult_fst_ev mode p

theorem procPt_get (mode : Mode) (hm : mode ≠ Mode.clear) (p : KP K)
    (h : p.ev = true → getResult p = some p.r) : getResult (procPt mode p) = some (procPt mode p).r := by
  rw [procPt_r]
  unfold procPt; split
  · rename_i hev; exact h hev
  · exact setResult_fst_get mode hm p

theorem processPts_eq (mode : Mode) (ps : List (KP K)) :
    processPts mode ps = (ps.map (procPt mode), unevSum ps) := by
  induction ps with
  | nil => rfl
  | cons p ps ih =>
    unfold processPts
    rw [ih]
    by_cases hev : p.ev = true
    · simp [hev, procPt, unevSum]
    · simp [hev, procPt, unevSum, setResult_snd]

theorem corrSum_nil [Sub K] (keep : K → Bool) (ps : List (KP K)) : corrSum keep ps [] = some 0 := by
  cases ps <;> rfl

end basic

section field
variable [Field K]

/-- the heart of the update: old running sum + result_sum of the new points + factor-difference terms
    = weighted sum over the whole list, provided the rule drops only zero differences -/
theorem update_identity (keep : K → Bool) (hk : ∀ d, keep d = false → d = 0) (mode : Mode)
    (hm : mode ≠ Mode.clear) :
    ∀ (ps : List (KP K)) (fs : List K), Mid ps fs →
      ∃ c, corrSum keep (ps.map (procPt mode)) fs = some c ∧
        dotRec ps fs + unevSum ps + c = wsum (ps.map (procPt mode))
  | [], [], _ => ⟨0, rfl, by simp [dotRec, unevSum, wsum]⟩
  | [], _ :: _, h => absurd h (by simp [Mid])
  | p :: ps, [], h => by
    have hp : p.ev = false := h p (List.mem_cons_self ..)
    have hrest : Mid ps [] := by
      cases ps with
      | nil => intro q hq; cases hq
      | cons a as => intro q hq; exact h q (List.mem_cons_of_mem _ hq)
    obtain ⟨c, hc, hsum⟩ := update_identity keep hk mode hm ps [] hrest
    rw [corrSum_nil] at hc
    have hc0 : c = 0 := by simpa using hc.symm
    refine ⟨0, corrSum_nil _ _, ?_⟩
    subst hc0
    have hd : dotRec ps ([] : List K) = 0 := by cases ps <;> rfl
    rw [hd] at hsum
    simp only [List.map_cons, wsum, dotRec, unevSum, hp, procPt_f, procPt_r]
    simp only [Bool.false_eq_true, if_false]
    linear_combination hsum
  | p :: ps, f :: fs, h => by
    obtain ⟨hev, hget, hrest⟩ := h
    obtain ⟨c, hc, hsum⟩ := update_identity keep hk mode hm ps fs hrest
    have hpp : procPt mode p = p := by unfold procPt; rw [if_pos hev]
    simp only [List.map_cons, hpp, corrSum, hc, hget, dotRec, unevSum, hev, if_true, wsum]
    by_cases hkeep : keep (p.f - f) = true
    · rw [if_pos hkeep]
      exact ⟨_, rfl, by linear_combination hsum⟩
    · rw [if_neg hkeep]
      have h0 : p.f - f = 0 := hk _ (by simpa using hkeep)
      refine ⟨c, rfl, ?_⟩
      have : f = p.f := by linear_combination -h0
      rw [this]
      linear_combination hsum

theorem dotRec_self : ∀ (ps : List (KP K)), dotRec ps (ps.map (·.f)) = wsum ps
  | [] => rfl
  | p :: ps => by simp [dotRec, wsum, dotRec_self ps]

theorem unevSum_eq_wsum (mode : Mode) : ∀ (ps : List (KP K)), (∀ p ∈ ps, p.ev = false) →
    unevSum ps = wsum (ps.map (procPt mode))
  | [], _ => rfl
  | p :: ps, h => by
    have hp := h p (List.mem_cons_self ..)
    have := unevSum_eq_wsum mode ps (fun q hq => h q (List.mem_cons_of_mem _ hq))
    simp only [unevSum, hp, List.map_cons, wsum, procPt_f, procPt_r, this]
    simp only [Bool.false_eq_true, if_false]
    ring

end field

theorem mid_of_all_ev : ∀ (ps : List (KP K)), (∀ p ∈ ps, p.ev = true ∧ getResult p = some p.r) →
    Mid ps (ps.map (·.f))
  | [], _ => by intro p hp; cases hp
  | p :: ps, h => by
    refine ⟨(h p (List.mem_cons_self ..)).1, (h p (List.mem_cons_self ..)).2, ?_⟩
    exact mid_of_all_ev ps (fun q hq => h q (List.mem_cons_of_mem _ hq))

/-! ### refinement events keep `Mid` and the running sum -/

section refine
variable [Mul K] [Add K] [Zero K]

theorem mid_zeroAt : ∀ (i : Nat) (ps : List (KP K)) (fs : List K), Mid ps fs → Mid (zeroAt i ps) fs
  | _, [], fs, h => by simpa [zeroAt] using h
  | 0, p :: ps, [], h => by
    intro q hq
    simp only [zeroAt, List.mem_cons] at hq
    rcases hq with rfl | hq
    · exact h p (List.mem_cons_self ..)
    · exact h q (List.mem_cons_of_mem _ hq)
  | 0, p :: ps, _ :: fs, h => by
    obtain ⟨h1, h2, h3⟩ := h
    exact ⟨h1, by simpa [getResult] using h2, h3⟩
  | i + 1, p :: ps, [], h => by
    have hrest : Mid ps [] := by
      cases ps with
      | nil => intro q hq; cases hq
      | cons a as => intro q hq; exact h q (List.mem_cons_of_mem _ hq)
    have ih := mid_zeroAt i ps [] hrest
    have ih' : ∀ q ∈ zeroAt i ps, q.ev = false := by
      cases hz : zeroAt i ps with
      | nil => intro q hq; cases hq
      | cons a as => rw [hz] at ih; exact ih
    intro q hq
    simp only [zeroAt, List.mem_cons] at hq
    rcases hq with rfl | hq
    · exact h _ (List.mem_cons_self ..)
    · exact ih' q hq
  | i + 1, p :: ps, _ :: fs, h => by
    obtain ⟨h1, h2, h3⟩ := h
    exact ⟨h1, h2, mid_zeroAt i ps fs h3⟩

theorem dotRec_zeroAt : ∀ (i : Nat) (ps : List (KP K)) (fs : List K),
    dotRec (zeroAt i ps) fs = dotRec ps fs
  | _, [], _ => by simp [zeroAt]
  | 0, p :: ps, [] => rfl
  | 0, p :: ps, _ :: fs => rfl
  | i + 1, p :: ps, [] => rfl
  | i + 1, p :: ps, _ :: fs => by simp [zeroAt, dotRec, dotRec_zeroAt i ps fs]

theorem mid_addAt (x : K) : ∀ (i : Nat) (ps : List (KP K)) (fs : List K), Mid ps fs → Mid (addAt x i ps) fs
  | _, [], fs, h => by simpa [addAt] using h
  | 0, p :: ps, [], h => by
    intro q hq
    simp only [addAt, List.mem_cons] at hq
    rcases hq with rfl | hq
    · exact h p (List.mem_cons_self ..)
    · exact h q (List.mem_cons_of_mem _ hq)
  | 0, p :: ps, _ :: fs, h => by
    obtain ⟨h1, h2, h3⟩ := h
    exact ⟨h1, by simpa [getResult] using h2, h3⟩
  | i + 1, p :: ps, [], h => by
    have hrest : Mid ps [] := by
      cases ps with
      | nil => intro q hq; cases hq
      | cons a as => intro q hq; exact h q (List.mem_cons_of_mem _ hq)
    have ih := mid_addAt x i ps [] hrest
    have ih' : ∀ q ∈ addAt x i ps, q.ev = false := by
      cases hz : addAt x i ps with
      | nil => intro q hq; cases hq
      | cons a as => rw [hz] at ih; exact ih
    intro q hq
    simp only [addAt, List.mem_cons] at hq
    rcases hq with rfl | hq
    · exact h _ (List.mem_cons_self ..)
    · exact ih' q hq
  | i + 1, p :: ps, _ :: fs, h => by
    obtain ⟨h1, h2, h3⟩ := h
    exact ⟨h1, h2, mid_addAt x i ps fs h3⟩

theorem dotRec_addAt (x : K) : ∀ (i : Nat) (ps : List (KP K)) (fs : List K),
    dotRec (addAt x i ps) fs = dotRec ps fs
  | _, [], _ => by simp [addAt]
  | 0, p :: ps, [] => rfl
  | 0, p :: ps, _ :: fs => rfl
  | i + 1, p :: ps, [] => rfl
  | i + 1, p :: ps, _ :: fs => by simp [addAt, dotRec, dotRec_addAt x i ps fs]

theorem addAt_getElem?_ev (x : K) : ∀ (i j : Nat) (ps : List (KP K)),
    ((addAt x i ps)[j]?).map (·.ev) = (ps[j]?).map (·.ev)
  | _, _, [] => by simp [addAt]
  | 0, 0, p :: ps => by simp [addAt]
  | 0, j + 1, p :: ps => by simp [addAt]
  | i + 1, 0, p :: ps => by simp [addAt]
  | i + 1, j + 1, p :: ps => by simpa [addAt] using addAt_getElem?_ev x i j ps

theorem mid_all_unev_of_nil : ∀ (ps : List (KP K)), Mid ps [] → ∀ q ∈ ps, q.ev = false
  | [], _ => by intro q hq; cases hq
  | _ :: _, h => h

theorem mid_nil_of_all_unev : ∀ (ps : List (KP K)), (∀ q ∈ ps, q.ev = false) → Mid ps []
  | [], _ => by intro q hq; cases hq
  | _ :: _, h => h

theorem mid_removeAt : ∀ (j : Nat) (ps : List (KP K)) (fs : List K) (q : KP K),
    Mid ps fs → ps[j]? = some q → q.ev = false → Mid (removeAt j ps) fs
  | _, [], _, _, _, hq, _ => by simp at hq
  | 0, p :: ps, [], _, h, _, _ => by
    apply mid_nil_of_all_unev
    intro q hq
    exact h q (List.mem_cons_of_mem _ (by simpa [removeAt] using hq))
  | 0, p :: ps, _ :: fs, q, h, hq, hev => by
    simp only [List.getElem?_cons_zero, Option.some.injEq] at hq
    subst hq
    rw [h.1] at hev; exact Bool.noConfusion hev
  | j + 1, p :: ps, [], q, h, hq, hev => by
    apply mid_nil_of_all_unev
    intro q' hq'
    simp only [removeAt, List.mem_cons] at hq'
    rcases hq' with rfl | hq'
    · exact h _ (List.mem_cons_self ..)
    · have hrest : Mid ps [] := mid_nil_of_all_unev ps (fun a ha => h a (List.mem_cons_of_mem _ ha))
      have := mid_removeAt j ps [] q hrest (by simpa using hq) hev
      exact mid_all_unev_of_nil _ this q' hq'
  | j + 1, p :: ps, _ :: fs, q, h, hq, hev => by
    obtain ⟨h1, h2, h3⟩ := h
    exact ⟨h1, h2, mid_removeAt j ps fs q h3 (by simpa using hq) hev⟩

theorem dotRec_removeAt : ∀ (j : Nat) (ps : List (KP K)) (fs : List K) (q : KP K),
    Mid ps fs → ps[j]? = some q → q.ev = false → dotRec (removeAt j ps) fs = dotRec ps fs
  | _, [], _, _, _, hq, _ => by simp at hq
  | 0, p :: ps, [], _, _, _, _ => by
    simp only [removeAt]
    cases ps <;> rfl
  | 0, p :: ps, _ :: fs, q, h, hq, hev => by
    simp only [List.getElem?_cons_zero, Option.some.injEq] at hq
    subst hq
    rw [h.1] at hev; exact Bool.noConfusion hev
  | j + 1, p :: ps, [], _, _, _, _ => rfl
  | j + 1, p :: ps, _ :: fs, q, h, hq, hev => by
    simp only [removeAt, dotRec]
    rw [dotRec_removeAt j ps fs q h.2.2 (by simpa using hq) hev]

theorem mid_append : ∀ (ps cs : List (KP K)) (fs : List K), Mid ps fs → (∀ c ∈ cs, c.ev = false) →
    Mid (ps ++ cs) fs
  | [], cs, [], _, hc => by simpa using mid_nil_of_all_unev cs hc
  | [], _, _ :: _, h, _ => absurd h (by simp [Mid])
  | p :: ps, cs, [], h, hc => by
    apply mid_nil_of_all_unev
    intro q hq
    rcases List.mem_append.1 hq with hq | hq
    · exact h q hq
    · exact hc q hq
  | p :: ps, cs, _ :: fs, h, hc => by
    obtain ⟨h1, h2, h3⟩ := h
    exact ⟨h1, h2, mid_append ps cs fs h3 hc⟩

theorem dotRec_append : ∀ (ps cs : List (KP K)) (fs : List K), Mid ps fs →
    dotRec (ps ++ cs) fs = dotRec ps fs
  | [], cs, [], _ => by cases cs <;> rfl
  | [], _, _ :: _, h => absurd h (by simp [Mid])
  | p :: ps, cs, [], _ => rfl
  | p :: ps, cs, _ :: fs, h => by
    simp only [List.cons_append, dotRec]
    rw [dotRec_append ps cs fs h.2.2]

end refine

/-! ### the state invariants -/

/-- between updates -/
structure MidInv [Mul K] [Add K] [Zero K] (s : State K) : Prop where
  mid : Mid s.pts s.factors
  sum : s.resultAll = some (dotRec s.pts s.factors)
  ok : s.err = false

/-- right after an update -/
structure Synced [Mul K] [Add K] [Zero K] (s : State K) : Prop where
  ok : s.err = false
  sum : s.resultAll = some (wsum s.pts)
  factors : s.factors = s.pts.map (·.f)
  stored : ∀ p ∈ s.pts, p.ev = true ∧ getResult p = some p.r

section steps
variable [Field K]

theorem midInv_of_synced {s : State K} (h : Synced s) : MidInv s := by
  refine ⟨?_, ?_, h.ok⟩
  · rw [h.factors]; exact mid_of_all_ev _ h.stored
  · rw [h.sum, h.factors, dotRec_self]

theorem refStep_mode (s : State K) (op : RefOp K) : (refStep s op).mode = s.mode := by
  cases op with
  | divide i children =>
    simp only [refStep]
    split
    · split <;> rfl
    · rfl
  | merge i j =>
    simp only [refStep]
    split
    · split <;> rfl
    · rfl

theorem midInv_refStep (s : State K) (op : RefOp K) (h : MidInv s) : MidInv (refStep s op) := by
  cases op with
  | divide i children =>
    simp only [refStep]
    split
    · split
      · refine ⟨?_, ?_, h.ok⟩
        · exact mid_append _ _ _ (mid_zeroAt i _ _ h.mid) (by
            intro c hc
            obtain ⟨r, _, rfl⟩ := List.mem_map.1 hc
            rfl)
        · show s.resultAll = _
          rw [h.sum, dotRec_append _ _ _ (mid_zeroAt i _ _ h.mid), dotRec_zeroAt]
      · exact h
    · exact h
  | merge i j =>
    simp only [refStep]
    split
    · rename_i p q hp hq
      split
      · rename_i hcond
        have hqev : q.ev = false := by
          simp only [Bool.and_eq_true, Bool.not_eq_true', decide_eq_true_eq] at hcond
          exact hcond.2
        have hmid := mid_addAt q.f i _ _ h.mid
        obtain ⟨q', hq', hev'⟩ : ∃ q', (addAt q.f i s.pts)[j]? = some q' ∧ q'.ev = false := by
          have := addAt_getElem?_ev q.f i j s.pts
          rw [hq] at this
          cases hx : (addAt q.f i s.pts)[j]? with
          | none => rw [hx] at this; simp at this
          | some q' =>
            rw [hx] at this
            simp only [Option.map_some, Option.some.injEq] at this
            exact ⟨q', rfl, by rw [this, hqev]⟩
        refine ⟨mid_removeAt j _ _ q' hmid hq' hev', ?_, h.ok⟩
        show s.resultAll = _
        rw [h.sum, dotRec_removeAt j _ _ q' hmid hq' hev', dotRec_addAt]
      · exact h
    · exact h

theorem midInv_foldl (ops : List (RefOp K)) (s : State K) (h : MidInv s) :
    MidInv (ops.foldl refStep s) := by
  induction ops generalizing s with
  | nil => exact h
  | cons op ops ih => exact ih _ (midInv_refStep s op h)

theorem foldl_refStep_mode (ops : List (RefOp K)) (s : State K) : (ops.foldl refStep s).mode = s.mode := by
  induction ops generalizing s with
  | nil => rfl
  | cons op ops ih => rw [List.foldl_cons, ih, refStep_mode]

/-- process + update re-establishes  result_all = Σ f·r  -/
theorem synced_iterate (keep : K → Bool) (hk : ∀ d, keep d = false → d = 0) (s : State K)
    (hm : s.mode ≠ Mode.clear) (h : MidInv s) : Synced (iterate keep s) := by
  unfold iterate
  rw [processPts_eq]
  dsimp only
  rw [h.sum]
  dsimp only
  obtain ⟨c, hc, hsum⟩ := update_identity keep hk s.mode hm s.pts s.factors h.mid
  rw [hc]
  dsimp only
  refine ⟨h.ok, ?_, rfl, ?_⟩
  · show some _ = some _
    rw [hsum]
  · intro p hp
    obtain ⟨p0, hp0, rfl⟩ := List.mem_map.1 hp
    refine ⟨procPt_ev _ _, procPt_get _ hm _ ?_⟩
    intro hev
    -- an evaluated point of the list sits in the prefix covered by `Mid`
    have : ∀ (ps : List (KP K)) (fs : List K), Mid ps fs → ∀ q ∈ ps, q.ev = true → getResult q = some q.r := by
      intro ps
      induction ps with
      | nil => intro fs _ q hq; cases hq
      | cons a as ih =>
        intro fs hmid q hq hqev
        cases fs with
        | nil => rw [hmid q hq] at hqev; exact Bool.noConfusion hqev
        | cons f fs =>
          rcases List.mem_cons.1 hq with rfl | hq
          · exact hmid.2.1
          · exact ih fs hmid.2.2 q hq hqev
    exact this _ _ h.mid p0 hp0 hev

/-- state before the loop -/
theorem start_facts (mode : Mode) (init : List (K × K)) :
    (start mode init).resultAll = none ∧ (start mode init).err = false ∧
    (start mode init).factors = (start mode init).pts.map (·.f) ∧
    (∀ p ∈ (start mode init).pts, p.ev = false) ∧ (start mode init).mode = mode := by
  refine ⟨rfl, rfl, ?_, ?_, rfl⟩
  · simp [start, KP.fresh, List.map_map, Function.comp_def]
  · intro p hp
    simp only [start, List.mem_map] at hp
    obtain ⟨_, _, rfl⟩ := hp
    rfl

/-- iteration 0 (memory / dump) -/
theorem synced_first (keep : K → Bool) (mode : Mode) (hm : mode ≠ Mode.clear) (init : List (K × K)) :
    Synced (iterate keep (start mode init)) := by
  obtain ⟨h1, h2, h3, h4, h5⟩ := start_facts mode init
  unfold iterate
  rw [processPts_eq, h1]
  dsimp only
  refine ⟨h2, ?_, ?_, ?_⟩
  · show some _ = some _
    rw [unevSum_eq_wsum _ _ h4, h5]
  · show (start mode init).factors = _
    rw [h3, List.map_map]
    apply List.map_congr_left
    intro p _
    simp [procPt_f]
  · intro p hp
    obtain ⟨p0, hp0, rfl⟩ := List.mem_map.1 hp
    refine ⟨procPt_ev _ _, procPt_get _ (by rw [h5]; exact hm) _ ?_⟩
    intro hev; rw [h4 p0 hp0] at hev; exact Bool.noConfusion hev

/-- iteration 0 when per-K results are discarded -/
theorem first_clear (keep : K → Bool) (init : List (K × K)) :
    (iterate keep (start Mode.clear init)).resultAll = some (wsum (iterate keep (start Mode.clear init)).pts) ∧
    (iterate keep (start Mode.clear init)).err = false := by
  obtain ⟨h1, h2, _, h4, _⟩ := start_facts Mode.clear init
  unfold iterate
  rw [processPts_eq, h1]
  dsimp only
  refine ⟨?_, h2⟩
  show some _ = some _
  rw [unevSum_eq_wsum _ _ h4]

theorem iterate_mode (keep : K → Bool) (s : State K) : (iterate keep s).mode = s.mode := by
  unfold iterate
  split
  · rfl
  · dsimp only
    split <;> rfl

theorem synced_runIters (keep : K → Bool) (hk : ∀ d, keep d = false → d = 0) (mode : Mode)
    (hm : mode ≠ Mode.clear) (init : List (K × K)) (iters : List (List (RefOp K))) :
    Synced (runIters keep mode init iters) ∧ (runIters keep mode init iters).mode = mode := by
  unfold runIters
  have h0 : Synced (iterate keep (start mode init)) ∧ (iterate keep (start mode init)).mode = mode :=
    ⟨synced_first keep mode hm init, by rw [iterate_mode]; rfl⟩
  generalize iterate keep (start mode init) = s0 at h0
  induction iters generalizing s0 with
  | nil => exact h0
  | cons ops iters ih =>
    rw [List.foldl_cons]
    apply ih
    unfold iteration
    refine ⟨synced_iterate keep hk _ ?_ (midInv_foldl ops s0 (midInv_of_synced h0.1)), ?_⟩
    · rw [foldl_refStep_mode, h0.2]; exact hm
    · rw [iterate_mode, foldl_refStep_mode, h0.2]

end steps

end WB.C10
