/-
  Helper lemmas for C30: `find_grid` on a complete grid (sorting, gaps, largest gap).
-/
import WB.Lemmas.C30
import Mathlib.Algebra.Order.GroupWithZero.Basic
import Mathlib.Algebra.Order.Field.Basic
import Mathlib.Tactic.Positivity

namespace WB.C30

/-! ### insertion sort -/

theorem insertSorted_perm (x : Rat) (l : List Rat) : (insertSorted x l).Perm (x :: l) := by
  induction l with
  | nil => exact List.Perm.refl _
  | cons y l ih =>
    unfold insertSorted
    split
    · exact List.Perm.refl _
    · exact (List.Perm.cons y ih).trans (List.Perm.swap x y l)

theorem sortQ_perm (l : List Rat) : (sortQ l).Perm l := by
  induction l with
  | nil => exact List.Perm.refl _
  | cons x l ih => exact (insertSorted_perm x (sortQ l)).trans (List.Perm.cons x ih)

theorem insertSorted_sorted (x : Rat) (l : List Rat) (h : l.Pairwise (· ≤ ·)) :
    (insertSorted x l).Pairwise (· ≤ ·) := by
  induction l with
  | nil => simp [insertSorted]
  | cons y l ih =>
    unfold insertSorted
    split
    · rename_i hxy
      refine List.pairwise_cons.2 ⟨?_, h⟩
      intro z hz
      rcases List.mem_cons.1 hz with rfl | hz
      · exact hxy
      · exact le_trans hxy ((List.pairwise_cons.1 h).1 z hz)
    · rename_i hxy
      have hyx : y ≤ x := le_of_not_ge hxy
      refine List.pairwise_cons.2 ⟨?_, ih (List.pairwise_cons.1 h).2⟩
      intro z hz
      have := (insertSorted_perm x l).mem_iff.1 hz
      rcases List.mem_cons.1 this with rfl | hz
      · exact hyx
      · exact (List.pairwise_cons.1 h).1 z hz

theorem sortQ_sorted (l : List Rat) : (sortQ l).Pairwise (· ≤ ·) := by
  induction l with
  | nil => simp [sortQ]
  | cons x l ih => exact insertSorted_sorted x _ ih

/-! ### largest element -/

theorem foldl_max_ge (l : List Rat) (a : Rat) :
    a ≤ l.foldl (fun m x => if x > m then x else m) a ∧
    ∀ x ∈ l, x ≤ l.foldl (fun m x => if x > m then x else m) a := by
  induction l generalizing a with
  | nil => simp
  | cons y l ih =>
    simp only [List.foldl_cons]
    obtain ⟨h1, h2⟩ := ih (if y > a then y else a)
    refine ⟨le_trans ?_ h1, ?_⟩
    · split <;> [exact le_of_lt ‹_›; exact le_refl _]
    · intro x hx
      rcases List.mem_cons.1 hx with rfl | hx
      · refine le_trans ?_ h1
        split
        · exact le_refl _
        · rename_i h; exact le_of_not_gt h
      · exact h2 x hx

theorem foldl_max_mem (l : List Rat) (a : Rat) :
    l.foldl (fun m x => if x > m then x else m) a = a ∨ l.foldl (fun m x => if x > m then x else m) a ∈ l := by
  induction l generalizing a with
  | nil => left; rfl
  | cons y l ih =>
    simp only [List.foldl_cons]
    rcases ih (if y > a then y else a) with h | h
    · rw [h]
      split
      · right; exact List.mem_cons_self
      · left; rfl
    · right; exact List.mem_cons_of_mem _ h

theorem maxQ_mem (l : List Rat) (h : l ≠ []) : maxQ l ∈ l := by
  cases l with
  | nil => exact absurd rfl h
  | cons a l =>
    rcases foldl_max_mem l a with h | h
    · simp only [maxQ, h]; exact List.mem_cons_self
    · exact List.mem_cons_of_mem _ h

theorem maxQ_ge (l : List Rat) (x : Rat) (hx : x ∈ l) : x ≤ maxQ l := by
  cases l with
  | nil => cases hx
  | cons a l =>
    obtain ⟨h1, h2⟩ := foldl_max_ge l a
    rcases List.mem_cons.1 hx with rfl | hx
    · exact h1
    · exact h2 x hx

/-! ### gaps of a sorted list of grid values -/

theorem gv_le (g : Nat) (hg : 0 < g) (n m : Nat) : (n : Rat) / g ≤ (m : Rat) / g ↔ n ≤ m := by
  have : (0 : Rat) < g := by exact_mod_cast hg
  rw [div_le_div_iff_of_pos_right this]
  exact_mod_cast Iff.rfl

theorem gv_inj (g : Nat) (hg : 0 < g) (n m : Nat) (h : (n : Rat) / g = (m : Rat) / g) : n = m :=
  le_antisymm ((gv_le g hg n m).1 (le_of_eq h)) ((gv_le g hg m n).1 (le_of_eq h.symm))

/-- every gap of a sorted list of grid values that contains every grid value from its head up to 1 is `≤ 1/g` -/
theorem gaps_le (g : Nat) (hg : 0 < g) :
    ∀ s : List Rat, s.Pairwise (· ≤ ·) → (∀ c ∈ s, ∃ n : Nat, n ≤ g ∧ c = (n : Rat) / g) →
      (∀ n : Nat, n ≤ g → (∀ a ∈ s.head?, a ≤ (n : Rat) / g) → (n : Rat) / g ∈ s) →
      ∀ d ∈ gaps s, d ≤ 1 / (g : Rat)
  | [], _, _, _, d, hd => by simp [gaps] at hd
  | [a], _, _, _, d, hd => by simp [gaps] at hd
  | a :: b :: rest, hs, hgrid, hall, d, hd => by
    have hs' := (List.pairwise_cons.1 hs).2
    rw [gaps] at hd
    rcases List.mem_cons.1 hd with rfl | hd
    · obtain ⟨k, hk, rfl⟩ := hgrid a (by simp)
      obtain ⟨m, hm, rfl⟩ := hgrid b (by simp)
      by_contra hgt
      have hlt : (1 : Rat) / g < (m : Rat) / g - (k : Rat) / g := lt_of_not_ge hgt
      have hkm : k + 1 < m := by
        have : ((k + 1 : Nat) : Rat) / g < (m : Rat) / g := by
          push_cast
          rw [add_div]
          linarith
        by_contra hcon
        exact absurd ((gv_le g hg m (k + 1)).2 (by omega)) (not_le.2 this)
      have hin := hall (k + 1) (by omega) (by
        intro x hx
        simp only [List.head?_cons, Option.mem_def, Option.some.injEq] at hx
        subst hx
        exact (gv_le g hg k (k + 1)).2 (by omega))
      rcases List.mem_cons.1 hin with h | h
      · have := gv_inj g hg _ _ h; omega
      · have hb : (m : Rat) / g ≤ ((k + 1 : Nat) : Rat) / g := by
          rcases List.mem_cons.1 h with h | h
          · exact le_of_eq h.symm
          · exact (List.pairwise_cons.1 hs').1 _ h
        have := (gv_le g hg m (k + 1)).1 hb
        omega
    · refine gaps_le g hg (b :: rest) hs' (fun c hc => hgrid c (List.mem_cons_of_mem _ hc)) ?_ d hd
      intro n hn hhead
      have hbn : b ≤ (n : Rat) / g := hhead b (by simp)
      have hab : a ≤ b := (List.pairwise_cons.1 hs).1 b (by simp)
      have := hall n hn (by
        intro x hx
        simp only [List.head?_cons, Option.mem_def, Option.some.injEq] at hx
        subst hx
        exact le_trans hab hbn)
      rcases List.mem_cons.1 this with h | h
      · -- n/g = a ≤ b ≤ n/g, so b = n/g
        have : b = (n : Rat) / g := le_antisymm hbn (h ▸ hab)
        rw [← this]; simp
      · exact h

/-- a sorted list that contains something larger than its head has a positive gap -/
theorem exists_pos_gap :
    ∀ s : List Rat, s.Pairwise (· ≤ ·) → ∀ a ∈ s.head?, ∀ y ∈ s, a < y → ∃ d ∈ gaps s, 0 < d
  | [], _, a, ha, _, _, _ => by simp at ha
  | [x], _, a, ha, y, hy, hlt => by
    simp only [List.head?_cons, Option.mem_def, Option.some.injEq] at ha
    simp only [List.mem_singleton] at hy
    subst ha hy
    exact absurd hlt (lt_irrefl _)
  | x :: b :: rest, hs, a, ha, y, hy, hlt => by
    simp only [List.head?_cons, Option.mem_def, Option.some.injEq] at ha
    subst ha
    rw [gaps]
    by_cases hxb : x < b
    · exact ⟨b - x, by simp, by linarith⟩
    · have hxb' : x ≤ b := (List.pairwise_cons.1 hs).1 b (by simp)
      have hbx : b = x := le_antisymm (le_of_not_gt hxb) hxb'
      have hy' : y ∈ b :: rest := by
        rcases List.mem_cons.1 hy with h | h
        · subst h; exact absurd hlt (lt_irrefl _)
        · exact h
      obtain ⟨d, hd, hpos⟩ := exists_pos_gap (b :: rest) (List.pairwise_cons.1 hs).2 b (by simp) y hy'
        (by rw [hbx]; exact hlt)
      exact ⟨d, List.mem_cons_of_mem _ hd, hpos⟩

/-- a gap between grid values is a multiple of `1/g` -/
theorem mem_gaps_grid (g : Nat) :
    ∀ s : List Rat, (∀ c ∈ s, ∃ n : Nat, n ≤ g ∧ c = (n : Rat) / g) →
      ∀ d ∈ gaps s, ∃ k m : Nat, d = (m : Rat) / g - (k : Rat) / g
  | [], _, d, hd => by simp [gaps] at hd
  | [a], _, d, hd => by simp [gaps] at hd
  | a :: b :: rest, hgrid, d, hd => by
    rw [gaps] at hd
    rcases List.mem_cons.1 hd with rfl | hd
    · obtain ⟨k, _, rfl⟩ := hgrid a (by simp)
      obtain ⟨m, _, rfl⟩ := hgrid b (by simp)
      exact ⟨k, m, rfl⟩
    · exact mem_gaps_grid g (b :: rest) (fun c hc => hgrid c (List.mem_cons_of_mem _ hc)) d hd

theorem gaps_ne_nil (a b : Rat) (l : List Rat) : gaps (a :: b :: l) ≠ [] := by simp [gaps]

end WB.C30
