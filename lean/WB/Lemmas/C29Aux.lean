/-
  Helper lemmas for C29: batching, path coordinate, periodic nearest-point map.
-/
import WB.Model.C29
import Mathlib.Data.List.Basic
import Mathlib.Data.Rat.Floor
import Mathlib.Algebra.BigOperators.Group.List.Basic
import Mathlib.Algebra.Order.Field.Rat
import Mathlib.Tactic.Linarith
import Mathlib.Tactic.Ring
import Mathlib.Tactic.Positivity

namespace WB.C29

/-! ### get_K_list -/

theorem chunksAux_cons {α} (k fuel : Nat) (a : α) (l : List α) :
    chunksAux k (fuel + 1) (a :: l) = (a :: l).take k :: chunksAux k fuel ((a :: l).drop k) := rfl

theorem chunksAux_flatten {α} (k : Nat) (hk : 0 < k) : ∀ (fuel : Nat) (l : List α), l.length ≤ fuel →
    (chunksAux k fuel l).flatten = l
  | 0, l, h => by
    have : l = [] := List.length_eq_zero_iff.mp (by omega)
    subst this
    simp [chunksAux]
  | fuel + 1, [], _ => by simp [chunksAux]
  | fuel + 1, a :: l, h => by
    rw [chunksAux_cons, List.flatten_cons,
      chunksAux_flatten k hk fuel _ (by rw [List.length_drop]; simp only [List.length_cons] at h ⊢; omega)]
    exact List.take_append_drop k (a :: l)

theorem chunksAux_sizes {α} (k : Nat) (hk : 0 < k) : ∀ (fuel : Nat) (l : List α),
    ∀ c ∈ chunksAux k fuel l, c ≠ [] ∧ c.length ≤ k
  | 0, l => by simp [chunksAux]
  | fuel + 1, [] => by simp [chunksAux]
  | fuel + 1, a :: l => by
    intro c hc
    rw [chunksAux_cons] at hc
    rcases List.mem_cons.mp hc with rfl | hc
    · constructor
      · obtain ⟨k', rfl⟩ : ∃ k', k = k' + 1 := ⟨k - 1, by omega⟩
        simp
      · rw [List.length_take]; exact Nat.min_le_left _ _
    · exact chunksAux_sizes k hk fuel _ c hc

/-! ### getKline -/

theorem cumsum_sorted : ∀ (l : List Rat) (s : Rat), (∀ x ∈ l, 0 ≤ x) → (s :: cumsumFrom s l).Pairwise (· ≤ ·)
  | [], s, _ => by simp [cumsumFrom]
  | x :: l, s, h => by
    have hx : 0 ≤ x := h x (by simp)
    have ih := cumsum_sorted l (s + x) (fun y hy => h y (by simp [hy]))
    rw [cumsumFrom, List.pairwise_cons]
    refine ⟨?_, ih⟩
    intro a ha
    rcases List.mem_cons.mp ha with rfl | ha
    · linarith
    · have := (List.pairwise_cons.mp ih).1 a ha
      linarith

theorem cumsum_length : ∀ (l : List Rat) (s : Rat), (cumsumFrom s l).length = l.length
  | [], _ => rfl
  | x :: l, s => by rw [cumsumFrom, List.length_cons, cumsum_length l, List.length_cons]

theorem cumsum_step : ∀ (l : List Rat) (s : Rat) (i : Nat), i < l.length →
    (s :: cumsumFrom s l).getD (i + 1) 0 = (s :: cumsumFrom s l).getD i 0 + l.getD i 0
  | [], _, _, h => by simp at h
  | x :: l, s, 0, _ => by simp [cumsumFrom]
  | x :: l, s, i + 1, h => by
    have ih := cumsum_step l (s + x) i (by simpa using h)
    rw [cumsumFrom]
    simpa using ih

/-- the `i`-th entry of the cumulative sum is the start value plus the sum of the first `i` steps -/
theorem cumsum_getD : ∀ (l : List Rat) (s : Rat) (i : Nat), i ≤ l.length →
    (s :: cumsumFrom s l).getD i 0 = s + (l.take i).sum
  | _, s, 0, _ => by simp
  | [], _, i + 1, h => by simp at h
  | x :: l, s, i + 1, h => by
    have ih := cumsum_getD l (s + x) i (by simpa using h)
    rw [cumsumFrom]
    simp only [List.getD_cons_succ, List.take_succ_cons, List.sum_cons]
    rw [ih]; ring

/-- the chord-length rule (NOT what the code does): the coordinate of a point is the straight-line distance from
    the start of the path.  One-dimensional Cartesian positions suffice for the counterexample. -/
def chordLine (xs : List Rat) : List Rat := xs.map (fun x => absR (x - xs.headD 0))

/-- Cartesian step lengths of one-dimensional positions -/
def steps1 : List Rat → List Rat
  | a :: b :: l => absR (b - a) :: steps1 (b :: l)
  | _ => []

theorem klineSteps_nonneg (d : List Rat) (breaks : List Nat) (thresh : Option Rat) (hd : ∀ x ∈ d, 0 ≤ x) :
    ∀ y ∈ klineSteps d breaks thresh, 0 ≤ y := by
  intro y hy
  unfold klineSteps at hy
  obtain ⟨p, hp, rfl⟩ := List.mem_map.mp hy
  have hp1 : p.1 ∈ d := by
    have := List.mem_zipIdx_iff_getElem?.1 hp
    exact List.mem_of_getElem? this
  have h0 := hd p.1 hp1
  split
  · exact le_refl _
  · split
    · split
      · exact le_refl _
      · exact h0
    · exact h0

theorem klineSteps_length (d : List Rat) (breaks : List Nat) (thresh : Option Rat) :
    (klineSteps d breaks thresh).length = d.length := by
  unfold klineSteps; simp

theorem klineSteps_break (d : List Rat) (breaks : List Nat) (thresh : Option Rat) (i : Nat) (hi : i ∈ breaks) :
    (klineSteps d breaks thresh).getD i 0 = 0 := by
  unfold klineSteps
  rw [List.getD_eq_getElem?_getD, List.getElem?_map, List.getElem?_zipIdx]
  cases hd : d[i]? with
  | none => simp
  | some x =>
    simp [hi]

/-! ### the periodic difference -/

theorem roundHalfEven_intCast (z : Int) : roundHalfEven (z : Rat) = z := by
  unfold roundHalfEven
  have hf : (Rat.floor (z : Rat)) = z := by
    show ⌊(z : Rat)⌋ = z
    exact Int.floor_intCast z
  simp only [hf, sub_self]
  norm_num

theorem absR_nonneg (q : Rat) : 0 ≤ absR q := by
  unfold absR; split <;> linarith

theorem absR_eq (q : Rat) : absR q = q ∨ absR q = -q := by
  unfold absR; split
  · right; rfl
  · left; rfl

/-- the periodic difference vanishes exactly when the two coordinates differ by an integer -/
theorem pdiff_eq_zero_iff (x y : Rat) : pdiff x y = 0 ↔ ∃ n : Int, x = y + n := by
  unfold pdiff
  constructor
  · intro h
    have h1 : absR (x - y) = (roundHalfEven (absR (x - y)) : Rat) := by linarith
    rcases absR_eq (x - y) with e | e
    · exact ⟨roundHalfEven (absR (x - y)), by rw [← h1, e]; ring⟩
    · refine ⟨-roundHalfEven (absR (x - y)), ?_⟩
      push_cast
      rw [← h1, e]; ring
  · rintro ⟨n, rfl⟩
    have e : y + n - y = (n : Rat) := by ring
    rw [e]
    rcases absR_eq (n : Rat) with h | h
    · rw [h, roundHalfEven_intCast]; ring
    · have : absR (n : Rat) = ((-n : Int) : Rat) := by rw [h]; push_cast; ring
      rw [this, roundHalfEven_intCast]; ring

theorem pdist2_nonneg (k p : Q3) : 0 ≤ pdist2 k p := by
  unfold pdist2
  have := mul_self_nonneg (pdiff k.1 p.1)
  have := mul_self_nonneg (pdiff k.2.1 p.2.1)
  have := mul_self_nonneg (pdiff k.2.2 p.2.2)
  linarith

/-- two k-points are equal modulo a reciprocal lattice vector -/
def Congr (k p : Q3) : Prop := ∃ a b c : Int, k = (p.1 + a, p.2.1 + b, p.2.2 + c)

theorem pdist2_eq_zero_iff (k p : Q3) : pdist2 k p = 0 ↔ Congr k p := by
  unfold pdist2 Congr
  have h1 := mul_self_nonneg (pdiff k.1 p.1)
  have h2 := mul_self_nonneg (pdiff k.2.1 p.2.1)
  have h3 := mul_self_nonneg (pdiff k.2.2 p.2.2)
  constructor
  · intro h
    have e1 : pdiff k.1 p.1 = 0 := mul_self_eq_zero.mp (by linarith)
    have e2 : pdiff k.2.1 p.2.1 = 0 := mul_self_eq_zero.mp (by linarith)
    have e3 : pdiff k.2.2 p.2.2 = 0 := mul_self_eq_zero.mp (by linarith)
    obtain ⟨a, ha⟩ := (pdiff_eq_zero_iff _ _).1 e1
    obtain ⟨b, hb⟩ := (pdiff_eq_zero_iff _ _).1 e2
    obtain ⟨c, hc⟩ := (pdiff_eq_zero_iff _ _).1 e3
    exact ⟨a, b, c, Prod.ext ha (Prod.ext hb hc)⟩
  · rintro ⟨a, b, c, h⟩
    have e1 : pdiff k.1 p.1 = 0 := (pdiff_eq_zero_iff _ _).2 ⟨a, congrArg (·.1) h⟩
    have e2 : pdiff k.2.1 p.2.1 = 0 := (pdiff_eq_zero_iff _ _).2 ⟨b, congrArg (·.2.1) h⟩
    have e3 : pdiff k.2.2 p.2.2 = 0 := (pdiff_eq_zero_iff _ _).2 ⟨c, congrArg (·.2.2) h⟩
    rw [e1, e2, e3]; ring

/-! ### argmin -/

/-- invariant of the scan: `best` is the first index of the minimum of the scanned prefix -/
theorem argminAux_spec (L : List Rat) : ∀ (rem : List Rat) (i best : Nat) (bv : Rat),
    rem = L.drop i → i ≤ L.length → best < i → bv = L.getD best 0 →
    (∀ j, j < i → bv ≤ L.getD j 0) → (∀ j, j < best → bv < L.getD j 0) →
    let r := argminAux rem i best bv
    r < L.length ∧ (∀ j, j < L.length → L.getD r 0 ≤ L.getD j 0) ∧ (∀ j, j < r → L.getD r 0 < L.getD j 0)
  | [], i, best, bv, hrem, hi, hb, hbv, hmin, hfirst => by
    have hlen : L.length ≤ i := by
      have := congrArg List.length hrem
      rw [List.length_drop] at this
      simp at this; omega
    simp only [argminAux]
    refine ⟨by omega, ?_, ?_⟩
    · intro j hj; rw [← hbv]; exact hmin j (by omega)
    · intro j hj; rw [← hbv]; exact hfirst j hj
  | x :: rem, i, best, bv, hrem, hi, hb, hbv, hmin, hfirst => by
    have hil : i < L.length := by
      have := congrArg List.length hrem
      rw [List.length_drop] at this
      simp at this; omega
    have hx : x = L.getD i 0 := by
      have h1 : (L.drop i)[0]? = some x := by rw [← hrem]; simp
      rw [List.getElem?_drop] at h1
      rw [List.getD_eq_getElem?_getD]
      simp at h1
      rw [h1]; rfl
    have hrem' : rem = L.drop (i + 1) := by
      have := congrArg List.tail hrem
      simpa [List.tail_drop] using this
    simp only [argminAux]
    split
    · rename_i hlt
      apply argminAux_spec L rem (i + 1) i x hrem' (by omega) (by omega) hx
      · intro j hj
        rcases Nat.lt_or_ge j i with h | h
        · exact le_trans (le_of_lt hlt) (hmin j h)
        · have : j = i := by omega
          rw [this, hx]
      · intro j hj
        exact lt_of_lt_of_le hlt (hmin j hj)
    · rename_i hge
      apply argminAux_spec L rem (i + 1) best bv hrem' (by omega) (by omega) hbv
      · intro j hj
        rcases Nat.lt_or_ge j i with h | h
        · exact hmin j h
        · have : j = i := by omega
          rw [this, ← hx]; exact not_lt.mp hge
      · exact hfirst

theorem argmin_spec (L : List Rat) (hL : L ≠ []) :
    argmin L < L.length ∧ (∀ j, j < L.length → L.getD (argmin L) 0 ≤ L.getD j 0) ∧
      (∀ j, j < argmin L → L.getD (argmin L) 0 < L.getD j 0) := by
  cases L with
  | nil => exact absurd rfl hL
  | cons x l =>
    unfold argmin
    apply argminAux_spec (x :: l) l 1 0 x (by simp) (by simp) (by omega) (by simp)
    · intro j hj
      have : j = 0 := by omega
      subst this; simp
    · intro j hj; omega

/-! ### get_component -/

theorem foldr_peel (T : Tensor) : ∀ (comp idx : List Nat),
    comp.foldr (fun k acc => peelLast acc k) T idx = T (idx ++ comp)
  | [], idx => by simp
  | a :: rest, idx => by
    rw [List.foldr_cons]
    show (rest.foldr (fun k acc => peelLast acc k) T) (idx ++ [a]) = T (idx ++ a :: rest)
    rw [foldr_peel T rest (idx ++ [a])]
    simp

theorem foldl_peel (T : Tensor) : ∀ (comp idx : List Nat),
    comp.foldl peelLast T idx = T (idx ++ comp.reverse)
  | [], idx => by simp
  | a :: rest, idx => by
    rw [List.foldl_cons, foldl_peel (peelLast T a) rest idx]
    show T ((idx ++ rest.reverse) ++ [a]) = T (idx ++ (a :: rest).reverse)
    simp

theorem getD_map_default {α β} (f : α → β) (l : List α) (i : Nat) (d : α) :
    (l.map f).getD i (f d) = f (l.getD i d) := by
  rw [List.getD_eq_getElem?_getD, List.getD_eq_getElem?_getD, List.getElem?_map]
  cases l[i]? <;> rfl

end WB.C29
