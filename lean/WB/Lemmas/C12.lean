/-
  Helper lemmas for C12 (collection loop of `process()`, path / grid reordering).
-/
import WB.Model.C12
import Mathlib.Data.List.Basic
import Mathlib.Data.List.Perm.Basic
import Mathlib.Data.List.Perm.Subperm
import Mathlib.Data.List.Nodup
import Mathlib.Data.List.Range
import Mathlib.Algebra.BigOperators.Group.List.Basic
import Mathlib.Tactic.Linarith

namespace WB.C12

/-- pigeonhole: `n` distinct indices below `n` are all of them -/
theorem full_of_length {n : Nat} {l : List Nat} (h : ValidReady n l) (hl : n ≤ l.length) :
    ∀ i, i < n → i ∈ l := by
  have hsub : l ⊆ List.range n := fun i hi => List.mem_range.2 (h.2 i hi)
  have hp : l.Perm (List.range n) :=
    (List.subperm_of_subset h.1 hsub).perm_of_length_le (by simpa using hl)
  intro i hi
  exact hp.mem_iff.2 (List.mem_range.2 hi)

theorem mem_diffOf {n : Nat} {old : Nat → Bool} {ready : List Nat} {i : Nat} :
    i ∈ diffOf n old ready ↔ i < n ∧ i ∈ ready ∧ old i = false := by
  unfold diffOf
  simp [List.mem_filter, List.mem_range]

theorem diffOf_nodup (n : Nat) (old : Nat → Bool) (ready : List Nat) : (diffOf n old ready).Nodup :=
  List.Nodup.filter _ List.nodup_range

@[simp] theorem step_n (u : Bool) (s : State) (r : List Nat) : (step u s r).n = s.n := by
  unfold step; split
  · rfl
  · dsimp only; split <;> rfl

@[simp] theorem step_nstep (u : Bool) (s : State) (r : List Nat) : (step u s r).nstep = s.nstep := by
  unfold step; split
  · rfl
  · dsimp only; split <;> rfl

theorem foldl_step_n (u : Bool) (sched : List (List Nat)) (s : State) :
    (sched.foldl (step u) s).n = s.n := by
  induction sched generalizing s with
  | nil => rfl
  | cons r rest ih => simp [List.foldl_cons, ih]

@[simp] theorem run_n (u : Bool) (n nstep : Nat) (sched : List (List Nat)) : (run u n nstep sched).n = n := by
  unfold run; rw [foldl_step_n]; rfl

/-- the loop invariant of the repaired rule: nothing is ever added twice; while the loop is running the
    log is exactly the set marked `old`; after `break` the log covers every remote -/
structure Inv (s : State) : Prop where
  nodup   : s.added.Nodup
  bounded : ∀ i ∈ s.added, i < s.n
  running : s.done = false → ∀ i, i < s.n → (i ∈ s.added ↔ s.old i = true)
  finished : s.done = true → ∀ i, i < s.n → i ∈ s.added

theorem inv_init (n nstep : Nat) : Inv (init n nstep) := by
  refine ⟨by simp [init], by simp [init], ?_, by simp [init]⟩
  intro _ i _; simp [init]

theorem inv_step (s : State) (ready : List Nat) (hv : ValidReady s.n ready) (h : Inv s) :
    Inv (step true s ready) := by
  unfold step
  by_cases hd : s.done = true
  · simpa [hd] using h
  · have hd' : s.done = false := by simpa using hd
    rw [if_neg hd]
    have hrun := h.running hd'
    have hnodup : (s.added ++ diffOf s.n s.old ready).Nodup := by
      refine List.Nodup.append h.nodup (diffOf_nodup ..) ?_
      intro i hi hi2
      obtain ⟨hin, _, hold⟩ := mem_diffOf.1 hi2
      have := (hrun i hin).1 hi
      rw [hold] at this; exact Bool.noConfusion this
    have hb : ∀ i ∈ s.added ++ diffOf s.n s.old ready, i < s.n := by
      intro i hi
      rcases List.mem_append.1 hi with hi | hi
      · exact h.bounded i hi
      · exact (mem_diffOf.1 hi).1
    dsimp only
    by_cases hfull : s.n ≤ ready.length
    · rw [if_pos hfull]
      refine ⟨hnodup, hb, by simp, ?_⟩
      intro _ i hi
      dsimp only at hi ⊢
      have hir := full_of_length hv hfull i hi
      cases ho : s.old i with
      | true => exact List.mem_append.2 (Or.inl ((hrun i hi).2 ho))
      | false => exact List.mem_append.2 (Or.inr (mem_diffOf.2 ⟨hi, hir, ho⟩))
    · rw [if_neg hfull]
      refine ⟨hnodup, hb, ?_, by simp [hd']⟩
      intro _ i hi
      dsimp only at hi ⊢
      simp only [if_true, Bool.or_eq_true, List.contains_iff_mem, List.mem_append]
      constructor
      · rintro (h1 | h1)
        · exact Or.inl ((hrun i hi).1 h1)
        · exact Or.inr (mem_diffOf.1 h1).2.1
      · rintro (h1 | h1)
        · exact Or.inl ((hrun i hi).2 h1)
        · cases ho : s.old i with
          | true => exact Or.inl ((hrun i hi).2 ho)
          | false => exact Or.inr (mem_diffOf.2 ⟨hi, h1, ho⟩)

theorem inv_foldl (sched : List (List Nat)) (s : State)
    (hv : ∀ r ∈ sched, ValidReady s.n r) (h : Inv s) : Inv (sched.foldl (step true) s) := by
  induction sched generalizing s with
  | nil => exact h
  | cons r rest ih =>
    rw [List.foldl_cons]
    apply ih
    · intro r' hr'; rw [step_n]; exact hv r' (List.mem_cons_of_mem _ hr')
    · exact inv_step s r (hv r (List.mem_cons_self ..)) h

theorem inv_run (n nstep : Nat) (sched : List (List Nat)) (hv : ∀ r ∈ sched, ValidReady n r) :
    Inv (run true n nstep sched) := by
  unfold run
  exact inv_foldl sched (init n nstep) hv (inv_init n nstep)

/-- a state that is done stays as it is -/
theorem step_done (u : Bool) (s : State) (r : List Nat) (h : s.done = true) : step u s r = s := by
  unfold step; rw [if_pos h]

theorem foldl_done (u : Bool) (sched : List (List Nat)) (s : State) (h : s.done = true) :
    sched.foldl (step u) s = s := by
  induction sched with
  | nil => rfl
  | cons r rest ih => rw [List.foldl_cons, step_done u s r h, ih]

theorem step_full_done (u : Bool) (s : State) (r : List Nat) (h : s.n ≤ r.length) :
    (step u s r).done = true := by
  unfold step
  by_cases hd : s.done = true
  · rw [if_pos hd]; exact hd
  · rw [if_neg hd]; dsimp only; rw [if_pos h]

theorem foldl_reaches_done (u : Bool) (sched : List (List Nat)) (s : State)
    (h : ∃ r ∈ sched, s.n ≤ r.length) : (sched.foldl (step u) s).done = true := by
  induction sched generalizing s with
  | nil => obtain ⟨r, hr, _⟩ := h; cases hr
  | cons r rest ih =>
    rw [List.foldl_cons]
    obtain ⟨r', hr', hlen⟩ := h
    rcases List.mem_cons.1 hr' with rfl | hr'
    · rw [foldl_done u rest _ (step_full_done u s r' hlen)]
      exact step_full_done u s r' hlen
    · exact ih (step u s r) ⟨r', hr', by rw [step_n]; exact hlen⟩

/-! ### the original rule coincides with the repaired one on nested answers -/

/-- every answer of `ray.wait` contains the previous one -/
def Nested : List (List Nat) → Prop
  | a :: b :: rest => a ⊆ b ∧ Nested (b :: rest)
  | _ => True

/-- the two rules agree as long as every answer contains the previous one -/
theorem old_rule_eq_on_nested (sched : List (List Nat)) (s t : State)
    (hn : s.n = t.n) (hns : s.nstep = t.nstep) (hc : s.ncalc = t.ncalc) (ha : s.added = t.added)
    (hq : s.asked = t.asked) (hd : s.done = t.done)
    (hold : ∀ i, s.old i = t.old i)
    (hchain : Nested sched)
    (hfirst : ∀ r, sched.head? = some r → ∀ i, t.old i = true → i ∈ r) :
    (sched.foldl (step true) s).added = (sched.foldl (step false) t).added ∧
    (sched.foldl (step true) s).done = (sched.foldl (step false) t).done ∧
    (sched.foldl (step true) s).asked = (sched.foldl (step false) t).asked := by
  induction sched generalizing s t with
  | nil => exact ⟨ha, hd, hq⟩
  | cons r rest ih =>
    rw [List.foldl_cons, List.foldl_cons]
    have holdfun : s.old = t.old := funext hold
    have hsub : ∀ i, t.old i = true → i ∈ r := hfirst r rfl
    by_cases hdone : t.done = true
    · have hsd : s.done = true := hd ▸ hdone
      rw [step_done _ s r hsd, step_done _ t r hdone, foldl_done _ rest s hsd, foldl_done _ rest t hdone]
      exact ⟨ha, hd, hq⟩
    · have hsd : ¬ s.done = true := hd ▸ hdone
      apply ih
      · simp [hn]
      · simp [hns]
      · unfold step; rw [if_neg hsd, if_neg hdone]; dsimp only; rw [hn]; split <;> rfl
      · unfold step; rw [if_neg hsd, if_neg hdone]; dsimp only; rw [hn, ha, holdfun]; split <;> rfl
      · unfold step numReturns; rw [if_neg hsd, if_neg hdone]; dsimp only; rw [hn, hq, hc, hns]; split <;> rfl
      · unfold step; rw [if_neg hsd, if_neg hdone]; dsimp only; rw [hn]; split <;> first | rfl | exact hd
      · intro i
        unfold step; rw [if_neg hsd, if_neg hdone]; dsimp only; rw [hn]
        split
        · exact hold i
        · dsimp only
          simp only [if_true, Bool.false_eq_true, if_false]
          rw [hold i]
          cases ho : t.old i with
          | false => simp
          | true => simp [hsub i ho]
      · cases rest with
        | nil => trivial
        | cons x xs => exact hchain.2
      · intro r' hr' i hi
        have hrr' : r ⊆ r' := by
          cases rest with
          | nil => cases hr'
          | cons x xs =>
            simp only [List.head?_cons, Option.some.injEq] at hr'
            subst hr'
            exact hchain.1
        unfold step at hi; rw [if_neg hdone] at hi; dsimp only at hi
        split at hi
        · exact hrr' (hsub i hi)
        · dsimp only at hi
          simp only [Bool.false_eq_true, if_false, List.contains_iff_mem] at hi
          exact hrr' hi

/-! ### path and grid reordering -/

theorem toPath_of_perm {κ ν} [BEq κ] [LawfulBEq κ] (val : κ → ν) (path : List κ) (arr : List (κ × ν))
    (h : arr.Perm (path.map (fun k => (k, val k)))) :
    toPath arr path = path.map (fun k => some (val k)) := by
  unfold toPath
  apply List.map_congr_left
  intro k hk
  have hmem : (k, val k) ∈ arr := h.mem_iff.2 (List.mem_map.2 ⟨k, hk, rfl⟩)
  cases hf : arr.find? (fun p => p.1 == k) with
  | none =>
    have := List.find?_eq_none.1 hf (k, val k) hmem
    simp at this
  | some p =>
    have hp1 : p.1 = k := by simpa using List.find?_some hf
    have hp : p ∈ arr := List.mem_of_find?_eq_some hf
    obtain ⟨k', _, hk'⟩ := List.mem_map.1 (h.mem_iff.1 hp)
    have : k' = k := by rw [← hp1, ← hk']
    subst this
    simp [← hk']

theorem findIdx?_bind_getElem? {α} (p : α → Bool) : ∀ (l : List α),
    (l.findIdx? p).bind (fun i => l[i]?) = l.find? p
  | [] => rfl
  | a :: l => by
    rw [List.findIdx?_cons, List.find?_cons]
    cases hp : p a with
    | true => simp
    | false =>
      simp only [Bool.false_eq_true, if_false]
      have ih := findIdx?_bind_getElem? p l
      cases hi : l.findIdx? p with
      | none => rw [hi] at ih; simpa using ih
      | some i => rw [hi] at ih; simpa using ih

/-- the mapping applied to the arrivals is the first-match lookup: `self_to_path` computes `toPath` -/
theorem applyMapping_mappingOf {κ ν} [BEq κ] (arr : List (κ × ν)) (path : List κ) :
    applyMapping arr (mappingOf arr path) = toPath arr path := by
  unfold applyMapping mappingOf toPath
  rw [List.map_map]
  apply List.map_congr_left
  intro k _
  simp only [Function.comp]
  have h := findIdx?_bind_getElem? (fun p : κ × ν => p.1 == k) arr
  cases hi : arr.findIdx? (fun p => p.1 == k) with
  | none => rw [hi] at h; simp only [Option.bind_none] at h ⊢; rw [← h]; rfl
  | some i => rw [hi] at h; simp only [Option.bind_some] at h ⊢; rw [h]

theorem onGrid_perm {κ ν} [BEq κ] {arr arr' : List (κ × ν)} (h : arr.Perm arr') (g : κ) :
    (onGrid arr g).Perm (onGrid arr' g) := by
  unfold onGrid
  exact (h.filter _).map _

theorem toGrid_of_perm {κ ν} [BEq κ] [Field ν] {arr arr' : List (κ × ν)} (h : arr.Perm arr') (grid : List κ) :
    toGrid arr grid = toGrid arr' grid := by
  unfold toGrid
  apply List.map_congr_left
  intro g _
  rw [(onGrid_perm h g).sum_eq, (onGrid_perm h g).length_eq]

theorem arrivals_perm {α} (batch : Nat → List α) {l l' : List Nat} (h : l.Perm l') :
    (arrivals batch l).Perm (arrivals batch l') := by
  unfold arrivals
  exact h.flatMap_right batch

end WB.C12
