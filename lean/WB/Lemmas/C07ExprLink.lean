/-
  C07 helper lemmas, part 4: the hypotheses of the tensor-expression calculus hold for orthogonal matrices, its sign
  convention is the one of `transform_tensor` (proper part + declared ±1 transforms), and the curried rotation is the
  model's `rotate` (`WB/Model/C09.lean`).
-/
import WB.Lemmas.C07Expr
import WB.Lemmas.C09Tensor
import Mathlib.Data.Fin.Tuple.Basic
import Mathlib.Data.List.FinRange

set_option linter.unusedSectionVars false
set_option linter.unusedSimpArgs false

namespace WB.C07
open WB.C09

section Orthogonal
variable {K : Type} [CommRing K]

theorem orth_iff (R : Mat K) : Orth R ↔ matMul (matT R) R = matId := by
  unfold Orth
  constructor
  · intro h; funext a b
    have := h a b
    rw [Fin.sum_univ_three] at this
    simp only [matMul, matT, sum3, matId]; exact this
  · intro h a b
    have := congrFun (congrFun h a) b
    rw [Fin.sum_univ_three]
    simpa only [matMul, matT, sum3, matId] using this

/-- for an orthogonal matrix the adjugate is `det · Rᵀ` -/
theorem adj3_of_orth (R : Mat K) (hR : Orth R) : adj3 R = matScale (matT R) (det3 R) := by
  have h1 : matMul (matT R) (matMul R (adj3 R)) = matMul (matT R) (matScale matId (det3 R)) := by
    rw [matMul_adj3]
  rw [← matMul_assoc, (orth_iff R).1 hR, matMul_id_left] at h1
  rw [h1]
  funext i j
  simp only [matMul, matScale, matId, sum3]
  fin_cases j <;> simp

/-- the general identity behind `EpsCompat`: `Σ_ab ε_cab R_aa' R_bb' = Σ_c' cof_cc' ε_c'a'b'`, `cof = adjᵀ` -/
theorem eps_cofactor (R : Mat K) (c a' b' : Fin 3) :
    ∑ a, ∑ b, (eps3 c a b : K) * (R a a' * R b b') = ∑ c', adj3 R c' c * eps3 c' a' b' := by
  simp only [Fin.sum_univ_three]
  fin_cases c <;> fin_cases a' <;> fin_cases b' <;> simp [eps3, adj3] <;> ring

theorem epsCompat_of_orth (R : Mat K) (hR : Orth R) : EpsCompat R (det3 R) := by
  intro c a' b'
  rw [eps_cofactor, adj3_of_orth R hR, Finset.mul_sum]
  apply Finset.sum_congr rfl
  intro c' _
  simp only [matScale, matT]; ring

/-- an orthogonal matrix has determinant ±1 -/
theorem det_sq_of_orth (R : Mat K) (hR : Orth R) : det3 R * det3 R = 1 := by
  have := congrArg det3 ((orth_iff R).1 hR)
  rwa [det3_matMul, det3_matT, det3_matId] at this

theorem rotC_neg (R : Mat K) : ∀ (r : Nat) (t : CT K r),
    rotC (fun i j => - R i j) r t = ((-1 : K) ^ r) • rotC R r t
  | 0, t => by simp [rotC_zero]
  | r + 1, t => by
    funext i
    rw [rotC_succ, CT.smul_apply, rotC_succ, Finset.smul_sum]
    apply Finset.sum_congr rfl
    intro j _
    rw [rotC_neg R r, smul_smul, smul_smul, pow_succ]
    congr 1; ring

/-- `-1 if flag else 1` -/
def sB (b : Bool) : K := if b then -1 else 1

/-- The sign convention of the calculus (full orthogonal matrix, det^axial · τ^trOdd) written in the convention of
    `transform_tensor` (proper part `Rp`, then the declared transforms as factors): the inversion transform of a
    rank-`r` quantity is `(-1)^(r + axial)`, the time-reversal transform is `(-1)^trOdd`. -/
theorem code_convention (Rp : Mat K) (inv tr ax t : Bool) (r : Nat) (x : CT K r) :
    (dsign (sB inv : K) ax * dsign (sB tr : K) t) • rotC (fun i j => sB inv * Rp i j) r x
      = (sB (inv && ((r % 2 == 1) != ax)) * sB (tr && t) : K) • rotC Rp r x := by
  cases inv
  · have : (fun i j => (sB false : K) * Rp i j) = Rp := by funext i j; simp [sB]
    rw [this]
    cases ax <;> cases tr <;> cases t <;> simp [dsign, sB]
  · have : (fun i j => (sB true : K) * Rp i j) = fun i j => - Rp i j := by funext i j; simp [sB]
    rw [this, rotC_neg, smul_smul]
    congr 1
    rcases Nat.even_or_odd r with he | ho
    · have h2 : r % 2 = 0 := Nat.even_iff.mp he
      rw [he.neg_one_pow]
      cases ax <;> cases tr <;> cases t <;> simp [dsign, sB, h2]
    · have h2 : r % 2 = 1 := Nat.odd_iff.mp ho
      rw [ho.neg_one_pow]
      cases ax <;> cases tr <;> cases t <;> simp [dsign, sB, h2]

end Orthogonal

/-! ### the curried rotation is the model's `rotate` -/
section Bridge
variable {K : Type} [CommRing K]

/-- a model tensor (`WB.C09.Tensor`) as a curried tensor -/
def curry : (r : Nat) → Tensor r K → CT K r
  | 0, x => x Fin.elim0
  | r + 1, x => fun i => curry r (fun idx => x (Fin.cons i idx))

theorem curry_add : ∀ (r : Nat) (x y : Tensor r K), curry r (x + y) = curry r x + curry r y
  | 0, _, _ => rfl
  | r + 1, x, y => by
    funext i
    show curry r (fun idx => (x + y) (Fin.cons i idx)) = _
    exact curry_add r (fun idx => x (Fin.cons i idx)) (fun idx => y (Fin.cons i idx))

theorem curry_smul : ∀ (r : Nat) (c : K) (x : Tensor r K), curry r (fun idx => x idx * c) = c • curry r x
  | 0, c, x => by show x Fin.elim0 * c = c * x Fin.elim0; ring
  | r + 1, c, x => by
    funext i
    show curry r (fun idx => x (Fin.cons i idx) * c) = _
    exact curry_smul r c (fun idx => x (Fin.cons i idx))

theorem setIdx_cons_zero {r : Nat} (i j : Fin 3) (rest : Fin r → Fin 3) :
    setIdx (Fin.cons i rest : Fin (r + 1) → Fin 3) 0 j = Fin.cons j rest := by
  funext b
  refine Fin.cases ?_ (fun b' => ?_) b
  · simp [setIdx]
  · simp [setIdx, Fin.succ_ne_zero]

theorem setIdx_cons_succ {r : Nat} (i j : Fin 3) (rest : Fin r → Fin 3) (a : Fin r) :
    setIdx (Fin.cons i rest : Fin (r + 1) → Fin 3) a.succ j = Fin.cons i (setIdx rest a j) := by
  funext b
  refine Fin.cases ?_ (fun b' => ?_) b
  · simp [setIdx, (Fin.succ_ne_zero a).symm]
  · simp [setIdx, Fin.succ_inj]

/-- rotating an axis behind the first one = rotating that axis of the slice with the first index fixed -/
theorem rotAxis_succ_cons {r : Nat} (A : Mat K) (a : Fin r) (y : Tensor (r + 1) K) (i : Fin 3)
    (rest : Fin r → Fin 3) :
    rotAxis A a.succ y (Fin.cons i rest) = rotAxis A a (fun idx => y (Fin.cons i idx)) rest := by
  simp only [rotAxis, setIdx_cons_succ, Fin.cons_succ]

theorem rotAxes_succ_cons {r : Nat} (A : Mat K) (l : List (Fin r)) (y : Tensor (r + 1) K) (i : Fin 3) :
    (fun rest => rotAxes A (l.map Fin.succ) y (Fin.cons i rest))
      = rotAxes A l (fun idx => y (Fin.cons i idx)) := by
  induction l generalizing y with
  | nil => rfl
  | cons a t ih =>
    rw [List.map_cons, rotAxes_cons, rotAxes_cons, ih]
    congr 1
    funext rest
    exact rotAxis_succ_cons A a y i rest

theorem rotate_succ {r : Nat} (A : Mat K) (x : Tensor (r + 1) K) (i : Fin 3) :
    (fun rest => rotate A x (Fin.cons i rest))
      = rotate A (fun rest => sum3 fun j => x (Fin.cons j rest) * A i j) := by
  unfold rotate
  rw [List.finRange_succ, rotAxes_cons, rotAxes_succ_cons]
  congr 1
  funext rest
  simp only [rotAxis, setIdx_cons_zero, Fin.cons_zero]

/-- `curry (rotate A x) = rotC A (curry x)` -/
theorem curry_rotate (A : Mat K) : ∀ (r : Nat) (x : Tensor r K), curry r (rotate A x) = rotC A r (curry r x)
  | 0, x => rfl
  | r + 1, x => by
    funext i
    show curry r (fun rest => rotate A x (Fin.cons i rest)) = ∑ j, A i j • rotC A r (curry (r + 1) x j)
    rw [rotate_succ, curry_rotate A r]
    have : (fun rest : Fin r → Fin 3 => sum3 fun j => x (Fin.cons j rest) * A i j)
        = (fun rest => x (Fin.cons 0 rest) * A i 0) + (fun rest => x (Fin.cons 1 rest) * A i 1)
          + (fun rest => x (Fin.cons 2 rest) * A i 2) := by
      funext rest; simp [sum3]
    rw [this, curry_add, curry_add, curry_smul, curry_smul, curry_smul, map_add, map_add, map_smul, map_smul,
      map_smul, Fin.sum_univ_three]
    rfl

end Bridge

end WB.C07
