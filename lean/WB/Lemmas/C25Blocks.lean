/-
  C25 helper lemmas: the strided (interlaced) assembly is a block-diagonal matrix up to the permutation
  `up m ↦ 2m`, `down m ↦ 2m+1`.
-/
import WB.Model.C25
import Mathlib.LinearAlgebra.Matrix.Charpoly.Basic
import Mathlib.LinearAlgebra.Matrix.Charpoly.Coeff
import Mathlib.Algebra.Polynomial.Roots
import Mathlib.Data.Matrix.Block
import Mathlib.Tactic.Ring
import Mathlib.Tactic.Linarith

namespace WB.C25
open Matrix

/-- the `n×n` matrix with entries `X i j` -/
def toMat {K : Type} (n : Nat) (X : Nat → Nat → K) : Matrix (Fin n) (Fin n) K := Matrix.of fun i j => X i j

/-- `up m ↦ 2m`, `down m ↦ 2m+1` -/
def interleave (n : Nat) : Fin n ⊕ Fin n ≃ Fin (2 * n) where
  toFun x := match x with
    | Sum.inl m => ⟨2 * m.val, by omega⟩
    | Sum.inr m => ⟨2 * m.val + 1, by omega⟩
  invFun a := if a.val % 2 = 0 then Sum.inl ⟨a.val / 2, by omega⟩ else Sum.inr ⟨a.val / 2, by omega⟩
  left_inv x := by
    rcases x with m | m
    · have h : (2 * m.val) % 2 = 0 := by omega
      simp only [h, ↓reduceIte]
      congr 1; apply Fin.ext; simp
    · have h : ¬ ((2 * m.val + 1) % 2 = 0) := by omega
      simp only [h, ↓reduceIte]
      congr 1; apply Fin.ext; simp; omega
  right_inv a := by
    by_cases h : a.val % 2 = 0
    · simp only [h, ↓reduceIte]; apply Fin.ext; simp; omega
    · simp only [h, ↓reduceIte]; apply Fin.ext; simp; omega

variable {K : Type}

section entries
variable [OfNat K 0] (Hu Hd : Nat → Nat → K) (m n : Nat)

theorem assembleUD_ee : assembleUD Hu Hd (2 * m) (2 * n) = Hu m n := by
  have h1 : (2 * m) % 2 = 0 := by omega
  have h2 : (2 * n) % 2 = 0 := by omega
  simp [assembleUD, assignStrided, h1, h2]

theorem assembleUD_oo : assembleUD Hu Hd (2 * m + 1) (2 * n + 1) = Hd m n := by
  have h1 : (2 * m + 1) % 2 = 1 := by omega
  have h2 : (2 * n + 1) % 2 = 1 := by omega
  simp [assembleUD, assignStrided, h1, h2]

theorem assembleUD_eo : assembleUD Hu Hd (2 * m) (2 * n + 1) = 0 := by
  have h1 : (2 * m) % 2 = 0 := by omega
  have h2 : (2 * n + 1) % 2 = 1 := by omega
  simp [assembleUD, assignStrided, zeroMat, h1, h2]

theorem assembleUD_oe : assembleUD Hu Hd (2 * m + 1) (2 * n) = 0 := by
  have h1 : (2 * m + 1) % 2 = 1 := by omega
  have h2 : (2 * n) % 2 = 0 := by omega
  simp [assembleUD, assignStrided, zeroMat, h1, h2]

end entries

/-- the interlaced assembly, re-indexed by spin, is block diagonal -/
theorem assembleUD_blocks [Zero K] (n : Nat) (Hu Hd : Nat → Nat → K) :
    (toMat (2 * n) (assembleUD Hu Hd)).submatrix (interleave n) (interleave n)
      = fromBlocks (toMat n Hu) 0 0 (toMat n Hd) := by
  ext x y
  rcases x with x | x <;> rcases y with y | y <;>
    simp [toMat, interleave, assembleUD_ee, assembleUD_oo, assembleUD_eo, assembleUD_oe]

theorem doubleSpin_eq_assembleUD [OfNat K 0] (X : Nat → Nat → K) : doubleSpin X = assembleUD X X := rfl

/-- charpoly of the interlaced assembly = product of the charpolys of the two spin blocks -/
theorem assembleUD_charpoly [CommRing K] (n : Nat) (Hu Hd : Nat → Nat → K) :
    (toMat (2 * n) (assembleUD Hu Hd)).charpoly = (toMat n Hu).charpoly * (toMat n Hd).charpoly := by
  have h := assembleUD_blocks n Hu Hd
  have h2 : (reindex (interleave n).symm (interleave n).symm (toMat (2 * n) (assembleUD Hu Hd))).charpoly
      = (toMat (2 * n) (assembleUD Hu Hd)).charpoly := charpoly_reindex _ _
  rw [← h2, reindex_apply, Equiv.symm_symm, h, charpoly_fromBlocks_zero₁₂]

/-! ### sums -/

theorem sumRange_eq_sum [AddCommMonoid K] (n : Nat) (f : Nat → K) :
    sumRange n f = ∑ i ∈ Finset.range n, f i := by
  induction n with
  | zero => simp [sumRange]
  | succ n ih => rw [sumRange, ih, Finset.sum_range_succ]

theorem rmap_length (merged l : List Vec3) : (rmap merged l).length = l.length := by simp [rmap]

theorem rmap_getD (merged l : List Vec3) (j : Nat) (hj : j < l.length) :
    (rmap merged l).getD j 0 = merged.idxOf (nthR l j) := by
  simp [rmap, nthR, List.getD_eq_getElem?_getD, hj]

theorem nthR_idxOf (merged : List Vec3) (R : Vec3) (h : R ∈ merged) : nthR merged (merged.idxOf R) = R := by
  have hlt : merged.idxOf R < merged.length := List.idxOf_lt_length_iff.2 h
  simp [nthR, List.getD_eq_getElem?_getD, hlt]

/-- the Fourier-type sum over the merged list of a scatter-added array = old sum + the sum over the source list -/
theorem kSum_scatterAdd [CommRing K] (χ : Vec3 → K) (merged l : List Vec3) (hsub : ∀ R ∈ l, R ∈ merged)
    (M X : Nat → K) :
    kSum χ merged (scatterAdd M (rmap merged l) X) = kSum χ merged M + kSum χ l X := by
  unfold kSum scatterAdd
  simp only [sumRange_eq_sum, rmap_length]
  simp only [mul_add, Finset.sum_add_distrib, Finset.mul_sum]
  congr 1
  rw [Finset.sum_comm]
  apply Finset.sum_congr rfl
  intro j hj
  have hj' : j < l.length := Finset.mem_range.1 hj
  have hmem : nthR l j ∈ merged := by
    apply hsub; simp [nthR, List.getD_eq_getElem?_getD, hj']
  rw [rmap_getD merged l j hj']
  have hlt : merged.idxOf (nthR l j) < merged.length := List.idxOf_lt_length_iff.2 hmem
  rw [Finset.sum_eq_single (merged.idxOf (nthR l j))]
  · simp [nthR_idxOf merged _ hmem]
  · intro r _ hr
    rw [if_neg (Ne.symm hr), mul_zero]
  · intro h; exact absurd (Finset.mem_range.2 hlt) h

theorem kSum_zero [CommRing K] (χ : Vec3 → K) (l : List Vec3) : kSum χ l (fun _ => (0 : K)) = 0 := by
  simp [kSum, sumRange_eq_sum]

theorem kSum_embedStrided [CommRing K] (χ : Vec3 → K) (l : List Vec3) (i : Nat) (X : Nat → Nat → Nat → K) (a b : Nat) :
    kSum χ l (fun j => embedStrided i (X j) a b) = embedStrided i (fun m n => kSum χ l (fun j => X j m n)) a b := by
  unfold embedStrided
  split
  · rfl
  · exact kSum_zero χ l

/-- a VARIANT of `get_system_R` for the non-magnetic case that fills the spin-down block with the complex conjugate of
    the spin-up block ("time-reversed partner").  This is NOT what the code does; it is defined here only to state that
    it would be wrong (Props: `conjugated_down_block_is_wrong`). -/
def sysRHamConjDown {K : Type} [Add K] [OfNat K 0] (conj : K → K) (merged lsoc lup : List Vec3)
    (Hsoc Hup : Nat → Nat → Nat → K) (r a b : Nat) : K :=
  scatterAdd
    (scatterAdd
      (scatterAdd (fun _ => 0) (rmap merged lsoc) (fun j => Hsoc j a b))
      (rmap merged lup) (fun j => embedStrided 0 (Hup j) a b))
    (rmap merged lup) (fun j => embedStrided 1 (fun m n => conj (Hup j m n)) a b) r

end WB.C25
