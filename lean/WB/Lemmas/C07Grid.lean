/-
  C07 helper lemmas, part 2: the index arithmetic of `TABresult.to_grid` and the average over a grid cell.
-/
import WB.Model.C07
import WB.Lemmas.C09Star
import WB.Lemmas.C09Avg
import Mathlib.Algebra.CharZero.Defs
import Mathlib.Data.Rat.Defs
import Mathlib.Tactic.FieldSimp
import Mathlib.Tactic.Ring
import Mathlib.Tactic.Linarith
import Mathlib.Tactic.Positivity

set_option linter.unusedSectionVars false
set_option linter.unusedSimpArgs false

namespace WB.C07
open WB.C09

/-! ### mixed-radix index -/

theorem decode_index (n1 n2 a0 a1 a2 : Nat) (h1 : a1 < n1) (h2 : a2 < n2) :
    (a2 + n2 * (a1 + n1 * a0)) % n2 = a2 ∧ (a2 + n2 * (a1 + n1 * a0)) / n2 % n1 = a1 ∧
      (a2 + n2 * (a1 + n1 * a0)) / (n1 * n2) = a0 := by
  have hn2 : 0 < n2 := by omega
  have hn1 : 0 < n1 := by omega
  have e1 : (a2 + n2 * (a1 + n1 * a0)) / n2 = a1 + n1 * a0 := by
    rw [Nat.add_mul_div_left _ _ hn2, Nat.div_eq_of_lt h2, Nat.zero_add]
  refine ⟨?_, ?_, ?_⟩
  · rw [Nat.add_mul_mod_self_left, Nat.mod_eq_of_lt h2]
  · rw [e1, Nat.add_mul_mod_self_left, Nat.mod_eq_of_lt h1]
  · rw [Nat.mul_comm n1 n2, ← Nat.div_div_eq_div_mul, e1, Nat.add_mul_div_left _ _ hn1, Nat.div_eq_of_lt h1,
      Nat.zero_add]

theorem encode_index (n1 n2 c : Nat) :
    c % n2 + n2 * (c / n2 % n1 + n1 * (c / (n1 * n2))) = c := by
  rw [Nat.mul_comm n1 n2, ← Nat.div_div_eq_div_mul, Nat.mod_add_div, Nat.mod_add_div]

theorem index_lt (n0 n1 n2 a0 a1 a2 : Nat) (h0 : a0 < n0) (h1 : a1 < n1) (h2 : a2 < n2) :
    a2 + n2 * (a1 + n1 * a0) < n0 * n1 * n2 := by
  have e1 : a1 + n1 * a0 + 1 ≤ n1 * n0 := by
    calc a1 + n1 * a0 + 1 ≤ n1 + n1 * a0 := by omega
      _ = n1 * (a0 + 1) := by ring
      _ ≤ n1 * n0 := Nat.mul_le_mul_left _ h0
  calc a2 + n2 * (a1 + n1 * a0) < n2 + n2 * (a1 + n1 * a0) := by omega
    _ = n2 * (a1 + n1 * a0 + 1) := by ring
    _ ≤ n2 * (n1 * n0) := Nat.mul_le_mul_left _ e1
    _ = n0 * n1 * n2 := by ring

/-! ### `kIndex` -/

/-- the digit the code computes for one coordinate: `rint(k*n) % n` -/
def digitOf (n : Nat) (q : Rat) : Nat := ((q * (n : Rat)).num % (n : Int)).toNat

theorem digitOf_lt (n : Nat) (hn : 0 < n) (q : Rat) : digitOf n q < n := by
  unfold digitOf
  have h1 : (0 : Int) ≤ (q * (n : Rat)).num % (n : Int) := Int.emod_nonneg _ (by omega)
  have h2 : (q * (n : Rat)).num % (n : Int) < (n : Int) := Int.emod_lt_of_pos _ (by omega)
  omega

theorem kIndex_eq (grid : Fin 3 → Nat) (k : Vec Rat) (c : Nat) (h : kIndex grid k = some c) :
    (∀ i, isInt (k i * (grid i : Rat)) = true) ∧
      c = digitOf (grid 2) (k 2) + grid 2 * (digitOf (grid 1) (k 1) + grid 1 * digitOf (grid 0) (k 0)) := by
  unfold kIndex at h
  split at h
  · rename_i hall
    simp only [Option.some.injEq] at h
    refine ⟨?_, h.symm⟩
    intro i
    exact (List.all_eq_true.1 hall) i (List.mem_finRange i)
  · exact absurd h (by simp)

theorem kIndex_lt (grid : Fin 3 → Nat) (hg : ∀ i, 0 < grid i) (k : Vec Rat) (c : Nat)
    (h : kIndex grid k = some c) : c < grid 0 * grid 1 * grid 2 := by
  obtain ⟨-, rfl⟩ := kIndex_eq grid k c h
  exact index_lt _ _ _ _ _ _ (digitOf_lt _ (hg 0) _) (digitOf_lt _ (hg 1) _) (digitOf_lt _ (hg 2) _)

theorem digitOf_natCast_div (n a : Nat) (hn : 0 < n) :
    isInt ((a : Rat) / (n : Rat) * (n : Rat)) = true ∧ digitOf n ((a : Rat) / (n : Rat)) = a % n := by
  have hne : (n : Rat) ≠ 0 := by exact_mod_cast (Nat.pos_iff_ne_zero.mp hn)
  have e : (a : Rat) / (n : Rat) * (n : Rat) = ((a : Int) : Rat) := by
    field_simp; push_cast; ring
  refine ⟨by rw [e]; exact isInt_intCast _, ?_⟩
  unfold digitOf
  rw [e, Rat.num_intCast]
  omega

/-- the grid point of cell `c` is on the grid and is given index `c`: the k-points of a full-grid run
    (`k_new`, C order) keep their place -/
theorem kIndex_gridPoint_aux (grid : Fin 3 → Nat) (hg : ∀ i, 0 < grid i) (c : Nat)
    (hc : c < grid 0 * grid 1 * grid 2) : kIndex grid (gridPoint grid c) = some c := by
  have d0 := digitOf_natCast_div (grid 0) (c / (grid 1 * grid 2)) (hg 0)
  have d1 := digitOf_natCast_div (grid 1) (c / grid 2 % grid 1) (hg 1)
  have d2 := digitOf_natCast_div (grid 2) (c % grid 2) (hg 2)
  have g0 : gridPoint grid c 0 = ((c / (grid 1 * grid 2) : Nat) : Rat) / (grid 0 : Rat) := rfl
  have g1 : gridPoint grid c 1 = ((c / grid 2 % grid 1 : Nat) : Rat) / (grid 1 : Rat) := rfl
  have g2 : gridPoint grid c 2 = ((c % grid 2 : Nat) : Rat) / (grid 2 : Rat) := rfl
  have hall : (List.finRange 3).all (fun i => isInt (gridPoint grid c i * (grid i : Rat))) = true := by
    rw [List.all_eq_true]
    intro i _
    fin_cases i
    · show isInt (gridPoint grid c 0 * _) = true; rw [g0]; exact d0.1
    · show isInt (gridPoint grid c 1 * _) = true; rw [g1]; exact d1.1
    · show isInt (gridPoint grid c 2 * _) = true; rw [g2]; exact d2.1
  unfold kIndex
  rw [if_pos hall]
  simp only [Option.some.injEq]
  have e0 : digitOf (grid 0) (gridPoint grid c 0) = c / (grid 1 * grid 2) := by
    rw [g0, d0.2]
    apply Nat.mod_eq_of_lt
    rw [Nat.div_lt_iff_lt_mul (Nat.mul_pos (hg 1) (hg 2))]
    calc c < grid 0 * grid 1 * grid 2 := hc
      _ = grid 0 * (grid 1 * grid 2) := by ring
  have e1 : digitOf (grid 1) (gridPoint grid c 1) = c / grid 2 % grid 1 := by
    rw [g1, d1.2, Nat.mod_mod]
  have e2 : digitOf (grid 2) (gridPoint grid c 2) = c % grid 2 := by
    rw [g2, d2.2, Nat.mod_mod]
  show digitOf (grid 2) (gridPoint grid c 2) + grid 2 *
      (digitOf (grid 1) (gridPoint grid c 1) + grid 1 * digitOf (grid 0) (gridPoint grid c 0)) = c
  rw [e0, e1, e2]
  exact encode_index _ _ _

/-- a coordinate on the grid differs from its digit / n by an integer -/
theorem sub_digit_isInt (n : Nat) (hn : 0 < n) (q : Rat) (h : isInt (q * (n : Rat)) = true) :
    isInt (q - ((digitOf n q : Nat) : Rat) / (n : Rat)) = true := by
  have hne : (n : Rat) ≠ 0 := by exact_mod_cast (Nat.pos_iff_ne_zero.mp hn)
  obtain ⟨z, hz⟩ := (isInt_iff _).1 h
  have hd : ((digitOf n q : Nat) : Int) = z % (n : Int) := by
    unfold digitOf
    rw [hz, Rat.num_intCast]
    exact Int.toNat_of_nonneg (Int.emod_nonneg _ (by omega))
  have hq : q = (z : Rat) / (n : Rat) := by rw [← hz]; field_simp
  have key : q - ((digitOf n q : Nat) : Rat) / (n : Rat) = ((z / (n : Int) : Int) : Rat) := by
    have h1 : ((digitOf n q : Nat) : Rat) = ((z % (n : Int) : Int) : Rat) := by
      rw [← hd]; push_cast; rfl
    have h2 : (z : Rat) = ((n : Int) : Rat) * ((z / (n : Int) : Int) : Rat) + ((z % (n : Int) : Int) : Rat) := by
      have := Int.mul_ediv_add_emod z (n : Int)
      exact_mod_cast this.symm
    rw [h1, hq]
    rw [h2]
    field_simp
    push_cast
    ring
  rw [key]
  exact isInt_intCast _

/-- whatever lands in cell `c` is (modulo the reciprocal lattice) the grid point of that cell -/
theorem kIndex_sound_aux (grid : Fin 3 → Nat) (hg : ∀ i, 0 < grid i) (k : Vec Rat) (c : Nat)
    (h : kIndex grid k = some c) : equivMod1 k (gridPoint grid c) = true := by
  obtain ⟨hint, rfl⟩ := kIndex_eq grid k c h
  obtain ⟨h2, h1, h0⟩ := decode_index (grid 1) (grid 2) (digitOf (grid 0) (k 0)) (digitOf (grid 1) (k 1))
    (digitOf (grid 2) (k 2)) (digitOf_lt _ (hg 1) _) (digitOf_lt _ (hg 2) _)
  rw [equivMod1_iff]
  intro i
  fin_cases i
  · show isInt (k 0 - gridPoint grid _ 0) = true
    have : gridPoint grid (digitOf (grid 2) (k 2) + grid 2 * (digitOf (grid 1) (k 1) + grid 1 * digitOf (grid 0) (k 0))) 0
        = ((digitOf (grid 0) (k 0) : Nat) : Rat) / (grid 0 : Rat) := by
      show ((_ / (grid 1 * grid 2) : Nat) : Rat) / _ = _
      rw [h0]
    rw [this]
    exact sub_digit_isInt _ (hg 0) _ (hint 0)
  · show isInt (k 1 - gridPoint grid _ 1) = true
    have : gridPoint grid (digitOf (grid 2) (k 2) + grid 2 * (digitOf (grid 1) (k 1) + grid 1 * digitOf (grid 0) (k 0))) 1
        = ((digitOf (grid 1) (k 1) : Nat) : Rat) / (grid 1 : Rat) := by
      show ((_ / grid 2 % grid 1 : Nat) : Rat) / _ = _
      rw [h1]
    rw [this]
    exact sub_digit_isInt _ (hg 1) _ (hint 1)
  · show isInt (k 2 - gridPoint grid _ 2) = true
    have : gridPoint grid (digitOf (grid 2) (k 2) + grid 2 * (digitOf (grid 1) (k 1) + grid 1 * digitOf (grid 0) (k 0))) 2
        = ((digitOf (grid 2) (k 2) : Nat) : Rat) / (grid 2 : Rat) := by
      show ((_ % grid 2 : Nat) : Rat) / _ = _
      rw [h2]
    rw [this]
    exact sub_digit_isInt _ (hg 2) _ (hint 2)

/-! ### the average over a cell -/

theorem cellAverage_const_aux {K : Type} [Field K] [CharZero K] (vals : Nat → K) (km : List Nat) (v : K)
    (hne : km ≠ []) (h : ∀ ik ∈ km, vals ik = v) : cellAverage vals km = some v := by
  unfold cellAverage
  have he : km.isEmpty = false := by
    cases km with
    | nil => exact absurd rfl hne
    | cons a t => rfl
  rw [he]
  simp only [Bool.false_eq_true, if_false, Option.some.injEq]
  rw [foldl_add_eq, zero_add]
  have : (km.map vals) = km.map fun _ => v := List.map_congr_left h
  rw [this, List.map_const', List.sum_replicate, nsmul_eq_mul]
  have hl : (km.length : K) ≠ 0 := by
    have : km.length ≠ 0 := fun e => hne (List.length_eq_zero_iff.mp e)
    exact_mod_cast this
  field_simp

/-- the index map of the division grid is the action on reduced k-vectors, read in grid units -/
theorem gridImage_spec_aux (g : PSym Rat) (B : Mat Rat) (div : Fin 3 → Nat) (hd : ∀ i, div i ≠ 0) (n : Vec Rat)
    (j : Fin 3) :
    g.transformReduced (fun i => n i / (div i : Rat)) B j * (div j : Rat)
      = gridImage (signedRedMat g B) div n j := by
  have h0 : (div 0 : Rat) ≠ 0 := by exact_mod_cast hd 0
  have h1 : (div 1 : Rat) ≠ 0 := by exact_mod_cast hd 1
  have h2 : (div 2 : Rat) ≠ 0 := by exact_mod_cast hd 2
  unfold PSym.transformReduced gridImage signedRedMat vecMat sum3
  field_simp

theorem foldl_pts_eq {K : Type} [Field K] {α : Type} (g : α → K) (l : List α) :
    l.foldl (fun acc p => acc + g p) 0 = (l.map g).sum := by
  rw [foldl_add_eq, zero_add]

theorem mem_kMap (grid : Fin 3 → Nat) (kpts : List (Vec Rat)) (c : Nat) (hc : c < grid 0 * grid 1 * grid 2)
    (ik : Nat) :
    ik ∈ (kMap grid kpts).getD c [] ↔ ik < kpts.length ∧ kIndex grid (kpts.getD ik (fun _ => 0)) = some c := by
  unfold kMap
  rw [List.getD_eq_getElem?_getD, List.getElem?_map, List.getElem?_range hc]
  simp [List.mem_filter]

end WB.C07
