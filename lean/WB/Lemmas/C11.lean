/-
  Helper lemmas for C11 (restart = uninterrupted run; read_factors independent of the listing order).
-/
import WB.Model.C11
import WB.Lemmas.C10
import Mathlib.Data.List.Basic
import Mathlib.Data.List.Perm.Basic
import Mathlib.Data.List.Nodup
import Mathlib.Tactic.Linarith

set_option linter.unusedSectionVars false
set_option linter.unnecessarySeqFocus false

namespace WB.C11
open WB.C10

variable {K : Type}

/-! ### read_factors -/

theorem insertNat_perm (a : Nat) : ∀ (l : List Nat), (insertNat a l).Perm (a :: l)
  | [] => List.Perm.refl _
  | b :: l => by
    unfold insertNat
    split
    · exact List.Perm.refl _
    · exact ((insertNat_perm a l).cons b).trans (List.Perm.swap a b l)

theorem insertNat_pairwise (a : Nat) : ∀ (l : List Nat), l.Pairwise (fun x y => x ≤ y) →
    (insertNat a l).Pairwise (fun x y => x ≤ y)
  | [], _ => by simp [insertNat]
  | b :: l, h => by
    unfold insertNat
    have hb := List.pairwise_cons.1 h
    split
    · rename_i hab
      refine List.pairwise_cons.2 ⟨?_, h⟩
      intro x hx
      rcases List.mem_cons.1 hx with rfl | hx
      · exact hab
      · have := hb.1 x hx; omega
    · rename_i hab
      refine List.pairwise_cons.2 ⟨?_, insertNat_pairwise a l hb.2⟩
      intro x hx
      rcases List.mem_cons.1 ((insertNat_perm a l).mem_iff.1 hx) with rfl | hx
      · omega
      · exact hb.1 x hx

theorem sortNat_perm : ∀ (l : List Nat), (sortNat l).Perm l
  | [] => List.Perm.refl _
  | a :: l => by
    show (insertNat a (sortNat l)).Perm (a :: l)
    exact (insertNat_perm a _).trans ((sortNat_perm l).cons a)

theorem sortNat_pairwise : ∀ (l : List Nat), (sortNat l).Pairwise (fun a b => a ≤ b)
  | [] => List.Pairwise.nil
  | a :: l => by
    show (insertNat a (sortNat l)).Pairwise _
    exact insertNat_pairwise a _ (sortNat_pairwise l)

theorem sortNat_eq_of_perm {l1 l2 : List Nat} (h : l1.Perm l2) : sortNat l1 = sortNat l2 := by
  apply List.Perm.eq_of_pairwise (le := fun a b : Nat => a ≤ b)
  · intro a b _ _ h1 h2; omega
  · exact sortNat_pairwise l1
  · exact sortNat_pairwise l2
  · exact (sortNat_perm l1).trans (h.trans (sortNat_perm l2).symm)

/-- in an ascending list the last element is the largest -/
theorem le_getLast_of_sorted : ∀ (l : List Nat), l.Pairwise (fun a b => a ≤ b) → ∀ last, l.getLast? = some last →
    ∀ x ∈ l, x ≤ last
  | [], _, _, h, _, _ => by simp at h
  | [a], _, last, h, x, hx => by
    simp only [List.getLast?_singleton, Option.some.injEq] at h
    simp only [List.mem_singleton] at hx
    omega
  | a :: b :: rest, hs, last, h, x, hx => by
    have hs' := (List.pairwise_cons.1 hs).2
    have h' : (b :: rest).getLast? = some last := by simpa [List.getLast?_cons_cons] using h
    rcases List.mem_cons.1 hx with rfl | hx
    · have hb := le_getLast_of_sorted (b :: rest) hs' last h' b (List.mem_cons_self ..)
      have := (List.pairwise_cons.1 hs).1 b (List.mem_cons_self ..)
      omega
    · exact le_getLast_of_sorted (b :: rest) hs' last h' x hx

theorem sortNat_getLast {l : List Nat} {m : Nat} (hm : m ∈ l) (hmax : ∀ x ∈ l, x ≤ m) :
    (sortNat l).getLast? = some m := by
  have hmem : m ∈ sortNat l := (sortNat_perm l).mem_iff.2 hm
  cases hl : (sortNat l).getLast? with
  | none =>
    rw [List.getLast?_eq_none_iff] at hl
    rw [hl] at hmem; cases hmem
  | some last =>
    have h1 := le_getLast_of_sorted _ (sortNat_pairwise l) last hl m hmem
    have h2 : last ∈ l := (sortNat_perm l).mem_iff.1 (List.mem_of_getLast? hl)
    have := hmax last h2
    congr 1; omega

/-- with the sorted rule, `iter = -1` selects the largest iteration number present -/
theorem chooseIter_latest {l : List Nat} {m : Nat} (hm : m ∈ l) (hmax : ∀ x ∈ l, x ≤ m) :
    chooseIter true l (-1) = some m := by
  unfold chooseIter
  simp only [show ¬ (0 : Int) ≤ -1 by omega, if_false, if_true]
  rw [sortNat_getLast hm hmax]
  have hmem : m ∈ sortNat l := (sortNat_perm l).mem_iff.2 hm
  simp only
  have e : ((m : Int) + -1 + 1) = (m : Int) := by omega
  rw [e]
  simp only [show ¬ ((m : Int) < 0) by omega, if_false, Int.toNat_natCast]
  rw [if_pos (by simpa using hmem)]

/-! ### factors files -/

theorem readFile_of_mem : ∀ (facs : List (Nat × List K)) (i : Nat) (c : List K),
    (facs.map (·.1)).Nodup → (i, c) ∈ facs → readFile facs i = some c
  | [], _, _, _, h => by cases h
  | e :: rest, i, c, hn, h => by
    unfold readFile
    rw [List.map_cons, List.nodup_cons] at hn
    rcases List.mem_cons.1 h with rfl | h
    · simp
    · have hne : e.1 ≠ i := by
        intro he
        apply hn.1
        rw [he]
        exact List.mem_map.2 ⟨(i, c), h, rfl⟩
      rw [List.find?_cons_of_neg (by simpa using hne)]
      exact readFile_of_mem rest i c hn.2 h

theorem mem_of_readFile {facs : List (Nat × List K)} {i : Nat} {c : List K} (h : readFile facs i = some c) :
    (i, c) ∈ facs := by
  unfold readFile at h
  cases hf : facs.find? (fun e => e.1 == i) with
  | none => rw [hf] at h; cases h
  | some e =>
    rw [hf] at h
    simp only [Option.map_some, Option.some.injEq] at h
    have h1 : e.1 = i := by simpa using List.find?_some hf
    have h2 := List.mem_of_find?_eq_some hf
    have : e = (i, c) := by rw [← h1, ← h]
    rw [← this]; exact h2

theorem writeFile_same {facs : List (Nat × List K)} {i : Nat} {c : List K}
    (hn : (facs.map (·.1)).Nodup) (h : (i, c) ∈ facs) : writeFile facs i c = facs := by
  unfold writeFile
  have hany : facs.any (fun e => e.1 == i) = true := List.any_eq_true.2 ⟨(i, c), h, by simp⟩
  rw [if_pos hany]
  conv_rhs => rw [← List.map_id facs]
  apply List.map_congr_left
  intro e he
  by_cases hei : e.1 = i
  · have h1 := readFile_of_mem facs i c hn h
    have h2 := readFile_of_mem facs i e.2 hn (by rw [← hei]; exact he)
    have : e.2 = c := by rw [h1] at h2; exact (Option.some.inj h2).symm
    simp only [hei, beq_self_eq_true, if_true, id]
    rw [← this, ← hei]
  · simp [hei]

theorem writeFile_perm {f1 f2 : List (Nat × List K)} (h : f1.Perm f2) (i : Nat) (c : List K) :
    (writeFile f1 i c).Perm (writeFile f2 i c) := by
  unfold writeFile
  have hany : f1.any (fun e => e.1 == i) = f2.any (fun e => e.1 == i) := by
    rw [Bool.eq_iff_iff, List.any_eq_true, List.any_eq_true]
    exact ⟨fun ⟨e, he, hp⟩ => ⟨e, h.mem_iff.1 he, hp⟩, fun ⟨e, he, hp⟩ => ⟨e, h.mem_iff.2 he, hp⟩⟩
  rw [hany]
  split
  · exact h.map _
  · exact h.append_right _

/-- the facts about the factors files that a run maintains -/
structure FacsOK (facs : List (Nat × List K)) (iter : Nat) (factors : List K) : Prop where
  nodup : (facs.map (·.1)).Nodup
  le : ∀ e ∈ facs, e.1 ≤ iter
  cur : readFile facs iter = some factors

theorem facsOK_perm {f1 f2 : List (Nat × List K)} (h : f1.Perm f2) {iter : Nat} {factors : List K}
    (ok : FacsOK f1 iter factors) : FacsOK f2 iter factors := by
  have hn : (f2.map (·.1)).Nodup := (h.map _).nodup_iff.1 ok.nodup
  exact ⟨hn, fun e he => ok.le e (h.mem_iff.2 he),
    readFile_of_mem f2 iter factors hn (h.mem_iff.1 (mem_of_readFile ok.cur))⟩

theorem facsOK_write {facs : List (Nat × List K)} {iter : Nat} {factors : List K} (ok : FacsOK facs iter factors)
    (c : List K) : FacsOK (writeFile facs (iter + 1) c) (iter + 1) c := by
  have hnot : facs.any (fun e => e.1 == iter + 1) = false := by
    rw [List.any_eq_false]
    intro e he
    have := ok.le e he
    simp only [beq_iff_eq]; omega
  unfold writeFile
  rw [hnot]
  simp only [Bool.false_eq_true, if_false]
  have hn : ((facs ++ [(iter + 1, c)]).map (·.1)).Nodup := by
    rw [List.map_append, List.map_cons, List.map_nil]
    refine List.Nodup.append ok.nodup (List.nodup_singleton _) ?_
    intro x hx hx2
    obtain ⟨e, he, rfl⟩ := List.mem_map.1 hx
    have := ok.le e he
    simp only [List.mem_singleton] at hx2
    omega
  refine ⟨hn, ?_, readFile_of_mem _ _ _ hn (by simp)⟩
  intro e he
  rcases List.mem_append.1 he with he | he
  · have := ok.le e he; omega
  · simp only [List.mem_singleton] at he; rw [he]

/-! ### the K-point log -/

/-- same K-point up to its weight -/
def EqUpToF (a b : KP K) : Prop :=
  a.r = b.r ∧ a.ev = b.ev ∧ a.mem = b.mem ∧ a.file = b.file ∧ a.dumped = b.dumped ∧ a.cleared = b.cleared

theorem eqUpToF_refl (a : KP K) : EqUpToF a a := ⟨rfl, rfl, rfl, rfl, rfl, rfl⟩

theorem eqUpToF_setf {a b : KP K} (h : EqUpToF a b) : { a with f := b.f } = b := by
  obtain ⟨h1, h2, h3, h4, h5, h6⟩ := h
  cases a; cases b
  simp_all

/-- K_list.pickle holds exactly the current K-points, up to their weights -/
def LogRel : List (KP K) → List (KP K) → Prop
  | [], [] => True
  | a :: as, p :: ps => EqUpToF a p ∧ LogRel as ps
  | _, _ => False

/-- during refinement: the log covers the evaluated prefix, everything behind is new -/
def LogPrefix : List (KP K) → List (KP K) → Prop
  | [], ps => ∀ p ∈ ps, p.ev = false
  | a :: as, p :: ps => EqUpToF a p ∧ p.ev = true ∧ LogPrefix as ps
  | _ :: _, [] => False

theorem logRel_refl : ∀ (ps : List (KP K)), LogRel ps ps
  | [] => trivial
  | p :: ps => ⟨eqUpToF_refl p, logRel_refl ps⟩

theorem logRel_length : ∀ (as ps : List (KP K)), LogRel as ps → as.length = ps.length
  | [], [], _ => rfl
  | [], _ :: _, h => by cases h
  | _ :: _, [], h => by cases h
  | _ :: as, _ :: ps, h => by simp [logRel_length as ps h.2]

theorem logPrefix_of_logRel : ∀ (as ps : List (KP K)), LogRel as ps → (∀ p ∈ ps, p.ev = true) → LogPrefix as ps
  | [], [], _, _ => by intro p hp; cases hp
  | [], _ :: _, h, _ => by cases h
  | _ :: _, [], h, _ => by cases h
  | _ :: as, p :: ps, h, hev =>
    ⟨h.1, hev p (List.mem_cons_self ..), logPrefix_of_logRel as ps h.2 (fun q hq => hev q (List.mem_cons_of_mem _ hq))⟩

theorem logPrefix_nil_iff (ps : List (KP K)) : LogPrefix [] ps ↔ ∀ p ∈ ps, p.ev = false := by
  cases ps <;> rfl

section logops
variable [Add K] [Zero K]

theorem logPrefix_zeroAt : ∀ (i : Nat) (as ps : List (KP K)), LogPrefix as ps → LogPrefix as (zeroAt i ps)
  | _, as, [], h => by simpa [zeroAt] using h
  | 0, [], p :: ps, h => by
    rw [logPrefix_nil_iff] at h ⊢
    intro q hq
    simp only [zeroAt, List.mem_cons] at hq
    rcases hq with rfl | hq
    · exact h p (List.mem_cons_self ..)
    · exact h q (List.mem_cons_of_mem _ hq)
  | 0, a :: as, p :: ps, h => by
    obtain ⟨h1, h2, h3⟩ := h
    exact ⟨by obtain ⟨e1, e2, e3, e4, e5, e6⟩ := h1; exact ⟨e1, e2, e3, e4, e5, e6⟩, h2, h3⟩
  | i + 1, [], p :: ps, h => by
    rw [logPrefix_nil_iff] at h ⊢
    have ih := logPrefix_zeroAt i [] ps ((logPrefix_nil_iff ps).2 (fun q hq => h q (List.mem_cons_of_mem _ hq)))
    rw [logPrefix_nil_iff] at ih
    intro q hq
    simp only [zeroAt, List.mem_cons] at hq
    rcases hq with rfl | hq
    · exact h _ (List.mem_cons_self ..)
    · exact ih q hq
  | i + 1, a :: as, p :: ps, h => by
    obtain ⟨h1, h2, h3⟩ := h
    exact ⟨h1, h2, logPrefix_zeroAt i as ps h3⟩

theorem logPrefix_addAt (x : K) : ∀ (i : Nat) (as ps : List (KP K)), LogPrefix as ps → LogPrefix as (addAt x i ps)
  | _, as, [], h => by simpa [addAt] using h
  | 0, [], p :: ps, h => by
    rw [logPrefix_nil_iff] at h ⊢
    intro q hq
    simp only [addAt, List.mem_cons] at hq
    rcases hq with rfl | hq
    · exact h p (List.mem_cons_self ..)
    · exact h q (List.mem_cons_of_mem _ hq)
  | 0, a :: as, p :: ps, h => by
    obtain ⟨h1, h2, h3⟩ := h
    exact ⟨by obtain ⟨e1, e2, e3, e4, e5, e6⟩ := h1; exact ⟨e1, e2, e3, e4, e5, e6⟩, h2, h3⟩
  | i + 1, [], p :: ps, h => by
    rw [logPrefix_nil_iff] at h ⊢
    have ih := logPrefix_addAt x i [] ps ((logPrefix_nil_iff ps).2 (fun q hq => h q (List.mem_cons_of_mem _ hq)))
    rw [logPrefix_nil_iff] at ih
    intro q hq
    simp only [addAt, List.mem_cons] at hq
    rcases hq with rfl | hq
    · exact h _ (List.mem_cons_self ..)
    · exact ih q hq
  | i + 1, a :: as, p :: ps, h => by
    obtain ⟨h1, h2, h3⟩ := h
    exact ⟨h1, h2, logPrefix_addAt x i as ps h3⟩

theorem logPrefix_removeAt : ∀ (j : Nat) (as ps : List (KP K)) (q : KP K),
    LogPrefix as ps → ps[j]? = some q → q.ev = false → LogPrefix as (removeAt j ps)
  | _, _, [], _, _, hq, _ => by simp at hq
  | 0, [], p :: ps, _, h, _, _ => by
    rw [logPrefix_nil_iff] at h ⊢
    intro q hq
    exact h q (List.mem_cons_of_mem _ (by simpa [removeAt] using hq))
  | 0, a :: as, p :: ps, q, h, hq, hev => by
    simp only [List.getElem?_cons_zero, Option.some.injEq] at hq
    subst hq
    rw [h.2.1] at hev; exact Bool.noConfusion hev
  | j + 1, [], p :: ps, q, h, hq, hev => by
    rw [logPrefix_nil_iff] at h ⊢
    have ih := logPrefix_removeAt j [] ps q ((logPrefix_nil_iff ps).2 (fun a ha => h a (List.mem_cons_of_mem _ ha)))
      (by simpa using hq) hev
    rw [logPrefix_nil_iff] at ih
    intro q' hq'
    simp only [removeAt, List.mem_cons] at hq'
    rcases hq' with rfl | hq'
    · exact h _ (List.mem_cons_self ..)
    · exact ih q' hq'
  | j + 1, a :: as, p :: ps, q, h, hq, hev => by
    obtain ⟨h1, h2, h3⟩ := h
    exact ⟨h1, h2, logPrefix_removeAt j as ps q h3 (by simpa using hq) hev⟩

theorem logPrefix_append : ∀ (as ps cs : List (KP K)), LogPrefix as ps → (∀ c ∈ cs, c.ev = false) →
    LogPrefix as (ps ++ cs)
  | [], ps, cs, h, hc => by
    rw [logPrefix_nil_iff] at h ⊢
    intro q hq
    rcases List.mem_append.1 hq with hq | hq
    · exact h q hq
    · exact hc q hq
  | _ :: _, [], _, h, _ => by cases h
  | a :: as, p :: ps, cs, h, hc => by
    obtain ⟨h1, h2, h3⟩ := h
    exact ⟨h1, h2, logPrefix_append as ps cs h3 hc⟩

end logops

section field
variable [Field K] [DecidableEq K]

theorem logPrefix_refStep (as : List (KP K)) (s : State K) (op : RefOp K) (h : LogPrefix as s.pts) :
    LogPrefix as (refStep s op).pts := by
  cases op with
  | divide i children =>
    simp only [refStep]
    split
    · split
      · exact logPrefix_append _ _ _ (logPrefix_zeroAt i _ _ h) (by
          intro c hc
          obtain ⟨r, _, rfl⟩ := List.mem_map.1 hc
          rfl)
      · exact h
    · exact h
  | merge i j =>
    simp only [refStep]
    split
    · rename_i p q hp hq
      split
      · rename_i hcond
        have hqev : q.ev = false := by
          simp only [Bool.and_eq_true, Bool.not_eq_true', decide_eq_true_eq] at hcond
          exact hcond.2
        obtain ⟨q', hq', hev'⟩ : ∃ q', (addAt q.f i s.pts)[j]? = some q' ∧ q'.ev = false := by
          have := addAt_getElem?_ev q.f i j s.pts
          rw [hq] at this
          cases hx : (addAt q.f i s.pts)[j]? with
          | none => rw [hx] at this; simp at this
          | some q' =>
            rw [hx] at this
            simp only [Option.map_some, Option.some.injEq] at this
            exact ⟨q', rfl, by rw [this, hqev]⟩
        exact logPrefix_removeAt j _ _ q' (logPrefix_addAt q.f i _ _ h) hq' hev'
      · exact h
    · exact h

theorem logPrefix_foldl (as : List (KP K)) (ops : List (RefOp K)) (s : State K) (h : LogPrefix as s.pts) :
    LogPrefix as (ops.foldl refStep s).pts := by
  induction ops generalizing s with
  | nil => exact h
  | cons op ops ih => exact ih _ (logPrefix_refStep as s op h)

/-- after process(): appending the new tail to the log gives a log of the whole list again -/
theorem logRel_after_process (mode : Mode) : ∀ (as ps : List (KP K)), LogPrefix as ps →
    LogRel (as ++ (ps.map (procPt mode)).drop as.length) (ps.map (procPt mode))
  | [], ps, _ => by simpa using logRel_refl _
  | _ :: _, [], h => by cases h
  | a :: as, p :: ps, h => by
    obtain ⟨h1, h2, h3⟩ := h
    have hpp : procPt mode p = p := by unfold procPt; rw [if_pos h2]
    simp only [List.map_cons, hpp, List.length_cons, List.drop_succ_cons, List.cons_append]
    exact ⟨h1, logRel_after_process mode as ps h3⟩

theorem iterate_pts (keep : K → Bool) (s : State K) : (iterate keep s).pts = s.pts.map (procPt s.mode) := by
  unfold iterate
  rw [processPts_eq]
  split
  · rfl
  · dsimp only
    split <;> rfl

theorem setFactors_of_logRel : ∀ (as ps : List (KP K)), LogRel as ps → setFactors as (ps.map (·.f)) = ps
  | [], [], _ => rfl
  | [], _ :: _, h => by cases h
  | _ :: _, [], h => by cases h
  | a :: as, p :: ps, h => by
    simp only [List.map_cons, setFactors]
    rw [eqUpToF_setf h.1, setFactors_of_logRel as ps h.2]

theorem sumAll_of_stored : ∀ (ps : List (KP K)), (∀ p ∈ ps, p.ev = true ∧ getResult p = some p.r) →
    sumAll ps = some (wsum ps)
  | [], _ => rfl
  | p :: ps, h => by
    have hp := (h p (List.mem_cons_self ..)).2
    have ih := sumAll_of_stored ps (fun q hq => h q (List.mem_cons_of_mem _ hq))
    simp only [sumAll, hp, ih, wsum]
    congr 1; ring

theorem corrSum_self : ∀ (ps : List (KP K)), corrSum keepNew ps (ps.map (·.f)) = some 0
  | [] => rfl
  | p :: ps => by
    simp only [List.map_cons, corrSum, sub_self, keepNew]
    simp only [ne_eq, not_true_eq_false, decide_false, Bool.false_eq_true, if_false]
    exact corrSum_self ps

theorem unevSum_all_ev : ∀ (ps : List (KP K)), (∀ p ∈ ps, p.ev = true) → unevSum ps = 0
  | [], _ => rfl
  | p :: ps, h => by
    simp only [unevSum, h p (List.mem_cons_self ..), if_true]
    exact unevSum_all_ev ps (fun q hq => h q (List.mem_cons_of_mem _ hq))

theorem map_procPt_all_ev (mode : Mode) : ∀ (ps : List (KP K)), (∀ p ∈ ps, p.ev = true) → ps.map (procPt mode) = ps
  | [], _ => rfl
  | p :: ps, h => by
    have hpp : procPt mode p = p := by unfold procPt; rw [if_pos (h p (List.mem_cons_self ..))]
    simp only [List.map_cons, hpp]
    rw [map_procPt_all_ev mode ps (fun q hq => h q (List.mem_cons_of_mem _ hq))]

/-- the pass `i_iter = 0` of a restarted run changes nothing -/
theorem iterate_synced_id (s : State K) (h : Synced s) : iterate keepNew s = s := by
  have hev : ∀ p ∈ s.pts, p.ev = true := fun p hp => (h.stored p hp).1
  unfold iterate
  rw [processPts_eq, map_procPt_all_ev _ _ hev, unevSum_all_ev _ hev, h.sum]
  dsimp only
  rw [h.factors, corrSum_self]
  dsimp only
  obtain ⟨pts, factors, resultAll, mode, err⟩ := s
  simp only at h ⊢
  have h1 := h.factors
  have h2 := h.sum
  simp only at h1 h2
  subst h1
  simp [h2]

end field

end WB.C11
