/-
  C06 helper lemmas: weight bookkeeping (sums over lists with `set`, `filterMap`, `flatMap`).
-/
import WB.Model.C06
import Mathlib.Data.List.Basic
import Mathlib.Algebra.BigOperators.Group.List.Basic
import Mathlib.Algebra.Order.Field.Rat
import Mathlib.Tactic.Linarith
import Mathlib.Tactic.Ring
import Mathlib.Tactic.FieldSimp
import Mathlib.Tactic.Positivity
import Mathlib.Algebra.Group.Action.Defs

namespace WB.C06

/-! ### generic list lemmas -/

theorem sum_map_set {α : Type} (f : α → Rat) :
    ∀ (l : List α) (i : Nat) (a : α) (h : i < l.length),
      ((l.set i a).map f).sum = (l.map f).sum - f l[i] + f a
  | [], i, a, h => by simp at h
  | x :: l, 0, a, _ => by simp; ring
  | x :: l, i + 1, a, h => by
    have h' : i < l.length := by simpa using h
    simp only [List.set_cons_succ, List.map_cons, List.sum_cons, List.getElem_cons_succ]
    rw [sum_map_set f l i a h']
    ring

theorem sum_map_const {α : Type} (f : α → Rat) (c : Rat) :
    ∀ (l : List α), (∀ x ∈ l, f x = c) → (l.map f).sum = l.length * c
  | [], _ => by simp
  | x :: l, h => by
    have hx : f x = c := h x (by simp)
    have hl : ∀ y ∈ l, f y = c := fun y hy => h y (by simp [hy])
    simp only [List.map_cons, List.sum_cons, List.length_cons]
    rw [sum_map_const f c l hl, hx]
    push_cast
    ring

theorem length_flatOrder (n : Idx) : (flatOrder n).length = n.1 * n.2.1 * n.2.2 := by
  unfold flatOrder
  simp only [List.length_flatMap, List.length_map, List.length_range, List.map_const', List.sum_replicate,
    smul_eq_mul]
  ring

theorem mem_flatOrder (n : Idx) (p : Idx) : p ∈ flatOrder n ↔ p.1 < n.1 ∧ p.2.1 < n.2.1 ∧ p.2.2 < n.2.2 := by
  obtain ⟨x, y, z⟩ := p
  unfold flatOrder
  simp only [List.mem_flatMap, List.mem_range, List.mem_map, Prod.mk.injEq]
  constructor
  · rintro ⟨a, ha, b, hb, c, hc, rfl, rfl, rfl⟩
    exact ⟨ha, hb, hc⟩
  · rintro ⟨ha, hb, hc⟩
    exact ⟨x, ha, y, hb, z, hc, rfl, rfl, rfl⟩

theorem mem_loopOrder (n : Idx) (p : Idx) : p ∈ loopOrder n ↔ p.1 < n.1 ∧ p.2.1 < n.2.1 ∧ p.2.2 < n.2.2 := by
  obtain ⟨x, y, z⟩ := p
  unfold loopOrder
  simp only [List.mem_flatMap, List.mem_range, List.mem_map, Prod.mk.injEq]
  constructor
  · rintro ⟨c, hc, b, hb, a, ha, rfl, rfl, rfl⟩
    exact ⟨ha, hb, hc⟩
  · rintro ⟨ha, hb, hc⟩
    exact ⟨z, hc, y, hb, x, ha, rfl, rfl, rfl⟩

/-! ### the flattened index is injective on in-range indices -/

theorem mul_add_inj (d a z a' z' : Nat) (hz : z < d) (hz' : z' < d) (h : a * d + z = a' * d + z') :
    a = a' ∧ z = z' := by
  have h1 : (a * d + z) % d = (a' * d + z') % d := by rw [h]
  have h2 : (a * d + z) / d = (a' * d + z') / d := by rw [h]
  have hd : 0 < d := by omega
  rw [Nat.mul_comm a d, Nat.mul_comm a' d] at h1 h2
  rw [Nat.mul_add_mod, Nat.mul_add_mod, Nat.mod_eq_of_lt hz, Nat.mod_eq_of_lt hz'] at h1
  rw [Nat.mul_add_div hd, Nat.mul_add_div hd, Nat.div_eq_of_lt hz, Nat.div_eq_of_lt hz'] at h2
  omega

def inRange (div : Idx) (p : Idx) : Prop := p.1 < div.1 ∧ p.2.1 < div.2.1 ∧ p.2.2 < div.2.2

theorem flat_inj (div p q : Idx) (hp : inRange div p) (hq : inRange div q) (h : flat div p = flat div q) :
    p = q := by
  obtain ⟨x, y, z⟩ := p
  obtain ⟨x', y', z'⟩ := q
  unfold flat at h
  unfold inRange at hp hq
  simp only at h hp hq
  obtain ⟨h1, h2⟩ := mul_add_inj _ _ _ _ _ hp.2.2 hq.2.2 h
  obtain ⟨h3, h4⟩ := mul_add_inj _ _ _ _ _ hp.2.1 hq.2.1 h1
  rw [h3, h4, h2]

theorem toIdx_inRange (div : Idx) (k : V3) (h1 : 0 < div.1) (h2 : 0 < div.2.1) (h3 : 0 < div.2.2) :
    inRange div (toIdx div k) := by
  unfold inRange toIdx
  refine ⟨?_, ?_, ?_⟩
  · have := Int.emod_lt_of_pos (roundHE (k.x * div.1)) (by exact_mod_cast h1 : (0 : Int) < div.1)
    have := Int.emod_nonneg (roundHE (k.x * div.1)) (by omega : (div.1 : Int) ≠ 0)
    simp only; omega
  · have := Int.emod_lt_of_pos (roundHE (k.y * div.2.1)) (by exact_mod_cast h2 : (0 : Int) < div.2.1)
    have := Int.emod_nonneg (roundHE (k.y * div.2.1)) (by omega : (div.2.1 : Int) ≠ 0)
    simp only; omega
  · have := Int.emod_lt_of_pos (roundHE (k.z * div.2.2)) (by exact_mod_cast h3 : (0 : Int) < div.2.2)
    have := Int.emod_nonneg (roundHE (k.z * div.2.2)) (by omega : (div.2.2 : Int) ≠ 0)
    simp only; omega

/-! ### `get_K_list`: the symmetry loop conserves the total weight -/

theorem absorbAt_total (g : GridState) (i j : Nat) (hij : i ≠ j) : gridTotal (absorbAt g i j) = gridTotal g := by
  unfold absorbAt
  split
  · rename_i p f q fo h1 h2
    obtain ⟨hi, e1⟩ := List.getElem?_eq_some_iff.mp h1
    obtain ⟨hj, e2⟩ := List.getElem?_eq_some_iff.mp h2
    unfold gridTotal
    have hj' : j < (g.set i (p, some (f + fo))).length := by simpa using hj
    rw [sum_map_set _ _ j _ hj', sum_map_set _ _ i _ hi]
    rw [List.getElem_set_ne hij, e1, e2]
    simp only [Option.getD_some, Option.getD_none]
    ring
  · rfl

theorem absorbAt_nonneg (g : GridState) (i j : Nat) (h : ∀ e ∈ g, 0 ≤ e.2.getD 0) :
    ∀ e ∈ absorbAt g i j, 0 ≤ e.2.getD 0 := by
  unfold absorbAt
  split
  · rename_i p f q fo h1 h2
    have hf : 0 ≤ f := by simpa using h _ (List.mem_of_getElem? h1)
    have hfo : 0 ≤ fo := by simpa using h _ (List.mem_of_getElem? h2)
    intro e he
    rcases List.mem_or_eq_of_mem_set he with he | rfl
    · rcases List.mem_or_eq_of_mem_set he with he | rfl
      · exact h e he
      · simpa using add_nonneg hf hfo
    · simp
  · exact h

theorem gridStep_total (syms : List Sym) (div : Idx) (g : GridState) (p : Idx)
    (h1 : 0 < div.1) (h2 : 0 < div.2.1) (h3 : 0 < div.2.2) (hp : inRange div p) :
    gridTotal (gridStep syms div g p) = gridTotal g := by
  unfold gridStep
  split
  · rfl
  · have key : ∀ (ks : List Idx), (∀ k ∈ ks, inRange div k) → ∀ g : GridState,
        gridTotal (ks.foldl (fun g k => if k ≠ p then absorbAt g (flat div p) (flat div k) else g) g)
          = gridTotal g := by
      intro ks
      induction ks with
      | nil => intro _ g; rfl
      | cons k ks ih =>
        intro hk g
        simp only [List.foldl_cons]
        rw [ih (fun k' hk' => hk k' (by simp [hk']))]
        split
        · rename_i hne
          apply absorbAt_total
          intro hf
          exact hne (flat_inj div p k hp (hk k (by simp)) hf).symm
        · rfl
    apply key
    intro k hk
    unfold starIdx at hk
    obtain ⟨v, _, rfl⟩ := List.mem_map.mp hk
    exact toIdx_inRange div v h1 h2 h3

theorem gridStep_nonneg (syms : List Sym) (div : Idx) (g : GridState) (p : Idx)
    (h : ∀ e ∈ g, 0 ≤ e.2.getD 0) : ∀ e ∈ gridStep syms div g p, 0 ≤ e.2.getD 0 := by
  unfold gridStep
  split
  · exact h
  · have key : ∀ (ks : List Idx) (g : GridState), (∀ e ∈ g, 0 ≤ e.2.getD 0) →
        ∀ e ∈ ks.foldl (fun g k => if k ≠ p then absorbAt g (flat div p) (flat div k) else g) g,
          0 ≤ e.2.getD 0 := by
      intro ks
      induction ks with
      | nil => intro g hg; exact hg
      | cons k ks ih =>
        intro g hg
        simp only [List.foldl_cons]
        apply ih
        split
        · exact absorbAt_nonneg g _ _ hg
        · exact hg
    exact key _ g h

theorem initGrid_total (div : Idx) (h1 : 0 < div.1) (h2 : 0 < div.2.1) (h3 : 0 < div.2.2) :
    gridTotal (initGrid div) = 1 := by
  unfold gridTotal initGrid
  rw [List.map_map]
  rw [sum_map_const _ (1 / ((div.1 * div.2.1 * div.2.2 : Nat) : Rat)) _ (by intro x _; simp)]
  rw [length_flatOrder]
  have : ((div.1 * div.2.1 * div.2.2 : Nat) : Rat) ≠ 0 := by
    have : 0 < div.1 * div.2.1 * div.2.2 := Nat.mul_pos (Nat.mul_pos h1 h2) h3
    exact_mod_cast this.ne'
  field_simp

theorem initGrid_nonneg (div : Idx) : ∀ e ∈ initGrid div, 0 ≤ e.2.getD 0 := by
  intro e he
  unfold initGrid at he
  obtain ⟨p, _, rfl⟩ := List.mem_map.mp he
  simp only [Option.getD_some]
  exact div_nonneg zero_le_one (Nat.cast_nonneg _)

theorem finalGrid_total (syms : List Sym) (div : Idx) (useSym : Bool)
    (h1 : 0 < div.1) (h2 : 0 < div.2.1) (h3 : 0 < div.2.2) :
    gridTotal (finalGrid syms div useSym) = 1 := by
  unfold finalGrid
  split
  · have key : ∀ (ps : List Idx), (∀ p ∈ ps, inRange div p) → ∀ g : GridState,
        gridTotal (ps.foldl (gridStep syms div) g) = gridTotal g := by
      intro ps
      induction ps with
      | nil => intro _ g; rfl
      | cons p ps ih =>
        intro hp g
        simp only [List.foldl_cons]
        rw [ih (fun q hq => hp q (by simp [hq]))]
        exact gridStep_total syms div g p h1 h2 h3 (hp p (by simp))
    rw [key _ (fun p hp => (mem_loopOrder div p).mp hp)]
    exact initGrid_total div h1 h2 h3
  · exact initGrid_total div h1 h2 h3

theorem finalGrid_nonneg (syms : List Sym) (div : Idx) (useSym : Bool) :
    ∀ e ∈ finalGrid syms div useSym, 0 ≤ e.2.getD 0 := by
  unfold finalGrid
  split
  · have key : ∀ (ps : List Idx) (g : GridState), (∀ e ∈ g, 0 ≤ e.2.getD 0) →
        ∀ e ∈ ps.foldl (gridStep syms div) g, 0 ≤ e.2.getD 0 := by
      intro ps
      induction ps with
      | nil => intro g hg; exact hg
      | cons p ps ih =>
        intro g hg
        simp only [List.foldl_cons]
        exact ih _ (gridStep_nonneg syms div g p hg)
    exact key _ _ (initGrid_nonneg div)
  · exact initGrid_nonneg div

theorem getKList_total_eq (syms : List Sym) (div : Idx) (useSym : Bool) :
    totalW (getKList syms div useSym) = gridTotal (finalGrid syms div useSym) := by
  unfold getKList totalW gridTotal
  generalize finalGrid syms div useSym = g
  induction g with
  | nil => rfl
  | cons e g ih =>
    obtain ⟨p, o⟩ := e
    cases o with
    | none => simpa using ih
    | some f =>
      simp only [List.filterMap_cons, Option.map_some, List.map_cons, List.sum_cons, Option.getD_some]
      rw [ih]

/-! ### `exclude_equiv_points` conserves the weight of the points that are not excluded -/

theorem exclStep_liveSum (eqv : Nat → Nat → Bool) (nOld : Nat) (s : ExState) (ij : Nat × Nat) :
    liveSum (exclStep eqv nOld s ij) = liveSum s := by
  unfold exclStep
  split
  · rename_i hc
    split
    · rename_i ki kj h1 h2
      split
      · obtain ⟨hi, e1⟩ := List.getElem?_eq_some_iff.mp h1
        obtain ⟨hj, e2⟩ := List.getElem?_eq_some_iff.mp h2
        have hij : ij.1 ≠ ij.2 := by omega
        unfold liveSum
        have hj' : ij.2 < (s.set ij.1 ({ ki with factor := ki.factor + kj.factor }, false)).length := by
          simpa using hj
        rw [sum_map_set _ _ ij.2 _ hj', sum_map_set _ _ ij.1 _ hi]
        rw [List.getElem_set_ne hij, e1, e2]
        simp only [Bool.false_eq_true, ↓reduceIte]
        ring
      · rfl
    · rfl
  · rfl

theorem exclStep_nonneg (eqv : Nat → Nat → Bool) (nOld : Nat) (s : ExState) (ij : Nat × Nat)
    (h : ∀ e ∈ s, 0 ≤ e.1.factor) : ∀ e ∈ exclStep eqv nOld s ij, 0 ≤ e.1.factor := by
  unfold exclStep
  split
  · split
    · rename_i ki kj h1 h2
      split
      · have hf : 0 ≤ ki.factor := h _ (List.mem_of_getElem? h1)
        have hfo : 0 ≤ kj.factor := h _ (List.mem_of_getElem? h2)
        intro e he
        rcases List.mem_or_eq_of_mem_set he with he | rfl
        · rcases List.mem_or_eq_of_mem_set he with he | rfl
          · exact h e he
          · exact add_nonneg hf hfo
        · exact hfo
      · exact h
    · exact h
  · exact h

theorem foldl_exclStep_liveSum (eqv : Nat → Nat → Bool) (nOld : Nat) (pairs : List (Nat × Nat)) :
    ∀ s : ExState, liveSum (pairs.foldl (exclStep eqv nOld) s) = liveSum s := by
  induction pairs with
  | nil => intro s; rfl
  | cons ij pairs ih =>
    intro s
    simp only [List.foldl_cons]
    rw [ih, exclStep_liveSum]

theorem foldl_exclStep_nonneg (eqv : Nat → Nat → Bool) (nOld : Nat) (pairs : List (Nat × Nat)) :
    ∀ s : ExState, (∀ e ∈ s, 0 ≤ e.1.factor) → ∀ e ∈ pairs.foldl (exclStep eqv nOld) s, 0 ≤ e.1.factor := by
  induction pairs with
  | nil => intro s h; exact h
  | cons ij pairs ih =>
    intro s h
    simp only [List.foldl_cons]
    exact ih _ (exclStep_nonneg eqv nOld s ij h)

theorem liveSum_filter (s : ExState) :
    totalW ((s.filter fun e => !e.2).map fun e => e.1) = liveSum s := by
  unfold totalW liveSum
  induction s with
  | nil => rfl
  | cons e s ih =>
    obtain ⟨k, b⟩ := e
    cases b with
    | true => simpa using ih
    | false =>
      simp only [List.filter_cons, Bool.not_false, ↓reduceIte, List.map_cons, List.sum_cons,
        Bool.false_eq_true]
      rw [ih]

theorem liveSum_init (l : List KPoint) : liveSum (l.map fun k => (k, false)) = totalW l := by
  unfold liveSum totalW
  rw [List.map_map]
  congr 1

theorem excludeEquivWith_total (eqv : Nat → Nat → Bool) (groups : List (List Nat)) (l : List KPoint) (np : Nat) :
    totalW (excludeEquivWith eqv groups l np) = totalW l := by
  unfold excludeEquivWith
  simp only
  rw [liveSum_filter, foldl_exclStep_liveSum, liveSum_init]

theorem excludeEquivWith_nonneg (eqv : Nat → Nat → Bool) (groups : List (List Nat)) (l : List KPoint) (np : Nat)
    (h : ∀ k ∈ l, 0 ≤ k.factor) : ∀ k ∈ excludeEquivWith eqv groups l np, 0 ≤ k.factor := by
  unfold excludeEquivWith
  simp only
  intro k hk
  obtain ⟨e, he, rfl⟩ := List.mem_map.mp hk
  have he' := (List.mem_filter.mp he).1
  refine foldl_exclStep_nonneg eqv _ _ _ ?_ e he'
  intro e he
  obtain ⟨k, hk, rfl⟩ := List.mem_map.mp he
  exact h k hk

/-! ### `divide` -/

theorem effNdiv_pos (ndiv : Idx) (per : Bool × Bool × Bool) (h1 : 0 < ndiv.1) (h2 : 0 < ndiv.2.1) (h3 : 0 < ndiv.2.2) :
    0 < (effNdiv ndiv per).1 ∧ 0 < (effNdiv ndiv per).2.1 ∧ 0 < (effNdiv ndiv per).2.2 := by
  unfold effNdiv
  refine ⟨?_, ?_, ?_⟩ <;> simp only <;> split <;> omega

theorem children_total (kp : KPoint) (n : Idx) (h1 : 0 < n.1) (h2 : 0 < n.2.1) (h3 : 0 < n.2.2) :
    totalW (children kp n) = kp.factor := by
  unfold totalW children
  rw [List.map_map]
  rw [sum_map_const _ (kp.factor / ((n.1 * n.2.1 * n.2.2 : Nat) : Rat)) _ (by intro x _; simp [child])]
  rw [length_flatOrder]
  have : ((n.1 * n.2.1 * n.2.2 : Nat) : Rat) ≠ 0 := by
    have : 0 < n.1 * n.2.1 * n.2.2 := Nat.mul_pos (Nat.mul_pos h1 h2) h3
    exact_mod_cast this.ne'
  field_simp

theorem children_nonneg (kp : KPoint) (n : Idx) (h : 0 ≤ kp.factor) : ∀ k ∈ children kp n, 0 ≤ k.factor := by
  intro k hk
  unfold children at hk
  obtain ⟨c, _, rfl⟩ := List.mem_map.mp hk
  simp only [child]
  exact div_nonneg h (by positivity)

theorem totalW_append (a b : List KPoint) : totalW (a ++ b) = totalW a + totalW b := by
  unfold totalW; simp

theorem divide_total (syms : List Sym) (useSym : Bool) (per : Bool × Bool × Bool) (kp : KPoint) (ndiv : Idx)
    (h1 : 0 < ndiv.1) (h2 : 0 < ndiv.2.1) (h3 : 0 < ndiv.2.2) :
    totalW (divide syms useSym per kp ndiv) = kp.factor := by
  obtain ⟨e1, e2, e3⟩ := effNdiv_pos ndiv per h1 h2 h3
  unfold divide
  simp only
  split
  · unfold excludeEquiv
    rw [excludeEquivWith_total]
    exact children_total kp _ e1 e2 e3
  · exact children_total kp _ e1 e2 e3

theorem divide_nonneg (syms : List Sym) (useSym : Bool) (per : Bool × Bool × Bool) (kp : KPoint) (ndiv : Idx)
    (h : 0 ≤ kp.factor) : ∀ k ∈ divide syms useSym per kp ndiv, 0 ≤ k.factor := by
  unfold divide
  simp only
  split
  · unfold excludeEquiv
    exact excludeEquivWith_nonneg _ _ _ _ (children_nonneg kp _ h)
  · exact children_nonneg kp _ h

theorem refineOne_total (syms : List Sym) (useSym : Bool) (per : Bool × Bool × Bool) (ndiv : Idx)
    (l : List KPoint) (iK : Nat) (h1 : 0 < ndiv.1) (h2 : 0 < ndiv.2.1) (h3 : 0 < ndiv.2.2) :
    totalW (refineOne syms useSym per ndiv l iK) = totalW l := by
  unfold refineOne
  split
  · rfl
  · rename_i kp hk
    obtain ⟨hi, e1⟩ := List.getElem?_eq_some_iff.mp hk
    rw [totalW_append, divide_total _ _ _ _ _ h1 h2 h3]
    unfold totalW
    rw [sum_map_set _ _ _ _ hi, e1]
    ring

theorem refineOne_nonneg (syms : List Sym) (useSym : Bool) (per : Bool × Bool × Bool) (ndiv : Idx)
    (l : List KPoint) (iK : Nat) (h : ∀ k ∈ l, 0 ≤ k.factor) :
    ∀ k ∈ refineOne syms useSym per ndiv l iK, 0 ≤ k.factor := by
  unfold refineOne
  split
  · exact h
  · rename_i kp hk
    intro k hmem
    rcases List.mem_append.mp hmem with hmem | hmem
    · rcases List.mem_or_eq_of_mem_set hmem with hmem | rfl
      · exact h k hmem
      · exact le_refl _
    · exact divide_nonneg syms useSym per kp ndiv (h kp (List.mem_of_getElem? hk)) k hmem

theorem refineStep_total (syms : List Sym) (useSym : Bool) (per : Bool × Bool × Bool) (l : List KPoint)
    (op : Idx × List Nat) (h1 : 0 < op.1.1) (h2 : 0 < op.1.2.1) (h3 : 0 < op.1.2.2) :
    totalW (refineStep syms useSym per l op) = totalW l := by
  have key : ∀ (sel : List Nat) (l : List KPoint),
      totalW (sel.foldl (refineOne syms useSym per op.1) l) = totalW l := by
    intro sel
    induction sel with
    | nil => intro l; rfl
    | cons i sel ih =>
      intro l
      simp only [List.foldl_cons]
      rw [ih, refineOne_total _ _ _ _ _ _ h1 h2 h3]
  unfold refineStep
  simp only
  split
  · unfold excludeEquiv
    rw [excludeEquivWith_total, key]
  · exact key _ _

theorem refineStep_nonneg (syms : List Sym) (useSym : Bool) (per : Bool × Bool × Bool) (l : List KPoint)
    (op : Idx × List Nat) (h : ∀ k ∈ l, 0 ≤ k.factor) :
    ∀ k ∈ refineStep syms useSym per l op, 0 ≤ k.factor := by
  have key : ∀ (sel : List Nat) (l : List KPoint), (∀ k ∈ l, 0 ≤ k.factor) →
      ∀ k ∈ sel.foldl (refineOne syms useSym per op.1) l, 0 ≤ k.factor := by
    intro sel
    induction sel with
    | nil => intro l hl; exact hl
    | cons i sel ih =>
      intro l hl
      simp only [List.foldl_cons]
      exact ih _ (refineOne_nonneg _ _ _ _ _ _ hl)
  unfold refineStep
  simp only
  split
  · unfold excludeEquiv
    exact excludeEquivWith_nonneg _ _ _ _ (key _ _ h)
  · exact key _ _ h

end WB.C06
