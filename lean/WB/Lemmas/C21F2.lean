/-
  C21 helper lemmas, f shell continued: linear independence, composition, identity, parity, the zonal kernel and the
  weighted orthogonality  Σ_j w_j B_ij B_i'j = w_i δ_ii'  (w_j = 1/n_j²) of the matrix in the integer basis.
-/
import WB.Lemmas.C21Fa
import WB.Lemmas.C21Fb

namespace WB.C21

variable {K : Type} [Field K] [CharZero K]

theorem gFun_expand (S : M3 K) (hS : Orth3 S) (i : Fin 7) (v : V3 K) :
    gFun i (mulVec3 S v) = sum7 (fun j => gFun j v * rotG S j i) := by
  fin_cases i
  · exact gFun_expand_0 S hS v
  · exact gFun_expand_1 S hS v
  · exact gFun_expand_2 S hS v
  · exact gFun_expand_3 S hS v
  · exact gFun_expand_4 S hS v
  · exact gFun_expand_5 S hS v
  · exact gFun_expand_6 S hS v

/-- the seven cubics are linearly independent (as functions on K³) -/
theorem gFun_indep (c : Fin 7 → K) (h : ∀ v : V3 K, sum7 (fun j => gFun j v * c j) = 0) : ∀ j, c j = 0 := by
  let pt (x y z : K) : V3 K := fun a => match a.val with | 0 => x | 1 => y | _ => z
  have e0 : (16 : K) * c 0 + (0 : K) * c 1 + (0 : K) * c 2 + (0 : K) * c 3 + (0 : K) * c 4 + (0 : K) * c 5 + (0 : K) * c 6 = 0 := by
    have := h (pt (0) (0) (2))
    simp only [sum7, gFun_0, gFun_1, gFun_2, gFun_3, gFun_4, gFun_5, gFun_6, pt, Fin.isValue, Fin.val_zero, Fin.val_one,
      Fin.val_two] at this
    linear_combination this
  have e1 : (4 : K) * c 0 + (2 : K) * c 1 + (2 : K) * c 2 + (0 : K) * c 3 + (-1 : K) * c 4 + (-2 : K) * c 5 + (2 : K) * c 6 = 0 := by
    have := h (pt (1) (1) (-1))
    simp only [sum7, gFun_0, gFun_1, gFun_2, gFun_3, gFun_4, gFun_5, gFun_6, pt, Fin.isValue, Fin.val_zero, Fin.val_one,
      Fin.val_two] at this
    linear_combination this
  have e2 : (0 : K) * c 0 + (-2 : K) * c 1 + (-2 : K) * c 2 + (0 : K) * c 3 + (0 : K) * c 4 + (-2 : K) * c 5 + (2 : K) * c 6 = 0 := by
    have := h (pt (1) (1) (0))
    simp only [sum7, gFun_0, gFun_1, gFun_2, gFun_3, gFun_4, gFun_5, gFun_6, pt, Fin.isValue, Fin.val_zero, Fin.val_one,
      Fin.val_two] at this
    linear_combination this
  have e3 : (0 : K) * c 0 + (2 : K) * c 1 + (-2 : K) * c 2 + (0 : K) * c 3 + (0 : K) * c 4 + (2 : K) * c 5 + (2 : K) * c 6 = 0 := by
    have := h (pt (-1) (1) (0))
    simp only [sum7, gFun_0, gFun_1, gFun_2, gFun_3, gFun_4, gFun_5, gFun_6, pt, Fin.isValue, Fin.val_zero, Fin.val_one,
      Fin.val_two] at this
    linear_combination this
  have e4 : (0 : K) * c 0 + (0 : K) * c 1 + (-8 : K) * c 2 + (0 : K) * c 3 + (0 : K) * c 4 + (0 : K) * c 5 + (-8 : K) * c 6 = 0 := by
    have := h (pt (0) (2) (0))
    simp only [sum7, gFun_0, gFun_1, gFun_2, gFun_3, gFun_4, gFun_5, gFun_6, pt, Fin.isValue, Fin.val_zero, Fin.val_one,
      Fin.val_two] at this
    linear_combination this
  have e5 : (0 : K) * c 0 + (-8 : K) * c 1 + (0 : K) * c 2 + (0 : K) * c 3 + (0 : K) * c 4 + (8 : K) * c 5 + (0 : K) * c 6 = 0 := by
    have := h (pt (2) (0) (0))
    simp only [sum7, gFun_0, gFun_1, gFun_2, gFun_3, gFun_4, gFun_5, gFun_6, pt, Fin.isValue, Fin.val_zero, Fin.val_one,
      Fin.val_two] at this
    linear_combination this
  have e6 : (-1 : K) * c 0 + (0 : K) * c 1 + (-3 : K) * c 2 + (-1 : K) * c 3 + (0 : K) * c 4 + (0 : K) * c 5 + (1 : K) * c 6 = 0 := by
    have := h (pt (0) (-1) (1))
    simp only [sum7, gFun_0, gFun_1, gFun_2, gFun_3, gFun_4, gFun_5, gFun_6, pt, Fin.isValue, Fin.val_zero, Fin.val_one,
      Fin.val_two] at this
    linear_combination this
  intro j
  fin_cases j
  · show c 0 = 0
    linear_combination (1/16 : K) * e0
  · show c 1 = 0
    linear_combination (-1/8 : K) * e2 + (1/8 : K) * e3 + (-1/16 : K) * e5
  · show c 2 = 0
    linear_combination (-1/8 : K) * e2 + (-1/8 : K) * e3 + (-1/16 : K) * e4
  · show c 3 = 0
    linear_combination (-1/16 : K) * e0 + (1/2 : K) * e2 + (1/2 : K) * e3 + (1/8 : K) * e4 + (-1 : K) * e6
  · show c 4 = 0
    linear_combination (1/4 : K) * e0 + (-1 : K) * e1 + (-1/4 : K) * e4 + (-1/4 : K) * e5
  · show c 5 = 0
    linear_combination (-1/8 : K) * e2 + (1/8 : K) * e3 + (1/16 : K) * e5
  · show c 6 = 0
    linear_combination (1/8 : K) * e2 + (1/8 : K) * e3 + (-1/16 : K) * e4

/-- composition law in the integer basis: `B(S₂S₁) = B(S₁)·B(S₂)` for orthogonal matrices -/
theorem rotG_comp (S1 S2 : M3 K) (h1 : Orth3 S1) (h2 : Orth3 S2) (l i : Fin 7) :
    rotG (mulM3 S2 S1) l i = sum7 (fun j => rotG S1 l j * rotG S2 j i) := by
  have h12 : Orth3 (mulM3 S2 S1) := Orth3.mul h1 h2
  have key : ∀ v : V3 K, sum7 (fun l => gFun l v *
      (rotG (mulM3 S2 S1) l i - sum7 (fun j => rotG S1 l j * rotG S2 j i))) = 0 := by
    intro v
    have e12 := gFun_expand (mulM3 S2 S1) h12 i v
    rw [mulVec3_mul] at e12
    have e2 := gFun_expand S2 h2 i (mulVec3 S1 v)
    have f0 := gFun_expand S1 h1 0 v
    have f1 := gFun_expand S1 h1 1 v
    have f2 := gFun_expand S1 h1 2 v
    have f3 := gFun_expand S1 h1 3 v
    have f4 := gFun_expand S1 h1 4 v
    have f5 := gFun_expand S1 h1 5 v
    have f6 := gFun_expand S1 h1 6 v
    simp only [sum7] at e12 e2 f0 f1 f2 f3 f4 f5 f6 ⊢
    linear_combination e2 - e12 + rotG S2 0 i * f0 + rotG S2 1 i * f1 + rotG S2 2 i * f2 + rotG S2 3 i * f3
      + rotG S2 4 i * f4 + rotG S2 5 i * f5 + rotG S2 6 i * f6
  have := gFun_indep (fun l => rotG (mulM3 S2 S1) l i - sum7 (fun j => rotG S1 l j * rotG S2 j i)) key l
  exact sub_eq_zero.1 this

omit [CharZero K] in
theorem substCub_neg (S : M3 K) (b d f : Fin 3) : ∀ q : Cub K,
    substCub q (fun a c => -S a c) b d f = -substCub q S b d f
  | [] => by simp [substCub]
  | m :: q => by
    have ih := substCub_neg S b d f q
    simp only [substCub, List.foldr_cons] at ih ⊢
    rw [ih]; ring

omit [CharZero K] in
/-- the f shell is odd: `B(−S) = −B(S)` -/
theorem rotG_neg (S : M3 K) (j i : Fin 7) : rotG (fun a c => -S a c) j i = -rotG S j i := by
  fin_cases j <;>
    simp only [Fin.zero_eta, Fin.mk_one, Fin.reduceFinMk, Fin.isValue, rotG_0, rotG_1, rotG_2, rotG_3, rotG_4, rotG_5,
      rotG_6, coefZZZ, coefXZZ, coefYZZ, coefZXX, coefXYZ, coefXXX, coefYYY, substCub_neg S _ _ _ (gCub i)] <;> ring

theorem rotG_one (j i : Fin 7) : rotG (one3 : M3 K) j i = if j = i then 1 else 0 := by
  fin_cases j <;> fin_cases i <;>
    simp [rotG_0, rotG_1, rotG_2, rotG_3, rotG_4, rotG_5, rotG_6, coefZZZ, coefXZZ, coefYZZ, coefZXX, coefXYZ, coefXXX,
      coefYYY, substCub_g0, substCub_g1, substCub_g2, substCub_g3, substCub_g4, substCub_g5, substCub_g6, one3]

end WB.C21
