/-
  Helper lemmas for C27: antisymmetric double sums over finite index sets, and the bridge between the
  list sums of the executable model and `Finset` sums.
-/
import WB.Model.C27
import Mathlib.Algebra.BigOperators.Group.Finset.Basic
import Mathlib.Algebra.BigOperators.Group.Finset.Sigma
import Mathlib.Algebra.BigOperators.Ring.Finset
import Mathlib.Algebra.Order.BigOperators.Group.Finset
import Mathlib.Algebra.Star.BigOperators
import Mathlib.Algebra.Star.Basic
import Mathlib.Algebra.Field.Basic
import Mathlib.Order.Interval.Finset.Nat
import Mathlib.Data.List.Range
import Mathlib.Tactic.Ring
import Mathlib.Tactic.Linarith

namespace WB.C27
open Finset

section sums
variable {M : Type*} [AddCommGroup M]

/-- an antisymmetric kernel with vanishing diagonal sums to zero over any square `S × S`
    (no assumption on the characteristic) -/
theorem sum_square_antisymm (S : Finset ℕ) (t : ℕ → ℕ → M)
    (hanti : ∀ n l, t n l + t l n = 0) (hdiag : ∀ n, t n n = 0) :
    ∑ n ∈ S, ∑ l ∈ S, t n l = 0 := by
  rw [← Finset.sum_product']
  refine Finset.sum_involution (fun p _ => (p.2, p.1)) ?_ ?_ ?_ ?_
  · intro p _; exact hanti p.1 p.2
  · intro p _ hne heq
    apply hne
    have h : p.2 = p.1 := congrArg Prod.fst heq
    rw [h]; exact hdiag p.1
  · intro p hp
    rw [Finset.mem_product] at hp ⊢
    exact ⟨hp.2, hp.1⟩
  · intro p _; rfl

/-- two index sets: the `A → B` and `B → A` contributions cancel -/
theorem sum_pair_antisymm (A B : Finset ℕ) (t : ℕ → ℕ → M) (hanti : ∀ n l, t n l + t l n = 0) :
    ∑ n ∈ A, ∑ l ∈ B, t n l + ∑ n ∈ B, ∑ l ∈ A, t n l = 0 := by
  rw [Finset.sum_comm (s := B) (t := A), ← Finset.sum_add_distrib]
  apply Finset.sum_eq_zero; intro n _
  rw [← Finset.sum_add_distrib]
  apply Finset.sum_eq_zero; intro l _
  exact hanti n l

/-- the sum rule over a partition: pairwise disjoint blocks `P i` (i ∈ s) with union `U`;
    every block is traced against its complement in `U` -/
theorem sum_partition_antisymm {ι : Type*} [DecidableEq ι] (s : Finset ι) (P : ι → Finset ℕ) (U : Finset ℕ)
    (hdisj : (s : Set ι).PairwiseDisjoint P) (hU : s.biUnion P = U) (t : ℕ → ℕ → M)
    (hanti : ∀ n l, t n l + t l n = 0) (hdiag : ∀ n, t n n = 0) :
    ∑ i ∈ s, ∑ n ∈ P i, ∑ l ∈ U \ P i, t n l = 0 := by
  have hsub : ∀ i ∈ s, P i ⊆ U := by
    intro i hi; rw [← hU]; exact Finset.subset_biUnion_of_mem P hi
  have h1 : ∀ i ∈ s, ∑ n ∈ P i, ∑ l ∈ U \ P i, t n l
      = ∑ n ∈ P i, ∑ l ∈ U, t n l - ∑ n ∈ P i, ∑ l ∈ P i, t n l := by
    intro i hi
    rw [← Finset.sum_sub_distrib]
    apply Finset.sum_congr rfl; intro n _
    rw [← Finset.sum_sdiff (hsub i hi)]; exact (add_sub_cancel_right _ _).symm
  rw [Finset.sum_congr rfl h1, Finset.sum_sub_distrib]
  have h2 : ∑ i ∈ s, ∑ n ∈ P i, ∑ l ∈ U, t n l = ∑ n ∈ U, ∑ l ∈ U, t n l := by
    rw [← hU, Finset.sum_biUnion hdisj]
  have h3 : ∑ i ∈ s, ∑ n ∈ P i, ∑ l ∈ P i, t n l = 0 :=
    Finset.sum_eq_zero (fun i _ => sum_square_antisymm (P i) t hanti hdiag)
  rw [h2, h3, sum_square_antisymm U t hanti hdiag, sub_zero]

end sums

/-! ### list sums of the model as Finset sums -/

section bridge
variable {K : Type} [Field K] [StarRing K]

/-- the pair kernel of the internal Berry curvature: contribution of the pair (inner `n`, outer `l`) -/
def pairTerm (I : K) (D : ℕ → ℕ → ℕ → K) (c n l : ℕ) : K :=
  -I * (D n l (alphaA c) * D l n (betaA c)) + star (-I * (D n l (alphaA c) * D l n (betaA c)))

omit [StarRing K] in
theorem omegaSumm_eq (I : K) (D : ℕ → ℕ → ℕ → K) (out : List ℕ) (m n c : ℕ) :
    omegaSumm I D out m n c = (out.map (fun l => -I * (D m l (alphaA c) * D l n (betaA c)))).sum := by
  unfold omegaSumm
  rw [List.sum_map_mul_left]

theorem omegaNN_diag_eq (I : K) (D : ℕ → ℕ → ℕ → K) (out : List ℕ) (n c : ℕ) :
    omegaNN star I D out n n c = (out.map (fun l => pairTerm I D c n l)).sum := by
  unfold omegaNN
  rw [omegaSumm_eq]
  have : star (out.map (fun l => -I * (D n l (alphaA c) * D l n (betaA c)))).sum
      = (out.map (fun l => star (-I * (D n l (alphaA c) * D l n (betaA c))))).sum := by
    induction out with
    | nil => simp
    | cons x xs ih => simp only [List.map_cons, List.sum_cons, star_add, ih]
  rw [this, ← List.sum_map_add]
  rfl

/-- the model's trace is the double sum of the pair kernel -/
theorem omegaTrace_eq (I : K) (D : ℕ → ℕ → ℕ → K) (inn out : List ℕ) (c : ℕ) :
    omegaTrace star I D inn out c = (inn.map (fun n => (out.map (fun l => pairTerm I D c n l)).sum)).sum := by
  unfold omegaTrace
  congr 1
  apply List.map_congr_left
  intro n _
  exact omegaNN_diag_eq I D out n c

theorem omegaTrace_finset (I : K) (D : ℕ → ℕ → ℕ → K) (inn out : List ℕ) (c : ℕ)
    (hi : inn.Nodup) (ho : out.Nodup) :
    omegaTrace star I D inn out c = ∑ n ∈ inn.toFinset, ∑ l ∈ out.toFinset, pairTerm I D c n l := by
  rw [omegaTrace_eq, List.sum_toFinset _ hi]
  congr 1
  apply List.map_congr_left
  intro n _
  rw [List.sum_toFinset _ ho]

theorem blockInn_nodup (a b : ℕ) : (blockInn a b).Nodup := List.nodup_range'

theorem blockInn_toFinset (a b : ℕ) : (blockInn a b).toFinset = Finset.Ico a b := by
  ext j
  simp only [blockInn, List.mem_toFinset, List.mem_range'_1, Finset.mem_Ico]
  omega

theorem blockOut_nodup (a b N : ℕ) (hab : a ≤ b) : (blockOut a b N).Nodup := by
  unfold blockOut
  rw [List.nodup_append]
  refine ⟨List.nodup_range, List.nodup_range', ?_⟩
  intro x hx y hy
  simp only [List.mem_range] at hx
  simp only [List.mem_range'_1] at hy
  omega

theorem blockOut_toFinset (a b N : ℕ) (hab : a ≤ b) (hb : b ≤ N) :
    (blockOut a b N).toFinset = Finset.range N \ Finset.Ico a b := by
  ext j
  simp only [blockOut, List.toFinset_append, Finset.mem_union, List.mem_toFinset, List.mem_range,
    List.mem_range'_1, Finset.mem_sdiff, Finset.mem_range, Finset.mem_Ico]
  omega

end bridge

end WB.C27
