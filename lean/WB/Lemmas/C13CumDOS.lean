/-
  C13 — cumulative DOS of one k-point (Identity formula, no tetrahedra): non-decreasing along the Fermi grid,
  0 below all bands, NB above all bands.
-/
import WB.Lemmas.C13Sea

namespace WB.C13
open WB.C14 (foldl_add_eq_sum)
open WB.C15 (blocks)

theorem sum_range_le (E : Nat → Rat) (a : Nat) (x : Rat) : ∀ k : Nat, (∀ i, i < k → E (a + i) ≤ x) →
    ((List.range k).map (fun j => E (a + j))).sum ≤ (k : Rat) * x
  | 0, _ => by simp
  | k + 1, h => by
    rw [List.range_succ, List.map_append, List.sum_append]
    have ih := sum_range_le E a x k (fun i hi => h i (by omega))
    have := h k (by omega)
    simp only [List.map_cons, List.map_nil, List.sum_cons, List.sum_nil, add_zero]
    push_cast
    linarith

theorem sum_range_gt (E : Nat → Rat) (a : Nat) (x : Rat) : ∀ k : Nat, 0 < k → (∀ i, i < k → x < E (a + i)) →
    (k : Rat) * x < ((List.range k).map (fun j => E (a + j))).sum
  | 0, h0, _ => by omega
  | 1, _, h => by simpa using h 0 (by omega)
  | k + 2, _, h => by
    rw [List.range_succ, List.map_append, List.sum_append]
    have ih := sum_range_gt E a x (k + 1) (by omega) (fun i hi => h i (by omega))
    have := h (k + 1) (by omega)
    simp only [List.map_cons, List.map_nil, List.sum_cons, List.sum_nil, add_zero]
    push_cast at ih ⊢
    linarith

theorem groupMean_le (E : Nat → Rat) (ab : Nat × Nat) (hab : ab.1 < ab.2) (x : Rat)
    (h : ∀ i, ab.1 ≤ i → i < ab.2 → E i ≤ x) : groupMean E ab ≤ x := by
  unfold groupMean
  rw [foldl_add_eq_sum, zero_add]
  have hpos : (0 : Rat) < ((ab.2 - ab.1 : Nat) : Rat) := by
    have : 0 < ab.2 - ab.1 := by omega
    exact_mod_cast this
  rw [div_le_iff₀ hpos]
  have := sum_range_le E ab.1 x (ab.2 - ab.1) (fun i hi => h _ (by omega) (by omega))
  linarith

theorem lt_groupMean (E : Nat → Rat) (ab : Nat × Nat) (hab : ab.1 < ab.2) (x : Rat)
    (h : ∀ i, ab.1 ≤ i → i < ab.2 → x < E i) : x < groupMean E ab := by
  unfold groupMean
  rw [foldl_add_eq_sum, zero_add]
  have hpos : (0 : Rat) < ((ab.2 - ab.1 : Nat) : Rat) := by
    have : 0 < ab.2 - ab.1 := by omega
    exact_mod_cast this
  rw [lt_div_iff₀ hpos]
  have := sum_range_gt E ab.1 x (ab.2 - ab.1) (by omega) (fun i hi => h _ (by omega) (by omega))
  linarith

theorem groupsIK_eq (E : Nat → Rat) (th : Rat) (n : Nat) (kr : Bool) (emin emax : Rat) (sea : Bool)
    (sel : Option (List Nat)) :
    groupsIK E th n kr emin emax sea sel =
      if (sea && decide (seaBandmax E n emin (windowGroups E th n kr emin emax sel) > 0)) = true then
        (windowGroups E th n kr emin emax sel).map (fun ab => (ab, some (groupMean E ab))) ++
          [((0, seaBandmax E n emin (windowGroups E th n kr emin emax sel)), none)]
      else (windowGroups E th n kr emin emax sel).map (fun ab => (ab, some (groupMean E ab))) := rfl

/-- cumulative DOS contribution of one k-point at Fermi index `j` -/
def cumdosK (Ef : Nat → Rat) (nEf : Nat) (E : Nat → Rat) (th : Rat) (nb : Nat) (kr : Bool) (j : Nat) : Rat :=
  resolved 0 Ef nEf (calcK 0 Ef nEf E th nb kr none sizeOf) j

theorem EFmin_zero (Ef : Nat → Rat) (n : Nat) : EFmin Ef n 0 = Ef 0 := by
  have h : EFmin Ef n 0 = Ef 0 - ((extraEf 0 : Nat) : Rat) * dEF Ef n := rfl
  have h0 : extraEf 0 = 0 := rfl
  rw [h, h0]; simp

theorem EFmax_zero (Ef : Nat → Rat) (n : Nat) : EFmax Ef n 0 = Ef (n - 1) := by
  have h : EFmax Ef n 0 = Ef (n - 1) + ((extraEf 0 : Nat) : Rat) * dEF Ef n := rfl
  have h0 : extraEf 0 = 0 := rfl
  rw [h, h0]; simp

/-- on a uniform grid with positive spacing the CumDOS bin `j` is the Fermi-sea step sum at `Ef j` -/
theorem cumdosK_eq_stepSum (Ef : Nat → Rat) (nEf : Nat) (hu : Uniform Ef nEf) (hd : 0 < dEF Ef nEf)
    (E : Nat → Rat) (th : Rat) (nb : Nat) (kr : Bool) (j : Nat) (hj : j < nEf) :
    cumdosK Ef nEf E th nb kr j =
      stepSum (groupsWithValues E th nb kr (Ef 0) (Ef (nEf - 1)) true none sizeOf) (Ef j) := by
  unfold cumdosK resolved calcK
  rw [stencil_0, EFmin_zero, EFmax_zero]
  have e0 : ((0 : Nat) == 0) = true := rfl
  rw [e0, hu j hj]
  apply accumulate_eq_stepSum _ _ _ hd
  rw [hu (nEf - 1) (by omega)]
  have : (j : Rat) ≤ ((nEf - 1 : Nat) : Rat) := by exact_mod_cast (by omega : j ≤ nEf - 1)
  nlinarith

theorem stepVal_mono (g : Group) (hv : 0 ≤ g.2) {x y : Rat} (hxy : x ≤ y) : stepVal g x ≤ stepVal g y := by
  rcases g with ⟨e, v⟩
  cases e with
  | none => rw [stepVal_none, stepVal_none]
  | some E =>
    rw [stepVal_some, stepVal_some]
    by_cases h : E ≤ x
    · rw [if_pos h, if_pos (le_trans h hxy)]
    · rw [if_neg h]; split <;> simp_all

theorem stepSum_mono (groups : List Group) (hv : ∀ g ∈ groups, 0 ≤ g.2) {x y : Rat} (hxy : x ≤ y) :
    stepSum groups x ≤ stepSum groups y := by
  unfold stepSum
  induction groups with
  | nil => simp
  | cons g gs ih =>
    simp only [List.map_cons, List.sum_cons]
    have h1 := stepVal_mono g (hv g (by simp)) hxy
    have h2 := ih (fun g' hg' => hv g' (List.mem_cons_of_mem _ hg'))
    linarith

theorem values_nonneg (E : Nat → Rat) (th : Rat) (nb : Nat) (kr : Bool) (emin emax : Rat) (sea : Bool) :
    ∀ g ∈ groupsWithValues E th nb kr emin emax sea none sizeOf, 0 ≤ g.2 := by
  intro g hg
  unfold groupsWithValues at hg
  obtain ⟨g', _, rfl⟩ := List.mem_map.mp hg
  simp only [wsel, mul_one, sizeOf]
  exact Nat.cast_nonneg _

/-- T2 (monotone).  The CumDOS of a k-point is non-decreasing along a uniform Fermi grid -/
theorem cumdosK_mono_aux (Ef : Nat → Rat) (nEf : Nat) (hu : Uniform Ef nEf) (hd : 0 < dEF Ef nEf)
    (E : Nat → Rat) (th : Rat) (nb : Nat) (kr : Bool) (j j' : Nat) (hjj : j ≤ j') (hj : j' < nEf) :
    cumdosK Ef nEf E th nb kr j ≤ cumdosK Ef nEf E th nb kr j' := by
  rw [cumdosK_eq_stepSum Ef nEf hu hd E th nb kr j (by omega), cumdosK_eq_stepSum Ef nEf hu hd E th nb kr j' hj]
  apply stepSum_mono _ (values_nonneg E th nb kr _ _ true)
  rw [hu j (by omega), hu j' hj]
  have : (j : Rat) ≤ (j' : Rat) := by exact_mod_cast hjj
  nlinarith

theorem stepSum_append (g1 g2 : List Group) (x : Rat) : stepSum (g1 ++ g2) x = stepSum g1 x + stepSum g2 x := by
  unfold stepSum; rw [List.map_append, List.sum_append]

/-- T2 (below).  Below all bands of the k-point the CumDOS contribution is 0 -/
theorem cumdosK_below_aux (Ef : Nat → Rat) (nEf : Nat) (hu : Uniform Ef nEf) (hd : 0 < dEF Ef nEf)
    (E : Nat → Rat) (th : Rat) (nb : Nat) (kr : Bool) (hk : kr = true → nb % 2 = 0) (j : Nat) (hj : j < nEf)
    (hbelow : ∀ i, i < nb → Ef j < E i) :
    cumdosK Ef nEf E th nb kr j = 0 := by
  rw [cumdosK_eq_stepSum Ef nEf hu hd E th nb kr j hj]
  have h0j : Ef 0 ≤ Ef j := by
    rw [hu j hj]
    have : (0 : Rat) ≤ (j : Rat) := Nat.cast_nonneg j
    nlinarith
  -- no lumped group
  have hb0 : C14.bandsBelow E nb (some (Ef 0)) = 0 := by
    rw [C14.bandsBelow_some]
    cases hf : (List.range nb).reverse.find? (fun i => decide (E i < Ef 0)) with
    | some i =>
      exfalso
      have hi := List.find?_some hf
      have hin : i < nb := by have := List.mem_of_find?_eq_some hf; simpa using this
      simp only [decide_eq_true_eq] at hi
      have := hbelow i hin
      linarith
    | none => rfl
  have hsb : seaBandmax E nb (Ef 0) (windowGroups E th nb kr (Ef 0) (Ef (nEf - 1)) none) = 0 := by
    unfold seaBandmax
    rw [hb0]
    cases (windowGroups E th nb kr (Ef 0) (Ef (nEf - 1)) none).head? <;> simp
  unfold groupsWithValues
  rw [groupsIK_eq, hsb]
  simp only [gt_iff_lt, lt_self_iff_false, decide_false, Bool.and_false, Bool.false_eq_true, if_false, List.map_map]
  unfold stepSum
  rw [List.map_map]
  apply List.sum_eq_zero
  intro y hy
  obtain ⟨ab, hab, rfl⟩ := List.mem_map.mp hy
  simp only [Function.comp]
  rw [stepVal_some]
  have hb := C14.blocks_bounds E th nb kr hk ab (List.mem_filter.mp hab).1
  have := lt_groupMean E ab hb.1 (Ef j) (fun i _ hi => hbelow i (by omega))
  rw [if_neg (not_le.mpr this)]

/-- T2 (above).  Above all bands of the k-point the CumDOS contribution is the number of bands: every band lies in
    exactly one counted group (window groups by their mean energy + the lumped group below the window) -/
theorem cumdosK_above_aux (Ef : Nat → Rat) (nEf : Nat) (hu : Uniform Ef nEf) (hd : 0 < dEF Ef nEf)
    (E : Nat → Rat) (th : Rat) (nb : Nat) (kr : Bool) (hk : kr = true → nb % 2 = 0)
    (hsorted : ∀ i i', i ≤ i' → i' < nb → E i ≤ E i') (j : Nat) (hj : j < nEf)
    (habove : ∀ i, i < nb → E i ≤ Ef j) :
    cumdosK Ef nEf E th nb kr j = (nb : Rat) := by
  rw [cumdosK_eq_stepSum Ef nEf hu hd E th nb kr j hj]
  have hjN : Ef j ≤ Ef (nEf - 1) := by
    rw [hu j hj, hu (nEf - 1) (by omega)]
    have : (j : Rat) ≤ ((nEf - 1 : Nat) : Rat) := by exact_mod_cast (by omega : j ≤ nEf - 1)
    nlinarith
  obtain ⟨hmle, hmiff⟩ := C14.bandsBelow_spec E nb (Ef 0) hsorted
  obtain ⟨l, hl, hlast⟩ := C14.borders_shape E th nb kr hk
  -- which blocks are window groups
  have hwin : windowGroups E th nb kr (Ef 0) (Ef (nEf - 1)) none =
      (blocks E th nb kr).filter (fun ab => decide (C14.bandsBelow E nb (some (Ef 0)) < ab.2)) := by
    unfold windowGroups
    apply List.filter_congr
    intro ab hab
    obtain ⟨h1, h2⟩ := C14.blocks_bounds E th nb kr hk ab hab
    have hmin : C15.sliceMin E ab.1 ab.2 ≤ Ef (nEf - 1) := by
      rw [C14.sliceMin_le_iff]
      exact Or.inl (le_trans (habove _ (by omega)) hjN)
    have hmax : (C15.sliceMax E ab.1 ab.2 ≥ Ef 0) ↔ C14.bandsBelow E nb (some (Ef 0)) < ab.2 := by
      rw [ge_iff_le, C14.sliceMax_ge_mono E nb ab.1 ab.2 h1 h2 hsorted]
      have := hmiff (ab.2 - 1) (by omega)
      constructor
      · intro h
        by_contra hc
        have h3 : ab.2 - 1 < C14.bandsBelow E nb (some (Ef 0)) := by omega
        exact absurd (this.mp h3) (not_lt.mpr h)
      · intro h
        by_contra hc
        have := this.mpr (not_le.mp hc)
        omega
    simp only [selHits, hmin, decide_true, Bool.and_true, Bool.true_and, decide_eq_decide]
    exact hmax
  -- the step sum counts every listed group
  have hsum : ∀ (gs : List ((Nat × Nat) × Option Rat)),
      (∀ g ∈ gs, Below g.2 (Ef j)) →
      stepSum (gs.map (fun g => (g.2, sizeOf g.1 * wsel none g.1))) (Ef j) = (gs.map (fun g => sizeOf g.1)).sum := by
    intro gs hgs
    unfold stepSum
    rw [List.map_map]
    congr 1
    apply List.map_congr_left
    intro g hg
    simp only [Function.comp, stepVal, wsel, mul_one]
    rw [if_pos (hgs g hg)]
  unfold groupsWithValues
  rw [hsum]
  · -- count
    rw [groupsIK_eq, hwin]
    have key := C14.blocks_plus_lump l 0 (C14.bandsBelow E nb (some (Ef 0))) (hl ▸ C14.borders_sorted' E th nb kr)
      (Nat.zero_le _) (by rw [hlast]; exact hmle)
    rw [hlast] at key
    have hbl : blocks E th nb kr = C15.pairs (0 :: l) := by unfold blocks; rw [hl]
    rw [← hbl] at key
    have hsb : seaBandmax E nb (Ef 0)
        ((blocks E th nb kr).filter (fun ab => decide (C14.bandsBelow E nb (some (Ef 0)) < ab.2))) =
        C14.lumpSize ((blocks E th nb kr).filter (fun ab => decide (C14.bandsBelow E nb (some (Ef 0)) < ab.2)))
          (C14.bandsBelow E nb (some (Ef 0))) := by
      unfold seaBandmax C14.lumpSize
      cases ((blocks E th nb kr).filter (fun ab => decide (C14.bandsBelow E nb (some (Ef 0)) < ab.2))).head? <;> rfl
    rw [hsb]
    have hid : (fun ab : Nat × Nat => sizeOf ab) = C14.identTrace := rfl
    by_cases hpos : C14.lumpSize ((blocks E th nb kr).filter
        (fun ab => decide (C14.bandsBelow E nb (some (Ef 0)) < ab.2))) (C14.bandsBelow E nb (some (Ef 0))) > 0
    · simp only [Bool.true_and, decide_eq_true_eq, hpos, if_true, List.map_append, List.map_map, List.map_cons,
        List.map_nil, List.sum_append, List.sum_cons, List.sum_nil, add_zero]
      have hcomp : (fun g : (Nat × Nat) × Option Rat => sizeOf g.1) ∘ (fun ab => (ab, some (groupMean E ab))) =
          C14.identTrace := rfl
      rw [hcomp]
      have hz : sizeOf (0, C14.lumpSize ((blocks E th nb kr).filter
          (fun ab => decide (C14.bandsBelow E nb (some (Ef 0)) < ab.2))) (C14.bandsBelow E nb (some (Ef 0)))) =
          ((C14.lumpSize ((blocks E th nb kr).filter
          (fun ab => decide (C14.bandsBelow E nb (some (Ef 0)) < ab.2))) (C14.bandsBelow E nb (some (Ef 0))) : Nat) : Rat) := by
        simp [sizeOf]
      rw [hz]
      exact key
    · have hzero : C14.lumpSize ((blocks E th nb kr).filter
          (fun ab => decide (C14.bandsBelow E nb (some (Ef 0)) < ab.2))) (C14.bandsBelow E nb (some (Ef 0))) = 0 := by
        omega
      simp only [Bool.true_and, decide_eq_true_eq, hpos, if_false, List.map_map]
      have hcomp : (fun g : (Nat × Nat) × Option Rat => sizeOf g.1) ∘ (fun ab => (ab, some (groupMean E ab))) =
          C14.identTrace := rfl
      rw [hcomp]
      rw [hzero] at key
      simpa using key
  · -- every listed group is below the level
    intro g hg
    rw [groupsIK_eq] at hg
    have hwinmem : ∀ ab ∈ windowGroups E th nb kr (Ef 0) (Ef (nEf - 1)) none,
        Below (some (groupMean E ab)) (Ef j) := by
      intro ab hab
      have hb := C14.blocks_bounds E th nb kr hk ab (List.mem_filter.mp hab).1
      exact groupMean_le E ab hb.1 (Ef j) (fun i _ hi => habove i (by omega))
    split at hg
    · rcases List.mem_append.mp hg with h | h
      · obtain ⟨ab, hab, rfl⟩ := List.mem_map.mp h
        exact hwinmem ab hab
      · simp only [List.mem_singleton] at h
        rw [h]; trivial
    · obtain ⟨ab, hab, rfl⟩ := List.mem_map.mp hg
      exact hwinmem ab hab

end WB.C13
