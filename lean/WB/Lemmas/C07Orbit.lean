/-
  C07 helper lemmas, part 1: orbit–stabiliser for a list-group acting on a type with decidable equality, and the
  resulting sum rules.
-/
import WB.Lemmas.C09Group
import Mathlib.Algebra.BigOperators.Group.Finset.Basic
import Mathlib.Algebra.BigOperators.Group.List.Basic
import Mathlib.Data.List.Dedup
import Mathlib.Data.Finset.Dedup
import Mathlib.Algebra.Module.Defs
import Mathlib.Algebra.Module.NatInt
import Mathlib.Algebra.Field.Basic
import Mathlib.Algebra.CharZero.Defs
import Mathlib.Tactic.FieldSimp
import Mathlib.Tactic.Ring

set_option linter.unusedSectionVars false
set_option linter.unusedSimpArgs false

namespace WB.C07
open WB.C09

section Orbit
variable {G X : Type} [DecidableEq X]

/-- a list-group acting on `X`: compatible with the product and every member acts injectively -/
structure ListAction (mul : G → G → G) (L : List G) (act : G → X → X) : Prop where
  grp : ListGroup mul L
  act_mul : ∀ g ∈ L, ∀ h ∈ L, ∀ x, act (mul g h) x = act g (act h x)
  act_inj : ∀ g ∈ L, ∀ x y, act g x = act g y → x = y

/-- the orbit as the code builds it: all images, duplicates removed (`star`) -/
def orbit (L : List G) (act : G → X → X) (r : X) : List X := (L.map fun g => act g r).dedup

variable {mul : G → G → G} {L : List G} {act : G → X → X}

/-- all fibres of `g ↦ g·r` have the size of the stabiliser -/
theorem fibre_length (hA : ListAction mul L act) (r : X) {g0 : G} (hg0 : g0 ∈ L) :
    (L.filter fun g => decide (act g r = act g0 r)).length = (L.filter fun s => decide (act s r = r)).length := by
  have hp := (hA.grp.perm_map_mul hg0).filter (fun g => decide (act g r = act g0 r))
  have h1 := hp.length_eq
  rw [List.filter_map, List.length_map] at h1
  rw [← h1]
  congr 1
  apply List.filter_congr
  intro s hs
  simp only [Function.comp, decide_eq_decide]
  rw [hA.act_mul g0 hg0 s hs r]
  constructor
  · intro h; exact hA.act_inj g0 hg0 _ _ h
  · intro h; rw [h]

theorem count_image (hA : ListAction mul L act) (r : X) {k : X} (hk : k ∈ L.map fun g => act g r) :
    (L.map fun g => act g r).count k = (L.filter fun s => decide (act s r = r)).length := by
  obtain ⟨g0, hg0, rfl⟩ := List.mem_map.1 hk
  rw [List.count_eq_countP, List.countP_map, List.countP_eq_length_filter, ← fibre_length hA r hg0]
  congr 1

/-- T1 (orbit sum): `Σ_{g ∈ L} F(g·r) = c · Σ_{k ∈ orbit r} F k` with `c · |orbit r| = |L|` (`c` = order of the
    stabiliser) -/
theorem orbit_sum_aux {V : Type} [AddCommMonoid V] (hA : ListAction mul L act) (r : X) (F : X → V) :
    ∃ c : Nat, c * (orbit L act r).length = L.length ∧
      (L.map fun g => F (act g r)).sum = c • ((orbit L act r).map F).sum := by
  let c := (L.filter fun s => decide (act s r = r)).length
  let M := L.map fun g => act g r
  have key : ∀ (W : Type) [AddCommMonoid W] (H : X → W), (M.map H).sum = c • ((orbit L act r).map H).sum := by
    intro W _ H
    rw [Finset.sum_list_map_count M H]
    have h2 : ∀ m ∈ M.toFinset, M.count m • H m = c • H m := by
      intro m hm
      rw [count_image hA r (List.mem_toFinset.1 hm)]
    rw [Finset.sum_congr rfl h2, Finset.sum_nsmul]
    congr 1
  refine ⟨c, ?_, ?_⟩
  · have := key Nat (fun _ => 1)
    simp only [List.map_const', List.sum_replicate, smul_eq_mul, mul_one, List.length_map, M] at this
    rw [this]
  · have := key V F
    have e : (M.map F) = L.map fun g => F (act g r) := by simp [M, List.map_map, Function.comp]
    rw [← e]; exact this

end Orbit

section Sums
variable {G X V K : Type} [DecidableEq X] [Field K] [CharZero K] [AddCommGroup V] [Module K V]
variable {mul : G → G → G} {L : List G} {act : G → X → X}

theorem sum_map_flatMap {α β : Type} (l : List α) (g : α → List β) (f : β → V) :
    ((l.flatMap g).map f).sum = (l.map fun a => ((g a).map f).sum).sum := by
  induction l with
  | nil => simp
  | cons a t ih => simp [List.flatMap_cons, ih]

/-- T2: irreducible points weighted by `|orbit| / N`, each value averaged over the group, give the plain average
    over the whole grid — for every equivariant `f`. -/
theorem irred_equals_full_aux (hA : ListAction mul L act) (hL : L ≠ []) (T : G → V → V) (f : X → V)
    (hequiv : ∀ g ∈ L, ∀ k, f (act g k) = T g (f k))
    (grid irr : List X) (hpart : (irr.flatMap (orbit L act)).Perm grid) :
    (irr.map fun r => (((orbit L act r).length : K) / (grid.length : K)) •
        ((L.length : K)⁻¹ • (L.map fun g => T g (f r)).sum)).sum
      = (grid.length : K)⁻¹ • (grid.map f).sum := by
  have hLne : (L.length : K) ≠ 0 := by
    have : L.length ≠ 0 := fun h => hL (List.length_eq_zero_iff.mp h)
    exact_mod_cast this
  have term : ∀ r, (((orbit L act r).length : K) / (grid.length : K)) •
        ((L.length : K)⁻¹ • (L.map fun g => T g (f r)).sum)
      = (grid.length : K)⁻¹ • ((orbit L act r).map f).sum := by
    intro r
    obtain ⟨c, hc, hs⟩ := orbit_sum_aux hA r f
    have e : (L.map fun g => T g (f r)) = L.map fun g => f (act g r) :=
      List.map_congr_left fun g hg => (hequiv g hg r).symm
    rw [e, hs, smul_smul, ← Nat.cast_smul_eq_nsmul K c, smul_smul]
    congr 1
    have hc' : (c : K) * ((orbit L act r).length : K) = (L.length : K) := by exact_mod_cast hc
    rw [← hc'] at hLne ⊢
    have h1 : (c : K) ≠ 0 := left_ne_zero_of_mul hLne
    have h2 : ((orbit L act r).length : K) ≠ 0 := right_ne_zero_of_mul hLne
    by_cases hN : (grid.length : K) = 0
    · simp [hN]
    · field_simp
  rw [List.map_congr_left (fun r _ => term r)]
  rw [← hpart.map f |>.sum_eq, sum_map_flatMap]
  clear hpart
  induction irr with
  | nil => simp
  | cons a t ih => simp only [List.map_cons, List.sum_cons, smul_add, ih]

end Sums

section Tab
variable {G X V : Type} [DecidableEq X]
variable {mul : G → G → G} {L : List G} {act : G → X → X}

/-- T3 (tabulation): the symmetrised, stacked table `[(g·r, T g (f r)) | r ∈ irr, g ∈ L]` carries at every entry
    the value of `f` at that entry's k-point, and reaches every grid point. -/
theorem tab_entries_aux (_hA : ListAction mul L act) (T : G → V → V) (f : X → V)
    (hequiv : ∀ g ∈ L, ∀ k, f (act g k) = T g (f k))
    (grid irr : List X) (hpart : (irr.flatMap (orbit L act)).Perm grid) :
    (∀ e ∈ irr.flatMap (fun r => L.map fun g => (act g r, T g (f r))), e.2 = f e.1) ∧
    (∀ k ∈ grid, ∃ e ∈ irr.flatMap (fun r => L.map fun g => (act g r, T g (f r))), e.1 = k) := by
  constructor
  · intro e he
    obtain ⟨r, _, he⟩ := List.mem_flatMap.1 he
    obtain ⟨g, hg, rfl⟩ := List.mem_map.1 he
    exact (hequiv g hg r).symm
  · intro k hk
    have := hpart.mem_iff.2 hk
    obtain ⟨r, hr, hkr⟩ := List.mem_flatMap.1 this
    unfold orbit at hkr
    rw [List.mem_dedup] at hkr
    obtain ⟨g, hg, rfl⟩ := List.mem_map.1 hkr
    exact ⟨(act g r, T g (f r)), List.mem_flatMap.2 ⟨r, hr, List.mem_map.2 ⟨g, hg, rfl⟩⟩, rfl⟩

end Tab

end WB.C07
