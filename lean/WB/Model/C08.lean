/-
  C08 — declared time-reversal / inversion parities match the formulas.   Core Lean only.

  A graded expression calculus.  An expression `PExpr` denotes a (band-)matrix valued function of k built
  from the Wannier-gauge matrices X^W(k) = Σ_R X(R) e^{ikR}  (`wann name`), the eigenvector matrix `U`,
  the diagonal energy matrix `E`, real scalars and the imaginary unit, by the operations the formula
  classes of wannierberri use:  sum, matrix product, elementwise (Hadamard) product, Hermitian transpose,
  complex conjugation, k-derivative, real / imaginary part, purely index-level operations (`lin`: block
  selection nn/ln, eps-slices alpha_A/beta_A, axis swaps, traces, delta products) and elementwise multiplication
  by a real function of the band energies (`emask`: 1/(E_m-E_n), (E_m+E_n)/2, degeneracy masks ...).

  `grade e` is the pair (TR-odd?, inversion-odd?) or `zero` (identically 0) or `bad` (sum of terms of different
  parity).  Soundness of `grade` is proved in `WB/Lemmas/C08.lean`, the property theorems are in `WB/Props/C08.lean`.

  The second half of the file is the hand transcription of the `nn()/ln()/trace_ln` bodies of every formula class
  reachable from the calculators (`termOf`), the parity rule of `Data_K.covariant` (`bar`, `baseGrade`) and the
  decision procedure `checkTable` that is run (by `decide +kernel`) on the table of DECLARED transforms that the
  harness regenerates from the live code on every run.
-/
import WB.Model.IO
namespace WB.C08

/-! ## names of the real-space matrices -/

inductive Name
  | Ham | AA | BB | CC | CCab | FF | GG | OO | SS | SH | SA | SHA | SR | SHR
  | rotAA | rotAAab | CCab_antisym          -- derived in Data_K_R from AA / CC
deriving DecidableEq, Repr

/-! ## expressions -/

inductive PExpr
  | wann (n : Name)              -- X^W(k), Wannier gauge
  | U                            -- eigenvectors of H^W(k)
  | E                            -- diag(E_n(k))
  | const (q : Rat)              -- real scalar
  | I                            -- imaginary unit
  | zero
  | add (x y : PExpr)
  | neg (x : PExpr)
  | mul (x y : PExpr)            -- matrix product (einsum over a band index)
  | hmul (x y : PExpr)           -- elementwise product (numpy `*` of two band matrices)
  | dagger (x : PExpr)           -- Hermitian transpose  (.swapaxes(0,1).conj())
  | conjE (x : PExpr)            -- elementwise complex conjugate
  | deriv (x : PExpr)            -- d/dk
  | lin (tag : Nat) (x : PExpr)  -- index-level linear operation (no arithmetic on values beyond real-linear)
  | emask (tag : Nat) (x : PExpr) -- elementwise product with a real function of the band energies
  | re (x : PExpr)
  | im (x : PExpr)
deriving Repr

instance : Add PExpr := ⟨PExpr.add⟩
instance : Mul PExpr := ⟨PExpr.mul⟩
instance : Neg PExpr := ⟨PExpr.neg⟩
instance : Sub PExpr := ⟨fun x y => PExpr.add x (PExpr.neg y)⟩

/-- result of grading -/
inductive Grade
  | bad
  | zero
  | val (tr inv : Bool)          -- tr = odd under time reversal (with conjugation), inv = odd under inversion
deriving DecidableEq, Repr

def Grade.flip : Grade → Grade
  | .val t i => .val (!t) (!i)
  | g => g

def Grade.flipTR : Grade → Grade
  | .val t i => .val (!t) i
  | g => g

def Grade.add : Grade → Grade → Grade
  | .zero, g => g
  | g, .zero => g
  | .val a b, .val c d => if a = c ∧ b = d then .val a b else .bad
  | _, _ => .bad

def Grade.mul : Grade → Grade → Grade
  | .bad, _ => .bad
  | _, .bad => .bad
  | .zero, _ => .zero
  | _, .zero => .zero
  | .val a b, .val c d => .val (xor a c) (xor b d)

/-- TR / inversion behaviour of the real-space matrices X(R) of a TR-symmetric (spinless, T = K) resp.
    inversion-symmetric model:  TR-even = X(R) real, TR-odd = X(R) imaginary;
    inversion: X_ij(-R + 2(t_i - t_j)) = ± p_i p_j X_ij(R).   (the same table as sym_wann_2.parity_TR / parity_I) -/
def baseGrade : Name → Grade
  | .Ham => .val false false
  | .AA => .val false true
  | .BB => .val false true
  | .CC => .val true false
  | .CCab => .val false false
  | .FF => .val false false
  | .GG => .val false false
  | .OO => .val true false
  | .SS => .val true false
  | .SH => .val true false
  | .SA => .val true true
  | .SHA => .val true true
  | .SR => .val true true
  | .SHR => .val true true
  -- the derived ones are never used as atoms (see `wannExpr`); values = grade of their definition
  | .rotAA => .val true false
  | .rotAAab => .val false false
  | .CCab_antisym => .val false false

def grade : PExpr → Grade
  | .wann n => baseGrade n
  | .U => .val false false
  | .E => .val false false
  | .const _ => .val false false
  | .I => .val true false
  | .zero => .zero
  | .add x y => (grade x).add (grade y)
  | .neg x => grade x
  | .mul x y => (grade x).mul (grade y)
  | .hmul x y => (grade x).mul (grade y)
  | .dagger x => grade x
  | .conjE x => grade x
  | .deriv x => (grade x).flip
  | .lin _ x => grade x
  | .emask _ x => grade x
  | .re x => grade x
  | .im x => (grade x).flipTR

/-- structural (conservative) realness: `conj ⟦e⟧ = ⟦e⟧` -/
def isReal : PExpr → Bool
  | .const _ => true
  | .zero => true
  | .E => true
  | .re _ => true
  | .im _ => true
  | .add x y => isReal x && isReal y
  | .neg x => isReal x
  | .mul x y => isReal x && isReal y
  | .hmul x y => isReal x && isReal y
  | .conjE x => isReal x
  | .deriv x => isReal x
  | .lin _ x => isReal x
  | .emask _ x => isReal x
  | _ => false

/-! ## index-operation tags (documentation only: `grade` ignores them) -/
def NN := 1      -- [inn][:, inn]
def LN := 2      -- [out][:, inn]
def SWAP := 3    -- exchange the roles of inn and out (nl = ln(out,inn), ll = nn(out,inn))
def ALPHA := 4   -- [..., alpha_A]
def BETA := 5    -- [..., beta_A]
def TRACE := 6   -- einsum("nn...->...")
def AX := 7      -- permutation of cartesian axes (swapaxes / transpose / einsum relabelling)
def EPS := 8     -- X[alpha,beta] - X[beta,alpha]  (or the scatter B[alpha,beta] += m, B[beta,alpha] -= m)
def DELTA := 9   -- DeltaProduct with delta_f
def DIAG := 10   -- diagonal in band indices
def SEL := 11    -- selection of one cartesian component
def TRANSP := 12 -- swapaxes(1,2): transpose of the band indices (no conjugation)
def PAIRSUM := 13 -- trace_ln: [ik, inn1].sum(0)[inn2].sum(0)
def BDIFF := 14  -- V_m - V_n  of a band-diagonal quantity
def BAVG := 15   -- (V_m + V_n)/2
-- energy masks
def DEINV := 1   -- 1/(E_m - E_n), 0 on (near-)degenerate pairs
def EAV := 2     -- (E_m + E_n)/2
def EDIFF := 3   -- E_m - E_n
def KRON := 4    -- 1 on pairs closer than degen_thresh, else 0
def NKRON := 5   -- 0 on pairs closer than degen_thresh, else 1
def PVAL := 6    -- dE/(dE^2 + eta^2)
def EFUN := 7    -- any other real function of the band energies (used by the translator)

open PExpr

abbrev c (q : Rat) : PExpr := .const q
/-- rational constant p/q (used by the translator: cheap to elaborate) -/
def cq (p : Int) (q : Nat) : PExpr := .const (mkRat p q)

def derivN : Nat → PExpr → PExpr
  | 0, x => x
  | n + 1, x => .deriv (derivN n x)

/-- how Data_K_R builds the Wannier-gauge matrix of each name -/
def wannExpr : Name → PExpr
  | .rotAA => lin EPS (deriv (wann .AA))                          -- rotAA(): derivative(AA)[beta,alpha]-[alpha,beta]
  | .rotAAab => (c (1/2) * I) * lin EPS (lin EPS (deriv (wann .AA)))  -- ∓0.5j * rotAA scattered to [alpha,beta]/[beta,alpha]
  | .CCab_antisym => (c (1/2) * I) * lin EPS (wann .CC)           -- ∓0.5j * CC
  | n => wann n

/-- `Data_K.Xbar(name, der)` = U† (∂^der X^W) U -/
def bar (n : Name) (der : Nat) : PExpr := dagger U * derivN der (wannExpr n) * U

/-- parity of `Xbar(name, der)` according to the calculus -/
def barGrade (n : Name) (der : Nat) : Grade := grade (bar n der)

/-! ## a Formula_ln object: the two blocks the code implements (`nl`, `ll` are obtained by swapping inn/out) -/
structure F where
  nn : PExpr
  ln : PExpr

def F.nl (f : F) : PExpr := lin SWAP f.ln
def F.ll (f : F) : PExpr := lin SWAP f.nn
/-- `Formula_ln.trace` = einsum("nn...->...", nn).real -/
def F.trace (f : F) : PExpr := re (lin TRACE f.nn)

def matrixLn (x : PExpr) : F := ⟨lin NN x, lin LN x⟩
def noLn : PExpr := zero     -- `raise NotImplementedError()` : never evaluated

/-- `Data_K.D_H = -Xbar('Ham',1) * dEig_inv`;  `Dcov` exposes only `ln` -/
def DH : PExpr := neg (emask DEINV (bar .Ham 1))
def Dcov : F := ⟨zero, lin LN DH⟩

/-- `Matrix_GenDer_ln(A, dA, D)` -/
def genDer (A dA : F) : F :=
  ⟨dA.nn - Dcov.nl * A.ln + A.nl * Dcov.ln,
   dA.ln - Dcov.ln * A.nn + A.ll * Dcov.ln⟩

/-- `Data_K.V_covariant`: matrix = Xbar('Ham',1), ln() = zeros -/
def Vcov : F := ⟨lin NN (bar .Ham 1), zero⟩

/-- `Data_K.covariant(name, commader, gender)` -/
def cov (n : Name) (commader : Nat) (gender : Bool) : F :=
  if gender then
    (if n = .Ham then Vcov else genDer (matrixLn (bar n 0)) (matrixLn (bar n 1)))
  else matrixLn (bar n commader)

/-! ### elementary.py -/
def Eavln : F := matrixLn (emask EAV (c 1))      -- 0.5 (E_m + E_n): a real function of the energies
def DEinv : F := ⟨zero, lin LN (emask DEINV (c 1))⟩
def InvMass : F := genDer (cov .Ham 1 false) (cov .Ham 2 false)
def DerWln : F := genDer (cov .Ham 2 false) (cov .Ham 3 false)

def DerDcov : F :=
  let W := cov .Ham 2 false
  let V := cov .Ham 1 true
  let t1 := V.ll * Dcov.ln
  let t2 := neg (Dcov.ln * V.nn)
  ⟨zero, hmul (neg DEinv.ln) (W.ln + (t1 + lin AX t1) + (t2 + lin AX t2))⟩

def Der2Dcov : F :=
  let dD := DerDcov
  let WV := DerWln
  let dV := InvMass
  let V := cov .Ham 1 false
  let D := Dcov
  let s := WV.ln + dV.ll * D.ln + dV.ll * D.ln + V.ll * dD.ln + V.ll * dD.ln + V.ll * dD.ln
    + neg (dD.ln * V.nn) + neg (dD.ln * V.nn) + neg (dD.ln * V.nn) + neg (D.ln * dV.nn) + neg (D.ln * dV.nn)
  ⟨zero, hmul (neg DEinv.ln) s⟩

/-! ### variants (kwargs of the formula constructors, as read back from the instantiated object) -/
inductive OOKey | rotAA | OO deriving DecidableEq, Repr
inductive FFKey | FF | rotAAab deriving DecidableEq, Repr
inductive CCKey | CCab | CCab_antisym deriving DecidableEq, Repr
inductive SCT | simple | qiao | ryoo deriving DecidableEq, Repr

structure Var where
  int : Bool := true          -- internal_terms
  ext : Bool := true          -- external_terms
  oo : OOKey := .rotAA        -- key_OO
  ff : FFKey := .FF           -- key_FF
  cc : CCKey := .CCab         -- key_CCab
  sign : Int := 1             -- Morb_Hpm / DerMorb / Der2Morb / tildeHG*
  sct : SCT := .ryoo          -- spin_current_type / SHC_type
  sym : Bool := true          -- SDCT
  m1 : Bool := true
  e2 : Bool := true
  vt : Bool := true
  st : Bool := false
  name : Name := .Ham         -- for the Matrix_ln objects returned by Data_K.covariant
  der : Nat := 0
  gender : Bool := false
  sel : Bool := false         -- shc_abc given
deriving Repr

def ooName : OOKey → Name | .rotAA => .rotAA | .OO => .OO
def ffName : FFKey → Name | .FF => .FF | .rotAAab => .rotAAab
def ccName : CCKey → Name | .CCab => .CCab | .CCab_antisym => .CCab_antisym

def when (b : Bool) (x : PExpr) : PExpr := if b then x else zero
def al (x : PExpr) : PExpr := lin ALPHA x
def be (x : PExpr) : PExpr := lin BETA x
/-- `summ += summ.swapaxes(0,1).conj()` -/
def plusDagger (x : PExpr) : PExpr := x + dagger x
/-- `(x + x.swapaxes(0,1).conj()) / 2` -/
def hermPart (x : PExpr) : PExpr := c (1/2) * (x + dagger x)

/-! ### covariant.py -/

def Identity : F := ⟨c 1, zero⟩

/-- Der2A / Der2B / Der2O / Der2H / Der2Spin: second generalised derivative of a covariant matrix -/
def Der2X (n : Name) : F :=
  let dD := DerDcov
  let D := Dcov
  let X := cov n 0 false
  let dX := cov n 0 true
  let Xbar_de := genDer (cov n 1 false) (cov n 2 false)
  ⟨Xbar_de.nn - dD.nl * X.ln - D.nl * dX.ln + X.nl * dD.ln + dX.nl * D.ln,
   Xbar_de.ln - dD.ln * X.nn - D.ln * dX.nn + X.ll * dD.ln + dX.ll * D.ln⟩

def Der3E : F :=
  let V := cov .Ham 1 false
  let D := Dcov
  let dV := InvMass
  let dD := DerDcov
  let dW := DerWln
  ⟨zero + c 1 * dW.nn + c 1 * (dV.nl * D.ln) + c 1 * (V.nl * dD.ln) + c (-1) * (dD.nl * V.ln) + c (-1) * (D.nl * dV.ln),
   noLn⟩

def Omega (v : Var) : F :=
  let D := Dcov
  let A := cov .AA 0 false
  let O := cov (ooName v.oo) 0 false
  let s := zero
    + when v.int ((c (-1) * I) * (al D.nl * be D.ln))
    + when v.ext (c (1/2) * O.nn + c (-1) * (al D.nl * be A.ln) + c 1 * (be D.nl * al A.ln)
                  + (c (-1) * I) * (al A.nn * be A.nn))
  ⟨plusDagger s, noLn⟩

def DerOmega (v : Var) : F :=
  let dD := DerDcov
  let D := Dcov
  let A := cov .AA 0 false
  let dA := cov .AA 0 true
  let dO := cov (ooName v.oo) 0 true
  let loop (s : Rat) (a b : PExpr → PExpr) : PExpr :=
    when v.int ((c (-s) * I) * (a D.nl * b dD.ln))
    + when v.ext (c (-s) * (a D.nl * b dA.ln) + c (-s) * (a dD.nl * b A.ln) + (c (-s) * I) * (a A.nn * b dA.nn))
  let s := zero + when v.ext (c (1/2) * dO.nn) + loop 1 al be + loop (-1) be al
  ⟨plusDagger s, noLn⟩

def Der2Omega (v : Var) : F :=
  let ddD := Der2Dcov
  let dD := DerDcov
  let D := Dcov
  let A := cov .AA 0 false
  let dA := cov .AA 0 true
  let ddA := Der2X .AA
  let ddO := Der2X .rotAA          -- Der2O(data_K) with its default key_OO='rotAA'
  let loop (s : Rat) (a b : PExpr → PExpr) : PExpr :=
    when v.int ((c (-s) * I) * (a dD.nl * b dD.ln) + (c (-s) * I) * (a D.nl * b ddD.ln))
    + when v.ext (c (-s) * (a dD.nl * b dA.ln) + c (-s) * (a D.nl * b ddA.ln) + c (-s) * (a ddD.nl * b A.ln)
                  + c (-s) * (a dD.nl * b dA.ln) + (c (-s) * I) * (a dA.nn * b dA.nn) + (c (-s) * I) * (a A.nn * b ddA.nn))
  let s := zero + when v.ext (c (1/2) * ddO.nn) + loop 1 al be + loop (-1) be al
  ⟨plusDagger s, noLn⟩

def Hamiltonian : F := cov .Ham 0 false

/-- `Velocity(data_K, external_terms)`: covariant('Ham', gender=1) [+ 1j * Xbar('AA') * (E_m - E_n)] -/
def Velocity (v : Var) : F :=
  let m := bar .Ham 1 + when v.ext (I * emask EDIFF (bar .AA 0))
  ⟨lin NN m, zero⟩

def Spin : F := cov .SS 0 false
def DerSpin : F := cov .SS 0 true
def Der2Spin : F := ⟨(Der2X .SS).nn, noLn⟩

def Morb_H (v : Var) : F :=
  let A := cov .AA 0 false
  let B := cov .BB 0 false
  let C := cov .CC 0 false
  let D := Dcov
  let s := zero
    + when v.int ((c (-1) * I) * ((al D.nl * E) * be D.ln))
    + when v.ext (c (1/2) * C.nn + c (-1) * (al D.nl * be B.ln) + c 1 * (be D.nl * al B.ln)
                  + (c (-1) * I) * ((al A.nn * E) * be A.nn))
  ⟨plusDagger s, noLn⟩

def Morb_Hpm (v : Var) : F :=
  let H := Morb_H v
  let O := Omega v
  ⟨H.nn + (if v.sign = 0 then zero else c v.sign * hmul Eavln.nn O.nn), noLn⟩

def DerMorb_H (v : Var) : F :=
  let dD := DerDcov
  let D := Dcov
  let V := cov .Ham 1 false
  let A := cov .AA 0 false
  let dA := cov .AA 0 true
  let B := cov .BB 0 false
  let dB := cov .BB 0 true
  let dH := cov .CC 0 true
  let s := zero
    + when v.int ((c (-2) * I) * (al D.nl * V.ll * be D.ln)
        + (c (-2) * I) * (al D.nl * (E * be dD.ln)) + (c 2 * I) * (be D.nl * (E * al dD.ln)))
    + when v.ext (c 1 * dH.nn + (c (-2) * I) * (al A.nn * V.nn * be A.nn)
        + (c (-2) * I) * ((al A.nn * E) * be dA.nn) + c (-2) * (al D.nl * be dB.ln) + c (-2) * (dagger (al B.ln) * be dD.ln)
        + (c 2 * I) * ((be A.nn * E) * al dA.nn) + c 2 * (be D.nl * al dB.ln) + c 2 * (dagger (be B.ln) * al dD.ln))
  ⟨hermPart s, noLn⟩

def DerMorb (v : Var) : F :=
  let H := DerMorb_H v
  let V := cov .Ham 1 false
  let dO := DerOmega v
  let O := Omega v
  let tmp := hmul Eavln.nn dO.nn + c (1/2) * (O.nn * V.nn) + c (1/2) * (V.nn * O.nn)
  ⟨H.nn + (if v.sign = 0 then zero else c v.sign * hermPart tmp), noLn⟩

def Der2Morb_H (v : Var) : F :=
  let ddD := Der2Dcov
  let dD := DerDcov
  let D := Dcov
  let dV := InvMass
  let V := cov .Ham 1 false
  let A := cov .AA 0 false
  let dA := cov .AA 0 true
  let ddA := Der2X .AA
  let B := cov .BB 0 false
  let dB := cov .BB 0 true
  let ddB := Der2X .BB
  let ddH := Der2X .CC
  let loopI (s : Rat) (a b : PExpr → PExpr) : PExpr :=
    (c (-s) * I) * (a dD.nl * V.ll * b D.ln) + (c (-s) * I) * (a D.nl * V.ll * b dD.ln)
    + (c (-2 * s) * I) * (a dD.nl * (E * b dD.ln)) + (c (-2 * s) * I) * (a D.nl * (E * b ddD.ln))
    + (c (-2 * s) * I) * (a D.nl * V.ll * b dD.ln)
  let loopE (s : Rat) (a b : PExpr → PExpr) : PExpr :=
    (c (-s) * I) * (a dA.nn * V.nn * b A.nn) + (c (-s) * I) * (a A.nn * V.nn * b dA.nn)
    + (c (-2 * s) * I) * ((a dA.nn * E) * b dA.nn) + (c (-2 * s) * I) * ((a A.nn * E) * b ddA.nn)
    + (c (-2 * s) * I) * (a A.nn * V.nn * b dA.nn)
    + c (-2 * s) * (a dD.nl * b dB.ln) + c (-2 * s) * (a D.nl * b ddB.ln)
    + c (-2 * s) * (dagger (a dB.ln) * b dD.ln) + c (-2 * s) * (dagger (a B.ln) * b ddD.ln)
  let s := zero
    + when v.int ((c (-2) * I) * (al D.nl * dV.ll * be D.ln) + loopI 1 al be + loopI (-1) be al)
    + when v.ext (c 1 * ddH.nn + (c (-2) * I) * (al A.nn * dV.nn * be A.nn) + loopE 1 al be + loopE (-1) be al)
  ⟨hermPart s, noLn⟩

def Der2Morb (v : Var) : F :=
  let H := Der2Morb_H v
  let V := cov .Ham 1 false
  let dV := InvMass
  let dO := DerOmega v
  let ddO := Der2Omega v
  let O := Omega v
  let tmp := hmul Eavln.nn ddO.nn
    + c (1/2) * (dO.nn * V.nn) + c (1/2) * (dO.nn * V.nn) + c (1/2) * (V.nn * dO.nn) + c (1/2) * (V.nn * dO.nn)
    + c (1/2) * (O.nn * dV.nn) + c (1/2) * (dV.nn * O.nn)
  ⟨H.nn + (if v.sign = 0 then zero else c v.sign * hermPart tmp), noLn⟩

/-- `SpinVelocity(data_K, spin_current_type, external_terms).matrix` -/
def SpinVelocityM (v : Var) : PExpr :=
  match v.sct with
  | .simple =>
    let S := bar .SS 0
    let V := bar .Ham 1 + when v.ext (I * emask EDIFF (bar .AA 0))
    hermPart (S * V)
  | .qiao =>
    let SS := bar .SS 0
    let SH := bar .SH 0
    let K := (c (-1) * I) * bar .SR 0 + SS * DH
    let L := (c (-1) * I) * bar .SHR 0 + SH * DH
    let delE := re (lin DIAG (bar .Ham 1))
    hermPart (SS * delE + K * E - L)
  | .ryoo =>
    let J := (c (-1) * I) * (bar .SA 0 * E - bar .SHA 0) + bar .SS 0 * bar .Ham 1
    hermPart J

def SpinVelocity (v : Var) : F := matrixLn (SpinVelocityM v)

def SpinOmega (v : Var) : F :=
  let A := cov .AA 0 false
  let J := SpinVelocity v
  let v_over_de := Dcov.ln + when v.ext ((c (-1) * I) * A.ln)
  let j_over_de := hmul J.nl DEinv.nl
  ⟨zero + c (-2) * im (j_over_de * v_over_de), noLn⟩

/-- `FormulaProduct([f1, f2, ...])` -/
def prod : List F → F
  | [] => ⟨c 1, noLn⟩
  | [f] => ⟨f.nn, noLn⟩
  | f :: fs => ⟨f.nn * (prod fs).nn, noLn⟩

/-- `FormulaSum(list, sign, index)` -/
def fsum : List (Int × F) → F
  | [] => ⟨zero, noLn⟩
  | (s, f) :: rest => ⟨c s * lin AX f.nn + (fsum rest).nn, noLn⟩

def deltaProduct (f : F) : F := ⟨lin DELTA f.nn, noLn⟩

def Vel : F := cov .Ham 1 false     -- data_K.covariant('Ham', commader=1)

def VelOmega (v : Var) : F := prod [Vel, Omega v]
def VelHplus (v : Var) : F := prod [Vel, Morb_Hpm { v with sign := 1 }]
def VelSpin : F := prod [Vel, Spin]
def VelVel : F := prod [Vel, Vel]
def VelVelVel : F := prod [Vel, Vel, Vel]
def MassVel : F := prod [InvMass, Vel]
def MassMass : F := prod [InvMass, InvMass]
def VelMassVel : F := prod [Vel, InvMass, Vel]
def OmegaS (v : Var) : F := prod [Omega v, Spin]
def OmegaOmega (v : Var) : F := prod [Omega v, Omega v]
def OmegaHplus (v : Var) : F := prod [Omega v, Morb_Hpm { v with sign := 1 }]

def emcha_surf (v : Var) : F :=
  let formula1 := prod [InvMass, Omega v, Vel]
  let formula2 := prod [Vel, DerOmega v, Vel]
  let tmp := fsum [(1, formula2), (1, formula1)]
  fsum [(2, tmp), (-2, deltaProduct formula1), (-1, deltaProduct tmp), (1, deltaProduct formula2), (-1, formula2)]

def NLDrude_Z_spin : F :=
  fsum [(-1, prod [Der3E, Spin]), (1, prod [Der2Spin, Vel])]
def NLDrude_Z_orb_Hplus (v : Var) : F :=
  fsum [(-1, prod [Der3E, Morb_Hpm { v with sign := 1 }]), (1, prod [Der2Morb { v with sign := 1 }, Vel])]
def NLDrude_Z_orb_Omega (v : Var) : F :=
  fsum [(-1, prod [Der3E, Omega v]), (1, prod [Der2Omega v, Vel])]

/-! ### basic.py -/

def tildeFab (v : Var) : F :=
  let D := Dcov
  let A := cov .AA 0 false
  let Fm := cov (ffName v.ff) 0 false
  let s := zero + when v.int (neg (D.nl * D.ln))
    + when v.ext (Fm.nn + (c 2 * I) * (D.nl * A.ln) + c (-1) * (A.nn * A.nn))
  ⟨c (1/2) * (s + lin AX (dagger s)), noLn⟩

def tildeFab_d (v : Var) : F :=
  let dD := DerDcov
  let D := Dcov
  let A := cov .AA 0 false
  let dA := cov .AA 0 true
  let dF := cov (ffName v.ff) 0 true
  let s := zero + when v.int (c (-2) * (D.nl * dD.ln))
    + when v.ext (dF.nn + (c 2 * I) * (D.nl * dA.ln) + (c 2 * I) * (A.nl * dD.ln) + c (-2) * (A.nn * dA.nn))
  ⟨c (1/2) * (s + lin AX (dagger s)), noLn⟩

def tildeHab (v : Var) : F :=
  let A := cov .AA 0 false
  let B := cov .BB 0 false
  let H := cov (ccName v.cc) 0 false
  let D := Dcov
  let s := zero + when v.int (neg ((D.nl * E) * D.ln))
    + when v.ext (H.nn + (c 2 * I) * (D.nl * B.ln) + neg ((A.nn * E) * A.nn))
  ⟨c (1/2) * (s + lin AX (dagger s)), noLn⟩

def tildeHGab (v : Var) : F :=
  ⟨(tildeHab v).nn + c v.sign * hmul Eavln.nn (tildeFab v).nn, noLn⟩

def tildeHab_d (v : Var) : F :=
  let dD := DerDcov
  let D := Dcov
  let V := cov .Ham 1 true
  let A := cov .AA 0 false
  let dA := cov .AA 0 true
  let B := cov .BB 0 false
  let dB := cov .BB 0 true
  let dH := cov (ccName v.cc) 0 true
  let s := zero
    + when v.int (c (-1) * (D.nl * V.ll * D.ln) + c (-2) * ((D.nl * E) * dD.ln))
    + when v.ext (dH.nn + neg (A.nn * V.nn * A.nn) + c (-2) * ((A.nn * E) * dA.nn)
                  + (c 2 * I) * (D.nl * dB.ln) + (c 2 * I) * (lin TRANSP (conjE B.ln) * dD.ln))
  ⟨c (1/2) * (s + lin AX (dagger s)), noLn⟩

def tildeHGab_d (v : Var) : F :=
  let Fm := tildeFab v
  let dF := tildeFab_d v
  let dH := tildeHab_d v
  let V := cov .Ham 1 true
  ⟨dH.nn + (if v.sign = 0 then zero else
      c v.sign * hmul Eavln.nn dF.nn + c (v.sign / 2) * (Fm.nn * V.nn) + c (v.sign / 2) * (V.nn * Fm.nn)), noLn⟩

/-- `FormulaAntiSymmetric`: 1j * (fab[alpha,beta] - fab[beta,alpha]) -/
def antiSym (f : F) : F := ⟨I * (al (be f.nn) - be (al f.nn)), I * (al (be f.ln) - be (al f.ln))⟩
/-- `FormulaSymmetric`: 0.5 * (fab + fab.swapaxes) -/
def symm (f : F) : F := ⟨c (1/2) * (f.nn + lin AX f.nn), c (1/2) * (f.ln + lin AX f.ln)⟩

def tildeFc (v : Var) : F := antiSym (tildeFab v)
def tildeHGc (v : Var) : F := antiSym (tildeHGab v)
def tildeFc_d (v : Var) : F := antiSym (tildeFab_d v)
def tildeHGc_d (v : Var) : F := antiSym (tildeHGab_d v)
def QuantumMetric_ab (v : Var) : F := symm (tildeFab v)
def DerQuantumMetric_ab_d (v : Var) : F := symm (tildeFab_d v)
def VelDQM (v : Var) : F := prod [Vel, DerQuantumMetric_ab_d v]

/-! ### dynamic.py / sdct.py  (`Formula` with `trace_ln(ik, inn1, inn2)`) and the SDCT part of data_K.py -/

def pairSum (x : PExpr) : PExpr := lin PAIRSUM x
def transp (x : PExpr) : PExpr := lin TRANSP x

/-- `get_A_H(external_terms)` = 1j * D_H [+ Xbar('AA')] -/
def A_H (ext : Bool) : PExpr := I * DH + when ext (bar .AA 0)
/-- `get_E1`: A_H with the (near-)degenerate pairs set to zero -/
def E1 (ext : Bool) : PExpr := emask NKRON (A_H ext)
/-- `delE_K` = diag(Xbar('Ham',1)).real -/
def delE : PExpr := re (lin DIAG (bar .Ham 1))

def Formula_dyn_ident : PExpr := c 1
def Formula_OptCond (v : Var) : PExpr := pairSum (I * hmul (A_H v.ext) (transp (A_H v.ext)))

def Formula_SHC (v : Var) : PExpr :=
  let A := SpinVelocityM v
  let B := (c (-1) * I) * A_H v.ext
  let x := im (hmul A (transp B))
  pairSum (if v.sel then lin SEL x else x)

def ShiftCurrentFormula (v : Var) : PExpr :=
  let V_H := bar .Ham 1
  let del2E := bar .Ham 2
  let dEinv (x : PExpr) := emask DEINV x        -- dEig_inv.swapaxes(2,1): still a real function of the energies
  let D_Pval := neg (emask PVAL V_H)
  let dg (x : PExpr) := lin DIAG x
  let sum_HD := V_H * D_Pval - hmul (dg V_H) D_Pval - D_Pval * V_H + hmul D_Pval (dg V_H)
  let DV_bit := hmul DH (dg V_H) - hmul DH (dg V_H) + hmul DH (dg V_H) - hmul DH (dg V_H)
  let A_Hbar := bar .AA 0
  let A_Hbar_der := bar .AA 1
  let sum_AD := A_Hbar * D_Pval - hmul (dg A_Hbar) D_Pval - D_Pval * A_Hbar + hmul D_Pval (dg A_Hbar)
  let AD_bit := hmul (dg A_Hbar) DH - hmul (dg A_Hbar) DH + hmul (dg A_Hbar) DH - hmul (dg A_Hbar) DH
  let AA_bit := hmul (dg A_Hbar) A_Hbar - hmul (dg A_Hbar) A_Hbar
  let A_gen_der := I * dEinv (del2E + sum_HD + DV_bit)
    + when v.ext (A_Hbar_der + AD_bit - I * AA_bit + sum_AD)
  let Imn := neg (im (hmul A_gen_der (transp (A_H v.ext))))
  pairSum (Imn + lin AX Imn)

def InjectionCurrentFormula (v : Var) : PExpr :=
  let A := A_H v.ext
  pairSum (hmul (hmul (lin BDIFF delE) A) (transp A))

/-- `get_O1` -/
def O1 (ext : Bool) (oo : OOKey) : PExpr :=
  let A_int := E1 false
  let O_H := lin EPS (I * (A_int * A_int))
  let O := bar (ooName oo) 0
  let A := bar .AA 0
  let Aa := emask KRON A
  let Ax := A - Aa
  let Obc_ext := (c (-1) * I) * (Aa * Aa) + (c (-1) * I) * (Ax * Aa) + (c (-1) * I) * (Aa * Ax)
  let Obc_cross := I * (Ax * A_int) + I * (A_int * Ax)
  O_H + when ext ((O + lin EPS Obc_ext) + lin EPS Obc_cross)

/-- `get_M1` (m_spin_prefactor is a real constant; its value does not matter for the grade) -/
def M1 (ext spin orb : Bool) (oo : OOKey) : PExpr :=
  let M := when spin (c (-1) * bar .SS 0)
  if !orb then M else
  let H := bar .Ham 0
  let A_int := E1 false
  let C_H := lin EPS (I * (A_int * H * A_int))
  let A := bar .AA 0
  let B := bar .BB 0
  let C := bar .CC 0
  let Aa := emask KRON A
  let Ax := A - Aa
  let Cbc_ext := (c (-1) * I) * emask EAV (Aa * Aa) + (c (-1) * I) * (E * Aa * Ax) + (c (-1) * I) * (Ax * Aa * E)
  let cr := A_int * B
  let Cbc_cross := I * (cr - dagger cr) + (c (-1) * I) * (E * Aa * A_int) + (c (-1) * I) * (A_int * Aa * E)
  let C_tot := C_H + when ext ((C + lin EPS Cbc_ext) + lin EPS Cbc_cross)
  M + c (-1/2) * (C_tot - emask EAV (O1 ext oo))

/-- `get_E2` -/
def E2 (ext : Bool) : PExpr :=
  let A_int := E1 false
  let sym (x : PExpr) := c (1/2) * (x + lin AX x)
  let G_int := sym (A_int * A_int)
  let A := bar .AA 0
  let G := bar .GG 0
  let Aa := emask KRON A
  let Ax := A - Aa
  let Gbc_ext := neg (Aa * Aa) + neg (Ax * Aa) + neg (Aa * Ax)
  let Gbc_cross := Ax * A_int + A_int * Ax
  c (-1) * (G_int + when ext ((G + sym Gbc_ext) + sym Gbc_cross))

/-- `get_Bln` -/
def Bln (ext spin orb V Q : Bool) (oo : OOKey) : PExpr :=
  zero
  + when (orb || spin) (lin EPS (M1 ext spin orb oo))
  + when V (hmul (lin BAVG delE) (E1 ext))
  + when Q ((c (-1/2) * I) * emask EDIFF (E2 ext))

/-- `Formula_SDCT.symsumm` on a two-band-index array: axes (3,4) = cartesian (a,b) -/
def symsumm (sym : Bool) (s : PExpr) : PExpr :=
  if sym then re (s + lin AX s) else neg (im (s - lin AX s))

def SDCT_sea_I (v : Var) : PExpr :=
  if !(v.m1 || v.e2 || v.vt || v.st) then zero else
  let A := E1 v.ext
  let B := Bln v.ext v.st v.m1 v.vt v.e2 v.oo
  pairSum (symsumm v.sym (hmul A (transp B)))

def SDCT_sea_II (v : Var) : PExpr :=
  if !v.vt then zero else
  let A := E1 v.ext
  pairSum (symsumm v.sym (zero - hmul (hmul A (transp A)) (lin BAVG delE)))

def SDCT_surf_I (v : Var) : PExpr :=
  let A := E1 v.ext
  let s := zero + when v.vt (hmul (hmul A (transp A)) delE)
  pairSum (if v.sym then re s else neg (im s))

/-- one band index: the array is (nk, nw, 3,3,3) and `swapaxes(3,4)` acts on the cartesian axes (b,c) -/
def SDCT_surf_II (v : Var) : PExpr :=
  if v.sym then
    lin PAIRSUM (zero + when v.vt (hmul (hmul delE delE) delE))
  else
    let B_M1 := Bln v.ext v.st v.m1 false false v.oo
    let s := zero + when (v.m1 || v.st) (hmul delE (lin DIAG B_M1))
    lin PAIRSUM (if v.m1 || v.st then s - lin AX s else s)

/-! ## the table of formula classes -/

inductive FName
  -- covariant.py
  | Identity | Der3E | Omega | DerOmega | Der2Omega | Hamiltonian | Velocity | Spin | DerSpin | Der2Spin
  | Morb_H | Morb_Hpm | morb | DerMorb_H | DerMorb | Dermorb | Der2Morb_H | Der2Morb | Der2morb
  | SpinVelocity | SpinOmega
  | VelOmega | VelHplus | VelSpin | VelVel | VelVelVel | MassVel | MassMass | VelMassVel
  | OmegaS | OmegaOmega | OmegaHplus | emcha_surf | NLDrude_Z_spin | NLDrude_Z_orb_Hplus | NLDrude_Z_orb_Omega
  | QuantumMetric_ab | DerQuantumMetric_ab_d | VelDQM
  -- basic.py
  | tildeHab | tildeHab_d | tildeFc | tildeHGc | tildeFc_d | tildeHGc_d | Der_morb
  -- elementary.py
  | Eavln | InvMass | DerWln
  -- data_K.py: objects returned by Data_K.covariant(name, commader, gender)
  | Covariant
  -- dynamic.py / sdct.py
  | Formula_dyn_ident | Formula_OptCond | Formula_SHC | ShiftCurrentFormula | InjectionCurrentFormula
  | Formula_SDCT_sea_I | Formula_SDCT_sea_II | Formula_SDCT_surf_I | Formula_SDCT_surf_II
deriving DecidableEq, Repr

/-- the observable of a formula: `trace(ik, inn, out)` for Formula_ln, `trace_ln(ik, inn1, inn2)` otherwise -/
def termOf (f : FName) (v : Var) : PExpr :=
  match f with
  | .Identity => Identity.trace
  | .Der3E => Der3E.trace
  | .Omega => (Omega v).trace
  | .DerOmega => (DerOmega v).trace
  | .Der2Omega => (Der2Omega v).trace
  | .Hamiltonian => Hamiltonian.trace
  | .Velocity => (Velocity v).trace
  | .Spin => Spin.trace
  | .DerSpin => DerSpin.trace
  | .Der2Spin => Der2Spin.trace
  | .Morb_H => (Morb_H v).trace
  | .Morb_Hpm => (Morb_Hpm v).trace
  | .morb => (Morb_Hpm { v with sign := -1 }).trace
  | .DerMorb_H => (DerMorb_H v).trace
  | .DerMorb => (DerMorb v).trace
  | .Dermorb => (DerMorb { v with sign := -1 }).trace
  | .Der2Morb_H => (Der2Morb_H v).trace
  | .Der2Morb => (Der2Morb v).trace
  | .Der2morb => (Der2Morb { v with sign := -1 }).trace
  | .SpinVelocity => (SpinVelocity v).trace
  | .SpinOmega => (SpinOmega v).trace
  | .VelOmega => (VelOmega v).trace
  | .VelHplus => (VelHplus v).trace
  | .VelSpin => VelSpin.trace
  | .VelVel => VelVel.trace
  | .VelVelVel => VelVelVel.trace
  | .MassVel => MassVel.trace
  | .MassMass => MassMass.trace
  | .VelMassVel => VelMassVel.trace
  | .OmegaS => (OmegaS v).trace
  | .OmegaOmega => (OmegaOmega v).trace
  | .OmegaHplus => (OmegaHplus v).trace
  | .emcha_surf => (emcha_surf v).trace
  | .NLDrude_Z_spin => NLDrude_Z_spin.trace
  | .NLDrude_Z_orb_Hplus => (NLDrude_Z_orb_Hplus v).trace
  | .NLDrude_Z_orb_Omega => (NLDrude_Z_orb_Omega v).trace
  | .QuantumMetric_ab => (QuantumMetric_ab v).trace
  | .DerQuantumMetric_ab_d => (DerQuantumMetric_ab_d v).trace
  | .VelDQM => (VelDQM v).trace
  | .tildeHab => (tildeHab v).trace
  | .tildeHab_d => (tildeHab_d v).trace
  | .tildeFc => (tildeFc v).trace
  | .tildeHGc => (tildeHGc v).trace
  | .tildeFc_d => (tildeFc_d v).trace
  | .tildeHGc_d => (tildeHGc_d v).trace
  | .Der_morb => (tildeHGc_d { v with sign := -1 }).trace
  | .Eavln => Eavln.trace
  | .InvMass => InvMass.trace
  | .DerWln => DerWln.trace
  | .Covariant => (cov v.name v.der v.gender).trace
  | .Formula_dyn_ident => Formula_dyn_ident
  | .Formula_OptCond => Formula_OptCond v
  | .Formula_SHC => Formula_SHC v
  | .ShiftCurrentFormula => ShiftCurrentFormula v
  | .InjectionCurrentFormula => InjectionCurrentFormula v
  | .Formula_SDCT_sea_I => SDCT_sea_I v
  | .Formula_SDCT_sea_II => SDCT_sea_II v
  | .Formula_SDCT_surf_I => SDCT_surf_I v
  | .Formula_SDCT_surf_II => SDCT_surf_II v

/-! ## declared transforms and their validation -/

/-- `Transform(factor, conj, transpose_axes)` as read from the live object (`odd` = factor -1) -/
structure Decl where
  odd : Bool
  conj : Bool
  transpose : Option (List Nat)
deriving DecidableEq, Repr

/-- a structural symmetry of an observable x under a permutation τ of its cartesian axes:
    τ x = (-1)^neg · conj^withConj x.   Each entry of `tauFacts` is backed by a theorem in `WB/Props/C08.lean`. -/
structure TauFact where
  perm : List Nat
  neg : Bool
  withConj : Bool
deriving DecidableEq, Repr

/-- facts used for the formulas whose declared transform permutes axes -/
def tauFacts (f : FName) (v : Var) : List TauFact :=
  match f with
  | .Formula_OptCond => [⟨[1, 0], true, true⟩]              -- conj(i p_a conj(p_b)) = -(i p_b conj(p_a))   `optcond_tau`
  | .InjectionCurrentFormula => [⟨[0, 2, 1], false, true⟩]  -- conj(v_a p_b conj(p_c)) = v_a p_c conj(p_b)    `injection_tau`
  | .Formula_SDCT_sea_I => [⟨[1, 0, 2], !v.sym, false⟩]     -- Re(S+τS) symmetric, -Im(S-τS) antisymmetric   `symsumm_tau`
  | .Formula_SDCT_sea_II => [⟨[1, 0, 2], !v.sym, false⟩]
  | .Formula_SDCT_surf_I => [⟨[1, 0, 2], !v.sym, false⟩]    -- S_ab = p_a conj(p_b) v : τS = conj S           `surfI_tau`
  | .Formula_SDCT_surf_II => if v.sym then [⟨[1, 0, 2], false, false⟩] else []   -- v_a v_b v_c                `surfII_sym_tau`
  | _ => []

/-- is the declared transform `d` what the calculus predicts for an observable with
    `rev x = (-1)^s conj x` (TR) ?   `real`: conj x = x is known -/
def declOK_TR (s : Bool) (real : Bool) (facts : List TauFact) (d : Decl) : Bool :=
  match d.transpose with
  | none => (d.odd == s) && (d.conj || real)
  | some p => facts.any fun t =>
      t.perm == p && (xor d.odd t.neg == s) && (xor d.conj t.withConj || real)

/-- same for inversion: `rev x = (-1)^s x` -/
def declOK_Inv (s : Bool) (real : Bool) (facts : List TauFact) (d : Decl) : Bool :=
  match d.transpose with
  | none => (d.odd == s) && (!d.conj || real)
  | some p => facts.any fun t =>
      t.perm == p && (xor d.odd t.neg == s) && (!(xor d.conj t.withConj) || real)

structure Row where
  f : FName
  v : Var
  tr : Decl
  inv : Decl
deriving Repr

/-- the check of one row against an ARBITRARY structure term `e` (the hand-written `termOf r.f r.v`, or the term the
    translator produced from the live source of the class) -/
def checkRowTerm (e : PExpr) (r : Row) : Bool :=
  match grade e with
  | .bad => false
  | .zero => true            -- the observable vanishes identically for this variant: every declaration holds
  | .val t i =>
    declOK_TR t (isReal e) (tauFacts r.f r.v) r.tr && declOK_Inv i (isReal e) (tauFacts r.f r.v) r.inv

def checkRow (r : Row) : Bool := checkRowTerm (termOf r.f r.v) r

def checkTable (t : List Row) : Bool := t.all checkRow

/-- `checkRowTerm` only looks at the grade and the realness of the term -/
theorem checkRowTerm_congr (e h : PExpr) (r : Row) (hg : grade e = grade h) (hr : isReal e = isReal h) :
    checkRowTerm e r = checkRowTerm h r := by
  unfold checkRowTerm
  rw [hg, hr]

/-- One line of the table of a run: the row (class, variant, declared transforms), the term TRANSLATED from the live
    Python source of the class, and a flag telling whether the declarations of this row are to be checked
    (false only for the rows of the registered known findings).
    `checkAll`: the translated term has the same grade and realness as the hand-written term of the class, and (if
    flagged) the declared transforms are what the calculus predicts for the translated term. -/
def checkLine (p : Row × PExpr × Bool) : Bool :=
  let e := p.2.1
  let h := termOf p.1.f p.1.v
  decide (grade e = grade h) && (isReal e == isReal h) && (!p.2.2 || checkRowTerm e p.1)

def checkAll (t : List (Row × PExpr × Bool)) : Bool := t.all checkLine

theorem checkLine_spec (p : Row × PExpr × Bool) (h : checkLine p = true) :
    grade p.2.1 = grade (termOf p.1.f p.1.v) ∧ isReal p.2.1 = isReal (termOf p.1.f p.1.v) ∧
    (p.2.2 = true → checkRowTerm p.2.1 p.1 = true ∧ checkRow p.1 = true) := by
  unfold checkLine at h
  simp only [Bool.and_eq_true, decide_eq_true_eq, beq_iff_eq, Bool.or_eq_true, Bool.not_eq_true'] at h
  obtain ⟨⟨hg, hr⟩, hc⟩ := h
  refine ⟨hg, hr, ?_⟩
  intro hf
  have hc' : checkRowTerm p.2.1 p.1 = true := by
    rcases hc with hc | hc
    · rw [hf] at hc; exact absurd hc (by decide)
    · exact hc
  refine ⟨hc', ?_⟩
  unfold checkRow
  rw [← checkRowTerm_congr p.2.1 _ p.1 hg hr]
  exact hc'

/-- a table accepted by `checkAll`: every flagged row passes both with the translated and with the hand-written term -/
theorem checkAll_spec (t : List (Row × PExpr × Bool)) (h : checkAll t = true) (p : Row × PExpr × Bool) (hp : p ∈ t) :
    grade p.2.1 = grade (termOf p.1.f p.1.v) ∧ isReal p.2.1 = isReal (termOf p.1.f p.1.v) ∧
    (p.2.2 = true → checkRowTerm p.2.1 p.1 = true ∧ checkRow p.1 = true) :=
  checkLine_spec p ((List.all_eq_true.mp h) p hp)

/-- one line of the `(name, der) → transform` map of `get_transform_TR / get_transform_Inv`
    (`none` = the function returns None: gauge non-covariant matrix, nothing declared) -/
structure ParRow where
  name : Name
  der : Nat
  tr : Option Decl
  inv : Option Decl
deriving Repr

def plainDecl (odd : Bool) : Decl := ⟨odd, false, none⟩

/-- the declared transform must be the plain ± predicted by the rule `parity(Xbar(name, der)) = base(name) + der` -/
def checkParRow (r : ParRow) : Bool :=
  match barGrade r.name r.der with
  | .val t i => (match r.tr with | none => true | some d => d == plainDecl t)
             && (match r.inv with | none => true | some d => d == plainDecl i)
  | _ => false

def checkParity (t : List ParRow) : Bool := t.all checkParRow

/-! ## driver -/
open WB.IO

def parseName? : String → Option Name
  | "Ham" => some .Ham | "AA" => some .AA | "BB" => some .BB | "CC" => some .CC | "CCab" => some .CCab
  | "FF" => some .FF | "GG" => some .GG | "OO" => some .OO | "SS" => some .SS | "SH" => some .SH
  | "SA" => some .SA | "SHA" => some .SHA | "SR" => some .SR | "SHR" => some .SHR
  | "rotAA" => some .rotAA | "rotAAab" => some .rotAAab | "CCab_antisym" => some .CCab_antisym
  | _ => none

def parseFName? : String → Option FName
  | "Identity" => some .Identity | "Der3E" => some .Der3E | "Omega" => some .Omega | "DerOmega" => some .DerOmega
  | "Der2Omega" => some .Der2Omega | "Hamiltonian" => some .Hamiltonian | "Velocity" => some .Velocity
  | "Spin" => some .Spin | "DerSpin" => some .DerSpin | "Der2Spin" => some .Der2Spin | "Morb_H" => some .Morb_H
  | "Morb_Hpm" => some .Morb_Hpm | "morb" => some .morb | "DerMorb_H" => some .DerMorb_H | "DerMorb" => some .DerMorb
  | "Dermorb" => some .Dermorb | "Der2Morb_H" => some .Der2Morb_H | "Der2Morb" => some .Der2Morb
  | "Der2morb" => some .Der2morb | "SpinVelocity" => some .SpinVelocity | "SpinOmega" => some .SpinOmega
  | "VelOmega" => some .VelOmega | "VelHplus" => some .VelHplus | "VelSpin" => some .VelSpin | "VelVel" => some .VelVel
  | "VelVelVel" => some .VelVelVel | "MassVel" => some .MassVel | "MassMass" => some .MassMass
  | "VelMassVel" => some .VelMassVel | "OmegaS" => some .OmegaS | "OmegaOmega" => some .OmegaOmega
  | "OmegaHplus" => some .OmegaHplus | "emcha_surf" => some .emcha_surf | "NLDrude_Z_spin" => some .NLDrude_Z_spin
  | "NLDrude_Z_orb_Hplus" => some .NLDrude_Z_orb_Hplus | "NLDrude_Z_orb_Omega" => some .NLDrude_Z_orb_Omega
  | "QuantumMetric_ab" => some .QuantumMetric_ab | "DerQuantumMetric_ab_d" => some .DerQuantumMetric_ab_d
  | "VelDQM" => some .VelDQM | "tildeHab" => some .tildeHab | "tildeHab_d" => some .tildeHab_d
  | "tildeFc" => some .tildeFc | "tildeHGc" => some .tildeHGc | "tildeFc_d" => some .tildeFc_d
  | "tildeHGc_d" => some .tildeHGc_d | "Der_morb" => some .Der_morb | "Eavln" => some .Eavln
  | "InvMass" => some .InvMass | "DerWln" => some .DerWln | "Covariant" => some .Covariant
  | "Formula_dyn_ident" => some .Formula_dyn_ident | "Formula_OptCond" => some .Formula_OptCond
  | "Formula_SHC" => some .Formula_SHC | "ShiftCurrentFormula" => some .ShiftCurrentFormula
  | "InjectionCurrentFormula" => some .InjectionCurrentFormula | "Formula_SDCT_sea_I" => some .Formula_SDCT_sea_I
  | "Formula_SDCT_sea_II" => some .Formula_SDCT_sea_II | "Formula_SDCT_surf_I" => some .Formula_SDCT_surf_I
  | "Formula_SDCT_surf_II" => some .Formula_SDCT_surf_II
  | _ => none

/-- variant token: `key=value` pairs separated by commas, e.g. `int=1,ext=0,oo=OO,sign=-1`; `_` = defaults -/
def setVar (v : Var) (kv : String) : Option Var :=
  match kv.splitOn "=" with
  | ["int", b] => (parseBool? b).map fun x => { v with int := x }
  | ["ext", b] => (parseBool? b).map fun x => { v with ext := x }
  | ["oo", "rotAA"] => some { v with oo := .rotAA }
  | ["oo", "OO"] => some { v with oo := .OO }
  | ["ff", "FF"] => some { v with ff := .FF }
  | ["ff", "rotAAab"] => some { v with ff := .rotAAab }
  | ["cc", "CCab"] => some { v with cc := .CCab }
  | ["cc", "CCab_antisym"] => some { v with cc := .CCab_antisym }
  | ["sign", s] => (parseInt? s).map fun x => { v with sign := x }
  | ["sct", "simple"] => some { v with sct := .simple }
  | ["sct", "qiao"] => some { v with sct := .qiao }
  | ["sct", "ryoo"] => some { v with sct := .ryoo }
  | ["sym", b] => (parseBool? b).map fun x => { v with sym := x }
  | ["m1", b] => (parseBool? b).map fun x => { v with m1 := x }
  | ["e2", b] => (parseBool? b).map fun x => { v with e2 := x }
  | ["vt", b] => (parseBool? b).map fun x => { v with vt := x }
  | ["st", b] => (parseBool? b).map fun x => { v with st := x }
  | ["name", n] => (parseName? n).map fun x => { v with name := x }
  | ["der", d] => (parseNat? d).map fun x => { v with der := x }
  | ["gender", b] => (parseBool? b).map fun x => { v with gender := x }
  | ["sel", b] => (parseBool? b).map fun x => { v with sel := x }
  | _ => none

def parseVar? (s : String) : Option Var :=
  if s = "_" then some {} else (s.splitOn ",").foldlM setVar {}

def showGrade : Grade → String
  | .bad => "bad"
  | .zero => "zero"
  | .val t i => (if t then "odd" else "even") ++ " " ++ (if i then "odd" else "even")

def handle : List String → String
  | ["grade", f, v] =>
    match parseFName? f, parseVar? v with
    | some f, some v => showGrade (grade (termOf f v)) ++ " " ++ showBool (isReal (termOf f v))
    | _, _ => "bad-op"
  | ["bar", n, d] =>
    match parseName? n, parseNat? d with
    | some n, some d => showGrade (barGrade n d)
    | _, _ => "bad-op"
  | _ => "bad-op"

end WB.C08
