/-
  C01 — q → R → k round trip with Wigner-Seitz / MDRS replica selection.   Core Lean only.

  Models of  wannierberri/fourier/rvectors.py :
    WignerSeitz.__init__/__call__     → `gridPoints`, `superCells`, `candidates`, `wsClass`, `wsSelect`
    Rvectors.set_Rvec                 → `numDigits`, `roundDec`, `shiftOf`, `uniqueShifts`, `shiftIndex`, `selList`, `selOf`, `iRvecOf`
    get_remapper_XX_from_grid_to_list_R → `weightOf`, `remapOf`
    set_fft_q_to_R                    → `placeK`
    q_to_R / remap_XX_from_grid_to_list_R → `place`, `qToR`      (FFT = parameter `F`)
    explicit interpolation Σ_R χ(R) X(R) → `RtoK`

  The lattice enters only through its Gram matrix `G = L Lᵀ` (rational also for hexagonal lattices);
  squared distances are exact rationals, and the tolerance test of the code
        |‖R+s‖ − dmin| < tol
  is decided exactly in ℚ by `withinTol` (see `WB/Lemmas/C01Sqrt.lean` for the proof that it is that test).

  Scalars of the Fourier part are an arbitrary type `K` with notation classes only, so that the same
  definitions are executed at `GRat` (Gaussian rationals: meshes whose sizes divide 4) and proved for any field.
-/
import WB.Model.IO
namespace WB.C01

abbrev Vec3 := Int × Int × Int
abbrev QVec3 := Rat × Rat × Rat
abbrev Mesh := Nat × Nat × Nat

def vadd (a b : Vec3) : Vec3 := (a.1 + b.1, a.2.1 + b.2.1, a.2.2 + b.2.2)
def vneg (a : Vec3) : Vec3 := (-a.1, -a.2.1, -a.2.2)
/-- component-wise product with the mesh sizes: `ijk * mp_grid` -/
def vscale (t : Vec3) (mp : Mesh) : Vec3 := (t.1 * mp.1, t.2.1 * mp.2.1, t.2.2 * mp.2.2)
/-- numpy `R % mp_grid` (floor-mod; equals Lean's Euclidean `%` for the positive mesh sizes) -/
def vmod (R : Vec3) (mp : Mesh) : Vec3 := (R.1 % (mp.1 : Int), R.2.1 % (mp.2.1 : Int), R.2.2 % (mp.2.2 : Int))

/-- Gram matrix `L Lᵀ` of the real lattice (rows = lattice vectors), upper triangle -/
structure Gram where
  g11 : Rat
  g12 : Rat
  g13 : Rat
  g22 : Rat
  g23 : Rat
  g33 : Rat

/-- squared Cartesian length of the reduced vector `v` -/
def quad (G : Gram) (v : QVec3) : Rat :=
  G.g11 * v.1 * v.1 + G.g22 * v.2.1 * v.2.1 + G.g33 * v.2.2 * v.2.2
    + 2 * (G.g12 * v.1 * v.2.1 + G.g13 * v.1 * v.2.2 + G.g23 * v.2.1 * v.2.2)

/-- `‖(R + shift)·L‖²` -/
def dist2 (G : Gram) (s : QVec3) (R : Vec3) : Rat :=
  quad G ((R.1 : Rat) + s.1, (R.2.1 : Rat) + s.2.1, (R.2.2 : Rat) + s.2.2)

/-! ### WignerSeitz -/

/-- `iterate_nd(mp_grid)` : grid points `(i,j,k)`, `k` fastest -/
def gridPoints (mp : Mesh) : List Vec3 :=
  (List.range mp.1).flatMap fun (i : Nat) => (List.range mp.2.1).flatMap fun (j : Nat) =>
    (List.range mp.2.2).map fun (k : Nat) => ((i : Int), (j : Int), (k : Int))

/-- `range(-n, n+1)` -/
def pm (n : Nat) : List Int := (List.range (2 * n + 1)).map fun (i : Nat) => (i : Int) - (n : Int)

/-- `iterate3dpm(ws_search_size)` -/
def superCells (ws : Nat) : List Vec3 :=
  (pm ws).flatMap fun i => (pm ws).flatMap fun j => (pm ws).map fun k => (i, j, k)

/-- the replicas of grid point `c` that are searched: `iRvec0[i] + ijk * mp_grid` -/
def candidates (ws : Nat) (mp : Mesh) (c : Vec3) : List Vec3 :=
  (superCells ws).map fun t => vadd c (vscale t mp)

def minList (q0 : Rat) (l : List Rat) : Rat := l.foldl (fun m x => if x < m then x else m) q0

/-- `abs(dist - dist_min) < tol` for `dist = √q ≥ dist_min = √qmin`, decided in ℚ:
    `√q < √qmin + tol  ⇔  q - qmin - tol² < 2·tol·√qmin` -/
def withinTol (tol q qmin : Rat) : Bool :=
  let d := q - qmin - tol * tol
  decide (d < 0) || decide (d * d < 4 * tol * tol * qmin)

/-- the selected replicas of one grid point with their degeneracy `Ndegen = len(select)` -/
def wsClass (ws : Nat) (G : Gram) (mp : Mesh) (tol : Rat) (s : QVec3) (c : Vec3) : List (Vec3 × Nat) :=
  let cands := candidates ws mp c
  let qs := cands.map (dist2 G s)
  let qmin := minList (dist2 G s c) qs
  let sel := cands.filter fun R => withinTol tol (dist2 G s R) qmin
  sel.map fun R => (R, sel.length)

/-- `WignerSeitz.__call__(shift)` : `zip(iRvec, Ndegen)` in the order of the code -/
def wsSelect (ws : Nat) (G : Gram) (mp : Mesh) (tol : Rat) (s : QVec3) : List (Vec3 × Nat) :=
  (gridPoints mp).flatMap (wsClass ws G mp tol s)

/-! ### set_Rvec : shift classes -/

def absRat (x : Rat) : Rat := if x < 0 then -x else x

/-- `int(np.ceil(-np.log10(tol))) + 1` for `0 < tol < 10`; 8 for the legacy negative tolerance -/
def numDigits (tol : Rat) : Nat :=
  if tol > 0 then
    (((List.range 40).find? fun m => decide (tol * (10 : Rat) ^ m ≥ 1)).getD 40) + 1
  else 8

/-- numpy `rint` : round half to even -/
def roundHalfEven (x : Rat) : Int :=
  let f := x.floor
  let r := x - (f : Rat)
  if r < 1 / 2 then f else if r > 1 / 2 then f + 1 else if f % 2 = 0 then f else f + 1

/-- `np.round(x, nd)` -/
def roundDec (nd : Nat) (x : Rat) : Rat := (roundHalfEven (x * (10 : Rat) ^ nd) : Rat) / (10 : Rat) ^ nd

def centre (cs : List QVec3) (a : Nat) : QVec3 := cs.getD a (0, 0, 0)

/-- rounded shift of the pair (a,b): `round(-left[a] + right[b], nd)` -/
def shiftOf (nd : Nat) (cs : List QVec3) (a b : Nat) : QVec3 :=
  let ca := centre cs a
  let cb := centre cs b
  (roundDec nd (-ca.1 + cb.1), roundDec nd (-ca.2.1 + cb.2.1), roundDec nd (-ca.2.2 + cb.2.2))

def qlt (x y : QVec3) : Bool :=
  decide (x.1 < y.1) || (decide (x.1 = y.1) && (decide (x.2.1 < y.2.1) || (decide (x.2.1 = y.2.1) && decide (x.2.2 < y.2.2))))
def qle (x y : QVec3) : Bool := !qlt y x

/-- insert into a duplicate-free list -/
def insertNew {α} [DecidableEq α] (x : α) (acc : List α) : List α := if x ∈ acc then acc else x :: acc
def dedup {α} [DecidableEq α] (l : List α) : List α := l.foldr insertNew []

def allPairs (n : Nat) : List (Nat × Nat) := (List.range n).flatMap fun a => (List.range n).map fun b => (a, b)

/-- `np.unique(..., axis=0)` : distinct rounded shifts in lexicographic order -/
def uniqueShifts (nd : Nat) (cs : List QVec3) : List QVec3 :=
  (dedup ((allPairs cs.length).map fun ab => shiftOf nd cs ab.1 ab.2)).mergeSort qle

/-- `shift_index[a,b]` -/
def shiftIndex (nd : Nat) (cs : List QVec3) (a b : Nat) : Nat :=
  (uniqueShifts nd cs).idxOf (shiftOf nd cs a b)

/-- `iRvec_list / Ndegen_list` : the Wigner-Seitz selection of every distinct shift, in the order of `np.unique` -/
def selList (ws : Nat) (G : Gram) (mp : Mesh) (tol : Rat) (cs : List QVec3) : List (List (Vec3 × Nat)) :=
  (uniqueShifts (numDigits tol) cs).map (wsSelect ws G mp (absRat tol))

/-- selection used for the pair (a,b): looked up through `shift_index`, as the code does -/
def selFrom (sl : List (List (Vec3 × Nat))) (idx : Nat) : List (Vec3 × Nat) := sl.getD idx []
def selOf (ws : Nat) (G : Gram) (mp : Mesh) (tol : Rat) (cs : List QVec3) (a b : Nat) : List (Vec3 × Nat) :=
  selFrom (selList ws G mp tol cs) (shiftIndex (numDigits tol) cs a b)

/-- `self.iRvec` : union of the replicas of all shifts (a set in the code; here a duplicate-free list) -/
def iRvecFrom (sl : List (List (Vec3 × Nat))) : List Vec3 := dedup (sl.flatMap fun sel => sel.map (·.1))
def iRvecOf (ws : Nat) (G : Gram) (mp : Mesh) (tol : Rat) (cs : List QVec3) : List Vec3 :=
  iRvecFrom (selList ws G mp tol cs)

/-! ### remapper and weights -/

section scalars
variable {K : Type} [Add K] [Mul K] [Inv K] [OfNat K 0] [NatCast K]

def sumK (l : List K) : K := l.foldr (· + ·) 0

/-- `weights[iR,a,b] += 1/nd` accumulated over the selection of the pair -/
def weightOf (sel : List (Vec3 × Nat)) (R : Vec3) : K :=
  sumK ((sel.filter fun p => p.1 = R).map fun p => ((p.2 : Nat) : K)⁻¹)

/-! ### q_to_R -/

/-- `AA_q_mp[k] = AA_q[i]` (a later k-point with the same slot would overwrite; the code rejects duplicates) -/
def place (slots : List Vec3) (X : Nat → K) (s : Vec3) : K :=
  match (List.range slots.length).reverse.find? (fun i => slots.getD i (0, 0, 0) = s) with
  | some i => X i
  | none => 0

/-- one matrix element of `q_to_R`: FFT `F` of the mesh array, `/ prod(mp_grid)`, pick `R mod mp`, times weight -/
def qToR (F : (Vec3 → K) → Vec3 → K) (Ninv : K) (mp : Mesh) (slots : List Vec3) (w : Vec3 → K)
    (X : Nat → K) (R : Vec3) : K :=
  w R * (Ninv * F (place slots X) (vmod R mp))

/-- interpolation back to a k-point with character `χ`: `Σ_R χ(R) X(R)` -/
def RtoK (χ : Vec3 → K) (iRvec : List Vec3) (XR : Vec3 → K) : K :=
  sumK (iRvec.map fun R => χ R * XR R)

/-- the same sum over already tabulated values `(R, X(R))` (used by the driver to avoid recomputing `X(R)`) -/
def RtoKvals (χ : Vec3 → K) (vals : List (Vec3 × K)) : K :=
  sumK (vals.map fun p => χ p.1 * p.2)

/-! ### remap_XX_R / do_ws_dist : the replica selection applied to an EXISTING real-space matrix -/

/-- `XX_R_tmp[iR % mp_grid] += XX_R[i]` : the old entries `(R_old, X(R_old))` folded onto the mesh box -/
def foldOnMesh (mp : Mesh) (entries : List (Vec3 × K)) (c : Vec3) : K :=
  sumK ((entries.filter fun e => vmod e.1 mp = c).map (·.2))

/-- `remap_XX_R` for one matrix element: fold the old matrix onto the mesh, then `remap_XX_from_grid_to_list_R`
    (pick `R mod mp`, times the replica weight of the pair) -/
def remapXXR (mp : Mesh) (w : Vec3 → K) (entries : List (Vec3 × K)) (R : Vec3) : K :=
  w R * foldOnMesh mp entries (vmod R mp)

/-- explicit forward DFT on the mesh box (what `fftn` computes), `χinv s c = e^{-2πi s·c/mp}` -/
def dftBox (χinv : Vec3 → Vec3 → K) (mp : Mesh) (A : Vec3 → K) (c : Vec3) : K :=
  sumK ((gridPoints mp).map fun s => χinv s c * A s)

end scalars

/-- remapper row of the pair: for every R of `iRvec`: (R, R mod mp, weight) -/
def remapOf (iRvec : List Vec3) (mp : Mesh) (sel : List (Vec3 × Nat)) : List (Vec3 × Vec3 × Rat) :=
  iRvec.map fun R => (R, (if sel.any (fun p => p.1 = R) then vmod R mp else (0, 0, 0)), (weightOf sel R : Rat))

/-! ### set_fft_q_to_R -/

inductive PlaceErr where
  | notGrid | notGamma | wrongCount | duplicates
deriving DecidableEq, Repr

/-- `np.allclose(int, x)` : `|int - x| ≤ 1e-8 + 1e-5·|x|` -/
def allclose1 (i : Int) (x : Rat) : Bool :=
  decide (absRat ((i : Rat) - x) ≤ 1 / 100000000 + (1 / 100000) * absRat x)

/-- `set_fft_q_to_R(kpt_red=...)` : slot of every k-point on the mesh, or the error the code raises -/
def placeK (mp : Mesh) (kpts : List QVec3) : Except PlaceErr (List Vec3) :=
  let scaled : List QVec3 := kpts.map fun k => (k.1 * (mp.1 : Rat), k.2.1 * (mp.2.1 : Rat), k.2.2 * (mp.2.2 : Rat))
  let ints : List Vec3 := scaled.map fun x => (roundHalfEven x.1, roundHalfEven x.2.1, roundHalfEven x.2.2)
  if kpts.length ≠ mp.1 * mp.2.1 * mp.2.2 then .error .wrongCount
  else if !((ints.zip scaled).all fun p =>
      allclose1 p.1.1 p.2.1 && allclose1 p.1.2.1 p.2.2.1 && allclose1 p.1.2.2 p.2.2.2) then .error .notGrid
  else
    let slots := ints.map fun i => vmod i mp
    if !(slots.contains (0, 0, 0)) then .error .notGamma
    else if (dedup slots).length ≠ slots.length then .error .duplicates
    else .ok slots

/-! ### Gaussian rationals (exact 4th roots of unity) for the executable Fourier part -/

structure GRat where
  re : Rat
  im : Rat
deriving DecidableEq

namespace GRat
instance : Add GRat := ⟨fun a b => ⟨a.re + b.re, a.im + b.im⟩⟩
instance : Mul GRat := ⟨fun a b => ⟨a.re * b.re - a.im * b.im, a.re * b.im + a.im * b.re⟩⟩
instance : Neg GRat := ⟨fun a => ⟨-a.re, -a.im⟩⟩
instance : Inv GRat := ⟨fun a => let n := a.re * a.re + a.im * a.im; ⟨a.re / n, -a.im / n⟩⟩
instance : OfNat GRat 0 := ⟨⟨0, 0⟩⟩
instance : OfNat GRat 1 := ⟨⟨1, 0⟩⟩
instance : NatCast GRat := ⟨fun n => ⟨(n : Rat), 0⟩⟩
def I : GRat := ⟨0, 1⟩
def conj (a : GRat) : GRat := ⟨a.re, -a.im⟩
def npow (a : GRat) : Nat → GRat
  | 0 => 1
  | n + 1 => npow a n * a
end GRat

/-! ### exclude_zeros (last step of `System_R.do_ws_dist`) -/

/-- `Rvectors.exclude_zeros`: a block is `(R, all elements of all matrices at R)`; R is kept iff some element is
    "big" (`abs(x) > tolerance`); kept blocks are unchanged and stay in order -/
def excludeZeros {K : Type} (big : K → Bool) (blocks : List (Vec3 × List K)) : List (Vec3 × List K) :=
  blocks.filter fun b => b.2.any big

/-- `abs(z) > tol` for a Gaussian rational and `tol ≥ 0`, decided exactly -/
def bigger (tol : Rat) (z : GRat) : Bool := decide (z.re * z.re + z.im * z.im > tol * tol)

/-- numpy's ordering of complex numbers (real part first) — what `max(axis) > tol` WITHOUT `abs` would test -/
def lexGreater (z w : GRat) : Bool := decide (z.re > w.re) || (decide (z.re = w.re) && decide (z.im > w.im))
def lexMax (l : List GRat) : Option GRat :=
  l.foldl (fun m z => match m with | none => some z | some w => if lexGreater z w then some z else some w) none
/-- the defective variant "largest element exceeds the tolerance" (documentation only) -/
def excludeZerosLexMax (tol : Rat) (blocks : List (Vec3 × List GRat)) : List (Vec3 × List GRat) :=
  blocks.filter fun b => match lexMax b.2 with | some z => lexGreater z ⟨tol, 0⟩ | none => false

/-- primitive `n`-th root of unity `e^{2πi/n}` for n ∈ {1,2,4} -/
def zeta (n : Nat) : GRat := if n = 1 then 1 else if n = 2 then ⟨-1, 0⟩ else GRat.I

/-- `e^{sign·2πi Σ_j s_j c_j / mp_j}` for mesh sizes dividing 4 -/
def gchar (inverse : Bool) (mp : Mesh) (s c : Vec3) : GRat :=
  let z := fun (n : Nat) (e : Int) =>
    let w := GRat.npow (zeta n) ((e % (n : Int)).toNat)
    if inverse then GRat.conj w else w
  z mp.1 (s.1 * c.1) * z mp.2.1 (s.2.1 * c.2.1) * z mp.2.2 (s.2.2 * c.2.2)

/-! ### driver -/
open WB.IO

def toQVec3? : List Rat → Option QVec3
  | [a, b, c] => some (a, b, c)
  | _ => none
def toVec3? : List Int → Option Vec3
  | [a, b, c] => some (a, b, c)
  | _ => none
def toMesh? : List Nat → Option Mesh
  | [a, b, c] => if a = 0 ∨ b = 0 ∨ c = 0 then none else some (a, b, c)
  | _ => none
def toGram? : List Rat → Option Gram
  | [a, b, c, d, e, f] => some ⟨a, b, c, d, e, f⟩
  | _ => none

def showVec3 (v : Vec3) : String := s!"{v.1},{v.2.1},{v.2.2}"
def showQVec3 (v : QVec3) : String := s!"{showRat v.1},{showRat v.2.1},{showRat v.2.2}"
def showSel (l : List (Vec3 × Nat)) : String :=
  showListWith (fun p => showVec3 p.1 ++ "," ++ toString p.2) ";" l
def showGRat (z : GRat) : String := showRat z.re ++ "," ++ showRat z.im

def vlt (x y : Vec3) : Bool :=
  decide (x.1 < y.1) || (decide (x.1 = y.1) && (decide (x.2.1 < y.2.1) || (decide (x.2.1 = y.2.1) && decide (x.2.2 < y.2.2))))
def sortVecs (l : List Vec3) : List Vec3 := l.mergeSort fun a b => !vlt b a

def parseGRats? (s : String) : Option (List GRat) :=
  (parseRatss? s).bind fun l => l.mapM fun
    | [a, b] => some (⟨a, b⟩ : GRat)
    | _ => none

def handle : List String → String
  -- WignerSeitz(lattice, mp, tolerance=tol)(shift): "R1,R2,R3,nd;..." in the order of the code
  | ["ws", g, mp, tol, s] =>
    match (parseRats? g).bind toGram?, (parseNats? mp).bind toMesh?, parseRat? tol, (parseRats? s).bind toQVec3? with
    | some G, some m, some t, some sh => showSel (wsSelect 3 G m t sh)
    | _, _, _, _ => "bad-op"
  -- set_Rvec: "ndigits | unique shifts | shift_index rows | sorted iRvec | selection per shift | per pair (a,b): mod,weight over the sorted iRvec"
  | ["rvec", g, mp, tol, cs] =>
    match (parseRats? g).bind toGram?, (parseNats? mp).bind toMesh?, parseRat? tol, (parseRatss? cs).bind (·.mapM toQVec3?) with
    | some G, some m, some t, some c =>
      let nd := numDigits t
      let n := c.length
      let sl := selList 3 G m t c
      let iR := sortVecs (iRvecFrom sl)
      toString nd ++ " | " ++ showListWith showQVec3 ";" (uniqueShifts nd c) ++ " | "
        ++ showNatss ((List.range n).map fun a => (List.range n).map fun b => shiftIndex nd c a b) ++ " | "
        ++ showListWith showVec3 ";" iR ++ " | "
        ++ showListWith showSel "#" sl ++ " | "
        ++ showListWith (fun (ab : Nat × Nat) =>
              showListWith (fun (r : Vec3 × Vec3 × Rat) => showVec3 r.2.1 ++ "," ++ showRat r.2.2) ";"
                (remapOf iR m (selFrom sl (shiftIndex nd c ab.1 ab.2)))) "#" (allPairs n)
    | _, _, _, _ => "bad-op"
  -- set_fft_q_to_R(kpt_red)
  | ["placek", mp, ks] =>
    match (parseNats? mp).bind toMesh?, (parseRatss? ks).bind (·.mapM toQVec3?) with
    | some m, some k =>
      match placeK m k with
      | .ok slots => showListWith showVec3 ";" slots
      | .error .notGrid => "err-notgrid"
      | .error .notGamma => "err-notgamma"
      | .error .wrongCount => "err-count"
      | .error .duplicates => "err-duplicates"
    | _, _ => "bad-op"
  -- q_to_R of every matrix element (a,b) over GRat (mesh sizes dividing 4), then back to every mesh point:
  --   per pair, separated by '#':  "X(R) over sorted iRvec | round trip values at the k-points"
  | ["qtor", g, mp, tol, cs, slots, xs] =>
    match (parseRats? g).bind toGram?, (parseNats? mp).bind toMesh?, parseRat? tol, (parseRatss? cs).bind (·.mapM toQVec3?),
        (parseIntss? slots).bind (·.mapM toVec3?), (xs.splitOn "#").mapM parseGRats? with
    | some G, some m, some t, some c, some sl, some xss =>
      let nd := numDigits t
      let sels := selList 3 G m t c
      let iR := sortVecs (iRvecFrom sels)
      let Ninv : GRat := ((m.1 * m.2.1 * m.2.2 : Nat) : GRat)⁻¹
      showListWith (fun (p : (Nat × Nat) × List GRat) =>
          let sel := selFrom sels (shiftIndex nd c p.1.1 p.1.2)
          let X : Nat → GRat := fun i => p.2.getD i 0
          let XR := qToR (dftBox (gchar true m) m) Ninv m sl (weightOf sel) X
          let vals := iR.map fun R => (R, XR R)
          showListWith showGRat ";" (vals.map (·.2)) ++ " | "
            ++ showListWith showGRat ";" (sl.map fun s => RtoKvals (gchar false m s) vals)) "#"
        ((allPairs c.length).zip xss)
    | _, _, _, _, _, _ => "bad-op"
  -- System_R.do_ws_dist for the matrix elements (a,b) given: per pair (separated by '#') "a,b:re,im;re,im;..." = X_ab(R_old)
  --   output per pair: new X_ab(R) over the sorted new iRvec (before exclude_zeros)
  | ["wsdist", g, mp, tol, cs, rold, xs] =>
    let parsePair := fun (t : String) =>
      match t.splitOn ":" with
      | [ab, x] => match parseNats? ab, parseGRats? x with
        | some [a, b], some X => some ((a, b), X)
        | _, _ => none
      | _ => none
    match (parseRats? g).bind toGram?, (parseNats? mp).bind toMesh?, parseRat? tol, (parseRatss? cs).bind (·.mapM toQVec3?),
        (parseIntss? rold).bind (·.mapM toVec3?), (xs.splitOn "#").mapM parsePair with
    | some G, some m, some t, some c, some Rold, some pairs =>
      let nd := numDigits t
      let sels := selList 3 G m t c
      let iR := sortVecs (iRvecFrom sels)
      showListWith showVec3 ";" iR ++ " | " ++
      showListWith (fun (p : (Nat × Nat) × List GRat) =>
          let sel := selFrom sels (shiftIndex nd c p.1.1 p.1.2)
          showListWith showGRat ";" (iR.map (remapXXR m (weightOf sel) (Rold.zip p.2)))) "#" pairs
    | _, _, _, _, _, _ => "bad-op"
  -- exclude_zeros(tolerance): blocks "R1,R2,R3:re,im;re,im;..." separated by '#'  ->  kept R vectors
  | ["exclz", tol, bl] =>
    let parseBlock := fun (t : String) =>
      match t.splitOn ":" with
      | [r, xs] => match (parseInts? r).bind toVec3?, parseGRats? xs with
        | some R, some X => some (R, X)
        | _, _ => none
      | _ => none
    match parseRat? tol, (bl.splitOn "#").mapM parseBlock with
    | some t, some blocks => showListWith showVec3 ";" ((excludeZeros (bigger t) blocks).map (·.1))
    | _, _ => "bad-op"
  | _ => "bad-op"

end WB.C01
