/-
  C30 — grid tabulation covers every grid point once, in C order, with its own values; component extraction.
  Core Lean only.

  Models of
    wannierberri/grid/grid.py          : Grid.get_K_list (order of K-points, no symmetry), Grid.points_FFT
    wannierberri/grid/Kpoint.py        : Kp_fullBZ = K / NKFFT
    wannierberri/data_K/data_K.py      : kpoints_all = (points_FFT + dK) % 1
    wannierberri/result/tabresult.py   : TABresult.find_grid, to_grid (k_new, kpoints_int, on_grid, ind_grid, k_map),
                                         __get_data_grid (reshape to the grid)
    wannierberri/result/kbandresult.py : K__Result.to_grid (average over the k-points of a slot), get_component,
                                         K__Result.get_component_list
    wannierberri/calculators/tabulate.py : Tabulator.__call__ (which degenerate group supplies the value of a band)

  k-points are rational triples; a point of the `g₀×g₁×g₂` grid is the integer triple of its numerators.
-/
import WB.Model.IO
namespace WB.C30

abbrev N3 := Nat × Nat × Nat
abbrev Q3 := Rat × Rat × Rat

def vol (g : N3) : Nat := g.1 * g.2.1 * g.2.2

/-- `ind_grid = kz + g₂·(ky + g₁·kx)` -/
def cindex (g p : N3) : Nat := p.2.2 + g.2.2 * (p.2.1 + g.2.1 * p.1)

/-- the grid point stored in slot `s`: `k_new = meshgrid(indexing='ij').reshape((3,-1), order='C').T` (numerators) -/
def unindex (g : N3) (s : Nat) : N3 := (s / (g.2.1 * g.2.2), (s / g.2.2) % g.2.1, s % g.2.2)

def inBox (g p : N3) : Prop := p.1 < g.1 ∧ p.2.1 < g.2.1 ∧ p.2.2 < g.2.2

/-! ### the k-points produced by a factorisation `NKdiv × NKFFT` -/

/-- all triples below `n` in C order (`for x … for y … for z`) -/
def triples (n : N3) : List N3 :=
  (List.range n.1).flatMap (fun x => (List.range n.2.1).flatMap (fun y => (List.range n.2.2).map (fun z => (x, y, z))))

/-- dense-grid numerators of the FFT point `F` of the K-point `Kp`:
    `(F/fft + (Kp/div)/fft) % 1 = (Kp + div·F) / (div·fft)` -/
def kpointOf (div Kp F : N3) : N3 := (Kp.1 + div.1 * F.1, Kp.2.1 + div.2.1 * F.2.1, Kp.2.2 + div.2.2 * F.2.2)

/-- the k-points of a run in the order in which an unsymmetrised serial run collects them:
    K-points in C order, inside each K-point its FFT points in C order -/
def tabPoints (div fft : N3) : List N3 :=
  (triples div).flatMap (fun Kp => (triples fft).map (fun F => kpointOf div Kp F))

def dense (div fft : N3) : N3 := (div.1 * fft.1, div.2.1 * fft.2.1, div.2.2 * fft.2.2)

/-! ### `to_grid` -/

/-- `np.rint`: nearest integer, ties to even -/
def rint (q : Rat) : Int :=
  let f := q.floor
  let r := q - f
  if r < 1 / 2 then f else if r > 1 / 2 then f + 1 else if f % 2 = 0 then f else f + 1

def absQ (q : Rat) : Rat := if q < 0 then -q else q

/-- one coordinate: `(on_grid, kpoints_int % grid)` -/
def coord (g : Nat) (k : Rat) : Bool × Nat :=
  let n := rint (k * g)
  (decide (absQ ((n : Rat) / g - k) < 1 / 100000), (n % (g : Int)).toNat)

/-- the slot of a k-point, `none` when it is not on the grid (it is skipped with a warning) -/
def slotOf (g : N3) (k : Q3) : Option Nat :=
  let x := coord g.1 k.1
  let y := coord g.2.1 k.2.1
  let z := coord g.2.2 k.2.2
  if x.1 && y.1 && z.1 then some (cindex g (x.2, y.2, z.2)) else none

/-- `k_map[s]`: indices of the k-points that fall on slot `s`, ascending -/
def kmap (g : N3) (kpts : List Q3) (s : Nat) : List Nat :=
  (List.range kpts.length).filter (fun ik => slotOf g (kpts.getD ik (0, 0, 0)) == some s)

section
variable {K : Type} [Add K] [Div K] [OfNat K 0] [NatCast K]

def sumList (l : List K) : K := l.foldl (· + ·) 0

/-- `K__Result.to_grid`: `sum(data[ik] for ik in km) / len(km)`  (`none`: empty slot, the code divides 0 by 0) -/
def toGrid (g : N3) (kpts : List Q3) (data : Nat → K) (s : Nat) : Option K :=
  let km := kmap g kpts s
  if km.isEmpty then none else some (sumList (km.map data) / (km.length : K))

end

/-- the k-point numerators as rational coordinates -/
def toQ (g p : N3) : Q3 := ((p.1 : Rat) / g.1, (p.2.1 : Rat) / g.2.1, (p.2.2 : Rat) / g.2.2)

/-! ### `find_grid` -/

def insertSorted (x : Rat) : List Rat → List Rat
  | [] => [x]
  | y :: l => if x ≤ y then x :: y :: l else y :: insertSorted x l

/-- `np.sort` (as insertion sort) -/
def sortQ : List Rat → List Rat
  | [] => []
  | x :: l => insertSorted x (sortQ l)

/-- `k[1:] - k[:-1]` -/
def gaps : List Rat → List Rat
  | a :: b :: l => (b - a) :: gaps (b :: l)
  | _ => []

/-- `np.max` of a non-empty list -/
def maxQ : List Rat → Rat
  | [] => 0
  | a :: l => l.foldl (fun m x => if x > m then x else m) a

/-- one direction of `find_grid`: the coordinates plus the sentinel 1, sorted, largest gap, `round(1/dk)` -/
def findGrid1 (coords : List Rat) : Int := rint (1 / maxQ (gaps (sortQ (coords ++ [1]))))

def findGrid (kpts : List Q3) : Int × Int × Int :=
  (findGrid1 (kpts.map (·.1)), findGrid1 (kpts.map (·.2.1)), findGrid1 (kpts.map (·.2.2)))

/-! ### which band group supplies the value of a selected band (`Tabulator.__call__`) -/

/-- `[n for n in groups if any((ibands >= n[0]) * (ibands < n[1]))]` -/
def neededGroups (groups : List (Nat × Nat)) (ibands : List Nat) : List (Nat × Nat) :=
  groups.filter (fun n => ibands.any (fun ib => decide (n.1 ≤ ib) && decide (ib < n.2)))

/-- first needed group with `n[1] > ib >= n[0]` -/
def groupOf (groups : List (Nat × Nat)) (ibands : List Nat) (ib : Nat) : Option (Nat × Nat) :=
  (neededGroups groups ibands).find? (fun n => decide (ib < n.2) && decide (n.1 ≤ ib))

/-- `rslt[ik, j] = values[group[ik][j]]` -/
def tabBands {V : Type} (groups : List (Nat × Nat)) (ibands : List Nat) (values : Nat × Nat → V) : List (Option V) :=
  ibands.map (fun ib => (groupOf groups ibands ib).map values)

/-- `np.unique(ibands)`: ascending, without repetitions -/
def insertUnique (x : Nat) : List Nat → List Nat
  | [] => [x]
  | y :: l => if x < y then x :: y :: l else if x = y then y :: l else y :: insertUnique x l

def uniqueSorted (l : List Nat) : List Nat := l.foldr insertUnique []

/-- the SEEDED variant: the selection is passed through `np.unique` first ('a band listed twice is tabulated once') -/
def tabBandsUnique {V : Type} (groups : List (Nat × Nat)) (ibands : List Nat) (values : Nat × Nat → V) :
    List (Option V) :=
  tabBands groups (uniqueSorted ibands) values

/-! ### the text writer behind `fermiSurfer` / `write_frmsf` (`_savetxt`, parallel branch) -/

/-- points per writer process: `n // npar + (1 if n % npar > 0 else 0)` -/
def nppproc (n npar : Nat) : Nat := n / npar + (if n % npar > 0 then 1 else 0)

/-- `[(i, i + npp) for i in range(0, n, npp)]` (numpy clips the last slice at `n`) -/
def chunkBounds (n npp : Nat) : List (Nat × Nat) :=
  (List.range ((n + npp - 1) / npp)).map (fun c => (c * npp, c * npp + npp))

/-- the text: the chunks written one after another -/
def chunkWrite {α : Type} (a : List α) (npp : Nat) : List α :=
  (chunkBounds a.length npp).flatMap (fun b => (a.drop b.1).take (b.2 - b.1))

/-- a SEEDED 'balanced' variant: `bounds = arange(0, n+1, npp)`, `zip(bounds[:-1], bounds[1:])` -/
def chunkBoundsArange (n npp : Nat) : List (Nat × Nat) :=
  let b := (List.range (n / npp + 1)).map (· * npp)
  b.zip b.tail

/-! ### components of a tensor-valued array -/

/-- an array with `lead` leading axes (k, band) followed by `ndim` tensor axes of length 3, as a function of the
    leading multi-index and the tensor multi-index -/
abbrev TArr (K : Type) := (Nat → Nat) → (Nat → Nat) → K

section
variable {K : Type} [Add K] [Mul K] [OfNat K 0]

/-- tuple component: `for k in component[::-1]: X = X[..., k]` — the last `m` tensor axes are fixed -/
def compTuple (ndim : Nat) (cs : List Nat) (T : TArr K) : TArr K :=
  fun v t => T v (fun a => if a < ndim - cs.length then t a else cs.getD (a - (ndim - cs.length)) 0)

/-- string component of a tensor with `ndim ≥ 2` ('xy…'): axes are moved to the front
    (`_data = data.transpose(dims[-ndim:] + dims[:-ndim])`) and indexed there -/
def compLetters (cs : List Nat) (T : TArr K) : TArr K :=
  fun v t => T v (fun a => if a < cs.length then cs.getD a 0 else t (a - cs.length))

/-- `"trace"`: `sum(_data[(i,)*ndim] for i in range(3))` -/
def compTrace (T : TArr K) : (Nat → Nat) → K :=
  fun v => T v (fun _ => 0) + T v (fun _ => 1) + T v (fun _ => 2)

/-- `'sq'` for vectors: `norm(data, axis=-1)**2 = Σ_i |d_i|²`  (`cj` = complex conjugation) -/
def compSq (cj : K → K) (T : TArr K) : (Nat → Nat) → K :=
  fun v => T v (fun _ => 0) * cj (T v (fun _ => 0)) + T v (fun _ => 1) * cj (T v (fun _ => 1))
         + T v (fun _ => 2) * cj (T v (fun _ => 2))

/-- `'norm'` for vectors: `np.linalg.norm(data, axis=-1)`; the square root is a parameter -/
def compNorm (sqrt : K → K) (cj : K → K) (T : TArr K) : (Nat → Nat) → K :=
  fun v => sqrt (compSq cj T v)

end

inductive Spec
  | none
  | letters (cs : List Nat)   -- 'x','y','z' letters as 0,1,2
  | trace
  | norm
  | sq
  | tuple (cs : List Nat)
deriving DecidableEq, Repr

inductive CompErr | noComponent | key | type | unmodelled
deriving DecidableEq, Repr

/-- which branch of `get_component(data, ndim, component)` is taken; `.ok m` = number of tensor axes that remain.
    `unmodelled`: inputs for which the code returns something this model does not describe (a tuple longer than
    the tensor rank indexes the band axis; a word shorter than the rank returns a sub-tensor with the tensor axes
    in front; a word longer than the rank indexes the k / band axes with its extra letters and raises
    NoComponentError only when such an index is out of range). -/
def compBranch (ndim : Nat) : Spec → Except CompErr Nat
  | .tuple cs => if cs.length ≤ ndim ∧ cs.all (· < 3) then .ok (ndim - cs.length) else .error .unmodelled
  | .none => if ndim = 0 then .ok 0 else if ndim = 1 then .error .noComponent else .error .type
  | .letters cs =>
    if ndim = 0 then .error .noComponent
    else if ndim = 1 then (if cs.length = 1 then .ok 0 else .error .noComponent)
    else if cs.length = ndim then .ok 0
    else .error .unmodelled
  | .trace => if ndim ≥ 2 then .ok 0 else .error .noComponent
  | .norm => if ndim = 1 then .ok 0 else if ndim = 0 then .error .noComponent else .error .key
  | .sq => if ndim = 1 then .ok 0 else if ndim = 0 then .error .noComponent else .error .key

/-- `K__Result.get_component_list()` for a tensor with `dim` axes: all words over x,y,z in product order,
    plus "trace" for `dim ≥ 2`; `[None]` for scalars -/
def words : Nat → List (List Nat)
  | 0 => [[]]
  | n + 1 => [0, 1, 2].flatMap (fun c => (words n).map (fun w => c :: w))

def componentList (dim : Nat) : List Spec :=
  if dim = 0 then [.none]
  else (words dim).map .letters ++ (if dim ≥ 2 then [.trace] else [])

/-! ### driver -/
open WB.IO

def parseN3? (s : String) : Option N3 :=
  match parseNats? s with
  | some [a, b, c] => some (a, b, c)
  | _ => none

def showN3 (p : N3) : String := toString p.1 ++ "," ++ toString p.2.1 ++ "," ++ toString p.2.2

def parseQ3s? (s : String) : Option (List Q3) :=
  match parseRatss? s with
  | some l => l.mapM (fun r => match r with | [a, b, c] => some (a, b, c) | _ => none)
  | none => none

def letterIdx (c : Char) : Option Nat := if c = 'x' then some 0 else if c = 'y' then some 1 else if c = 'z' then some 2 else none

/-- spec token: `none`, `trace`, `norm`, `sq`, `s:xyz`, `t:0,1` -/
def parseSpec? (s : String) : Option Spec :=
  if s = "none" then some .none else if s = "trace" then some .trace else if s = "norm" then some .norm
  else if s = "sq" then some .sq
  else match s.splitOn ":" with
    | ["s", w] => (w.toList.mapM letterIdx).map Spec.letters
    | ["t", l] => (parseNats? l).map Spec.tuple
    | _ => none

def showSpec : Spec → String
  | .none => "none" | .trace => "trace" | .norm => "norm" | .sq => "sq"
  | .letters cs => "s:" ++ String.ofList (cs.map (fun c => if c = 0 then 'x' else if c = 1 then 'y' else 'z'))
  | .tuple cs => "t:" ++ showNats cs

def flatIndex (shape : List Nat) (idx : Nat → Nat) : Nat :=
  (shape.zipIdx).foldl (fun acc (d, a) => acc * d + idx a) 0

def unflatten (shape : List Nat) (p : Nat) : Nat → Nat :=
  let rec go : List Nat → Nat → List Nat → List Nat
    | [], _, acc => acc
    | d :: rest, q, acc => go rest (q / d) ((q % d) :: acc)
  let l := go shape.reverse p []
  fun a => l.getD a 0

/-- a real array of shape `lead ++ [3]*ndim` from a flat list -/
def tarrOf (lead : List Nat) (ndim : Nat) (data : List Rat) : TArr Rat :=
  let shape := lead ++ List.replicate ndim 3
  fun v t => data.getD (flatIndex shape (fun a => if a < lead.length then v a else t (a - lead.length))) 0

/-- print a component result that keeps `m` tensor axes -/
def showTArr (lead : List Nat) (m : Nat) (T : TArr Rat) : String :=
  let shape := lead ++ List.replicate m 3
  showRats ((List.range (shape.foldl (· * ·) 1)).map (fun p =>
    let idx := unflatten shape p
    T idx (fun a => idx (lead.length + a))))

def showCompErr : CompErr → String
  | .noComponent => "err:nocomponent" | .key => "err:key" | .type => "err:type" | .unmodelled => "err:unmodelled"

def handle : List String → String
  | ["cindex", g, p] =>
    match parseN3? g, parseN3? p with
    | some g, some p => toString (cindex g p)
    | _, _ => "bad-op"
  | ["knew", g] =>
    match parseN3? g with
    | some g => showListWith showN3 ";" ((List.range (vol g)).map (unindex g))
    | none => "bad-op"
  | ["tabpoints", d, f] =>
    match parseN3? d, parseN3? f with
    | some d, some f => showListWith showN3 ";" (tabPoints d f)
    | _, _ => "bad-op"
  -- togrid <g> <kpts> <data>: per slot value or `E` for an empty slot;   kmap likewise
  | ["togrid", g, ks, d] =>
    match parseN3? g, parseQ3s? ks, parseRats? d with
    | some g, some ks, some d =>
      let data : Nat → Rat := fun i => d.getD i 0
      showListWith (fun o => match o with | some x => showRat x | none => "E") ","
        ((List.range (vol g)).map (toGrid g ks data))
    | _, _, _ => "bad-op"
  | ["kmap", g, ks] =>
    match parseN3? g, parseQ3s? ks with
    | some g, some ks => showNatss ((List.range (vol g)).map (kmap g ks))
    | _, _ => "bad-op"
  | ["findgrid", ks] =>
    match parseQ3s? ks with
    | some ks => let r := findGrid ks; toString r.1 ++ "," ++ toString r.2.1 ++ "," ++ toString r.2.2
    | none => "bad-op"
  | ["rint", q] =>
    match parseRat? q with
    | some q => toString (rint q)
    | none => "bad-op"
  -- groups <groups a,b;c,d> <ibands>
  | ["groups", gs, ib] =>
    match parseNatss? gs, parseNats? ib with
    | some gs, some ib =>
      let groups := gs.map (fun l => (l.getD 0 0, l.getD 1 0))
      showListWith (fun o => match o with | some (n : Nat × Nat) => toString n.1 ++ "," ++ toString n.2 | none => "N") ";"
        (tabBands groups ib id)
    | _, _ => "bad-op"
  | ["groupsunique", gs, ib] =>
    match parseNatss? gs, parseNats? ib with
    | some gs, some ib =>
      let groups := gs.map (fun l => (l.getD 0 0, l.getD 1 0))
      showListWith (fun o => match o with | some (n : Nat × Nat) => toString n.1 ++ "," ++ toString n.2 | none => "N") ";"
        (tabBandsUnique groups ib id)
    | _, _ => "bad-op"
  | ["complist", d] =>
    match parseNat? d with
    | some d => showListWith showSpec " " (componentList d)
    | none => "bad-op"
  -- component <lead shape> <ndim> <spec> <flat data>
  | ["component", ld, nd, sp, d] =>
    match parseNats? ld, parseNat? nd, parseSpec? sp, parseRats? d with
    | some lead, some ndim, some spec, some data =>
      let T := tarrOf lead ndim data
      match compBranch ndim spec with
      | .error e => showCompErr e
      | .ok m =>
        match spec with
        | .tuple cs => showTArr lead m (compTuple ndim cs T)
        | .none => showTArr lead 0 T
        | .letters cs => if ndim = 1 then showTArr lead 0 (compTuple 1 cs T) else showTArr lead m (compLetters cs T)
        | .trace => showTArr lead 0 (fun v _ => compTrace T v)
        | .norm => "sq " ++ showTArr lead 0 (fun v _ => compSq id T v)
        | .sq => "sq " ++ showTArr lead 0 (fun v _ => compSq id T v)
    | _, _, _, _ => "bad-op"
  | _ => "bad-op"

end WB.C30
