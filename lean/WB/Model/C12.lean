/-
  C12 — parallel evaluation equals serial evaluation.   Core Lean only.

  Models of
    wannierberri/run_grid.py        : process()  (the `ray.wait` collection loop, parallel branch; serial branch)
    wannierberri/result/tabresult.py: TABresult.self_to_path, TABresult.to_grid / self_to_grid
    wannierberri/result/kbandresult.py: K__Result.to_path, K__Result.to_grid

  The collection loop of `process()`:

      remotes_calculated_old = zeros(n, bool) ; num_remotes_calculated = 0
      while True:
          ready, _ = ray.wait(remotes, num_returns=min(num_remotes_calculated + nstep_print, n), timeout=60)
          num_remotes_calculated = len(ready)
          bool  = [r in ready for r in remotes]
          diff  = bool & ~old
          for ir in np.where(diff)[0]:  result_sum += set_result(dK_list[ir], ray.get(remotes[ir]))
          if num_remotes_calculated >= n: break
          old = old | bool                     -- repaired rule   (the original rule was  old = bool)

  `ray.wait` is the environment: each call returns SOME list of ready references (`ready : List Nat`, the
  indices of the returned references).  A schedule is the list of these answers.
-/
import WB.Model.IO
namespace WB.C12

/-- bookkeeping of the collection loop -/
structure State where
  n     : Nat            -- num_remotes
  nstep : Nat            -- nstep_print
  old   : Nat → Bool     -- remotes_calculated_old
  ncalc : Nat            -- num_remotes_calculated
  added : List Nat       -- log of the indices `ir` for which `result_sum += set_result(...)` was executed, in order
  asked : List Nat       -- log of the `num_returns` arguments passed to ray.wait
  done  : Bool           -- the loop has reached `break`

def init (n nstep : Nat) : State :=
  { n := n, nstep := nstep, old := fun _ => false, ncalc := 0, added := [], asked := [], done := false }

/-- the `num_returns` argument of the next `ray.wait` call -/
def numReturns (s : State) : Nat := min (s.ncalc + s.nstep) s.n

/-- `np.where(bool & ~old)[0]` : ascending indices that are in `ready` and not marked old -/
def diffOf (n : Nat) (old : Nat → Bool) (ready : List Nat) : List Nat :=
  (List.range n).filter (fun i => ready.contains i && !old i)

/-- one pass through the `while True` body for the answer `ready` of `ray.wait`.
    `union = true` is the repaired rule `old := old ∪ ready`; `union = false` the original `old := ready`. -/
def step (union : Bool) (s : State) (ready : List Nat) : State :=
  if s.done then s else
    let added := s.added ++ diffOf s.n s.old ready
    let asked := s.asked ++ [numReturns s]
    if s.n ≤ ready.length then
      { s with added := added, asked := asked, ncalc := ready.length, done := true }
    else
      { s with added := added, asked := asked, ncalc := ready.length,
               old := fun i => if union then s.old i || ready.contains i else ready.contains i }

def run (union : Bool) (n nstep : Nat) (sched : List (List Nat)) : State :=
  sched.foldl (step union) (init n nstep)

/-- the serial branch: `for Kp in dK_list: result_sum += set_result(Kp, paralfunc(Kp))` -/
def serialAdded (n : Nat) : List Nat := List.range n

/-- `result_sum` as a function of the log: contributions are added in log order, starting from `None` (= 0) -/
def sumOver {V} [Add V] [Zero V] (v : Nat → V) (log : List Nat) : V := (log.map v).sum

/-- the contract of `ray.wait`: it answers with distinct references out of the list it was given -/
def ValidReady (n : Nat) (ready : List Nat) : Prop := ready.Nodup ∧ ∀ i ∈ ready, i < n

/-- an answer additionally respects `num_returns` (what real ray does; not needed by the theorems) -/
def admissible (union : Bool) (n nstep : Nat) : List (List Nat) → State → Bool
  | [], _ => true
  | r :: rest, s => decide (r.length ≤ numReturns s) && admissible union n nstep rest (step union s r)

/-! ### reordering of tabulated points -/

/-- `TABresult.self_to_path`: `arr` = (k-point, value) in ARRIVAL order (results are stacked as they are added);
    for every path point take the first arrival whose k-point coincides with it (`np.argmin` of the distance:
    first index of the minimum, distance 0 for the point itself).  `none` = no arrival matches (the code asserts). -/
def toPath {κ ν} [BEq κ] (arr : List (κ × ν)) (path : List κ) : List (Option ν) :=
  path.map (fun k => (arr.find? (fun p => p.1 == k)).map (·.2))

/-! repeated run() calls with the SAME Path object.  `self_to_path(path)` reads `path.get_kpoints()` and the collected
    k-points of this result only; a Path object carries no state between calls.  The seeded defect T-C12 kept the
    mapping "path position → position in the collected result" on the Path object and reused it in the next call. -/

/-- `mapping = np.argmin(norm, axis=0)`: for every path point the position of the first matching arrival -/
def mappingOf {κ ν} [BEq κ] (arr : List (κ × ν)) (path : List κ) : List (Option Nat) :=
  path.map (fun k => arr.findIdx? (fun p => p.1 == k))

/-- `results[r].to_path(mapping)` -/
def applyMapping {ν κ} (arr : List (κ × ν)) (m : List (Option Nat)) : List (Option ν) :=
  m.map (fun o => o.bind (fun i => (arr[i]?).map (·.2)))

/-- the Path object: its k-points, and (only in the seeded variant) a mapping remembered from an earlier call -/
structure PathObj (κ : Type) where
  pts : List κ
  cache : Option (List (Option Nat))

/-- one call of `self_to_path`.  `useCache = false` is the code; `true` the seeded variant (reuse the remembered
    mapping whenever the lengths fit).  Returns the Path object afterwards and the reordered values. -/
def selfToPath {κ ν} [BEq κ] (useCache : Bool) (po : PathObj κ) (arr : List (κ × ν)) :
    PathObj κ × List (Option ν) :=
  match useCache, po.cache with
  | true, some m =>
    if m.length == po.pts.length && arr.length == po.pts.length then (po, applyMapping arr m)
    else
      let m' := mappingOf arr po.pts
      ({ po with cache := some m' }, applyMapping arr m')
  | true, none =>
    let m' := mappingOf arr po.pts
    ({ po with cache := some m' }, applyMapping arr m')
  | false, _ => (po, applyMapping arr (mappingOf arr po.pts))

/-- several run() calls, one after the other, on one Path object; each call with its own arrival order -/
def runsOnPath {κ ν} [BEq κ] (useCache : Bool) : PathObj κ → List (List (κ × ν)) → List (List (Option ν))
  | _, [] => []
  | po, arr :: rest =>
    let r := selfToPath useCache po arr
    r.2 :: runsOnPath useCache r.1 rest

/-! several run(parallel=True) calls in one ray session on ONE system object that the user changes in place between
    the calls.  `ray.put(obj)` stores a snapshot of the object as it is at the time of the call; run() calls it anew
    in every call.  The seeded defect W-C12 remembered the reference of the first call for the same object. -/

/-- what the workers evaluate in each call: `states` = the system as it is at call 1, 2, ... ; `stored` = the snapshot
    remembered from an earlier call (only used when `reuse = true`, the seeded variant) -/
def workersSee {σ : Type} (reuse : Bool) : Option σ → List σ → List σ
  | _, [] => []
  | stored, s :: rest =>
    let seen := match reuse, stored with
      | true, some old => old
      | _, _ => s
    seen :: workersSee reuse (some seen) rest

/-- `TABresult.to_grid` + `K__Result.to_grid` for one grid point `g`:
    `k_map[g]` = arrivals that sit on `g`, value = their mean.  -/
def onGrid {κ ν} [BEq κ] (arr : List (κ × ν)) (g : κ) : List ν :=
  (arr.filter (fun p => p.1 == g)).map (·.2)

def toGrid {κ ν} [BEq κ] [Add ν] [Zero ν] [Div ν] [NatCast ν] (arr : List (κ × ν)) (grid : List κ) : List ν :=
  grid.map (fun g => (onGrid arr g).sum / ((onGrid arr g).length : ν))

/-- arrival order of the tabulated points: batches of remote `ir` are stacked in the order of the log -/
def arrivals {α} (batch : Nat → List α) (log : List Nat) : List α := log.flatMap batch

/-! ### driver -/
open WB.IO

def showState (s : State) : String :=
  showNats s.added ++ " " ++ showNats s.asked ++ " " ++ showBool s.done ++ " " ++
    showNats ((List.range s.n).filter s.old) ++ " " ++ toString s.ncalc

def pairUp : List Int → List Rat → List (Int × Rat)
  | k :: ks, v :: vs => (k, v) :: pairUp ks vs
  | _, _ => []

def showOptRats (l : List (Option Rat)) : String :=
  showListWith (fun o => match o with | some r => showRat r | none => "X") "," l

def handle : List String → String
  | ["collect", u, n, nstep, sched] =>
    match parseBool? u, parseNat? n, parseNat? nstep, parseNatss? sched with
    | some u, some n, some ns, some sc => showState (run u n ns sc)
    | _, _, _, _ => "bad-op"
  | ["admissible", u, n, nstep, sched] =>
    match parseBool? u, parseNat? n, parseNat? nstep, parseNatss? sched with
    | some u, some n, some ns, some sc => showBool (admissible u n ns sc (init n ns))
    | _, _, _, _ => "bad-op"
  | ["topath", keys, vals, path] =>
    match parseInts? keys, parseRats? vals, parseInts? path with
    | some ks, some vs, some p => if ks.length ≠ vs.length then "bad-op" else showOptRats (toPath (pairUp ks vs) p)
    | _, _, _ => "bad-op"
  | ["topath2", keys1, vals1, keys2, vals2, path] =>
    -- two consecutive calls on one Path object
    match parseInts? keys1, parseRats? vals1, parseInts? keys2, parseRats? vals2, parseInts? path with
    | some k1, some v1, some k2, some v2, some p =>
      if k1.length ≠ v1.length || k2.length ≠ v2.length then "bad-op" else
      " ".intercalate ((runsOnPath false { pts := p, cache := none } [pairUp k1 v1, pairUp k2 v2]).map showOptRats)
    | _, _, _, _, _ => "bad-op"
  | ["togrid", keys, vals, grid] =>
    match parseInts? keys, parseRats? vals, parseInts? grid with
    | some ks, some vs, some g => if ks.length ≠ vs.length then "bad-op" else showRats (toGrid (pairUp ks vs) g)
    | _, _, _ => "bad-op"
  | _ => "bad-op"

end WB.C12
