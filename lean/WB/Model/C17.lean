/-
  C17 — energy smoothing applies every axis smoother.   Core Lean only.

  Models of
    wannierberri/smoother.py            : AbstractSmoother.__init__ (NE1), AbstractSmoother.__call__,
                                          VoidSmoother.__call__, get_smoother (dispatch)
    wannierberri/result/energyresult.py : EnergyResult.dataSmooth (cached_property), EnergyResult.add (in place)

  An n-dimensional array is a function of its multi-index, `Arr K := (Nat → Nat) → K`
  (`idx a` = position along axis `a`); the driver builds it from a flat C-ordered list and a shape.
  The scalar type `K` is arbitrary (notation classes only), so the same definitions are proved for
  every field and executed at `Rat`.  The kernel values `smt` (cosh / exp in the code) are a
  parameter: the code's own array is handed to the model by the correspondence check.
-/
import WB.Model.IO
namespace WB.C17

/-- `Σ_{t<n} f t`, summed left to right -/
def sumTo {K : Type} [Add K] [OfNat K 0] (f : Nat → K) : Nat → K
  | 0 => 0
  | n + 1 => sumTo f n + f n

/-- what `AbstractSmoother.__init__` stores: number of energies, half-width of the kernel and the kernel
    `smt[0 .. 2·NE1]` (centre at index `NE1`) -/
structure Smoother (K : Type) where
  NE : Nat
  NE1 : Nat
  smt : Nat → K

abbrev Arr (K : Type) := (Nat → Nat) → K

/-- replace the position along axis `a` -/
def upd (idx : Nat → Nat) (a j : Nat) : Nat → Nat := fun b => if b = a then j else idx b

section
variable {K : Type} [Add K] [Mul K] [Div K] [OfNat K 0]

/-- `start = max(0, i - NE1)` (truncated subtraction) -/
def wstart (s : Smoother K) (i : Nat) : Nat := i - s.NE1
/-- `end = min(NE, i + NE1 + 1)` -/
def wend (s : Smoother K) (i : Nat) : Nat := min s.NE (i + s.NE1 + 1)
/-- `start1 = NE1 - (i - start)` -/
def wstart1 (s : Smoother K) (i : Nat) : Nat := s.NE1 - (i - wstart s i)
/-- number of terms `end - start` (= `end1 - start1`) -/
def wlen (s : Smoother K) (i : Nat) : Nat := wend s i - wstart s i

/-- `self.smt[start1:end1].sum()` -/
def wsum (s : Smoother K) (i : Nat) : K :=
  sumTo (fun t => s.smt (wstart1 s i + t)) (wlen s i)

/-- one output element of `__call__` for a 1-D input:
    `tensordot(A[start:end], smt[start1:end1]) / smt[start1:end1].sum()` -/
def smooth1 (s : Smoother K) (f : Nat → K) (i : Nat) : K :=
  sumTo (fun t => f (wstart s i + t) * s.smt (wstart1 s i + t)) (wlen s i) / wsum s i

/-- `AbstractSmoother.__call__(A, axis=a)`: the 1-D rule applied to the fibre through `idx` along axis `a`
    (the code moves axis `a` to the front, contracts it and moves it back). -/
def smoothAxis (s : Smoother K) (a : Nat) (A : Arr K) : Arr K :=
  fun idx => smooth1 s (fun j => A (upd idx a j)) (idx a)

/-- a smoother slot of an `EnergyResult`: `none` is the `VoidSmoother` (returns its argument) -/
def applySm : Option (Smoother K) → Nat → Arr K → Arr K
  | none, _, A => A
  | some s, a, A => smoothAxis s a A

/-- apply the smoothers of the listed axes, first element first -/
def applyAxes (sm : Nat → Option (Smoother K)) : List Nat → Arr K → Arr K
  | [], A => A
  | a :: l, A => applyAxes sm l (applySm (sm a) a A)

/-- `EnergyResult.dataSmooth` (repaired code): `for i in range(N-1, -1, -1): tmp = smoothers[i](tmp, axis=i)` -/
def dataSmooth (sm : Nat → Option (Smoother K)) (nE : Nat) (A : Arr K) : Arr K :=
  applyAxes sm (List.range nE).reverse A

/-- the ORIGINAL loop (`tmp = smoothers[i](self.data, axis=i)`): every pass restarts from the raw data, so
    only the last pass (axis 0) survives.  Kept to document finding F1 (`Props/C17.lean: old_dataSmooth_…`). -/
def dataSmoothOld (sm : Nat → Option (Smoother K)) (nE : Nat) (A : Arr K) : Arr K :=
  (List.range nE).reverse.foldl (fun _ i => applySm (sm i) i A) A

/-! ### the cached `dataSmooth` and the in-place `EnergyResult.add` -/

/-- the mutable part of an `EnergyResult`: the raw data and the value memoised by `cached_property` -/
structure Cached (K : Type) where
  data : Arr K
  cache : Option (Arr K)

inductive Op (K : Type)
  | read                -- evaluate `res.dataSmooth`
  | add (B : Arr K)     -- `res.add(other)`:  `self.data += other.data`

/-- what `res.dataSmooth` returns in state `s`: the memoised value if there is one, else a fresh computation -/
def observe (sm : Nat → Option (Smoother K)) (nE : Nat) (s : Cached K) : Arr K :=
  match s.cache with
  | some c => c
  | none => dataSmooth sm nE s.data

/-- repaired code: `add` drops the memoised value (`self.__dict__.pop('dataSmooth', None)`) -/
def step (sm : Nat → Option (Smoother K)) (nE : Nat) (s : Cached K) : Op K → Cached K
  | .read => { s with cache := some (observe sm nE s) }
  | .add B => { data := fun x => s.data x + B x, cache := none }

/-- ORIGINAL code: `add` left the memoised value in place -/
def stepOld (sm : Nat → Option (Smoother K)) (nE : Nat) (s : Cached K) : Op K → Cached K
  | .read => { s with cache := some (observe sm nE s) }
  | .add B => { s with data := fun x => s.data x + B x }

def runOps (sm : Nat → Option (Smoother K)) (nE : Nat) (s : Cached K) (ops : List (Op K)) : Cached K :=
  ops.foldl (step sm nE) s

/-! ### several live results: every operation that derives a result from others or mutates one

  `*`, reflected `*`, `/`, `mul_array`, `+`, `-`, `transform` and a copy through `as_dict`/`from_npz` all build the
  new object with the class constructor, i.e. WITHOUT a memoised `dataSmooth`; `add` mutates in place and drops
  the memoised value; reading `dataSmooth` (also through `max`, `_norm`, `_maxval`, `_normder`, `savetxt`)
  memoises it.  Each object carries its own smoothers (a loaded copy has void smoothers). -/

structure Obj (K : Type) where
  sm : Nat → Option (Smoother K)
  nE : Nat
  data : Arr K
  cache : Option (Arr K)

/-- what `obj.dataSmooth` returns -/
def Obj.observe (o : Obj K) : Arr K :=
  match o.cache with
  | some c => c
  | none => dataSmooth o.sm o.nE o.data

/-- what a constructor call receives -/
structure Fresh (K : Type) where
  sm : Nat → Option (Smoother K)
  nE : Nat
  data : Arr K

inductive HOp (K : Type)
  | read (i : Nat)                                   -- obj_i.dataSmooth / .max / ._norm …
  | addIn (i : Nat) (B : List (Obj K) → Arr K)       -- obj_i.add(other): in place
  | new (mk : List (Obj K) → Fresh K)                -- any derived result, built by the constructor

def updAt {α : Type} : List α → Nat → (α → α) → List α
  | [], _, _ => []
  | a :: l, 0, f => f a :: l
  | a :: l, i + 1, f => a :: updAt l i f

def hstep (h : List (Obj K)) : HOp K → List (Obj K)
  | .read i => updAt h i (fun o => { o with cache := some o.observe })
  | .addIn i B => updAt h i (fun o => { o with data := fun x => o.data x + B h x, cache := none })
  | .new mk => h ++ [{ sm := (mk h).sm, nE := (mk h).nE, data := (mk h).data, cache := none }]

def hrun (h : List (Obj K)) (ops : List (HOp K)) : List (Obj K) := ops.foldl hstep h

/-- the derived results of the code as constructor arguments -/
def mulScalar (o : Obj K) (c : K) : Fresh K := ⟨o.sm, o.nE, fun x => o.data x * c⟩
/-- `mul_array(w, axes)`: `w` is given already broadcast to the shape of the data -/
def mulArr (o : Obj K) (w : Arr K) : Fresh K := ⟨o.sm, o.nE, fun x => o.data x * w x⟩
def addObj (o p : Obj K) : Fresh K := ⟨o.sm, o.nE, fun x => o.data x + p.data x⟩
/-- `EnergyResult.from_npz(as_dict)`: same data, smoothers are not stored -/
def loadedCopy (o : Obj K) : Fresh K := ⟨fun _ => none, o.nE, o.data⟩

/-- the SEEDED 'avoid re-smoothing' shortcut: the product inherits `parent.dataSmooth * factor` when the parent
    has a memoised value -/
def mulArrPrefilled (o : Obj K) (w : Arr K) : Obj K :=
  { sm := o.sm, nE := o.nE, data := fun x => o.data x * w x,
    cache := match o.cache with | some c => some (fun x => c x * w x) | none => none }

end

/-! ### construction (`AbstractSmoother.__init__`, `get_smoother`) -/

/-- `NE1 = int(maxdE * smear / dE)` for positive arguments -/
def ne1 (maxdE smear dE : Rat) : Nat := (maxdE * smear / dE).floor.toNat

inductive Kind | void | fermiDirac | gaussian | error
deriving DecidableEq, Repr

/-- `get_smoother(energy, smear, mode)`: `hasE` = energy is not None, `len` its length,
    `smear = none` for `None`; mode 0 = "Fermi-Dirac", 1 = "Gaussian", anything else is not recognised -/
def getSmoother (hasE : Bool) (len : Nat) (smear : Option Rat) (mode : Nat) : Kind :=
  if !hasE then .void
  else match smear with
    | none => .void
    | some x =>
      if x ≤ 0 then .void
      else if len ≤ 1 then .void
      else if mode = 0 then .fermiDirac
      else if mode = 1 then .gaussian
      else .error

/-! ### driver -/
open WB.IO

/-- C-order flat index of `idx` in an array of the given shape -/
def flatIndex (shape : List Nat) (idx : Nat → Nat) : Nat :=
  (shape.zipIdx).foldl (fun acc (d, a) => acc * d + idx a) 0

/-- multi-index of flat position `p` (C order) -/
def unflatten (shape : List Nat) (p : Nat) : Nat → Nat :=
  let rec go : List Nat → Nat → List Nat → List Nat
    | [], _, acc => acc
    | d :: rest, q, acc => go rest (q / d) ((q % d) :: acc)
  let l := go shape.reverse p []
  fun a => l.getD a 0

def arrOfList (shape : List Nat) (data : List Rat) : Arr Rat :=
  fun idx => data.getD (flatIndex shape idx) 0

def listOfArr (shape : List Nat) (A : Arr Rat) : List Rat :=
  (List.range (shape.foldl (· * ·) 1)).map (fun p => A (unflatten shape p))

def mkSmoother (ne ne1 : Nat) (smt : List Rat) : Smoother Rat := ⟨ne, ne1, fun i => smt.getD i 0⟩

/-- smoother slots from tokens `k0 smt0 k1 smt1 …` (`v _` = void) -/
def parseSlots (shape : List Nat) : Nat → List String → Option (List (Option (Smoother Rat)))
  | _, [] => some []
  | a, k :: s :: rest =>
    match parseSlots shape (a + 1) rest with
    | none => none
    | some tl =>
      if k = "v" then some (none :: tl)
      else match parseNat? k, parseRats? s with
        | some n1, some smt => some (some (mkSmoother (shape.getD a 0) n1 smt) :: tl)
        | _, _ => none
  | _, _ => none

def showKind : Kind → String
  | .void => "void" | .fermiDirac => "FD" | .gaussian => "G" | .error => "error"

def handle : List String → String
  -- smooth <shape> <flat data> <axis> <NE1> <smt>
  | ["smooth", sh, d, ax, n1, smt] =>
    match parseNats? sh, parseRats? d, parseNat? ax, parseNat? n1, parseRats? smt with
    | some shape, some data, some a, some k, some w =>
      showRats (listOfArr shape (smoothAxis (mkSmoother (shape.getD a 0) k w) a (arrOfList shape data)))
    | _, _, _, _, _ => "bad-op"
  -- datasmooth|datasmoothold <shape> <flat data> <nE> k0 smt0 k1 smt1 ...
  | "datasmooth" :: sh :: d :: ne :: slots =>
    match parseNats? sh, parseRats? d, parseNat? ne with
    | some shape, some data, some nE =>
      match parseSlots shape 0 slots with
      | some sl => showRats (listOfArr shape (dataSmooth (fun i => (sl.getD i none)) nE (arrOfList shape data)))
      | none => "bad-op"
    | _, _, _ => "bad-op"
  | "datasmoothold" :: sh :: d :: ne :: slots =>
    match parseNats? sh, parseRats? d, parseNat? ne with
    | some shape, some data, some nE =>
      match parseSlots shape 0 slots with
      | some sl => showRats (listOfArr shape (dataSmoothOld (fun i => (sl.getD i none)) nE (arrOfList shape data)))
      | none => "bad-op"
    | _, _, _ => "bad-op"
  -- hist|histold <shape> <flat data> <ops: r or a:<flat rats>, '/' separated> <nE> k0 smt0 ... : final observe
  | "hist" :: sh :: d :: ops :: ne :: slots =>
    match parseNats? sh, parseRats? d, parseNat? ne, parseSlots (((parseNats? sh).getD [])) 0 slots,
          (ops.splitOn "/").mapM (fun o => if o = "r" then some (Op.read : Op Rat) else
            match o.splitOn ":" with
            | ["a", l] => (parseRats? l).map (fun b => Op.add (arrOfList ((parseNats? sh).getD []) b))
            | _ => none) with
    | some shape, some data, some nE, some sl, some ops =>
      let sm := fun i => (sl.getD i none)
      showRats (listOfArr shape (observe sm nE (runOps sm nE ⟨arrOfList shape data, none⟩ ops)))
    | _, _, _, _, _ => "bad-op"
  | "histold" :: sh :: d :: ops :: ne :: slots =>
    match parseNats? sh, parseRats? d, parseNat? ne, parseSlots (((parseNats? sh).getD [])) 0 slots,
          (ops.splitOn "/").mapM (fun o => if o = "r" then some (Op.read : Op Rat) else
            match o.splitOn ":" with
            | ["a", l] => (parseRats? l).map (fun b => Op.add (arrOfList ((parseNats? sh).getD []) b))
            | _ => none) with
    | some shape, some data, some nE, some sl, some ops =>
      let sm := fun i => (sl.getD i none)
      showRats (listOfArr shape (observe sm nE (ops.foldl (stepOld sm nE) ⟨arrOfList shape data, none⟩)))
    | _, _, _, _, _ => "bad-op"
  -- heap <shape> <flat data> <ops ';'-separated> <nE> k0 smt0 ... : observe of every live object, '|' separated
  --   r<i>  read;  a<i>:<rats> in-place add of an array;  A<i>:<j> in-place add of object j;  m<i>:<c> new = obj_i * c
  --   w<i>:<rats> new = obj_i * (array broadcast to the data shape);  p<i>:<j> new = i + j;  s<i>:<j> new = i - j
  --   c<i> new = copy through as_dict / from_npz (void smoothers)
  | "heap" :: sh :: d :: ops :: ne :: slots =>
    match parseNats? sh, parseRats? d, parseNat? ne with
    | some shape, some data, some nE =>
      match parseSlots shape 0 slots with
      | none => "bad-op"
      | some sl =>
        let sm := fun i => (sl.getD i none)
        let getO (h : List (Obj Rat)) (i : Nat) : Obj Rat := h.getD i ⟨sm, nE, fun _ => 0, none⟩
        let parseOp (o : String) : Option (HOp Rat) :=
          let tag : String := String.ofList (o.toList.take 1)
          match (String.ofList (o.toList.drop 1)).splitOn ":" with
          | [i] =>
            match parseNat? i with
            | some i => if tag = "r" then some (.read i) else if tag = "c" then some (.new (fun h => loadedCopy (getO h i))) else none
            | none => none
          | [i, x] =>
            match parseNat? i with
            | none => none
            | some i =>
              if tag = "a" then (parseRats? x).map (fun b => HOp.addIn i (fun _ => arrOfList shape b))
              else if tag = "A" then (parseNat? x).map (fun j => HOp.addIn i (fun h => (getO h j).data))
              else if tag = "m" then (parseRat? x).map (fun c => HOp.new (fun h => mulScalar (getO h i) c))
              else if tag = "w" then (parseRats? x).map (fun w => HOp.new (fun h => mulArr (getO h i) (arrOfList shape w)))
              else if tag = "p" then (parseNat? x).map (fun j => HOp.new (fun h => addObj (getO h i) (getO h j)))
              else if tag = "s" then (parseNat? x).map (fun j => HOp.new (fun h =>
                addObj (getO h i) ⟨sm, nE, fun t => (getO h j).data t * (-1), none⟩))
              else none
          | _ => none
        match (ops.splitOn ";").mapM parseOp with
        | none => "bad-op"
        | some ops =>
          let h := hrun [⟨sm, nE, arrOfList shape data, none⟩] ops
          "|".intercalate (h.map (fun o => showRats (listOfArr shape o.observe)))
    | _, _, _ => "bad-op"
  | ["ne1", m, s, d] =>
    match parseRat? m, parseRat? s, parseRat? d with
    | some m, some s, some d => toString (ne1 m s d)
    | _, _, _ => "bad-op"
  -- getsmoother <hasE> <len> <smear|none> <mode>
  | ["getsmoother", h, n, s, m] =>
    match parseBool? h, parseNat? n, parseNat? m with
    | some h, some n, some m =>
      if s = "none" then showKind (getSmoother h n none m)
      else match parseRat? s with
        | some x => showKind (getSmoother h n (some x) m)
        | none => "bad-op"
    | _, _, _ => "bad-op"
  | _ => "bad-op"

end WB.C17
