/-
  C31 — k.p models: numerical k-derivatives by the finite-difference stencil.   Core Lean only.

  Models of
    wannierberri/system/__finite_differences.py : Derivative3D.__call__
    wannierberri/system/system_kp.py            : SystemKP.__init__  (k_to_1BZ, k_red2cart, Ham / derHam / der2Ham / der3Ham
                                                   chained through Derivative3D)
  A function value is ONE matrix entry (the code multiplies entrywise: `function(k+b)[..., None] * bk_cart`).
  `find_shells` (SVD) is not modelled: its output (weights w_b, vectors b) is an input here, and the property it
  must have (Σ_b w_b b_a b_c = δ_ac, closed under b → −b) is a named hypothesis of the theorems, checked numerically
  on the real `find_shells` by the harness.
-/
import WB.Model.IO
namespace WB.C31

abbrev V3 (K : Type) := Fin 3 → K

def sum3 {K} [Add K] (f : Fin 3 → K) : K := f 0 + f 1 + f 2

def vadd {K} [Add K] (x y : V3 K) : V3 K := fun a => x a + y a

/-- `k_red2cart`: `np.dot(k, recip_lattice)` -/
def toCart {K} [Add K] [Mul K] (B : Fin 3 → Fin 3 → K) (k : V3 K) : V3 K := fun c => sum3 (fun a => k a * B a c)

/-- one stencil point: weight `wk`, displacement in reduced coordinates `bk_red`, Cartesian displacement `bk_cart` -/
structure BPoint (K : Type) where
  w : K
  bred : V3 K
  bcart : V3 K

/-- `Derivative3D.__call__`, component `e` of the new (last) axis:
      sum(wk * function(k + bk_red)[..., None] * bk_cart  for wk, bk_red, bk_cart in zip(...)) -/
def deriv3D {K} [Add K] [Mul K] [OfNat K 0] (f : V3 K → K) (k : V3 K) (e : Fin 3) : List (BPoint K) → K
  | [] => 0
  | p :: ps => p.w * f (vadd k p.bred) * p.bcart e + deriv3D f k e ps

/-- moments of the stencil `Σ_b w_b b_{a1} … b_{an}` (Cartesian components) -/
def mom {K} [Add K] [Mul K] [OfNat K 0] (g : V3 K → K) : List (BPoint K) → K
  | [] => 0
  | p :: ps => p.w * g p.bcart + mom g ps

def mom1 {K} [Add K] [Mul K] [OfNat K 0] (bs : List (BPoint K)) (a : Fin 3) : K := mom (fun b => b a) bs
def mom2 {K} [Add K] [Mul K] [OfNat K 0] (bs : List (BPoint K)) (a c : Fin 3) : K := mom (fun b => b a * b c) bs
def mom3 {K} [Add K] [Mul K] [OfNat K 0] (bs : List (BPoint K)) (a c d : Fin 3) : K :=
  mom (fun b => b a * b c * b d) bs
def mom4 {K} [Add K] [Mul K] [OfNat K 0] (bs : List (BPoint K)) (a c d e : Fin 3) : K :=
  mom (fun b => b a * b c * b d * b e) bs
def mom5 {K} [Add K] [Mul K] [OfNat K 0] (bs : List (BPoint K)) (a c d e f : Fin 3) : K :=
  mom (fun b => b a * b c * b d * b e * b f) bs

/-! ### the chain of SystemKP: Ham → derHam → der2Ham → der3Ham -/

def der1 {K} [Add K] [Mul K] [OfNat K 0] (bs : List (BPoint K)) (H : V3 K → K) (k : V3 K) (e1 : Fin 3) : K :=
  deriv3D H k e1 bs
def der2 {K} [Add K] [Mul K] [OfNat K 0] (bs : List (BPoint K)) (H : V3 K → K) (k : V3 K) (e1 e2 : Fin 3) : K :=
  deriv3D (fun k' => der1 bs H k' e1) k e2 bs
def der3 {K} [Add K] [Mul K] [OfNat K 0] (bs : List (BPoint K)) (H : V3 K → K) (k : V3 K) (e1 e2 e3 : Fin 3) : K :=
  deriv3D (fun k' => der2 bs H k' e1 e2) k e3 bs

/-! ### polynomials up to degree 3 in tensor form, and their analytic derivatives -/

/-- `c0 + Σ g_a q_a + Σ h_ac q_a q_c + Σ t_acd q_a q_c q_d` -/
def cubic {K} [Add K] [Mul K] (c0 : K) (g : Fin 3 → K) (h : Fin 3 → Fin 3 → K) (t : Fin 3 → Fin 3 → Fin 3 → K)
    (q : V3 K) : K :=
  c0 + sum3 (fun a => g a * q a) + sum3 (fun a => sum3 (fun c => h a c * q a * q c))
     + sum3 (fun a => sum3 (fun c => sum3 (fun d => t a c d * q a * q c * q d)))

/-- analytic gradient of `cubic` -/
def cubicGrad {K} [Add K] [Mul K] (g : Fin 3 → K) (h : Fin 3 → Fin 3 → K) (t : Fin 3 → Fin 3 → Fin 3 → K)
    (q : V3 K) (e : Fin 3) : K :=
  g e + sum3 (fun a => (h a e + h e a) * q a)
      + sum3 (fun a => sum3 (fun c => (t e a c + t a e c + t a c e) * q a * q c))

/-- analytic Hessian of `cubic` -/
def cubicHess {K} [Add K] [Mul K] (h : Fin 3 → Fin 3 → K) (t : Fin 3 → Fin 3 → Fin 3 → K)
    (q : V3 K) (e1 e2 : Fin 3) : K :=
  (h e2 e1 + h e1 e2)
    + sum3 (fun a => (t e1 e2 a + t e2 e1 a + t e1 a e2 + t e2 a e1 + t a e1 e2 + t a e2 e1) * q a)

/-- analytic third derivative of `cubic` (constant) -/
def cubicD3 {K} [Add K] (t : Fin 3 → Fin 3 → Fin 3 → K) (e1 e2 e3 : Fin 3) : K :=
  t e1 e2 e3 + t e2 e1 e3 + t e1 e3 e2 + t e2 e3 e1 + t e3 e1 e2 + t e3 e2 e1

/-! ### driver (Rat): monomial-list polynomials, the `k_to_1BZ` wrap, Cartesian / reduced convention -/
open WB.IO

def rpow (x : Rat) : Nat → Rat
  | 0 => 1
  | n + 1 => rpow x n * x

/-- monomial `(c, i, j, l)` = `c · x^i y^j z^l` -/
def polyEval (P : List (Rat × Nat × Nat × Nat)) (x : V3 Rat) : Rat :=
  P.foldl (fun acc m => acc + m.1 * rpow (x 0) m.2.1 * rpow (x 1) m.2.2.1 * rpow (x 2) m.2.2.2) 0

/-- `k_to_1BZ`: `(k + 0.5) % 1 - 0.5` componentwise (Python `%` on floats = x − floor(x)) -/
def wrap1 (x : Rat) : Rat := (x + 1/2) - ((x + 1/2).floor : Int) - 1/2
def wrap (k : V3 Rat) : V3 Rat := fun a => wrap1 (k a)

/-- `self.Ham = lambda k: Ham(self.k_ham_from_red(k))` -/
def hamFromRed (P : List (Rat × Nat × Nat × Nat)) (dowrap cart : Bool) (B : Fin 3 → Fin 3 → Rat) (k : V3 Rat) : Rat :=
  let k1 := if dowrap then wrap k else k
  polyEval P (if cart then toCart B k1 else k1)

def v3Of (l : List Rat) (off : Nat) : V3 Rat := fun a => l.getD (off + a.val) 0

def parseStencil (rows : List (List Rat)) : List (BPoint Rat) :=
  rows.map (fun r => ⟨r.getD 0 0, v3Of r 1, v3Of r 4⟩)

def parsePoly (rows : List (List Rat)) : List (Rat × Nat × Nat × Nat) :=
  rows.map (fun r => (r.getD 0 0, (r.getD 1 0).floor.toNat, (r.getD 2 0).floor.toNat, (r.getD 3 0).floor.toNat))

def fin3 : List (Fin 3) := [0, 1, 2]

def handle : List String → String
  -- d3d order wrap cart stencil(rows: w,bred*3,bcart*3) poly(rows: c,i,j,l) B(3 rows) k comps(e1,e2,e3 - first `order` used)
  --   → the requested component of the `order`-th numerical derivative
  | ["d3d", order, wr, ct, st, poly, b, k, comps] =>
    match parseNat? order, parseBool? wr, parseBool? ct, parseRatss? st, parseRatss? poly, parseRatss? b, parseRats? k,
          parseNats? comps with
    | some order, some wr, some ct, some st, some poly, some b, some k, some comps =>
      let bs := parseStencil st
      let P := parsePoly poly
      let B : Fin 3 → Fin 3 → Rat := fun a c => (b.getD a.val []).getD c.val 0
      let H := hamFromRed P wr ct B
      let kk := v3Of k 0
      let e (i : Nat) : Fin 3 := Fin.ofNat 3 (comps.getD i 0)
      match order with
      | 0 => showRat (H kk)
      | 1 => showRat (der1 bs H kk (e 0))
      | 2 => showRat (der2 bs H kk (e 0) (e 1))
      | 3 => showRat (der3 bs H kk (e 0) (e 1) (e 2))
      | _ => "bad-op"
    | _, _, _, _, _, _, _, _ => "bad-op"
  -- moments stencil → M1 (3) M2 (9) M3 (27)
  | ["moments", st] =>
    match parseRatss? st with
    | some st =>
      let bs := parseStencil st
      showRats (fin3.map (mom1 bs)) ++ " " ++
      showRats (fin3.flatMap (fun a => fin3.map (fun c => mom2 bs a c))) ++ " " ++
      showRats (fin3.flatMap (fun a => fin3.flatMap (fun c => fin3.map (fun d => mom3 bs a c d))))
    | none => "bad-op"
  | _ => "bad-op"

end WB.C31
